import LyModel.Valid.LemmasValdiffFresh
/-!
# Lemmas for C07 `implicit_exact_tree`: on freshly built / parsed explicit data a validation only ADDS default-flagged nodes —
the explicit part of the validated tree (`explicitPart`, at every depth) is the explicit part of the input
-/
namespace LyModel.Valid
open LyModel LyModel.Tree

theorem explicitNode_dflt (n : DNode) (h : n.flags.dflt = true) : explicitNode n = none := by
  cases n with
  | term s f m v => simp only [DNode.flags] at h; simp [explicitNode, h]
  | inner s f m ks => simp only [DNode.flags] at h; simp [explicitNode, h]

theorem explicitL_cons_dflt (n : DNode) (l : List DNode) (h : n.flags.dflt = true) : explicitL (n :: l) = explicitL l := by
  rw [explicitL, explicitNode_dflt n h]

theorem explicitL_insB_dflt (P : DNode → Bool) (n : DNode) (h : n.flags.dflt = true) : ∀ l, explicitL (insB P n l) = explicitL l
  | [] => by rw [insB, explicitL_cons_dflt n [] h]
  | x :: xs => by
    rw [insB]
    split
    · rw [explicitL_cons_dflt n _ h]
    · rw [explicitL, explicitL, explicitL_insB_dflt P n h xs]

/-- linking a default-flagged node does not change the explicit part -/
theorem explicitL_insertNode_dflt (S : Schema) (l : List DNode) (n : DNode) (h : n.flags.dflt = true) :
    explicitL (insertNode S l n) = explicitL l := by
  rw [insertNode_eq_insB]; exact explicitL_insB_dflt _ n h l

theorem explicitL_replay (S : Schema) : ∀ (es : List Ev) (sibs : List DNode), (∀ e ∈ es, e.node.flags.dflt = true) →
    explicitL (replay S sibs es) = explicitL sibs
  | [], _, _ => rfl
  | e :: es, sibs, h => by
    have : replay S sibs (e :: es) = replay S (insertNode S sibs e.node) es := rfl
    rw [this, explicitL_replay S es _ (fun e' he' => h e' (List.mem_cons_of_mem _ he')),
      explicitL_insertNode_dflt S sibs e.node (h e (List.mem_cons_self ..))]

theorem explicitNode_normNew (n : DNode) : explicitNode (normNew n) = explicitNode n := by
  unfold normNew
  split
  · cases n <;> rfl
  · rfl

theorem explicitL_map_normNew : ∀ l, explicitL (l.map normNew) = explicitL l
  | [] => rfl
  | x :: xs => by
    rw [List.map_cons, explicitL, explicitL, explicitNode_normNew, explicitL_map_normNew xs]

theorem explicitL_nil_of_all_dflt : ∀ (l : List DNode), l.all (·.flags.dflt) = true → explicitL l = []
  | [], _ => rfl
  | x :: xs, h => by
    simp only [List.all_cons, Bool.and_eq_true] at h
    rw [explicitL_cons_dflt x xs h.1]; exact explicitL_nil_of_all_dflt xs h.2

mutual
/-- every explicit non-presence container has explicit content, at every depth (what `lyd_new_*` leave: an empty one is flagged default) -/
def npFullN (S : Schema) : DNode → Bool
  | .inner s f _ ks => (!S.isNpCont s || f.dflt || !(explicitL ks).isEmpty) && npFullL S ks
  | .term .. => true
def npFullL (S : Schema) : List DNode → Bool
  | [] => true
  | n :: ns => npFullN S n && npFullL S ns
end

theorem npSet_noop (S : Schema) (s : Nat) (f : Flags) (m : List Meta) (ks : List DNode)
    (h : (!S.isNpCont s || f.dflt || !(explicitL ks).isEmpty) = true) :
    explicitNode (npSet S (.inner s f m ks)) = explicitNode (.inner s f m ks) := by
  simp only [npSet]
  split
  · rename_i hc
    simp only [Bool.and_eq_true, Bool.not_eq_true'] at hc
    have he := explicitL_nil_of_all_dflt ks hc.2
    simp [hc.1.1, hc.1.2, he] at h
  · rfl

mutual
theorem finalNode_explicit (X : SchemaX) (o : VOpts) : ∀ (n : DNode) (cx : Cx) (before : List DNode), npFullN X.base n = true →
    explicitNode (finalNode X o cx before n).1 = explicitNode n
  | .term .., _, _, _ => by simp [finalNode]
  | .inner s f m ks, cx, before, h => by
    rw [npFullN, Bool.and_eq_true] at h
    rw [finalNode]
    dsimp only
    have ih := finalKids_explicit X o ks (cx.descend X.base before (.inner s f m ks)) [] h.2
    rw [npSet_noop X.base s f m _ (by rw [ih]; exact h.1)]
    simp only [explicitNode, ih]
theorem finalKids_explicit (X : SchemaX) (o : VOpts) : ∀ (ns : List DNode) (cx : Cx) (before : List DNode), npFullL X.base ns = true →
    explicitL (finalKids X o cx before ns).1 = explicitL ns
  | [], _, _, _ => by simp [finalKids]
  | n :: ns, cx, before, h => by
    rw [npFullL, Bool.and_eq_true] at h
    rw [finalKids]
    dsimp only
    rw [explicitL, explicitL, finalNode_explicit X o n cx before h.1, finalKids_explicit X o ns cx _ h.2]
end

end LyModel.Valid

namespace LyModel.Valid
open LyModel LyModel.Tree

theorem npFullN_normNew (S : Schema) (n : DNode) : npFullN S (normNew n) = npFullN S n := by
  unfold normNew
  split
  · cases n <;> rfl
  · rfl

theorem walkList_explicit (S : Schema) (f : List DNode → DNode → DNode × Out) :
    ∀ (l before : List DNode),
      (∀ n ∈ l, ∀ before, explicitNode (f before n).1 = explicitNode n ∧ npFullN S (f before n).1 = true) →
      explicitL (walkList f before l).1 = explicitL l ∧ npFullL S (walkList f before l).1 = true
  | [], _, _ => by simp [walkList, explicitL, npFullL]
  | n :: ns, before, h => by
    rw [walkList]
    dsimp only
    obtain ⟨a1, a2⟩ := h n (List.mem_cons_self ..) before
    obtain ⟨b1, b2⟩ := walkList_explicit S f ns (before ++ [(f before n).1]) (fun k hk => h k (List.mem_cons_of_mem _ hk))
    constructor
    · rw [explicitL, explicitL, a1, b1]
    · rw [npFullL, a2, b2]; rfl

/-- what the subtree walk needs of a node: fresh children, explicit non-presence containers with explicit content -/
def WalkOk (S : Schema) (n : DNode) : Prop := freshExplL n.kids = true ∧ npFullN S n = true

theorem walkOk_of_replay (S : Schema) : ∀ (es : List Ev) (sibs : List DNode) (k : DNode), k ∈ replay S sibs es →
    (∀ y ∈ sibs, WalkOk S y) → (∀ e ∈ es, WalkOk S e.node) → WalkOk S k
  | [], sibs, k, hk, h1, _ => h1 k hk
  | e :: es, sibs, k, hk, h1, h2 => by
    apply walkOk_of_replay S es (insertNode S sibs e.node) k hk
    · intro y hy
      rcases (mem_insertNode S sibs e.node y).1 hy with rfl | hy
      · exact h2 _ (List.mem_cons_self ..)
      · exact h1 y hy
    · intro e' he'; exact h2 e' (List.mem_cons_of_mem _ he')

theorem npFullL_mem (S : Schema) : ∀ (l : List DNode), npFullL S l = true → ∀ n ∈ l, npFullN S n = true
  | [], _, n, hn => by cases hn
  | x :: xs, h, n, hn => by
    rw [npFullL, Bool.and_eq_true] at h
    rcases List.mem_cons.1 hn with rfl | hn
    · exact h.1
    · exact npFullL_mem S xs h.2 n hn

/-- a created default node (no children) is fine for the walk -/
theorem walkOk_created (S : Schema) (n : DNode) (hf : n.flags = dfltFlags) (hk : n.kids = []) : WalkOk S n := by
  cases n with
  | term s f m v => exact ⟨rfl, rfl⟩
  | inner s f m ks =>
    simp only [DNode.kids] at hk
    simp only [DNode.flags] at hf
    subst hk; subst hf
    exact ⟨rfl, by simp [npFullN, npFullL, dfltFlags]⟩

/-- **the subtree walk on fresh data keeps the explicit part** -/
theorem subtreeNode_explicit (X : SchemaX) (o : VOpts) (hok : OkBelowL X.base X.top) : ∀ (fuel : Nat) (n : DNode) (cx : Cx) (before : List DNode),
    WalkOk X.base n →
    explicitNode (subtreeNode X o fuel cx before n).1 = explicitNode n ∧ npFullN X.base (subtreeNode X o fuel cx before n).1 = true
  | 0, n, _, _, h => by simp only [subtreeNode]; exact ⟨trivial, h.2⟩
  | fuel + 1, .term s f m v, _, _, h => by simp only [subtreeNode]; exact ⟨trivial, h.2⟩
  | fuel + 1, .inner s f m ks, cx, before, h => by
    obtain ⟨hf, hnp⟩ := h
    simp only [DNode.kids] at hf
    rw [npFullN, Bool.and_eq_true] at hnp
    rw [subtreeNode]
    dsimp only
    obtain ⟨hlev, hkids⟩ := freshLevel_of ks hf
    obtain ⟨n1, _⟩ := validateNew_freshLevel X o (cx.descend X.base before (.inner s f m ks)) ks hlev
    have tr := implL_tr X o (cx.descend X.base before (.inner s f m ks)).keysOld (X.kidsOf (some s))
      (validateNew X o (cx.descend X.base before (.inner s f m ks)) ks).1 (okBelowL_kidsOf X hok (some s))
    have hdf : ∀ e ∈ (implL X o (cx.descend X.base before (.inner s f m ks)).keysOld (X.kidsOf (some s))
        (validateNew X o (cx.descend X.base before (.inner s f m ks)) ks).1).2.evs, e.node.flags = dfltFlags ∧ e.node.kids = [] := by
      intro e he
      obtain ⟨k', _, _, _, _, h4, h5, _, _⟩ := implL_below X o _ _ _ e he
      exact ⟨h4, h5⟩
    have hw := walkList_explicit X.base (subtreeNode X o fuel (cx.descend X.base before (.inner s f m ks)).keysOld)
      (implL X o (cx.descend X.base before (.inner s f m ks)).keysOld (X.kidsOf (some s))
        (validateNew X o (cx.descend X.base before (.inner s f m ks)) ks).1).1 [] (by
        intro k hk bf
        apply subtreeNode_explicit X o hok fuel k _ bf
        rw [tr.tree] at hk
        apply walkOk_of_replay X.base _ _ k hk
        · intro y hy
          rw [n1] at hy
          obtain ⟨z, hz, rfl⟩ := List.mem_map.1 hy
          exact ⟨by rw [normNew_kids]; exact hkids z hz, by rw [npFullN_normNew]; exact npFullL_mem X.base ks hnp.2 z hz⟩
        · intro e he
          exact walkOk_created X.base e.node (hdf e he).1 (hdf e he).2)
    have hex : explicitL (walkList (subtreeNode X o fuel (cx.descend X.base before (.inner s f m ks)).keysOld) []
        (implL X o (cx.descend X.base before (.inner s f m ks)).keysOld (X.kidsOf (some s))
          (validateNew X o (cx.descend X.base before (.inner s f m ks)) ks).1).1).1 = explicitL ks := by
      rw [hw.1, tr.tree, explicitL_replay X.base _ _ (fun e he => by rw [(hdf e he).1]; rfl), n1, explicitL_map_normNew]
    constructor
    · simp only [explicitNode, hex]
    · rw [npFullN, hex, hw.2, Bool.and_true]
      exact hnp.1

/-- **on fresh data a validation only adds default-flagged nodes**: the explicit part of the validated tree, at every depth, is
the explicit part of the input -/
theorem validate_fresh_explicit (X : SchemaX) (o : VOpts) (t : List DNode) (hok : OkBelowL X.base X.top)
    (hf : freshExplL t = true) (hnp : npFullL X.base t = true) (hpe : (o.present && t.isEmpty) = false) :
    explicitPart (validate X o t).tree = explicitPart t := by
  obtain ⟨htree, _⟩ := validate_evs_eq X o t hpe
  obtain ⟨hlev, hkids⟩ := freshLevel_of t hf
  obtain ⟨n1, _⟩ := validateNew_freshLevel X o {} t hlev
  have tr := implL_tr X o {} X.top (validateNew X o {} t).1 hok
  have hdf : ∀ e ∈ (implL X o {} X.top (validateNew X o {} t).1).2.evs, e.node.flags = dfltFlags ∧ e.node.kids = [] := by
    intro e he
    obtain ⟨k', _, _, _, _, h4, h5, _, _⟩ := implL_below X o _ _ _ e he
    exact ⟨h4, h5⟩
  have hw := walkList_explicit X.base (subtreeNode X o (walkFuel X t) {}) (implL X o {} X.top (validateNew X o {} t).1).1 [] (by
    intro k hk bf
    apply subtreeNode_explicit X o hok (walkFuel X t) k _ bf
    rw [tr.tree] at hk
    apply walkOk_of_replay X.base _ _ k hk
    · intro y hy
      rw [n1] at hy
      obtain ⟨z, hz, rfl⟩ := List.mem_map.1 hy
      exact ⟨by rw [normNew_kids]; exact hkids z hz, by rw [npFullN_normNew]; exact npFullL_mem X.base t hnp z hz⟩
    · intro e he
      exact walkOk_created X.base e.node (hdf e he).1 (hdf e he).2)
  show explicitL (validate X o t).tree = explicitL t
  rw [htree]
  unfold finalR
  dsimp only
  unfold subtreeKids
  rw [finalKids_explicit X o _ {} [] hw.2, hw.1, tr.tree,
    explicitL_replay X.base _ _ (fun e he => by rw [(hdf e he).1]; rfl), n1, explicitL_map_normNew]

end LyModel.Valid
