import LyModel.Valid.LemmasCompletionFresh
import LyModel.Valid.SpecDefaults
/-!
# Lemmas for C07 `implicit_exact_tree` on schemas without `choice`: the RFC completion of one sibling level is the level
`lyd_new_implicit` builds, with every container and list entry completed in place (`rfcL_eq_level`)
-/
namespace LyModel.Valid
open LyModel LyModel.Tree

/-- what `lyd_new_implicit` makes of the siblings for one non-choice schema node (the tree component of `implNode`) -/
def lvl1 (S : Schema) (o : VOpts) (k : STree) (sibs : List DNode) : List DNode :=
  let i := k.info
  if i.kind == .choice || (o.noState && !i.config) || hasInst sibs k.sid then sibs
  else
    match i.kind with
    | .container => if i.presence then sibs else insertNode S sibs (.inner k.sid dfltFlags [] [])
    | .leaf =>
      match i.dflts with
      | d :: _ => insertNode S sibs (.term k.sid dfltFlags [] d)
      | [] => sibs
    | .leaflist => i.dflts.foldl (fun acc d => insertNode S acc (.term k.sid dfltFlags [] d)) sibs
    | _ => sibs

def lvl (S : Schema) (o : VOpts) : List STree → List DNode → List DNode
  | [], sibs => sibs
  | k :: ks, sibs => lvl S o ks (lvl1 S o k sibs)

theorem implLeafList_fst (S : Schema) (cx : Cx) (sid : Nat) : ∀ (ds : List Bytes) (acc : List DNode × Out),
    (implLeafList S cx sid ds acc).1 = ds.foldl (fun a d => insertNode S a (.term sid dfltFlags [] d)) acc.1
  | [], _ => rfl
  | d :: ds, acc => by
    rw [implLeafList, implLeafList_fst S cx sid ds]
    rfl

theorem implNode_fst (S : Schema) (o : VOpts) (cx : Cx) (k : STree) (sibs : List DNode) : (implNode S o cx k sibs).1 = lvl1 S o k sibs := by
  unfold implNode lvl1
  dsimp only
  split
  · rfl
  · cases hk : k.info.kind with
    | container => simp only; split <;> rfl
    | leaf =>
      simp only
      cases hd : k.info.dflts with
      | nil => rfl
      | cons d ds => rfl
    | leaflist => simp only; rw [implLeafList_fst]
    | list => rfl
    | choice => rfl
    | case => rfl

theorem implNodes_fst (S : Schema) (o : VOpts) (cx : Cx) : ∀ (ks : List STree) (sibs : List DNode), (implNodes S o cx ks sibs).1 = lvl S o ks sibs
  | [], _ => rfl
  | k :: ks, sibs => by
    rw [implNodes, lvl]
    dsimp only
    rw [implNodes_fst S o cx ks, implNode_fst]

/-! ## maps that keep what `lyd_insert_node` looks at -/

/-- `g` keeps schema id, value and kind of node (it may change children and flags) -/
def KeepsKey (g : DNode → DNode) : Prop := ∀ x, (g x).sid = x.sid ∧ (g x).val = x.val ∧ (g x).isTerm = x.isTerm

theorem hasInst_map (g : DNode → DNode) (hg : KeepsKey g) (l : List DNode) (sid : Nat) : hasInst (l.map g) sid = hasInst l sid := by
  unfold hasInst
  induction l with
  | nil => rfl
  | cons x xs ih => simp only [List.map_cons, List.any_cons, (hg x).1, ih]

/-- the insertion place of a TERMINAL node, or of a node of an unsorted schema node, does not look at the children of the siblings -/
theorem insPred_map (S : Schema) (g : DNode → DNode) (hg : KeepsKey g) (n x : DNode) (hn : n.isTerm = true ∨ S.isSorted n.sid = false) :
    insPred S n (g x) = insPred S n x := by
  unfold insPred
  rw [(hg x).1]
  rcases hn with h | h
  · have : cmpInst S n (g x) = cmpInst S n x := by
      unfold cmpInst
      simp only [h, if_true, (hg x).2]
    rw [this]
  · simp [h]

theorem insertNode_map (S : Schema) (g : DNode → DNode) (hg : KeepsKey g) (l : List DNode) (n : DNode)
    (hn : n.isTerm = true ∨ S.isSorted n.sid = false) (hfix : g n = n) :
    (insertNode S l n).map g = insertNode S (l.map g) n := by
  rw [insertNode_eq_insB, insertNode_eq_insB]
  have := map_insB g (insPred S n) (insPred S n) n (fun x => insPred_map S g hg n x hn) l
  rw [hfix] at this
  exact this

end LyModel.Valid

namespace LyModel.Valid
open LyModel LyModel.Tree

/-! ## the completion of one level = the level of `lyd_new_implicit`, every container / list entry completed in place -/

/-- the in-place completion `rfcNode` makes of an instance of the container / list `k` -/
def deepK (X : SchemaX) (o : VOpts) (k : STree) (n : DNode) : DNode :=
  match k.info.kind with
  | .container => npSet X.base (n.setKids (rfcL X o k.kids n.kids))
  | .list => n.setKids (rfcL X o k.kids n.kids)
  | _ => n

def deep1 (X : SchemaX) (o : VOpts) (k : STree) (n : DNode) : DNode := if n.sid == k.sid then deepK X o k n else n

/-- every node completed by the schema node of the level it is an instance of -/
def deepR (X : SchemaX) (o : VOpts) : List STree → DNode → DNode
  | [], n => n
  | k :: ks, n => if n.sid == k.sid then deepK X o k n else deepR X o ks n

attribute [simp] npSet_sid
@[simp] theorem npSet_val (S : Schema) (n : DNode) : (npSet S n).val = n.val := by
  cases n with
  | term => rfl
  | inner s f m ks => simp only [npSet]; split <;> rfl
@[simp] theorem npSet_isTerm (S : Schema) (n : DNode) : (npSet S n).isTerm = n.isTerm := by
  cases n with
  | term => rfl
  | inner s f m ks => simp only [npSet]; split <;> rfl
@[simp] theorem setKids_sid (n : DNode) (ks : List DNode) : (n.setKids ks).sid = n.sid := by cases n <;> rfl
@[simp] theorem setKids_val (n : DNode) (ks : List DNode) : (n.setKids ks).val = n.val := by cases n <;> rfl
@[simp] theorem setKids_isTerm (n : DNode) (ks : List DNode) : (n.setKids ks).isTerm = n.isTerm := by cases n <;> rfl

theorem deepK_keeps (X : SchemaX) (o : VOpts) (k : STree) (n : DNode) :
    (deepK X o k n).sid = n.sid ∧ (deepK X o k n).val = n.val ∧ (deepK X o k n).isTerm = n.isTerm := by
  unfold deepK
  split <;> simp

theorem deep1_keeps (X : SchemaX) (o : VOpts) (k : STree) : KeepsKey (deep1 X o k) := by
  intro x
  unfold deep1
  split
  · exact deepK_keeps X o k x
  · exact ⟨rfl, rfl, rfl⟩

theorem map_deep1_noInst (X : SchemaX) (o : VOpts) (k : STree) : ∀ (l : List DNode), hasInst l k.sid = false → l.map (deep1 X o k) = l
  | [], _ => rfl
  | x :: xs, h => by
    simp only [hasInst, List.any_cons, Bool.or_eq_false_iff] at h
    have := map_deep1_noInst X o k xs (by simpa [hasInst] using h.2)
    simp only [List.map_cons, this, deep1, h.1, Bool.false_eq_true, if_false]

theorem map_deep1_id (X : SchemaX) (o : VOpts) (k : STree) (hk : ∀ n, deepK X o k n = n) : ∀ (l : List DNode), l.map (deep1 X o k) = l
  | [] => rfl
  | x :: xs => by
    simp only [List.map_cons, map_deep1_id X o k hk xs, deep1, hk, ite_self]

theorem isSorted_container (S : Schema) (k : STree) (hk : S.get? k.sid = some k.info) (hc : k.info.kind = .container) : S.isSorted k.sid = false := by
  unfold Schema.isSorted
  rw [hk]
  simp [hc]

theorem insertNode_map' (S : Schema) (g : DNode → DNode) (hg : KeepsKey g) (l : List DNode) (n : DNode)
    (hn : S.isSorted n.sid = false) : (insertNode S l n).map g = insertNode S (l.map g) (g n) := by
  rw [insertNode_eq_insB, insertNode_eq_insB]
  apply map_insB
  intro x
  unfold insPred
  simp [(hg n).1, (hg x).1, hn]

/-- **one schema node of the level** (no `choice` / `case`, all data): the RFC completion = what `lyd_new_implicit` links, with
the instances of a container / list completed in place -/
theorem rfcNode_eq (X : SchemaX) (o : VOpts) (k : STree) (sibs : List DNode) (hno : o.noState = false)
    (hk1 : k.info.kind ≠ .choice) (hk2 : k.info.kind ≠ .case) (hok : X.base.get? k.sid = some k.info) :
    rfcNode X o k sibs = (lvl1 X.base o k sibs).map (deep1 X o k) := by
  cases k with
  | mk s i ks =>
    simp only [STree.info] at hk1 hk2 hok
    rw [rfcNode]
    simp only [hno, Bool.false_and, Bool.false_eq_true, if_false]
    unfold lvl1
    simp only [STree.info, STree.sid, hno, Bool.false_and, Bool.or_false]
    have hch : (i.kind == SKind.choice) = false := by simpa using hk1
    simp only [hch, Bool.false_or]
    cases hkind : i.kind with
    | choice => exact absurd hkind hk1
    | case => exact absurd hkind hk2
    | leaf =>
      have hid : ∀ n, deepK X o (.mk s i ks) n = n := by intro n; simp [deepK, STree.info, hkind]
      rw [map_deep1_id X o _ hid]
      cases hd : i.dflts with
      | nil => simp
      | cons d ds =>
        cases hh : hasInst sibs s <;> simp
    | leaflist =>
      have hid : ∀ n, deepK X o (.mk s i ks) n = n := by intro n; simp [deepK, STree.info, hkind]
      rw [map_deep1_id X o _ hid]
    | list =>
      have : (if hasInst sibs s = true then sibs else sibs) = sibs := by split <;> rfl
      simp only [this]
      apply List.map_congr_left
      intro n _
      simp only [deep1, STree.sid, deepK, STree.info, hkind, STree.kids]
    | container =>
      cases hh : hasInst sibs s with
      | true =>
        simp only [if_true]
        apply List.map_congr_left
        intro n _
        simp only [deep1, STree.sid, deepK, STree.info, hkind, STree.kids]
      | false =>
        simp only [Bool.false_eq_true, if_false]
        by_cases hp : i.presence = true
        · simp only [hp, if_true]
          rw [map_deep1_noInst X o (.mk s i ks) sibs hh]
        · have hp' : i.presence = false := by simpa using hp
          simp only [hp', Bool.false_eq_true, if_false]
          rw [insertNode_map' X.base _ (deep1_keeps X o (.mk s i ks)) sibs (.inner s dfltFlags [] [])
            (isSorted_container X.base (.mk s i ks) hok hkind), map_deep1_noInst X o (.mk s i ks) sibs hh]
          simp [deep1, STree.sid, deepK, STree.info, hkind, STree.kids, DNode.setKids, npSet, dfltFlags, DNode.kids, DNode.sid]

end LyModel.Valid

namespace LyModel.Valid
open LyModel LyModel.Tree

theorem foldl_insertNode_map (S : Schema) (g : DNode → DNode) (hg : KeepsKey g) (sid : Nat)
    (hfix : ∀ n, n.sid = sid → n.flags = dfltFlags → n.kids = [] → g n = n) :
    ∀ (ds : List Bytes) (l : List DNode),
      (ds.foldl (fun acc d => insertNode S acc (.term sid dfltFlags [] d)) l).map g =
        ds.foldl (fun acc d => insertNode S acc (.term sid dfltFlags [] d)) (l.map g)
  | [], _ => rfl
  | d :: ds, l => by
    simp only [List.foldl_cons]
    rw [foldl_insertNode_map S g hg sid hfix ds, insertNode_map S g hg l _ (Or.inl rfl) (hfix _ rfl rfl rfl)]

/-- the level of `lyd_new_implicit` does not look at the children of the siblings: it commutes with a map that keeps schema id,
value and kind of node and leaves the instances of `k` alone -/
theorem lvl1_map (S : Schema) (o : VOpts) (g : DNode → DNode) (hg : KeepsKey g) (k : STree) (hok : S.get? k.sid = some k.info)
    (hfix : ∀ n, n.sid = k.sid → n.flags = dfltFlags → n.kids = [] → g n = n) (l : List DNode) :
    lvl1 S o k (l.map g) = (lvl1 S o k l).map g := by
  unfold lvl1
  dsimp only
  rw [hasInst_map g hg]
  split
  · rfl
  · cases hkind : k.info.kind with
    | container =>
      simp only
      split
      · rfl
      · rw [insertNode_map S g hg l (.inner k.sid dfltFlags [] []) (Or.inr (isSorted_container S k hok hkind)) (hfix _ rfl rfl rfl)]
    | leaf =>
      simp only
      cases hd : k.info.dflts with
      | nil => rfl
      | cons d ds =>
        simp only
        rw [insertNode_map S g hg l _ (Or.inl rfl) (hfix _ rfl rfl rfl)]
    | leaflist =>
      simp only
      rw [foldl_insertNode_map S g hg k.sid hfix]
    | list => rfl
    | choice => rfl
    | case => rfl

theorem lvl_map (S : Schema) (o : VOpts) (g : DNode → DNode) (hg : KeepsKey g) : ∀ (ks : List STree) (l : List DNode),
    (∀ k ∈ ks, S.get? k.sid = some k.info) → (∀ k ∈ ks, ∀ n, n.sid = k.sid → n.flags = dfltFlags → n.kids = [] → g n = n) →
      lvl S o ks (l.map g) = (lvl S o ks l).map g
  | [], _, _, _ => rfl
  | k :: ks, l, hok, hfix => by
    rw [lvl, lvl, lvl1_map S o g hg k (hok k (List.mem_cons_self ..)) (hfix k (List.mem_cons_self ..)),
      lvl_map S o g hg ks _ (fun k' hk' => hok k' (List.mem_cons_of_mem _ hk')) (fun k' hk' => hfix k' (List.mem_cons_of_mem _ hk'))]

theorem deepR_notin (X : SchemaX) (o : VOpts) : ∀ (ks : List STree) (n : DNode), (∀ k ∈ ks, k.sid ≠ n.sid) → deepR X o ks n = n
  | [], _, _ => rfl
  | k :: ks, n, h => by
    have h1 : (n.sid == k.sid) = false := by
      have := h k (List.mem_cons_self ..)
      simpa using fun e => this e.symm
    rw [deepR]
    simp only [h1, Bool.false_eq_true, if_false]
    exact deepR_notin X o ks n (fun k' hk' => h k' (List.mem_cons_of_mem _ hk'))

/-- the schema nodes of a data level: no `choice`, no `case`, table rows = statement records, different ids -/
def DataLevel (S : Schema) (ks : List STree) : Prop :=
  (∀ k ∈ ks, k.info.kind ≠ .choice ∧ k.info.kind ≠ .case ∧ S.get? k.sid = some k.info) ∧ (ks.map (·.sid)).Nodup

/-- **the RFC completion of one level** (`rfcL` over schema nodes without `choice`): the level of `lyd_new_implicit`, then every
container and list entry completed in place -/
theorem rfcL_eq_level (X : SchemaX) (o : VOpts) (hno : o.noState = false) : ∀ (ks : List STree) (l : List DNode), DataLevel X.base ks →
    rfcL X o ks l = (lvl X.base o ks l).map (deepR X o ks)
  | [], l, _ => by
    rw [rfcL, lvl]
    have : (fun n => deepR X o [] n) = id := rfl
    simp [deepR]
  | k :: ks, l, h => by
    obtain ⟨h1, h2⟩ := h
    have hk := h1 k (List.mem_cons_self ..)
    simp only [List.map_cons, List.nodup_cons] at h2
    have hks : DataLevel X.base ks := ⟨fun k' hk' => h1 k' (List.mem_cons_of_mem _ hk'), h2.2⟩
    rw [rfcL, rfcNode_eq X o k l hno hk.1 hk.2.1 hk.2.2, rfcL_eq_level X o hno ks _ hks, lvl,
      lvl_map X.base o (deep1 X o k) (deep1_keeps X o k) ks _ (fun k' hk' => (h1 k' (List.mem_cons_of_mem _ hk')).2.2) (by
        intro k' hk' n hn _ _
        unfold deep1
        have : (n.sid == k.sid) = false := by
          rw [hn]
          have : k'.sid ≠ k.sid := by
            intro e
            apply h2.1
            rw [← e]
            exact List.mem_map.2 ⟨k', hk', rfl⟩
          simpa using this
        simp [this]),
      List.map_map]
    apply List.map_congr_left
    intro n _
    simp only [Function.comp, deep1, deepR]
    by_cases hs : (n.sid == k.sid) = true
    · simp only [hs, if_true]
      apply deepR_notin
      intro k' hk' e
      apply h2.1
      have h3 : (deepK X o k n).sid = n.sid := (deepK_keeps X o k n).1
      have h4 : n.sid = k.sid := by simpa using hs
      rw [← h4, ← h3, ← e]
      exact List.mem_map.2 ⟨k', hk', rfl⟩
    · have hs' : (n.sid == k.sid) = false := by simpa using hs
      simp only [hs', Bool.false_eq_true, if_false]

end LyModel.Valid
