import LyModel.Valid.XpWhenSimple
/-!
# The `when` phase on the class where nothing is deleted and nothing is deferred

* `wi_evalWhens_holds_iff`: `evalWhens … = .holds` iff no when of the node is deferred (`mayTouch`) and each evaluates to true;
* `whenPhaseG_quiet` / `whenPhase_quiet` (direction "all hold ⇒ nothing logged", PROVED): if on every tree of the shape of the input
  every when of every when-node holds, the phase logs nothing (no `NoWhen` / `Other`, no delete event) and changes flags only;
* `whenPhaseG_quiet_conv` (direction "nothing logged ⇒ …", PARTIAL): see the end of the file.
The quantification over the trees of the same shape stands for "the flags set so far": the phase evaluates every when on a tree
that differs from the input by `whenTrue` flags only.
-/
namespace LyModel.Valid
open LyModel LyModel.Tree

/-! ## `evalWhens` -/

theorem wi_evalWhens_holds_iff (ev : XpEv) (S : Schema) (W : WhenTab) (T : List DNode) (p : NPath) : ∀ (ws : List (Bool × Bytes)),
    evalWhens ev S W T p ws = .holds ↔
      ∀ w ∈ ws, mayTouch S W T (if w.1 then p else p.dropLast) w.2 = false ∧
        ev T (elemNo T (if w.1 then p else p.dropLast)) w.2 = .ok true := by
  intro ws
  induction ws with
  | nil => simp [evalWhens]
  | cons w rest ih =>
    obtain ⟨self, e⟩ := w
    rw [evalWhens]
    simp only [List.mem_cons, forall_eq_or_imp]
    cases hm : mayTouch S W T (if self = true then p else p.dropLast) e with
    | true => simp
    | false =>
      simp only [Bool.false_eq_true, if_false, true_and]
      cases hv : ev T (elemNo T (if self = true then p else p.dropLast)) e with
      | error u => simp
      | ok b =>
        cases b with
        | false => simp
        | true => simp only [true_and]; exact ih

/-! ## all hold ⇒ nothing is logged -/

/-- the hypothesis: on every tree of the shape of `T`, every when of every when-node of `T` holds -/
def wi_AllHold (ev : XpEv) (X : SchemaX) (W : WhenTab) (T : List DNode) : Prop :=
  ∀ T', shapeL T' = shapeL T → ∀ p ∈ whenSet X.base W T, ∀ n, getAt T' p = some n →
    evalWhens ev X.base W T' p (whensOf X.base W n.sid) = .holds

/-- the invariant of the rounds -/
def wi_Inv (X : SchemaX) (W : WhenTab) (T : List DNode) (st : WSt) : Prop :=
  shapeL st.tree = shapeL T ∧ (∀ p ∈ st.set, p ∈ whenSet X.base W T) ∧ st.out = {}

theorem wi_mem_eraseIdx {α : Type} {l : List α} {i : Nat} {x : α} (h : x ∈ l.eraseIdx i) : x ∈ l :=
  List.mem_of_mem_eraseIdx h

theorem wi_stepAt_inv (ev : XpEv) (X : SchemaX) (W : WhenTab) (o : VOpts) (T : List DNode) (hall : wi_AllHold ev X W T)
    (st : WSt) (i : Nat) (h : wi_Inv X W T st) : wi_Inv X W T (stepAt ev X W o st i) := by
  obtain ⟨hsh, hset, hout⟩ := h
  unfold stepAt
  split
  · exact ⟨hsh, hset, hout⟩
  · rename_i p hp
    have hpm : p ∈ st.set := List.mem_of_getElem? hp
    split
    · rename_i n cx sibs idx hn _
      have hev := hall st.tree hsh p (hset p hpm) n hn
      dsimp only
      rw [hev]
      exact ⟨by rw [shapeL_modifyAt_flag]; exact hsh, fun q hq => hset q (wi_mem_eraseIdx hq), hout⟩
    · exact ⟨hsh, fun q hq => hset q (wi_mem_eraseIdx hq), hout⟩

theorem wi_roundGo_inv (ev : XpEv) (X : SchemaX) (W : WhenTab) (o : VOpts) (T : List DNode) (hall : wi_AllHold ev X W T) :
    ∀ (i : Nat) (st : WSt), wi_Inv X W T st → wi_Inv X W T (roundGo ev X W o i st) := by
  intro i
  induction i with
  | zero => intro st h; exact h
  | succ i ih => intro st h; rw [roundGo]; exact ih _ (wi_stepAt_inv ev X W o T hall st i h)

theorem wi_rounds_inv (ev : XpEv) (X : SchemaX) (W : WhenTab) (o : VOpts) (T : List DNode) (hall : wi_AllHold ev X W T) :
    ∀ (f : Nat) (st : WSt), wi_Inv X W T st → wi_Inv X W T (rounds ev X W o f st) := by
  intro f
  induction f with
  | zero => intro st h; exact h
  | succ f ih =>
    intro st h
    rw [rounds]
    have hr : wi_Inv X W T (round ev X W o st) := wi_roundGo_inv ev X W o T hall _ st h
    split
    · exact ih _ hr
    · exact hr

/-- **all whens hold ⇒ the phase logs nothing and changes flags only** -/
theorem whenPhaseG_quiet (ev : XpEv) (X : SchemaX) (W : WhenTab) (o : VOpts) (T : List DNode) (hall : wi_AllHold ev X W T) :
    (whenPhaseG ev X W o T).2 = {} ∧ shapeL (whenPhaseG ev X W o T).1 = shapeL T := by
  unfold whenPhaseG
  have h := wi_rounds_inv ev X W o T hall ((whenSet X.base W T).length + 1) { tree := T, set := whenSet X.base W T }
    ⟨rfl, fun _ hp => hp, rfl⟩
  exact ⟨h.2.2, h.1⟩

theorem whenPhase_quiet (X : SchemaX) (C : XCons) (o : VOpts) (T : List DNode)
    (hall : wi_AllHold (xpBool C.mask X.base) X C.whens (markImpl X.base C.whens T)) :
    (whenPhase X C o T).2.errs = [] ∧ (whenPhase X C o T).2.evs = [] ∧ shapeL (whenPhase X C o T).1 = shapeL T := by
  unfold whenPhase whenPhaseM
  have h := whenPhaseG_quiet (xpBool C.mask X.base) X C.whens o _ hall
  rw [h.1]
  refine ⟨rfl, rfl, ?_⟩
  rw [h.2]
  exact xs_shapeL_markImpl _ T

/-! ## nothing is logged ⇒ every when-node was evaluated, on a tree of the same shape, without a false or failing when

PARTIAL converse: the result of the evaluation is `holds` or `incomplete` (deferred), or the path is stale (`none`); excluding the
last two needs the stability of `mayTouch` under setting flags and the validity of the paths of `whenSet` (not proved here). -/

/-- what `stepAt` computes for the node at `p` of the tree `T'` -/
def wi_resAt (ev : XpEv) (X : SchemaX) (W : WhenTab) (T' : List DNode) (p : NPath) : Option WhenRes :=
  match getAt T' p, levelOf X.base {} T' p with
  | some n, some _ => some (evalWhens ev X.base W T' p (whensOf X.base W n.sid))
  | _, _ => none

def wi_good (r : Option WhenRes) : Prop := r = none ∨ r = some .holds ∨ r = some .incomplete

theorem wi_items_nil {a : Out} (h : a.items = []) : a = {} := Out.ext' h

theorem wi_append_nil {a x : Out} (h : a ++ x = ({} : Out)) : a = {} ∧ x = {} := by
  have : (a ++ x).items = [] := by rw [h]
  rw [Out.append_items, List.append_eq_nil_iff] at this
  exact ⟨wi_items_nil this.1, wi_items_nil this.2⟩

theorem wi_err_ne (k : EKind) (p : Bytes) : Out.err k p ≠ {} := by
  intro h
  have : (Out.err k p).items = [] := by rw [h]
  cases this

theorem wi_del_ne (X : SchemaX) (cx : Cx) (before : List DNode) (n : DNode) : Out.ofEvs (delEvents X cx true before n) ≠ {} := by
  intro h
  have := xs_delEvents_ne X cx before n
  rw [h] at this
  exact this rfl

theorem wi_eraseIdx_lt {α : Type} : ∀ (l : List α) (i j : Nat), j < i → (l.eraseIdx i)[j]? = l[j]?
  | [], _, _, _ => rfl
  | _ :: _, 0, _, h => absurd h (Nat.not_lt_zero _)
  | x :: xs, i + 1, 0, _ => rfl
  | x :: xs, i + 1, j + 1, h => by
    rw [List.eraseIdx_cons_succ, List.getElem?_cons_succ, List.getElem?_cons_succ]
    exact wi_eraseIdx_lt xs i j (Nat.lt_of_succ_lt_succ h)

/-- the outcomes of one step -/
theorem wi_stepAt_spec (ev : XpEv) (X : SchemaX) (W : WhenTab) (o : VOpts) (st : WSt) (i : Nat) :
    (st.set[i]? = none ∧ stepAt ev X W o st i = st) ∨
    ∃ p, st.set[i]? = some p ∧
      ((wi_resAt ev X W st.tree p = none ∧ stepAt ev X W o st i = { st with set := st.set.eraseIdx i }) ∨
       (wi_resAt ev X W st.tree p = some .incomplete ∧ stepAt ev X W o st i = st) ∨
       (wi_resAt ev X W st.tree p = some .holds ∧
          stepAt ev X W o st i = { st with tree := modifyAt setWhenTrue st.tree p, set := st.set.eraseIdx i }) ∨
       (∃ x : Out, x ≠ {} ∧ (stepAt ev X W o st i).out = st.out ++ x) ∨
       o.operational = true) := by
  unfold stepAt
  split
  · rename_i h0
    exact Or.inl ⟨h0, rfl⟩
  · rename_i p hp
    refine Or.inr ⟨p, hp, ?_⟩
    split
    · rename_i n cx sibs idx hn hl
      have hres : wi_resAt ev X W st.tree p = some (evalWhens ev X.base W st.tree p (whensOf X.base W n.sid)) := by
        unfold wi_resAt; rw [hn, hl]
      dsimp only
      cases hr : evalWhens ev X.base W st.tree p (whensOf X.base W n.sid) with
      | incomplete => exact Or.inr (Or.inl ⟨by rw [hres, hr], rfl⟩)
      | error => exact Or.inr (Or.inr (Or.inr (Or.inl ⟨_, wi_err_ne _ _, rfl⟩)))
      | holds => exact Or.inr (Or.inr (Or.inl ⟨by rw [hres, hr], rfl⟩))
      | fails =>
        dsimp only
        split
        · exact Or.inr (Or.inr (Or.inr (Or.inl ⟨_, wi_del_ne X _ _ _, rfl⟩)))
        · split
          · rename_i hopt
            exact Or.inr (Or.inr (Or.inr (Or.inr hopt)))
          · exact Or.inr (Or.inr (Or.inr (Or.inl ⟨_, wi_err_ne _ _, rfl⟩)))
    · rename_i hno
      have hres : wi_resAt ev X W st.tree p = none := by
        unfold wi_resAt
        split
        · rename_i n lv hn hl
          obtain ⟨cx, sibs, idx⟩ := lv
          exact (hno n cx sibs idx hn hl).elim
        · rfl
      exact Or.inl ⟨hres, rfl⟩

theorem wi_stepAt_conv (ev : XpEv) (X : SchemaX) (W : WhenTab) (o : VOpts) (hop : o.operational = false) (st : WSt) (i : Nat)
    (h : (stepAt ev X W o st i).out = {}) :
    st.out = {} ∧ shapeL (stepAt ev X W o st i).tree = shapeL st.tree ∧
      (∀ p, st.set[i]? = some p → wi_good (wi_resAt ev X W st.tree p)) ∧
      (∀ j, j < i → (stepAt ev X W o st i).set[j]? = st.set[j]?) := by
  rcases wi_stepAt_spec ev X W o st i with ⟨h0, e⟩ | ⟨p, hp, hc⟩
  · rw [e] at h ⊢
    exact ⟨h, rfl, fun q hq => (by rw [h0] at hq; cases hq), fun _ _ => rfl⟩
  · have hq : ∀ q, st.set[i]? = some q → q = p := fun q hq => by rw [hp] at hq; injection hq with hq; exact hq.symm
    rcases hc with ⟨hr, e⟩ | ⟨hr, e⟩ | ⟨hr, e⟩ | ⟨x, hx, e⟩ | hopt
    · rw [e] at h ⊢
      exact ⟨h, rfl, fun q hq' => (by rw [hq q hq', hr]; exact Or.inl rfl), fun j hj => wi_eraseIdx_lt _ _ _ hj⟩
    · rw [e] at h ⊢
      exact ⟨h, rfl, fun q hq' => (by rw [hq q hq', hr]; exact Or.inr (Or.inr rfl)), fun _ _ => rfl⟩
    · rw [e] at h ⊢
      exact ⟨h, shapeL_modifyAt_flag _ _, fun q hq' => (by rw [hq q hq', hr]; exact Or.inr (Or.inl rfl)),
        fun j hj => wi_eraseIdx_lt _ _ _ hj⟩
    · rw [e] at h
      exact absurd (wi_append_nil h).2 hx
    · rw [hop] at hopt; cases hopt

/-- a stretch of a round that logs nothing: every node it passed was evaluated on a tree of the same shape, without a false or
failing when -/
theorem wi_roundGo_conv (ev : XpEv) (X : SchemaX) (W : WhenTab) (o : VOpts) (hop : o.operational = false) : ∀ (i : Nat) (st : WSt),
    (roundGo ev X W o i st).out = {} →
    st.out = {} ∧ shapeL (roundGo ev X W o i st).tree = shapeL st.tree ∧
      ∀ j, j < i → ∀ p, st.set[j]? = some p → ∃ T', shapeL T' = shapeL st.tree ∧ wi_good (wi_resAt ev X W T' p) := by
  intro i
  induction i with
  | zero => intro st h; exact ⟨h, rfl, fun j hj => absurd hj (Nat.not_lt_zero _)⟩
  | succ i ih =>
    intro st h
    rw [roundGo] at h ⊢
    obtain ⟨h1, hs1, hev1⟩ := ih _ h
    obtain ⟨h0, hs0, hev0, hset0⟩ := wi_stepAt_conv ev X W o hop st i h1
    refine ⟨h0, by rw [hs1, hs0], ?_⟩
    intro j hj p hp
    by_cases hji : j = i
    · subst hji
      exact ⟨st.tree, rfl, hev0 p hp⟩
    · have hlt : j < i := by omega
      obtain ⟨T', hT', hg⟩ := hev1 j hlt p (by rw [hset0 j hlt]; exact hp)
      exact ⟨T', by rw [hT', hs0], hg⟩

/-- **PARTIAL converse**: when the phase logs nothing (no error, no delete event; without `LYD_VALIDATE_OPERATIONAL`), every
when-node of the input was evaluated in the first round on a tree of the shape of the input, and the outcome was `holds`, or the
evaluation was deferred (`incomplete`), or the path was stale (`none`) -/
theorem whenPhaseG_quiet_conv (ev : XpEv) (X : SchemaX) (W : WhenTab) (o : VOpts) (hop : o.operational = false) (T : List DNode)
    (h : (whenPhaseG ev X W o T).2 = {}) :
    ∀ p ∈ whenSet X.base W T, ∃ T', shapeL T' = shapeL T ∧ wi_good (wi_resAt ev X W T' p) := by
  unfold whenPhaseG at h
  dsimp only at h
  rw [rounds] at h
  dsimp only at h
  -- the first round logs nothing
  have h1 : (round ev X W o { tree := T, set := whenSet X.base W T }).out = {} := by
    split at h
    · obtain ⟨x, hx, _⟩ := xs_rounds_step ev X W o (whenSet X.base W T).length (round ev X W o { tree := T, set := whenSet X.base W T })
      rw [hx] at h
      exact (wi_append_nil h).1
    · exact h
  have hr := wi_roundGo_conv ev X W o hop (whenSet X.base W T).length { tree := T, set := whenSet X.base W T } h1
  intro p hp
  obtain ⟨j, hj, hjp⟩ := List.getElem_of_mem hp
  exact hr.2.2 j hj p (by rw [List.getElem?_eq_getElem hj, hjp])

/-! ## excluding "deferred" and "stale" -/

theorem wi_incomplete_touch (ev : XpEv) (S : Schema) (W : WhenTab) (T : List DNode) (p : NPath) : ∀ (ws : List (Bool × Bytes)),
    evalWhens ev S W T p ws = .incomplete → ∃ w ∈ ws, mayTouch S W T (if w.1 then p else p.dropLast) w.2 = true := by
  intro ws
  induction ws with
  | nil => intro h; rw [evalWhens] at h; cases h
  | cons w rest ih =>
    obtain ⟨self, e⟩ := w
    intro h
    rw [evalWhens] at h
    cases hm : mayTouch S W T (if self = true then p else p.dropLast) e with
    | true => exact ⟨(self, e), List.mem_cons_self, hm⟩
    | false =>
      rw [hm] at h
      simp only [Bool.false_eq_true, if_false] at h
      cases hv : ev T (elemNo T (if self = true then p else p.dropLast)) e with
      | error u => rw [hv] at h; cases h
      | ok b =>
        rw [hv] at h
        cases b with
        | false => cases h
        | true =>
          obtain ⟨w, hw, ht⟩ := ih h
          exact ⟨w, List.mem_cons_of_mem _ hw, ht⟩

theorem wi_shapeL_map : ∀ (l : List DNode), shapeL l = l.map shapeN
  | [] => by rw [shapeL]; rfl
  | n :: ns => by rw [shapeL, wi_shapeL_map ns]; rfl

/-- the node at a path of the shape is the shape of the node at the path -/
theorem wi_getAt_shape : ∀ (p : NPath) (T : List DNode), getAt (shapeL T) p = (getAt T p).map shapeN
  | [], T => by rw [getAt, getAt]; rfl
  | [i], T => by rw [getAt, getAt, wi_shapeL_map, List.getElem?_map]
  | i :: j :: rest, T => by
    rw [getAt, getAt, wi_shapeL_map, List.getElem?_map]
    · cases hT : T[i]? with
      | none => rfl
      | some n =>
        simp only [Option.map_some]
        rw [shapeN_kids]
        exact wi_getAt_shape (j :: rest) n.kids
    · intro h; cases h
    · intro h; cases h

/-- validity of a path depends on the shape only -/
theorem wi_getAt_isSome_of_shape {T T' : List DNode} (h : shapeL T' = shapeL T) (p : NPath) :
    (getAt T' p).isSome = (getAt T p).isSome := by
  have h1 := wi_getAt_shape p T'
  have h2 := wi_getAt_shape p T
  rw [h] at h1
  rw [h2] at h1
  cases hT' : getAt T' p <;> cases hT : getAt T p <;> rw [hT', hT] at h1 <;> first | rfl | cases h1

/-- `levelOf` succeeds exactly on the valid paths -/
theorem wi_levelOf_isSome (S : Schema) : ∀ (p : NPath) (cx : Cx) (T : List DNode),
    (getAt T p).isSome = true → (levelOf S cx T p).isSome = true
  | [], _, T, h => by rw [getAt] at h; cases h
  | [i], cx, T, _ => by rw [levelOf]; rfl
  | i :: j :: rest, cx, T, h => by
    rw [getAt] at h
    · rw [levelOf]
      · cases hT : T[i]? with
        | none => rw [hT] at h; cases h
        | some n =>
          rw [hT] at h
          exact wi_levelOf_isSome S (j :: rest) _ n.kids h
      · intro h; cases h
    · intro h; cases h

theorem wi_getAt_cons {T : List DNode} {k : Nat} {n : DNode} {r : NPath} (hk : T[k]? = some n)
    (hr : r = [] ∨ (getAt n.kids r).isSome = true) : (getAt T (k :: r)).isSome = true := by
  cases r with
  | nil => rw [getAt, hk]; rfl
  | cons j rest =>
    rw [getAt, hk]
    · rcases hr with hr | hr
      · cases hr
      · exact hr
    · intro h; cases h

mutual
theorem wi_npathsN_valid (P : DNode → Bool) : ∀ (n : DNode) (pfx q : NPath), q ∈ npathsN P pfx n →
    ∃ r, q = pfx ++ r ∧ (r = [] ∨ (getAt n.kids r).isSome = true)
  | .inner s f m ks, pfx, q, h => by
    rw [npathsN, List.mem_append] at h
    rcases h with h | h
    · split at h
      · rw [List.mem_singleton] at h
        exact ⟨[], by rw [h, List.append_nil], Or.inl rfl⟩
      · cases h
    · obtain ⟨k, r, hq, n', hn', hr⟩ := wi_npathsL_valid P ks pfx 0 q h
      refine ⟨k :: r, by rw [hq, Nat.zero_add], Or.inr ?_⟩
      exact wi_getAt_cons hn' hr
  | .term s f m v, pfx, q, h => by
    rw [npathsN] at h
    split at h
    · rw [List.mem_singleton] at h
      exact ⟨[], by rw [h, List.append_nil], Or.inl rfl⟩
    · cases h
theorem wi_npathsL_valid (P : DNode → Bool) : ∀ (ns : List DNode) (pfx : NPath) (i : Nat) (q : NPath), q ∈ npathsL P pfx i ns →
    ∃ k r, q = pfx ++ (i + k) :: r ∧ ∃ n, ns[k]? = some n ∧ (r = [] ∨ (getAt n.kids r).isSome = true)
  | [], _, _, q, h => by rw [npathsL] at h; cases h
  | n :: ns, pfx, i, q, h => by
    rw [npathsL, List.mem_append] at h
    rcases h with h | h
    · obtain ⟨r, hq, hr⟩ := wi_npathsN_valid P n (pfx ++ [i]) q h
      exact ⟨0, r, by rw [hq, List.append_assoc]; rfl, n, rfl, hr⟩
    · obtain ⟨k, r, hq, n', hn', hr⟩ := wi_npathsL_valid P ns pfx (i + 1) q h
      exact ⟨k + 1, r, by rw [hq]; congr 2; omega, n', by rw [List.getElem?_cons_succ]; exact hn', hr⟩
end

/-- the paths of `whenSet` are paths of the tree -/
theorem wi_whenSet_valid (S : Schema) (W : WhenTab) (T : List DNode) : ∀ p ∈ whenSet S W T, (getAt T p).isSome = true := by
  intro p hp
  unfold whenSet at hp
  obtain ⟨k, r, hq, n, hn, hr⟩ := wi_npathsL_valid _ T [] 0 p hp
  rw [hq, List.nil_append, Nat.zero_add]
  exact wi_getAt_cons hn hr

/-- the hypothesis "nothing is deferred", for whatever `whenTrue` flags are set -/
def wi_NoTouch (X : SchemaX) (W : WhenTab) (T : List DNode) : Prop :=
  ∀ T', shapeL T' = shapeL T → ∀ p ∈ whenSet X.base W T, ∀ n, getAt T' p = some n →
    ∀ w ∈ whensOf X.base W n.sid, mayTouch X.base W T' (if w.1 then p else p.dropLast) w.2 = false

/-- **converse**: when nothing is deferred and the phase logs nothing, every when of every when-node holds, on a tree that
differs from the input by flags only -/
theorem whenPhaseG_quiet_holds (ev : XpEv) (X : SchemaX) (W : WhenTab) (o : VOpts) (hop : o.operational = false) (T : List DNode)
    (hnt : wi_NoTouch X W T) (h : (whenPhaseG ev X W o T).2 = {}) :
    ∀ p ∈ whenSet X.base W T, ∃ T', shapeL T' = shapeL T ∧ ∃ n, getAt T' p = some n ∧
      evalWhens ev X.base W T' p (whensOf X.base W n.sid) = .holds := by
  intro p hp
  obtain ⟨T', hT', hg⟩ := whenPhaseG_quiet_conv ev X W o hop T h p hp
  refine ⟨T', hT', ?_⟩
  have hv : (getAt T' p).isSome = true := by rw [wi_getAt_isSome_of_shape hT']; exact wi_whenSet_valid X.base W T p hp
  have hl := wi_levelOf_isSome X.base p {} T' hv
  cases hn : getAt T' p with
  | none => rw [hn] at hv; cases hv
  | some n =>
    refine ⟨n, rfl, ?_⟩
    cases hlv : levelOf X.base {} T' p with
    | none => rw [hlv] at hl; cases hl
    | some lv =>
      have hres : wi_resAt ev X W T' p = some (evalWhens ev X.base W T' p (whensOf X.base W n.sid)) := by
        unfold wi_resAt; rw [hn, hlv]
      rw [hres] at hg
      rcases hg with hg | hg | hg
      · cases hg
      · injection hg
      · injection hg with hg
        obtain ⟨w, hw, ht⟩ := wi_incomplete_touch ev X.base W T' p _ hg
        rw [hnt T' hT' p hp n hn w hw] at ht
        cases ht

/-! ## everything on the input tree itself: the evaluator and the element numbers see the shape only -/

mutual
theorem wi_cntN_shape : ∀ (n : DNode), cntN (shapeN n) = cntN n
  | .inner s f m ks => by rw [shapeN, cntN, cntN, wi_cntL_shape ks]
  | .term s f m v => by rw [shapeN, cntN, cntN]
theorem wi_cntL_shape : ∀ (l : List DNode), cntL (shapeL l) = cntL l
  | [] => by rw [shapeL]
  | n :: ns => by rw [shapeL, cntL, cntL, wi_cntN_shape n, wi_cntL_shape ns]
end

theorem wi_take_shape (l : List DNode) (i : Nat) : (shapeL l).take i = shapeL (l.take i) := by
  rw [wi_shapeL_map, wi_shapeL_map, List.map_take]

theorem wi_beforeAt_shape : ∀ (p : NPath) (T : List DNode), beforeAt (shapeL T) p = beforeAt T p
  | [], T => by rw [beforeAt, beforeAt]
  | [i], T => by rw [beforeAt, beforeAt, wi_take_shape, wi_cntL_shape]
  | i :: j :: rest, T => by
    rw [beforeAt, beforeAt, wi_take_shape, wi_cntL_shape, wi_shapeL_map, List.getElem?_map]
    · cases hT : T[i]? with
      | none => rfl
      | some n =>
        simp only [Option.map_some]
        rw [shapeN_kids, wi_beforeAt_shape (j :: rest) n.kids]
    · intro h; cases h
    · intro h; cases h

theorem wi_elemNo_of_shape {T T' : List DNode} (h : shapeL T' = shapeL T) (p : NPath) : elemNo T' p = elemNo T p := by
  unfold elemNo
  rw [← wi_beforeAt_shape p T', ← wi_beforeAt_shape p T, h]

/-- the evaluator sees the shape of the forest only (`xpBool` does: `docOf_shape`) -/
def wi_EvShape (ev : XpEv) : Prop := ∀ (T1 T2 : List DNode) (c : Nat) (e : Bytes), shapeL T1 = shapeL T2 → ev T1 c e = ev T2 c e

theorem wi_xpBool_shape (q : Nat) (S : Schema) : wi_EvShape (xpBool q S) := by
  intro T1 T2 c e h
  unfold xpBool
  rw [← docOf_shape S T1, ← docOf_shape S T2, h]

/-- every when of every when-node evaluates to true on `T` (no deferral involved) -/
def wi_AllTrue (ev : XpEv) (X : SchemaX) (W : WhenTab) (T : List DNode) : Prop :=
  ∀ p ∈ whenSet X.base W T, ∀ n, getAt T p = some n → ∀ w ∈ whensOf X.base W n.sid,
    ev T (elemNo T (if w.1 then p else p.dropLast)) w.2 = .ok true

theorem wi_sid_of_shape {T T' : List DNode} (h : shapeL T' = shapeL T) {p : NPath} {n n' : DNode} (hn : getAt T p = some n)
    (hn' : getAt T' p = some n') : n'.sid = n.sid := by
  have h1 := wi_getAt_shape p T'
  have h2 := wi_getAt_shape p T
  rw [h, h2, hn, hn'] at h1
  simp only [Option.map_some] at h1
  injection h1 with h1
  rw [← shapeN_sid n, ← shapeN_sid n', h1]

/-- **the `when` phase on the class where nothing is deferred**: it logs nothing (no `NoWhen` / `Other` error, no delete event)
iff every when of every when-node of the input evaluates to true on the input -/
theorem whenPhaseG_quiet_iff (ev : XpEv) (X : SchemaX) (W : WhenTab) (o : VOpts) (hop : o.operational = false) (T : List DNode)
    (hev : wi_EvShape ev) (hnt : wi_NoTouch X W T) :
    (whenPhaseG ev X W o T).2 = {} ↔ wi_AllTrue ev X W T := by
  constructor
  · intro h p hp n hn w hw
    obtain ⟨T', hT', n', hn', hh⟩ := whenPhaseG_quiet_holds ev X W o hop T hnt h p hp
    have hs := wi_sid_of_shape hT' hn hn'
    rw [hs] at hh
    have := ((wi_evalWhens_holds_iff ev X.base W T' p _).1 hh w hw).2
    rw [wi_elemNo_of_shape hT', hev T' T _ _ hT'] at this
    exact this
  · intro h
    apply (whenPhaseG_quiet ev X W o T ?_).1
    intro T' hT' p hp n' hn'
    have hv : (getAt T p).isSome = true := wi_whenSet_valid X.base W T p hp
    cases hn : getAt T p with
    | none => rw [hn] at hv; cases hv
    | some n =>
      have hs := wi_sid_of_shape hT' hn hn'
      rw [wi_evalWhens_holds_iff]
      intro w hw
      refine ⟨hnt T' hT' p hp n' hn' w hw, ?_⟩
      rw [wi_elemNo_of_shape hT', hev T' T _ _ hT']
      rw [hs] at hw
      exact h p hp n hn w hw

/-! ## shape-invariance of the condition, and the statement for `whenPhase` -/

mutual
theorem wi_npathsN_shape (P : DNode → Bool) (hP : ∀ n, P (shapeN n) = P n) : ∀ (n : DNode) (pfx : NPath),
    npathsN P pfx (shapeN n) = npathsN P pfx n
  | .inner s f m ks, pfx => by
    have h := hP (.inner s f m ks)
    rw [shapeN] at h
    rw [shapeN, npathsN, npathsN, h, wi_npathsL_shape P hP ks]
  | .term s f m v, pfx => by
    have h := hP (.term s f m v)
    rw [shapeN] at h
    rw [shapeN, npathsN, npathsN, h]
theorem wi_npathsL_shape (P : DNode → Bool) (hP : ∀ n, P (shapeN n) = P n) : ∀ (ns : List DNode) (pfx : NPath) (i : Nat),
    npathsL P pfx i (shapeL ns) = npathsL P pfx i ns
  | [], _, _ => by rw [shapeL]
  | n :: ns, pfx, i => by rw [shapeL, npathsL, npathsL, wi_npathsN_shape P hP n, wi_npathsL_shape P hP ns]
end

theorem wi_whenSet_of_shape (S : Schema) (W : WhenTab) {T1 T2 : List DNode} (h : shapeL T1 = shapeL T2) :
    whenSet S W T1 = whenSet S W T2 := by
  unfold whenSet
  rw [← wi_npathsL_shape _ (fun n => by rw [shapeN_sid]) T1, ← wi_npathsL_shape _ (fun n => by rw [shapeN_sid]) T2, h]

/-- the condition depends on the shape of the forest only -/
theorem wi_AllTrue_of_shape (ev : XpEv) (X : SchemaX) (W : WhenTab) (hev : wi_EvShape ev) {T1 T2 : List DNode}
    (h : shapeL T1 = shapeL T2) (h1 : wi_AllTrue ev X W T1) : wi_AllTrue ev X W T2 := by
  intro p hp n2 hn2 w hw
  rw [← wi_whenSet_of_shape X.base W h] at hp
  have hv : (getAt T1 p).isSome = true := wi_whenSet_valid X.base W T1 p hp
  cases hn1 : getAt T1 p with
  | none => rw [hn1] at hv; cases hv
  | some n1 =>
    have hs := wi_sid_of_shape h.symm hn1 hn2
    rw [hs] at hw
    have := h1 p hp n1 hn1 w hw
    rw [wi_elemNo_of_shape h.symm, hev T2 T1 _ _ h.symm]
    exact this

theorem wi_AllTrue_shape_iff (ev : XpEv) (X : SchemaX) (W : WhenTab) (hev : wi_EvShape ev) {T1 T2 : List DNode}
    (h : shapeL T1 = shapeL T2) : wi_AllTrue ev X W T1 ↔ wi_AllTrue ev X W T2 :=
  ⟨wi_AllTrue_of_shape ev X W hev h, wi_AllTrue_of_shape ev X W hev h.symm⟩

theorem wi_out_nil_iff (out : Out) : out = {} ↔ out.errs = [] ∧ out.evs = [] := by
  constructor
  · intro h; rw [h]; exact ⟨rfl, rfl⟩
  · rintro ⟨h1, h2⟩
    apply Out.ext'
    unfold Out.errs at h1
    unfold Out.evs at h2
    cases hi : out.items with
    | nil => rfl
    | cons x xs =>
      rw [hi] at h1 h2
      cases x with
      | ev e => simp at h2
      | err e => simp at h1

/-- **`whenPhase` where nothing is deferred**: no `NoWhen` / `Other` error and no auto-deletion iff every when of every when-node
(explicit or implicit) evaluates to true on the input tree `T`; and then only `whenTrue` flags change.  `wi_NoTouch` is stated for
the tree after `markImpl` (it has the shape of `T`). -/
theorem whenPhase_nodel_iff (X : SchemaX) (C : XCons) (o : VOpts) (hop : o.operational = false) (T : List DNode)
    (hnt : wi_NoTouch X C.whens (markImpl X.base C.whens T)) :
    ((whenPhase X C o T).2.errs = [] ∧ (whenPhase X C o T).2.evs = []) ↔ wi_AllTrue (xpBool C.mask X.base) X C.whens T := by
  have hsh : shapeL (markImpl X.base C.whens T) = shapeL T := xs_shapeL_markImpl _ T
  rw [← wi_out_nil_iff, ← wi_AllTrue_shape_iff _ X C.whens (wi_xpBool_shape C.mask X.base) hsh]
  unfold whenPhase whenPhaseM
  exact whenPhaseG_quiet_iff _ X C.whens o hop _ (wi_xpBool_shape C.mask X.base) hnt

theorem whenPhase_nodel_shape (X : SchemaX) (C : XCons) (o : VOpts) (T : List DNode) (h : (whenPhase X C o T).2.evs = []) :
    shapeL (whenPhase X C o T).1 = shapeL T := whenPhase_shape X C o T h

/-! ## the decidable form of the condition -/

/-- every when of every when-node evaluates to true on `T` -/
def whenAllHold (ev : XpEv) (X : SchemaX) (W : WhenTab) (T : List DNode) : Bool :=
  (whenSet X.base W T).all fun p =>
    match getAt T p with
    | some n => (whensOf X.base W n.sid).all fun w =>
        match ev T (elemNo T (if w.1 then p else p.dropLast)) w.2 with
        | .ok true => true
        | _ => false
    | none => true

theorem whenAllHold_iff (ev : XpEv) (X : SchemaX) (W : WhenTab) (T : List DNode) :
    whenAllHold ev X W T = true ↔ wi_AllTrue ev X W T := by
  unfold whenAllHold wi_AllTrue
  rw [List.all_eq_true]
  constructor
  · intro h p hp n hn w hw
    have := h p hp
    rw [hn] at this
    dsimp only at this
    rw [List.all_eq_true] at this
    have := this w hw
    cases hv : ev T (elemNo T (if w.1 = true then p else p.dropLast)) w.2 with
    | error u => rw [hv] at this; cases this
    | ok b =>
      cases b with
      | true => rfl
      | false => rw [hv] at this; cases this
  · intro h p hp
    cases hn : getAt T p with
    | none => rfl
    | some n =>
      dsimp only
      rw [List.all_eq_true]
      intro w hw
      rw [h p hp n hn w hw]

/-- the decidable condition depends on the shape of the forest only -/
theorem whenAllHold_of_shape (ev : XpEv) (X : SchemaX) (W : WhenTab) (hev : wi_EvShape ev) {T1 T2 : List DNode}
    (h : shapeL T1 = shapeL T2) : whenAllHold ev X W T1 = whenAllHold ev X W T2 := by
  rw [Bool.eq_iff_iff, whenAllHold_iff, whenAllHold_iff]
  exact wi_AllTrue_shape_iff ev X W hev h

end LyModel.Valid
