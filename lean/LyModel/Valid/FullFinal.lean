import LyModel.Valid.FullDefs
import LyModel.Valid.LemmasTag
import LyModel.Valid.Ops
/-!
# C02, full schema language: the schema-based checks of one level of `lyd_validate_final_r` against `cardL`

Part 1: the per-element forms of `schemaNodes` / `schemaChoices` / `schemaCases` / `cardL`, schema sanity (`saneL`), and one
non-choice schema node (`nodeOut`) on a level that `lyd_new_implicit` has completed.
-/
namespace LyModel.Valid
open LyModel LyModel.Tree

/-! ## per-element forms -/

/-- the checks of one non-choice schema node of a level (`o1` of `schemaNodes`) -/
def nodeOut (X : SchemaX) (o : VOpts) (cx : Cx) (sibs : List DNode) (k : STree) : Out :=
  if k.info.kind == .choice || (o.noState && !k.info.config) then {}
  else
    match k.info.kind with
    | .list => minmaxOut X.base o cx sibs k ++ uniqueOut X o cx sibs k
    | .leaflist => minmaxOut X.base o cx sibs k
    | _ => if k.info.mandatory && !hasInst sibs k.sid && !o.operational then Out.err .noMand (mandLoc X.base cx k.sid) else {}

theorem nodeOut_mk (X : SchemaX) (o : VOpts) (cx : Cx) (sibs : List DNode) (s : Nat) (i : SNode) (ks : List STree) :
    nodeOut X o cx sibs (.mk s i ks) =
      if i.kind == .choice || (o.noState && !i.config) then {}
      else
        match i.kind with
        | .list => minmaxOut X.base o cx sibs (.mk s i ks) ++ uniqueOut X o cx sibs (.mk s i ks)
        | .leaflist => minmaxOut X.base o cx sibs (.mk s i ks)
        | _ => if i.mandatory && !hasInst sibs s && !o.operational then Out.err .noMand (mandLoc X.base cx s) else {} := rfl

theorem schemaNodes_cons (X : SchemaX) (o : VOpts) (cx : Cx) (sibs : List DNode) (k : STree) (ks : List STree) :
    schemaNodes X o cx sibs (k :: ks) = nodeOut X o cx sibs k ++ schemaNodes X o cx sibs ks := by
  rw [schemaNodes]; rfl

theorem schemaNodes_errs_mem (X : SchemaX) (o : VOpts) (cx : Cx) (sibs : List DNode) (e : VErr) : ∀ (ks : List STree),
    e ∈ (schemaNodes X o cx sibs ks).errs ↔ ∃ k ∈ ks, e ∈ (nodeOut X o cx sibs k).errs := by
  intro ks
  induction ks with
  | nil => simp [schemaNodes]
  | cons k ks ih => rw [schemaNodes_cons, Out.append_errs, List.mem_append, ih]; simp

theorem schemaChoices_errs_mem (X : SchemaX) (o : VOpts) (cx : Cx) (sibs : List DNode) (e : VErr) : ∀ (ks : List STree),
    e ∈ (schemaChoices X o cx sibs ks).errs ↔ ∃ k ∈ ks, e ∈ (schemaChoice X o cx sibs k).errs := by
  intro ks
  induction ks with
  | nil => rw [schemaChoices]; simp
  | cons k ks ih => rw [schemaChoices, Out.append_errs, List.mem_append, ih]; simp

theorem schemaCases_find (X : SchemaX) (o : VOpts) (cx : Cx) (sibs : List DNode) : ∀ (cs : List STree),
    schemaCases X o cx sibs cs = match cs.find? (fun c => sibs.any (inSids c.dataSids)) with
      | some c => schemaCase X o cx sibs c
      | none => {} := by
  intro cs
  induction cs with
  | nil => rw [schemaCases]; rfl
  | cons c rest ih =>
    rw [schemaCases, List.find?_cons]
    by_cases h : sibs.any (inSids c.dataSids) = true
    · simp only [h, if_true]
    · have h' : sibs.any (inSids c.dataSids) = false := by simpa using h
      simp only [h', Bool.false_eq_true, if_false]
      exact ih

theorem cardL_mem (o : VOpts) (E : List DNode) (K : EKind) : ∀ (ks : List STree),
    K ∈ cardL o E ks ↔ ∃ k ∈ ks, K ∈ cardNode o E k := by
  intro ks
  induction ks with
  | nil => rw [cardL]; simp
  | cons k ks ih => rw [cardL, List.mem_append, ih]; simp

theorem cardCases_mem (o : VOpts) (E : List DNode) (K : EKind) : ∀ (cs : List STree),
    K ∈ cardCases o E cs ↔ ∃ c ∈ cs, hasData E c.dataSids = true ∧ K ∈ cardNode o E c := by
  intro cs
  induction cs with
  | nil => rw [cardCases]; simp
  | cons c rest ih =>
    rw [cardCases, List.mem_append, ih]
    by_cases h : hasData E c.dataSids = true
    · simp [h]
    · have h' : hasData E c.dataSids = false := by simpa using h
      simp [h']

/-! ## schema sanity: what the schema compiler guarantees -/

/-- `min-elements` ≤ `max-elements`, below 2³² -/
def mmSaneB (k : STree) : Bool :=
  decide ((k.info.max = 0 ∨ k.info.min ≤ k.info.max) ∧ k.info.min ≤ uint32Max ∧ k.info.max ≤ uint32Max)

/-- a non-choice schema node: a mandatory leaf has no default (RFC 7950 §7.6.4), a leaf-list with defaults has no `min-elements`
and not more defaults than `max-elements`, a container is not "mandatory" itself, a case is no data node -/
def saneData (k : STree) : Bool :=
  match k.info.kind with
  | .leaf => !(k.info.mandatory && !k.info.dflts.isEmpty)
  | .leaflist =>
    (k.info.dflts.isEmpty || (k.info.min == 0 && (k.info.max == 0 || decide (k.info.dflts.length ≤ k.info.max)))) && mmSaneB k
  | .list => mmSaneB k
  | .container => !k.info.mandatory
  | .choice => true
  | .case => false

/-- nothing mandatory directly here (what the compiler asks of the children of a default case, RFC 7950 §7.9.3) -/
def quietNode (k : STree) : Bool :=
  match k.info.kind with
  | .leaf => !k.info.mandatory
  | .leaflist => k.info.min == 0
  | .list => k.info.min == 0
  | .choice => !k.info.mandatory
  | _ => true

def quietK (c : STree) : Bool := c.kids.all quietNode

mutual
/-- sanity of a schema node of a level, through the choices and cases of the level (not into the children of data nodes) -/
def saneT : STree → Bool
  | .mk s i ks =>
    if i.kind == .choice then !(i.mandatory && i.dfltCase.isSome) && (i.config || allStateL ks) && saneCs i.dfltCase ks
    else saneData (.mk s i ks)
def saneL : List STree → Bool
  | [] => true
  | k :: ks => saneT k && saneL ks
/-- the cases of a choice with default case `d`: each sane, the default one without mandatory children; a state choice
(`config false`) has state data only below it -/
def saneCs (d : Option String) : List STree → Bool
  | [] => true
  | c :: rest => saneK c && (d != some c.info.name || quietK c) && saneCs d rest
def saneK : STree → Bool
  | .mk _ _ ks => saneL ks
end

theorem saneL_mem : ∀ {ks : List STree} {k : STree}, saneL ks = true → k ∈ ks → saneT k = true := by
  intro ks
  induction ks with
  | nil => intro k _ h; cases h
  | cons t ts ih =>
    intro k h hk
    rw [saneL] at h
    simp only [Bool.and_eq_true] at h
    cases hk with
    | head => exact h.1
    | tail _ hk => exact ih h.2 hk

theorem saneCs_mem (d : Option String) : ∀ {cs : List STree} {c : STree}, saneCs d cs = true → c ∈ cs →
    saneL c.kids = true ∧ (d = some c.info.name → quietK c = true) := by
  intro cs
  induction cs with
  | nil => intro c _ h; cases h
  | cons t ts ih =>
    intro c h hc
    rw [saneCs] at h
    simp only [Bool.and_eq_true, Bool.or_eq_true, bne_iff_ne, ne_eq] at h
    cases hc with
    | head =>
      refine ⟨?_, ?_⟩
      · cases t with
        | mk s i ks => have := h.1.1; rw [saneK] at this; exact this
      · intro hd
        rcases h.1.2 with h2 | h2
        · exact absurd hd h2
        · exact h2
    | tail _ hc => exact ih h.2 hc

theorem saneT_data {k : STree} (h : saneT k = true) (hk : k.info.kind ≠ .choice) : saneData k = true := by
  cases k with
  | mk s i ks =>
    rw [saneT] at h
    simp only [STree.info] at hk
    have : (i.kind == SKind.choice) = false := by simpa using hk
    simpa [this] using h

theorem saneT_choice {s : Nat} {i : SNode} {ks : List STree} (h : saneT (.mk s i ks) = true) (hk : i.kind = .choice) :
    (i.mandatory = true → i.dfltCase = none) ∧ (i.config = false → allStateL ks = true) ∧ saneCs i.dfltCase ks = true := by
  rw [saneT] at h
  simp only [hk, beq_self_eq_true, if_true, Bool.and_eq_true, Bool.not_eq_eq_eq_not, Bool.not_true, Bool.and_eq_false_imp,
    Bool.or_eq_true] at h
  refine ⟨fun hm => ?_, fun hcf => ?_, h.2⟩
  · have := h.1.1 hm
    cases hd : i.dfltCase with
    | none => rfl
    | some x => rw [hd] at this; simp at this
  · rcases h.1.2 with h2 | h2
    · rw [hcf] at h2; cases h2
    · exact h2

/-! ## one non-choice schema node on a completed level -/

theorem instsOf_len_zero {L : List DNode} {sid : Nat} (h : hasInst L sid = false) : (instsOf L sid).length = 0 := by
  unfold hasInst at h
  unfold instsOf
  rw [List.length_eq_zero_iff, List.filter_eq_nil_iff]
  intro n hn hs
  have := List.any_eq_false.1 h n hn
  exact this hs

theorem instsOf_isEmpty_iff {L : List DNode} {sid : Nat} : (instsOf L sid).isEmpty = !hasInst L sid := by
  unfold hasInst instsOf
  rw [Bool.eq_iff_iff]
  simp only [List.isEmpty_iff, List.filter_eq_nil_iff, Bool.not_eq_true', List.any_eq_false]

/-- how many implicit instances a schema node gets at most: one container / leaf, the defaults of a leaf-list -/
def dfltBound (S : Schema) (sid : Nat) : Nat :=
  match S.get? sid with
  | some n => max 1 n.dflts.length
  | none => 1

theorem dfltBound_of_get {S : Schema} {sid : Nat} {n : SNode} (h : S.get? sid = some n) : dfltBound S sid = max 1 n.dflts.length := by
  unfold dfltBound; rw [h]

/-- the facts about a level `L` (as `lyd_validate_final_r` sees it) and its explicit part `E` that the node lemmas use -/
structure LvCnt (S : Schema) (E L : List DNode) : Prop where
  cnt : ∀ sid, hasInst E sid = true → (instsOf L sid).length = (instsOf E sid).length
  /-- the explicit sibling list is shorter than 2³² (the C counts instances in a `uint32_t`) -/
  len : E.length ≤ uint32Max
  /-- a schema node without explicit instance has at most its implicit instances -/
  dcnt : ∀ sid, hasInst E sid = false → (instsOf L sid).length ≤ dfltBound S sid

theorem LvCnt.len_eq {S : Schema} {E L : List DNode} (h : LvCnt S E L) {sid : Nat} (hh : hasInst L sid = hasInst E sid) :
    (instsOf L sid).length = (instsOf E sid).length := by
  by_cases he : hasInst E sid = true
  · exact h.cnt sid he
  · have he' : hasInst E sid = false := by simpa using he
    rw [instsOf_len_zero he', instsOf_len_zero (hh.trans he')]

theorem LvCnt.insts_le {S : Schema} {E L : List DNode} (h : LvCnt S E L) {sid : Nat} (hh : hasInst L sid = hasInst E sid) :
    (instsOf L sid).length ≤ uint32Max := by
  rw [h.len_eq hh]
  exact Nat.le_trans (List.length_filter_le _ _) h.len

theorem uniqueOut_nil (X : SchemaX) (o : VOpts) (cx : Cx) (sibs : List DNode) (k : STree) (hu : X.uniques = []) :
    uniqueOut X o cx sibs k = {} := by
  unfold uniqueOut SchemaX.uniquesOf
  simp [hu]

theorem mmSaneB_spec {k : STree} (h : mmSaneB k = true) : (k.info.max = 0 ∨ k.info.min ≤ k.info.max) ∧ k.info.min ≤ uint32Max := by
  unfold mmSaneB at h
  simp only [decide_eq_true_eq] at h
  exact ⟨h.1, h.2.1⟩

theorem mmSaneB_max {k : STree} (h : mmSaneB k = true) : k.info.max ≤ uint32Max := by
  unfold mmSaneB at h
  simp only [decide_eq_true_eq] at h
  exact h.2.2

/-- no `min-elements`, not more instances than `max-elements`: `lyd_validate_minmax` logs nothing -/
theorem minmaxOut_nil_of_le (S : Schema) (o : VOpts) (cx : Cx) (L : List DNode) (k : STree) (hmin : k.info.min = 0)
    (h : k.info.max = 0 ∨ (instsOf L k.sid).length ≤ k.info.max) (hmax : k.info.max ≤ uint32Max) :
    (minmaxOut S o cx L k).errs = [] := by
  by_cases h0 : k.info.max = 0
  · unfold minmaxOut
    simp [hmin, h0]
  · rw [List.eq_nil_iff_forall_not_mem]
    intro e he
    have hl : (instsOf L k.sid).length ≤ k.info.max := h.resolve_left h0
    have := minmaxOut_mem S o cx L k (Or.inr (by omega)) (by omega) (Nat.le_trans hl hmax) e he
    omega

theorem Out.err_errs (k : EKind) (p : Bytes) : (Out.err k p).errs = [{ kind := k, path := p }] := rfl

/-- every error of `lyd_validate_unique` is a `NoUniq` error -/
theorem uniqueOut_kind (X : SchemaX) (o : VOpts) (cx : Cx) (sibs : List DNode) (k : STree) :
    ∀ e ∈ (uniqueOut X o cx sibs k).errs, e.kind = .noUniq := by
  intro e he
  unfold uniqueOut at he
  dsimp only at he
  split at he
  · simp at he
  · split at he
    · rw [Out.err_errs, List.mem_singleton] at he
      rw [he]
    · simp at he

section node
variable (X : SchemaX) (o : VOpts) (cx : Cx) (hop : o.operational = false) {E L : List DNode} (hc : LvCnt X.base E L)
include hop hc

omit hop in
/-- soundness: an error of the node's checks names a cardinality constraint the explicit data violate, or it is an error of
`lyd_validate_unique` on a list that is not state-guarded -/
theorem node_sound (k : STree) (hk : k.info.kind ≠ .choice) (hs : saneData k = true) (hget : X.base.get? k.sid = some k.info)
    (hH : hasInst L k.sid = (hasInst E k.sid || wantsImplicit o k)) :
    ∀ e ∈ (nodeOut X o cx L k).errs, e.kind ∈ cardNode o E k ∨
      (e.kind = .noUniq ∧ k.info.kind = .list ∧ (o.noState && !k.info.config) = false ∧ (uniqueOut X o cx L k).errs ≠ []) := by
  intro e he
  cases k with
  | mk s i ks =>
    rw [nodeOut_mk] at he
    dsimp only [STree.info, STree.sid] at hH hk
    have hkc : (i.kind == SKind.choice) = false := by simpa using hk
    by_cases hst : (o.noState && !i.config) = true
    · simp [hst] at he
    · have hst' : (o.noState && !i.config) = false := by simpa using hst
      simp only [hkc, hst', Bool.or_self, Bool.false_eq_true, if_false] at he
      rw [cardNode]
      simp only [hst', Bool.not_false, Bool.true_and]
      unfold saneData at hs
      simp only [STree.info] at hs
      unfold wantsImplicit at hH
      simp only [STree.info, hkc, hst', Bool.not_false, Bool.true_and] at hH
      cases hkind : i.kind with
      | choice => exact absurd hkind hk
      | case => simp [hkind] at hs
      | container =>
        simp only [hkind, Bool.not_eq_eq_eq_not, Bool.not_true] at hs
        simp [hkind, hs] at he
      | leaf =>
        simp only [hkind] at he hs hH
        by_cases hm : (i.mandatory && !hasInst L s && !o.operational) = true
        · rw [if_pos hm] at he
          simp only [Bool.and_eq_true, Bool.not_eq_eq_eq_not, Bool.not_true] at hm
          rw [Out.err_errs, List.mem_singleton] at he
          have hd : i.dflts.isEmpty = true := by
            have := hs; simp only [hm.1.1, Bool.true_and, Bool.not_not] at this; exact this
          have hE : hasInst E s = false := by
            have := hH; rw [hm.1.2] at this
            simpa [hd] using this.symm
          left
          rw [he]
          simp [hm.1.1, instsOf_isEmpty_iff, hE]
        · rw [if_neg hm] at he; simp at he
      | leaflist =>
        simp only [hkind, Bool.and_eq_true, Bool.or_eq_true, beq_iff_eq] at he hs hH
        have hmm := mmSaneB_spec hs.2
        have hmx := mmSaneB_max hs.2
        simp only [STree.info] at hmm hmx
        by_cases hcase : hasInst E s = true ∨ i.dflts.isEmpty = true
        · have hHH : hasInst L s = hasInst E s := by
            rw [hH]; rcases hcase with h | h <;> simp [h]
          have hmo := minmaxOut_mem X.base o cx L (.mk s i ks) hmm.1 hmm.2 (hc.insts_le hHH) e he
          simp only [STree.info, STree.sid] at hmo
          rw [hc.len_eq hHH] at hmo
          rcases hmo with ⟨h1, h2⟩ | ⟨h1, h2, h3⟩
          · left; rw [h1]; simp [h2]
          · left; rw [h1]; simp [h2, h3]
        · -- only the implicit instances: not more than `max-elements`
          exfalso
          simp only [not_or, Bool.not_eq_true] at hcase
          have hd := hs.1.resolve_left (by simp [hcase.2])
          have hb := hc.dcnt s hcase.1
          rw [dfltBound_of_get (show X.base.get? s = some i from hget)] at hb
          have hle : i.max = 0 ∨ (instsOf L s).length ≤ i.max := by
            by_cases h0 : i.max = 0
            · exact Or.inl h0
            · right
              have := of_decide_eq_true (hd.2.resolve_left h0)
              omega
          have hnil := minmaxOut_nil_of_le X.base o cx L (.mk s i ks) hd.1 hle hmx
          rw [hnil] at he
          cases he
      | list =>
        simp only [hkind] at he hs hH
        rw [Out.append_errs, List.mem_append] at he
        rcases he with he | he
        · have hmm := mmSaneB_spec hs
          simp only [STree.info] at hmm
          have hHH : hasInst L s = hasInst E s := by rw [hH]; simp
          have hmo := minmaxOut_mem X.base o cx L (.mk s i ks) hmm.1 hmm.2 (hc.insts_le hHH) e he
          simp only [STree.info, STree.sid] at hmo
          rw [hc.len_eq hHH] at hmo
          rcases hmo with ⟨h1, h2⟩ | ⟨h1, h2, h3⟩
          · left; rw [h1]; simp [h2]
          · left; rw [h1]; simp [h2, h3]
        · right
          exact ⟨uniqueOut_kind X o cx L _ e he, hkind, hst', List.ne_nil_of_mem he⟩

end node

end LyModel.Valid
