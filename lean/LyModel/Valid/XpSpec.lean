import LyModel.Valid.XpValid
import LyModel.Valid.SpecDefaults
/-!
# The specification of `must` and leafref `require-instance` (RFC 7950 §7.5.3, §9.9, §6.4.1)

Stated on an arbitrary accessible forest `A`, over the numbering `numberL` of its nodes in document order and the document view
`docOf`, independent of how the model threads its counters:
* a `must` of a configuration node is evaluated, with the node as context node, on the configuration data only (§6.4.1: the
  accessible tree of a constraint on configuration is the configuration, defaults in use included);
* a `must` of a state node on the whole tree;
* for a leafref with `require-instance true` there is a node in the accessible tree (the whole tree) the path selects that has the
  same value.
An expression that cannot be parsed or evaluated counts as violated.   Core Lean only.
-/
namespace LyModel.Valid
open LyModel LyModel.Tree

/-- every `must` expression of the list is true with element `num` of `d` as context node (`q`: the XPath semantics switches in force) -/
def mustsHold (q : Nat) (d : XPath.Doc) (num : Nat) (es : List Bytes) : Bool :=
  es.all fun e => match xpBoolD q d num e with | .ok true => true | _ => false

/-- the violated musts of one node: context node = element `num` of the document `d` -/
def mustViol (q : Nat) (d : XPath.Doc) (num : Nat) (es : List Bytes) : List EKind :=
  es.filterMap fun e => match xpBoolD q d num e with | .ok true => none | _ => some EKind.noMust

/-- musts of configuration nodes, on the configuration-only tree -/
def xpMustCfg (S : Schema) (C : XCons) (A : List DNode) : List EKind :=
  (numberL 1 (cfgL S A)).flatMap fun p => mustViol C.mask (docOf S (cfgL S A)) p.1 (C.mustsOf p.2.sid)

/-- musts of state nodes, on the whole tree -/
def xpMustState (S : Schema) (C : XCons) (A : List DNode) : List EKind :=
  (numberL 1 A).flatMap fun p => if S.config p.2.sid then [] else mustViol C.mask (docOf S A) p.1 (C.mustsOf p.2.sid)

/-- leafref `require-instance`: a terminal node whose path selects no node of the whole tree with the same value -/
def xpLref (S : Schema) (C : XCons) (A : List DNode) : List EKind :=
  (numberL 1 A).filterMap fun p =>
    match C.lrefOf p.2.sid with
    | some path => if p.2.isTerm && !lrefOk C.mask (docOf S A) p.1 p.2.val path then some EKind.noReqInst else none
    | none => none

/-- the XPath-dependent constraints the accessible tree `A` violates -/
def xpViolations (S : Schema) (C : XCons) (A : List DNode) : List EKind := xpMustCfg S C A ++ xpMustState S C A ++ xpLref S C A

/-- the violated constraint families of the whole instance, XPath-dependent ones included: these are judged on the explicit data
plus the defaults in use (`rfcComplete`) -/
def violationsX (X : SchemaX) (C : XCons) (o : VOpts) (t : List DNode) : List EKind :=
  violations X o t ++ (if o.present && t.isEmpty then [] else xpViolations X.base C (rfcComplete X o t))

def ValidX (X : SchemaX) (C : XCons) (o : VOpts) (t : List DNode) : Prop := violationsX X C o t = []

instance (X : SchemaX) (C : XCons) (o : VOpts) (t : List DNode) : Decidable (ValidX X C o t) := by
  unfold ValidX; exact inferInstance

end LyModel.Valid
