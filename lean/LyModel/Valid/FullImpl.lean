import LyModel.Valid.FullDefs
import LyModel.Valid.LemmasNpValidate
/-!
# C02, full schema language: what `lyd_new_implicit` does to the instances that were there

`KeepI`: the instances of every schema node that had an instance are the same list afterwards (implicit nodes are only created
for schema nodes without an instance, and `lyd_insert_node` does not reorder the others).
-/
namespace LyModel.Valid
open LyModel LyModel.Tree

theorem filter_insertBySchema (p : DNode → Bool) (n : DNode) (hp : p n = false) : ∀ (l : List DNode),
    (insertBySchema n l).filter p = l.filter p := by
  intro l
  induction l with
  | nil => simp [insertBySchema, hp]
  | cons x xs ih =>
    unfold insertBySchema
    split
    · simp [List.filter_cons, hp]
    · simp only [List.filter_cons, ih]

theorem filter_insertSorted (S : Schema) (p : DNode → Bool) (n : DNode) (hp : p n = false) : ∀ (l : List DNode),
    (insertSorted S n l).filter p = l.filter p := by
  intro l
  induction l with
  | nil => simp [insertSorted, hp]
  | cons x xs ih =>
    unfold insertSorted
    split
    · simp [List.filter_cons, hp]
    · split
      · simp [List.filter_cons, hp]
      · simp only [List.filter_cons, ih]

theorem filter_insertNode (S : Schema) (p : DNode → Bool) (l : List DNode) (n : DNode) (hp : p n = false) :
    (insertNode S l n).filter p = l.filter p := by
  unfold insertNode
  split
  · exact filter_insertSorted S p n hp l
  · exact filter_insertBySchema p n hp l

theorem instsOf_insertNode (S : Schema) (l : List DNode) (n : DNode) (sid : Nat) (h : n.sid ≠ sid) :
    instsOf (insertNode S l n) sid = instsOf l sid := by
  unfold instsOf
  exact filter_insertNode S _ l n (by simpa using h)

/-- the instances of every schema node that had one are untouched -/
def KeepI (a b : List DNode) : Prop := ∀ sid, hasInst a sid = true → instsOf b sid = instsOf a sid

theorem KeepI.refl (a : List DNode) : KeepI a a := fun _ _ => rfl

theorem hasInst_of_instsOf {a b : List DNode} {sid : Nat} (h : instsOf b sid = instsOf a sid) (ha : hasInst a sid = true) :
    hasInst b sid = true := by
  unfold hasInst at ha ⊢
  obtain ⟨x, hx, hs⟩ := List.any_eq_true.1 ha
  have : x ∈ instsOf a sid := by unfold instsOf; exact List.mem_filter.2 ⟨hx, hs⟩
  rw [← h] at this
  unfold instsOf at this
  exact List.any_eq_true.2 ⟨x, (List.mem_filter.1 this).1, hs⟩

theorem KeepI.trans {a b c : List DNode} (h1 : KeepI a b) (h2 : KeepI b c) : KeepI a c := by
  intro sid ha
  rw [h2 sid (hasInst_of_instsOf (h1 sid ha) ha), h1 sid ha]

theorem implLeafList_insts (S : Schema) (cx : Cx) (ksid : Nat) (sid : Nat) (h : ksid ≠ sid) : ∀ (ds : List Bytes) (acc : List DNode × Out),
    instsOf (implLeafList S cx ksid ds acc).1 sid = instsOf acc.1 sid := by
  intro ds
  induction ds with
  | nil => intro acc; rfl
  | cons d ds ih =>
    intro acc
    unfold implLeafList
    rw [ih]
    simp only [addImplicit]
    exact instsOf_insertNode S _ _ sid (by simpa [DNode.sid] using h)

theorem implNode_keepI (S : Schema) (o : VOpts) (cx : Cx) (k : STree) (sibs : List DNode) : KeepI sibs (implNode S o cx k sibs).1 := by
  intro sid hs
  unfold implNode
  dsimp only
  split
  · rfl
  · rename_i hg
    simp only [Bool.or_eq_true, not_or, Bool.not_eq_true] at hg
    have hne : k.sid ≠ sid := by
      intro he
      rw [he, hs] at hg
      exact absurd hg.2 (by simp)
    split
    · split
      · rfl
      · simp only [addImplicit]
        exact instsOf_insertNode S _ _ sid (by simpa [DNode.sid] using hne)
    · split
      · simp only [addImplicit]
        exact instsOf_insertNode S _ _ sid (by simpa [DNode.sid] using hne)
      · rfl
    · exact implLeafList_insts S cx k.sid sid hne _ _
    · rfl

theorem implNodes_keepI (S : Schema) (o : VOpts) (cx : Cx) : ∀ (ks : List STree) (sibs : List DNode), KeepI sibs (implNodes S o cx ks sibs).1 := by
  intro ks
  induction ks with
  | nil => intro sibs; exact KeepI.refl _
  | cons k ks ih =>
    intro sibs
    unfold implNodes
    exact (implNode_keepI S o cx k sibs).trans (ih _)

theorem implL_keepI (X : SchemaX) (o : VOpts) (cx : Cx) (ks : List STree) (sibs : List DNode) : KeepI sibs (implL X o cx ks sibs).1 := by
  unfold implL
  exact (implChoices_rel X o cx KeepI KeepI.refl (fun _ _ _ h1 h2 => h1.trans h2) (fun ks sibs => implNodes_keepI _ _ _ ks sibs) ks sibs).trans
    (implNodes_keepI _ _ _ _ _)

/-- a node `lyd_new_implicit` added (default-flagged among siblings none of which was) is of a schema node without instance before -/
theorem implL_added_noInst (X : SchemaX) (o : VOpts) (cx : Cx) (ks : List STree) (sibs : List DNode)
    (hnd : ∀ n ∈ sibs, n.flags.dflt = false) (x : DNode) (hx : x ∈ (implL X o cx ks sibs).1) (hd : x.flags.dflt = true) :
    hasInst sibs x.sid = false := by
  cases h : hasInst sibs x.sid with
  | false => rfl
  | true =>
    exfalso
    have hk := implL_keepI X o cx ks sibs x.sid h
    have : x ∈ instsOf (implL X o cx ks sibs).1 x.sid := by unfold instsOf; exact List.mem_filter.2 ⟨hx, by simp⟩
    rw [hk] at this
    unfold instsOf at this
    have := hnd x (List.mem_filter.1 this).1
    rw [hd] at this
    cases this

/-! ## `lyd_new_implicit` logs no error -/

theorem Out.ofEvs_errs (evs : List Ev) : (Out.ofEvs evs).errs = [] := by
  unfold Out.ofEvs Out.errs
  induction evs with
  | nil => rfl
  | cons e es ih => simp

theorem implLeafList_errs (S : Schema) (cx : Cx) (sid : Nat) : ∀ (ds : List Bytes) (acc : List DNode × Out), acc.2.errs = [] →
    (implLeafList S cx sid ds acc).2.errs = [] := by
  intro ds
  induction ds with
  | nil => intro acc h; exact h
  | cons d ds ih =>
    intro acc h
    unfold implLeafList
    apply ih
    simp only [addImplicit, Out.append_errs, h, Out.ofEvs_errs, List.append_nil]

theorem implNode_errs (S : Schema) (o : VOpts) (cx : Cx) (k : STree) (sibs : List DNode) : (implNode S o cx k sibs).2.errs = [] := by
  unfold implNode
  dsimp only
  split
  · rfl
  · split
    · split
      · rfl
      · simp only [addImplicit, Out.ofEvs_errs]
    · split
      · simp only [addImplicit, Out.ofEvs_errs]
      · rfl
    · exact implLeafList_errs S cx k.sid _ _ rfl
    · rfl

theorem implNodes_errs (S : Schema) (o : VOpts) (cx : Cx) : ∀ (ks : List STree) (sibs : List DNode), (implNodes S o cx ks sibs).2.errs = [] := by
  intro ks
  induction ks with
  | nil => intro sibs; rfl
  | cons k ks ih =>
    intro sibs
    unfold implNodes
    simp only [Out.append_errs, implNode_errs, ih, List.append_nil]

theorem implChoices_errs (X : SchemaX) (o : VOpts) (cx : Cx) (ks : List STree) (sibs : List DNode) :
    (implChoices X o cx ks sibs).2.errs = [] := by
  apply implChoices.induct X o cx
    (motive_1 := fun ks sibs => (implChoices X o cx ks sibs).2.errs = [])
    (motive_2 := fun t sibs => (implChoice X o cx t sibs).2.errs = [])
    (motive_3 := fun sid ks sibs => (implCaseHolding X o cx sid ks sibs).2.errs = [])
    (motive_4 := fun t sibs => (implCase X o cx t sibs).2.errs = [])
    (motive_5 := fun target ks sibs => (implInto X o cx target ks sibs).2.errs = [])
    (motive_6 := fun target t sibs => (implIntoCase X o cx target t sibs).2.errs = [])
    (motive_7 := fun target ks sibs => (implIntoKids X o cx target ks sibs).2.errs = [])
    (motive_8 := fun target t sibs => (implIntoChoice X o cx target t sibs).2.errs = [])
    (motive_9 := fun nm ks sibs => (implCaseNamed X o cx nm ks sibs).2.errs = [])
  -- implChoice
  · intro sid i cases sibs h
    unfold implChoice; simp only [h, if_true]; rfl
  · intro sid i cases sibs h hfd nm hnm ih
    unfold implChoice; simp only [h, Bool.false_eq_true, if_false, hfd, hnm]; exact ih
  · intro sid i cases sibs h hfd hnm
    unfold implChoice; simp only [h, Bool.false_eq_true, if_false, hfd, hnm]; rfl
  · intro sid i cases sibs h node hfd hq target ht ih
    unfold implChoice; simp only [h, Bool.false_eq_true, if_false, hfd, hq, if_true, ht]; exact ih
  · intro sid i cases sibs h node hfd hq ht
    unfold implChoice; simp only [h, Bool.false_eq_true, if_false, hfd, hq, if_true, ht]; rfl
  · intro sid i cases sibs h node hfd hq ih
    unfold implChoice; simp only [h, Bool.false_eq_true, if_false, hfd, hq]; exact ih
  -- implCase
  · intro sid i cases sibs ih
    unfold implCase
    simp only [Out.append_errs, ih, implNodes_errs, List.append_nil]
  -- implIntoCase
  · intro target sid i cases sibs ih
    unfold implIntoCase; exact ih
  -- implIntoChoice
  · intro target sid i cases sibs h ih
    unfold implIntoChoice; simp only [h, if_true]; exact ih
  · intro target sid i cases sibs h
    unfold implIntoChoice; simp only [h, Bool.false_eq_true, if_false]; rfl
  -- implChoices
  · intro sibs; unfold implChoices; rfl
  · intro k ks sibs _ ih1 ih2
    unfold implChoices
    simp only [Out.append_errs, ih1, List.nil_append]
    exact ih2
  -- implCaseHolding
  · intro sid sibs; unfold implCaseHolding; rfl
  · intro sid k ks sibs h ih
    unfold implCaseHolding; simp only [h, if_true]; exact ih
  · intro sid k ks sibs h ih
    unfold implCaseHolding; simp only [h, Bool.false_eq_true, if_false]; exact ih
  -- implInto
  · intro target sibs; unfold implInto; rfl
  · intro target k ks sibs r1 ih1 ih2 ih3
    unfold implInto
    simp only [Out.append_errs, List.append_eq_nil_iff]
    refine ⟨?_, ih3⟩
    show (if (k.sid == target) = true then implCase X o cx k sibs else implIntoCase X o cx target k sibs).2.errs = []
    split
    · exact ih1
    · exact ih2
  -- implIntoKids
  · intro target sibs; unfold implIntoKids; rfl
  · intro target k ks sibs _ ih1 ih2
    unfold implIntoKids
    simp only [Out.append_errs, ih1, List.nil_append]
    exact ih2
  -- implCaseNamed
  · intro nm sibs; unfold implCaseNamed; rfl
  · intro nm k ks sibs h ih
    unfold implCaseNamed; simp only [h, if_true]; exact ih
  · intro nm k ks sibs h ih
    unfold implCaseNamed; simp only [h, Bool.false_eq_true, if_false]; exact ih

theorem implL_errs (X : SchemaX) (o : VOpts) (cx : Cx) (ks : List STree) (sibs : List DNode) : (implL X o cx ks sibs).2.errs = [] := by
  unfold implL
  simp only [Out.append_errs, implChoices_errs, implNodes_errs, List.append_nil]

/-! ## how many instances `lyd_new_implicit` creates

At most `max 1 #defaults` instances of a schema node that had none (one container / leaf, the defaults of a leaf-list), none of a
schema node that had one.  The bound is a parameter `B` (the level reads it from the flat table). -/

theorem filter_len_insertBySchema (p : DNode → Bool) (n : DNode) (hp : p n = true) : ∀ (l : List DNode),
    ((insertBySchema n l).filter p).length = (l.filter p).length + 1 := by
  intro l
  induction l with
  | nil => simp [insertBySchema, hp]
  | cons x xs ih =>
    unfold insertBySchema
    split
    · rw [List.filter_cons_of_pos hp, List.length_cons]
    · simp only [List.filter_cons]
      split <;> simp [ih]

theorem filter_len_insertSorted (S : Schema) (p : DNode → Bool) (n : DNode) (hp : p n = true) : ∀ (l : List DNode),
    ((insertSorted S n l).filter p).length = (l.filter p).length + 1 := by
  intro l
  induction l with
  | nil => simp [insertSorted, hp]
  | cons x xs ih =>
    unfold insertSorted
    split
    · rw [List.filter_cons_of_pos hp, List.length_cons]
    · split
      · rw [List.filter_cons_of_pos hp, List.length_cons]
      · simp only [List.filter_cons]
        split <;> simp [ih]

theorem filter_len_insertNode (S : Schema) (p : DNode → Bool) (l : List DNode) (n : DNode) (hp : p n = true) :
    ((insertNode S l n).filter p).length = (l.filter p).length + 1 := by
  unfold insertNode
  split
  · exact filter_len_insertSorted S p n hp l
  · exact filter_len_insertBySchema p n hp l

theorem len_insts_insertNode (S : Schema) (l : List DNode) (n : DNode) :
    (instsOf (insertNode S l n) n.sid).length = (instsOf l n.sid).length + 1 := by
  unfold instsOf
  exact filter_len_insertNode S _ l n (by simp)

theorem implLeafList_cnt (S : Schema) (cx : Cx) (sid : Nat) : ∀ (ds : List Bytes) (acc : List DNode × Out),
    (instsOf (implLeafList S cx sid ds acc).1 sid).length = (instsOf acc.1 sid).length + ds.length := by
  intro ds
  induction ds with
  | nil => intro acc; rfl
  | cons d ds ih =>
    intro acc
    unfold implLeafList
    rw [ih]
    have h : (instsOf (insertNode S acc.1 (.term sid dfltFlags [] d)) sid).length = (instsOf acc.1 sid).length + 1 :=
      len_insts_insertNode S acc.1 (.term sid dfltFlags [] d)
    simp only [addImplicit, List.length_cons]
    omega

/-- no more than `B sid` instances of a schema node that had none, no more instances of one that had -/
def CntI (B : Nat → Nat) (a b : List DNode) : Prop := ∀ sid, (instsOf b sid).length ≤ max (instsOf a sid).length (B sid)

theorem CntI.refl (B : Nat → Nat) (a : List DNode) : CntI B a a := fun _ => Nat.le_max_left ..

theorem CntI.trans {B : Nat → Nat} {a b c : List DNode} (h1 : CntI B a b) (h2 : CntI B b c) : CntI B a c := by
  intro sid
  have := h1 sid
  have := h2 sid
  omega

theorem instsOf_len_zero' {L : List DNode} {sid : Nat} (h : hasInst L sid = false) : (instsOf L sid).length = 0 := by
  unfold hasInst at h
  unfold instsOf
  rw [List.length_eq_zero_iff, List.filter_eq_nil_iff]
  intro n hn hs
  exact List.any_eq_false.1 h n hn hs

theorem implNode_insts_ne (S : Schema) (o : VOpts) (cx : Cx) (k : STree) (sibs : List DNode) (sid : Nat) (hne : k.sid ≠ sid) :
    instsOf (implNode S o cx k sibs).1 sid = instsOf sibs sid := by
  unfold implNode
  dsimp only
  split
  · rfl
  · split
    · split
      · rfl
      · simp only [addImplicit]
        exact instsOf_insertNode S _ _ sid (by simpa [DNode.sid] using hne)
    · split
      · simp only [addImplicit]
        exact instsOf_insertNode S _ _ sid (by simpa [DNode.sid] using hne)
      · rfl
    · exact implLeafList_insts S cx k.sid sid hne _ _
    · rfl

theorem implNode_cnt (S : Schema) (o : VOpts) (cx : Cx) (k : STree) (sibs : List DNode) (B : Nat → Nat)
    (hB : max 1 k.info.dflts.length ≤ B k.sid) : CntI B sibs (implNode S o cx k sibs).1 := by
  intro sid
  by_cases hne : k.sid = sid
  · subst hne
    unfold implNode
    dsimp only
    split
    · exact Nat.le_max_left ..
    · rename_i hg
      simp only [Bool.or_eq_true, not_or, Bool.not_eq_true] at hg
      have h0 := instsOf_len_zero' hg.2
      split
      · split
        · exact Nat.le_max_left ..
        · have h : (instsOf (insertNode S sibs (.inner k.sid dfltFlags [] [])) k.sid).length = (instsOf sibs k.sid).length + 1 :=
            len_insts_insertNode S sibs (.inner k.sid dfltFlags [] [])
          simp only [addImplicit]
          omega
      · split
        · rename_i d ds _
          have h : (instsOf (insertNode S sibs (.term k.sid dfltFlags [] d)) k.sid).length = (instsOf sibs k.sid).length + 1 :=
            len_insts_insertNode S sibs (.term k.sid dfltFlags [] d)
          simp only [addImplicit]
          omega
        · exact Nat.le_max_left ..
      · rw [implLeafList_cnt]
        dsimp only
        omega
      · exact Nat.le_max_left ..
  · rw [implNode_insts_ne S o cx k sibs sid hne]
    exact Nat.le_max_left ..

/-- the relation holds under a bound for the schema nodes at or below the level -/
def CntL (B : Nat → Nat) (ks : List STree) (a b : List DNode) : Prop :=
  (∀ k, BelowL k ks → max 1 k.info.dflts.length ≤ B k.sid) → CntI B a b
def CntT (B : Nat → Nat) (t : STree) (a b : List DNode) : Prop :=
  (∀ k, Below k t → max 1 k.info.dflts.length ≤ B k.sid) → CntI B a b

theorem CntL.refl (B : Nat → Nat) (ks : List STree) (a : List DNode) : CntL B ks a a := fun _ => CntI.refl B a
theorem CntT.refl (B : Nat → Nat) (t : STree) (a : List DNode) : CntT B t a a := fun _ => CntI.refl B a
theorem CntL.trans {B : Nat → Nat} {ks : List STree} {a b c : List DNode} (h1 : CntL B ks a b) (h2 : CntL B ks b c) : CntL B ks a c :=
  fun h => (h1 h).trans (h2 h)
theorem CntL.cons_head {B : Nat → Nat} {t : STree} {ts : List STree} {a b : List DNode} (h : CntT B t a b) : CntL B (t :: ts) a b :=
  fun hb => h (fun k hk => hb k (BelowL.head _ _ _ hk))
theorem CntL.cons_tail {B : Nat → Nat} {t : STree} {ts : List STree} {a b : List DNode} (h : CntL B ts a b) : CntL B (t :: ts) a b :=
  fun hb => h (fun k hk => hb k (BelowL.tail _ _ _ hk))
theorem CntT.of_kids {B : Nat → Nat} {s : Nat} {i : SNode} {ks : List STree} {a b : List DNode} (h : CntL B ks a b) :
    CntT B (.mk s i ks) a b :=
  fun hb => h (fun k hk => hb k (Below.kid _ _ _ _ hk))

theorem implNodes_cntL (S : Schema) (o : VOpts) (cx : Cx) (B : Nat → Nat) : ∀ (ks : List STree) (sibs : List DNode),
    CntL B ks sibs (implNodes S o cx ks sibs).1 := by
  intro ks
  induction ks with
  | nil => intro sibs; unfold implNodes; exact CntL.refl _ _ _
  | cons k ks ih =>
    intro sibs
    unfold implNodes
    refine CntL.trans ?_ (CntL.cons_tail (ih _))
    intro hb
    exact implNode_cnt S o cx k sibs B (hb k (BelowL.of_mem List.mem_cons_self))

theorem implChoices_cntL (X : SchemaX) (o : VOpts) (cx : Cx) (B : Nat → Nat) (ks : List STree) (sibs : List DNode) :
    CntL B ks sibs (implChoices X o cx ks sibs).1 := by
  apply implChoices.induct X o cx
    (motive_1 := fun ks sibs => CntL B ks sibs (implChoices X o cx ks sibs).1)
    (motive_2 := fun t sibs => CntT B t sibs (implChoice X o cx t sibs).1)
    (motive_3 := fun sid ks sibs => CntL B ks sibs (implCaseHolding X o cx sid ks sibs).1)
    (motive_4 := fun t sibs => CntT B t sibs (implCase X o cx t sibs).1)
    (motive_5 := fun target ks sibs => CntL B ks sibs (implInto X o cx target ks sibs).1)
    (motive_6 := fun target t sibs => CntT B t sibs (implIntoCase X o cx target t sibs).1)
    (motive_7 := fun target ks sibs => CntL B ks sibs (implIntoKids X o cx target ks sibs).1)
    (motive_8 := fun target t sibs => CntT B t sibs (implIntoChoice X o cx target t sibs).1)
    (motive_9 := fun nm ks sibs => CntL B ks sibs (implCaseNamed X o cx nm ks sibs).1)
  -- implChoice
  · intro sid i cases sibs h
    unfold implChoice; simp only [h, if_true]; exact CntT.refl _ _ _
  · intro sid i cases sibs h hfd nm hnm ih
    unfold implChoice; simp only [h, Bool.false_eq_true, if_false, hfd, hnm]; exact CntT.of_kids ih
  · intro sid i cases sibs h hfd hnm
    unfold implChoice; simp only [h, Bool.false_eq_true, if_false, hfd, hnm]; exact CntT.refl _ _ _
  · intro sid i cases sibs h node hfd hq target ht ih
    unfold implChoice; simp only [h, Bool.false_eq_true, if_false, hfd, hq, if_true, ht]; exact CntT.of_kids ih
  · intro sid i cases sibs h node hfd hq ht
    unfold implChoice; simp only [h, Bool.false_eq_true, if_false, hfd, hq, if_true, ht]; exact CntT.refl _ _ _
  · intro sid i cases sibs h node hfd hq ih
    unfold implChoice; simp only [h, Bool.false_eq_true, if_false, hfd, hq]; exact CntT.of_kids ih
  -- implCase
  · intro sid i cases sibs ih
    unfold implCase
    exact CntT.of_kids (CntL.trans ih (implNodes_cntL _ _ _ _ _ _))
  -- implIntoCase
  · intro target sid i cases sibs ih
    unfold implIntoCase; exact CntT.of_kids ih
  -- implIntoChoice
  · intro target sid i cases sibs h ih
    unfold implIntoChoice; simp only [h, if_true]; exact CntT.of_kids ih
  · intro target sid i cases sibs h
    unfold implIntoChoice; simp only [h, Bool.false_eq_true, if_false]; exact CntT.refl _ _ _
  -- implChoices
  · intro sibs; unfold implChoices; exact CntL.refl _ _ _
  · intro k ks sibs _ ih1 ih2
    unfold implChoices
    exact CntL.trans (CntL.cons_head ih1) (CntL.cons_tail ih2)
  -- implCaseHolding
  · intro sid sibs; unfold implCaseHolding; exact CntL.refl _ _ _
  · intro sid k ks sibs h ih
    unfold implCaseHolding; simp only [h, if_true]; exact CntL.cons_head ih
  · intro sid k ks sibs h ih
    unfold implCaseHolding; simp only [h, Bool.false_eq_true, if_false]; exact CntL.cons_tail ih
  -- implInto
  · intro target sibs; unfold implInto; exact CntL.refl _ _ _
  · intro target k ks sibs r1 ih1 ih2 ih3
    unfold implInto
    refine CntL.trans ?_ (CntL.cons_tail ih3)
    show CntL B (k :: ks) sibs (if (k.sid == target) = true then implCase X o cx k sibs else implIntoCase X o cx target k sibs).1
    split
    · exact CntL.cons_head ih1
    · exact CntL.cons_head ih2
  -- implIntoKids
  · intro target sibs; unfold implIntoKids; exact CntL.refl _ _ _
  · intro target k ks sibs _ ih1 ih2
    unfold implIntoKids
    exact CntL.trans (CntL.cons_head ih1) (CntL.cons_tail ih2)
  -- implCaseNamed
  · intro nm sibs; unfold implCaseNamed; exact CntL.refl _ _ _
  · intro nm k ks sibs h ih
    unfold implCaseNamed; simp only [h, if_true]; exact CntL.cons_head ih
  · intro nm k ks sibs h ih
    unfold implCaseNamed; simp only [h, Bool.false_eq_true, if_false]; exact CntL.cons_tail ih

/-- **`lyd_new_implicit` creates at most `B sid` instances of a schema node without instance**, `B` bounding `max 1 #defaults`
for the schema nodes at or below the level -/
theorem implL_cnt (X : SchemaX) (o : VOpts) (cx : Cx) (ks : List STree) (sibs : List DNode) (B : Nat → Nat)
    (hB : ∀ k, BelowL k ks → max 1 k.info.dflts.length ≤ B k.sid) : CntI B sibs (implL X o cx ks sibs).1 := by
  unfold implL
  exact (CntL.trans (implChoices_cntL X o cx B ks sibs) (implNodes_cntL _ _ _ _ _ _)) hB

end LyModel.Valid
