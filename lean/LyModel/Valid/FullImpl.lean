import LyModel.Valid.FullDefs
import LyModel.Valid.LemmasNpValidate
/-!
# C02, full schema language: what `lyd_new_implicit` does to the instances that were there

`KeepI`: the instances of every schema node that had an instance are the same list afterwards (implicit nodes are only created
for schema nodes without an instance, and `lyd_insert_node` does not reorder the others).
-/
namespace LyModel.Valid
open LyModel LyModel.Tree

theorem filter_insertBySchema (p : DNode → Bool) (n : DNode) (hp : p n = false) : ∀ (l : List DNode),
    (insertBySchema n l).filter p = l.filter p := by
  intro l
  induction l with
  | nil => simp [insertBySchema, hp]
  | cons x xs ih =>
    unfold insertBySchema
    split
    · simp [List.filter_cons, hp]
    · simp only [List.filter_cons, ih]

theorem filter_insertSorted (S : Schema) (p : DNode → Bool) (n : DNode) (hp : p n = false) : ∀ (l : List DNode),
    (insertSorted S n l).filter p = l.filter p := by
  intro l
  induction l with
  | nil => simp [insertSorted, hp]
  | cons x xs ih =>
    unfold insertSorted
    split
    · simp [List.filter_cons, hp]
    · split
      · simp [List.filter_cons, hp]
      · simp only [List.filter_cons, ih]

theorem filter_insertNode (S : Schema) (p : DNode → Bool) (l : List DNode) (n : DNode) (hp : p n = false) :
    (insertNode S l n).filter p = l.filter p := by
  unfold insertNode
  split
  · exact filter_insertSorted S p n hp l
  · exact filter_insertBySchema p n hp l

theorem instsOf_insertNode (S : Schema) (l : List DNode) (n : DNode) (sid : Nat) (h : n.sid ≠ sid) :
    instsOf (insertNode S l n) sid = instsOf l sid := by
  unfold instsOf
  exact filter_insertNode S _ l n (by simpa using h)

/-- the instances of every schema node that had one are untouched -/
def KeepI (a b : List DNode) : Prop := ∀ sid, hasInst a sid = true → instsOf b sid = instsOf a sid

theorem KeepI.refl (a : List DNode) : KeepI a a := fun _ _ => rfl

theorem hasInst_of_instsOf {a b : List DNode} {sid : Nat} (h : instsOf b sid = instsOf a sid) (ha : hasInst a sid = true) :
    hasInst b sid = true := by
  unfold hasInst at ha ⊢
  obtain ⟨x, hx, hs⟩ := List.any_eq_true.1 ha
  have : x ∈ instsOf a sid := by unfold instsOf; exact List.mem_filter.2 ⟨hx, hs⟩
  rw [← h] at this
  unfold instsOf at this
  exact List.any_eq_true.2 ⟨x, (List.mem_filter.1 this).1, hs⟩

theorem KeepI.trans {a b c : List DNode} (h1 : KeepI a b) (h2 : KeepI b c) : KeepI a c := by
  intro sid ha
  rw [h2 sid (hasInst_of_instsOf (h1 sid ha) ha), h1 sid ha]

theorem implLeafList_insts (S : Schema) (cx : Cx) (ksid : Nat) (sid : Nat) (h : ksid ≠ sid) : ∀ (ds : List Bytes) (acc : List DNode × Out),
    instsOf (implLeafList S cx ksid ds acc).1 sid = instsOf acc.1 sid := by
  intro ds
  induction ds with
  | nil => intro acc; rfl
  | cons d ds ih =>
    intro acc
    unfold implLeafList
    rw [ih]
    simp only [addImplicit]
    exact instsOf_insertNode S _ _ sid (by simpa [DNode.sid] using h)

theorem implNode_keepI (S : Schema) (o : VOpts) (cx : Cx) (k : STree) (sibs : List DNode) : KeepI sibs (implNode S o cx k sibs).1 := by
  intro sid hs
  unfold implNode
  dsimp only
  split
  · rfl
  · rename_i hg
    simp only [Bool.or_eq_true, not_or, Bool.not_eq_true] at hg
    have hne : k.sid ≠ sid := by
      intro he
      rw [he, hs] at hg
      exact absurd hg.2 (by simp)
    split
    · split
      · rfl
      · simp only [addImplicit]
        exact instsOf_insertNode S _ _ sid (by simpa [DNode.sid] using hne)
    · split
      · simp only [addImplicit]
        exact instsOf_insertNode S _ _ sid (by simpa [DNode.sid] using hne)
      · rfl
    · exact implLeafList_insts S cx k.sid sid hne _ _
    · rfl

theorem implNodes_keepI (S : Schema) (o : VOpts) (cx : Cx) : ∀ (ks : List STree) (sibs : List DNode), KeepI sibs (implNodes S o cx ks sibs).1 := by
  intro ks
  induction ks with
  | nil => intro sibs; exact KeepI.refl _
  | cons k ks ih =>
    intro sibs
    unfold implNodes
    exact (implNode_keepI S o cx k sibs).trans (ih _)

theorem implL_keepI (X : SchemaX) (o : VOpts) (cx : Cx) (ks : List STree) (sibs : List DNode) : KeepI sibs (implL X o cx ks sibs).1 := by
  unfold implL
  exact (implChoices_rel X o cx KeepI KeepI.refl (fun _ _ _ h1 h2 => h1.trans h2) (fun ks sibs => implNodes_keepI _ _ _ ks sibs) ks sibs).trans
    (implNodes_keepI _ _ _ _ _)

/-- a node `lyd_new_implicit` added (default-flagged among siblings none of which was) is of a schema node without instance before -/
theorem implL_added_noInst (X : SchemaX) (o : VOpts) (cx : Cx) (ks : List STree) (sibs : List DNode)
    (hnd : ∀ n ∈ sibs, n.flags.dflt = false) (x : DNode) (hx : x ∈ (implL X o cx ks sibs).1) (hd : x.flags.dflt = true) :
    hasInst sibs x.sid = false := by
  cases h : hasInst sibs x.sid with
  | false => rfl
  | true =>
    exfalso
    have hk := implL_keepI X o cx ks sibs x.sid h
    have : x ∈ instsOf (implL X o cx ks sibs).1 x.sid := by unfold instsOf; exact List.mem_filter.2 ⟨hx, by simp⟩
    rw [hk] at this
    unfold instsOf at this
    have := hnd x (List.mem_filter.1 this).1
    rw [hd] at this
    cases this

/-! ## `lyd_new_implicit` logs no error -/

theorem Out.ofEvs_errs (evs : List Ev) : (Out.ofEvs evs).errs = [] := by
  unfold Out.ofEvs Out.errs
  induction evs with
  | nil => rfl
  | cons e es ih => simp

theorem implLeafList_errs (S : Schema) (cx : Cx) (sid : Nat) : ∀ (ds : List Bytes) (acc : List DNode × Out), acc.2.errs = [] →
    (implLeafList S cx sid ds acc).2.errs = [] := by
  intro ds
  induction ds with
  | nil => intro acc h; exact h
  | cons d ds ih =>
    intro acc h
    unfold implLeafList
    apply ih
    simp only [addImplicit, Out.append_errs, h, Out.ofEvs_errs, List.append_nil]

theorem implNode_errs (S : Schema) (o : VOpts) (cx : Cx) (k : STree) (sibs : List DNode) : (implNode S o cx k sibs).2.errs = [] := by
  unfold implNode
  dsimp only
  split
  · rfl
  · split
    · split
      · rfl
      · simp only [addImplicit, Out.ofEvs_errs]
    · split
      · simp only [addImplicit, Out.ofEvs_errs]
      · rfl
    · exact implLeafList_errs S cx k.sid _ _ rfl
    · rfl

theorem implNodes_errs (S : Schema) (o : VOpts) (cx : Cx) : ∀ (ks : List STree) (sibs : List DNode), (implNodes S o cx ks sibs).2.errs = [] := by
  intro ks
  induction ks with
  | nil => intro sibs; rfl
  | cons k ks ih =>
    intro sibs
    unfold implNodes
    simp only [Out.append_errs, implNode_errs, ih, List.append_nil]

theorem implChoices_errs (X : SchemaX) (o : VOpts) (cx : Cx) (ks : List STree) (sibs : List DNode) :
    (implChoices X o cx ks sibs).2.errs = [] := by
  apply implChoices.induct X o cx
    (motive_1 := fun ks sibs => (implChoices X o cx ks sibs).2.errs = [])
    (motive_2 := fun t sibs => (implChoice X o cx t sibs).2.errs = [])
    (motive_3 := fun sid ks sibs => (implCaseHolding X o cx sid ks sibs).2.errs = [])
    (motive_4 := fun t sibs => (implCase X o cx t sibs).2.errs = [])
    (motive_5 := fun target ks sibs => (implInto X o cx target ks sibs).2.errs = [])
    (motive_6 := fun target t sibs => (implIntoCase X o cx target t sibs).2.errs = [])
    (motive_7 := fun target ks sibs => (implIntoKids X o cx target ks sibs).2.errs = [])
    (motive_8 := fun target t sibs => (implIntoChoice X o cx target t sibs).2.errs = [])
    (motive_9 := fun nm ks sibs => (implCaseNamed X o cx nm ks sibs).2.errs = [])
  -- implChoice
  · intro sid i cases sibs h
    unfold implChoice; simp only [h, if_true]; rfl
  · intro sid i cases sibs h hfd nm hnm ih
    unfold implChoice; simp only [h, Bool.false_eq_true, if_false, hfd, hnm]; exact ih
  · intro sid i cases sibs h hfd hnm
    unfold implChoice; simp only [h, Bool.false_eq_true, if_false, hfd, hnm]; rfl
  · intro sid i cases sibs h node hfd hq target ht ih
    unfold implChoice; simp only [h, Bool.false_eq_true, if_false, hfd, hq, if_true, ht]; exact ih
  · intro sid i cases sibs h node hfd hq ht
    unfold implChoice; simp only [h, Bool.false_eq_true, if_false, hfd, hq, if_true, ht]; rfl
  · intro sid i cases sibs h node hfd hq ih
    unfold implChoice; simp only [h, Bool.false_eq_true, if_false, hfd, hq]; exact ih
  -- implCase
  · intro sid i cases sibs ih
    unfold implCase
    simp only [Out.append_errs, ih, implNodes_errs, List.append_nil]
  -- implIntoCase
  · intro target sid i cases sibs ih
    unfold implIntoCase; exact ih
  -- implIntoChoice
  · intro target sid i cases sibs h ih
    unfold implIntoChoice; simp only [h, if_true]; exact ih
  · intro target sid i cases sibs h
    unfold implIntoChoice; simp only [h, Bool.false_eq_true, if_false]; rfl
  -- implChoices
  · intro sibs; unfold implChoices; rfl
  · intro k ks sibs _ ih1 ih2
    unfold implChoices
    simp only [Out.append_errs, ih1, List.nil_append]
    exact ih2
  -- implCaseHolding
  · intro sid sibs; unfold implCaseHolding; rfl
  · intro sid k ks sibs h ih
    unfold implCaseHolding; simp only [h, if_true]; exact ih
  · intro sid k ks sibs h ih
    unfold implCaseHolding; simp only [h, Bool.false_eq_true, if_false]; exact ih
  -- implInto
  · intro target sibs; unfold implInto; rfl
  · intro target k ks sibs r1 ih1 ih2 ih3
    unfold implInto
    simp only [Out.append_errs, List.append_eq_nil_iff]
    refine ⟨?_, ih3⟩
    show (if (k.sid == target) = true then implCase X o cx k sibs else implIntoCase X o cx target k sibs).2.errs = []
    split
    · exact ih1
    · exact ih2
  -- implIntoKids
  · intro target sibs; unfold implIntoKids; rfl
  · intro target k ks sibs _ ih1 ih2
    unfold implIntoKids
    simp only [Out.append_errs, ih1, List.nil_append]
    exact ih2
  -- implCaseNamed
  · intro nm sibs; unfold implCaseNamed; rfl
  · intro nm k ks sibs h ih
    unfold implCaseNamed; simp only [h, if_true]; exact ih
  · intro nm k ks sibs h ih
    unfold implCaseNamed; simp only [h, Bool.false_eq_true, if_false]; exact ih

theorem implL_errs (X : SchemaX) (o : VOpts) (cx : Cx) (ks : List STree) (sibs : List DNode) : (implL X o cx ks sibs).2.errs = [] := by
  unfold implL
  simp only [Out.append_errs, implChoices_errs, implNodes_errs, List.append_nil]

end LyModel.Valid
