import LyModel.Valid.LemmasOpsWF
/-!
# `LYD_VALIDATE_NO_STATE` on an all-state schema: every node that is there is unexpected state data
-/
namespace LyModel.Valid
open LyModel LyModel.Tree

theorem instsOf_isEmpty_of_hasInst {sibs : List DNode} {s : Nat} (h : hasInst sibs s = true) : (instsOf sibs s).isEmpty = false := by
  unfold hasInst at h
  unfold instsOf
  obtain ⟨n, hn, hs⟩ := List.any_eq_true.1 h
  cases hf : List.filter (fun x => x.sid == s) sibs with
  | nil =>
    have : n ∈ List.filter (fun x => x.sid == s) sibs := List.mem_filter.2 ⟨hn, hs⟩
    rw [hf] at this; cases this
  | cons _ _ => rfl

theorem hasData_of_hasInst {sibs : List DNode} {s : Nat} {ds : List Nat} (h : hasInst sibs s = true) (hs : s ∈ ds) :
    hasData sibs ds = true := by
  unfold hasInst at h
  unfold hasData
  obtain ⟨n, hn, hs'⟩ := List.any_eq_true.1 h
  refine List.any_eq_true.2 ⟨n, hn, ?_⟩
  unfold inSids
  have : n.sid = s := by simpa using hs'
  rw [this]
  simpa using hs

mutual
theorem specNode_noState (X : SchemaX) (o : VOpts) (hns : o.noState = true) : ∀ (k : STree) (sibs : List DNode) (x : Nat),
    k.allState = true → x ∈ k.dataSids → hasInst sibs x = true → EKind.unexpState ∈ specNode X o k sibs
  | .mk s i ks, sibs, x, ha, hx, hi => by
    have ihL := specL_noState X o hns ks sibs x
    have ihC := specCases_noState X o hns ks sibs x
    unfold STree.allState at ha
    simp only [Bool.and_eq_true, Bool.not_eq_eq_eq_not, Bool.not_true] at ha
    unfold STree.dataSids at hx
    unfold specNode
    simp only [hns, ha.1, Bool.not_false, Bool.and_self, Bool.true_and]
    cases hk : i.kind with
    | choice =>
      simp only [hk, beq_self_eq_true, Bool.true_or, if_true] at hx
      simp only [List.mem_append]
      exact Or.inr (ihC ha.2 hx hi)
    | case =>
      simp only [hk, beq_self_eq_true, Bool.or_true, if_true] at hx
      exact ihL ha.2 hx hi
    | leaf =>
      simp [hk] at hx
      subst hx
      simp [instsOf_isEmpty_of_hasInst hi]
    | leaflist =>
      simp [hk] at hx
      subst hx
      simp [instsOf_isEmpty_of_hasInst hi]
    | container =>
      simp [hk] at hx
      subst hx
      simp [instsOf_isEmpty_of_hasInst hi]
    | list =>
      simp [hk] at hx
      subst hx
      simp [instsOf_isEmpty_of_hasInst hi]
theorem specL_noState (X : SchemaX) (o : VOpts) (hns : o.noState = true) : ∀ (ks : List STree) (sibs : List DNode) (x : Nat),
    allStateL ks = true → x ∈ dataSidsL ks → hasInst sibs x = true → EKind.unexpState ∈ specL X o ks sibs
  | [], _, _, _, hx, _ => by simp [dataSidsL] at hx
  | k :: ks, sibs, x, ha, hx, hi => by
    unfold allStateL at ha
    simp only [Bool.and_eq_true] at ha
    unfold dataSidsL at hx
    unfold specL
    rcases List.mem_append.1 hx with h | h
    · exact List.mem_append.2 (Or.inl (specNode_noState X o hns k sibs x ha.1 h hi))
    · exact List.mem_append.2 (Or.inr (specL_noState X o hns ks sibs x ha.2 h hi))
theorem specCases_noState (X : SchemaX) (o : VOpts) (hns : o.noState = true) : ∀ (ks : List STree) (sibs : List DNode) (x : Nat),
    allStateL ks = true → x ∈ dataSidsL ks → hasInst sibs x = true → EKind.unexpState ∈ specCases X o ks sibs
  | [], _, _, _, hx, _ => by simp [dataSidsL] at hx
  | k :: ks, sibs, x, ha, hx, hi => by
    unfold allStateL at ha
    simp only [Bool.and_eq_true] at ha
    unfold dataSidsL at hx
    unfold specCases
    rcases List.mem_append.1 hx with h | h
    · refine List.mem_append.2 (Or.inl ?_)
      rw [if_pos (hasData_of_hasInst hi h)]
      exact specNode_noState X o hns k sibs x ha.1 h hi
    · exact List.mem_append.2 (Or.inr (specCases_noState X o hns ks sibs x ha.2 h hi))
end

end LyModel.Valid
