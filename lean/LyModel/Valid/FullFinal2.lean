import LyModel.Valid.FullFinal
import LyModel.Valid.FullSel
import LyModel.Valid.FullSpec
/-!
# C02, full schema language: the schema-based checks of one level of `lyd_validate_final_r` against `cardL`, part 2

One non-choice node (completeness, quietness), the case `lyd_validate_siblings_schema_r` descends into is the selected one, and the
level theorems `level_quiet` / `level_sound` / `level_complete` through choices and cases.
-/
namespace LyModel.Valid
open LyModel LyModel.Tree

/-! ## A. one non-choice schema node on a completed level -/

theorem instsIdx_nil_of_noInst {L : List DNode} {s : Nat} (h : hasInst L s = false) : instsIdx L s = [] := by
  have := instsIdx_length L s
  rw [instsOf_len_zero h] at this
  exact List.length_eq_zero_iff.1 this

/-- `lyd_validate_unique` has nothing to compare when the list has no instance -/
theorem uniqueOut_nil_of_noInst (X : SchemaX) (o : VOpts) (cx : Cx) (L : List DNode) (k : STree) (h : hasInst L k.sid = false) :
    uniqueOut X o cx L k = {} := by
  unfold uniqueOut
  dsimp only
  rw [instsIdx_nil_of_noInst h]
  split
  · rfl
  · simp [uniqueCheck]

section node
variable (X : SchemaX) (o : VOpts) (cx : Cx) (hop : o.operational = false) {E L : List DNode} (hc : LvCnt X.base E L)
include hop hc

/-- completeness: a cardinality constraint the explicit data violate is reported -/
theorem node_complete (k : STree) (hk : k.info.kind ≠ .choice) (hs : saneData k = true)
    (hH : hasInst L k.sid = (hasInst E k.sid || wantsImplicit o k)) :
    ∀ K ∈ cardNode o E k, (nodeOut X o cx L k).errs ≠ [] := by
  intro K hK
  cases k with
  | mk s i ks =>
    rw [nodeOut_mk]
    dsimp only [STree.info, STree.sid] at hH hk
    have hkc : (i.kind == SKind.choice) = false := by simpa using hk
    rw [cardNode] at hK
    unfold saneData at hs
    simp only [STree.info] at hs
    by_cases hst : (o.noState && !i.config) = true
    · exfalso
      simp only [hst, Bool.not_true, Bool.false_and, Bool.false_eq_true, if_false, List.append_nil] at hK
      cases hkind : i.kind with
      | choice => exact absurd hkind hk
      | case => simp [hkind] at hs
      | container => simp [hkind] at hK
      | leaf => simp [hkind] at hK
      | leaflist => simp [hkind] at hK
      | list => simp [hkind] at hK
    · have hst' : (o.noState && !i.config) = false := by simpa using hst
      simp only [hkc, hst', Bool.or_self, Bool.false_eq_true, if_false]
      simp only [hst', Bool.not_false, Bool.true_and] at hK
      unfold wantsImplicit at hH
      simp only [STree.info, hkc, hst', Bool.not_false, Bool.true_and] at hH
      cases hkind : i.kind with
      | choice => exact absurd hkind hk
      | case => simp [hkind] at hs
      | container => simp [hkind] at hK
      | leaf =>
        simp only [hkind] at hK hs hH ⊢
        by_cases hm : (i.mandatory && (instsOf E s).isEmpty) = true
        · simp only [Bool.and_eq_true, instsOf_isEmpty_iff, Bool.not_eq_eq_eq_not, Bool.not_true] at hm
          have hd : i.dflts.isEmpty = true := by
            have := hs; simp only [hm.1, Bool.true_and, Bool.not_not] at this; exact this
          have hL : hasInst L s = false := by
            rw [hH, hm.2, hd]; simp
          simp [hm.1, hL, hop, Out.err_errs]
        · rw [if_neg hm] at hK; cases hK
      | leaflist =>
        simp only [hkind, Bool.and_eq_true, Bool.or_eq_true, beq_iff_eq] at hK hs hH ⊢
        have hmm := mmSaneB_spec hs.2
        simp only [STree.info] at hmm
        have hviol : (instsOf E s).length < i.min ∨ (i.max ≠ 0 ∧ i.max < (instsOf E s).length) := by
          rw [List.mem_append] at hK
          rcases hK with hK | hK
          · left
            split at hK
            · rename_i h; simpa using h
            · cases hK
          · right
            split at hK
            · rename_i h; simpa using h
            · cases hK
        have hLE : hasInst L s = hasInst E s := by
          cases hE : hasInst E s with
          | true => rw [hH, hE]; rfl
          | false =>
            have h0 := instsOf_len_zero hE
            have hd : i.dflts.isEmpty = true := by
              rcases hs.1 with hd | hd
              · exact hd
              · exfalso; omega
            rw [hH, hE]; simp [hd]
        have hlen : (instsOf L s).length = (instsOf E s).length := hc.len_eq hLE
        intro hnil
        have := (minmaxOut_nil_iff X.base o cx L (.mk s i ks) hop hmm.1 hmm.2 (hc.insts_le hLE)).1 hnil
        simp only [STree.info, STree.sid, hlen] at this
        omega
      | list =>
        simp only [hkind] at hK hs hH ⊢
        rw [Out.append_errs]
        intro hnil0
        have hnil1 := (List.append_eq_nil_iff.1 hnil0).1
        revert hnil1
        have hmm := mmSaneB_spec hs
        simp only [STree.info] at hmm
        have hviol : (instsOf E s).length < i.min ∨ (i.max ≠ 0 ∧ i.max < (instsOf E s).length) := by
          rw [List.mem_append] at hK
          rcases hK with hK | hK
          · left
            split at hK
            · rename_i h; simpa using h
            · cases hK
          · right
            split at hK
            · rename_i h; simpa using h
            · cases hK
        have hLE : hasInst L s = hasInst E s := by rw [hH]; simp
        have hlen : (instsOf L s).length = (instsOf E s).length := hc.len_eq hLE
        intro hnil
        have := (minmaxOut_nil_iff X.base o cx L (.mk s i ks) hop hmm.1 hmm.2 (hc.insts_le hLE)).1 hnil
        simp only [STree.info, STree.sid, hlen] at this
        omega

/-- a node without a mandatory statement of its own and without explicit instances is not complained about -/
theorem node_quiet (k : STree) (hk : k.info.kind ≠ .choice) (hs : saneData k = true) (hget : X.base.get? k.sid = some k.info)
    (hH : hasInst L k.sid = (hasInst E k.sid || wantsImplicit o k)) (hq : quietNode k = true) (hE : hasInst E k.sid = false) :
    (nodeOut X o cx L k).errs = [] := by
  cases k with
  | mk s i ks =>
    rw [nodeOut_mk]
    dsimp only [STree.info, STree.sid] at hH hk hE
    have hkc : (i.kind == SKind.choice) = false := by simpa using hk
    unfold saneData at hs
    unfold quietNode at hq
    simp only [STree.info] at hs hq
    by_cases hst : (o.noState && !i.config) = true
    · simp [hst]
    · have hst' : (o.noState && !i.config) = false := by simpa using hst
      simp only [hkc, hst', Bool.or_self, Bool.false_eq_true, if_false]
      unfold wantsImplicit at hH
      simp only [STree.info, hkc, hst', Bool.not_false, Bool.true_and, hE, Bool.false_or] at hH
      cases hkind : i.kind with
      | choice => exact absurd hkind hk
      | case => simp [hkind] at hs
      | container =>
        simp only [hkind, Bool.not_eq_eq_eq_not, Bool.not_true] at hs
        simp [hs]
      | leaf =>
        simp only [hkind, Bool.not_eq_eq_eq_not, Bool.not_true] at hq
        simp [hq]
      | leaflist =>
        simp only [hkind, Bool.and_eq_true, Bool.or_eq_true, beq_iff_eq] at hq hs hH ⊢
        have hmx := mmSaneB_max hs.2
        simp only [STree.info] at hmx
        have hle : i.max = 0 ∨ (instsOf L s).length ≤ i.max := by
          by_cases h0 : i.max = 0
          · exact Or.inl h0
          · right
            rcases hs.1 with hd | hd
            · have hL : hasInst L s = false := by rw [hH]; simp [hd]
              rw [instsOf_len_zero hL]
              exact Nat.zero_le _
            · have hb := hc.dcnt s hE
              rw [dfltBound_of_get (show X.base.get? s = some i from hget)] at hb
              have := of_decide_eq_true (hd.2.resolve_left h0)
              omega
        exact minmaxOut_nil_of_le X.base o cx L (.mk s i ks) hq hle hmx
      | list =>
        simp only [hkind, beq_iff_eq] at hq hs hH ⊢
        have hL : hasInst L s = false := by rw [hH]; simp
        rw [uniqueOut_nil_of_noInst X o cx L (.mk s i ks) hL, Out.append_empty]
        have hmm := mmSaneB_spec hs
        simp only [STree.info] at hmm
        rw [minmaxOut_nil_iff X.base o cx L (.mk s i ks) hop hmm.1 hmm.2 (hc.insts_le (hL.trans hE.symm))]
        simp only [STree.info, STree.sid]
        rw [instsOf_len_zero hL]
        omega

end node

/-! ## B. the case `lyd_validate_siblings_schema_r` descends into is the selected one -/

theorem any_uns {H H3 : Nat → Bool} {ds : List Nat} (h : Uns H H3 ds) : ds.any H3 = ds.any H := any_congr' h

theorem any_sel_sub {o : VOpts} {H H3 : Nat → Bool} {ks : List STree} (hs : Sel o H H3 ks) (h : (dataSidsL ks).any H = true) :
    (dataSidsL ks).any H3 = true := by
  obtain ⟨sid, hsid, hh⟩ := List.any_eq_true.1 h
  exact List.any_eq_true.2 ⟨sid, hsid, sel_sub hs sid hsid hh⟩

/-- `find?` for two predicates that agree except at the element found, where the second holds too -/
theorem find?_agree_except {α : Type} {p q : α → Bool} {c : α} : ∀ {l : List α}, (∀ x ∈ l, x ≠ c → q x = p x) → q c = true →
    l.find? p = some c → l.find? q = some c := by
  intro l
  induction l with
  | nil => intro _ _ h; cases h
  | cons x xs ih =>
    intro hag hq hf
    rw [List.find?_cons] at hf ⊢
    by_cases hx : x = c
    · subst hx
      simp only [hq]
    · have hpc : p c = true := by
        have := List.find?_some (l := x :: xs) (p := p) (a := c) (by rw [List.find?_cons]; exact hf)
        exact this
      cases hpx : p x with
      | true => rw [hpx] at hf; injection hf with hf; exact absurd hf hx
      | false =>
        rw [hpx] at hf
        have : q x = false := by rw [hag x (List.mem_cons_self ..) hx]; exact hpx
        rw [this]
        exact ih (fun y hy => hag y (List.mem_cons_of_mem _ hy)) hq hf

theorem selCase_of_find {i : SNode} {cases : List STree} {H : Nat → Bool} {c : STree}
    (h : cases.find? (fun c => c.dataSids.any H) = some c) : selCase i cases H = some c := by
  unfold selCase; rw [h]

/-- a selected case without data is the default case -/
theorem selCase_dflt {i : SNode} {cases : List STree} {H : Nat → Bool} {c : STree} (h : selCase i cases H = some c)
    (hn : c.dataSids.any H = false) : i.dfltCase = some c.info.name := by
  unfold selCase at h
  split at h
  · rename_i c' hf
    injection h with h; subst h
    have := List.find?_some hf
    simp only [hn] at this
    cases this
  · split at h
    · rename_i nm hd
      have := List.find?_some h
      simp only [beq_iff_eq] at this
      rw [hd, this]
    · cases h

theorem selCase_none_of {i : SNode} {cases : List STree} {H : Nat → Bool} (hd : i.dfltCase = none)
    (hn : ∀ c ∈ cases, c.dataSids.any H = false) : selCase i cases H = none := by
  unfold selCase
  have : cases.find? (fun c => c.dataSids.any H) = none := by
    rw [List.find?_eq_none]; intro c hc; simp [hn c hc]
  rw [this, hd]

section first
variable {o : VOpts} {E L : List DNode} {i : SNode} {cases : List STree}
  (hsel : ∀ c ∈ cases, (selCase i cases (hasInst E) = some c → Sel o (hasInst E) (hasInst L) c.kids) ∧
    (selCase i cases (hasInst E) ≠ some c → Uns (hasInst E) (hasInst L) c.dataSids))
  (hds : ∀ c ∈ cases, c.dataSids = dataSidsL c.kids)
include hsel hds

/-- when some case has explicit data, the first case with data on the completed level is the first with explicit data -/
theorem first_L_of_E {c : STree} (hf : cases.find? (fun c => c.dataSids.any (hasInst E)) = some c) :
    cases.find? (fun c => c.dataSids.any (hasInst L)) = some c := by
  have hselc : selCase i cases (hasInst E) = some c := selCase_of_find hf
  have hcm := List.mem_of_find?_eq_some hf
  have hpE : c.dataSids.any (hasInst E) = true := by have := List.find?_some hf; exact this
  apply find?_agree_except (p := fun c => c.dataSids.any (hasInst E)) _ _ hf
  · intro x hx hne
    apply any_uns
    apply (hsel x hx).2
    rw [hselc]
    intro h; injection h with h; exact hne h.symm
  · show c.dataSids.any (hasInst L) = true
    rw [hds c hcm] at hpE ⊢
    exact any_sel_sub ((hsel c hcm).1 hselc) hpE

theorem first_L_is_sel {c : STree} (hf : cases.find? (fun c => c.dataSids.any (hasInst L)) = some c) :
    selCase i cases (hasInst E) = some c := by
  have hcm := List.mem_of_find?_eq_some hf
  have hpL : c.dataSids.any (hasInst L) = true := by have := List.find?_some hf; exact this
  cases hfe : cases.find? (fun c => c.dataSids.any (hasInst E)) with
  | some c' =>
    have := first_L_of_E hsel hds hfe
    rw [hf] at this
    injection this with this
    rw [this]
    exact selCase_of_find hfe
  | none =>
    apply Classical.byContradiction
    intro hne
    have hu := any_uns ((hsel c hcm).2 hne)
    have hpE : c.dataSids.any (hasInst E) = false := by
      have := List.find?_eq_none.1 hfe c hcm
      simpa using this
    rw [hu, hpE] at hpL
    cases hpL

theorem sel_is_first_L {c : STree} (hs : selCase i cases (hasInst E) = some c) (hpE : c.dataSids.any (hasInst E) = true) :
    cases.find? (fun c => c.dataSids.any (hasInst L)) = some c := by
  have hcm := selCase_mem hs
  cases hfe : cases.find? (fun c => c.dataSids.any (hasInst E)) with
  | some c' =>
    have h2 := selCase_of_find (i := i) hfe
    rw [hs] at h2
    injection h2 with h2
    rw [h2]
    exact first_L_of_E hsel hds hfe
  | none =>
    have := List.find?_eq_none.1 hfe c hcm
    simp only [hpE, not_true_eq_false] at this

end first

/-! ## C. the level: helpers -/

theorem any_inSids (L : List DNode) (ds : List Nat) : L.any (inSids ds) = ds.any (hasInst L) := hasData_eq_any L ds

/-- what `schemaCases` does: the checks of the children of the first case with data -/
def caseOut (X : SchemaX) (o : VOpts) (cx : Cx) (L : List DNode) (cases : List STree) : Out :=
  match cases.find? (fun c => c.dataSids.any (hasInst L)) with
  | some c => schemaRL X o cx L c.kids
  | none => {}

theorem schemaCase_eq (X : SchemaX) (o : VOpts) (cx : Cx) (L : List DNode) (c : STree) :
    schemaCase X o cx L c = schemaRL X o cx L c.kids := by
  cases c with
  | mk s i ks => rw [schemaCase]; rfl

theorem schemaCases_eq (X : SchemaX) (o : VOpts) (cx : Cx) (L : List DNode) (cases : List STree) :
    schemaCases X o cx L cases = caseOut X o cx L cases := by
  rw [schemaCases_find]
  unfold caseOut
  have : (fun c : STree => L.any (inSids c.dataSids)) = (fun c => c.dataSids.any (hasInst L)) := by
    funext c; exact any_inSids L c.dataSids
  rw [this]
  cases cases.find? (fun c => c.dataSids.any (hasInst L)) with
  | none => rfl
  | some c => exact schemaCase_eq X o cx L c

theorem schemaChoice_skip (X : SchemaX) (o : VOpts) (cx : Cx) (L : List DNode) (s : Nat) (i : SNode) (cases : List STree)
    (h : i.kind ≠ .choice ∨ (o.noState && !i.config) = true) : schemaChoice X o cx L (.mk s i cases) = {} := by
  rw [schemaChoice]
  have : (i.kind != .choice || (o.noState && !i.config)) = true := by
    rcases h with h | h
    · simp [h]
    · rw [h, Bool.or_true]
  rw [if_pos this]

theorem schemaChoice_eq (X : SchemaX) (o : VOpts) (cx : Cx) (L : List DNode) (s : Nat) (i : SNode) (cases : List STree)
    (hkind : i.kind = .choice) (hst : (o.noState && !i.config) = false) :
    schemaChoice X o cx L (.mk s i cases) =
      (if (i.mandatory && !((dataSidsL cases).any (hasInst L)) && !o.operational) = true then
        Out.err .noMandChoice (mandLoc X.base cx s) else {}) ++ caseOut X o cx L cases := by
  rw [schemaChoice]
  have : ¬ (i.kind != .choice || (o.noState && !i.config)) = true := by
    rw [hst, hkind]; simp
  rw [if_neg this, schemaCases_eq, any_inSids]

theorem nodeOut_choice (X : SchemaX) (o : VOpts) (cx : Cx) (L : List DNode) (k : STree) (h : k.info.kind = .choice) :
    nodeOut X o cx L k = {} := by
  unfold nodeOut
  simp [h]

theorem schemaRL_errs_mem (X : SchemaX) (o : VOpts) (cx : Cx) (L : List DNode) (e : VErr) (cks : List STree) :
    e ∈ (schemaRL X o cx L cks).errs ↔
      (∃ k ∈ cks, e ∈ (schemaChoice X o cx L k).errs) ∨ (∃ k ∈ cks, e ∈ (nodeOut X o cx L k).errs) := by
  unfold schemaRL
  rw [Out.append_errs, List.mem_append, schemaChoices_errs_mem, schemaNodes_errs_mem]

theorem cardNode_case_kids (o : VOpts) (E : List DNode) {c : STree} (h : c.info.kind = .case) : cardNode o E c = cardL o E c.kids := by
  cases c with
  | mk s i ks =>
    simp only [STree.info] at h
    rw [cardNode]
    simp only [h]
    rfl

theorem cardNode_choice_mk (o : VOpts) (E : List DNode) (s : Nat) (i : SNode) (ks : List STree) (h : i.kind = .choice) :
    cardNode o E (.mk s i ks) =
      (if (ks.filter fun cs => hasData E cs.dataSids).length > 1 then [.dupCase] else [])
        ++ (if (!(o.noState && !i.config) && i.mandatory && (ks.filter fun cs => hasData E cs.dataSids).isEmpty) = true
            then [.noMandChoice] else [])
        ++ cardCases o E ks := by
  rw [cardNode]
  simp only [h]

theorem sheight_down {cks cases : List STree} {s : Nat} {i : SNode} {c : STree} (hmem : STree.mk s i cases ∈ cks) (hc : c ∈ cases) :
    sheightL c.kids < sheightL cks := by
  have h1 := sheight_kids c
  have h2 := sheightL_mem hc
  have h3 := sheightL_mem hmem
  rw [sheight] at h3
  omega

theorem two_filter {α : Type} {p : α → Bool} {l : List α} {a b : α} (ha : a ∈ l) (hb : b ∈ l) (hne : a ≠ b)
    (hpa : p a = true) (hpb : p b = true) : 1 < (l.filter p).length := by
  have h1 : a ∈ l.filter p := List.mem_filter.2 ⟨ha, hpa⟩
  have h2 : b ∈ l.filter p := List.mem_filter.2 ⟨hb, hpb⟩
  generalize l.filter p = f at h1 h2
  match f, h1, h2 with
  | [], h1, _ => cases h1
  | [x], h1, h2 =>
    rw [List.mem_singleton] at h1 h2
    exact absurd (h1.trans h2.symm) hne
  | _ :: _ :: _, _, _ => simp

/-- below a state choice under `LYD_VALIDATE_NO_STATE` only "data of two cases" is a constraint -/
theorem allState_card (o : VOpts) (E : List DNode) (hns : o.noState = true) : ∀ (n : Nat),
    (∀ t : STree, sheight t ≤ n → t.allState = true → ∀ K ∈ cardNode o E t, K = .dupCase) ∧
    (∀ ks : List STree, sheightL ks ≤ n → allStateL ks = true →
      (∀ K ∈ cardL o E ks, K = .dupCase) ∧ (∀ K ∈ cardCases o E ks, K = .dupCase)) := by
  intro n
  induction n with
  | zero =>
    constructor
    · intro t ht; cases t with
      | mk s i ks => rw [sheight] at ht; omega
    · intro ks hks _
      cases ks with
      | nil => rw [cardL, cardCases]; simp
      | cons t ts =>
        exfalso
        have := sheightL_mem (List.mem_cons_self (a := t) (l := ts))
        cases t with
        | mk s i ks => rw [sheight] at this; omega
  | succ n ih =>
    have hT : ∀ t : STree, sheight t ≤ n + 1 → t.allState = true → ∀ K ∈ cardNode o E t, K = .dupCase := by
      intro t ht ha K hK
      cases t with
      | mk s i ks =>
        rw [sheight] at ht
        rw [STree.allState] at ha
        simp only [Bool.and_eq_true, Bool.not_eq_eq_eq_not, Bool.not_true] at ha
        have ihL := ih.2 ks (by omega) ha.2
        have hst : (o.noState && !i.config) = true := by rw [hns, ha.1]; rfl
        rw [cardNode] at hK
        simp only [hst, Bool.not_true, Bool.false_and, Bool.false_eq_true, if_false, List.append_nil] at hK
        cases hkind : i.kind with
        | leaf => simp [hkind] at hK
        | leaflist => simp [hkind] at hK
        | list => simp [hkind] at hK
        | container => simp [hkind] at hK
        | case => simp only [hkind] at hK; exact ihL.1 K hK
        | choice =>
          simp only [hkind, List.mem_append] at hK
          rcases hK with hK | hK
          · split at hK
            · exact List.mem_singleton.1 hK
            · cases hK
          · exact ihL.2 K hK
    refine ⟨hT, ?_⟩
    intro ks
    induction ks with
    | nil => intro _ _; rw [cardL, cardCases]; simp
    | cons t ts iht =>
      intro hks ha
      rw [allStateL] at ha
      simp only [Bool.and_eq_true] at ha
      have h1 : sheight t ≤ n + 1 := Nat.le_trans (sheightL_mem (List.mem_cons_self ..)) hks
      have h2 : sheightL ts ≤ n + 1 := by
        rw [sheightL] at hks
        exact Nat.le_trans (Nat.le_max_right ..) hks
      have ihts := iht h2 ha.2
      constructor
      · intro K hK
        rw [cardL, List.mem_append] at hK
        rcases hK with hK | hK
        · exact hT t h1 ha.1 K hK
        · exact ihts.1 K hK
      · intro K hK
        rw [cardCases, List.mem_append] at hK
        rcases hK with hK | hK
        · split at hK
          · exact hT t h1 ha.1 K hK
          · cases hK
        · exact ihts.2 K hK

theorem not_mem_empty_errs {e : VErr} (h : e ∈ ({} : Out).errs) : False := by
  rw [Out.empty_errs] at h; cases h

/-- a non-choice node of a sane completed level: the hypotheses of the node lemmas -/
theorem level_node_facts {o : VOpts} {H H3 : Nat → Bool} {cks : List STree} {k : STree} (hs : Sel o H H3 cks)
    (hk : kindsOkL cks = true) (hnd : (dataSidsL cks).Nodup) (hsane : saneL cks = true) (hmem : k ∈ cks)
    (hkc : k.info.kind ≠ .choice) :
    saneData k = true ∧ k.info.kind ≠ .case ∧ H3 k.sid = (H k.sid || wantsImplicit o k) ∧ k.sid ∈ dataSidsL cks := by
  have hsd := saneT_data (saneL_mem hsane hmem) hkc
  have hcase : k.info.kind ≠ .case := by
    intro h; unfold saneData at hsd; simp [h] at hsd
  refine ⟨hsd, hcase, sel_node hs hk hnd hmem hkc hcase, ?_⟩
  apply dataSids_sub_L hmem
  rw [dataSids_data hkc hcase]; exact List.mem_singleton.2 rfl

theorem choice_not_skip {o : VOpts} {i : SNode} (h : ¬ (i.kind ≠ .choice ∨ (o.noState && !i.config) = true)) :
    i.kind = .choice ∧ (o.noState && !i.config) = false := by
  constructor
  · apply Classical.byContradiction; intro h'; exact h (Or.inl h')
  · cases hst : (o.noState && !i.config) with
    | false => rfl
    | true => exact absurd (Or.inr hst) h

/-- the schema nodes at or below the children of a case of a choice of the level are below the level -/
theorem below_case_kids {cks : List STree} {s : Nat} {i : SNode} {cases : List STree} {c : STree} (hmem : STree.mk s i cases ∈ cks)
    (hcm : c ∈ cases) : ∀ k, BelowL k c.kids → BelowL k cks :=
  fun _ hb => BelowL.trans' hb (fun _ ha => BelowL.kid_of_below (BelowL.kid_of_below (BelowL.of_mem hmem) hcm) ha)

/-! ## C. the level theorems -/

section level
variable (X : SchemaX) (o : VOpts) (cx : Cx) (hop : o.operational = false) {E L : List DNode} (hc : LvCnt X.base E L)
include hop hc

theorem level_quiet_step (cks : List STree)
    (ih : ∀ cks' : List STree, sheightL cks' < sheightL cks → kindsOkL cks' = true → (dataSidsL cks').Nodup → saneL cks' = true →
      cks'.all quietNode = true → Sel o (hasInst E) (hasInst L) cks' → (∀ k, BelowL k cks' → X.base.get? k.sid = some k.info) →
      (∀ sid ∈ dataSidsL cks', hasInst E sid = false) → (schemaRL X o cx L cks').errs = [])
    (hk : kindsOkL cks = true) (hnd : (dataSidsL cks).Nodup) (hsane : saneL cks = true) (hq : cks.all quietNode = true)
    (hs : Sel o (hasInst E) (hasInst L) cks) (hget : ∀ k, BelowL k cks → X.base.get? k.sid = some k.info)
    (hE : ∀ sid ∈ dataSidsL cks, hasInst E sid = false) :
    (schemaRL X o cx L cks).errs = [] := by
  rw [List.eq_nil_iff_forall_not_mem]
  intro e he
  rw [schemaRL_errs_mem] at he
  rcases he with ⟨k, hmem, he⟩ | ⟨k, hmem, he⟩
  · -- a choice
    cases k with
    | mk s i cases =>
      by_cases hskip : i.kind ≠ .choice ∨ (o.noState && !i.config) = true
      · rw [schemaChoice_skip X o cx L s i cases hskip] at he
        exact not_mem_empty_errs he
      · obtain ⟨hkind, hst⟩ := choice_not_skip hskip
        rw [schemaChoice_eq X o cx L s i cases hkind hst] at he
        have hqk : quietNode (.mk s i cases) = true := List.all_eq_true.1 hq _ hmem
        have hm : i.mandatory = false := by
          unfold quietNode at hqk
          simpa [STree.info, hkind] using hqk
        simp only [hm, Bool.false_and, Bool.false_eq_true, if_false, Out.empty_append] at he
        unfold caseOut at he
        have hdown := (sel_down hs hk hnd hmem hkind).2 hst
        have hds : ∀ c ∈ cases, c.dataSids = dataSidsL c.kids := fun c hc => (sel_kids_wf hk hnd hmem hkind hc).2.2.2
        cases hf : cases.find? (fun c => c.dataSids.any (hasInst L)) with
        | none => rw [hf] at he; exact not_mem_empty_errs he
        | some c =>
          rw [hf] at he
          dsimp only at he
          have hcm := List.mem_of_find?_eq_some hf
          have hselc := first_L_is_sel hdown hds hf
          have hwf := sel_kids_wf hk hnd hmem hkind hcm
          have hEc : ∀ sid ∈ dataSidsL c.kids, hasInst E sid = false := by
            intro sid hsid
            apply hE
            apply dataSids_sub_L hmem
            rw [dataSids_choice hkind]
            apply dataSids_sub_L hcm
            rw [hwf.2.2.2]; exact hsid
          have hpE : c.dataSids.any (hasInst E) = false := by
            rw [hwf.2.2.2, List.any_eq_false]
            intro sid hsid; simp [hEc sid hsid]
          have hd := selCase_dflt hselc hpE
          have hsT := saneT_choice (saneL_mem hsane hmem) hkind
          have hcs := saneCs_mem i.dfltCase hsT.2.2 hcm
          have := ih c.kids (sheight_down hmem hcm) hwf.1 hwf.2.1 hcs.1 (hcs.2 hd) ((hdown c hcm).1 hselc)
            (fun k hb => hget k (below_case_kids hmem hcm k hb)) hEc
          rw [this] at he; cases he
  · -- a node
    by_cases hkc : k.info.kind = .choice
    · rw [nodeOut_choice _ _ _ _ _ hkc] at he; exact not_mem_empty_errs he
    · obtain ⟨hsd, _, hH, hsid⟩ := level_node_facts hs hk hnd hsane hmem hkc
      have := node_quiet X o cx hop hc k hkc hsd (hget k (BelowL.of_mem hmem)) hH (List.all_eq_true.1 hq _ hmem) (hE _ hsid)
      rw [this] at he; cases he

/-- a level whose nodes have no mandatory statement of their own and no explicit data is not complained about -/
theorem level_quiet : ∀ (n : Nat) (cks : List STree), sheightL cks ≤ n → kindsOkL cks = true → (dataSidsL cks).Nodup →
    saneL cks = true → cks.all quietNode = true → Sel o (hasInst E) (hasInst L) cks →
    (∀ k, BelowL k cks → X.base.get? k.sid = some k.info) →
    (∀ sid ∈ dataSidsL cks, hasInst E sid = false) → (schemaRL X o cx L cks).errs = [] := by
  intro n
  induction n with
  | zero =>
    intro cks h
    apply level_quiet_step X o cx hop hc
    intro cks' hlt; omega
  | succ n ih =>
    intro cks h
    apply level_quiet_step X o cx hop hc
    intro cks' hlt
    exact ih cks' (by omega)

/-- what an error of the level is: a violated cardinality constraint, or an error of `lyd_validate_unique` on a visited list -/
def SoundAt (X : SchemaX) (o : VOpts) (cx : Cx) (E L : List DNode) (cks : List STree) (e : VErr) : Prop :=
  e.kind ∈ cardL o E cks ∨ (e.kind = .noUniq ∧ ∃ k, Reach (hasInst E) cks k ∧ k.info.kind = .list ∧
    (o.noState && !k.info.config) = false ∧ (uniqueOut X o cx L k).errs ≠ [])

theorem level_sound_step (cks : List STree)
    (ih : ∀ cks' : List STree, sheightL cks' < sheightL cks → kindsOkL cks' = true → (dataSidsL cks').Nodup → saneL cks' = true →
      Sel o (hasInst E) (hasInst L) cks' → (∀ k, BelowL k cks' → X.base.get? k.sid = some k.info) →
      ∀ e ∈ (schemaRL X o cx L cks').errs, SoundAt X o cx E L cks' e)
    (hk : kindsOkL cks = true) (hnd : (dataSidsL cks).Nodup) (hsane : saneL cks = true)
    (hs : Sel o (hasInst E) (hasInst L) cks) (hget : ∀ k, BelowL k cks → X.base.get? k.sid = some k.info) :
    ∀ e ∈ (schemaRL X o cx L cks).errs, SoundAt X o cx E L cks e := by
  intro e he
  rw [schemaRL_errs_mem] at he
  unfold SoundAt
  rcases he with ⟨k, hmem, he⟩ | ⟨k, hmem, he⟩
  · cases k with
    | mk s i cases =>
      by_cases hskip : i.kind ≠ .choice ∨ (o.noState && !i.config) = true
      · rw [schemaChoice_skip X o cx L s i cases hskip] at he
        exact (not_mem_empty_errs he).elim
      · obtain ⟨hkind, hst⟩ := choice_not_skip hskip
        rw [schemaChoice_eq X o cx L s i cases hkind hst, Out.append_errs, List.mem_append] at he
        have hdown := (sel_down hs hk hnd hmem hkind).2 hst
        have hds : ∀ c ∈ cases, c.dataSids = dataSidsL c.kids := fun c hc => (sel_kids_wf hk hnd hmem hkind hc).2.2.2
        rcases he with he | he
        · -- the mandatory choice
          left
          rw [cardL_mem]
          refine ⟨_, hmem, ?_⟩
          rw [cardNode_choice_mk o E s i cases hkind]
          split at he
          · rename_i hm
            simp only [Bool.and_eq_true, Bool.not_eq_eq_eq_not, Bool.not_true] at hm
            rw [Out.err_errs, List.mem_singleton] at he
            rw [he]
            apply List.mem_append_left
            apply List.mem_append_right
            have hempty : (cases.filter fun cs => hasData E cs.dataSids).isEmpty = true := by
              rw [List.isEmpty_iff, List.filter_eq_nil_iff]
              intro c hcm hd
              rw [hasData_eq_any] at hd
              obtain ⟨sid, hsid, hh⟩ := List.any_eq_true.1 hd
              have hsidc : sid ∈ dataSidsL cases := dataSids_sub_L hcm sid hsid
              have hsidk : sid ∈ dataSidsL cks := dataSids_sub_L hmem sid (by rw [dataSids_choice hkind]; exact hsidc)
              have h3 := sel_sub hs sid hsidk hh
              have hany : (dataSidsL cases).any (hasInst L) = true := List.any_eq_true.2 ⟨sid, hsidc, h3⟩
              rw [hany] at hm
              exact Bool.noConfusion hm.1.2
            simp [hst, hm.1.1, hempty]
          · exact (not_mem_empty_errs he).elim
        · -- the case with data
          unfold caseOut at he
          cases hf : cases.find? (fun c => c.dataSids.any (hasInst L)) with
          | none => rw [hf] at he; exact (not_mem_empty_errs he).elim
          | some c =>
            rw [hf] at he
            dsimp only at he
            have hcm := List.mem_of_find?_eq_some hf
            have hselc := first_L_is_sel hdown hds hf
            have hwf := sel_kids_wf hk hnd hmem hkind hcm
            have hsT := saneT_choice (saneL_mem hsane hmem) hkind
            have hcs := saneCs_mem i.dfltCase hsT.2.2 hcm
            cases hpE : c.dataSids.any (hasInst E) with
            | true =>
              rcases ih c.kids (sheight_down hmem hcm) hwf.1 hwf.2.1 hcs.1 ((hdown c hcm).1 hselc)
                (fun k hb => hget k (below_case_kids hmem hcm k hb)) e he with h | ⟨hkd, k, hr, hrest⟩
              · left
                rw [cardL_mem]
                refine ⟨_, hmem, ?_⟩
                rw [cardNode_choice_mk o E s i cases hkind]
                apply List.mem_append_right
                rw [cardCases_mem]
                refine ⟨c, hcm, by rw [hasData_eq_any]; exact hpE, ?_⟩
                rw [cardNode_case_kids o E hwf.2.2.1]
                exact h
              · right
                exact ⟨hkd, k, Reach.through hmem hkind hcm hwf.2.2.1 hpE hr, hrest⟩
            | false =>
              exfalso
              have hd := selCase_dflt hselc hpE
              have hEc : ∀ sid ∈ dataSidsL c.kids, hasInst E sid = false := by
                intro sid hsid
                rw [hwf.2.2.2] at hpE
                have := List.any_eq_false.1 hpE sid hsid
                simpa using this
              have := level_quiet X o cx hop hc (sheightL c.kids) c.kids (Nat.le_refl _) hwf.1 hwf.2.1 hcs.1 (hcs.2 hd)
                ((hdown c hcm).1 hselc) (fun k hb => hget k (below_case_kids hmem hcm k hb)) hEc
              rw [this] at he; cases he
  · by_cases hkc : k.info.kind = .choice
    · rw [nodeOut_choice _ _ _ _ _ hkc] at he; exact (not_mem_empty_errs he).elim
    · obtain ⟨hsd, hcase, hH, _⟩ := level_node_facts hs hk hnd hsane hmem hkc
      rcases node_sound X o cx hc k hkc hsd (hget k (BelowL.of_mem hmem)) hH e he with h | ⟨hkd, hrest⟩
      · left
        rw [cardL_mem]
        exact ⟨k, hmem, h⟩
      · right
        exact ⟨hkd, k, Reach.here hmem hkc hcase, hrest⟩

/-- soundness of the schema-based checks of a completed level: every error names a cardinality constraint that the explicit
data violate, or it is an error of `lyd_validate_unique` on a list the specification visits -/
theorem level_sound : ∀ (n : Nat) (cks : List STree), sheightL cks ≤ n → kindsOkL cks = true → (dataSidsL cks).Nodup →
    saneL cks = true → Sel o (hasInst E) (hasInst L) cks → (∀ k, BelowL k cks → X.base.get? k.sid = some k.info) →
    ∀ e ∈ (schemaRL X o cx L cks).errs, e.kind ∈ cardL o E cks ∨ (e.kind = .noUniq ∧ ∃ k, Reach (hasInst E) cks k ∧
      k.info.kind = .list ∧ (o.noState && !k.info.config) = false ∧ (uniqueOut X o cx L k).errs ≠ []) := by
  intro n
  induction n with
  | zero =>
    intro cks h
    apply level_sound_step X o cx hop hc
    intro cks' hlt; omega
  | succ n ih =>
    intro cks h
    apply level_sound_step X o cx hop hc
    intro cks' hlt
    exact ih cks' (by omega)

theorem level_complete_step (cks : List STree)
    (ih : ∀ cks' : List STree, sheightL cks' < sheightL cks → kindsOkL cks' = true → (dataSidsL cks').Nodup → saneL cks' = true →
      Sel o (hasInst E) (hasInst L) cks' → ∀ K ∈ cardL o E cks', K ≠ .dupCase →
      (schemaRL X o cx L cks').errs ≠ [] ∨ EKind.dupCase ∈ cardL o E cks')
    (hk : kindsOkL cks = true) (hnd : (dataSidsL cks).Nodup) (hsane : saneL cks = true)
    (hs : Sel o (hasInst E) (hasInst L) cks) :
    ∀ K ∈ cardL o E cks, K ≠ .dupCase → (schemaRL X o cx L cks).errs ≠ [] ∨ EKind.dupCase ∈ cardL o E cks := by
  intro K hK hne
  rw [cardL_mem] at hK
  obtain ⟨k, hmem, hK⟩ := hK
  by_cases hkc : k.info.kind = .choice
  · cases k with
    | mk s i cases =>
      have hkind : i.kind = .choice := hkc
      have hsT := saneT_choice (saneL_mem hsane hmem) hkind
      cases hst : (o.noState && !i.config) with
      | true =>
        exfalso
        simp only [Bool.and_eq_true, Bool.not_eq_eq_eq_not, Bool.not_true] at hst
        have hall := hsT.2.1 hst.2
        have hal : (STree.mk s i cases).allState = true := by rw [STree.allState, hst.2, hall]; rfl
        exact hne ((allState_card o E hst.1 _).1 _ (Nat.le_refl _) hal K hK)
      | false =>
        have hdown := (sel_down hs hk hnd hmem hkind).2 hst
        have hds : ∀ c ∈ cases, c.dataSids = dataSidsL c.kids := fun c hc => (sel_kids_wf hk hnd hmem hkind hc).2.2.2
        rw [cardNode_choice_mk o E s i cases hkind, List.mem_append, List.mem_append] at hK
        rcases hK with (hK | hK) | hK
        · split at hK
          · exact absurd (List.mem_singleton.1 hK) hne
          · cases hK
        · -- the mandatory choice without explicit data
          left
          split at hK
          · rename_i hm
            simp only [hst, Bool.not_false, Bool.true_and, Bool.and_eq_true, List.isEmpty_iff] at hm
            have hnoE : ∀ c ∈ cases, c.dataSids.any (hasInst E) = false := by
              intro c hcm
              have := List.filter_eq_nil_iff.1 hm.2 c hcm
              rw [hasData_eq_any] at this
              simpa using this
            have hsn := selCase_none_of (hsT.1 hm.1) hnoE
            have hnoL : (dataSidsL cases).any (hasInst L) = false := by
              rw [List.any_eq_false]
              intro sid hsid
              obtain ⟨c, hcm, hsc⟩ := mem_dataSidsL hsid
              have hu' := (hdown c hcm).2 (by rw [hsn]; intro h; cases h)
              rw [hu' sid hsc]
              have := List.any_eq_false.1 (hnoE c hcm) sid hsc
              exact this
            have hin : ({ kind := .noMandChoice, path := mandLoc X.base cx s } : VErr) ∈ (schemaRL X o cx L cks).errs := by
              rw [schemaRL_errs_mem]
              left
              refine ⟨_, hmem, ?_⟩
              rw [schemaChoice_eq X o cx L s i cases hkind hst, Out.append_errs]
              apply List.mem_append_left
              simp [hm.1, hnoL, hop, Out.err_errs]
            exact List.ne_nil_of_mem hin
          · cases hK
        · -- a constraint inside a case with explicit data
          rw [cardCases_mem] at hK
          obtain ⟨c, hcm, hdE, hKc⟩ := hK
          rw [hasData_eq_any] at hdE
          have hwf := sel_kids_wf hk hnd hmem hkind hcm
          have hcs := saneCs_mem i.dfltCase hsT.2.2 hcm
          rw [cardNode_case_kids o E hwf.2.2.1] at hKc
          by_cases hselc : selCase i cases (hasInst E) = some c
          · have hf := sel_is_first_L hdown hds hselc hdE
            rcases ih c.kids (sheight_down hmem hcm) hwf.1 hwf.2.1 hcs.1 ((hdown c hcm).1 hselc) K hKc hne with h | h
            · left
              obtain ⟨e, he⟩ := List.exists_mem_of_ne_nil _ h
              apply List.ne_nil_of_mem (a := e)
              rw [schemaRL_errs_mem]
              left
              refine ⟨_, hmem, ?_⟩
              rw [schemaChoice_eq X o cx L s i cases hkind hst, Out.append_errs]
              apply List.mem_append_right
              unfold caseOut
              rw [hf]
              exact he
            · right
              rw [cardL_mem]
              refine ⟨_, hmem, ?_⟩
              rw [cardNode_choice_mk o E s i cases hkind]
              apply List.mem_append_right
              rw [cardCases_mem]
              exact ⟨c, hcm, by rw [hasData_eq_any]; exact hdE, by rw [cardNode_case_kids o E hwf.2.2.1]; exact h⟩
          · -- the first case with explicit data is another one: data of two cases
            right
            cases hfe : cases.find? (fun c => c.dataSids.any (hasInst E)) with
            | none =>
              exfalso
              have := List.find?_eq_none.1 hfe c hcm
              exact this hdE
            | some c' =>
              have hc'm := List.mem_of_find?_eq_some hfe
              have hpE' : c'.dataSids.any (hasInst E) = true := by have := List.find?_some hfe; exact this
              have hne' : c ≠ c' := by
                intro h; apply hselc; rw [h]; exact selCase_of_find hfe
              have h2 := two_filter (p := fun cs => hasData E cs.dataSids) hcm hc'm hne'
                (by show hasData E c.dataSids = true; rw [hasData_eq_any]; exact hdE)
                (by show hasData E c'.dataSids = true; rw [hasData_eq_any]; exact hpE')
              rw [cardL_mem]
              refine ⟨_, hmem, ?_⟩
              rw [cardNode_choice_mk o E s i cases hkind]
              apply List.mem_append_left
              apply List.mem_append_left
              rw [if_pos h2]
              exact List.mem_singleton.2 rfl
  · left
    obtain ⟨hsd, _, hH, _⟩ := level_node_facts hs hk hnd hsane hmem hkc
    have h := node_complete X o cx hop hc k hkc hsd hH K hK
    obtain ⟨e, he⟩ := List.exists_mem_of_ne_nil _ h
    apply List.ne_nil_of_mem (a := e)
    rw [schemaRL_errs_mem]
    exact Or.inr ⟨k, hmem, he⟩

/-- completeness of the schema-based checks of a completed level: when the explicit data violate a cardinality constraint other
than "data of two cases" (which `lyd_validate_choice_r` looks for), an error is logged — or there are data of two cases -/
theorem level_complete : ∀ (n : Nat) (cks : List STree), sheightL cks ≤ n → kindsOkL cks = true → (dataSidsL cks).Nodup →
    saneL cks = true → Sel o (hasInst E) (hasInst L) cks →
    ∀ K ∈ cardL o E cks, K ≠ .dupCase → (schemaRL X o cx L cks).errs ≠ [] ∨ EKind.dupCase ∈ cardL o E cks := by
  intro n
  induction n with
  | zero =>
    intro cks h
    apply level_complete_step X o cx hop hc
    intro cks' hlt; omega
  | succ n ih =>
    intro cks h
    apply level_complete_step X o cx hop hc
    intro cks' hlt
    exact ih cks' (by omega)

end level

/-! ## D. `unique`: an error of `lyd_validate_unique` on a visited list is logged by the level (or there are data of two cases) -/

theorem nodeOut_list_uniq (X : SchemaX) (o : VOpts) (cx : Cx) (L : List DNode) (k : STree) (hkind : k.info.kind = .list)
    (hst : (o.noState && !k.info.config) = false) :
    ∀ e ∈ (uniqueOut X o cx L k).errs, e ∈ (nodeOut X o cx L k).errs := by
  intro e he
  unfold nodeOut
  rw [hst, hkind]
  have : (SKind.list == SKind.choice || false) = false := rfl
  rw [this]
  simp only [Bool.false_eq_true, if_false]
  rw [Out.append_errs]
  exact List.mem_append_right _ he

theorem choice_lift_errs (X : SchemaX) (o : VOpts) (cx : Cx) (L : List DNode) {cks : List STree} {s : Nat} {i : SNode}
    {cases : List STree} {c : STree} (hmem : STree.mk s i cases ∈ cks) (hkind : i.kind = .choice)
    (hst : (o.noState && !i.config) = false) (hf : cases.find? (fun c => c.dataSids.any (hasInst L)) = some c)
    (h : (schemaRL X o cx L c.kids).errs ≠ []) : (schemaRL X o cx L cks).errs ≠ [] := by
  obtain ⟨e, he⟩ := List.exists_mem_of_ne_nil _ h
  apply List.ne_nil_of_mem (a := e)
  rw [schemaRL_errs_mem]
  left
  refine ⟨_, hmem, ?_⟩
  rw [schemaChoice_eq X o cx L s i cases hkind hst, Out.append_errs]
  apply List.mem_append_right
  unfold caseOut
  rw [hf]
  exact he

theorem choice_lift_card (o : VOpts) (E : List DNode) {cks : List STree} {s : Nat} {i : SNode} {cases : List STree} {c : STree}
    (hmem : STree.mk s i cases ∈ cks) (hkind : i.kind = .choice) (hcm : c ∈ cases) (hck : c.info.kind = .case)
    (hdE : c.dataSids.any (hasInst E) = true) {K : EKind} (h : K ∈ cardL o E c.kids) : K ∈ cardL o E cks := by
  rw [cardL_mem]
  refine ⟨_, hmem, ?_⟩
  rw [cardNode_choice_mk o E s i cases hkind]
  apply List.mem_append_right
  rw [cardCases_mem]
  exact ⟨c, hcm, by rw [hasData_eq_any]; exact hdE, by rw [cardNode_case_kids o E hck]; exact h⟩

/-- a case with explicit data that is not the selected one: data of two cases -/
theorem choice_two_dup (o : VOpts) (E : List DNode) {cks : List STree} {s : Nat} {i : SNode} {cases : List STree} {c : STree}
    (hmem : STree.mk s i cases ∈ cks) (hkind : i.kind = .choice) (hcm : c ∈ cases)
    (hdE : c.dataSids.any (hasInst E) = true) (hselc : selCase i cases (hasInst E) ≠ some c) : EKind.dupCase ∈ cardL o E cks := by
  cases hfe : cases.find? (fun c => c.dataSids.any (hasInst E)) with
  | none =>
    exfalso
    have := List.find?_eq_none.1 hfe c hcm
    exact this hdE
  | some c' =>
    have hc'm := List.mem_of_find?_eq_some hfe
    have hpE' : c'.dataSids.any (hasInst E) = true := by have := List.find?_some hfe; exact this
    have hne' : c ≠ c' := by
      intro h; apply hselc; rw [h]; exact selCase_of_find hfe
    have h2 := two_filter (p := fun cs => hasData E cs.dataSids) hcm hc'm hne'
      (by show hasData E c.dataSids = true; rw [hasData_eq_any]; exact hdE)
      (by show hasData E c'.dataSids = true; rw [hasData_eq_any]; exact hpE')
    rw [cardL_mem]
    refine ⟨_, hmem, ?_⟩
    rw [cardNode_choice_mk o E s i cases hkind]
    apply List.mem_append_left
    apply List.mem_append_left
    rw [if_pos h2]
    exact List.mem_singleton.2 rfl

theorem level_complete_uniq_reach (X : SchemaX) (o : VOpts) (cx : Cx) {E L : List DNode} {cks : List STree} {k : STree}
    (hr : Reach (hasInst E) cks k) :
    kindsOkL cks = true → (dataSidsL cks).Nodup → saneL cks = true → Sel o (hasInst E) (hasInst L) cks →
    (∀ ch k', BelowL ch cks → Below k' ch → ch.info.config = false → k'.info.config = false) →
    k.info.kind = .list → (o.noState && !k.info.config) = false → (uniqueOut X o cx L k).errs ≠ [] →
    (schemaRL X o cx L cks).errs ≠ [] ∨ EKind.dupCase ∈ cardL o E cks := by
  induction hr with
  | @here sk k hm h1 h2 =>
    intro _ _ _ _ _ hkind hst hne
    left
    obtain ⟨e, he⟩ := List.exists_mem_of_ne_nil _ hne
    apply List.ne_nil_of_mem (a := e)
    rw [schemaRL_errs_mem]
    exact Or.inr ⟨k, hm, nodeOut_list_uniq X o cx L k hkind hst e he⟩
  | @through sk ch c k hm hch hc hck hd hr ih =>
    intro hk hnd hsane hs hcfg hkind hst hne
    cases ch with
    | mk s i cases =>
      have hch : i.kind = .choice := hch
      have hc : c ∈ cases := hc
      have hwf := sel_kids_wf hk hnd hm hch hc
      have hsT := saneT_choice (saneL_mem hsane hm) hch
      have hcs := saneCs_mem i.dfltCase hsT.2.2 hc
      have hbk : BelowL k cases := BelowL.trans' hr.belowL (fun a ha => BelowL.kid_of_below (BelowL.of_mem hc) ha)
      cases hstc : (o.noState && !i.config) with
      | true =>
        exfalso
        simp only [Bool.and_eq_true, Bool.not_eq_eq_eq_not, Bool.not_true] at hstc
        have hkc := hcfg (.mk s i cases) k (BelowL.of_mem hm) (Below.kid _ _ _ _ hbk) hstc.2
        rw [hstc.1, hkc] at hst
        cases hst
      | false =>
        have hdown := (sel_down hs hk hnd hm hch).2 hstc
        have hds : ∀ c ∈ cases, c.dataSids = dataSidsL c.kids := fun c hc => (sel_kids_wf hk hnd hm hch hc).2.2.2
        by_cases hselc : selCase i cases (hasInst E) = some c
        · have hf := sel_is_first_L hdown hds hselc hd
          have hcfg' : ∀ ch' k', BelowL ch' c.kids → Below k' ch' → ch'.info.config = false → k'.info.config = false :=
            fun ch' k' hb => hcfg ch' k'
              (BelowL.trans' hb (fun a ha => BelowL.kid_of_below (BelowL.kid_of_below (BelowL.of_mem hm) hc) ha))
          rcases ih hwf.1 hwf.2.1 hcs.1 ((hdown c hc).1 hselc) hcfg' hkind hst hne with h | h
          · exact Or.inl (choice_lift_errs X o cx L hm hch hstc hf h)
          · exact Or.inr (choice_lift_card o E hm hch hc hck hd h)
        · exact Or.inr (choice_two_dup o E hm hch hc hd hselc)

/-- completeness for `unique`: when `lyd_validate_unique` has an error for a list the specification visits (not state-guarded),
the level logs an error — or there are data of two cases.  `hcfg`: `config false` is inherited. -/
theorem level_complete_uniq (X : SchemaX) (o : VOpts) (cx : Cx) {E L : List DNode} : ∀ (n : Nat) (cks : List STree),
    sheightL cks ≤ n → kindsOkL cks = true → (dataSidsL cks).Nodup → saneL cks = true → Sel o (hasInst E) (hasInst L) cks →
    (∀ ch k', BelowL ch cks → Below k' ch → ch.info.config = false → k'.info.config = false) →
    ∀ k, Reach (hasInst E) cks k → k.info.kind = .list → (o.noState && !k.info.config) = false →
    (uniqueOut X o cx L k).errs ≠ [] → (schemaRL X o cx L cks).errs ≠ [] ∨ EKind.dupCase ∈ cardL o E cks :=
  fun _ _ _ hk hnd hsane hs hcfg _ hr hkind hst hne =>
    level_complete_uniq_reach X o cx hr hk hnd hsane hs hcfg hkind hst hne

end LyModel.Valid
