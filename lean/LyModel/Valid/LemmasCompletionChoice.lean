import LyModel.Valid.LemmasCompletionObs
import LyModel.Valid.LemmasCaseStable
/-!
# Lemmas for C07 `implicit_exact_tree` WITH `choice` / `case`: the RFC completion of one level (schema order, `rfcL`) is the level
`lyd_new_implicit` builds (choices first, `implL`), every container / list entry completed in place
-/
namespace LyModel.Valid
open LyModel LyModel.Tree

/-- the level `ks` read against a presence predicate `H` (which schema ids have instances): every choice has its selected case
(`selCase`: the first case with data, else the default case), no data of the choice sits outside the selected case, and the same
holds inside the selected case -/
inductive SelOk (H : Nat → Bool) : List STree → Prop
  | nil : SelOk H []
  | data (k : STree) (ks : List STree) : k.info.kind ≠ .choice → k.info.kind ≠ .case → SelOk H ks → SelOk H (k :: ks)
  | none (s : Nat) (i : SNode) (cases ks : List STree) : i.kind = .choice → selCase i cases H = none →
      (∀ sid ∈ dataSidsL cases, H sid = false) → SelOk H ks → SelOk H (.mk s i cases :: ks)
  | some (s : Nat) (i : SNode) (cases ks : List STree) (c : STree) : i.kind = .choice → selCase i cases H = some c → c ∈ cases →
      c.info.kind = .case → (∀ sid ∈ dataSidsL cases, H sid = true → sid ∈ dataSidsL c.kids) → SelOk H c.kids → SelOk H ks →
      SelOk H (.mk s i cases :: ks)

theorem dataSidsL_choice_cons (s : Nat) (i : SNode) (cases ks : List STree) (h : i.kind = .choice) :
    dataSidsL (.mk s i cases :: ks) = dataSidsL cases ++ dataSidsL ks := by
  rw [dataSidsL_cons, dataSids_choice h]

theorem dataSidsL_data_cons (k : STree) (ks : List STree) (h1 : k.info.kind ≠ .choice) (h2 : k.info.kind ≠ .case) :
    dataSidsL (k :: ks) = k.sid :: dataSidsL ks := by
  rw [dataSidsL_cons, dataSids_data h1 h2]; rfl

theorem kids_sub_cases {c : STree} {cases : List STree} (hc : c ∈ cases) (hk : c.info.kind = .case) : ∀ sid ∈ dataSidsL c.kids, sid ∈ dataSidsL cases := by
  intro sid hs
  apply dataSids_sub_L hc
  rw [dataSids_case hk]; exact hs

theorem SelOk.congr {H H' : Nat → Bool} : ∀ {ks : List STree}, SelOk H ks → Agree (dataSidsL ks) H H' → SelOk H' ks := by
  intro ks h
  induction h with
  | nil => intro _; exact SelOk.nil
  | data k ks h1 h2 _ ih =>
    intro ha
    rw [dataSidsL_data_cons k ks h1 h2] at ha
    exact SelOk.data k ks h1 h2 (ih (ha.sub (fun x hx => List.mem_cons_of_mem _ hx)))
  | none s i cases ks hk hs hn _ ih =>
    intro ha
    rw [dataSidsL_choice_cons s i cases ks hk] at ha
    have ha1 : Agree (dataSidsL cases) H H' := ha.sub (fun x hx => List.mem_append_left _ hx)
    refine SelOk.none s i cases ks hk ?_ ?_ (ih (ha.sub (fun x hx => List.mem_append_right _ hx)))
    · rw [← selCase_congr i cases ha1]; exact hs
    · intro sid hsid; rw [← ha1 sid hsid]; exact hn sid hsid
  | some s i cases ks c hk hs hc hck ho _ _ ih1 ih2 =>
    intro ha
    rw [dataSidsL_choice_cons s i cases ks hk] at ha
    have ha1 : Agree (dataSidsL cases) H H' := ha.sub (fun x hx => List.mem_append_left _ hx)
    refine SelOk.some s i cases ks c hk ?_ hc hck ?_ (ih1 (ha1.sub (kids_sub_cases hc hck))) (ih2 (ha.sub (fun x hx => List.mem_append_right _ hx)))
    · rw [← selCase_congr i cases ha1]; exact hs
    · intro sid hsid hh; rw [← ha1 sid hsid] at hh; exact ho sid hsid hh

/-! ## `lyd_new_implicit`, read structurally -/

theorem implChoice_data (X : SchemaX) (o : VOpts) (cx : Cx) (k : STree) (l : List DNode) (h : k.info.kind ≠ .choice) :
    implChoice X o cx k l = (l, {}) := by
  cases k with
  | mk s i ks =>
    simp only [STree.info] at h
    rw [implChoice]
    have : (i.kind != SKind.choice) = true := by simpa using h
    simp [this]

theorem implChoices_cons_fst (X : SchemaX) (o : VOpts) (cx : Cx) (k : STree) (rest : List STree) (l : List DNode) :
    (implChoices X o cx (k :: rest) l).1 = (implChoices X o cx rest (implChoice X o cx k l).1).1 := by
  rw [implChoices]

theorem implL_fst (X : SchemaX) (o : VOpts) (cx : Cx) (ks : List STree) (l : List DNode) :
    (implL X o cx ks l).1 = lvl X.base o ks (implChoices X o cx ks l).1 := by
  rw [implL]
  dsimp only
  rw [implNodes_fst]

theorem implCase_fst (X : SchemaX) (o : VOpts) (cx : Cx) (c : STree) (l : List DNode) : (implCase X o cx c l).1 = (implL X o cx c.kids l).1 := by
  cases c with
  | mk s i ks => rw [implCase, implL]; rfl

theorem implChoice_some (X : SchemaX) (o : VOpts) (cx : Cx) (hno : o.noState = false) (hq : X.q.implicitInnerCase = false)
    (s : Nat) (i : SNode) (cases : List STree) (l : List DNode) (hk : i.kind = .choice) (c : STree)
    (hs : selCase i cases (hasInst l) = some c) : (implChoice X o cx (.mk s i cases) l).1 = (implL X o cx c.kids l).1 := by
  rw [implChoice_sel X o cx hq, hs]
  simp only [hk, bne_self_eq_false, hno, Bool.false_and, Bool.or_self, Bool.false_eq_true, if_false]
  exact implCase_fst X o cx c l

theorem implChoice_none (X : SchemaX) (o : VOpts) (cx : Cx) (hq : X.q.implicitInnerCase = false)
    (s : Nat) (i : SNode) (cases : List STree) (l : List DNode)
    (hs : selCase i cases (hasInst l) = none) : (implChoice X o cx (.mk s i cases) l).1 = l := by
  rw [implChoice_sel X o cx hq, hs]
  split <;> rfl

theorem lvl_cons_choice (S : Schema) (o : VOpts) (k : STree) (ks : List STree) (l : List DNode) (h : k.info.kind = .choice) :
    lvl S o (k :: ks) l = lvl S o ks l := by
  rw [lvl]
  congr 1
  simp [lvl1, h]

/-- what a pass over a level does to the presence predicate: unchanged outside the data ids of the level -/
theorem implL_hasInst_other (X : SchemaX) (o : VOpts) (cx : Cx) (hq : X.q.implicitInnerCase = false) (ks : List STree) (hk : kindsOkL ks = true)
    (hnd : (dataSidsL ks).Nodup) (l : List DNode) (sid : Nat) (hs : sid ∉ dataSidsL ks) :
    hasInst (implL X o cx ks l).1 sid = hasInst l sid := by
  have h := ((impl_done_T X o cx hq (.mk 0 { depth := 0, kind := .case, name := "" } ks) (by rw [kindsOk_mk]; simp [hk]) l).2 hnd).1
  rw [implCase_fst] at h
  simp only [STree.kids] at h
  cases hh : hasInst l sid with
  | true => exact h.1 sid hh
  | false =>
    cases hr : hasInst (implL X o cx ks l).1 sid with
    | false => rfl
    | true =>
      rcases h.2 sid hr with h' | h'
      · rw [hh] at h'; cases h'
      · exact absurd h' hs

end LyModel.Valid

namespace LyModel.Valid
open LyModel LyModel.Tree

/-- a well-formed level: the children of choices are cases, the data ids differ, table rows = statement records, no two equal
defaults -/
structure LvlWf (X : SchemaX) (ks : List STree) : Prop where
  kinds : kindsOkL ks = true
  nodup : (dataSidsL ks).Nodup
  ok : OkBelowL X.base ks

theorem LvlWf.tail {X : SchemaX} {k : STree} {ks : List STree} (h : LvlWf X (k :: ks)) : LvlWf X ks := by
  refine ⟨?_, ?_, h.ok.tail⟩
  · have := h.kinds; rw [kindsOkL_cons, Bool.and_eq_true] at this; exact this.2
  · have := h.nodup; rw [dataSidsL_cons] at this; exact (List.nodup_append.1 this).2.1

theorem LvlWf.sel {X : SchemaX} {s : Nat} {i : SNode} {cases ks : List STree} {c : STree} (h : LvlWf X (.mk s i cases :: ks))
    (hk : i.kind = .choice) (hc : c ∈ cases) (hck : c.info.kind = .case) : LvlWf X c.kids := by
  have hk1 := h.kinds
  rw [kindsOkL_cons, Bool.and_eq_true] at hk1
  have hk2 := hk1.1
  rw [kindsOk_mk, Bool.and_eq_true] at hk2
  have hkc := kindsOkL_mem hk2.2 hc
  have hnd := h.nodup
  rw [dataSidsL_choice_cons s i cases ks hk] at hnd
  have hnc := nodup_of_mem_cases (List.nodup_append.1 hnd).1 hc
  rw [dataSids_case hck] at hnc
  refine ⟨?_, hnc, ?_⟩
  · cases c with
    | mk s' i' ks' => rw [kindsOk_mk, Bool.and_eq_true] at hkc; exact hkc.2
  · intro k hk'
    apply h.ok k
    apply BelowL.head
    apply Below.kid
    cases c with
    | mk s' i' ks' => exact belowL_trans (BelowL.of_mem hc) (Below.kid _ _ _ _ hk')

theorem LvlWf.disj {X : SchemaX} {s : Nat} {i : SNode} {cases ks : List STree} (h : LvlWf X (.mk s i cases :: ks)) (hk : i.kind = .choice) :
    ∀ sid ∈ dataSidsL cases, sid ∉ dataSidsL ks := by
  have hnd := h.nodup
  rw [dataSidsL_choice_cons s i cases ks hk] at hnd
  intro sid h1 h2
  exact (List.nodup_append.1 hnd).2.2 sid h1 sid h2 rfl

theorem LvlWf.disj_data {X : SchemaX} {k : STree} {ks : List STree} (h : LvlWf X (k :: ks)) (h1 : k.info.kind ≠ .choice) (h2 : k.info.kind ≠ .case) :
    k.sid ∉ dataSidsL ks := by
  have hnd := h.nodup
  rw [dataSidsL_data_cons k ks h1 h2] at hnd
  exact (List.nodup_cons.1 hnd).1

/-- **`lyd_new_implicit` on a level commutes with every transformation of the siblings that does not touch the presence of the
level's schema ids and commutes with the creation of its default nodes** -/
theorem implL_commT (X : SchemaX) (o : VOpts) (cx : Cx) (hno : o.noState = false) (hq : X.q.implicitInnerCase = false)
    (T : List DNode → List DNode) {H : Nat → Bool} : ∀ {ks : List STree}, SelOk H ks → LvlWf X ks →
    (∀ l, ∀ sid ∈ dataSidsL ks, hasInst (T l) sid = hasInst l sid) →
    (∀ ks', (∀ sid ∈ dataSidsL ks', sid ∈ dataSidsL ks) → OkBelowL X.base ks' → ∀ l, lvl X.base o ks' (T l) = T (lvl X.base o ks' l)) →
    ∀ l, Agree (dataSidsL ks) (hasInst l) H →
      (implChoices X o cx ks (T l)).1 = T (implChoices X o cx ks l).1 ∧ (implL X o cx ks (T l)).1 = T (implL X o cx ks l).1 := by
  intro ks h
  have lOfC : ∀ (ks : List STree) (l : List DNode), OkBelowL X.base ks →
      (∀ ks', (∀ sid ∈ dataSidsL ks', sid ∈ dataSidsL ks) → OkBelowL X.base ks' → ∀ l, lvl X.base o ks' (T l) = T (lvl X.base o ks' l)) →
      (implChoices X o cx ks (T l)).1 = T (implChoices X o cx ks l).1 → (implL X o cx ks (T l)).1 = T (implL X o cx ks l).1 := by
    intro ks l hok hT hc
    rw [implL_fst, implL_fst, hc, hT ks (fun _ h => h) hok]
  induction h with
  | nil =>
    intro hw _ hT l _
    have hc : (implChoices X o cx [] (T l)).1 = T (implChoices X o cx [] l).1 := by rw [implChoices, implChoices]
    exact ⟨hc, lOfC [] l hw.ok hT hc⟩
  | data k ks h1 h2 _ ih =>
    intro hw hP hT l ha
    have hsub : ∀ sid ∈ dataSidsL ks, sid ∈ dataSidsL (k :: ks) := by
      intro sid hs; rw [dataSidsL_cons]; exact List.mem_append_right _ hs
    have hc : (implChoices X o cx (k :: ks) (T l)).1 = T (implChoices X o cx (k :: ks) l).1 := by
      rw [implChoices_cons_fst, implChoices_cons_fst, implChoice_data X o cx k _ h1, implChoice_data X o cx k _ h1]
      exact (ih hw.tail (fun l sid hs => hP l sid (hsub sid hs)) (fun ks' hs' => hT ks' (fun sid hs => hsub sid (hs' sid hs))) l
        (ha.sub hsub)).1
    exact ⟨hc, lOfC _ l hw.ok hT hc⟩
  | none s i cases ks hk hs hn _ ih =>
    intro hw hP hT l ha
    have hsub : ∀ sid ∈ dataSidsL ks, sid ∈ dataSidsL (.mk s i cases :: ks) := by
      intro sid hs; rw [dataSidsL_cons]; exact List.mem_append_right _ hs
    have hsub1 : ∀ sid ∈ dataSidsL cases, sid ∈ dataSidsL (.mk s i cases :: ks) := by
      intro sid hs; rw [dataSidsL_choice_cons s i cases ks hk]; exact List.mem_append_left _ hs
    have hs1 : selCase i cases (hasInst l) = none := by
      rw [selCase_congr i cases (ha.sub hsub1)]; exact hs
    have hs2 : selCase i cases (hasInst (T l)) = none := by
      rw [selCase_congr i cases (H' := hasInst l) (fun sid hsid => hP l sid (hsub1 sid hsid))]; exact hs1
    have hc : (implChoices X o cx (.mk s i cases :: ks) (T l)).1 = T (implChoices X o cx (.mk s i cases :: ks) l).1 := by
      rw [implChoices_cons_fst, implChoices_cons_fst, implChoice_none X o cx hq s i cases _ hs1, implChoice_none X o cx hq s i cases _ hs2]
      exact (ih hw.tail (fun l sid hs => hP l sid (hsub sid hs)) (fun ks' hs' => hT ks' (fun sid hs => hsub sid (hs' sid hs))) l
        (ha.sub hsub)).1
    exact ⟨hc, lOfC _ l hw.ok hT hc⟩
  | some s i cases ks c hk hs hcm hck ho _ _ ih1 ih2 =>
    intro hw hP hT l ha
    have hsub : ∀ sid ∈ dataSidsL ks, sid ∈ dataSidsL (.mk s i cases :: ks) := by
      intro sid hs; rw [dataSidsL_cons]; exact List.mem_append_right _ hs
    have hsub1 : ∀ sid ∈ dataSidsL cases, sid ∈ dataSidsL (.mk s i cases :: ks) := by
      intro sid hs; rw [dataSidsL_choice_cons s i cases ks hk]; exact List.mem_append_left _ hs
    have hsubc : ∀ sid ∈ dataSidsL c.kids, sid ∈ dataSidsL (.mk s i cases :: ks) := fun sid hs => hsub1 sid (kids_sub_cases hcm hck sid hs)
    have hs1 : selCase i cases (hasInst l) = some c := by
      rw [selCase_congr i cases (ha.sub hsub1)]; exact hs
    have hs2 : selCase i cases (hasInst (T l)) = some c := by
      rw [selCase_congr i cases (H' := hasInst l) (fun sid hsid => hP l sid (hsub1 sid hsid))]; exact hs1
    have hwc := hw.sel hk hcm hck
    have h1 := (ih1 hwc (fun l sid hs => hP l sid (hsubc sid hs)) (fun ks' hs' => hT ks' (fun sid hs => hsubc sid (hs' sid hs))) l
      (ha.sub hsubc)).2
    have hc : (implChoices X o cx (.mk s i cases :: ks) (T l)).1 = T (implChoices X o cx (.mk s i cases :: ks) l).1 := by
      rw [implChoices_cons_fst, implChoices_cons_fst, implChoice_some X o cx hno hq s i cases _ hk c hs1,
        implChoice_some X o cx hno hq s i cases _ hk c hs2, h1]
      apply (ih2 hw.tail (fun l sid hs => hP l sid (hsub sid hs)) (fun ks' hs' => hT ks' (fun sid hs => hsub sid (hs' sid hs))) _ _).1
      intro sid hsid
      rw [implL_hasInst_other X o cx hq c.kids hwc.kinds hwc.nodup l sid (fun hin => hw.disj hk sid (kids_sub_cases hcm hck sid hin) hsid)]
      exact ha sid (hsub sid hsid)
    exact ⟨hc, lOfC _ l hw.ok hT hc⟩

end LyModel.Valid

namespace LyModel.Valid
open LyModel LyModel.Tree

/-! ## the two transformations: a map that keeps ids and values, and the creation of a node of another schema node -/

theorem lvl1_case (S : Schema) (o : VOpts) (k : STree) (l : List DNode) (h : k.info.kind = .case) : lvl1 S o k l = l := by
  unfold lvl1
  dsimp only
  split
  · rfl
  · simp [h]

theorem lvl1_choice (S : Schema) (o : VOpts) (k : STree) (l : List DNode) (h : k.info.kind = .choice) : lvl1 S o k l = l := by
  simp [lvl1, h]

theorem lvl_map2 (S : Schema) (o : VOpts) (g : DNode → DNode) (hg : KeepsKey g) : ∀ (ks : List STree) (l : List DNode),
    (∀ k ∈ ks, S.get? k.sid = some k.info) →
    (∀ k ∈ ks, k.info.kind ≠ .choice → k.info.kind ≠ .case → ∀ n, n.sid = k.sid → n.flags = dfltFlags → n.kids = [] → g n = n) →
      lvl S o ks (l.map g) = (lvl S o ks l).map g
  | [], _, _, _ => rfl
  | k :: ks, l, hok, hfix => by
    have ih := lvl_map2 S o g hg ks
    rw [lvl, lvl]
    by_cases h1 : k.info.kind = .choice
    · rw [lvl1_choice S o k _ h1, lvl1_choice S o k _ h1]
      exact ih l (fun k' hk' => hok k' (List.mem_cons_of_mem _ hk')) (fun k' hk' => hfix k' (List.mem_cons_of_mem _ hk'))
    · by_cases h2 : k.info.kind = .case
      · rw [lvl1_case S o k _ h2, lvl1_case S o k _ h2]
        exact ih l (fun k' hk' => hok k' (List.mem_cons_of_mem _ hk')) (fun k' hk' => hfix k' (List.mem_cons_of_mem _ hk'))
      · rw [lvl1_map S o g hg k (hok k (List.mem_cons_self ..)) (hfix k (List.mem_cons_self ..) h1 h2)]
        exact ih _ (fun k' hk' => hok k' (List.mem_cons_of_mem _ hk')) (fun k' hk' => hfix k' (List.mem_cons_of_mem _ hk'))

theorem mem_dataSidsL_of_data {k : STree} {ks : List STree} (hk : k ∈ ks) (h1 : k.info.kind ≠ .choice) (h2 : k.info.kind ≠ .case) :
    k.sid ∈ dataSidsL ks := by
  apply dataSids_sub_L hk
  rw [dataSids_data h1 h2]; exact List.mem_singleton.2 rfl

/-- `implL` commutes with a map that keeps ids / values and leaves the default nodes of the level alone -/
theorem implL_map (X : SchemaX) (o : VOpts) (cx : Cx) (hno : o.noState = false) (hq : X.q.implicitInnerCase = false)
    (g : DNode → DNode) (hg : KeepsKey g) {H : Nat → Bool} {ks : List STree} (hs : SelOk H ks) (hw : LvlWf X ks)
    (hfix : ∀ x, x.flags = dfltFlags → x.kids = [] → x.sid ∈ dataSidsL ks → g x = x) (l : List DNode)
    (ha : Agree (dataSidsL ks) (hasInst l) H) : (implL X o cx ks (l.map g)).1 = (implL X o cx ks l).1.map g := by
  refine (implL_commT X o cx hno hq (List.map g) hs hw (fun l sid _ => hasInst_map g hg l sid) ?_ l ha).2
  intro ks' hsub hok l'
  apply lvl_map2 X.base o g hg ks' l' (fun k hk => (hok.mem k hk).1)
  intro k hk h1 h2 n hn hf hkd
  exact hfix n hf hkd (hsub _ (by rw [hn]; exact mem_dataSidsL_of_data hk h1 h2))

theorem foldl_insert_comm (S : Schema) (c : DNode) (sid : Nat) (hne : c.sid ≠ sid) : ∀ (ds : List Bytes) (l : List DNode),
    ds.foldl (fun acc d => insertNode S acc (.term sid dfltFlags [] d)) (insertNode S l c) =
      insertNode S (ds.foldl (fun acc d => insertNode S acc (.term sid dfltFlags [] d)) l) c
  | [], _ => rfl
  | d :: ds, l => by
    simp only [List.foldl_cons]
    rw [insertNode_comm S c (.term sid dfltFlags [] d) hne l]
    exact foldl_insert_comm S c sid hne ds _

theorem lvl1_comm (S : Schema) (o : VOpts) (c : DNode) (k : STree) (hne : c.sid ≠ k.sid) (l : List DNode) :
    lvl1 S o k (insertNode S l c) = insertNode S (lvl1 S o k l) c := by
  unfold lvl1
  dsimp only
  have hh : hasInst (insertNode S l c) k.sid = hasInst l k.sid := by
    rw [hasInst_insertNode]
    have : (c.sid == k.sid) = false := by simpa using hne
    simp [this]
  rw [hh]
  split
  · rfl
  · cases hkind : k.info.kind with
    | container =>
      simp only
      split
      · rfl
      · exact insertNode_comm S c (.inner k.sid dfltFlags [] []) hne l
    | leaf =>
      simp only
      cases k.info.dflts with
      | nil => rfl
      | cons d ds => exact insertNode_comm S c (.term k.sid dfltFlags [] d) hne l
    | leaflist => simp only; exact foldl_insert_comm S c k.sid hne _ l
    | list => rfl
    | choice => rfl
    | case => rfl

theorem lvl_comm (S : Schema) (o : VOpts) (c : DNode) : ∀ (ks : List STree) (l : List DNode),
    (∀ k ∈ ks, k.info.kind ≠ .choice → k.info.kind ≠ .case → c.sid ≠ k.sid) → lvl S o ks (insertNode S l c) = insertNode S (lvl S o ks l) c
  | [], _, _ => rfl
  | k :: ks, l, h => by
    have ih := lvl_comm S o c ks
    rw [lvl, lvl]
    by_cases h1 : k.info.kind = .choice
    · rw [lvl1_choice S o k _ h1, lvl1_choice S o k _ h1]
      exact ih l (fun k' hk' => h k' (List.mem_cons_of_mem _ hk'))
    · by_cases h2 : k.info.kind = .case
      · rw [lvl1_case S o k _ h2, lvl1_case S o k _ h2]
        exact ih l (fun k' hk' => h k' (List.mem_cons_of_mem _ hk'))
      · rw [lvl1_comm S o c k (h k (List.mem_cons_self ..) h1 h2)]
        exact ih _ (fun k' hk' => h k' (List.mem_cons_of_mem _ hk'))

/-- `implL` commutes with the creation of a node of a schema node outside the level -/
theorem implL_insert (X : SchemaX) (o : VOpts) (cx : Cx) (hno : o.noState = false) (hq : X.q.implicitInnerCase = false)
    (c : DNode) {H : Nat → Bool} {ks : List STree} (hs : SelOk H ks) (hw : LvlWf X ks) (hc : c.sid ∉ dataSidsL ks) (l : List DNode)
    (ha : Agree (dataSidsL ks) (hasInst l) H) :
    (implChoices X o cx ks (insertNode X.base l c)).1 = insertNode X.base (implChoices X o cx ks l).1 c := by
  refine (implL_commT X o cx hno hq (fun l => insertNode X.base l c) hs hw ?_ ?_ l ha).1
  · intro l sid hsid
    rw [hasInst_insertNode]
    have : (c.sid == sid) = false := by
      have : c.sid ≠ sid := fun e => hc (e ▸ hsid)
      simpa using this
    simp [this]
  · intro ks' hsub _ l'
    apply lvl_comm
    intro k hk h1 h2 e
    exact hc (hsub _ (e ▸ mem_dataSidsL_of_data hk h1 h2))

end LyModel.Valid

namespace LyModel.Valid
open LyModel LyModel.Tree

/-! ## the case the RFC completion works on is `selCase` -/

theorem cHasData_eq_any (l : List DNode) (ds : List Nat) : hasData l ds = ds.any (hasInst l) := by
  rw [Bool.eq_iff_iff]
  simp only [hasData, inSids, hasInst, List.any_eq_true, List.contains_iff_mem, beq_iff_eq]
  constructor
  · rintro ⟨n, hn, hs⟩; exact ⟨n.sid, hs, n, hn, rfl⟩
  · rintro ⟨sid, hs, n, hn, e⟩; exact ⟨n, hn, e ▸ hs⟩

theorem rfcCases_find (X : SchemaX) (o : VOpts) (dflt : Option String) (anyData : Bool) (l : List DNode) : ∀ (cs : List STree),
    rfcCases X o dflt anyData cs l =
      match cs.find? (fun c => if anyData then hasData l c.dataSids else dflt == some c.info.name) with
      | some c => rfcNode X o c l
      | none => l
  | [] => by rw [rfcCases]; rfl
  | c :: rest => by
    rw [rfcCases, List.find?_cons]
    by_cases h : (if anyData = true then hasData l c.dataSids else dflt == some c.info.name) = true
    · simp only [h, if_true]
    · have h' : (if anyData = true then hasData l c.dataSids else dflt == some c.info.name) = false := Bool.eq_false_iff.2 h
      simp only [h', Bool.false_eq_true, if_false]
      exact rfcCases_find X o dflt anyData l rest

theorem any_dataSidsL (H : Nat → Bool) : ∀ (cs : List STree), (dataSidsL cs).any H = cs.any (fun c => c.dataSids.any H)
  | [] => by rw [dataSidsL_nil]; rfl
  | c :: rest => by rw [dataSidsL_cons, List.any_append, List.any_cons, any_dataSidsL H rest]

/-- **`rfcNode` on a choice** completes the case `selCase` names (the first with data, else the default case) -/
theorem rfcNode_choice (X : SchemaX) (o : VOpts) (hno : o.noState = false) (s : Nat) (i : SNode) (cases : List STree) (l : List DNode)
    (hk : i.kind = .choice) :
    rfcNode X o (.mk s i cases) l = match selCase i cases (hasInst l) with | some c => rfcNode X o c l | none => l := by
  rw [rfcNode]
  simp only [hno, Bool.false_and, Bool.false_eq_true, if_false, hk]
  rw [rfcCases_find]
  unfold selCase
  cases hany : hasData l (dataSidsL cases) with
  | true =>
    simp only [if_true]
    have hf : cases.find? (fun c => hasData l c.dataSids) = cases.find? (fun c => c.dataSids.any (hasInst l)) := by
      apply find?_congr'; intro c _; exact cHasData_eq_any l c.dataSids
    rw [hf]
    cases hfi : cases.find? (fun c => c.dataSids.any (hasInst l)) with
    | some c => rfl
    | none =>
      exfalso
      rw [cHasData_eq_any, any_dataSidsL, List.any_eq_true] at hany
      obtain ⟨c, hc, hcc⟩ := hany
      have := List.find?_eq_none.1 hfi c hc
      exact this hcc
  | false =>
    simp only [Bool.false_eq_true, if_false]
    have hnone : cases.find? (fun c => c.dataSids.any (hasInst l)) = none := by
      rw [List.find?_eq_none]
      intro c hc hcc
      rw [cHasData_eq_any, any_dataSidsL] at hany
      have : cases.any (fun c => c.dataSids.any (hasInst l)) = true := List.any_eq_true.2 ⟨c, hc, hcc⟩
      rw [hany] at this; cases this
    rw [hnone]
    cases hd : i.dfltCase with
    | none =>
      have : cases.find? (fun c => (none : Option String) == some c.info.name) = none := by
        rw [List.find?_eq_none]; intro c _; simp
      simp only [this]
    | some nm =>
      have : cases.find? (fun c => some nm == some c.info.name) = cases.find? (fun c => c.info.name == nm) := by
        apply find?_congr'; intro c _
        rw [Bool.eq_iff_iff]
        simp only [beq_iff_eq, Option.some.injEq]
        exact eq_comm
      simp only [this]

theorem rfcNode_case (X : SchemaX) (o : VOpts) (hno : o.noState = false) (c : STree) (l : List DNode) (hk : c.info.kind = .case) :
    rfcNode X o c l = rfcL X o c.kids l := by
  cases c with
  | mk s i ks =>
    simp only [STree.info] at hk
    rw [rfcNode]
    simp only [hno, Bool.false_and, Bool.false_eq_true, if_false, hk, STree.kids]

end LyModel.Valid

namespace LyModel.Valid
open LyModel LyModel.Tree

/-! ## the completion of a level with choices -/

/-- a node completed by the schema node it is an instance of (looked up by schema id) -/
def deepX (X : SchemaX) (o : VOpts) (n : DNode) : DNode :=
  match X.node? n.sid with
  | some k => deepK X o k n
  | none => n

/-- the nodes of the level `ks` completed -/
def deepG (X : SchemaX) (o : VOpts) (ks : List STree) (n : DNode) : DNode := if (dataSidsL ks).contains n.sid then deepX X o n else n

theorem deepX_keeps (X : SchemaX) (o : VOpts) (n : DNode) : (deepX X o n).sid = n.sid ∧ (deepX X o n).val = n.val ∧ (deepX X o n).isTerm = n.isTerm := by
  unfold deepX
  split
  · exact deepK_keeps X o _ n
  · exact ⟨rfl, rfl, rfl⟩

theorem deepG_keeps (X : SchemaX) (o : VOpts) (ks : List STree) : KeepsKey (deepG X o ks) := by
  intro x
  unfold deepG
  split
  · exact deepX_keeps X o x
  · exact ⟨rfl, rfl, rfl⟩

theorem deepG_notin (X : SchemaX) (o : VOpts) (ks : List STree) (n : DNode) (h : n.sid ∉ dataSidsL ks) : deepG X o ks n = n := by
  unfold deepG
  have : (dataSidsL ks).contains n.sid = false := by
    rw [Bool.eq_false_iff]; intro hc; exact h (List.contains_iff_mem.1 hc)
  rw [this]; rfl

theorem deepG_in (X : SchemaX) (o : VOpts) (ks : List STree) (n : DNode) (h : n.sid ∈ dataSidsL ks) : deepG X o ks n = deepX X o n := by
  unfold deepG
  have : (dataSidsL ks).contains n.sid = true := List.contains_iff_mem.2 h
  rw [this]; rfl

/-- the default nodes one schema node of a level gets (`present`: it has an instance) -/
def batch (o : VOpts) (k : STree) (present : Bool) : List DNode :=
  let i := k.info
  if i.kind == .choice || (o.noState && !i.config) || present then []
  else
    match i.kind with
    | .container => if i.presence then [] else [.inner k.sid dfltFlags [] []]
    | .leaf =>
      match i.dflts with
      | d :: _ => [.term k.sid dfltFlags [] d]
      | [] => []
    | .leaflist => i.dflts.map fun d => .term k.sid dfltFlags [] d
    | _ => []

theorem lvl1_eq_batch (S : Schema) (o : VOpts) (k : STree) (l : List DNode) :
    lvl1 S o k l = (batch o k (hasInst l k.sid)).foldl (insertNode S) l := by
  unfold lvl1 batch
  dsimp only
  split
  · rfl
  · cases hk : k.info.kind with
    | container => simp only; split <;> rfl
    | leaf =>
      simp only
      cases k.info.dflts with
      | nil => rfl
      | cons d ds => rfl
    | leaflist => simp only; rw [List.foldl_map]
    | list => rfl
    | choice => rfl
    | case => rfl

theorem batch_sid (o : VOpts) (k : STree) (p : Bool) : ∀ c ∈ batch o k p, c.sid = k.sid := by
  intro c hc
  unfold batch at hc
  dsimp only at hc
  split at hc
  · cases hc
  · cases hk : k.info.kind with
    | container =>
      simp only [hk] at hc
      split at hc
      · cases hc
      · rw [List.mem_singleton.1 hc]; rfl
    | leaf =>
      simp only [hk] at hc
      split at hc
      · rw [List.mem_singleton.1 hc]; rfl
      · cases hc
    | leaflist =>
      simp only [hk] at hc
      obtain ⟨d, _, rfl⟩ := List.mem_map.1 hc
      rfl
    | list => simp only [hk] at hc; cases hc
    | choice => simp only [hk] at hc; cases hc
    | case => simp only [hk] at hc; cases hc

theorem implChoices_hasInst_other (X : SchemaX) (o : VOpts) (cx : Cx) (hq : X.q.implicitInnerCase = false) (ks : List STree)
    (hk : kindsOkL ks = true) (hnd : (dataSidsL ks).Nodup) (l : List DNode) (sid : Nat) (hs : sid ∉ dataSidsL ks) :
    hasInst (implChoices X o cx ks l).1 sid = hasInst l sid := by
  have h := ((impl_done_L X o cx hq ks hk l).1 hnd).1
  cases hh : hasInst l sid with
  | true => exact h.1 sid hh
  | false =>
    cases hr : hasInst (implChoices X o cx ks l).1 sid with
    | false => rfl
    | true =>
      rcases h.2 sid hr with h' | h'
      · rw [hh] at h'; cases h'
      · exact absurd h' hs

/-- the choices of a level do not see the default nodes of another schema node of the level -/
theorem implChoices_fold_insert (X : SchemaX) (o : VOpts) (cx : Cx) (hno : o.noState = false) (hq : X.q.implicitInnerCase = false)
    {H : Nat → Bool} {ks : List STree} (hs : SelOk H ks) (hw : LvlWf X ks) : ∀ (B : List DNode) (l : List DNode),
    (∀ c ∈ B, c.sid ∉ dataSidsL ks) → Agree (dataSidsL ks) (hasInst l) H →
    (implChoices X o cx ks (B.foldl (insertNode X.base) l)).1 = B.foldl (insertNode X.base) (implChoices X o cx ks l).1
  | [], _, _, _ => rfl
  | c :: B, l, hB, ha => by
    simp only [List.foldl_cons]
    have hc := hB c (List.mem_cons_self ..)
    rw [implChoices_fold_insert X o cx hno hq hs hw B _ (fun c' hc' => hB c' (List.mem_cons_of_mem _ hc')) (by
      intro sid hsid
      rw [hasInst_insertNode]
      have : (c.sid == sid) = false := by
        have : c.sid ≠ sid := fun e => hc (e ▸ hsid)
        simpa using this
      simp only [this, Bool.false_or]
      exact ha sid hsid), implL_insert X o cx hno hq c hs hw hc l ha]

theorem implL_mem_sid (X : SchemaX) (o : VOpts) (cx : Cx) (hq : X.q.implicitInnerCase = false) (ks : List STree) (hw : LvlWf X ks)
    (l : List DNode) (n : DNode) (hn : n ∈ (implL X o cx ks l).1) : hasInst l n.sid = true ∨ n.sid ∈ dataSidsL ks := by
  by_cases h : n.sid ∈ dataSidsL ks
  · exact Or.inr h
  · left
    rw [← implL_hasInst_other X o cx hq ks hw.kinds hw.nodup l n.sid h]
    simp only [hasInst, List.any_eq_true, beq_iff_eq]
    exact ⟨n, hn, rfl⟩

end LyModel.Valid

namespace LyModel.Valid
open LyModel LyModel.Tree

theorem hasInst_lvl1_other (S : Schema) (o : VOpts) (k : STree) (l : List DNode) (sid : Nat) (h : sid ≠ k.sid) :
    hasInst (lvl1 S o k l) sid = hasInst l sid := by
  rw [lvl1_eq_batch]
  have : ∀ (B : List DNode) (l : List DNode), (∀ c ∈ B, c.sid = k.sid) → hasInst (B.foldl (insertNode S) l) sid = hasInst l sid := by
    intro B
    induction B with
    | nil => intro l _; rfl
    | cons c B ih =>
      intro l hB
      simp only [List.foldl_cons]
      rw [ih _ (fun c' hc' => hB c' (List.mem_cons_of_mem _ hc')), hasInst_insertNode]
      have : (c.sid == sid) = false := by
        rw [hB c (List.mem_cons_self ..)]
        simpa using fun e => h e.symm
      simp [this]
  exact this _ l (batch_sid o k _)

theorem below_sel {s : Nat} {i : SNode} {cases ks : List STree} {c k : STree} (hc : c ∈ cases) (hk : BelowL k c.kids) :
    BelowL k (.mk s i cases :: ks) := by
  apply BelowL.head
  apply Below.kid
  cases c with
  | mk s' i' ks' => exact belowL_trans (BelowL.of_mem hc) (Below.kid _ _ _ _ hk)

/-- **the RFC completion of one level WITH choices**: `rfcL` (schema order, the selected case of every choice) = the level
`lyd_new_implicit` builds (choices first), every container / list entry of the level completed in place -/
theorem rfcL_eq_implL (X : SchemaX) (o : VOpts) (cx : Cx) (hno : o.noState = false) (hq : X.q.implicitInnerCase = false)
    {H : Nat → Bool} : ∀ {ks : List STree}, SelOk H ks → LvlWf X ks → (∀ k, BelowL k ks → X.node? k.sid = some k) →
    ∀ l, Agree (dataSidsL ks) (hasInst l) H → rfcL X o ks l = (implL X o cx ks l).1.map (deepG X o ks) := by
  intro ks h
  induction h with
  | nil =>
    intro _ _ l _
    rw [rfcL, implL_fst, implChoices, lvl]
    have : ∀ (l : List DNode), l.map (deepG X o []) = l := by
      intro l
      induction l with
      | nil => rfl
      | cons x xs ih => rw [List.map_cons, ih, deepG_notin X o [] x (by rw [dataSidsL_nil]; exact List.not_mem_nil)]
    exact (this l).symm
  | data k ks h1 h2 hs ih =>
    intro hw hlk l ha
    have hget : X.base.get? k.sid = some k.info := (hw.ok k (BelowL.of_mem (List.mem_cons_self ..))).1
    have hdis := hw.disj_data h1 h2
    have hds : dataSidsL (k :: ks) = k.sid :: dataSidsL ks := dataSidsL_data_cons k ks h1 h2
    have hsub : ∀ sid ∈ dataSidsL ks, sid ∈ dataSidsL (k :: ks) := by intro sid hsid; rw [hds]; exact List.mem_cons_of_mem _ hsid
    have hne : ∀ sid ∈ dataSidsL ks, sid ≠ k.sid := fun sid hsid e => hdis (e ▸ hsid)
    have ha0 : Agree (dataSidsL ks) (hasInst l) H := ha.sub hsub
    have ha1 : Agree (dataSidsL ks) (hasInst (lvl1 X.base o k l)) H := by
      intro sid hsid; rw [hasInst_lvl1_other X.base o k l sid (hne sid hsid)]; exact ha0 sid hsid
    have ha2 : Agree (dataSidsL ks) (hasInst ((lvl1 X.base o k l).map (deep1 X o k))) H := by
      intro sid hsid; rw [hasInst_map _ (deep1_keeps X o k)]; exact ha1 sid hsid
    rw [rfcL, rfcNode_eq X o k l hno h1 h2 hget, ih hw.tail (fun k' hk' => hlk k' (BelowL.tail _ _ _ hk')) _ ha2,
      implL_map X o cx hno hq (deep1 X o k) (deep1_keeps X o k) hs hw.tail (by
        intro x _ _ hx
        unfold deep1
        have : (x.sid == k.sid) = false := by simpa using hne x.sid hx
        simp [this]) _ ha1, List.map_map]
    -- the level: `k`'s default nodes are linked after the choices of the rest, which do not see them
    have hlev : (implL X o cx ks (lvl1 X.base o k l)).1 = (implL X o cx (k :: ks) l).1 := by
      rw [implL_fst, implL_fst, implChoices_cons_fst, implChoice_data X o cx k l h1, lvl, lvl1_eq_batch X.base o k l,
        implChoices_fold_insert X o cx hno hq hs hw.tail _ l (fun c hc => by rw [batch_sid o k _ c hc]; exact hdis) ha0,
        lvl1_eq_batch X.base o k (implChoices X o cx ks l).1,
        implChoices_hasInst_other X o cx hq ks hw.tail.kinds hw.tail.nodup l k.sid hdis]
    rw [hlev]
    apply List.map_congr_left
    intro n _
    simp only [Function.comp, deep1]
    by_cases hs' : (n.sid == k.sid) = true
    · have he : n.sid = k.sid := by simpa using hs'
      simp only [hs', if_true]
      have hk1 : (deepK X o k n).sid ∉ dataSidsL ks := by rw [(deepK_keeps X o k n).1, he]; exact hdis
      rw [deepG_notin X o ks _ hk1, deepG_in X o (k :: ks) n (by rw [hds, he]; exact List.mem_cons_self ..)]
      unfold deepX
      rw [he, hlk k (BelowL.of_mem (List.mem_cons_self ..))]
    · have hs'' : (n.sid == k.sid) = false := by simpa using hs'
      simp only [hs'', Bool.false_eq_true, if_false]
      have hne' : n.sid ≠ k.sid := by simpa using hs''
      by_cases hin : n.sid ∈ dataSidsL ks
      · rw [deepG_in X o ks n hin, deepG_in X o (k :: ks) n (hsub _ hin)]
      · rw [deepG_notin X o ks n hin, deepG_notin X o (k :: ks) n (by rw [hds]; intro hm; rcases List.mem_cons.1 hm with e | e; exact hne' e; exact hin e)]
  | none s i cases ks hk hsel hn hs ih =>
    intro hw hlk l ha
    have hds := dataSidsL_choice_cons s i cases ks hk
    have hsub : ∀ sid ∈ dataSidsL ks, sid ∈ dataSidsL (.mk s i cases :: ks) := by intro sid hsid; rw [hds]; exact List.mem_append_right _ hsid
    have hsub1 : ∀ sid ∈ dataSidsL cases, sid ∈ dataSidsL (.mk s i cases :: ks) := by intro sid hsid; rw [hds]; exact List.mem_append_left _ hsid
    have hs1 : selCase i cases (hasInst l) = none := by rw [selCase_congr i cases (ha.sub hsub1)]; exact hsel
    have ha0 : Agree (dataSidsL ks) (hasInst l) H := ha.sub hsub
    have hr : rfcNode X o (.mk s i cases) l = l := by rw [rfcNode_choice X o hno s i cases l hk, hs1]
    rw [rfcL, hr, ih hw.tail (fun k' hk' => hlk k' (BelowL.tail _ _ _ hk')) l ha0]
    have hlev : (implL X o cx (.mk s i cases :: ks) l).1 = (implL X o cx ks l).1 := by
      rw [implL_fst, implL_fst, implChoices_cons_fst, implChoice_none X o cx hq s i cases l hs1, lvl_cons_choice X.base o (.mk s i cases) ks _ hk]
    rw [hlev]
    apply List.map_congr_left
    intro n hnm
    have hno' : n.sid ∉ dataSidsL cases := by
      intro hin
      rcases implL_mem_sid X o cx hq ks hw.tail l n hnm with h' | h'
      · rw [ha n.sid (hsub1 _ hin), hn n.sid hin] at h'; cases h'
      · exact hw.disj hk n.sid hin h'
    by_cases hin : n.sid ∈ dataSidsL ks
    · rw [deepG_in X o ks n hin, deepG_in X o _ n (hsub _ hin)]
    · rw [deepG_notin X o ks n hin, deepG_notin X o _ n (by rw [hds]; intro hm; rcases List.mem_append.1 hm with e | e; exact hno' e; exact hin e)]
  | some s i cases ks c hk hsel hcm hck ho hsc hs ih1 ih2 =>
    intro hw hlk l ha
    have hds := dataSidsL_choice_cons s i cases ks hk
    have hsub : ∀ sid ∈ dataSidsL ks, sid ∈ dataSidsL (.mk s i cases :: ks) := by intro sid hsid; rw [hds]; exact List.mem_append_right _ hsid
    have hsub1 : ∀ sid ∈ dataSidsL cases, sid ∈ dataSidsL (.mk s i cases :: ks) := by intro sid hsid; rw [hds]; exact List.mem_append_left _ hsid
    have hsubc : ∀ sid ∈ dataSidsL c.kids, sid ∈ dataSidsL cases := kids_sub_cases hcm hck
    have hs1 : selCase i cases (hasInst l) = some c := by rw [selCase_congr i cases (ha.sub hsub1)]; exact hsel
    have hwc := hw.sel hk hcm hck
    have ha0 : Agree (dataSidsL ks) (hasInst l) H := ha.sub hsub
    have hac : Agree (dataSidsL c.kids) (hasInst l) H := ha.sub (fun sid hsid => hsub1 sid (hsubc sid hsid))
    have hdisj : ∀ sid ∈ dataSidsL ks, sid ∉ dataSidsL c.kids := fun sid h1 h2 => hw.disj hk sid (hsubc sid h2) h1
    have hr : rfcNode X o (.mk s i cases) l = (implL X o cx c.kids l).1.map (deepG X o c.kids) := by
      rw [rfcNode_choice X o hno s i cases l hk, hs1]
      simp only
      rw [rfcNode_case X o hno c l hck]
      exact ih1 hwc (fun k' hk' => hlk k' (below_sel hcm hk')) l hac
    have haM : Agree (dataSidsL ks) (hasInst (implL X o cx c.kids l).1) H := by
      intro sid hsid
      rw [implL_hasInst_other X o cx hq c.kids hwc.kinds hwc.nodup l sid (hdisj sid hsid)]; exact ha0 sid hsid
    have haM2 : Agree (dataSidsL ks) (hasInst ((implL X o cx c.kids l).1.map (deepG X o c.kids))) H := by
      intro sid hsid; rw [hasInst_map _ (deepG_keeps X o c.kids)]; exact haM sid hsid
    rw [rfcL, hr, ih2 hw.tail (fun k' hk' => hlk k' (BelowL.tail _ _ _ hk')) _ haM2,
      implL_map X o cx hno hq (deepG X o c.kids) (deepG_keeps X o c.kids) hs hw.tail (by
        intro x _ _ hx; exact deepG_notin X o c.kids x (hdisj x.sid hx)) _ haM, List.map_map]
    have hlev : (implL X o cx (.mk s i cases :: ks) l).1 = (implL X o cx ks (implL X o cx c.kids l).1).1 := by
      rw [implL_fst, implL_fst (ks := ks), implChoices_cons_fst, implChoice_some X o cx hno hq s i cases l hk c hs1,
        lvl_cons_choice X.base o (.mk s i cases) ks _ hk]
    rw [hlev]
    apply List.map_congr_left
    intro n hnm
    simp only [Function.comp]
    by_cases hinc : n.sid ∈ dataSidsL c.kids
    · rw [deepG_in X o c.kids n hinc]
      have h1 : (deepX X o n).sid ∉ dataSidsL ks := by rw [(deepX_keeps X o n).1]; exact fun h' => hdisj _ h' hinc
      rw [deepG_notin X o ks _ h1, deepG_in X o _ n (hsub1 _ (hsubc _ hinc))]
    · rw [deepG_notin X o c.kids n hinc]
      have hno' : n.sid ∉ dataSidsL cases := by
        intro hin
        rcases implL_mem_sid X o cx hq ks hw.tail _ n hnm with h' | h'
        · rcases (by
            by_cases hx : n.sid ∈ dataSidsL c.kids
            · exact Or.inr hx
            · left
              rw [← implL_hasInst_other X o cx hq c.kids hwc.kinds hwc.nodup l n.sid hx]; exact h' : hasInst l n.sid = true ∨ n.sid ∈ dataSidsL c.kids) with h'' | h''
          · rw [ha n.sid (hsub1 _ hin)] at h''
            exact hinc (ho n.sid hin h'')
          · exact hinc h''
        · exact hw.disj hk n.sid hin h'
      by_cases hin : n.sid ∈ dataSidsL ks
      · rw [deepG_in X o ks n hin, deepG_in X o _ n (hsub _ hin)]
      · rw [deepG_notin X o ks n hin, deepG_notin X o _ n (by rw [hds]; intro hm; rcases List.mem_append.1 hm with e | e; exact hno' e; exact hin e)]

end LyModel.Valid
