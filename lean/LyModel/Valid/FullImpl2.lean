import LyModel.Valid.FullWant
import LyModel.Valid.FullImpl
import LyModel.Valid.Ops
/-!
# C02, full schema language: the nodes `lyd_new_implicit` adds, and the converse of `want_reach`

* `implL_nodes_below`: every node of the result of `lyd_new_implicit` was there or is the implicit instance of a schema node at or
  below the level (all variants of the code);
* `reach_want`: a default-bearing schema node the specification visits is in use, unless a choice on the way has data of two cases;
* `allStateL_iff_below`: `allStateL` says that every schema node at or below the level is state data.
-/
namespace LyModel.Valid
open LyModel LyModel.Tree

/-! ## T1: what `lyd_new_implicit` adds -/

/-- `x` is the implicit instance of schema node `k` -/
def ImplNodeOf (k : STree) (x : DNode) : Prop :=
  x.sid = k.sid ∧ x.flags = dfltFlags ∧ x.kids = [] ∧
    ((x.isTerm = false ∧ k.isNpCont = true) ∨ (x.isTerm = true ∧ (k.info.kind = .leaf ∨ k.info.kind = .leaflist)))

/-- every node of `b` is in `a` or is the implicit instance of a schema node at or below `ks` -/
def AddL (ks : List STree) (a b : List DNode) : Prop := ∀ x ∈ b, x ∈ a ∨ ∃ k, BelowL k ks ∧ ImplNodeOf k x
def AddT (t : STree) (a b : List DNode) : Prop := ∀ x ∈ b, x ∈ a ∨ ∃ k, Below k t ∧ ImplNodeOf k x

theorem AddL.refl (ks : List STree) (a : List DNode) : AddL ks a a := fun _ hx => Or.inl hx
theorem AddT.refl (t : STree) (a : List DNode) : AddT t a a := fun _ hx => Or.inl hx

theorem AddL.trans {ks : List STree} {a b c : List DNode} (h1 : AddL ks a b) (h2 : AddL ks b c) : AddL ks a c := by
  intro x hx
  rcases h2 x hx with h | h
  · exact h1 x h
  · exact Or.inr h

theorem AddL.cons_head {t : STree} {ts : List STree} {a b : List DNode} (h : AddT t a b) : AddL (t :: ts) a b := by
  intro x hx
  rcases h x hx with h | ⟨k, hk, hi⟩
  · exact Or.inl h
  · exact Or.inr ⟨k, BelowL.head _ _ _ hk, hi⟩

theorem AddL.cons_tail {t : STree} {ts : List STree} {a b : List DNode} (h : AddL ts a b) : AddL (t :: ts) a b := by
  intro x hx
  rcases h x hx with h | ⟨k, hk, hi⟩
  · exact Or.inl h
  · exact Or.inr ⟨k, BelowL.tail _ _ _ hk, hi⟩

theorem AddT.of_kids {s : Nat} {i : SNode} {ks : List STree} {a b : List DNode} (h : AddL ks a b) : AddT (.mk s i ks) a b := by
  intro x hx
  rcases h x hx with h | ⟨k, hk, hi⟩
  · exact Or.inl h
  · exact Or.inr ⟨k, Below.kid _ _ _ _ hk, hi⟩

theorem implLeafList_nodes (S : Schema) (cx : Cx) (k : STree) (hk : k.info.kind = .leaflist) : ∀ (ds : List Bytes)
    (acc : List DNode × Out) (x : DNode), x ∈ (implLeafList S cx k.sid ds acc).1 → x ∈ acc.1 ∨ ImplNodeOf k x := by
  intro ds
  induction ds with
  | nil => intro acc x hx; exact Or.inl (by simpa [implLeafList] using hx)
  | cons d ds ih =>
    intro acc x hx
    unfold implLeafList at hx
    rcases ih _ x hx with h | h
    · simp only [addImplicit_fst, mem_insertNode] at h
      rcases h with h | h
      · subst h; exact Or.inr ⟨rfl, rfl, rfl, Or.inr ⟨rfl, Or.inr hk⟩⟩
      · exact Or.inl h
    · exact Or.inr h

theorem implNode_nodes (S : Schema) (o : VOpts) (cx : Cx) (k : STree) (sibs : List DNode) (x : DNode)
    (hx : x ∈ (implNode S o cx k sibs).1) : x ∈ sibs ∨ ImplNodeOf k x := by
  unfold implNode at hx
  dsimp only at hx
  split at hx
  · exact Or.inl hx
  · cases hkind : k.info.kind with
    | container =>
      simp only [hkind] at hx
      split at hx
      · exact Or.inl hx
      · rename_i hp
        simp only [addImplicit_fst, mem_insertNode] at hx
        rcases hx with h | h
        · subst h
          exact Or.inr ⟨rfl, rfl, rfl, Or.inl ⟨rfl, by simp [STree.isNpCont, hkind, hp]⟩⟩
        · exact Or.inl h
    | leaf =>
      simp only [hkind] at hx
      split at hx
      · simp only [addImplicit_fst, mem_insertNode] at hx
        rcases hx with h | h
        · subst h; exact Or.inr ⟨rfl, rfl, rfl, Or.inr ⟨rfl, Or.inl hkind⟩⟩
        · exact Or.inl h
      · exact Or.inl hx
    | leaflist =>
      simp only [hkind] at hx
      exact implLeafList_nodes S cx k hkind _ _ x hx
    | list => simp only [hkind] at hx; exact Or.inl hx
    | choice => simp only [hkind] at hx; exact Or.inl hx
    | case => simp only [hkind] at hx; exact Or.inl hx

theorem implNodes_add (S : Schema) (o : VOpts) (cx : Cx) : ∀ (ks : List STree) (sibs : List DNode),
    AddL ks sibs (implNodes S o cx ks sibs).1 := by
  intro ks
  induction ks with
  | nil => intro sibs; unfold implNodes; exact AddL.refl _ _
  | cons k ks ih =>
    intro sibs
    unfold implNodes
    refine AddL.trans ?_ (AddL.cons_tail (ih _))
    intro x hx
    rcases implNode_nodes S o cx k sibs x hx with h | h
    · exact Or.inl h
    · exact Or.inr ⟨k, BelowL.of_mem List.mem_cons_self, h⟩

theorem implChoices_add (X : SchemaX) (o : VOpts) (cx : Cx) (ks : List STree) (sibs : List DNode) :
    AddL ks sibs (implChoices X o cx ks sibs).1 := by
  apply implChoices.induct X o cx
    (motive_1 := fun ks sibs => AddL ks sibs (implChoices X o cx ks sibs).1)
    (motive_2 := fun t sibs => AddT t sibs (implChoice X o cx t sibs).1)
    (motive_3 := fun sid ks sibs => AddL ks sibs (implCaseHolding X o cx sid ks sibs).1)
    (motive_4 := fun t sibs => AddT t sibs (implCase X o cx t sibs).1)
    (motive_5 := fun target ks sibs => AddL ks sibs (implInto X o cx target ks sibs).1)
    (motive_6 := fun target t sibs => AddT t sibs (implIntoCase X o cx target t sibs).1)
    (motive_7 := fun target ks sibs => AddL ks sibs (implIntoKids X o cx target ks sibs).1)
    (motive_8 := fun target t sibs => AddT t sibs (implIntoChoice X o cx target t sibs).1)
    (motive_9 := fun nm ks sibs => AddL ks sibs (implCaseNamed X o cx nm ks sibs).1)
  -- implChoice
  · intro sid i cases sibs h
    unfold implChoice; simp only [h, if_true]; exact AddT.refl _ _
  · intro sid i cases sibs h hfd nm hnm ih
    unfold implChoice; simp only [h, Bool.false_eq_true, if_false, hfd, hnm]; exact AddT.of_kids ih
  · intro sid i cases sibs h hfd hnm
    unfold implChoice; simp only [h, Bool.false_eq_true, if_false, hfd, hnm]; exact AddT.refl _ _
  · intro sid i cases sibs h node hfd hq target ht ih
    unfold implChoice; simp only [h, Bool.false_eq_true, if_false, hfd, hq, if_true, ht]; exact AddT.of_kids ih
  · intro sid i cases sibs h node hfd hq ht
    unfold implChoice; simp only [h, Bool.false_eq_true, if_false, hfd, hq, if_true, ht]; exact AddT.refl _ _
  · intro sid i cases sibs h node hfd hq ih
    unfold implChoice; simp only [h, Bool.false_eq_true, if_false, hfd, hq]; exact AddT.of_kids ih
  -- implCase
  · intro sid i cases sibs ih
    unfold implCase
    exact AddT.of_kids (AddL.trans ih (implNodes_add _ _ _ _ _))
  -- implIntoCase
  · intro target sid i cases sibs ih
    unfold implIntoCase; exact AddT.of_kids ih
  -- implIntoChoice
  · intro target sid i cases sibs h ih
    unfold implIntoChoice; simp only [h, if_true]; exact AddT.of_kids ih
  · intro target sid i cases sibs h
    unfold implIntoChoice; simp only [h, Bool.false_eq_true, if_false]; exact AddT.refl _ _
  -- implChoices
  · intro sibs; unfold implChoices; exact AddL.refl _ _
  · intro k ks sibs _ ih1 ih2
    unfold implChoices
    exact AddL.trans (AddL.cons_head ih1) (AddL.cons_tail ih2)
  -- implCaseHolding
  · intro sid sibs; unfold implCaseHolding; exact AddL.refl _ _
  · intro sid k ks sibs h ih
    unfold implCaseHolding; simp only [h, if_true]; exact AddL.cons_head ih
  · intro sid k ks sibs h ih
    unfold implCaseHolding; simp only [h, Bool.false_eq_true, if_false]; exact AddL.cons_tail ih
  -- implInto
  · intro target sibs; unfold implInto; exact AddL.refl _ _
  · intro target k ks sibs r1 ih1 ih2 ih3
    unfold implInto
    refine AddL.trans ?_ (AddL.cons_tail ih3)
    show AddL (k :: ks) sibs (if (k.sid == target) = true then implCase X o cx k sibs else implIntoCase X o cx target k sibs).1
    split
    · exact AddL.cons_head ih1
    · exact AddL.cons_head ih2
  -- implIntoKids
  · intro target sibs; unfold implIntoKids; exact AddL.refl _ _
  · intro target k ks sibs _ ih1 ih2
    unfold implIntoKids
    exact AddL.trans (AddL.cons_head ih1) (AddL.cons_tail ih2)
  -- implCaseNamed
  · intro nm sibs; unfold implCaseNamed; exact AddL.refl _ _
  · intro nm k ks sibs h ih
    unfold implCaseNamed; simp only [h, if_true]; exact AddL.cons_head ih
  · intro nm k ks sibs h ih
    unfold implCaseNamed; simp only [h, Bool.false_eq_true, if_false]; exact AddL.cons_tail ih

/-- **every node `lyd_new_implicit` leaves on a level was there or is the implicit instance of a schema node at or below the level** -/
theorem implL_nodes_below (X : SchemaX) (o : VOpts) (cx : Cx) (ks : List STree) (sibs : List DNode) :
    ∀ x ∈ (implL X o cx ks sibs).1, x ∈ sibs ∨ ∃ k, BelowL k ks ∧ ImplNodeOf k x := by
  unfold implL
  exact AddL.trans (implChoices_add X o cx ks sibs) (implNodes_add _ _ _ _ _)

/-! ## T2: the converse of `want_reach` -/

theorem two_filter_gt {α : Type} {p : α → Bool} {l : List α} {a b : α} (ha : a ∈ l) (hb : b ∈ l) (hne : a ≠ b)
    (hpa : p a = true) (hpb : p b = true) : 1 < (l.filter p).length := by
  have h1 : a ∈ l.filter p := List.mem_filter.2 ⟨ha, hpa⟩
  have h2 : b ∈ l.filter p := List.mem_filter.2 ⟨hb, hpb⟩
  generalize l.filter p = f at h1 h2
  match f, h1, h2 with
  | [], h1, _ => cases h1
  | [x], h1, h2 =>
    rw [List.mem_singleton] at h1 h2
    exact absurd (h1.trans h2.symm) hne
  | _ :: _ :: _, _, _ => simp

theorem dupCaseL_of_mem {H : Nat → Bool} {k : STree} : ∀ {sk : List STree}, k ∈ sk → dupCaseT H k = true → dupCaseL H sk = true
  | [], h, _ => by cases h
  | t :: ts, h, hd => by
    rw [dupCaseL, Bool.or_eq_true]
    rcases List.mem_cons.1 h with rfl | h
    · exact Or.inl hd
    · exact Or.inr (dupCaseL_of_mem h hd)

theorem dupCaseCs_of_mem {H : Nat → Bool} {c : STree} : ∀ {cs : List STree}, c ∈ cs → dupCaseL H c.kids = true → dupCaseCs H cs = true
  | [], h, _ => by cases h
  | t :: ts, h, hd => by
    rw [dupCaseCs, Bool.or_eq_true]
    rcases List.mem_cons.1 h with rfl | h
    · left
      cases c with
      | mk s i ks => rw [dupCaseK]; exact hd
    · exact Or.inr (dupCaseCs_of_mem h hd)

/-- what the specification visits on a level is at or below the level -/
theorem reach_below {H : Nat → Bool} {sk : List STree} {k : STree} (hr : Reach H sk k) : BelowL k sk := by
  induction hr with
  | here hk _ _ => exact BelowL.of_mem hk
  | through hch _ hc _ _ _ ih => exact belowL_of_case hch hc _ ih

/-- **a default-bearing schema node the specification visits gets its implicit instance**, unless two cases of a choice on the way
have data (then only the first of them is completed) -/
theorem reach_want (o : VOpts) (H : Nat → Bool) {sk : List STree} {k : STree} (hk : kindsOkL sk = true)
    (hcfg : ∀ ch k', BelowL ch sk → Below k' ch → ch.info.config = false → k'.info.config = false)
    (hr : Reach H sk k) (hw : wantsImplicit o k = true) : wantL o H sk k.sid = true ∨ dupCaseL H sk = true := by
  induction hr with
  | @here sk k hmem _ _ =>
    left
    unfold wantL wantNodes
    rw [Bool.or_eq_true]
    exact Or.inr (List.any_eq_true.2 ⟨k, hmem, by simp [hw]⟩)
  | @through sk ch c k hch hkind hc hck hdata hr' ih =>
    have hbk : Below k ch := below_trans (below_of_kids (BelowL.of_mem hc)) (below_of_kids (reach_below hr'))
    have hkch := kindsOkL_mem hk hch
    have hkc : kindsOkL c.kids = true := kindsOk_kids_w (kindsOkL_mem (kindsOk_kids_w hkch) hc)
    have hlift := belowL_of_case hch hc
    have ih' := ih hkc (fun ch2 k' hb2 hb' => hcfg ch2 k' (hlift ch2 hb2) hb') hw
    by_cases hst : (o.noState && !ch.info.config) = true
    · exfalso
      simp only [Bool.and_eq_true, Bool.not_eq_eq_eq_not, Bool.not_true] at hst
      have hkcfg := hcfg ch k (BelowL.of_mem hch) hbk hst.2
      have := wants_not_state hw
      rw [hst.1, hkcfg] at this
      cases this
    · cases ch with
      | mk s i cases =>
        simp only [STree.info] at hkind hst
        simp only [STree.kids] at hc
        -- the selected case is the first case with data
        have hfind : ∃ c', cases.find? (fun c => c.dataSids.any H) = some c' := by
          cases hf : cases.find? (fun c => c.dataSids.any H) with
          | some c' => exact ⟨c', rfl⟩
          | none =>
            rw [List.find?_eq_none] at hf
            exact absurd hdata (hf c hc)
        obtain ⟨c', hf⟩ := hfind
        have hsel : selCase i cases H = some c' := by unfold selCase; rw [hf]
        have hc'm : c' ∈ cases := List.mem_of_find?_eq_some hf
        have hc'd : c'.dataSids.any H = true := List.find?_some (p := fun c : STree => c.dataSids.any H) hf
        by_cases heq : c' = c
        · subst heq
          rcases ih' with h | h
          · left
            unfold wantL
            rw [Bool.or_eq_true]
            left
            refine (wantChoices_any o H k.sid sk).2 ⟨_, hch, ?_⟩
            rw [wantChoice_sel, if_neg (by rw [hkind]; simpa using hst), hsel]
            dsimp only
            rw [wantCase_eq_wantL]
            exact h
          · right
            refine dupCaseL_of_mem hch ?_
            rw [dupCaseT, hkind]
            simp only [beq_self_eq_true, Bool.true_and, Bool.or_eq_true]
            exact Or.inr (dupCaseCs_of_mem hc h)
        · right
          refine dupCaseL_of_mem hch ?_
          rw [dupCaseT, hkind]
          simp only [beq_self_eq_true, Bool.true_and, Bool.or_eq_true, decide_eq_true_eq]
          exact Or.inl (two_filter_gt hc'm hc heq hc'd hdata)

/-! ## T3: `allStateL` -/

mutual
theorem allState_iff_below : ∀ (t : STree), t.allState = true ↔ ∀ k', Below k' t → k'.info.config = false
  | .mk s i ks => by
    rw [STree.allState, Bool.and_eq_true, allStateL_iff_below ks]
    constructor
    · rintro ⟨h1, h2⟩ k' hb
      cases hb with
      | self => simpa [STree.info] using h1
      | kid _ _ _ hb => exact h2 k' hb
    · intro h
      refine ⟨?_, fun k' hb => h k' (Below.kid _ _ _ _ hb)⟩
      have := h _ (Below.self _)
      simpa [STree.info] using this
theorem allStateL_iff_below : ∀ (ks : List STree), allStateL ks = true ↔ ∀ k', BelowL k' ks → k'.info.config = false
  | [] => by
    rw [allStateL]
    simp only [true_iff]
    intro k' hb
    cases hb
  | t :: ts => by
    rw [allStateL, Bool.and_eq_true, allState_iff_below t, allStateL_iff_below ts]
    constructor
    · rintro ⟨h1, h2⟩ k' hb
      cases hb with
      | head _ _ hb => exact h1 k' hb
      | tail _ _ hb => exact h2 k' hb
    · intro h
      exact ⟨fun k' hb => h k' (BelowL.head _ _ _ hb), fun k' hb => h k' (BelowL.tail _ _ _ hb)⟩
end

end LyModel.Valid
