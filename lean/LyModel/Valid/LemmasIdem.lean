import LyModel.Valid.LemmasLoop
import LyModel.Valid.LemmasImplicit
import LyModel.Valid.Model
/-! Lemmas for `validate_idempotent` (C07), schemas without choice / case statements: what each phase of `lyd_validate` establishes
on a sibling level and why a second run finds nothing to do. -/
namespace LyModel.Valid
open LyModel LyModel.Tree

/-! ## schemas without choices -/

/-- no choice among the schema children of a level -/
def noChoiceTop (ks : List STree) : Bool := ks.all fun k => !k.isChoice

theorem choiceRL_noChoice (X : SchemaX) (cx : Cx) : ∀ (ks : List STree) (sibs : List DNode), noChoiceTop ks = true →
    choiceRL X cx ks sibs = (sibs, {}) := by
  intro ks
  induction ks with
  | nil => intro sibs _; simp [choiceRL]
  | cons k ks ih =>
    intro sibs h
    simp only [noChoiceTop, List.all_cons, Bool.and_eq_true, Bool.not_eq_eq_eq_not, Bool.not_true] at h
    unfold choiceRL
    have hk : choiceRNode X cx k sibs = (sibs, {}) := by
      cases k with
      | mk s i kk =>
        unfold choiceRNode
        have : (i.kind == SKind.choice) = false := h.1
        simp [this]
    rw [hk]
    simp only []
    rw [ih sibs (by simpa [noChoiceTop] using h.2)]
    simp

theorem implChoices_noChoice (X : SchemaX) (o : VOpts) (cx : Cx) : ∀ (ks : List STree) (sibs : List DNode), noChoiceTop ks = true →
    implChoices X o cx ks sibs = (sibs, {}) := by
  intro ks
  induction ks with
  | nil => intro sibs _; simp [implChoices]
  | cons k ks ih =>
    intro sibs h
    simp only [noChoiceTop, List.all_cons, Bool.and_eq_true, Bool.not_eq_eq_eq_not, Bool.not_true] at h
    unfold implChoices
    have hk : implChoice X o cx k sibs = (sibs, {}) := by
      cases k with
      | mk s i kk =>
        unfold implChoice
        have : (i.kind == SKind.choice) = false := h.1
        have hb : (i.kind != SKind.choice) = true := by simp [bne, this]
        simp [hb]
    rw [hk]
    simp only []
    rw [ih sibs (by simpa [noChoiceTop] using h.2)]
    simp

theorem implL_noChoice (X : SchemaX) (o : VOpts) (cx : Cx) (ks : List STree) (sibs : List DNode) (h : noChoiceTop ks = true) :
    implL X o cx ks sibs = implNodes X.base o cx ks sibs := by
  unfold implL
  rw [implChoices_noChoice X o cx ks sibs h]
  simp

/-! ## `implNodes`: what it establishes, and when it has nothing to do -/

/-- does the schema node get an implicit instance when it has none? -/
def wantsImplicit (o : VOpts) (k : STree) : Bool :=
  !(k.info.kind == .choice) && !(o.noState && !k.info.config) &&
    ((k.info.kind == .container && !k.info.presence) || (k.info.kind == .leaf && !k.info.dflts.isEmpty) ||
     (k.info.kind == .leaflist && !k.info.dflts.isEmpty))

/-- every schema node of the level that gets implicit instances has an instance -/
def implDone (o : VOpts) (ks : List STree) (sibs : List DNode) : Bool :=
  ks.all fun k => !wantsImplicit o k || hasInst sibs k.sid

theorem implNode_of_done (S : Schema) (o : VOpts) (cx : Cx) (k : STree) (sibs : List DNode)
    (h : (!wantsImplicit o k || hasInst sibs k.sid) = true) : implNode S o cx k sibs = (sibs, {}) := by
  unfold implNode
  dsimp only
  split
  · rfl
  · rename_i hc
    simp only [Bool.or_eq_true, not_or, Bool.not_eq_true] at hc
    have hw : wantsImplicit o k = false := by
      simp only [Bool.or_eq_true, Bool.not_eq_eq_eq_not, Bool.not_true] at h
      rcases h with h | h
      · exact h
      · rw [hc.2] at h; cases h
    unfold wantsImplicit at hw
    simp only [hc.1.1, Bool.not_false, Bool.true_and, hc.1.2] at hw
    cases hkind : k.info.kind with
    | container =>
      simp only [hkind, beq_self_eq_true, Bool.true_and, beq_iff_eq, reduceCtorEq, Bool.false_and, Bool.or_false] at hw
      have hp : k.info.presence = true := by simpa using hw
      simp [hp]
    | leaf =>
      simp only [hkind, beq_self_eq_true, Bool.true_and, beq_iff_eq, reduceCtorEq, Bool.false_and, Bool.or_false, Bool.false_or] at hw
      have hd : k.info.dflts = [] := by simpa using hw
      simp [hd]
    | leaflist =>
      simp only [hkind, beq_self_eq_true, Bool.true_and, beq_iff_eq, reduceCtorEq, Bool.false_and, Bool.or_false, Bool.false_or] at hw
      have hd : k.info.dflts = [] := by simpa using hw
      simp [hd, implLeafList]
    | list => rfl
    | choice => rfl
    | case => rfl

theorem implNodes_of_done (S : Schema) (o : VOpts) (cx : Cx) : ∀ (ks : List STree) (sibs : List DNode), implDone o ks sibs = true →
    implNodes S o cx ks sibs = (sibs, {}) := by
  intro ks
  induction ks with
  | nil => intro sibs _; simp [implNodes]
  | cons k ks ih =>
    intro sibs h
    simp only [implDone, List.all_cons, Bool.and_eq_true] at h
    unfold implNodes
    rw [implNode_of_done S o cx k sibs h.1]
    dsimp only
    rw [ih sibs (by simpa [implDone] using h.2)]
    simp

theorem addImplicit_fst (S : Schema) (cx : Cx) (sibs : List DNode) (n : DNode) : (addImplicit S cx sibs n).1 = insertNode S sibs n := rfl

theorem implLeafList_hasInst (S : Schema) (cx : Cx) (ksid : Nat) : ∀ (ds : List Bytes) (acc : List DNode × Out) (sid : Nat),
    hasInst (implLeafList S cx ksid ds acc).1 sid = ((!ds.isEmpty && ksid == sid) || hasInst acc.1 sid) := by
  intro ds
  induction ds with
  | nil => intro acc sid; simp [implLeafList]
  | cons d ds ih =>
    intro acc sid
    unfold implLeafList
    dsimp only
    rw [ih]
    simp only [addImplicit_fst, hasInst_insertNode, DNode.sid, List.isEmpty_cons, Bool.not_false, Bool.true_and]
    cases ds <;> simp <;> cases (ksid == sid) <;> simp

/-- the instances after one schema node: the old ones, and the node's own if it wanted an implicit instance -/
theorem implNode_hasInst (S : Schema) (o : VOpts) (cx : Cx) (k : STree) (sibs : List DNode) (sid : Nat) :
    hasInst (implNode S o cx k sibs).1 sid = (hasInst sibs sid || (wantsImplicit o k && k.sid == sid)) := by
  unfold implNode
  dsimp only
  split
  · rename_i hc
    simp only [Bool.or_eq_true] at hc
    by_cases he : (k.sid == sid) = true
    · have hks : k.sid = sid := by simpa using he
      rcases hc with (hc | hc) | hc
      · simp [wantsImplicit, hc]
      · simp only [Bool.and_eq_true, Bool.not_eq_eq_eq_not, Bool.not_true] at hc
        simp [wantsImplicit, hc.1, hc.2]
      · subst hks; simp [hc]
    · simp [he]
  · rename_i hc
    simp only [Bool.or_eq_true, not_or, Bool.not_eq_true] at hc
    unfold wantsImplicit
    simp only [hc.1.1, Bool.not_false, Bool.true_and, hc.1.2]
    cases hkind : k.info.kind with
    | container =>
      simp only [beq_self_eq_true, Bool.true_and, beq_iff_eq, reduceCtorEq, Bool.false_and, Bool.or_false]
      by_cases hp : k.info.presence = true
      · simp [hp]
      · simp only [hp, Bool.false_eq_true, if_false, addImplicit_fst, hasInst_insertNode, DNode.sid]
        have : k.info.presence = false := by simpa using hp
        simp [this, Bool.or_comm, skind_beq_eq_decide]
    | leaf =>
      simp only [beq_self_eq_true, Bool.true_and, beq_iff_eq, reduceCtorEq, Bool.false_and, Bool.or_false, Bool.false_or]
      cases hd : k.info.dflts with
      | nil => simp
      | cons d ds => simp [addImplicit_fst, hasInst_insertNode, DNode.sid, Bool.or_comm, skind_beq_eq_decide]
    | leaflist =>
      simp only [beq_self_eq_true, Bool.true_and, beq_iff_eq, reduceCtorEq, Bool.false_and, Bool.or_false, Bool.false_or]
      rw [implLeafList_hasInst]
      simp [Bool.or_comm, skind_beq_eq_decide]
    | list => simp
    | choice => simp
    | case => simp

/-- the instances after `implNodes`: the old ones and one schema node more for every node that wanted an implicit instance -/
theorem implNodes_hasInst (S : Schema) (o : VOpts) (cx : Cx) : ∀ (ks : List STree) (sibs : List DNode) (sid : Nat),
    hasInst (implNodes S o cx ks sibs).1 sid =
      (hasInst sibs sid || ks.any (fun k => wantsImplicit o k && k.sid == sid)) := by
  intro ks
  induction ks with
  | nil => intro sibs sid; simp [implNodes]
  | cons k ks ih =>
    intro sibs sid
    unfold implNodes
    dsimp only
    rw [ih, implNode_hasInst]
    simp [Bool.or_assoc]

theorem implNodes_done (S : Schema) (o : VOpts) (cx : Cx) (ks : List STree) (sibs : List DNode) :
    implDone o ks (implNodes S o cx ks sibs).1 = true := by
  unfold implDone
  rw [List.all_eq_true]
  intro k hk
  rw [implNodes_hasInst]
  by_cases hw : wantsImplicit o k = true
  · have : ks.any (fun k' => wantsImplicit o k' && k'.sid == k.sid) = true :=
      List.any_eq_true.2 ⟨k, hk, by simp [hw]⟩
    simp [this]
  · simp [hw]


/-! ## the loop of `lyd_validate_new` -/

/-- no `case` statement in the schema table -/
def NoCase (S : Schema) : Prop := ∀ n ∈ S.nodes, n.kind ≠ .case

theorem caseOf_noCase (X : SchemaX) (h : NoCase X.base) (sid : Nat) : caseOf X sid = none := by
  unfold caseOf
  cases hp : sparent X.base sid with
  | none => rfl
  | some c =>
    have : X.base.isKind c .case = false := by
      unfold Schema.isKind Schema.kind? Schema.get?
      cases hg : X.base.nodes[c]? with
      | none => simp
      | some n =>
        have hn : n ∈ X.base.nodes := List.mem_of_getElem? hg
        have := h n hn
        simp [this]
    simp [this]

theorem caseDfltVictim_noCase (X : SchemaX) (h : NoCase X.base) (all : List DNode) (node : DNode) :
    caseDfltVictim X all node = false := by
  unfold caseDfltVictim caseChain
  have : caseChain.go X (X.base.nodes.length + 1) node.sid = [] := by
    unfold caseChain.go
    simp [caseOf_noCase X h]
  simp [this]

/-- on siblings none of which is new the loop changes nothing and reports nothing (schemas without cases) -/
theorem newLoop_id (X : SchemaX) (o : VOpts) (cx : Cx) (h : NoCase X.base) : ∀ (fuel : Nat) (rest done : List DNode) (last : Option Nat),
    (∀ n ∈ rest, n.flags.new = false) → newLoop X o cx fuel done rest last = (done ++ rest, {}) := by
  intro fuel
  induction fuel with
  | zero => intro rest done last _; simp [newLoop]
  | succ fuel ih =>
    intro rest done last hn
    cases rest with
    | nil => simp [newLoop]
    | cons node tl =>
      have hnode : node.flags.new = false := hn node (List.mem_cons_self ..)
      have htl : ∀ n ∈ tl, n.flags.new = false := fun n hx => hn n (List.mem_cons_of_mem _ hx)
      unfold newLoop
      split
      · rw [ih tl _ _ htl]; simp
      · have hr : (if (hasDefault X.base node.sid && last != some node.sid && node.flags.new) = true then autodelStep X cx done node tl
            else (done, false, tl, [])) = (done, false, tl, []) := by
          simp [hnode]
        simp only [hr]
        have hd : dupErr X o cx done tl node = {} := by simp [dupErr, hnode]
        simp only [Out.ofEvs_nil, Bool.false_eq_true, if_false, hnode, hd, caseDfltVictim_noCase X h, Bool.and_false,
          Out.empty_append]
        rw [ih tl _ _ htl]
        simp

/-! what the auto-deletion step leaves are nodes that were there -/

theorem removeFirst_fst_sub (p : DNode → Bool) : ∀ (l : List DNode) (x : DNode), x ∈ (removeFirst p l).1 → x ∈ l := by
  intro l
  induction l with
  | nil => intro x hx; simp [removeFirst] at hx
  | cons y ys ih =>
    intro x hx
    unfold removeFirst at hx
    split at hx
    · exact List.mem_cons_of_mem _ hx
    · simp only [List.mem_cons] at hx ⊢
      rcases hx with hx | hx
      · exact Or.inl hx
      · exact Or.inr (ih x hx)

theorem removeFirst_fst_length (p : DNode → Bool) : ∀ (l : List DNode), (removeFirst p l).1.length ≤ l.length := by
  intro l
  induction l with
  | nil => simp [removeFirst]
  | cons y ys ih =>
    unfold removeFirst
    split
    · simp
    · simp only [List.length_cons]; omega

theorem autodelStep_sub (X : SchemaX) (cx : Cx) (done tl : List DNode) (node : DNode) :
    (∀ x ∈ (autodelStep X cx done node tl).1, x ∈ done) ∧ (∀ x ∈ (autodelStep X cx done node tl).2.2.1, x ∈ tl) ∧
      (autodelStep X cx done node tl).2.2.1.length ≤ tl.length := by
  unfold autodelStep
  dsimp only
  split
  · -- every default instance goes
    simp only [delSeq_fst, List.nil_append, List.drop_left']
    exact ⟨fun x hx => (List.mem_filter.1 hx).1, fun x hx => (List.mem_filter.1 hx).1, List.length_filter_le _ _⟩
  · split
    · exact ⟨fun _ h => h, fun _ h => h, Nat.le_refl _⟩
    · split
      · rename_i d' v heq
        have : d' = (removeFirst (fun x => x.sid == node.sid && x.flags.dflt && !x.flags.new) done).1 := by rw [heq]
        refine ⟨fun x hx => ?_, fun _ h => h, Nat.le_refl _⟩
        rw [this] at hx
        exact removeFirst_fst_sub _ _ _ hx
      · split
        · rename_i t' v heq
          have : t' = (removeFirst (fun x => x.sid == node.sid && x.flags.dflt && !x.flags.new) tl).1 := by rw [heq]
          refine ⟨fun _ h => h, fun x hx => ?_, ?_⟩
          · rw [this] at hx
            exact removeFirst_fst_sub _ _ _ hx
          · rw [this]; exact removeFirst_fst_length _ _
        · exact ⟨fun _ h => h, fun _ h => h, Nat.le_refl _⟩


/-- every node the loop hands back was there before, at most without its `LYD_NEW` -/
theorem newLoop_out (X : SchemaX) (o : VOpts) (cx : Cx) : ∀ (fuel : Nat) (rest done : List DNode) (last : Option Nat),
    rest.length < fuel → ∀ x ∈ (newLoop X o cx fuel done rest last).1, x ∈ done ∨ ∃ y ∈ rest, x = normNew y := by
  intro fuel
  induction fuel with
  | zero => intro rest done last h; omega
  | succ fuel ih =>
    intro rest done last hlen x hx
    cases rest with
    | nil => simp [newLoop] at hx; exact Or.inl hx
    | cons node tl =>
      have hlen' : tl.length < fuel := by simp at hlen; omega
      unfold newLoop at hx
      split at hx
      · rename_i hc
        have hnn : node.flags.new = false := by
          simp only [Bool.not_eq_eq_eq_not, Bool.not_true, Bool.or_eq_false_iff] at hc; exact hc.1
        rcases ih tl _ _ hlen' x hx with h | ⟨y, hy, h⟩
        · simp only [List.mem_append, List.mem_singleton] at h
          rcases h with h | h
          · exact Or.inl h
          · exact Or.inr ⟨node, List.mem_cons_self .., by subst h; simp [normNew, hnn]⟩
        · exact Or.inr ⟨y, List.mem_cons_of_mem _ hy, h⟩
      · -- the sibling lists the step leaves are parts of the old ones
        have hsub : ∀ (r : List DNode × Bool × List DNode × List Ev),
            r = (if (hasDefault X.base node.sid && last != some node.sid && node.flags.new) = true then autodelStep X cx done node tl
              else (done, false, tl, [])) →
            (∀ z ∈ r.1, z ∈ done) ∧ (∀ z ∈ r.2.2.1, z ∈ tl) ∧ r.2.2.1.length ≤ tl.length := by
          intro r hr
          subst hr
          split
          · exact autodelStep_sub X cx done tl node
          · exact ⟨fun _ h => h, fun _ h => h, Nat.le_refl _⟩
        dsimp only at hx
        generalize hr : (if (hasDefault X.base node.sid && last != some node.sid && node.flags.new) = true then autodelStep X cx done node tl
              else (done, false, tl, [])) = r at hx
        obtain ⟨h1, h2, h3⟩ := hsub r hr.symm
        have hlen'' : r.2.2.1.length < fuel := by omega
        have hnode1 : (if node.flags.new = true then clearNew node else node) = normNew node := rfl
        simp only [hnode1] at hx
        split at hx
        · rcases ih _ _ _ hlen'' x hx with h | ⟨y, hy, h⟩
          · exact Or.inl (h1 x h)
          · exact Or.inr ⟨y, List.mem_cons_of_mem _ (h2 y hy), h⟩
        · split at hx
          · rcases ih _ _ _ hlen'' x hx with h | ⟨y, hy, h⟩
            · exact Or.inl (h1 x h)
            · exact Or.inr ⟨y, List.mem_cons_of_mem _ (h2 y hy), h⟩
          · rcases ih _ _ _ hlen'' x hx with h | ⟨y, hy, h⟩
            · simp only [List.mem_append, List.mem_singleton] at h
              rcases h with h | h
              · exact Or.inl (h1 x h)
              · exact Or.inr ⟨node, List.mem_cons_self .., h⟩
            · exact Or.inr ⟨y, List.mem_cons_of_mem _ (h2 y hy), h⟩

theorem normNew_new (n : DNode) : (normNew n).flags.new = false := by
  unfold normNew
  split
  · cases n <;> rfl
  · rename_i h; simpa using h

theorem normNew_kids (n : DNode) : (normNew n).kids = n.kids := by
  unfold normNew clearNew
  split
  · cases n <;> rfl
  · rfl

theorem normNew_isTerm (n : DNode) : (normNew n).isTerm = n.isTerm := by
  unfold normNew clearNew
  split
  · cases n <;> rfl
  · rfl

/-- `choiceRL` leaves what it is given when there is no choice (restated for membership) -/
theorem validateNew_out (X : SchemaX) (o : VOpts) (cx : Cx) (sibs : List DNode) (hk : noChoiceTop (X.kidsOf cx.parent) = true) :
    ∀ x ∈ (validateNew X o cx sibs).1, ∃ y ∈ sibs, x = normNew y := by
  intro x hx
  unfold validateNew at hx
  rw [choiceRL_noChoice X cx _ sibs hk] at hx
  dsimp only at hx
  rcases newLoop_out X o cx.keysOld (sibs.length + 1) sibs [] none (by omega) x hx with h | h
  · cases h
  · exact h


/-! ## exactness of the auto-deletion step and of `implNodes` (C07: `autodel_exact`, `implicit_exact`) -/

theorem delEvents_spec (X : SchemaX) (cx : Cx) (np : Bool) (before : List DNode) (v : DNode) :
    ∀ e ∈ delEvents X cx np before v, e.op = .delete ∧ (e.node = v ∨ (isNpContD X.base v = true ∧ e.node ∈ v.kids)) := by
  intro e he
  unfold delEvents at he
  dsimp only at he
  split at he
  · rename_i hc
    simp only [Bool.and_eq_true] at hc
    obtain ⟨⟨k, i⟩, _, hki⟩ := List.mem_map.1 he
    subst hki
    refine ⟨rfl, Or.inr ⟨hc.2, ?_⟩⟩
    rename_i hmem
    exact (List.mem_zipIdx_iff_getElem?.1 hmem |> fun h => List.mem_of_getElem? h)
  · simp only [List.mem_singleton] at he
    subst he
    exact ⟨rfl, Or.inl rfl⟩

/-- every event of a sequential deletion is the deletion of a victim, a non-presence container being recorded through its children -/
theorem delSeq_evs (X : SchemaX) (cx : Cx) (np : Bool) (victim : DNode → Bool) : ∀ (rest kept : List DNode),
    ∀ e ∈ (delSeq X cx np victim kept rest).2, e.op = .delete ∧
      ∃ v ∈ rest, victim v = true ∧ (e.node = v ∨ (isNpContD X.base v = true ∧ e.node ∈ v.kids)) := by
  intro rest
  induction rest with
  | nil => intro kept e he; simp [delSeq] at he
  | cons n ns ih =>
    intro kept e he
    unfold delSeq at he
    split at he
    · rename_i hv
      simp only [List.mem_append] at he
      rcases he with he | he
      · obtain ⟨h1, h2⟩ := delEvents_spec X cx np kept n e he
        exact ⟨h1, n, List.mem_cons_self .., hv, h2⟩
      · obtain ⟨h1, v, hv', h2⟩ := ih kept e he
        exact ⟨h1, v, List.mem_cons_of_mem _ hv', h2⟩
    · obtain ⟨h1, v, hv', h2⟩ := ih _ e he
      exact ⟨h1, v, List.mem_cons_of_mem _ hv', h2⟩

/-- **auto-deletion of superseded defaults**: when the schema node of the new node has an explicit instance, exactly its
default-flagged instances go — from the siblings in front, from the ones behind, and the node itself if it is one — and every
recorded change is the deletion of one of them (a non-presence container through its children); nothing else is touched -/
theorem autodelStep_found (X : SchemaX) (cx : Cx) (done tl : List DNode) (node : DNode)
    (hf : ((done ++ node :: tl).any fun x => x.sid == node.sid && !x.flags.dflt) = true) :
    let r := autodelStep X cx done node tl
    let victim := fun (x : DNode) => x.sid == node.sid && x.flags.dflt
    r.1 = done.filter (fun x => !victim x) ∧ r.2.1 = victim node ∧ r.2.2.1 = tl.filter (fun x => !victim x) ∧
    ∀ e ∈ r.2.2.2, e.op = .delete ∧ ∃ v ∈ done ++ node :: tl, victim v = true ∧
      (e.node = v ∨ (isNpContD X.base v = true ∧ e.node ∈ v.kids)) := by
  unfold autodelStep
  dsimp only
  rw [if_pos hf]
  simp only [delSeq_fst, List.nil_append, List.drop_left']
  refine ⟨trivial, trivial, trivial, ?_⟩
  intro e he
  simp only [List.mem_append] at he
  rcases he with (he | he) | he
  · obtain ⟨h1, v, hv, h2⟩ := delSeq_evs X cx false _ done [] e he
    exact ⟨h1, v, by simp [hv], h2⟩
  · obtain ⟨h1, v, hv, h2⟩ := delSeq_evs X cx false _ [node] _ e he
    simp only [List.mem_singleton] at hv
    exact ⟨h1, v, by simp [hv], h2⟩
  · obtain ⟨h1, v, hv, h2⟩ := delSeq_evs X cx false _ tl _ e he
    exact ⟨h1, v, by simp [hv], h2⟩

/-- without an explicit instance nothing of a leaf-list is deleted -/
theorem autodelStep_leaflist_keep (X : SchemaX) (cx : Cx) (done tl : List DNode) (node : DNode)
    (hf : ((done ++ node :: tl).any fun x => x.sid == node.sid && !x.flags.dflt) = false)
    (hll : X.base.isKind node.sid .leaflist = true) : autodelStep X cx done node tl = (done, false, tl, []) := by
  unfold autodelStep
  dsimp only
  rw [if_neg (by simp [hf]), if_pos hll]

theorem implNode_mono (S : Schema) (o : VOpts) (cx : Cx) (k : STree) (sibs : List DNode) : ∀ x ∈ sibs, x ∈ (implNode S o cx k sibs).1 := by
  intro x hx
  unfold implNode
  dsimp only
  split
  · exact hx
  · cases hkind : k.info.kind with
    | container =>
      dsimp only
      split
      · exact hx
      · simp only [addImplicit_fst, mem_insertNode]; exact Or.inr hx
    | leaf =>
      dsimp only
      split
      · simp only [addImplicit_fst, mem_insertNode]; exact Or.inr hx
      · exact hx
    | leaflist =>
      dsimp only
      have : ∀ (ds : List Bytes) (acc : List DNode × Out), x ∈ acc.1 → x ∈ (implLeafList S cx k.sid ds acc).1 := by
        intro ds
        induction ds with
        | nil => intro acc h; simpa [implLeafList] using h
        | cons d ds ih =>
          intro acc h
          unfold implLeafList
          apply ih
          simp only [addImplicit_fst, mem_insertNode]; exact Or.inr h
      exact this _ _ hx
    | list => exact hx
    | choice => exact hx
    | case => exact hx

theorem implNodes_mono (S : Schema) (o : VOpts) (cx : Cx) : ∀ (ks : List STree) (sibs : List DNode), ∀ x ∈ sibs, x ∈ (implNodes S o cx ks sibs).1 := by
  intro ks
  induction ks with
  | nil => intro sibs x hx; simpa [implNodes] using hx
  | cons k ks ih =>
    intro sibs x hx
    unfold implNodes
    dsimp only
    exact ih _ x (implNode_mono S o cx k sibs x hx)

end LyModel.Valid
