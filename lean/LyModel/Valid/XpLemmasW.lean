import LyModel.Valid.XpLemmas
import LyModel.Valid.XpWhenSimple
import LyModel.Valid.LemmasMinMax
import LyModel.Valid.LemmasUnique
import LyModel.Valid.LemmasPerm
/-!
# `validateX` against the specification when the `when` phase keeps the shape

`xw_finalR_kinds`: the kinds of the errors of `lyd_validate_final_r` depend on the shape of the tree only; `validateX_ok_iff_w`: MAIN of XpLemmas.lean with the `when` phase logging no change event.
-/
namespace LyModel.Valid
open LyModel LyModel.Tree

/-- the kinds of the logged errors -/
def xw_kinds (a : Out) : List EKind := a.errs.map (·.kind)

theorem xw_kinds_append (a b : Out) : xw_kinds (a ++ b) = xw_kinds a ++ xw_kinds b := by
  unfold xw_kinds; rw [Out.append_errs, List.map_append]
theorem xw_kinds_empty : xw_kinds {} = [] := rfl
theorem xw_kinds_err (k : EKind) (p : Bytes) : xw_kinds (Out.err k p) = [k] := rfl
theorem xw_kinds_nil (a : Out) : xw_kinds a = [] ↔ a.errs = [] := by unfold xw_kinds; simp

/-! ## shape-only observations of a sibling list -/

theorem xw_hasInst_shape (l : List DNode) (s : Nat) : hasInst (shapeL l) s = hasInst l s := by
  unfold hasInst
  induction l with
  | nil => rw [shapeL]
  | cons x xs ih => rw [shapeL, List.any_cons, List.any_cons, shapeN_sid, ih]

theorem xw_anyIn_shape (l : List DNode) (ds : List Nat) : (shapeL l).any (inSids ds) = l.any (inSids ds) := by
  induction l with
  | nil => rw [shapeL]
  | cons x xs ih => rw [shapeL, List.any_cons, List.any_cons, ih]; unfold inSids; rw [shapeN_sid]

theorem xw_instsIdx_len (s : Nat) : ∀ (l : List DNode) (n : Nat),
    (((shapeL l).zipIdx n).filter (·.1.sid == s)).length = ((l.zipIdx n).filter (·.1.sid == s)).length
  | [], _ => by rw [shapeL]
  | x :: xs, n => by
    rw [shapeL]
    simp only [List.zipIdx_cons, List.filter_cons, shapeN_sid]
    split <;> simp [xw_instsIdx_len s xs (n + 1)]

/-! ## min- and max-elements: the verdict depends on the number of instances -/

theorem xw_loop_len (max : Nat) : ∀ (l l' : List (DNode × Nat)), l.length = l'.length → ∀ (c m : Nat),
    (minmaxLoop max l c m).count = (minmaxLoop max l' c m).count ∧ (minmaxLoop max l c m).min = (minmaxLoop max l' c m).min ∧
    (minmaxLoop max l c m).iter.isSome = (minmaxLoop max l' c m).iter.isSome
  | [], [], _, c, m => ⟨rfl, rfl, rfl⟩
  | [], _ :: _, h, _, _ => by simp at h
  | _ :: _, [], h, _, _ => by simp at h
  | x :: xs, y :: ys, h, c, m => by
    have hl : xs.length = ys.length := by simpa using h
    unfold minmaxLoop
    dsimp only
    split
    · split
      · exact ⟨rfl, rfl, rfl⟩
      · split
        · exact ⟨rfl, rfl, rfl⟩
        · exact xw_loop_len max xs ys hl _ _
    · split
      · exact ⟨rfl, rfl, rfl⟩
      · exact xw_loop_len max xs ys hl _ _

/-- 0 = ok, 1 = too few, 2 = too many -/
def xw_cls : MMVerdict → Nat
  | .ok => 0 | .tooFew => 1 | .tooMany _ => 2

theorem xw_check_cls (min max : Nat) (l l' : List (DNode × Nat)) (h : l.length = l'.length) :
    xw_cls (minmaxCheck min max l) = xw_cls (minmaxCheck min max l') := by
  rw [minmaxCheck_eq, minmaxCheck_eq]
  obtain ⟨h1, h2, h3⟩ := xw_loop_len max l l' h 0 min
  unfold mmVerdictOf
  rw [h1, h2]
  split
  · rfl
  · split
    · cases hi : (minmaxLoop max l 0 min).iter <;> cases hi' : (minmaxLoop max l' 0 min).iter <;> simp_all [xw_cls]
    · rfl

theorem xw_minmaxOut_kinds (S : Schema) (o : VOpts) (cx cx' : Cx) (sibs : List DNode) (k : STree) :
    xw_kinds (minmaxOut S o cx' (shapeL sibs) k) = xw_kinds (minmaxOut S o cx sibs k) := by
  unfold minmaxOut
  dsimp only
  split
  · rfl
  · have hc := xw_check_cls k.info.min (if (k.info.max == 0) = true then uint32Max else k.info.max) (instsIdx (shapeL sibs) k.sid)
      (instsIdx sibs k.sid) (xw_instsIdx_len k.sid sibs 0)
    generalize minmaxCheck k.info.min (if (k.info.max == 0) = true then uint32Max else k.info.max) (instsIdx (shapeL sibs) k.sid) = v at hc
    generalize minmaxCheck k.info.min (if (k.info.max == 0) = true then uint32Max else k.info.max) (instsIdx sibs k.sid) = v' at hc
    cases v <;> cases v' <;> simp only [xw_cls] at hc <;> first | rfl | omega | (cases o.operational <;> rfl) | skip
    all_goals (rename_i a b; obtain ⟨n1, i1⟩ := a; obtain ⟨n2, i2⟩ := b; dsimp only; cases o.operational <;> rfl)

/-! ## `unique`: the verdict depends on the shape of the entries -/

theorem xw_find_shape (s : Nat) : ∀ (l : List DNode), (shapeL l).find? (·.sid == s) = (l.find? (·.sid == s)).map shapeN
  | [] => by rw [shapeL]; rfl
  | x :: xs => by
    rw [shapeL, List.find?_cons, List.find?_cons, shapeN_sid]
    split
    · rfl
    · exact xw_find_shape s xs

theorem xw_uniqFind_shape (chain : List Nat) : ∀ (cur : Option DNode),
    chain.foldl (fun (cur : Option DNode) sid => cur.bind fun n => n.kids.find? (·.sid == sid)) (cur.map shapeN) =
      (chain.foldl (fun (cur : Option DNode) sid => cur.bind fun n => n.kids.find? (·.sid == sid)) cur).map shapeN := by
  induction chain with
  | nil => intro cur; rfl
  | cons s rest ih =>
    intro cur
    rw [List.foldl_cons, List.foldl_cons, ← ih]
    congr 1
    cases cur with
    | none => rfl
    | some n => simp only [Option.map_some, Option.bind_some]; rw [shapeN_kids, xw_find_shape]

theorem xw_hasData_shape (l : List DNode) (ds : List Nat) : hasData (shapeL l) ds = hasData l ds := by
  unfold hasData; exact xw_anyIn_shape l ds

theorem xw_lvu_shape : ∀ (p : List STree) (lvl : List DNode), leafValInUse p (shapeL lvl) = leafValInUse p lvl
  | [], lvl => by rw [lvu_nil, lvu_nil]
  | [k], lvl => by
    rw [lvu_single, lvu_single, xw_find_shape]
    cases lvl.find? (·.sid == k.sid) with
    | none => rfl
    | some d => simp only [Option.map_some]; rw [shapeN_val]
  | k :: k2 :: rest, lvl => by
    rw [lvu_cons2, lvu_cons2, xw_find_shape, xw_hasData_shape, xw_hasData_shape, xw_lvu_shape rest lvl]
    cases k.info.kind with
    | container =>
      dsimp only
      cases lvl.find? (·.sid == k.sid) with
      | none => rfl
      | some c => simp only [Option.map_some]; rw [shapeN_kids, xw_lvu_shape (k2 :: rest) c.kids]
    | choice => rfl
    | leaf => rfl
    | leaflist => rfl
    | list => rfl
    | case => rfl

theorem xw_uniqVal_shape (X : SchemaX) (lst : Nat) (inst : DNode) (leaf : Nat) : uniqVal X lst (shapeN inst) leaf = uniqVal X lst inst leaf := by
  unfold uniqVal
  dsimp only
  have h := xw_uniqFind_shape (uniqChain X.base lst leaf) (some inst)
  unfold uniqFind
  rw [show (some (shapeN inst)) = (some inst).map shapeN from rfl, h]
  cases (uniqChain X.base lst leaf).foldl (fun (cur : Option DNode) sid => cur.bind fun n => n.kids.find? (·.sid == sid)) (some inst) with
  | some d => simp only [Option.map_some]; rw [shapeN_val]
  | none =>
    simp only [Option.map_none]
    split
    · rfl
    · cases X.node? lst with
      | none => rfl
      | some lt =>
        dsimp only
        cases pathTo (X.base.nodes.length + 1) lt.kids leaf with
        | none => rfl
        | some p => simp only [Option.bind_some]; rw [shapeN_kids, xw_lvu_shape]

theorem xw_uniqEqual_shape (X : SchemaX) (lst : Nat) (u : List Nat) (a b : DNode) :
    uniqEqual X lst u (shapeN a) (shapeN b) = uniqEqual X lst u a b := by
  unfold uniqEqual
  simp only [xw_uniqVal_shape]

theorem xw_check_isSome (X : SchemaX) (lst : Nat) (hash : List Bytes → Nat) (uniques : List (List Nat))
    (insts : List (DNode × Nat)) :
    (uniqueCheck X lst hash uniques insts).isSome = existsPair (uniqViolPair X lst uniques) insts := by
  unfold uniqueCheck
  match insts with
  | [] => simp [existsPair]
  | [a] => simp [existsPair]
  | [a, b] =>
    simp only [existsPair, List.any_cons, List.any_nil, Bool.or_false, uniqViolPair]
    split <;> simp_all
  | a :: b :: c :: rest =>
    simp only []
    rw [uniqueHash_isSome]
    simp

theorem xw_existsPair_map {α β : Type} (p : β → β → Bool) (f : α → β) : ∀ l : List α,
    existsPair p (l.map f) = existsPair (fun a b => p (f a) (f b)) l
  | [] => rfl
  | x :: xs => by
    rw [List.map_cons, existsPair, existsPair, xw_existsPair_map p f xs, List.any_map]
    rfl

theorem xw_instsIdx_shape (s : Nat) : ∀ (l : List DNode) (n : Nat),
    ((shapeL l).zipIdx n).filter (·.1.sid == s) = ((l.zipIdx n).filter (·.1.sid == s)).map fun p => (shapeN p.1, p.2)
  | [], _ => by rw [shapeL]; rfl
  | x :: xs, n => by
    rw [shapeL]
    simp only [List.zipIdx_cons, List.filter_cons, shapeN_sid]
    split
    · rw [List.map_cons, xw_instsIdx_shape s xs (n + 1)]
    · exact xw_instsIdx_shape s xs (n + 1)

theorem xw_uniqueOut_kinds (X : SchemaX) (o : VOpts) (cx cx' : Cx) (sibs : List DNode) (k : STree) :
    xw_kinds (uniqueOut X o cx' (shapeL sibs) k) = xw_kinds (uniqueOut X o cx sibs k) := by
  unfold uniqueOut
  dsimp only
  split
  · rfl
  · have h : (uniqueCheck X k.sid (fun _ => 0) (X.uniquesOf k.sid) (instsIdx (shapeL sibs) k.sid)).isSome =
        (uniqueCheck X k.sid (fun _ => 0) (X.uniquesOf k.sid) (instsIdx sibs k.sid)).isSome := by
      rw [xw_check_isSome, xw_check_isSome]
      unfold instsIdx
      rw [xw_instsIdx_shape, xw_existsPair_map]
      congr 1
      funext a b
      unfold uniqViolPair
      simp only [xw_uniqEqual_shape]
    cases h1 : uniqueCheck X k.sid (fun _ => 0) (X.uniquesOf k.sid) (instsIdx (shapeL sibs) k.sid) with
    | none =>
      cases h2 : uniqueCheck X k.sid (fun _ => 0) (X.uniquesOf k.sid) (instsIdx sibs k.sid) with
      | none => rfl
      | some r => rw [h1, h2] at h; cases h
    | some r =>
      cases h2 : uniqueCheck X k.sid (fun _ => 0) (X.uniquesOf k.sid) (instsIdx sibs k.sid) with
      | none => rw [h1, h2] at h; cases h
      | some r' => rfl

/-! ## the levels -/

theorem xw_nodeChecks_kinds (S : Schema) (o : VOpts) (cx cx' : Cx) : ∀ (rest before before' : List DNode),
    xw_kinds (nodeChecks S o cx' before' (shapeL rest)) = xw_kinds (nodeChecks S o cx before rest) := by
  intro rest
  induction rest with
  | nil => intro b b'; rw [shapeL]; unfold nodeChecks; rfl
  | cons n ns ih =>
    intro b b'
    rw [shapeL]
    unfold nodeChecks
    rw [xw_kinds_append, xw_kinds_append, ih, shapeN_sid]
    congr 1
    split <;> rfl

theorem xw_schemaNodes_kinds (X : SchemaX) (o : VOpts) (cx cx' : Cx) (sibs : List DNode) : ∀ (ks : List STree),
    xw_kinds (schemaNodes X o cx' (shapeL sibs) ks) = xw_kinds (schemaNodes X o cx sibs ks) := by
  intro ks
  induction ks with
  | nil => unfold schemaNodes; rfl
  | cons k ks ih =>
    unfold schemaNodes
    dsimp only
    rw [xw_kinds_append, xw_kinds_append, ih]
    congr 1
    split
    · rfl
    · split
      · rw [xw_kinds_append, xw_kinds_append, xw_minmaxOut_kinds X.base o cx cx', xw_uniqueOut_kinds X o cx cx']
      · exact xw_minmaxOut_kinds X.base o cx cx' sibs k
      · rw [xw_hasInst_shape]
        split <;> rfl

mutual
theorem xw_schemaChoices_kinds (X : SchemaX) (o : VOpts) (cx cx' : Cx) (sibs : List DNode) : ∀ (ks : List STree),
    xw_kinds (schemaChoices X o cx' (shapeL sibs) ks) = xw_kinds (schemaChoices X o cx sibs ks)
  | [] => by unfold schemaChoices; rfl
  | k :: rest => by
    unfold schemaChoices
    rw [xw_kinds_append, xw_kinds_append, xw_schemaChoice_kinds X o cx cx' sibs k, xw_schemaChoices_kinds X o cx cx' sibs rest]
theorem xw_schemaChoice_kinds (X : SchemaX) (o : VOpts) (cx cx' : Cx) (sibs : List DNode) : ∀ (t : STree),
    xw_kinds (schemaChoice X o cx' (shapeL sibs) t) = xw_kinds (schemaChoice X o cx sibs t)
  | .mk s i cases => by
    unfold schemaChoice
    split
    · rfl
    · dsimp only
      rw [xw_kinds_append, xw_kinds_append, xw_schemaCases_kinds X o cx cx' sibs cases, xw_anyIn_shape]
      congr 1
      split <;> rfl
theorem xw_schemaCases_kinds (X : SchemaX) (o : VOpts) (cx cx' : Cx) (sibs : List DNode) : ∀ (cs : List STree),
    xw_kinds (schemaCases X o cx' (shapeL sibs) cs) = xw_kinds (schemaCases X o cx sibs cs)
  | [] => by unfold schemaCases; rfl
  | c :: rest => by
    unfold schemaCases
    rw [xw_anyIn_shape]
    split
    · exact xw_schemaCase_kinds X o cx cx' sibs c
    · exact xw_schemaCases_kinds X o cx cx' sibs rest
theorem xw_schemaCase_kinds (X : SchemaX) (o : VOpts) (cx cx' : Cx) (sibs : List DNode) : ∀ (t : STree),
    xw_kinds (schemaCase X o cx' (shapeL sibs) t) = xw_kinds (schemaCase X o cx sibs t)
  | .mk _ _ ks => by
    unfold schemaCase
    rw [xw_kinds_append, xw_kinds_append, xw_schemaChoices_kinds X o cx cx' sibs ks, xw_schemaNodes_kinds X o cx cx' sibs ks]
end

theorem xw_levelChecks_kinds (X : SchemaX) (o : VOpts) (cx cx' : Cx) (hp : cx'.parent = cx.parent)
    (sibs : List DNode) : xw_kinds (levelChecks X o cx' (shapeL sibs)) = xw_kinds (levelChecks X o cx sibs) := by
  unfold levelChecks schemaRL
  rw [hp, xw_kinds_append, xw_kinds_append, xw_kinds_append, xw_kinds_append, xw_nodeChecks_kinds X.base o cx cx' sibs [] [],
    xw_schemaChoices_kinds X o cx cx', xw_schemaNodes_kinds X o cx cx']

mutual
theorem xw_finalNode_kinds (X : SchemaX) (o : VOpts) : ∀ (n : DNode) (cx cx' : Cx) (before before' : List DNode),
    xw_kinds (finalNode X o cx' before' (shapeN n)).2 = xw_kinds (finalNode X o cx before n).2
  | .inner s f m ks, cx, cx', before, before' => by
    rw [shapeN]
    unfold finalNode
    dsimp only
    rw [xw_kinds_append, xw_kinds_append,
      xw_levelChecks_kinds X o (cx.descend X.base before (.inner s f m ks)) (cx'.descend X.base before' (.inner s {} [] (shapeL ks))) rfl,
      xw_finalKids_kinds X o ks]
  | .term s f m v, cx, cx', before, before' => by
    rw [shapeN]
    unfold finalNode
    rfl
theorem xw_finalKids_kinds (X : SchemaX) (o : VOpts) : ∀ (ns : List DNode) (cx cx' : Cx) (before before' : List DNode),
    xw_kinds (finalKids X o cx' before' (shapeL ns)).2 = xw_kinds (finalKids X o cx before ns).2
  | [], _, _, _, _ => by rw [shapeL]; unfold finalKids; rfl
  | n :: ns, cx, cx', before, before' => by
    rw [shapeL]
    unfold finalKids
    dsimp only
    rw [xw_kinds_append, xw_kinds_append, xw_finalNode_kinds X o n cx cx', xw_finalKids_kinds X o ns cx cx']
end

/-- **(1)** the kinds of the errors of `lyd_validate_final_r` depend on the shape of the tree only -/
theorem xw_finalR_kinds (X : SchemaX) (o : VOpts) (cx : Cx) {T1 T2 : List DNode} (h : shapeL T1 = shapeL T2) :
    xw_kinds (finalR X o cx T1).2 = xw_kinds (finalR X o cx T2).2 := by
  have key : ∀ T, xw_kinds (finalR X o cx (shapeL T)).2 = xw_kinds (finalR X o cx T).2 := by
    intro T
    unfold finalR
    dsimp only
    rw [xw_kinds_append, xw_kinds_append, xw_levelChecks_kinds X o cx cx rfl, xw_finalKids_kinds X o T cx cx [] []]
  rw [← key T1, ← key T2, h]

theorem xw_finalR_nil (X : SchemaX) (o : VOpts) (cx : Cx) {T1 T2 : List DNode} (h : shapeL T1 = shapeL T2) :
    (finalR X o cx T1).2.errs = [] ↔ (finalR X o cx T2).2.errs = [] := by
  rw [← xw_kinds_nil, ← xw_kinds_nil, xw_finalR_kinds X o cx h]

/-! ## MAIN with a `when` phase that keeps the shape -/

theorem xw_validateX_unfold (X : SchemaX) (C : XCons) (o : VOpts) (t : List DNode) (hpe : (o.present && t.isEmpty) = false) :
    (validateX X C o t).errs = ((validateNew X o {} t).2 ++ (implL X o {} X.top (validateNew X o {} t).1).2 ++
      (subtreeKids X o (walkFuel X t) {} [] (implL X o {} X.top (validateNew X o {} t).1).1).2 ++
      (whenPhase X C o (preFinal X o t)).2 ++ lrefPhase X C {} (whenPhase X C o (preFinal X o t)).1 ++
      (finalRX X C o {} (whenPhase X C o (preFinal X o t)).1).2).errs ∧
    (validateX X C o t).tree = (finalRX X C o {} (whenPhase X C o (preFinal X o t)).1).1 := by
  unfold validateX preFinal
  simp only [hpe, Bool.false_eq_true, if_false]
  refine ⟨?_, ?_⟩ <;> first | rfl | trivial

/-- **MAIN-W** `validateX` accepts iff `validate` accepts, the `when` phase logs no error and the XPath-dependent constraints hold on
the accessible tree — for a `when` phase that deletes nothing (`hev`) -/
theorem validateX_ok_iff_w (X : SchemaX) (C : XCons) (o : VOpts) (t : List DNode) (hop : o.operational = false)
    (hpe : (o.present && t.isEmpty) = false)
    (hacc : obsL X.base (validate X o t).tree = obsL X.base (rfcComplete X o t))
    (hcc : cfgClosedL X.base true (rfcComplete X o t) = true)
    (hev : (whenPhase X C o (preFinal X o t)).2.evs = []) :
    (validateX X C o t).errs = [] ↔ (validate X o t).errs = [] ∧ (whenPhase X C o (preFinal X o t)).2.errs = [] ∧
      xpViolations X.base C (rfcComplete X o t) = [] := by
  have hsW : shapeL (whenPhase X C o (preFinal X o t)).1 = shapeL (preFinal X o t) := whenPhase_shape X C o _ hev
  have hsh : shapeL (preFinal X o t) = shapeL (rfcComplete X o t) := by
    rw [← shapeL_finalR X o {} (preFinal X o t), ← validate_tree_preFinal X o t hpe]
    exact shape_of_obs X.base hacc
  have hsh' : shapeL (whenPhase X C o (preFinal X o t)).1 = shapeL (rfcComplete X o t) := hsW.trans hsh
  have hF := finalRX_errs X C o hop {} (whenPhase X C o (preFinal X o t)).1
  have hFn := xw_finalR_nil X o {} hsW
  have hxp : (finalR X o {} (whenPhase X C o (preFinal X o t)).1).2.errs = [] →
      (xpModelOk X C o (whenPhase X C o (preFinal X o t)).1 ↔ xpViolations X.base C (rfcComplete X o t) = []) := by
    intro hfin
    rw [← xpViolations_of_shape X.base C hsh']
    exact xpModelOk_iff X C o _ (finalR_allCfg X o {} _ hfin) (by rw [cfgClosedL_of_shape X.base hsh']; exact hcc)
  rw [(xw_validateX_unfold X C o t hpe).1, VResult_errs_eq X o t hpe]
  simp only [Out.append_errs, List.append_eq_nil_iff]
  rw [hF.2]
  unfold xpModelOk at hxp
  have hpf : preFinal X o t = (subtreeKids X o (walkFuel X t) {} [] (implL X o {} X.top (validateNew X o {} t).1).1).1 := rfl
  rw [← hpf]
  constructor
  · rintro ⟨⟨⟨⟨⟨a, b⟩, c⟩, w⟩, lr⟩, fin, lv, tr⟩
    exact ⟨⟨⟨⟨a, b⟩, c⟩, hFn.1 fin⟩, w, (hxp fin).1 ⟨lr, lv, tr⟩⟩
  · rintro ⟨⟨⟨⟨a, b⟩, c⟩, fin⟩, w, xv⟩
    have fin' := hFn.2 fin
    obtain ⟨lr, lv, tr⟩ := (hxp fin').2 xv
    exact ⟨⟨⟨⟨⟨a, b⟩, c⟩, w⟩, lr⟩, fin', lv, tr⟩

/-- the tree `validateX` returns has the shape of the tree `validate` returns -/
theorem validateX_tree_shape_w (X : SchemaX) (C : XCons) (o : VOpts) (t : List DNode) (hop : o.operational = false)
    (hpe : (o.present && t.isEmpty) = false) (hev : (whenPhase X C o (preFinal X o t)).2.evs = []) :
    shapeL (validateX X C o t).tree = shapeL (validate X o t).tree := by
  rw [(xw_validateX_unfold X C o t hpe).2, (finalRX_errs X C o hop {} _).1, shapeL_finalR, whenPhase_shape X C o _ hev,
    validate_tree_preFinal X o t hpe, shapeL_finalR]

end LyModel.Valid
