import LyModel.Valid.Spec
import LyModel.Valid.WellFormed
/-!
# The specification does not depend on the order of sibling instances

`TreePerm S`: reordering of siblings at any depth that leaves the key leaves of list entries where they are.
`specL_mem_perm` / `violations_mem_perm`: every constraint family except `noKey` / `noUniq` is violated on a tree iff it is
violated on a reordered tree; with `KeysFirst` (the keys of a list are its first schema children, flagged `iskey`) `noKey` too.
`valid_perm_noUnique` / `valid_perm_noUnique_keysFirst`: `Valid` is invariant for a schema without `unique`.
`valid_perm` / `valid_perm_keysFirst`: with `unique` statements too (schema hypothesis `UniqueWF`, decidable): a valid tree has no
duplicate leaf / container on the path of a `unique` statement, so `leafValInUse` finds the same values whatever the order.
Core Lean only.
-/
namespace LyModel.Valid
open LyModel LyModel.Tree

/-- reordering of siblings at any depth; key leaves (which libyang always keeps first in a list entry) are never moved -/
inductive TreePerm (S : Schema) : List DNode → List DNode → Prop
  | refl (l) : TreePerm S l l
  | swap (a b : DNode) (l) : S.isKey a.sid = false → S.isKey b.sid = false → TreePerm S (a :: b :: l) (b :: a :: l)
  | cons (a) {l l'} : TreePerm S l l' → TreePerm S (a :: l) (a :: l')
  | kids (s f m) {ks ks'} (l) : TreePerm S ks ks' → TreePerm S (.inner s f m ks :: l) (.inner s f m ks' :: l)
  | trans {a b c} : TreePerm S a b → TreePerm S b c → TreePerm S a c

theorem TreePerm.symm {S : Schema} {a b : List DNode} (h : TreePerm S a b) : TreePerm S b a := by
  induction h with
  | refl l => exact .refl l
  | swap a b l ha hb => exact .swap b a l hb ha
  | cons a _ ih => exact .cons a ih
  | kids s f m l _ ih => exact .kids s f m l ih
  | trans _ _ ih1 ih2 => exact .trans ih2 ih1

/-! ## lists equal up to a permutation and an element-wise relation -/

inductive F2 {α : Type} (R : α → α → Prop) : List α → List α → Prop
  | nil : F2 R [] []
  | cons {a b l l'} : R a b → F2 R l l' → F2 R (a :: l) (b :: l')

theorem F2.refl {α : Type} {R : α → α → Prop} (hR : ∀ a, R a a) : ∀ l, F2 R l l
  | [] => .nil
  | a :: l => .cons (hR a) (F2.refl hR l)

theorem F2.trans {α : Type} {R : α → α → Prop} (hR : ∀ a b c, R a b → R b c → R a c) {l1 l2 l3 : List α}
    (h1 : F2 R l1 l2) (h2 : F2 R l2 l3) : F2 R l1 l3 := by
  induction h1 generalizing l3 with
  | nil => exact h2
  | cons r _ ih =>
    cases h2 with
    | cons r' t' => exact .cons (hR _ _ _ r r') (ih t')

theorem F2.perm_comp {α : Type} {R : α → α → Prop} {B C : List α} (p : B.Perm C) :
    ∀ {A : List α}, F2 R A B → ∃ A', A.Perm A' ∧ F2 R A' C := by
  induction p with
  | nil => intro A h; exact ⟨A, List.Perm.refl _, h⟩
  | cons x _ ih =>
    intro A h
    cases h with
    | cons r t =>
      obtain ⟨A', p', f'⟩ := ih t
      exact ⟨_ :: A', p'.cons _, .cons r f'⟩
  | swap x y l =>
    intro A h
    cases h with
    | cons r t =>
      cases t with
      | cons r' t' => exact ⟨_, List.Perm.swap _ _ _, .cons r' (.cons r t')⟩
  | trans _ _ ih1 ih2 =>
    intro A h
    obtain ⟨A1, p1, f1⟩ := ih1 h
    obtain ⟨A2, p2, f2⟩ := ih2 f1
    exact ⟨A2, p1.trans p2, f2⟩

theorem F2.length_eq {α : Type} {R : α → α → Prop} {l l' : List α} (h : F2 R l l') : l.length = l'.length := by
  induction h with
  | nil => rfl
  | cons _ _ ih => simp [ih]

theorem F2.filter {α : Type} {R : α → α → Prop} (p : α → Bool) (hp : ∀ a b, R a b → p a = p b) {l l' : List α}
    (h : F2 R l l') : F2 R (l.filter p) (l'.filter p) := by
  induction h with
  | nil => exact .nil
  | @cons a b _ _ r _ ih =>
    simp only [List.filter_cons, ← hp a b r]
    split
    · exact .cons r ih
    · exact ih

theorem F2.all_eq2 {α : Type} {R : α → α → Prop} (p q : α → Bool) (hp : ∀ a b, R a b → p a = q b) {l l' : List α}
    (h : F2 R l l') : l.all p = l'.all q := by
  induction h with
  | nil => rfl
  | @cons a b _ _ r _ ih => simp only [List.all_cons, hp a b r, ih]

theorem F2.all_eq {α : Type} {R : α → α → Prop} (p : α → Bool) (hp : ∀ a b, R a b → p a = p b) {l l' : List α}
    (h : F2 R l l') : l.all p = l'.all p := F2.all_eq2 p p hp h

theorem F2.any_eq {α : Type} {R : α → α → Prop} (p : α → Bool) (hp : ∀ a b, R a b → p a = p b) {l l' : List α}
    (h : F2 R l l') : l.any p = l'.any p := by
  induction h with
  | nil => rfl
  | @cons a b _ _ r _ ih => simp only [List.any_cons, hp a b r, ih]

theorem F2.mem_flatMap {α β : Type} {R : α → α → Prop} (K : β) (f : α → List β) (hf : ∀ a b, R a b → (K ∈ f a ↔ K ∈ f b))
    {l l' : List α} (h : F2 R l l') : K ∈ l.flatMap f ↔ K ∈ l'.flatMap f := by
  induction h with
  | nil => exact Iff.rfl
  | @cons a b _ _ r _ ih => simp only [List.flatMap_cons, List.mem_append, hf a b r, ih]

theorem F2.pairwiseNe_eq {α : Type} {R : α → α → Prop} (eq : α → α → Bool)
    (he : ∀ a b c d, R a b → R c d → eq a c = eq b d) {l l' : List α}
    (h : F2 R l l') : pairwiseNe eq l = pairwiseNe eq l' := by
  induction h with
  | nil => rfl
  | @cons a b _ _ r t ih =>
    simp only [pairwiseNe, ih]
    rw [F2.all_eq2 (R := R) (fun y => !eq a y) (fun y => !eq b y) (fun c d rcd => by simp only [he a b c d r rcd]) t]

theorem pairwiseNe_perm {α : Type} (eq : α → α → Bool) (hs : ∀ a b, eq a b = eq b a) {l l' : List α} (p : l.Perm l') :
    pairwiseNe eq l = pairwiseNe eq l' := by
  induction p with
  | nil => rfl
  | cons x p ih => simp only [pairwiseNe, ih, p.all_eq]
  | swap x y l =>
    simp only [pairwiseNe, List.all_cons, hs x y]
    cases eq y x <;> cases l.all (fun z => !eq x z) <;> cases l.all (fun z => !eq y z) <;> simp
  | trans _ _ ih1 ih2 => exact ih1.trans ih2

/-- `E` is a permutation of a list related to `E'` element by element -/
def ListRel {α : Type} (R : α → α → Prop) (E E' : List α) : Prop := ∃ M, E.Perm M ∧ F2 R M E'

theorem ListRel.refl {α : Type} {R : α → α → Prop} (hR : ∀ a, R a a) (l : List α) : ListRel R l l :=
  ⟨l, List.Perm.refl _, F2.refl hR l⟩

theorem ListRel.trans {α : Type} {R : α → α → Prop} (hR : ∀ a b c, R a b → R b c → R a c) {l1 l2 l3 : List α}
    (h1 : ListRel R l1 l2) (h2 : ListRel R l2 l3) : ListRel R l1 l3 := by
  obtain ⟨M1, p1, f1⟩ := h1
  obtain ⟨M2, p2, f2⟩ := h2
  obtain ⟨M1', p1', f1'⟩ := F2.perm_comp p2 f1
  exact ⟨M1', p1.trans p1', F2.trans hR f1' f2⟩

theorem ListRel.cons {α : Type} {R : α → α → Prop} {a b : α} (r : R a b) {l l' : List α} (h : ListRel R l l') :
    ListRel R (a :: l) (b :: l') := by
  obtain ⟨M, p, f⟩ := h
  exact ⟨a :: M, p.cons a, .cons r f⟩

theorem ListRel.swap {α : Type} {R : α → α → Prop} (hR : ∀ a, R a a) (a b : α) (l : List α) :
    ListRel R (a :: b :: l) (b :: a :: l) :=
  ⟨b :: a :: l, List.Perm.swap _ _ _, F2.refl hR _⟩

theorem ListRel.length_eq {α : Type} {R : α → α → Prop} {l l' : List α} (h : ListRel R l l') : l.length = l'.length := by
  obtain ⟨M, p, f⟩ := h
  rw [p.length_eq, f.length_eq]

theorem ListRel.isEmpty_eq {α : Type} {R : α → α → Prop} {l l' : List α} (h : ListRel R l l') : l.isEmpty = l'.isEmpty := by
  have := h.length_eq
  cases l <;> cases l' <;> simp_all

theorem ListRel.filter {α : Type} {R : α → α → Prop} (p : α → Bool) (hp : ∀ a b, R a b → p a = p b) {l l' : List α}
    (h : ListRel R l l') : ListRel R (l.filter p) (l'.filter p) := by
  obtain ⟨M, q, f⟩ := h
  exact ⟨M.filter p, q.filter p, f.filter p hp⟩

theorem ListRel.all_eq {α : Type} {R : α → α → Prop} (p : α → Bool) (hp : ∀ a b, R a b → p a = p b) {l l' : List α}
    (h : ListRel R l l') : l.all p = l'.all p := by
  obtain ⟨M, q, f⟩ := h
  rw [q.all_eq, f.all_eq p hp]

theorem ListRel.any_eq {α : Type} {R : α → α → Prop} (p : α → Bool) (hp : ∀ a b, R a b → p a = p b) {l l' : List α}
    (h : ListRel R l l') : l.any p = l'.any p := by
  obtain ⟨M, q, f⟩ := h
  rw [q.any_eq, f.any_eq p hp]

theorem ListRel.mem_flatMap {α β : Type} {R : α → α → Prop} (K : β) (f : α → List β)
    (hf : ∀ a b, R a b → (K ∈ f a ↔ K ∈ f b)) {l l' : List α} (h : ListRel R l l') :
    K ∈ l.flatMap f ↔ K ∈ l'.flatMap f := by
  obtain ⟨M, q, g⟩ := h
  rw [(q.flatMap_right f).mem_iff, g.mem_flatMap K f hf]

theorem ListRel.pairwiseNe_eq {α : Type} {R : α → α → Prop} (eq : α → α → Bool) (hs : ∀ a b, eq a b = eq b a)
    (he : ∀ a b c d, R a b → R c d → eq a c = eq b d) {l l' : List α} (h : ListRel R l l') :
    pairwiseNe eq l = pairwiseNe eq l' := by
  obtain ⟨M, q, f⟩ := h
  rw [pairwiseNe_perm eq hs q, f.pairwiseNe_eq eq he]

/-! ## the relation between counterpart nodes -/

/-- the keys of a list are the schema children right after it and carry the `iskey` flag (true of every compiled schema) -/
def KeysFirst (S : Schema) : Prop := ∀ lst i, i < S.nkeys lst → S.isKey (i + lst + 1) = true

/-- the error kinds whose presence is order independent (`noUniq`: see the end of the file) -/
def Good (X : SchemaX) (K : EKind) : Prop := K ≠ .noUniq ∧ (K = .noKey → KeysFirst X.base)

/-- the key leaves in front of a child list: schema ids and values -/
def keySig (S : Schema) (ks : List DNode) : List (Nat × Bytes) := (keysOf S ks).map fun k => (k.sid, k.val)

/-- counterpart nodes: same schema node, same value, same keys, and the children violate the same constraints -/
structure NodeRel (X : SchemaX) (o : VOpts) (K : EKind) (a b : DNode) : Prop where
  sid : a.sid = b.sid
  val : a.val = b.val
  keys : keySig X.base a.kids = keySig X.base b.kids
  spec : ∀ sk, K ∈ specL X o sk a.kids ↔ K ∈ specL X o sk b.kids

theorem NodeRel.refl (X : SchemaX) (o : VOpts) (K : EKind) (a : DNode) : NodeRel X o K a a := ⟨rfl, rfl, rfl, fun _ => Iff.rfl⟩

theorem NodeRel.trans (X : SchemaX) (o : VOpts) (K : EKind) (a b c : DNode) (h1 : NodeRel X o K a b) (h2 : NodeRel X o K b c) :
    NodeRel X o K a c :=
  ⟨h1.sid.trans h2.sid, h1.val.trans h2.val, h1.keys.trans h2.keys, fun sk => (h1.spec sk).trans (h2.spec sk)⟩

theorem NodeRel.keyVals {X : SchemaX} {o : VOpts} {K : EKind} {a b : DNode} (h : NodeRel X o K a b) :
    keyVals X.base a = keyVals X.base b := by
  have := congrArg (List.map Prod.snd) h.keys
  simpa [keySig, Valid.keyVals, List.map_map, Function.comp_def] using this

/-- with `KeysFirst`, "the first `n` children are the keys" can be read off the leading key leaves -/
theorem take_map_eq_iff {α β : Type} (p : α → Bool) (f : α → β) : ∀ (l : List α) (n : Nat) (t : List β), t.length = n →
    (∀ x, f x ∈ t → p x = true) → ((l.take n).map f = t ↔ ((l.takeWhile p).take n).map f = t)
  | [], n, t, _, _ => by simp
  | x :: xs, 0, t, _, _ => by simp
  | x :: xs, n + 1, [], h, _ => by simp at h
  | x :: xs, n + 1, y :: t, h, hp => by
    have ih := take_map_eq_iff p f xs n t (by simpa using h) (fun z hz => hp z (List.mem_cons_of_mem _ hz))
    by_cases hx : p x = true
    · simp only [List.take_succ_cons, List.map_cons, List.takeWhile_cons, hx, if_true, List.cons.injEq, ih]
    · simp only [List.take_succ_cons, List.map_cons, List.takeWhile_cons, hx, if_false, List.take_nil, List.map_nil,
        List.cons.injEq, reduceCtorEq, iff_false, not_and]
      intro hy
      exact absurd (hp x (by simp [hy])) hx

theorem keysPresent_eq_of_keySig (S : Schema) (hS : KeysFirst S) (lst : Nat) (ks ks' : List DNode)
    (h : keySig S ks = keySig S ks') : keysPresent S lst ks = keysPresent S lst ks' := by
  have key : ∀ ks : List DNode, keysPresent S lst ks = true ↔
      ((keySig S ks).take (S.nkeys lst)).map Prod.fst = (List.range (S.nkeys lst)).map (· + lst + 1) := by
    intro ks
    unfold keysPresent keySig keysOf
    simp only [beq_iff_eq]
    rw [take_map_eq_iff (fun c : DNode => S.isKey c.sid) (·.sid) ks (S.nkeys lst) _ (by simp)]
    · simp [List.map_take, List.map_map, Function.comp_def]
    · intro x hx
      simp only [List.mem_map, List.mem_range] at hx
      obtain ⟨i, hi, e⟩ := hx
      simp only [← e]
      exact hS lst i hi
  rw [Bool.eq_iff_iff, key, key, h]

/-! ## the specification on related sibling lists -/

theorem mem_append_congr {K : EKind} {a a' b b' : List EKind} (h1 : K ∈ a ↔ K ∈ a') (h2 : K ∈ b ↔ K ∈ b') :
    K ∈ a ++ b ↔ K ∈ a' ++ b' := by
  simp only [List.mem_append, h1, h2]

theorem mem_ite_congr {K : EKind} {c c' : Bool} (h : c = c') (a b : List EKind) :
    K ∈ (if c = true then a else b) ↔ K ∈ (if c' = true then a else b) := by rw [h]

theorem mem_ite_single_ne {K J : EKind} (h : K ≠ J) (c c' : Bool) :
    K ∈ (if c = true then [] else [J]) ↔ K ∈ (if c' = true then [] else [J]) := by
  cases c <;> cases c' <;> simp [h]

mutual
theorem specNode_rel (X : SchemaX) (o : VOpts) (K : EKind) (hK : Good X K) : ∀ (k : STree) (E E' : List DNode),
    ListRel (NodeRel X o K) E E' → (K ∈ specNode X o k E ↔ K ∈ specNode X o k E')
  | .mk s i ks, E, E', h => by
    have ihL := specL_rel X o K hK ks
    have ihC := specCases_rel X o K hK ks
    have hI : ListRel (NodeRel X o K) (instsOf E s) (instsOf E' s) := h.filter _ (fun a b r => by rw [r.sid])
    have hlen := hI.length_eq
    have hemp := hI.isEmpty_eq
    have hfm : K ∈ (instsOf E s).flatMap (fun e => specL X o ks e.kids) ↔ K ∈ (instsOf E' s).flatMap (fun e => specL X o ks e.kids) :=
      hI.mem_flatMap K _ (fun a b r => r.spec ks)
    have hty : (instsOf E s).all (fun n => typeOk i.ty n.val) = (instsOf E' s).all (fun n => typeOk i.ty n.val) :=
      hI.all_eq _ (fun a b r => by rw [r.val])
    have hd : ∀ ds, hasData E ds = hasData E' ds := fun ds => h.any_eq _ (fun a b r => by simp only [inSids, r.sid])
    unfold specNode
    cases i.kind with
    | leaf => simp only [hlen, hemp, hty]
    | leaflist =>
      have hpw : pairwiseNe (fun a b : DNode => a.val == b.val) (instsOf E s) = pairwiseNe (fun a b : DNode => a.val == b.val) (instsOf E' s) :=
        hI.pairwiseNe_eq _ (fun a b => by simp only [Bool.beq_comm]) (fun a b c d r r' => by simp only [r.val, r'.val])
      simp only [hlen, hemp, hty, hpw]
    | container =>
      simp only [hlen, hemp]
      refine mem_append_congr Iff.rfl ?_
      split
      · exact hfm
      · split
        · exact Iff.rfl
        · exact hfm
    | list =>
      have hpw : pairwiseNe (fun a b : DNode => keyVals X.base a == keyVals X.base b) (instsOf E s)
          = pairwiseNe (fun a b : DNode => keyVals X.base a == keyVals X.base b) (instsOf E' s) :=
        hI.pairwiseNe_eq _ (fun a b => by simp only [Bool.beq_comm]) (fun a b c d r r' => by simp only [r.keyVals, r'.keyVals])
      have hkeys : K ∈ (if keysOk X.base (.mk s i ks) (instsOf E s) = true then [] else [EKind.noKey]) ↔
          K ∈ (if keysOk X.base (.mk s i ks) (instsOf E' s) = true then [] else [EKind.noKey]) := by
        by_cases hk : K = .noKey
        · refine mem_ite_congr ?_ _ _
          exact hI.all_eq _ (fun a b r => keysPresent_eq_of_keySig X.base (hK.2 hk) _ _ _ r.keys)
        · exact mem_ite_single_ne hk _ _
      simp only [hlen, hemp, hpw]
      refine mem_append_congr (mem_append_congr (mem_append_congr (mem_append_congr (mem_append_congr
        (mem_append_congr Iff.rfl hkeys) Iff.rfl) Iff.rfl) Iff.rfl) ?_) hfm
      exact mem_ite_single_ne hK.1 _ _
    | choice =>
      simp only [hd]
      exact mem_append_congr Iff.rfl (ihC E E' h)
    | case => exact ihL E E' h
theorem specL_rel (X : SchemaX) (o : VOpts) (K : EKind) (hK : Good X K) : ∀ (sk : List STree) (E E' : List DNode),
    ListRel (NodeRel X o K) E E' → (K ∈ specL X o sk E ↔ K ∈ specL X o sk E')
  | [], _, _, _ => by simp [specL]
  | k :: ks, E, E', h => by
    unfold specL
    exact mem_append_congr (specNode_rel X o K hK k E E' h) (specL_rel X o K hK ks E E' h)
theorem specCases_rel (X : SchemaX) (o : VOpts) (K : EKind) (hK : Good X K) : ∀ (sk : List STree) (E E' : List DNode),
    ListRel (NodeRel X o K) E E' → (K ∈ specCases X o sk E ↔ K ∈ specCases X o sk E')
  | [], _, _, _ => by simp [specCases]
  | k :: ks, E, E', h => by
    have hd : hasData E k.dataSids = hasData E' k.dataSids := h.any_eq _ (fun a b r => by simp only [inSids, r.sid])
    unfold specCases
    rw [hd]
    refine mem_append_congr ?_ (specCases_rel X o K hK ks E E' h)
    split
    · exact specNode_rel X o K hK k E E' h
    · exact Iff.rfl
end

/-! ## from `TreePerm` to the relation -/

theorem TreePerm.keySig_eq {S : Schema} {ks ks' : List DNode} (h : TreePerm S ks ks') : keySig S ks = keySig S ks' := by
  induction h with
  | refl l => rfl
  | swap a b l ha hb => simp [keySig, keysOf, ha, hb]
  | cons a _ ih =>
    unfold keySig keysOf at *
    simp only [List.takeWhile_cons]
    split
    · simp only [List.map_cons, ih]
    · rfl
  | kids s f m l _ _ =>
    unfold keySig keysOf
    simp only [List.takeWhile_cons, DNode.sid]
    split <;> simp [DNode.val]
  | trans _ _ ih1 ih2 => exact ih1.trans ih2

theorem TreePerm.isEmpty_eq {S : Schema} {t t' : List DNode} (h : TreePerm S t t') : t.isEmpty = t'.isEmpty := by
  induction h with
  | trans _ _ ih1 ih2 => exact ih1.trans ih2
  | _ => rfl

theorem TreePerm.listRel (X : SchemaX) (o : VOpts) (K : EKind) (hK : Good X K) {E E' : List DNode}
    (h : TreePerm X.base E E') : ListRel (NodeRel X o K) E E' := by
  induction h with
  | refl l => exact ListRel.refl (NodeRel.refl X o K) l
  | swap a b l _ _ => exact ListRel.swap (NodeRel.refl X o K) a b l
  | cons a _ ih => exact ListRel.cons (NodeRel.refl X o K a) ih
  | kids s f m l hks ih =>
    exact ListRel.cons ⟨rfl, rfl, hks.keySig_eq, fun sk => specL_rel X o K hK sk _ _ ih⟩ (ListRel.refl (NodeRel.refl X o K) l)
  | trans _ _ ih1 ih2 => exact ListRel.trans (NodeRel.trans X o K) ih1 ih2

theorem specL_mem_good (X : SchemaX) (o : VOpts) (K : EKind) (hK : Good X K) (sk : List STree) {E E' : List DNode}
    (h : TreePerm X.base E E') : K ∈ specL X o sk E ↔ K ∈ specL X o sk E' :=
  specL_rel X o K hK sk E E' (h.listRel X o K hK)

/-- **the constraint families other than `noKey` / `noUniq` do not see the order of the siblings** -/
theorem specL_mem_perm (X : SchemaX) (o : VOpts) (sk : List STree) (K : EKind) (hk : K ≠ .noKey) (hu : K ≠ .noUniq)
    {E E' : List DNode} (h : TreePerm X.base E E') : K ∈ specL X o sk E ↔ K ∈ specL X o sk E' :=
  specL_mem_good X o K ⟨hu, fun e => absurd e hk⟩ sk h

/-! ## the explicit part and the default-flagged state nodes -/

theorem explicitNode_sid {n n' : DNode} (h : explicitNode n = some n') : n'.sid = n.sid := by
  cases n with
  | inner s f m ks =>
    unfold explicitNode at h
    split at h
    · cases h
    · cases h; rfl
  | term s f m v =>
    unfold explicitNode at h
    split at h
    · cases h
    · cases h; rfl

theorem explicitL_perm {S : Schema} {t t' : List DNode} (h : TreePerm S t t') : TreePerm S (explicitL t) (explicitL t') := by
  induction h with
  | refl l => exact .refl _
  | swap a b l ha hb =>
    unfold explicitL explicitL
    cases hea : explicitNode a <;> cases heb : explicitNode b <;> simp only
    all_goals first
      | exact .refl _
      | (refine .swap _ _ _ ?_ ?_
         · rw [explicitNode_sid hea]; exact ha
         · rw [explicitNode_sid heb]; exact hb)
  | cons a _ ih =>
    unfold explicitL
    cases explicitNode a <;> simp only
    · exact ih
    · exact .cons _ ih
  | kids s f m l _ ih =>
    unfold explicitL explicitNode
    by_cases hf : f.dflt = true
    · simp only [hf, if_true]; exact .refl _
    · simp only [hf]; exact .kids _ _ _ _ ih
  | trans _ _ ih1 ih2 => exact .trans ih1 ih2

theorem dfltStateL_perm {S : Schema} {t t' : List DNode} (h : TreePerm S t t') : dfltStateL S t = dfltStateL S t' := by
  induction h with
  | refl l => rfl
  | swap a b l _ _ =>
    simp only [dfltStateL]
    cases dfltStateN S a <;> cases dfltStateN S b <;> rfl
  | cons a _ ih => simp only [dfltStateL, ih]
  | kids s f m l _ ih => simp only [dfltStateL, dfltStateN, ih]
  | trans _ _ ih1 ih2 => exact ih1.trans ih2

theorem violations_mem_good (X : SchemaX) (o : VOpts) (K : EKind) (hK : Good X K) {t t' : List DNode}
    (h : TreePerm X.base t t') : K ∈ violations X o t ↔ K ∈ violations X o t' := by
  unfold violations explicitPart
  rw [h.isEmpty_eq, dfltStateL_perm h]
  split
  · exact Iff.rfl
  · exact mem_append_congr (specL_mem_good X o K hK X.top (explicitL_perm h)) Iff.rfl

/-- **`violations` up to `noKey` / `noUniq` is invariant under reordering of siblings** -/
theorem violations_mem_perm (X : SchemaX) (o : VOpts) (K : EKind) (hk : K ≠ .noKey) (hu : K ≠ .noUniq) {t t' : List DNode}
    (h : TreePerm X.base t t') : K ∈ violations X o t ↔ K ∈ violations X o t' :=
  violations_mem_good X o K ⟨hu, fun e => absurd e hk⟩ h

/-- `noKey` too when the keys are the first schema children of their list -/
theorem violations_noKey_perm (X : SchemaX) (o : VOpts) (hS : KeysFirst X.base) {t t' : List DNode}
    (h : TreePerm X.base t t') : .noKey ∈ violations X o t ↔ .noKey ∈ violations X o t' :=
  violations_mem_good X o .noKey ⟨by decide, fun _ => hS⟩ h

/-- executable form of `KeysFirst` -/
def keysFirstB (S : Schema) : Bool :=
  (List.range S.nodes.length).all fun lst => (List.range (S.nkeys lst)).all fun i => S.isKey (i + lst + 1)

theorem keysFirst_of_keysFirstB (S : Schema) (h : keysFirstB S = true) : KeysFirst S := by
  intro lst i hi
  unfold keysFirstB at h
  simp only [List.all_eq_true, List.mem_range] at h
  by_cases hl : lst < S.nodes.length
  · exact h lst hl i hi
  · have : S.nkeys lst = 0 := by
      unfold Schema.nkeys Schema.get?
      rw [List.getElem?_eq_none (by omega)]
    omega

/-! ## `Valid` without `unique` statements -/

theorem not_mem_flatMap_of {α : Type} (K : EKind) (l : List α) (f : α → List EKind) (H : ∀ x, K ∉ f x) : K ∉ l.flatMap f := by
  intro h
  obtain ⟨x, _, hx⟩ := List.mem_flatMap.1 h
  exact H x hx

mutual
theorem specNode_noUniq (X : SchemaX) (o : VOpts) (hU : X.uniques = []) : ∀ (k : STree) (E : List DNode),
    EKind.noUniq ∉ specNode X o k E
  | .mk s i ks, E => by
    have ihL := specL_noUniq X o hU ks
    have ihC := specCases_noUniq X o hU ks
    have hfm := not_mem_flatMap_of .noUniq (instsOf E s) (fun e => specL X o ks e.kids) (fun x => ihL x.kids)
    unfold specNode
    cases i.kind with
    | leaf => simp only [List.mem_append, not_or]; refine ⟨⟨⟨?_, ?_⟩, ?_⟩, ?_⟩ <;> split <;> simp
    | leaflist => simp only [List.mem_append, not_or]; refine ⟨⟨⟨⟨?_, ?_⟩, ?_⟩, ?_⟩, ?_⟩ <;> split <;> simp
    | container =>
      simp only [List.mem_append, not_or]
      refine ⟨⟨?_, ?_⟩, ?_⟩
      · split <;> simp
      · split <;> simp
      · split
        · exact hfm
        · split
          · exact ihL []
          · exact hfm
    | list =>
      simp only [List.mem_append, not_or, SchemaX.uniquesOf, hU, List.filter_nil, List.map_nil, List.all_nil, Bool.or_true, if_true]
      refine ⟨⟨⟨⟨⟨⟨?_, ?_⟩, ?_⟩, ?_⟩, ?_⟩, ?_⟩, hfm⟩ <;> first | (split <;> simp) | simp
    | choice =>
      simp only [List.mem_append, not_or]
      refine ⟨⟨?_, ?_⟩, ihC E⟩ <;> split <;> simp
    | case => exact ihL E
theorem specL_noUniq (X : SchemaX) (o : VOpts) (hU : X.uniques = []) : ∀ (sk : List STree) (E : List DNode),
    EKind.noUniq ∉ specL X o sk E
  | [], _ => by simp [specL]
  | k :: ks, E => by
    unfold specL
    simp only [List.mem_append, not_or]
    exact ⟨specNode_noUniq X o hU k E, specL_noUniq X o hU ks E⟩
theorem specCases_noUniq (X : SchemaX) (o : VOpts) (hU : X.uniques = []) : ∀ (sk : List STree) (E : List DNode),
    EKind.noUniq ∉ specCases X o sk E
  | [], _ => by simp [specCases]
  | k :: ks, E => by
    unfold specCases
    simp only [List.mem_append, not_or]
    refine ⟨?_, specCases_noUniq X o hU ks E⟩
    split
    · exact specNode_noUniq X o hU k E
    · simp
end

theorem violations_noUniq (X : SchemaX) (o : VOpts) (hU : X.uniques = []) (t : List DNode) : EKind.noUniq ∉ violations X o t := by
  unfold violations
  split
  · simp
  · simp only [List.mem_append, not_or]
    refine ⟨specL_noUniq X o hU _ _, ?_⟩
    split <;> simp

theorem valid_iff_forall (X : SchemaX) (o : VOpts) (t : List DNode) : Valid X o t ↔ ∀ K, K ∉ violations X o t := by
  unfold Valid
  exact List.eq_nil_iff_forall_not_mem

/-- **validity does not depend on the order of the siblings** (schema without `unique`; both trees in canonical form: the list
keys in place) -/
theorem valid_perm_noUnique (X : SchemaX) (o : VOpts) (hU : X.uniques = []) {t t' : List DNode} (h : TreePerm X.base t t')
    (hk : .noKey ∉ violations X o t) (hk' : .noKey ∉ violations X o t') : Valid X o t ↔ Valid X o t' := by
  have key : ∀ K, K ∉ violations X o t ↔ K ∉ violations X o t' := by
    intro K
    by_cases h1 : K = .noKey
    · subst h1; exact iff_of_true hk hk'
    · by_cases h2 : K = .noUniq
      · subst h2; exact iff_of_true (violations_noUniq X o hU t) (violations_noUniq X o hU t')
      · exact not_congr (violations_mem_perm X o K h1 h2 h)
  rw [valid_iff_forall, valid_iff_forall]
  exact forall_congr' key

/-- the same without the canonical-form hypotheses, for a schema whose list keys come first (`keysFirstB`) -/
theorem valid_perm_noUnique_keysFirst (X : SchemaX) (o : VOpts) (hU : X.uniques = []) (hS : KeysFirst X.base) {t t' : List DNode}
    (h : TreePerm X.base t t') : Valid X o t ↔ Valid X o t' := by
  have key : ∀ K, K ∉ violations X o t ↔ K ∉ violations X o t' := by
    intro K
    by_cases h2 : K = .noUniq
    · subst h2; exact iff_of_true (violations_noUniq X o hU t) (violations_noUniq X o hU t')
    · exact not_congr (violations_mem_good X o K ⟨h2, fun _ => hS⟩ h)
  rw [valid_iff_forall, valid_iff_forall]
  exact forall_congr' key

/-! ## `unique`: inside a valid list entry the value `leafValInUse` finds does not depend on the order -/

/-- `p` is a schema path from one of `sk` downwards that ends in the node `target` -/
inductive Chain (target : Nat) : List STree → List STree → Prop
  | last {sk k} : k ∈ sk → k.sid = target → Chain target sk [k]
  | step {sk k p} : k ∈ sk → Chain target k.kids p → Chain target sk (k :: p)

theorem Chain.mono {target : Nat} {sk sk' p : List STree} (h : Chain target sk p) (hs : ∀ k ∈ sk, k ∈ sk') : Chain target sk' p := by
  cases h with
  | last hk ht => exact .last (hs _ hk) ht
  | step hk hc => exact .step (hs _ hk) hc

theorem pathTo_chain : ∀ (fuel : Nat) (sk : List STree) (target : Nat) (p : List STree),
    pathTo fuel sk target = some p → Chain target sk p
  | 0, _, _, _, h => by simp [pathTo] at h
  | _ + 1, [], _, _, h => by simp [pathTo] at h
  | fuel + 1, k :: ks, target, p, h => by
    unfold pathTo at h
    split at h
    · rename_i hk
      cases h
      exact .last (List.mem_cons_self) (by simpa using hk)
    · split at h
      · rename_i q hq
        cases h
        exact .step (List.mem_cons_self) (pathTo_chain fuel k.kids target q hq)
      · exact (pathTo_chain fuel ks target p h).mono (fun _ hx => List.mem_cons_of_mem _ hx)

/-- a choice has only cases below it -/
def choiceOk (k : STree) : Bool := k.info.kind != .choice || k.kids.all (fun c => c.info.kind == .case)
/-- on the way to the leaf `target` of a `unique` statement: choices hold cases, and `target` is a leaf -/
def pathNodeOk (target : Nat) (k : STree) : Bool := choiceOk k && (k.sid != target || k.info.kind == .leaf)

theorem allBelowL_mem (q : STree → Bool) : ∀ (sk : List STree) (k : STree), allBelowL q sk = true → k ∈ sk →
    q k = true ∧ allBelowL q k.kids = true
  | [], _, _, hk => by cases hk
  | t :: ts, k, h, hk => by
    unfold allBelowL at h
    simp only [Bool.and_eq_true] at h
    rcases List.mem_cons.1 hk with rfl | hk
    · cases k with
      | mk s i ks =>
        have := h.1
        unfold allBelow at this
        simpa [STree.kids] using this
    · exact allBelowL_mem q ts k h.2 hk

theorem dataSids_sub : ∀ (sk : List STree) (k : STree), k ∈ sk → ∀ x ∈ k.dataSids, x ∈ dataSidsL sk
  | [], _, hk, _, _ => by cases hk
  | t :: ts, k, hk, x, hx => by
    unfold dataSidsL
    rcases List.mem_cons.1 hk with rfl | hk
    · exact List.mem_append_left _ hx
    · exact List.mem_append_right _ (dataSids_sub ts k hk x hx)

theorem dataSids_inner (k : STree) (h : k.info.kind = .choice ∨ k.info.kind = .case) : k.dataSids = dataSidsL k.kids := by
  cases k with
  | mk s i ks =>
    unfold STree.dataSids
    simp only [STree.info] at h
    rcases h with h | h <;> simp [h, STree.kids]

theorem dataSids_of_dataNode (k : STree) (h1 : k.info.kind ≠ .choice) (h2 : k.info.kind ≠ .case) : k.dataSids = [k.sid] := by
  cases k with
  | mk s i ks =>
    unfold STree.dataSids
    simp only [STree.info] at h1 h2
    simp [h1, h2, STree.sid]

theorem hasData_false_sub {lvl : List DNode} {ds ds' : List Nat} (h : hasData lvl ds = false) (hs : ∀ x ∈ ds', x ∈ ds) :
    hasData lvl ds' = false := by
  unfold hasData at *
  rw [Bool.eq_false_iff] at *
  intro h'
  apply h
  simp only [List.any_eq_true, inSids, List.contains_iff_mem] at *
  obtain ⟨n, hn, hm⟩ := h'
  exact ⟨n, hn, hs _ hm⟩

theorem find?_none_of_noData {lvl : List DNode} {ds : List Nat} (h : hasData lvl ds = false) (s : Nat) (hs : s ∈ ds) :
    lvl.find? (·.sid == s) = none := by
  rw [List.find?_eq_none]
  intro n hn hns
  unfold hasData at h
  rw [Bool.eq_false_iff] at h
  apply h
  simp only [List.any_eq_true, inSids, List.contains_iff_mem]
  exact ⟨n, hn, by rw [beq_iff_eq] at hns; rw [hns]; exact hs⟩

theorem lvu_nil (lvl : List DNode) : leafValInUse [] lvl = none := by rw [leafValInUse.eq_def]

theorem lvu_single (leaf : STree) (lvl : List DNode) : leafValInUse [leaf] lvl =
    match lvl.find? (·.sid == leaf.sid) with
    | some d => some d.val
    | none => leaf.info.dflts.head? := by rw [leafValInUse.eq_def]; rfl

theorem lvu_cons2 (k k2 : STree) (rest : List STree) (lvl : List DNode) : leafValInUse (k :: k2 :: rest) lvl =
    match k.info.kind with
    | .container =>
      match lvl.find? (·.sid == k.sid) with
      | some c => leafValInUse (k2 :: rest) c.kids
      | none => if k.info.presence then none else leafValInUse (k2 :: rest) []
    | .choice =>
      if hasData lvl k.dataSids then
        (if hasData lvl k2.dataSids then leafValInUse rest lvl else none)
      else if k.info.dfltCase == some k2.info.name then leafValInUse rest lvl
      else none
    | _ => none := by rw [leafValInUse.eq_def]; dsimp only; cases k.info.kind <;> rfl

/-- where the level has no data of the schema nodes `sk`, only defaults can be in use -/
theorem leafValInUse_noData (target : Nat) : ∀ (p sk : List STree), Chain target sk p → allBelowL (pathNodeOk target) sk = true →
    ∀ lvl : List DNode, hasData lvl (dataSidsL sk) = false → leafValInUse p lvl = leafValInUse p []
  | [], _, h, _, _, _ => nomatch h
  | [k], sk, h, hw, lvl, hd => by
    have ⟨hk, ht⟩ : k ∈ sk ∧ k.sid = target := by
      cases h with
      | last hk ht => exact ⟨hk, ht⟩
      | step _ hc => nomatch hc
    have hq := (allBelowL_mem _ sk k hw hk).1
    simp only [pathNodeOk, ht, bne_self_eq_false, Bool.false_or, Bool.and_eq_true, beq_iff_eq] at hq
    have hds := dataSids_of_dataNode k (by rw [hq.2]; decide) (by rw [hq.2]; decide)
    have := find?_none_of_noData hd k.sid (dataSids_sub sk k hk _ (by rw [hds]; simp))
    simp only [lvu_single, this, List.find?_nil]
  | k :: k2 :: rest, sk, h, hw, lvl, hd => by
    have ⟨hk, hc⟩ : k ∈ sk ∧ Chain target k.kids (k2 :: rest) := by
      cases h with
      | step hk hc => exact ⟨hk, hc⟩
    have hq := allBelowL_mem _ sk k hw hk
    rw [lvu_cons2, lvu_cons2]
    cases hkind : k.info.kind with
    | container =>
      have hds := dataSids_of_dataNode k (by rw [hkind]; decide) (by rw [hkind]; decide)
      have := find?_none_of_noData hd k.sid (dataSids_sub sk k hk _ (by rw [hds]; simp))
      simp only [this, List.find?_nil]
    | choice =>
      have hds := dataSids_inner k (Or.inl hkind)
      have hdk : hasData lvl k.dataSids = false := hasData_false_sub hd (dataSids_sub sk k hk)
      have hd0 : ∀ ds, hasData ([] : List DNode) ds = false := fun _ => rfl
      simp only [hdk, hd0, Bool.false_eq_true, if_false]
      split
      · cases hc with
        | last _ _ => simp only [lvu_nil]
        | step hk2 hc2 =>
          have hcase : k2.info.kind = .case := by
            have := hq.1
            simp only [pathNodeOk, choiceOk, hkind, bne_self_eq_false, Bool.false_or, Bool.and_eq_true, List.all_eq_true,
              beq_iff_eq] at this
            exact this.1 k2 hk2
          have hds2 := dataSids_inner k2 (Or.inr hcase)
          refine leafValInUse_noData target rest k2.kids hc2 (allBelowL_mem _ _ k2 hq.2 hk2).2 lvl ?_
          rw [← hds2]
          exact hasData_false_sub hdk (by rw [hds]; exact dataSids_sub _ k2 hk2)
      · rfl
    | leaf => rfl
    | leaflist => rfl
    | list => rfl
    | case => rfl

/-- counterpart nodes: same schema node, same value, reordered children -/
def NodeRelT (S : Schema) (a b : DNode) : Prop := a.sid = b.sid ∧ a.val = b.val ∧ TreePerm S a.kids b.kids

theorem TreePerm.listRelT {S : Schema} {E E' : List DNode} (h : TreePerm S E E') : ListRel (NodeRelT S) E E' := by
  have hr : ∀ a, NodeRelT S a a := fun a => ⟨rfl, rfl, .refl _⟩
  induction h with
  | refl l => exact ListRel.refl hr l
  | swap a b l _ _ => exact ListRel.swap hr a b l
  | cons a _ ih => exact ListRel.cons (hr a) ih
  | kids s f m l hks _ => exact ListRel.cons ⟨rfl, rfl, hks⟩ (ListRel.refl hr l)
  | trans _ _ ih1 ih2 =>
    exact ListRel.trans (fun a b c h1 h2 => ⟨h1.1.trans h2.1, h1.2.1.trans h2.2.1, h1.2.2.trans h2.2.2⟩) ih1 ih2

/-- with at most one instance, `find?` on related sibling lists finds related nodes -/
theorem find?_rel {R : DNode → DNode → Prop} (hR : ∀ a b, R a b → a.sid = b.sid) {lvl lvl' : List DNode}
    (h : ListRel R lvl lvl') (s : Nat) (hl : (instsOf lvl s).length ≤ 1) :
    (lvl.find? (·.sid == s) = none ∧ lvl'.find? (·.sid == s) = none) ∨
    ∃ a b, lvl.find? (·.sid == s) = some a ∧ lvl'.find? (·.sid == s) = some b ∧ R a b ∧ a ∈ instsOf lvl s := by
  have hI : ListRel R (instsOf lvl s) (instsOf lvl' s) := h.filter _ (fun a b r => by rw [hR a b r])
  rw [← List.head?_filter, ← List.head?_filter]
  unfold instsOf at hl hI ⊢
  obtain ⟨M, pm, f⟩ := hI
  generalize List.filter (fun x => x.sid == s) lvl = I at *
  generalize List.filter (fun x => x.sid == s) lvl' = I' at *
  match I, hl, pm with
  | [], _, pm =>
    rw [List.nil_perm] at pm
    subst pm
    cases f
    exact Or.inl ⟨rfl, rfl⟩
  | [a], _, pm =>
    rw [List.singleton_perm] at pm
    subst pm
    cases f with
    | cons r t =>
      cases t
      exact Or.inr ⟨a, _, rfl, rfl, r, List.mem_singleton.2 rfl⟩
  | _ :: _ :: _, hl, _ => simp at hl

theorem not_mem_specNode_of_specL {X : SchemaX} {o : VOpts} {K : EKind} : ∀ {sk : List STree} {k : STree} {E : List DNode},
    k ∈ sk → K ∉ specL X o sk E → K ∉ specNode X o k E
  | [], _, _, hk, _ => by cases hk
  | t :: ts, k, E, hk, h => by
    unfold specL at h
    simp only [List.mem_append, not_or] at h
    rcases List.mem_cons.1 hk with rfl | hk
    · exact h.1
    · exact not_mem_specNode_of_specL hk h.2

theorem not_mem_specCases {X : SchemaX} {o : VOpts} {K : EKind} : ∀ {sk : List STree} {k : STree} {E : List DNode},
    k ∈ sk → hasData E k.dataSids = true → K ∉ specCases X o sk E → K ∉ specNode X o k E
  | [], _, _, hk, _, _ => by cases hk
  | t :: ts, k, E, hk, hd, h => by
    unfold specCases at h
    simp only [List.mem_append, not_or] at h
    rcases List.mem_cons.1 hk with rfl | hk
    · have := h.1
      rwa [if_pos hd] at this
    · exact not_mem_specCases hk hd h.2

theorem specNode_leaf_dup {X : SchemaX} {o : VOpts} {k : STree} {E : List DNode} (hk : k.info.kind = .leaf)
    (h : EKind.dup ∉ specNode X o k E) : (instsOf E k.sid).length ≤ 1 := by
  cases k with
  | mk s i ks =>
    simp only [STree.info] at hk
    unfold specNode at h
    simp only [hk, List.mem_append, not_or] at h
    have := h.1.1.2
    simp only [STree.sid]
    by_cases hl : (instsOf E s).length > 1
    · simp [hl] at this
    · omega

theorem specNode_container_dup {X : SchemaX} {o : VOpts} {k : STree} {E : List DNode} (hk : k.info.kind = .container)
    (h : EKind.dup ∉ specNode X o k E) :
    (instsOf E k.sid).length ≤ 1 ∧ ∀ a ∈ instsOf E k.sid, EKind.dup ∉ specL X o k.kids a.kids := by
  cases k with
  | mk s i ks =>
    simp only [STree.info] at hk
    unfold specNode at h
    simp only [hk, List.mem_append, not_or] at h
    simp only [STree.sid, STree.kids]
    constructor
    · have := h.1.2
      by_cases hl : (instsOf E s).length > 1
      · simp [hl] at this
      · omega
    · intro a ha
      have hne : (instsOf E s).isEmpty = false := by cases hI : instsOf E s <;> simp_all
      have h2 := h.2
      simp only [hne, Bool.false_eq_true, if_false, ite_self, List.mem_flatMap, not_exists, not_and] at h2
      exact h2 a ha

theorem specNode_choice_dup {X : SchemaX} {o : VOpts} {k cs : STree} {E : List DNode} (hk : k.info.kind = .choice)
    (hcs : cs ∈ k.kids) (hc : cs.info.kind = .case) (hd : hasData E cs.dataSids = true)
    (h : EKind.dup ∉ specNode X o k E) : EKind.dup ∉ specL X o cs.kids E := by
  cases k with
  | mk s i ks =>
    simp only [STree.info] at hk
    simp only [STree.kids] at hcs
    unfold specNode at h
    simp only [hk, List.mem_append, not_or] at h
    have := not_mem_specCases hcs hd h.2
    cases cs with
    | mk s' i' ks' =>
      simp only [STree.info] at hc
      unfold specNode at this
      simpa only [hc, STree.kids] using this

/-- **the value a `unique` statement compares does not depend on the order inside an entry that has no duplicates** -/
theorem leafValInUse_perm (X : SchemaX) (o : VOpts) (target : Nat) : ∀ (p sk : List STree), Chain target sk p →
    allBelowL (pathNodeOk target) sk = true → ∀ lvl lvl' : List DNode, TreePerm X.base lvl lvl' →
    EKind.dup ∉ specL X o sk lvl → leafValInUse p lvl = leafValInUse p lvl'
  | [], _, h, _, _, _, _, _ => nomatch h
  | [k], sk, h, hw, lvl, lvl', hp, hdup => by
    have ⟨hk, ht⟩ : k ∈ sk ∧ k.sid = target := by
      cases h with
      | last hk ht => exact ⟨hk, ht⟩
      | step _ hc => nomatch hc
    have hq := (allBelowL_mem _ sk k hw hk).1
    simp only [pathNodeOk, ht, bne_self_eq_false, Bool.false_or, Bool.and_eq_true, beq_iff_eq] at hq
    have hlen := specNode_leaf_dup hq.2 (not_mem_specNode_of_specL hk hdup)
    rw [lvu_single, lvu_single]
    rcases find?_rel (fun a b r => r.1) hp.listRelT k.sid hlen with ⟨h1, h2⟩ | ⟨a, b, h1, h2, r, _⟩
    · rw [h1, h2]
    · rw [h1, h2]; simp only [r.2.1]
  | k :: k2 :: rest, sk, h, hw, lvl, lvl', hp, hdup => by
    have ⟨hk, hc⟩ : k ∈ sk ∧ Chain target k.kids (k2 :: rest) := by
      cases h with
      | step hk hc => exact ⟨hk, hc⟩
    have hq := allBelowL_mem _ sk k hw hk
    have hdk := not_mem_specNode_of_specL hk hdup
    have hd : ∀ ds, hasData lvl ds = hasData lvl' ds := fun ds => hp.listRelT.any_eq _ (fun a b r => by simp only [inSids, r.1])
    rw [lvu_cons2, lvu_cons2]
    cases hkind : k.info.kind with
    | container =>
      have ⟨hlen, hin⟩ := specNode_container_dup hkind hdk
      simp only
      rcases find?_rel (fun a b r => r.1) hp.listRelT k.sid hlen with ⟨h1, h2⟩ | ⟨a, b, h1, h2, r, ha⟩
      · rw [h1, h2]
      · rw [h1, h2]
        exact leafValInUse_perm X o target (k2 :: rest) k.kids hc hq.2 a.kids b.kids r.2.2 (hin a ha)
    | choice =>
      simp only [← hd]
      by_cases hdk' : hasData lvl k.dataSids = true
      · simp only [hdk', if_true]
        by_cases hd2 : hasData lvl k2.dataSids = true
        · simp only [hd2, if_true]
          cases hc with
          | last _ _ => simp only [lvu_nil]
          | step hk2 hc2 =>
            have hcase : k2.info.kind = .case := by
              have := hq.1
              simp only [pathNodeOk, choiceOk, hkind, bne_self_eq_false, Bool.false_or, Bool.and_eq_true, List.all_eq_true,
                beq_iff_eq] at this
              exact this.1 k2 hk2
            exact leafValInUse_perm X o target rest k2.kids hc2 (allBelowL_mem _ _ k2 hq.2 hk2).2 lvl lvl' hp
              (specNode_choice_dup hkind hk2 hcase hd2 hdk)
        · simp only [hd2, Bool.false_eq_true, if_false]
      · simp only [hdk', Bool.false_eq_true, if_false]
        split
        · cases hc with
          | last _ _ => simp only [lvu_nil]
          | step hk2 hc2 =>
            have hcase : k2.info.kind = .case := by
              have := hq.1
              simp only [pathNodeOk, choiceOk, hkind, bne_self_eq_false, Bool.false_or, Bool.and_eq_true, List.all_eq_true,
                beq_iff_eq] at this
              exact this.1 k2 hk2
            have hds := dataSids_inner k (Or.inl hkind)
            have hds2 := dataSids_inner k2 (Or.inr hcase)
            have hf : hasData lvl (dataSidsL k2.kids) = false := by
              rw [← hds2]
              exact hasData_false_sub (Bool.eq_false_iff.2 hdk') (by rw [hds]; exact dataSids_sub _ k2 hk2)
            have hw2 := (allBelowL_mem _ _ k2 hq.2 hk2).2
            rw [leafValInUse_noData target rest k2.kids hc2 hw2 lvl hf,
              leafValInUse_noData target rest k2.kids hc2 hw2 lvl' (by rw [← hd]; exact hf)]
        · rfl
    | leaf => rfl
    | leaflist => rfl
    | list => rfl
    | case => rfl

theorem mapM_option_congr {α β : Type} {f g : α → Option β} : ∀ (l : List α), (∀ x ∈ l, f x = g x) → l.mapM f = l.mapM g
  | [], _ => rfl
  | x :: xs, h => by
    simp only [List.mapM_cons, h x List.mem_cons_self, mapM_option_congr xs (fun y hy => h y (List.mem_cons_of_mem _ hy))]

theorem specTuple_perm (X : SchemaX) (o : VOpts) (lst : STree) (u : List Nat)
    (hw : ∀ leaf ∈ u, allBelowL (pathNodeOk leaf) lst.kids = true) (a b : DNode) (hp : TreePerm X.base a.kids b.kids)
    (hdup : EKind.dup ∉ specL X o lst.kids a.kids) : specTuple lst u a = specTuple lst u b := by
  unfold specTuple
  refine mapM_option_congr u (fun leaf hl => ?_)
  cases hpt : pathTo (u.length + 64) lst.kids leaf with
  | none => rfl
  | some p => exact leafValInUse_perm X o leaf p lst.kids (pathTo_chain _ _ _ _ hpt) (hw leaf hl) _ _ hp hdup

/-! ## `noUniq` on related sibling lists, the first of them without duplicates -/

/-- the leaves of the `unique` statements of a list are leaves, and the choices on the way to them hold cases only -/
def uniqTargetsOk (X : SchemaX) (k : STree) : Bool :=
  (X.uniquesOf k.sid).all fun u => u.all fun leaf => allBelowL (pathNodeOk leaf) k.kids

structure NodeRelU (X : SchemaX) (o : VOpts) (a b : DNode) : Prop where
  t : NodeRelT X.base a b
  spec : ∀ sk, allBelowL (uniqTargetsOk X) sk = true → EKind.dup ∉ specL X o sk a.kids →
    (EKind.noUniq ∈ specL X o sk a.kids ↔ EKind.noUniq ∈ specL X o sk b.kids)

theorem NodeRelU.refl (X : SchemaX) (o : VOpts) (a : DNode) : NodeRelU X o a a := ⟨⟨rfl, rfl, .refl _⟩, fun _ _ _ => Iff.rfl⟩

theorem NodeRelU.trans (X : SchemaX) (o : VOpts) (a b c : DNode) (h1 : NodeRelU X o a b) (h2 : NodeRelU X o b c) :
    NodeRelU X o a c := by
  refine ⟨⟨h1.t.1.trans h2.t.1, h1.t.2.1.trans h2.t.2.1, h1.t.2.2.trans h2.t.2.2⟩, fun sk hw hd => ?_⟩
  have hd' : EKind.dup ∉ specL X o sk b.kids :=
    fun hm => hd ((specL_mem_perm X o sk .dup (by decide) (by decide) h1.t.2.2).2 hm)
  exact (h1.spec sk hw hd).trans (h2.spec sk hw hd')

theorem F2.and_left {α : Type} {R : α → α → Prop} {Q : α → Prop} {l l' : List α} (h : F2 R l l') (hq : ∀ a ∈ l, Q a) :
    F2 (fun a b => R a b ∧ Q a) l l' := by
  induction h with
  | nil => exact .nil
  | cons r _ ih => exact .cons ⟨r, hq _ List.mem_cons_self⟩ (ih (fun a ha => hq a (List.mem_cons_of_mem _ ha)))

theorem ListRel.and_left {α : Type} {R : α → α → Prop} {Q : α → Prop} {l l' : List α} (h : ListRel R l l') (hq : ∀ a ∈ l, Q a) :
    ListRel (fun a b => R a b ∧ Q a) l l' := by
  obtain ⟨M, p, f⟩ := h
  exact ⟨M, p, f.and_left (fun a ha => hq a (p.mem_iff.2 ha))⟩

theorem pairwiseNe_map_fn {α β : Type} (eq : β → β → Bool) (f : α → β) : ∀ l : List α,
    pairwiseNe eq (l.map f) = pairwiseNe (fun a b => eq (f a) (f b)) l
  | [] => rfl
  | x :: xs => by simp only [List.map_cons, pairwiseNe, List.all_map, pairwiseNe_map_fn eq f xs, Function.comp_def]

theorem all_congr_mem {α : Type} {f g : α → Bool} : ∀ (l : List α), (∀ x ∈ l, f x = g x) → l.all f = l.all g
  | [], _ => rfl
  | x :: xs, h => by
    simp only [List.all_cons, h x List.mem_cons_self, all_congr_mem xs (fun y hy => h y (List.mem_cons_of_mem _ hy))]

theorem tupleEq_symm (a b : Option (List Bytes)) : (a.isSome && a == b) = (b.isSome && b == a) := by
  by_cases h : a = b
  · subst h; rfl
  · have h' : ¬ b = a := fun e => h e.symm
    rw [beq_eq_false_iff_ne.2 h, beq_eq_false_iff_ne.2 h', Bool.and_false, Bool.and_false]

theorem not_mem_flatMap_elim {α : Type} {K : EKind} {l : List α} {f : α → List EKind} (h : K ∉ l.flatMap f) :
    ∀ a ∈ l, K ∉ f a := fun a ha hm => h (List.mem_flatMap.2 ⟨a, ha, hm⟩)

mutual
theorem specNode_relU (X : SchemaX) (o : VOpts) : ∀ (k : STree) (E E' : List DNode), allBelow (uniqTargetsOk X) k = true →
    ListRel (NodeRelU X o) E E' → EKind.dup ∉ specNode X o k E →
    (EKind.noUniq ∈ specNode X o k E ↔ EKind.noUniq ∈ specNode X o k E')
  | .mk s i ks, E, E', hw, h, hdup => by
    unfold allBelow at hw
    simp only [Bool.and_eq_true] at hw
    have ihL := specL_relU X o ks
    have ihC := specCases_relU X o ks
    have hI : ListRel (NodeRelU X o) (instsOf E s) (instsOf E' s) := h.filter _ (fun a b r => by rw [r.t.1])
    have hlen := hI.length_eq
    have hemp := hI.isEmpty_eq
    have hfm : EKind.dup ∉ (instsOf E s).flatMap (fun e => specL X o ks e.kids) →
        (EKind.noUniq ∈ (instsOf E s).flatMap (fun e => specL X o ks e.kids) ↔
          EKind.noUniq ∈ (instsOf E' s).flatMap (fun e => specL X o ks e.kids)) := fun hd =>
      (hI.and_left (Q := fun a => EKind.dup ∉ specL X o ks a.kids) (not_mem_flatMap_elim hd)).mem_flatMap EKind.noUniq _
        (fun a b r => r.1.spec ks hw.2 r.2)
    have hty : (instsOf E s).all (fun n => typeOk i.ty n.val) = (instsOf E' s).all (fun n => typeOk i.ty n.val) :=
      hI.all_eq _ (fun a b r => by rw [r.t.2.1])
    have hd : ∀ ds, hasData E ds = hasData E' ds := fun ds => h.any_eq _ (fun a b r => by simp only [inSids, r.t.1])
    unfold specNode at hdup ⊢
    cases hkind : i.kind with
    | leaf => simp only [hlen, hemp, hty]
    | leaflist =>
      have hpw : pairwiseNe (fun a b : DNode => a.val == b.val) (instsOf E s) = pairwiseNe (fun a b : DNode => a.val == b.val) (instsOf E' s) :=
        hI.pairwiseNe_eq _ (fun a b => by simp only [Bool.beq_comm]) (fun a b c d r r' => by simp only [r.t.2.1, r'.t.2.1])
      simp only [hlen, hemp, hty, hpw]
    | container =>
      simp only [hkind, List.mem_append, not_or] at hdup
      have hd2 := hdup.2
      simp only [hlen, hemp]
      refine mem_append_congr Iff.rfl ?_
      by_cases hp : i.presence = true
      · simp only [hp, if_true] at hd2 ⊢
        exact hfm hd2
      · simp only [hp, Bool.false_eq_true, if_false] at hd2 ⊢
        by_cases he : (instsOf E' s).isEmpty = true
        · simp only [he, if_true]
        · simp only [hemp, he, Bool.false_eq_true, if_false] at hd2 ⊢
          exact hfm hd2
    | list =>
      simp only [hkind, List.mem_append, not_or] at hdup
      have hq := not_mem_flatMap_elim hdup.2
      have hI2 := hI.and_left (Q := fun a => EKind.dup ∉ specL X o ks a.kids) hq
      have hu : (X.uniquesOf s).all (fun u => uniqueOk (.mk s i ks) u (instsOf E s)) =
          (X.uniquesOf s).all (fun u => uniqueOk (.mk s i ks) u (instsOf E' s)) := by
        refine all_congr_mem _ (fun u hu => ?_)
        have hwu : ∀ leaf ∈ u, allBelowL (pathNodeOk leaf) ks = true := by
          have := hw.1
          simp only [uniqTargetsOk, List.all_eq_true, STree.sid, STree.kids] at this
          exact this u hu
        have hst : ∀ a b, NodeRelU X o a b ∧ EKind.dup ∉ specL X o ks a.kids →
            specTuple (.mk s i ks) u a = specTuple (.mk s i ks) u b :=
          fun a b r => specTuple_perm X o (.mk s i ks) u hwu a b r.1.t.2.2 r.2
        unfold uniqueOk
        rw [pairwiseNe_map_fn, pairwiseNe_map_fn]
        exact hI2.pairwiseNe_eq _ (fun a b => tupleEq_symm _ _) (fun a b c d r r' => by rw [hst a b r, hst c d r'])
      simp only [hlen, hemp, hu]
      refine mem_append_congr (mem_append_congr (mem_append_congr (mem_append_congr (mem_append_congr
        (mem_append_congr Iff.rfl ?_) ?_) Iff.rfl) Iff.rfl) Iff.rfl) (hfm hdup.2)
      · exact mem_ite_single_ne (by decide) _ _
      · constructor <;> (intro hm; split at hm <;> simp at hm)
    | choice =>
      simp only [hkind, List.mem_append, not_or] at hdup
      simp only [hd]
      exact mem_append_congr Iff.rfl (ihC E E' hw.2 h hdup.2)
    | case =>
      simp only [hkind] at hdup
      exact ihL E E' hw.2 h hdup
theorem specL_relU (X : SchemaX) (o : VOpts) : ∀ (sk : List STree) (E E' : List DNode), allBelowL (uniqTargetsOk X) sk = true →
    ListRel (NodeRelU X o) E E' → EKind.dup ∉ specL X o sk E →
    (EKind.noUniq ∈ specL X o sk E ↔ EKind.noUniq ∈ specL X o sk E')
  | [], _, _, _, _, _ => by simp [specL]
  | k :: ks, E, E', hw, h, hdup => by
    unfold allBelowL at hw
    simp only [Bool.and_eq_true] at hw
    unfold specL at hdup ⊢
    simp only [List.mem_append, not_or] at hdup
    exact mem_append_congr (specNode_relU X o k E E' hw.1 h hdup.1) (specL_relU X o ks E E' hw.2 h hdup.2)
theorem specCases_relU (X : SchemaX) (o : VOpts) : ∀ (sk : List STree) (E E' : List DNode), allBelowL (uniqTargetsOk X) sk = true →
    ListRel (NodeRelU X o) E E' → EKind.dup ∉ specCases X o sk E →
    (EKind.noUniq ∈ specCases X o sk E ↔ EKind.noUniq ∈ specCases X o sk E')
  | [], _, _, _, _, _ => by simp [specCases]
  | k :: ks, E, E', hw, h, hdup => by
    unfold allBelowL at hw
    simp only [Bool.and_eq_true] at hw
    have hd : hasData E k.dataSids = hasData E' k.dataSids := h.any_eq _ (fun a b r => by simp only [inSids, r.t.1])
    unfold specCases at hdup ⊢
    simp only [List.mem_append, not_or] at hdup
    rw [← hd]
    refine mem_append_congr ?_ (specCases_relU X o ks E E' hw.2 h hdup.2)
    by_cases hh : hasData E k.dataSids = true
    · simp only [hh, if_true] at hdup ⊢
      exact specNode_relU X o k E E' hw.1 h hdup.1
    · simp only [hh, Bool.false_eq_true, if_false]
end

theorem TreePerm.listRelU (X : SchemaX) (o : VOpts) {E E' : List DNode} (h : TreePerm X.base E E') :
    ListRel (NodeRelU X o) E E' := by
  induction h with
  | refl l => exact ListRel.refl (NodeRelU.refl X o) l
  | swap a b l _ _ => exact ListRel.swap (NodeRelU.refl X o) a b l
  | cons a _ ih => exact ListRel.cons (NodeRelU.refl X o a) ih
  | kids s f m l hks ih =>
    exact ListRel.cons ⟨⟨rfl, rfl, hks⟩, fun sk hw hd => specL_relU X o sk _ _ hw ih hd⟩ (ListRel.refl (NodeRelU.refl X o) l)
  | trans _ _ ih1 ih2 => exact ListRel.trans (NodeRelU.trans X o) ih1 ih2

/-- decidable schema hypothesis of the `unique` part: every leaf a `unique` statement names is a leaf, and every choice between the
list and such a leaf has only cases as children (true of every compiled schema) -/
def UniqueWF (X : SchemaX) : Prop := allBelowL (uniqTargetsOk X) X.top = true

instance (X : SchemaX) : Decidable (UniqueWF X) := by unfold UniqueWF; exact inferInstance

theorem violations_noUniq_perm (X : SchemaX) (o : VOpts) (hW : UniqueWF X) {t t' : List DNode} (h : TreePerm X.base t t')
    (hdup : EKind.dup ∉ violations X o t) : EKind.noUniq ∈ violations X o t ↔ EKind.noUniq ∈ violations X o t' := by
  unfold violations explicitPart at hdup ⊢
  rw [← h.isEmpty_eq, ← dfltStateL_perm h]
  by_cases hc : (o.present && t.isEmpty) = true
  · simp only [hc, if_true]
  · simp only [hc, Bool.false_eq_true, if_false, List.mem_append, not_or] at hdup ⊢
    rw [specL_relU X o X.top _ _ hW ((explicitL_perm h).listRelU X o) hdup.1]

/-- **validity does not depend on the order of the siblings, `unique` statements included**: inside a valid tree no leaf on the
path of a `unique` statement has two instances, so the values compared are the same whatever the order -/
theorem valid_perm (X : SchemaX) (o : VOpts) (hW : UniqueWF X) {t t' : List DNode} (hv : Valid X o t) (h : TreePerm X.base t t')
    (hk : .noKey ∉ violations X o t') : Valid X o t' := by
  rw [valid_iff_forall] at hv ⊢
  intro K
  by_cases h1 : K = .noKey
  · subst h1; exact hk
  · by_cases h2 : K = .noUniq
    · subst h2
      exact fun hm => hv _ ((violations_noUniq_perm X o hW h (hv _)).2 hm)
    · exact fun hm => hv K ((violations_mem_perm X o K h1 h2 h).2 hm)

/-- the same as an equivalence, for a schema whose list keys come first -/
theorem valid_perm_keysFirst (X : SchemaX) (o : VOpts) (hW : UniqueWF X) (hS : KeysFirst X.base) {t t' : List DNode}
    (h : TreePerm X.base t t') : Valid X o t ↔ Valid X o t' :=
  ⟨fun hv => valid_perm X o hW hv h (fun hm => (valid_iff_forall X o t).1 hv _ ((violations_noKey_perm X o hS h).2 hm)),
   fun hv => valid_perm X o hW hv h.symm
     (fun hm => (valid_iff_forall X o t').1 hv _ ((violations_noKey_perm X o hS h.symm).2 hm))⟩

end LyModel.Valid
