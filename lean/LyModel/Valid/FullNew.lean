import LyModel.Valid.FullDefs
import LyModel.Valid.LemmasCasesFix
/-!
# `lyd_validate_new` on freshly built siblings over the full schema language; `dupCaseL` against the specification

* `choiceRL_fresh`: on siblings all of which are new, `lyd_validate_choice_r` deletes nothing, logs only `DupCase` errors, and logs
  none iff no choice of the level (searched through all cases) has data of two cases (`dupCaseL`).
* `validateNew_fresh_full`: `validateNew_fresh` (LemmasIff.lean) without the `noChoiceTop` hypothesis.
* `dupCaseL_iff_card`: `dupCaseL` = the `DupCase` constraint of the level-local specification `cardL`.
-/
namespace LyModel.Valid
open LyModel LyModel.Tree

/-! ## the case scan on all-new siblings -/

theorem caseFound_fresh (sibs : List DNode) (c : STree) (hnew : ∀ n ∈ sibs, n.flags.new = true) :
    caseFound sibs c = if c.dataSids.any (hasInst sibs) then 2 else 0 := by
  rw [← hasData_eq_any]
  unfold caseFound hasData
  dsimp only
  by_cases hany : (sibs.filter (inSids c.dataSids)).any (·.flags.new) = true
  · obtain ⟨n, hn, _⟩ := List.any_eq_true.1 hany
    have := List.mem_filter.1 hn
    rw [if_pos hany, if_pos (List.any_eq_true.2 ⟨n, this.1, this.2⟩)]
  · have hemp : sibs.filter (inSids c.dataSids) = [] := by
      apply List.eq_nil_iff_forall_not_mem.2
      intro n hn
      apply hany
      exact List.any_eq_true.2 ⟨n, hn, hnew n (List.mem_filter.1 hn).1⟩
    have hno : ¬ sibs.any (inSids c.dataSids) = true := by
      intro h
      obtain ⟨n, hn, hp⟩ := List.any_eq_true.1 h
      have : n ∈ sibs.filter (inSids c.dataSids) := List.mem_filter.2 ⟨hn, hp⟩
      rw [hemp] at this
      cases this
    rw [if_neg hany, if_neg hno, hemp]
    rfl

/-- on all-new siblings no case has only old data -/
theorem scanCases_fresh (sibs : List DNode) (hnew : ∀ n ∈ sibs, n.flags.new = true) : ∀ (cases : List STree) (new : Option STree),
    scanCases sibs cases none new = none ∨ ∃ new', scanCases sibs cases none new = some (none, new') := by
  intro cases
  induction cases with
  | nil => intro new; exact Or.inr ⟨new, by rw [scanCases]⟩
  | cons c rest ih =>
    intro new
    rw [scanCases]
    have hf := caseFound_fresh sibs c hnew
    split
    · rename_i h
      rw [h] at hf
      split at hf <;> omega
    · split
      · exact Or.inl rfl
      · exact ih _
    · exact ih _

/-- on all-new siblings the scan fails iff two cases have data -/
theorem scanCases_fresh_none_iff (sibs : List DNode) (cases : List STree) (hnew : ∀ n ∈ sibs, n.flags.new = true) :
    scanCases sibs cases none none = none ↔ 1 < (cases.filter fun cs => cs.dataSids.any (hasInst sibs)).length := by
  rw [scanCases_none_iff]
  have h1 : (cases.filter (fun c => caseFound sibs c == 1)) = [] := by
    apply List.filter_eq_nil_iff.2
    intro c _
    rw [caseFound_fresh sibs c hnew]
    split <;> simp
  have h2 : (cases.filter (fun c => caseFound sibs c == 2)) = cases.filter (fun c => c.dataSids.any (hasInst sibs)) := by
    apply List.filter_congr
    intro c _
    rw [caseFound_fresh sibs c hnew]
    split <;> simp_all
  rw [h1, h2]
  simp only [optCount, Option.isSome_none, Bool.false_eq_true, if_false, List.length_nil]
  omega

theorem Out.err_errs (k : EKind) (p : Bytes) : (Out.err k p).errs = [{ kind := k, path := p }] := rfl

theorem casesStep_fresh (X : SchemaX) (cx : Cx) (choice : STree) (sibs : List DNode) (hnew : ∀ n ∈ sibs, n.flags.new = true) :
    (casesStep X cx choice sibs).1 = sibs ∧ (casesStep X cx choice sibs).2.evs = [] ∧
    (∀ e ∈ (casesStep X cx choice sibs).2.errs, e.kind = .dupCase) ∧
    ((casesStep X cx choice sibs).2.errs = [] ↔
      decide (1 < (choice.kids.filter fun cs => cs.dataSids.any (hasInst sibs)).length) = false) := by
  have hiff := scanCases_fresh_none_iff sibs choice.kids hnew
  unfold casesStep
  rcases scanCases_fresh sibs hnew choice.kids none with h | ⟨new', h⟩
  · rw [h]
    refine ⟨rfl, rfl, ?_, ?_⟩
    · intro e he
      rw [Out.err_errs, List.mem_singleton] at he
      rw [he]
    · rw [Out.err_errs]
      have := hiff.1 h
      simp [this]
  · have hne : ¬ 1 < (choice.kids.filter fun cs => cs.dataSids.any (hasInst sibs)).length := by
      intro hc
      have := hiff.2 hc
      rw [h] at this
      cases this
    rw [h]
    refine ⟨rfl, rfl, ?_, ?_⟩
    · intro e he; simp at he
    · simp [hne]

/-! ## `lyd_validate_choice_r` on all-new siblings -/

/-- nothing deleted, no events, only `DupCase` errors, none iff `b` is false -/
def FreshR (sibs : List DNode) (r : List DNode × Out) (b : Bool) : Prop :=
  r.1 = sibs ∧ r.2.evs = [] ∧ (∀ e ∈ r.2.errs, e.kind = .dupCase) ∧ (r.2.errs = [] ↔ b = false)

theorem FreshR.nil (sibs : List DNode) : FreshR sibs (sibs, {}) false :=
  ⟨rfl, rfl, fun e he => by simp at he, by simp⟩

theorem FreshR.seq {sibs : List DNode} {r1 r2 : List DNode × Out} {b1 b2 : Bool} (h1 : FreshR sibs r1 b1) (h2 : FreshR sibs r2 b2) :
    FreshR sibs (r2.1, r1.2 ++ r2.2) (b1 || b2) := by
  obtain ⟨a1, a2, a3, a4⟩ := h1
  obtain ⟨c1, c2, c3, c4⟩ := h2
  refine ⟨c1, ?_, ?_, ?_⟩
  · show (r1.2 ++ r2.2).evs = []
    rw [Out.append_evs, a2, c2]; rfl
  · intro e he
    have he' : e ∈ (r1.2 ++ r2.2).errs := he
    rw [Out.append_errs, List.mem_append] at he'
    rcases he' with he' | he'
    · exact a3 e he'
    · exact c3 e he'
  · show (r1.2 ++ r2.2).errs = [] ↔ _
    rw [Out.append_errs, List.append_eq_nil_iff, a4, c4, Bool.or_eq_false_iff]

mutual
/-- without data nothing is a case conflict -/
theorem dupCase_noData_T (H : Nat → Bool) (hH : ∀ s, H s = false) : ∀ (t : STree), dupCaseT H t = false ∧ dupCaseK H t = false
  | .mk s i ks => by
    have ih := dupCase_noData_L H hH ks
    constructor
    · rw [dupCaseT, ih.2]
      have : (ks.filter fun cs => cs.dataSids.any H) = [] := by
        apply List.filter_eq_nil_iff.2
        intro c _
        simp [hH]
      simp [this]
    · rw [dupCaseK]; exact ih.1
theorem dupCase_noData_L (H : Nat → Bool) (hH : ∀ s, H s = false) : ∀ (ks : List STree), dupCaseL H ks = false ∧ dupCaseCs H ks = false
  | [] => by rw [dupCaseL, dupCaseCs]; exact ⟨rfl, rfl⟩
  | k :: rest => by
    have ihT := dupCase_noData_T H hH k
    have ihL := dupCase_noData_L H hH rest
    rw [dupCaseL, dupCaseCs, ihT.1, ihT.2, ihL.1, ihL.2]
    exact ⟨rfl, rfl⟩
end

mutual
theorem choiceR_fresh_T (X : SchemaX) (cx : Cx) : ∀ (t : STree) (sibs : List DNode), (∀ n ∈ sibs, n.flags.new = true) →
    (∀ n ∈ sibs, n.flags.dflt = false) →
    FreshR sibs (choiceRNode X cx t sibs) (dupCaseT (hasInst sibs) t) ∧
    FreshR sibs (choiceRCase X cx t sibs) (dupCaseK (hasInst sibs) t)
  | .mk s i ks, sibs, hn, hd => by
    have ihL := choiceR_fresh_L X cx ks sibs hn hd
    constructor
    · rw [choiceRNode]
      split
      · rename_i hk
        split
        · rename_i he
          have hs : sibs = [] := List.isEmpty_iff.1 he
          subst hs
          rw [(dupCase_noData_T (hasInst []) (fun _ => rfl) (.mk s i ks)).1]
          exact FreshR.nil []
        · obtain ⟨c1, c2, c3, c4⟩ := casesStep_fresh X cx (.mk s i ks) sibs hn
          dsimp only
          rw [casesStepQ_fresh X cx _ sibs hn hd, c1, dupCaseT, hk, Bool.true_and]
          exact FreshR.seq (r1 := casesStep X cx (.mk s i ks) sibs) ⟨c1, c2, c3, c4⟩ ihL.2
      · rename_i hk
        rw [dupCaseT]
        have : (i.kind == SKind.choice) = false := by simpa using hk
        rw [this, Bool.false_and]
        exact FreshR.nil sibs
    · rw [choiceRCase, dupCaseK]
      exact ihL.1
theorem choiceR_fresh_L (X : SchemaX) (cx : Cx) : ∀ (ks : List STree) (sibs : List DNode), (∀ n ∈ sibs, n.flags.new = true) →
    (∀ n ∈ sibs, n.flags.dflt = false) →
    FreshR sibs (choiceRL X cx ks sibs) (dupCaseL (hasInst sibs) ks) ∧
    FreshR sibs (choiceRCases X cx ks sibs) (dupCaseCs (hasInst sibs) ks)
  | [], sibs, _, _ => by
    rw [choiceRL, choiceRCases, dupCaseL, dupCaseCs]
    exact ⟨FreshR.nil sibs, FreshR.nil sibs⟩
  | k :: rest, sibs, hn, hd => by
    have ihT := choiceR_fresh_T X cx k sibs hn hd
    have ihL := choiceR_fresh_L X cx rest sibs hn hd
    constructor
    · rw [choiceRL, dupCaseL]
      rw [ihT.1.1]
      exact FreshR.seq ihT.1 ihL.1
    · rw [choiceRCases, dupCaseCs]
      rw [ihT.2.1]
      exact FreshR.seq ihT.2 ihL.2
end

/-- **`lyd_validate_choice_r` on freshly built siblings** (all new, none default-flagged; both variants of F321): nothing is deleted, the errors are `DupCase`, there is none iff no choice
of the level, searched through all cases, has data of two cases -/
theorem choiceRL_fresh (X : SchemaX) (cx : Cx) : ∀ (sk : List STree) (sibs : List DNode), (∀ n ∈ sibs, n.flags.new = true) →
    (∀ n ∈ sibs, n.flags.dflt = false) →
    (choiceRL X cx sk sibs).1 = sibs ∧ (choiceRL X cx sk sibs).2.evs = [] ∧ (∀ e ∈ (choiceRL X cx sk sibs).2.errs, e.kind = .dupCase) ∧
    ((choiceRL X cx sk sibs).2.errs = [] ↔ dupCaseL (hasInst sibs) sk = false) :=
  fun sk sibs hn hd => (choiceR_fresh_L X cx sk sibs hn hd).1

/-! ## `lyd_validate_new` on a fresh sibling list, any schema -/

/-- **`lyd_validate_new` on freshly built siblings** (every node `LYD_NEW`, no default flag), without `LYD_VALIDATE_OPERATIONAL`:
`LYD_NEW` is cleared and nothing else changes; no error iff no two siblings are a forbidden pair and no choice of the level has
data of two cases; every error is a `Dup` or a `DupCase` error, and then the corresponding constraint is violated -/
theorem validateNew_fresh_full (X : SchemaX) (o : VOpts) (cx : Cx) (hop : o.operational = false) (ks : List DNode)
    (hf : isFreshL ks = true) :
    (validateNew X o cx ks).1 = ks.map normNew ∧
    ((validateNew X o cx ks).2.errs = [] ↔ NoPair X.base ks ∧ dupCaseL (hasInst ks) (X.kidsOf cx.parent) = false) ∧
    (∀ e ∈ (validateNew X o cx ks).2.errs, (e.kind = .dup ∧ ¬ NoPair X.base ks) ∨
      (e.kind = .dupCase ∧ dupCaseL (hasInst ks) (X.kidsOf cx.parent) = true)) := by
  have hall := (isFreshL_all ks).1 hf
  have hnew : ∀ n ∈ ks, n.flags.new = true := fun n hn => by rw [isFreshN_flags (hall n hn)]
  have hnd : ∀ n ∈ ks, n.flags.dflt = false := fun n hn => by rw [isFreshN_flags (hall n hn)]
  obtain ⟨c1, _, c3, c4⟩ := choiceRL_fresh X cx (X.kidsOf cx.parent) ks hnew hnd
  have hloop := loopErrs_nil_iff X o cx.keysOld hop ks [] hnew
  simp only [List.map_nil, List.not_mem_nil, false_imp_iff, implies_true, true_and] at hloop
  unfold validateNew
  dsimp only
  rw [c1, newLoop_noDflt X o cx.keysOld (ks.length + 1) ks [] none (by omega) (by simpa using hnd)]
  refine ⟨by simp, ?_, ?_⟩
  · rw [Out.append_errs, List.append_eq_nil_iff, c4, hloop]
    exact And.comm
  · intro e he
    rw [Out.append_errs, List.mem_append] at he
    rcases he with he | he
    · right
      refine ⟨c3 e he, ?_⟩
      cases hb : dupCaseL (hasInst ks) (X.kidsOf cx.parent) with
      | true => rfl
      | false =>
        rw [c4.2 hb] at he
        cases he
    · left
      refine ⟨loopErrs_kind X o cx.keysOld ks [] e he, ?_⟩
      intro hnp
      rw [hloop.2 hnp] at he
      cases he

/-! ## `dupCaseL` = the one-case-per-choice constraint of `cardL` -/

theorem filter_hasData_eq (E : List DNode) (ks : List STree) :
    (ks.filter fun cs => hasData E cs.dataSids) = ks.filter fun cs => cs.dataSids.any (hasInst E) := by
  simp only [hasData_eq_any]

theorem cardNode_case (o : VOpts) (E : List DNode) {s : Nat} {i : SNode} {ks : List STree} (hk : i.kind = .case) :
    cardNode o E (.mk s i ks) = cardL o E ks := by
  rw [cardNode]
  simp only [hk]

theorem mem_cardNode_choice (o : VOpts) (E : List DNode) {s : Nat} {i : SNode} {ks : List STree} (hk : i.kind = .choice) :
    EKind.dupCase ∈ cardNode o E (.mk s i ks) ↔
      1 < (ks.filter fun cs => cs.dataSids.any (hasInst E)).length ∨ EKind.dupCase ∈ cardCases o E ks := by
  rw [cardNode]
  simp only [hk, filter_hasData_eq, List.mem_append]
  constructor
  · rintro ((h | h) | h)
    · split at h
      · left; assumption
      · cases h
    · split at h
      · simp at h
      · cases h
    · exact Or.inr h
  · rintro (h | h)
    · left; left; rw [if_pos h]; exact List.mem_singleton.2 rfl
    · exact Or.inr h

theorem not_mem_cardNode_data (o : VOpts) (E : List DNode) {s : Nat} {i : SNode} {ks : List STree} (h1 : i.kind ≠ .choice)
    (h2 : i.kind ≠ .case) : EKind.dupCase ∉ cardNode o E (.mk s i ks) := by
  rw [cardNode]
  cases hk : i.kind with
  | choice => exact absurd hk h1
  | case => exact absurd hk h2
  | leaf => dsimp only; split <;> simp
  | container => simp
  | leaflist =>
    dsimp only
    rw [List.mem_append]
    rintro (h | h) <;> (split at h <;> simp at h)
  | list =>
    dsimp only
    rw [List.mem_append]
    rintro (h | h) <;> (split at h <;> simp at h)

theorem cardL_cons (o : VOpts) (E : List DNode) (k : STree) (ks : List STree) : cardL o E (k :: ks) = cardNode o E k ++ cardL o E ks := by
  rw [cardL]
theorem cardCases_cons (o : VOpts) (E : List DNode) (c : STree) (cs : List STree) :
    cardCases o E (c :: cs) = (if hasData E c.dataSids then cardNode o E c else []) ++ cardCases o E cs := by
  rw [cardCases]

/-- two cases with data: one case with data -/
theorem any_of_filter_pos (H : Nat → Bool) {ks : List STree} (h : 0 < (ks.filter fun cs => cs.dataSids.any H).length) :
    (dataSidsL ks).any H = true := by
  obtain ⟨c, hc⟩ := List.exists_mem_of_length_pos h
  obtain ⟨hc1, hc2⟩ := List.mem_filter.1 hc
  obtain ⟨sid, hs, hH⟩ := List.any_eq_true.1 hc2
  exact List.any_eq_true.2 ⟨sid, dataSids_sub_L hc1 sid hs, hH⟩

mutual
/-- a choice with data of two cases has data: so do the cases around it -/
theorem dupCase_hasData_T (H : Nat → Bool) : ∀ (t : STree), kindsOk t = true →
    (dupCaseT H t = true → t.dataSids.any H = true) ∧ (dupCaseK H t = true → (dataSidsL t.kids).any H = true)
  | .mk s i ks, hk => by
    have hk0 := hk
    rw [kindsOk_mk] at hk
    simp only [Bool.and_eq_true] at hk
    have ihL := dupCase_hasData_L H ks hk.2
    constructor
    · intro h
      rw [dupCaseT] at h
      simp only [Bool.and_eq_true, beq_iff_eq, Bool.or_eq_true, decide_eq_true_eq] at h
      rw [dataSids_choice h.1]
      rcases h.2 with h2 | h2
      · exact any_of_filter_pos H (by omega)
      · exact ihL.2 (choice_cases_kind hk0 h.1) h2
    · intro h
      rw [dupCaseK] at h
      exact ihL.1 h
theorem dupCase_hasData_L (H : Nat → Bool) : ∀ (ks : List STree), kindsOkL ks = true →
    (dupCaseL H ks = true → (dataSidsL ks).any H = true) ∧
    ((∀ c ∈ ks, c.info.kind = .case) → dupCaseCs H ks = true → (dataSidsL ks).any H = true)
  | [], _ => by
    constructor
    · intro h; rw [dupCaseL] at h; cases h
    · intro _ h; rw [dupCaseCs] at h; cases h
  | k :: rest, hk => by
    rw [kindsOkL_cons] at hk
    simp only [Bool.and_eq_true] at hk
    have ihT := dupCase_hasData_T H k hk.1
    have ihL := dupCase_hasData_L H rest hk.2
    rw [dataSidsL_cons, List.any_append, Bool.or_eq_true]
    constructor
    · intro h
      rw [dupCaseL, Bool.or_eq_true] at h
      rcases h with h | h
      · exact Or.inl (ihT.1 h)
      · exact Or.inr (ihL.1 h)
    · intro hc h
      rw [dupCaseCs, Bool.or_eq_true] at h
      rcases h with h | h
      · left
        rw [dataSids_case (hc k (List.mem_cons_self ..))]
        exact ihT.2 h
      · exact Or.inr (ihL.2 (fun c hcm => hc c (List.mem_cons_of_mem _ hcm)) h)
end

mutual
theorem dupCase_imp_card_T (o : VOpts) (E : List DNode) : ∀ (t : STree), kindsOk t = true →
    (dupCaseT (hasInst E) t = true → EKind.dupCase ∈ cardNode o E t) ∧
    (t.info.kind = .case → dupCaseK (hasInst E) t = true → EKind.dupCase ∈ cardNode o E t)
  | .mk s i ks, hk => by
    have hk0 := hk
    rw [kindsOk_mk] at hk
    simp only [Bool.and_eq_true] at hk
    have ihL := dupCase_imp_card_L o E ks hk.2
    constructor
    · intro h
      rw [dupCaseT] at h
      simp only [Bool.and_eq_true, beq_iff_eq, Bool.or_eq_true, decide_eq_true_eq] at h
      rw [mem_cardNode_choice o E h.1]
      rcases h.2 with h2 | h2
      · exact Or.inl h2
      · exact Or.inr (ihL.2 (choice_cases_kind hk0 h.1) h2)
    · intro hc h
      have hc : i.kind = .case := hc
      rw [dupCaseK] at h
      rw [cardNode_case o E hc]
      exact ihL.1 h
theorem dupCase_imp_card_L (o : VOpts) (E : List DNode) : ∀ (ks : List STree), kindsOkL ks = true →
    (dupCaseL (hasInst E) ks = true → EKind.dupCase ∈ cardL o E ks) ∧
    ((∀ c ∈ ks, c.info.kind = .case) → dupCaseCs (hasInst E) ks = true → EKind.dupCase ∈ cardCases o E ks)
  | [], _ => by
    constructor
    · intro h; rw [dupCaseL] at h; cases h
    · intro _ h; rw [dupCaseCs] at h; cases h
  | k :: rest, hk => by
    rw [kindsOkL_cons] at hk
    simp only [Bool.and_eq_true] at hk
    have ihT := dupCase_imp_card_T o E k hk.1
    have ihL := dupCase_imp_card_L o E rest hk.2
    constructor
    · intro h
      rw [dupCaseL, Bool.or_eq_true] at h
      rw [cardL_cons, List.mem_append]
      rcases h with h | h
      · exact Or.inl (ihT.1 h)
      · exact Or.inr (ihL.1 h)
    · intro hc h
      rw [dupCaseCs, Bool.or_eq_true] at h
      rw [cardCases_cons, List.mem_append]
      rcases h with h | h
      · left
        have hkc := hc k (List.mem_cons_self ..)
        have hd : hasData E k.dataSids = true := by
          rw [hasData_eq_any, dataSids_case hkc]
          exact (dupCase_hasData_T (hasInst E) k hk.1).2 h
        rw [if_pos hd]
        exact ihT.2 hkc h
      · exact Or.inr (ihL.2 (fun c hcm => hc c (List.mem_cons_of_mem _ hcm)) h)
end

/-- what `lyd_validate_choice_r` finds violates the specification of the level -/
theorem dupCaseL_imp_card (o : VOpts) (E : List DNode) (sk : List STree) (hk : kindsOkL sk = true)
    (h : dupCaseL (hasInst E) sk = true) : EKind.dupCase ∈ cardL o E sk :=
  (dupCase_imp_card_L o E sk hk).1 h

mutual
/-- no `case` node at this level, nor (through the choices of the level) among the children of a case: a `case` is the child of a
`choice` only -/
def noCaseT : STree → Bool
  | .mk _ i ks => i.kind != .case && (i.kind != .choice || noCaseCs ks)
def noCaseL : List STree → Bool
  | [] => true
  | k :: ks => noCaseT k && noCaseL ks
def noCaseCs : List STree → Bool
  | [] => true
  | c :: cs => noCaseK c && noCaseCs cs
def noCaseK : STree → Bool
  | .mk _ _ ks => noCaseL ks
end

mutual
theorem card_imp_dupCase_T (o : VOpts) (E : List DNode) : ∀ (t : STree), kindsOk t = true →
    (noCaseT t = true → EKind.dupCase ∈ cardNode o E t → dupCaseT (hasInst E) t = true) ∧
    (t.info.kind = .case → noCaseK t = true → EKind.dupCase ∈ cardNode o E t → dupCaseK (hasInst E) t = true)
  | .mk s i ks, hk => by
    have hk0 := hk
    rw [kindsOk_mk] at hk
    simp only [Bool.and_eq_true] at hk
    have ihL := card_imp_dupCase_L o E ks hk.2
    constructor
    · intro hnc h
      rw [noCaseT] at hnc
      simp only [Bool.and_eq_true, bne_iff_ne, ne_eq, Bool.or_eq_true] at hnc
      by_cases hch : i.kind = .choice
      · rw [mem_cardNode_choice o E hch] at h
        rw [dupCaseT]
        simp only [hch, beq_self_eq_true, Bool.true_and, Bool.or_eq_true, decide_eq_true_eq]
        rcases h with h | h
        · exact Or.inl h
        · exact Or.inr (ihL.2 (choice_cases_kind hk0 hch) (hnc.2.resolve_left (fun hne => hne hch)) h)
      · exact absurd h (not_mem_cardNode_data o E hch hnc.1)
    · intro hc hnc h
      have hc : i.kind = .case := hc
      rw [noCaseK] at hnc
      rw [cardNode_case o E hc] at h
      rw [dupCaseK]
      exact ihL.1 hnc h
theorem card_imp_dupCase_L (o : VOpts) (E : List DNode) : ∀ (ks : List STree), kindsOkL ks = true →
    (noCaseL ks = true → EKind.dupCase ∈ cardL o E ks → dupCaseL (hasInst E) ks = true) ∧
    ((∀ c ∈ ks, c.info.kind = .case) → noCaseCs ks = true → EKind.dupCase ∈ cardCases o E ks → dupCaseCs (hasInst E) ks = true)
  | [], _ => by
    constructor
    · intro _ h; rw [cardL] at h; cases h
    · intro _ _ h; rw [cardCases] at h; cases h
  | k :: rest, hk => by
    rw [kindsOkL_cons] at hk
    simp only [Bool.and_eq_true] at hk
    have ihT := card_imp_dupCase_T o E k hk.1
    have ihL := card_imp_dupCase_L o E rest hk.2
    constructor
    · intro hnc h
      rw [noCaseL, Bool.and_eq_true] at hnc
      rw [cardL_cons, List.mem_append] at h
      rw [dupCaseL, Bool.or_eq_true]
      rcases h with h | h
      · exact Or.inl (ihT.1 hnc.1 h)
      · exact Or.inr (ihL.1 hnc.2 h)
    · intro hc hnc h
      rw [noCaseCs, Bool.and_eq_true] at hnc
      rw [cardCases_cons, List.mem_append] at h
      rw [dupCaseCs, Bool.or_eq_true]
      rcases h with h | h
      · left
        split at h
        · exact ihT.2 (hc k (List.mem_cons_self ..)) hnc.1 h
        · cases h
      · exact Or.inr (ihL.2 (fun c hcm => hc c (List.mem_cons_of_mem _ hcm)) hnc.2 h)
end

/-- **`DupCase`, implementation against specification**: on a level whose `case` nodes sit under choices only, the search of
`lyd_validate_choice_r` through ALL cases finds a conflict iff the specification, which constrains only the cases that have data,
has one (a nested choice with data of two cases gives its enclosing case data).
Without `noCaseL` the right-to-left direction fails (a stray `case` node at the level is skipped by `dupCaseT` but not by
`cardNode`); `dupCaseL_imp_card` is the other direction without it. -/
theorem dupCaseL_iff_card (o : VOpts) (E : List DNode) : ∀ (sk : List STree), kindsOkL sk = true → noCaseL sk = true →
    (dupCaseL (hasInst E) sk = true ↔ EKind.dupCase ∈ cardL o E sk) :=
  fun sk hk hnc => ⟨(dupCase_imp_card_L o E sk hk).1, (card_imp_dupCase_L o E sk hk).1 hnc⟩

/-- why `noCaseL`: `case stray { choice ch { case a { leaf x; } case b { leaf y; } } }` as a member of a level (not the child of a
choice) with data `x`, `y`: well-kinded, skipped by `dupCaseL`, a `DupCase` of `cardL`; under a choice the same is found by both -/
example :
    let lf := fun (n : String) (s : Nat) => STree.mk s { depth := 0, kind := .leaf, name := n } []
    let ca := fun (n : String) (s : Nat) (ks : List STree) => STree.mk s { depth := 0, kind := .case, name := n } ks
    let ch := fun (n : String) (s : Nat) (ks : List STree) => STree.mk s { depth := 0, kind := .choice, name := n } ks
    let stray := ca "stray" 0 [ch "ch" 1 [ca "a" 2 [lf "x" 3], ca "b" 4 [lf "y" 5]]]
    let E : List DNode := [.term 3 {} [] [], .term 5 {} [] []]
    (kindsOkL [stray], noCaseL [stray], dupCaseL (hasInst E) [stray], cardL {} E [stray]) = (true, false, false, [.dupCase]) ∧
    (kindsOkL [ch "o" 6 [stray]], noCaseL [ch "o" 6 [stray]], dupCaseL (hasInst E) [ch "o" 6 [stray]], cardL {} E [ch "o" 6 [stray]])
      = (true, true, true, [.dupCase]) := by decide

end LyModel.Valid
