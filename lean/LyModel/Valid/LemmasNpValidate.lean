import LyModel.Valid.LemmasCaseNew
import LyModel.Valid.LemmasNpCont
/-! `np_cont_dflt` (C07) for the validation step itself: `lyd_validate` hands back a tree in which every non-presence container
carries `LYD_DEFAULT` iff all its children do — for every schema (choices, cases, lists, …), every variant of the code and every
option set, whenever in the input every default-flagged non-presence container has default children only. -/
namespace LyModel.Valid
open LyModel LyModel.Tree

/-! ## `lyd_new_implicit` only adds default nodes without children (all variants) -/

def OnlyAdds (sibs r : List DNode) : Prop := ∀ x ∈ r, x ∈ sibs ∨ (x.flags = dfltFlags ∧ x.kids = [])

theorem OnlyAdds.refl (sibs : List DNode) : OnlyAdds sibs sibs := fun _ h => Or.inl h

theorem OnlyAdds.trans {a b c : List DNode} (h1 : OnlyAdds a b) (h2 : OnlyAdds b c) : OnlyAdds a c := by
  intro x hx
  rcases h2 x hx with h | h
  · exact h1 x h
  · exact Or.inr h

theorem implNodes_onlyAdds (S : Schema) (o : VOpts) (cx : Cx) (ks : List STree) (sibs : List DNode) :
    OnlyAdds sibs (implNodes S o cx ks sibs).1 := by
  intro x hx
  rcases implNodes_out S o cx ks sibs x hx with h | ⟨h1, h2, _⟩
  · exact Or.inl h
  · exact Or.inr ⟨h1, h2⟩

/-- a reflexive, transitive relation between sibling lists that every `implNodes` pass satisfies holds for `implChoices` (all variants) -/
theorem implChoices_rel (X : SchemaX) (o : VOpts) (cx : Cx) (R : List DNode → List DNode → Prop) (hrefl : ∀ a, R a a)
    (htrans : ∀ a b c, R a b → R b c → R a c) (hnodes : ∀ ks sibs, R sibs (implNodes X.base o cx ks sibs).1)
    (ks : List STree) (sibs : List DNode) : R sibs (implChoices X o cx ks sibs).1 := by
  apply implChoices.induct X o cx
    (motive_1 := fun ks sibs => R sibs (implChoices X o cx ks sibs).1)
    (motive_2 := fun t sibs => R sibs (implChoice X o cx t sibs).1)
    (motive_3 := fun sid ks sibs => R sibs (implCaseHolding X o cx sid ks sibs).1)
    (motive_4 := fun t sibs => R sibs (implCase X o cx t sibs).1)
    (motive_5 := fun target ks sibs => R sibs (implInto X o cx target ks sibs).1)
    (motive_6 := fun target t sibs => R sibs (implIntoCase X o cx target t sibs).1)
    (motive_7 := fun target ks sibs => R sibs (implIntoKids X o cx target ks sibs).1)
    (motive_8 := fun target t sibs => R sibs (implIntoChoice X o cx target t sibs).1)
    (motive_9 := fun nm ks sibs => R sibs (implCaseNamed X o cx nm ks sibs).1)
  -- implChoice
  · intro sid i cases sibs h
    unfold implChoice; simp only [h, if_true]; exact hrefl _
  · intro sid i cases sibs h hfd nm hnm ih
    unfold implChoice; simp only [h, Bool.false_eq_true, if_false, hfd, hnm]; exact ih
  · intro sid i cases sibs h hfd hnm
    unfold implChoice; simp only [h, Bool.false_eq_true, if_false, hfd, hnm]; exact hrefl _
  · intro sid i cases sibs h node hfd hq target ht ih
    unfold implChoice; simp only [h, Bool.false_eq_true, if_false, hfd, hq, if_true, ht]; exact ih
  · intro sid i cases sibs h node hfd hq ht
    unfold implChoice; simp only [h, Bool.false_eq_true, if_false, hfd, hq, if_true, ht]; exact hrefl _
  · intro sid i cases sibs h node hfd hq ih
    unfold implChoice; simp only [h, Bool.false_eq_true, if_false, hfd, hq]; exact ih
  -- implCase
  · intro sid i cases sibs ih
    unfold implCase
    exact htrans _ _ _ ih (hnodes _ _)
  -- implIntoCase
  · intro target sid i cases sibs ih
    unfold implIntoCase; exact ih
  -- implIntoChoice
  · intro target sid i cases sibs h ih
    unfold implIntoChoice; simp only [h, if_true]; exact ih
  · intro target sid i cases sibs h
    unfold implIntoChoice; simp only [h, Bool.false_eq_true, if_false]; exact hrefl _
  -- implChoices
  · intro sibs; unfold implChoices; exact hrefl _
  · intro k ks sibs _ ih1 ih2
    unfold implChoices
    exact htrans _ _ _ ih1 ih2
  -- implCaseHolding
  · intro sid sibs; unfold implCaseHolding; exact hrefl _
  · intro sid k ks sibs h ih
    unfold implCaseHolding; simp only [h, if_true]; exact ih
  · intro sid k ks sibs h ih
    unfold implCaseHolding; simp only [h, Bool.false_eq_true, if_false]; exact ih
  -- implInto
  · intro target sibs; unfold implInto; exact hrefl _
  · intro target k ks sibs r1 ih1 ih2 ih3
    unfold implInto
    refine htrans _ _ _ ?_ ih3
    show R sibs (if (k.sid == target) = true then implCase X o cx k sibs else implIntoCase X o cx target k sibs).1
    split
    · exact ih1
    · exact ih2
  -- implIntoKids
  · intro target sibs; unfold implIntoKids; exact hrefl _
  · intro target k ks sibs _ ih1 ih2
    unfold implIntoKids
    exact htrans _ _ _ ih1 ih2
  -- implCaseNamed
  · intro nm sibs; unfold implCaseNamed; exact hrefl _
  · intro nm k ks sibs h ih
    unfold implCaseNamed; simp only [h, if_true]; exact ih
  · intro nm k ks sibs h ih
    unfold implCaseNamed; simp only [h, Bool.false_eq_true, if_false]; exact ih

theorem implChoices_onlyAdds (X : SchemaX) (o : VOpts) (cx : Cx) (ks : List STree) (sibs : List DNode) :
    OnlyAdds sibs (implChoices X o cx ks sibs).1 :=
  implChoices_rel X o cx OnlyAdds OnlyAdds.refl (fun _ _ _ h1 h2 => h1.trans h2) (fun ks sibs => implNodes_onlyAdds _ _ _ ks sibs) ks sibs

/-- nothing that was there goes -/
theorem implL_keeps (X : SchemaX) (o : VOpts) (cx : Cx) (ks : List STree) (sibs : List DNode) :
    ∀ x ∈ sibs, x ∈ (implL X o cx ks sibs).1 := by
  unfold implL
  intro x hx
  exact implNodes_mono _ _ _ _ _ x
    (implChoices_rel X o cx (fun a b => ∀ x ∈ a, x ∈ b) (fun _ _ h => h) (fun _ _ _ h1 h2 x hx => h2 x (h1 x hx))
      (fun ks sibs => implNodes_mono _ _ _ ks sibs) ks sibs x hx)

theorem implL_onlyAdds (X : SchemaX) (o : VOpts) (cx : Cx) (ks : List STree) (sibs : List DNode) :
    OnlyAdds sibs (implL X o cx ks sibs).1 := by
  unfold implL
  exact (implChoices_onlyAdds X o cx ks sibs).trans (implNodes_onlyAdds _ _ _ _ _)

end LyModel.Valid

namespace LyModel.Valid
open LyModel LyModel.Tree

/-! ## the half of the invariant validation needs of its input -/

mutual
/-- every default-flagged non-presence container at or below the node has default children only -/
def halfInvN (S : Schema) : DNode → Prop
  | .inner s f _ ks => (S.isNpCont s = true → f.dflt = true → allD ks = true) ∧ halfInvL S ks
  | .term .. => True
def halfInvL (S : Schema) : List DNode → Prop
  | [] => True
  | n :: ns => halfInvN S n ∧ halfInvL S ns
end

theorem halfInvL_all (S : Schema) : ∀ (l : List DNode), halfInvL S l ↔ ∀ n ∈ l, halfInvN S n := by
  intro l
  induction l with
  | nil => simp [halfInvL]
  | cons x xs ih => unfold halfInvL; simp [ih]

mutual
theorem halfInvN_of_npInvN (S : Schema) : ∀ (n : DNode), npInvN S n → halfInvN S n
  | .term .., _ => by unfold halfInvN; trivial
  | .inner s f m ks, h => by
    unfold npInvN at h
    unfold halfInvN
    exact ⟨fun hnp hd => by rw [← h.1 hnp]; exact hd, halfInvL_of_npInvL S ks h.2⟩
theorem halfInvL_of_npInvL (S : Schema) : ∀ (l : List DNode), npInvL S l → halfInvL S l
  | [], _ => by unfold halfInvL; trivial
  | n :: ns, h => by
    unfold npInvL at h
    unfold halfInvL
    exact ⟨halfInvN_of_npInvN S n h.1, halfInvL_of_npInvL S ns h.2⟩
end

theorem halfInvN_normNew (S : Schema) (y : DNode) (h : halfInvN S y) : halfInvN S (normNew y) := by
  unfold normNew clearNew
  split
  · cases y with
    | term s f m v => unfold halfInvN; trivial
    | inner s f m ks =>
      unfold halfInvN at h
      simp only [DNode.setFlags, DNode.flags]
      unfold halfInvN
      exact h
  · exact h

theorem halfInvN_fresh (S : Schema) (x : DNode) (hk : x.kids = []) : halfInvN S x := by
  cases x with
  | term s f m v => unfold halfInvN; trivial
  | inner s f m ks =>
    simp only [DNode.kids] at hk
    subst hk
    unfold halfInvN
    exact ⟨fun _ _ => rfl, by unfold halfInvL; trivial⟩

/-- one sibling level after `lyd_validate_new` and `lyd_new_implicit` -/
theorem level_half (X : SchemaX) (o : VOpts) (cx cx' : Cx) (sk : List STree) (ks : List DNode) (hk : halfInvL X.base ks) :
    halfInvL X.base (implL X o cx' sk (validateNew X o cx ks).1).1 ∧
    (allD ks = true → allD (implL X o cx' sk (validateNew X o cx ks).1).1 = true) := by
  obtain ⟨_, _, a3⟩ := validateNew_first X o cx ks
  generalize (validateNew X o cx ks).1 = r1 at a3
  have b := implL_onlyAdds X o cx' sk r1
  generalize (implL X o cx' sk r1).1 = r2 at b
  rw [halfInvL_all] at hk ⊢
  constructor
  · intro x hx
    rcases b x hx with h | ⟨_, h⟩
    · obtain ⟨y, hy, hxy⟩ := a3 x h
      subst hxy
      exact halfInvN_normNew _ y (hk y hy)
    · exact halfInvN_fresh _ x h
  · intro hall
    rw [allD_eq_true] at hall ⊢
    intro x hx
    rcases b x hx with h | ⟨h, _⟩
    · obtain ⟨y, hy, hxy⟩ := a3 x h
      subst hxy
      rw [normNew_dflt]; exact hall y hy
    · rw [h]; rfl

theorem allD_rel {R : DNode → DNode → Prop} (hR : ∀ a b, R a b → a.flags.dflt = true → b.flags.dflt = true) :
    ∀ {as bs : List DNode}, Rel2 R as bs → allD as = true → allD bs = true := by
  intro as bs h
  induction h with
  | nil => intro h; exact h
  | @cons a b as bs hab _ ih =>
    intro hall
    unfold allD at hall ih ⊢
    simp only [List.all_cons, Bool.and_eq_true] at hall ⊢
    exact ⟨hR a b hab hall.1, ih hall.2⟩

/-- **the walk of `lyd_validate_subtree`** keeps the flags of the node and the half invariant -/
theorem subtree_half (X : SchemaX) (o : VOpts) : ∀ (fuel : Nat) (cx : Cx) (before : List DNode) (n : DNode),
    (subtreeNode X o fuel cx before n).1.flags = n.flags ∧ (halfInvN X.base n → halfInvN X.base (subtreeNode X o fuel cx before n).1) := by
  intro fuel
  induction fuel with
  | zero => intro cx before n; cases n <;> exact ⟨rfl, fun h => h⟩
  | succ fuel ih =>
    intro cx before n
    cases n with
    | term s f m v => exact ⟨rfl, fun h => h⟩
    | inner s f m ks =>
      unfold subtreeNode
      dsimp only
      refine ⟨rfl, ?_⟩
      intro h
      unfold halfInvN at h
      obtain ⟨c1, c2⟩ := level_half X o (cx.descend X.base before (DNode.inner s f m ks))
        (cx.descend X.base before (DNode.inner s f m ks)).keysOld (X.kidsOf (some s)) ks h.2
      generalize (implL X o (cx.descend X.base before (DNode.inner s f m ks)).keysOld (X.kidsOf (some s))
        (validateNew X o (cx.descend X.base before (DNode.inner s f m ks)) ks).1) = r2 at c1 c2 ⊢
      have h3 : Rel2 (fun a b => b.flags = a.flags ∧ (halfInvN X.base a → halfInvN X.base b)) r2.1
          (walkList (subtreeNode X o fuel (cx.descend X.base before (DNode.inner s f m ks)).keysOld) [] r2.1).1 :=
        walkList_rel _ r2.1 [] (fun b x _ => ih _ b x)
      generalize (walkList (subtreeNode X o fuel (cx.descend X.base before (DNode.inner s f m ks)).keysOld) [] r2.1) = r3 at h3 ⊢
      unfold halfInvN
      constructor
      · intro hnp hd
        exact allD_rel (fun a b hab had => by rw [hab.1]; exact had) h3 (c2 (h.1 hnp hd))
      · rw [halfInvL_all] at c1 ⊢
        intro x hx
        obtain ⟨a, ha, hab⟩ := forall2_mem_right h3 x hx
        exact hab.2 (c1 a ha)

/-! ## `lyd_validate_final_r` establishes the invariant -/

mutual
theorem finalNode_npInv (X : SchemaX) (o : VOpts) : ∀ (n : DNode) (cx : Cx) (before : List DNode), halfInvN X.base n →
    npInvN X.base (finalNode X o cx before n).1 ∧ (n.flags.dflt = true → (finalNode X o cx before n).1.flags.dflt = true)
  | .term s f m v, _, _, _ => by
    unfold finalNode
    exact ⟨by unfold npInvN; trivial, fun h => h⟩
  | .inner s f m ks, cx, before, h => by
    unfold halfInvN at h
    have ih := finalKids_npInv X o ks (cx.descend X.base before (.inner s f m ks)) [] h.2
    unfold finalNode
    dsimp only
    generalize (finalKids X o (cx.descend X.base before (DNode.inner s f m ks)) [] ks) = r at ih ⊢
    rw [npSet_inner]
    by_cases hcond : (X.base.isNpCont s && !f.dflt && r.1.all (·.flags.dflt)) = true
    · rw [if_pos hcond]
      simp only [Bool.and_eq_true] at hcond
      refine ⟨?_, fun _ => rfl⟩
      unfold npInvN
      exact ⟨fun _ => hcond.2.symm, ih.1⟩
    · rw [if_neg hcond]
      refine ⟨?_, fun hd => hd⟩
      unfold npInvN
      refine ⟨fun hnp => ?_, ih.1⟩
      cases hd : f.dflt with
      | true => exact (ih.2 (h.1 hnp hd)).symm
      | false =>
        simp only [hnp, hd, Bool.not_false, Bool.and_self, Bool.true_and, Bool.not_eq_true] at hcond
        exact hcond.symm
theorem finalKids_npInv (X : SchemaX) (o : VOpts) : ∀ (ns : List DNode) (cx : Cx) (before : List DNode), halfInvL X.base ns →
    npInvL X.base (finalKids X o cx before ns).1 ∧ (allD ns = true → allD (finalKids X o cx before ns).1 = true)
  | [], _, _, _ => by
    unfold finalKids
    exact ⟨by unfold npInvL; trivial, fun h => h⟩
  | n :: ns, cx, before, h => by
    unfold halfInvL at h
    have h1 := finalNode_npInv X o n cx before h.1
    have h2 := finalKids_npInv X o ns cx (before ++ [n]) h.2
    unfold finalKids
    dsimp only
    constructor
    · unfold npInvL
      exact ⟨h1.1, h2.1⟩
    · intro hall
      unfold allD at hall h2 ⊢
      simp only [List.all_cons, Bool.and_eq_true] at hall ⊢
      exact ⟨h1.2 hall.1, h2.2 hall.2⟩
end

/-- **`lyd_validate` establishes the non-presence container invariant** (every schema, every variant, every option set) -/
theorem validate_npInv (X : SchemaX) (o : VOpts) (t : List DNode) (h : halfInvL X.base t) : npInvL X.base (validate X o t).tree := by
  by_cases hpe : (o.present && t.isEmpty) = true
  · have : (validate X o t).tree = [] := by
      unfold validate; simp only [hpe, if_true]
    rw [this]; unfold npInvL; trivial
  · obtain ⟨ht, _⟩ := validate_evs_eq X o t (by simpa using hpe)
    rw [ht]
    obtain ⟨c1, _⟩ := level_half X o {} {} X.top t h
    generalize (implL X o {} X.top (validateNew X o {} t).1) = r2 at c1 ⊢
    have h3 : Rel2 (fun a b => b.flags = a.flags ∧ (halfInvN X.base a → halfInvN X.base b)) r2.1
        (subtreeKids X o (walkFuel X t) {} [] r2.1).1 := by
      unfold subtreeKids
      exact walkList_rel _ r2.1 [] (fun b x _ => subtree_half X o _ {} b x)
    generalize (subtreeKids X o (walkFuel X t) {} [] r2.1) = r3 at h3 ⊢
    have c3 : halfInvL X.base r3.1 := by
      rw [halfInvL_all] at c1 ⊢
      intro x hx
      obtain ⟨a, ha, hab⟩ := forall2_mem_right h3 x hx
      exact hab.2 (c1 a ha)
    unfold finalR
    dsimp only
    exact (finalKids_npInv X o r3.1 {} [] c3).1

end LyModel.Valid
