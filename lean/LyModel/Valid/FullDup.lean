import LyModel.Valid.FullSpec
/-!
# C02, full schema language: the duplicate-instance family, state data, values and keys

`lyd_validate_duplicates` (`NoPair`) against the `.dup` clauses of the specification on a freshly built sibling list, for schema
levels with choices: the schema node of an instance is one the specification visits (`Reach`).  Likewise "no state data" and what
building the instance through `lyd_new_*` refuses (`buildL`).
-/
namespace LyModel.Valid
open LyModel LyModel.Tree

/-! ## the instances of one schema node: which pairs are forbidden -/

theorem hasInst_map_exN (ks : List DNode) (sid : Nat) : hasInst (ks.map exN) sid = hasInst ks sid := by
  unfold hasInst
  rw [List.any_map]
  apply any_congr'
  intro x _
  simp

theorem fresh_kids_of_inst {ks : List DNode} (hfr : isFreshL ks = true) {s : Nat} :
    ∀ n ∈ instsOf ks s, isFreshL n.kids = true :=
  fun n hn => isFreshN_kids ((isFreshL_all ks).1 hfr n (mem_instsOf.1 hn).1)

section one
variable (X : SchemaX) {s : Nat} {i : SNode} {kk : List STree} (hi : InfoFacts X.base (.mk s i kk)) (ks : List DNode)
include hi

/-- two instances of a leaf or a container are a forbidden pair -/
theorem bad_short (h : i.kind = .leaf ∨ i.kind = .container) :
    ∀ a ∈ instsOf ks s, ∀ b ∈ instsOf ks s, Bad X.base a b := by
  intro a ha b hb
  have hsa : a.sid = s := (mem_instsOf.1 ha).2
  have hsb : b.sid = s := (mem_instsOf.1 hb).2
  have hkind := hi.kind
  have hdi := hi.dupInst
  simp only [STree.sid, STree.info] at hkind hdi
  refine ⟨?_, ?_⟩
  · rw [hsa, hdi]
    rcases h with h | h <;> simp [h]
  · unfold dupOf
    rw [hsa, hsb, hkind]
    rcases h with h | h <;> simp [h]

theorem noPair_ll (h : i.kind = .leaflist) (hc : i.config = true) :
    NoPair X.base (instsOf ks s) ↔ pairwiseNe (fun a b : DNode => a.val == b.val) (instsOf ks s) = true := by
  apply NoPair_iff_pairwiseNe
  intro a ha b hb
  have hsa : a.sid = s := (mem_instsOf.1 ha).2
  have hsb : b.sid = s := (mem_instsOf.1 hb).2
  have hkind := hi.kind
  have hdi := hi.dupInst
  simp only [STree.sid, STree.info] at hkind hdi
  unfold Bad dupOf
  rw [hsa, hsb, hkind, hdi, h, hc]
  simp only [beq_self_eq_true, Bool.true_and]
  constructor
  · rintro ⟨_, h⟩; simp only [beq_iff_eq] at h ⊢; exact h.symm
  · intro h; refine ⟨rfl, ?_⟩; simp only [beq_iff_eq] at h ⊢; exact h.symm

theorem noPair_ll_state (h : i.kind = .leaflist) (hc : i.config = false) : NoPair X.base (instsOf ks s) := by
  apply NoPair_none_bad
  intro a ha b hb hbad
  have hsa : a.sid = s := (mem_instsOf.1 ha).2
  have hdi := hi.dupInst
  simp only [STree.sid, STree.info] at hdi
  have := hbad.1
  rw [hsa, hdi, h, hc] at this
  simp at this

theorem noPair_list (h : i.kind = .list) (hc : i.nkeys ≠ 0) :
    NoPair X.base (instsOf ks s) ↔
      pairwiseNe (fun a b : DNode => keyVals X.base a == keyVals X.base b) (instsOf ks s) = true := by
  apply NoPair_iff_pairwiseNe
  intro a ha b hb
  have hsa : a.sid = s := (mem_instsOf.1 ha).2
  have hsb : b.sid = s := (mem_instsOf.1 hb).2
  have hkind := hi.kind
  have hdi := hi.dupInst
  simp only [STree.sid, STree.info] at hkind hdi
  unfold Bad dupOf
  rw [hsa, hsb, hkind, hdi, h]
  have : (i.nkeys == 0) = false := by simpa using hc
  simp only [this, beq_self_eq_true, Bool.true_and, Bool.and_false, Bool.false_or]
  constructor
  · rintro ⟨_, h⟩; simp only [beq_iff_eq] at h ⊢; exact h.symm
  · intro h; refine ⟨by simp, ?_⟩; simp only [beq_iff_eq] at h ⊢; exact h.symm

theorem noPair_list_keyless (h : i.kind = .list) (hc : i.nkeys = 0) : NoPair X.base (instsOf ks s) := by
  apply NoPair_none_bad
  intro a ha b hb hbad
  have hsa : a.sid = s := (mem_instsOf.1 ha).2
  have hdi := hi.dupInst
  simp only [STree.sid, STree.info] at hdi
  have := hbad.1
  rw [hsa, hdi, h, hc] at this
  simp at this

end one

theorem pw_val_exN (ks : List DNode) (s : Nat) :
    pairwiseNe (fun a b : DNode => a.val == b.val) (instsOf (ks.map exN) s) =
      pairwiseNe (fun a b : DNode => a.val == b.val) (instsOf ks s) := by
  rw [instsOf_map_exN, pairwiseNe_map]
  apply pairwiseNe_congr
  intro a _ b _
  simp

theorem pw_keys_exN (S : Schema) (ks : List DNode) (hfr : isFreshL ks = true) (s : Nat) :
    pairwiseNe (fun a b : DNode => keyVals S a == keyVals S b) (instsOf (ks.map exN) s) =
      pairwiseNe (fun a b : DNode => keyVals S a == keyVals S b) (instsOf ks s) := by
  rw [instsOf_map_exN, pairwiseNe_map]
  apply pairwiseNe_congr
  intro a ha b hb
  rw [keyVals_exN _ a (fresh_kids_of_inst hfr a ha), keyVals_exN _ b (fresh_kids_of_inst hfr b hb)]

theorem len_insts_exN (ks : List DNode) (s : Nat) : (instsOf (ks.map exN) s).length = (instsOf ks s).length := by
  rw [instsOf_map_exN, List.length_map]

theorem bool_false_of_not_true {b : Bool} (h : ¬ b = true) : b = false := by simpa using h

/-! ## D2: a `.dup` clause of the specification means a forbidden pair -/

section complete
variable (X : SchemaX) {s : Nat} {i : SNode} {kk : List STree} (hi : InfoFacts X.base (.mk s i kk)) {ks : List DNode}
  (hfr : isFreshL ks = true)
include hi hfr

theorem dup_complete_short (h : i.kind = .leaf ∨ i.kind = .container) :
    1 < (instsOf (explicitL ks) s).length → ¬ NoPair X.base ks := by
  intro hlen hnp
  rw [explicitL_fresh _ hfr, len_insts_exN] at hlen
  have := (NoPair_all_bad _ _ (bad_short X hi ks h)).1 ((NoPair_iff_groups _ _).1 hnp s)
  omega

theorem dup_complete_ll (h : i.kind = .leaflist) :
    i.config = true → pairwiseNe (fun a b : DNode => a.val == b.val) (instsOf (explicitL ks) s) = false → ¬ NoPair X.base ks := by
  intro hc hpw hnp
  rw [explicitL_fresh _ hfr, pw_val_exN] at hpw
  have := (noPair_ll X hi ks h hc).1 ((NoPair_iff_groups _ _).1 hnp s)
  rw [hpw] at this
  cases this

theorem dup_complete_list (h : i.kind = .list) :
    i.nkeys ≠ 0 → pairwiseNe (fun a b : DNode => keyVals X.base a == keyVals X.base b) (instsOf (explicitL ks) s) = false →
    ¬ NoPair X.base ks := by
  intro hc hpw hnp
  rw [explicitL_fresh _ hfr, pw_keys_exN _ _ hfr] at hpw
  have := (noPair_list X hi ks h hc).1 ((NoPair_iff_groups _ _).1 hnp s)
  rw [hpw] at this
  cases this

/-- a forbidden pair among the instances of a data node is a `.dup` clause of the node -/
theorem dup_node (o : VOpts) (h1 : i.kind ≠ .choice) (h2 : i.kind ≠ .case) (h : ¬ NoPair X.base (instsOf ks s)) :
    EKind.dup ∈ specNode X o (.mk s i kk) (explicitL ks) := by
  rw [explicitL_fresh _ hfr]
  cases hkind : i.kind with
  | choice => exact absurd hkind h1
  | case => exact absurd hkind h2
  | leaf =>
    rw [specNode_leaf_mem X o _ _ hkind]
    right; left
    refine ⟨rfl, ?_⟩
    have : ¬ (instsOf ks s).length ≤ 1 := fun hle => h ((NoPair_all_bad _ _ (bad_short X hi ks (Or.inl hkind))).2 hle)
    rw [len_insts_exN]; omega
  | container =>
    rw [specNode_container_mem X o _ _ hkind]
    right; left
    refine ⟨rfl, ?_⟩
    have : ¬ (instsOf ks s).length ≤ 1 := fun hle => h ((NoPair_all_bad _ _ (bad_short X hi ks (Or.inr hkind))).2 hle)
    rw [len_insts_exN]; omega
  | leaflist =>
    rw [specNode_leaflist_mem X o _ _ hkind]
    right; left
    cases hc : i.config with
    | false => exact absurd (noPair_ll_state X hi ks hkind hc) h
    | true =>
      refine ⟨rfl, rfl, ?_⟩
      rw [pw_val_exN]
      exact bool_false_of_not_true (fun hv => h ((noPair_ll X hi ks hkind hc).2 hv))
  | list =>
    rw [specNode_list_mem X o _ _ hkind]
    right; right; left
    by_cases hc : i.nkeys = 0
    · exact absurd (noPair_list_keyless X hi ks hkind hc) h
    · refine ⟨rfl, hc, ?_⟩
      rw [pw_keys_exN _ _ hfr]
      exact bool_false_of_not_true (fun hv => h ((noPair_list X hi ks hkind hc).2 hv))

end complete

/-! ## D1, D3: on a level with choices -/

/-- the schema node of an instance of the level is one the specification visits -/
theorem reach_of_inst (X : SchemaX) (sk : List STree) (ks : List DNode) (hk : kindsOkL sk = true) (hnc : noCaseL sk = true)
    (hio : ∀ k, BelowL k sk → X.base.get? k.sid = some k.info) (hfr : isFreshL ks = true) (hpl : ∀ n ∈ ks, n.sid ∈ dataSidsL sk)
    {n : DNode} (hn : n ∈ ks) :
    ∃ k, Reach (hasInst (explicitL ks)) sk k ∧ k.sid = n.sid ∧ InfoFacts X.base k ∧ k.info.kind ≠ .choice ∧ k.info.kind ≠ .case := by
  have hH : hasInst (explicitL ks) n.sid = true := by
    rw [explicitL_fresh _ hfr, hasInst_map_exN]
    unfold hasInst
    exact List.any_eq_true.2 ⟨n, hn, by simp⟩
  obtain ⟨k, hr, hs⟩ := reach_of_mem (explicitL ks) hk hnc n.sid (hpl n hn) hH
  exact ⟨k, hr, hs, infoFacts_of_get _ _ (hio k hr.belowL), hr.data.1, hr.data.2⟩

/-- **D1**: a forbidden pair of siblings violates a `.dup` clause of the specification of the level -/
theorem dup_sound (X : SchemaX) (o : VOpts) (sk : List STree) (ks : List DNode) (hk : kindsOkL sk = true) (hnc : noCaseL sk = true)
    (hio : ∀ k, BelowL k sk → X.base.get? k.sid = some k.info) (hfr : isFreshL ks = true) (hpl : ∀ n ∈ ks, n.sid ∈ dataSidsL sk)
    (h : ¬ NoPair X.base ks) : EKind.dup ∈ specL X o sk (explicitL ks) := by
  rw [NoPair_iff_groups] at h
  obtain ⟨sid, hsid⟩ := Classical.not_forall.1 h
  have hne : instsOf ks sid ≠ [] := by
    intro he; apply hsid; rw [he]; simp [NoPair]
  obtain ⟨n, hn⟩ := List.exists_mem_of_ne_nil _ hne
  obtain ⟨hnm, hns⟩ := mem_instsOf.1 hn
  obtain ⟨k, hr, hs, hi, h1, h2⟩ := reach_of_inst X sk ks hk hnc hio hfr hpl hnm
  apply spec_lift_reach X o _ hr
  cases k with
  | mk s i kk =>
    have hss : s = sid := by rw [← hns]; exact hs
    subst hss
    exact dup_node X hi hfr o h1 h2 hsid

/-- **D3**: a state node under `LYD_VALIDATE_NO_STATE` violates the `unexpState` clause of the specification of the level -/
theorem state_sound (X : SchemaX) (o : VOpts) (sk : List STree) (ks : List DNode) (hk : kindsOkL sk = true) (hnc : noCaseL sk = true)
    (hio : ∀ k, BelowL k sk → X.base.get? k.sid = some k.info) (hfr : isFreshL ks = true) (hpl : ∀ n ∈ ks, n.sid ∈ dataSidsL sk)
    (hns : o.noState = true) {n : DNode} (hn : n ∈ ks) (hcf : X.base.config n.sid = false) :
    EKind.unexpState ∈ specL X o sk (explicitL ks) := by
  obtain ⟨k, hr, hs, hi, h1, h2⟩ := reach_of_inst X sk ks hk hnc hio hfr hpl hn
  apply spec_lift_reach X o _ hr
  cases k with
  | mk s i kk =>
    have hs : s = n.sid := hs
    have hcfg : i.config = false := by
      have := hi.cfg
      simp only [STree.sid, STree.info] at this
      rw [← this, hs]; exact hcf
    have hst : (o.noState && !i.config) = true := by rw [hns, hcfg]; rfl
    have hne : instsOf (explicitL ks) s ≠ [] := by
      rw [explicitL_fresh _ hfr, instsOf_map_exN]
      intro he
      have : n ∈ instsOf ks s := mem_instsOf.2 ⟨hn, hs.symm⟩
      rw [List.map_eq_nil_iff] at he
      rw [he] at this
      cases this
    have h1 : i.kind ≠ .choice := h1
    have h2 : i.kind ≠ .case := h2
    cases hkind : i.kind with
    | choice => exact absurd hkind h1
    | case => exact absurd hkind h2
    | leaf => rw [specNode_leaf_mem X o _ _ hkind]; exact Or.inl ⟨rfl, hst, hne⟩
    | leaflist => rw [specNode_leaflist_mem X o _ _ hkind]; exact Or.inl ⟨rfl, hst, hne⟩
    | container => rw [specNode_container_mem X o _ _ hkind]; exact Or.inl ⟨rfl, hst, hne⟩
    | list => rw [specNode_list_mem X o _ _ hkind]; exact Or.inl ⟨rfl, hst, hne⟩

/-! ## D4: values and keys — what building the instance refuses -/

theorem buildL_cons (S : Schema) (n : DNode) (ns : List DNode) :
    buildL S (n :: ns) = match buildNode S n with
      | some e => some e
      | none => buildL S ns := by rw [buildL]; rfl

theorem buildL_none_iff (S : Schema) : ∀ (ks : List DNode), buildL S ks = none ↔ ∀ n ∈ ks, buildNode S n = none := by
  intro ks
  induction ks with
  | nil => rw [buildL]; simp
  | cons n ns ih =>
    rw [buildL_cons]
    cases hb : buildNode S n with
    | some e =>
      simp only [reduceCtorEq, false_iff]
      intro h
      have := h n (List.mem_cons_self ..)
      rw [hb] at this
      cases this
    | none =>
      simp only
      rw [ih]
      constructor
      · intro h x hx
        cases hx with
        | head => exact hb
        | tail _ hx => exact h x hx
      · intro h x hx; exact h x (List.mem_cons_of_mem _ hx)

theorem buildNode_none_iff (S : Schema) (n : DNode) :
    buildNode S n = none ↔
      (n.isTerm = true → typeOk (S.ty n.sid) n.val = true) ∧
      (n.isTerm = false → S.isKind n.sid .list = true → keysPresent S n.sid n.kids = true) ∧
      buildL S n.kids = none := by
  cases n with
  | inner s f m ks =>
    rw [buildNode]
    simp only [DNode.isTerm, DNode.sid, DNode.kids, Bool.false_eq_true, false_imp_iff, true_and, true_imp_iff]
    cases hl : S.isKind s .list with
    | false => simp
    | true =>
      cases hkp : keysPresent S s ks with
      | false => simp
      | true => simp
  | term s f m v =>
    rw [buildNode]
    simp only [DNode.isTerm, DNode.sid, DNode.kids, DNode.val, Bool.true_eq_false, false_imp_iff, true_and, true_imp_iff]
    have : buildL S [] = none := by rw [buildL]
    rw [this]
    cases typeOk (S.ty s) v with
    | false => simp
    | true => simp

/-- soundness direction: an instance that could be built has well-typed values, list entries with their keys, at every level -/
theorem build_none_facts (X : SchemaX) (ks : List DNode) (h : buildL X.base ks = none) :
    ∀ n ∈ ks, (n.isTerm = true → typeOk (X.base.ty n.sid) n.val = true) ∧
      (n.isTerm = false → X.base.isKind n.sid .list = true → keysPresent X.base n.sid n.kids = true) ∧
      buildL X.base n.kids = none :=
  fun n hn => (buildNode_none_iff X.base n).1 ((buildL_none_iff X.base ks).1 h n hn)

theorem build_of_badValue (X : SchemaX) {ks : List DNode} {n : DNode} (hn : n ∈ ks) (ht : n.isTerm = true)
    (hv : typeOk (X.base.ty n.sid) n.val = false) : buildL X.base ks ≠ none := by
  intro h
  have := (build_none_facts X ks h n hn).1 ht
  rw [hv] at this
  cases this

theorem build_of_noKey (X : SchemaX) {ks : List DNode} {n : DNode} (hn : n ∈ ks) (ht : n.isTerm = false)
    (hl : X.base.isKind n.sid .list = true) (hkp : keysPresent X.base n.sid n.kids = false) : buildL X.base ks ≠ none := by
  intro h
  have := (build_none_facts X ks h n hn).2.1 ht hl
  rw [hkp] at this
  cases this

theorem build_of_kid (X : SchemaX) {ks : List DNode} {n : DNode} (hn : n ∈ ks) (hk : buildL X.base n.kids ≠ none) :
    buildL X.base ks ≠ none :=
  fun h => hk (build_none_facts X ks h n hn).2.2

end LyModel.Valid
