import LyModel.Valid.LemmasLoop
import LyModel.Valid.LemmasUnique
import LyModel.Valid.LemmasMinMax
import LyModel.Valid.Spec
/-! Per-family lemmas for C02: each check of the model against the constraint of the specification, on one sibling list. -/
namespace LyModel.Valid
open LyModel LyModel.Tree

/-! ## duplicates: the loop of `lyd_validate_new` on freshly built siblings -/

/-- is `b` a forbidden second instance next to `a`? (same leaf / container; list entries with the same keys; equal values of a
configuration leaf-list; never for key-less lists and state leaf-lists) -/
def dupPair (S : Schema) (a b : DNode) : Bool := !S.isDupInst a.sid && dupOf S a b

theorem dupOf_symm (S : Schema) (a b : DNode) : dupOf S a b = dupOf S b a := by
  unfold dupOf
  by_cases h : (b.sid == a.sid) = true
  · have hab : b.sid = a.sid := by simpa using h
    have h' : (a.sid == b.sid) = true := by simp [hab]
    rw [h, h', hab]
    cases S.kind? a.sid with
    | none => rfl
    | some k =>
      cases k with
      | list => simp only [Bool.true_and]; rw [Bool.eq_iff_iff]; simp only [beq_iff_eq]; exact eq_comm
      | leaflist => simp only [Bool.true_and]; rw [Bool.eq_iff_iff]; simp only [beq_iff_eq]; exact eq_comm
      | container => rfl
      | leaf => rfl
      | choice => rfl
      | case => rfl
  · have h1 : (b.sid == a.sid) = false := by simpa using h
    have h2 : (a.sid == b.sid) = false := by
      simp only [beq_eq_false_iff_ne, ne_eq] at h1 ⊢; exact fun e => h1 e.symm
    simp [h1, h2]

theorem dupOf_sid {S : Schema} {a b : DNode} (h : dupOf S a b = true) : b.sid = a.sid := by
  unfold dupOf at h
  simp only [Bool.and_eq_true, beq_iff_eq] at h
  exact h.1

theorem dupOf_normNew_right (S : Schema) (a b : DNode) : dupOf S a (normNew b) = dupOf S a b := by
  unfold dupOf
  have h1 : (normNew b).sid = b.sid := normNew_sid b
  have h2 : (normNew b).val = b.val := by
    unfold normNew clearNew; split
    · cases b <;> rfl
    · rfl
  have h3 : (normNew b).kids = b.kids := by
    unfold normNew clearNew; split
    · cases b <;> rfl
    · rfl
  simp only [h1, h2, keyVals, h3]

theorem any_map_normNew (S : Schema) (a : DNode) (l : List DNode) : (l.map normNew).any (dupOf S a) = l.any (dupOf S a) := by
  induction l with
  | nil => rfl
  | cons x xs ih => simp only [List.map_cons, List.any_cons, ih, dupOf_normNew_right]

/-- `b` is a forbidden second instance next to `a` -/
def Bad (S : Schema) (a b : DNode) : Prop := S.isDupInst a.sid = false ∧ dupOf S a b = true

theorem Bad.symm {S : Schema} {a b : DNode} (h : Bad S a b) : Bad S b a := by
  have hs : b.sid = a.sid := dupOf_sid h.2
  exact ⟨by rw [hs]; exact h.1, by rw [dupOf_symm]; exact h.2⟩

/-- no earlier sibling has a forbidden second instance behind it -/
def NoPair (S : Schema) : List DNode → Prop
  | [] => True
  | a :: l => (∀ b ∈ l, ¬ Bad S a b) ∧ NoPair S l

theorem dupErr_nil_iff (X : SchemaX) (o : VOpts) (cx : Cx) (hop : o.operational = false) (done tl : List DNode) (n : DNode)
    (hn : n.flags.new = true) :
    (dupErr X o cx (done.map normNew) tl n).errs = [] ↔ (∀ a ∈ done, ¬ Bad X.base n a) ∧ (∀ b ∈ tl, ¬ Bad X.base n b) := by
  unfold dupErr dupScan
  simp only [hn, Bool.true_and, hop, Bool.and_false, Bool.not_false, Bool.and_true, List.any_append, any_map_normNew]
  split
  · rename_i h
    simp only [Out.err, Out.errs, List.filterMap_cons, List.filterMap_nil, reduceCtorEq, false_iff, not_and]
    simp only [Bool.and_eq_true, Bool.not_eq_eq_eq_not, Bool.not_true, Bool.or_eq_true, List.any_eq_true] at h
    intro h1 h2
    rcases h.2 with ⟨a, ha, hd⟩ | ⟨b, hb, hd⟩
    · exact h1 a ha ⟨h.1, hd⟩
    · exact h2 b hb ⟨h.1, hd⟩
  · rename_i h
    simp only [Out.empty_errs, true_iff]
    simp only [Bool.and_eq_true, Bool.not_eq_eq_eq_not, Bool.not_true, Bool.or_eq_true, List.any_eq_true] at h
    constructor
    · intro a ha hbad; exact h ⟨hbad.1, Or.inl ⟨a, ha, hbad.2⟩⟩
    · intro b hb hbad; exact h ⟨hbad.1, Or.inr ⟨b, hb, hbad.2⟩⟩

/-- **the duplicate family**: on siblings all of which are new (a tree just built or parsed), without
`LYD_VALIDATE_OPERATIONAL`, the loop of `lyd_validate_new` logs no error iff no two of the siblings form a forbidden pair (the same
leaf or container twice, list entries with the same keys, equal values of a configuration leaf-list); the nodes already passed
(`done`, with `LYD_NEW` cleared) count like the ones still to come -/
theorem loopErrs_nil_iff (X : SchemaX) (o : VOpts) (cx : Cx) (hop : o.operational = false) : ∀ (rest done : List DNode),
    (∀ n ∈ rest, n.flags.new = true) →
    ((loopErrs X o cx (done.map normNew) rest).errs = [] ↔
      (∀ b ∈ rest, ∀ a ∈ done, ¬ Bad X.base b a) ∧ NoPair X.base rest) := by
  intro rest
  induction rest with
  | nil => intro done _; simp [loopErrs, NoPair]
  | cons n tl ih =>
    intro done hnew
    have hn : n.flags.new = true := hnew n (List.mem_cons_self ..)
    unfold loopErrs
    have hih := ih (done ++ [n]) (fun x hx => hnew x (List.mem_cons_of_mem _ hx))
    simp only [List.map_append, List.map_cons, List.map_nil] at hih
    rw [Out.append_errs, List.append_eq_nil_iff, hih, dupErr_nil_iff X o cx hop done tl n hn]
    simp only [NoPair, List.mem_cons, List.mem_append, List.not_mem_nil, or_false]
    constructor
    · rintro ⟨⟨hA, hB⟩, hC, hD⟩
      refine ⟨?_, hB, hD⟩
      intro b hb a ha
      rcases hb with hb | hb
      · subst hb; exact hA a ha
      · exact hC b hb a (Or.inl ha)
    · rintro ⟨hA, hB, hD⟩
      refine ⟨⟨fun a ha => hA n (Or.inl rfl) a ha, hB⟩, ?_, hD⟩
      intro b hb a ha
      rcases ha with ha | ha
      · exact hA b (Or.inr hb) a ha
      · subst ha; exact fun hbad => hB b hb hbad.symm

/-! ## min-elements / max-elements -/

theorem instsIdx_length (sibs : List DNode) (sid : Nat) : (instsIdx sibs sid).length = (instsOf sibs sid).length := by
  unfold instsIdx instsOf
  have : ∀ (l : List DNode) (k : Nat), ((l.zipIdx k).filter (·.1.sid == sid)).length = (l.filter (·.sid == sid)).length := by
    intro l
    induction l with
    | nil => intro k; rfl
    | cons x xs ih =>
      intro k
      simp only [List.zipIdx_cons, List.filter_cons]
      split <;> simp [ih]
  exact this sibs 0

/-- **the min/max family**: for a (leaf-)list `k` with `min-elements` ≤ `max-elements`, without `LYD_VALIDATE_OPERATIONAL`,
`lyd_validate_minmax` logs an error iff the number of instances is below `min` or (with a `max`) above `max` -/
theorem minmaxOut_nil_iff (S : Schema) (o : VOpts) (cx : Cx) (sibs : List DNode) (k : STree) (hop : o.operational = false)
    (hmm : k.info.max = 0 ∨ k.info.min ≤ k.info.max) (hmin : k.info.min ≤ uint32Max)
    (hlen : (instsOf sibs k.sid).length ≤ uint32Max) :
    (minmaxOut S o cx sibs k).errs = [] ↔
      ¬ ((instsOf sibs k.sid).length < k.info.min) ∧ ¬ (k.info.max ≠ 0 ∧ k.info.max < (instsOf sibs k.sid).length) := by
  unfold minmaxOut
  dsimp only
  have hlen' := instsIdx_length sibs k.sid
  by_cases h0 : (k.info.min == 0 && k.info.max == 0) = true
  · simp only [h0, if_true, Out.empty_errs, true_iff]
    simp only [Bool.and_eq_true, beq_iff_eq] at h0
    omega
  · simp only [h0, Bool.false_eq_true, if_false]
    -- the bound the C passes: UINT32_MAX for "unbounded"
    generalize hM : (if (k.info.max == 0) = true then uint32Max else k.info.max) = M
    have hM0 : M ≠ 0 := by
      rw [← hM]; split
      · decide
      · rename_i h; simpa using h
    have hMc : M = 0 ∨ k.info.min ≤ M := by
      right; rw [← hM]; split
      · exact hmin
      · rename_i h
        have : k.info.max ≠ 0 := by simpa using h
        omega
    have hMlen : (M < (instsOf sibs k.sid).length) ↔ (k.info.max ≠ 0 ∧ k.info.max < (instsOf sibs k.sid).length) := by
      rw [← hM]; split
      · rename_i h
        have : k.info.max = 0 := by simpa using h
        simp only [this, ne_eq, not_true_eq_false, false_and, iff_false]
        omega
      · rename_i h
        have : k.info.max ≠ 0 := by simpa using h
        simp [this]
    rw [minmaxCheck_spec k.info.min M (instsIdx sibs k.sid) hMc]
    by_cases hfew : k.info.min ≠ 0 ∧ (instsIdx sibs k.sid).length < k.info.min
    · rw [if_pos hfew]
      simp only [hop, Bool.false_eq_true, if_false, Out.err, Out.errs, List.filterMap_cons, List.filterMap_nil, reduceCtorEq,
        false_iff, not_and]
      intro hh; exfalso; apply hh; rw [← hlen']; exact hfew.2
    · rw [if_neg hfew]
      by_cases hmany : M ≠ 0 ∧ M < (instsIdx sibs k.sid).length
      · rw [dif_pos hmany]
        simp only [hop, Bool.false_eq_true, if_false, Out.err, Out.errs, List.filterMap_cons, List.filterMap_nil, reduceCtorEq,
          false_iff, not_and]
        intro _ hh
        have := hMlen.1 (by rw [← hlen']; exact hmany.2)
        exact hh this.1 this.2
      · rw [dif_neg hmany]
        simp only [Out.empty_errs, true_iff]
        constructor
        · intro hh; apply hfew; exact ⟨by omega, by rw [hlen']; exact hh⟩
        · intro hh; apply hmany; exact ⟨hM0, by rw [hlen']; exact hMlen.2 hh⟩

end LyModel.Valid
