import LyModel.Valid.LemmasValdiffImpl
/-!
# Lemmas for C07 `valdiff_exact`, part 4: one level of `lyd_new_implicit` — the merged change set (`lyd_val_diff_add`) applied to the
siblings the call got (`lyd_diff_apply_all`) gives the siblings it handed back
-/
namespace LyModel.Valid
open LyModel LyModel.Tree LyModel.Diff

theorem ofBytes_create' : Op.ofBytes (Diff.bs (evOp .create).str) = some .create := by decide +kernel

/-- a node without children and metadata (what `lyd_new_implicit` creates) -/
def Bare (n : DNode) : Prop := n.kids = [] ∧ n.metas = []

/-- the diff node of a created bare node: the copy with `yang:operation="create"` -/
def cdn (n : DNode) : DNode := n.setMetas [("operation", Diff.bs (evOp .create).str)]

theorem dupRec_bare (n : DNode) (h : Bare n) : dupRec n = n := by
  cases n with
  | term s f m v => simp only [Bare, DNode.metas] at h; simp [dupRec, h.2]
  | inner s f m ks =>
    simp only [Bare, DNode.metas, DNode.kids] at h
    obtain ⟨rfl, rfl⟩ := h
    cases f
    simp [dupRec, dupRecL]

/-- a recorded creation at the top of the tree, not user-ordered -/
def GoodEv (S : Schema) (e : Ev) : Prop :=
  e.op = .create ∧ e.anc = [] ∧ e.anchor = none ∧ Bare e.node ∧ S.isUserOrd e.node.sid = false

theorem evChain_good (S : Schema) (e : Ev) (h : GoodEv S e) : evChain S e = cdn e.node := by
  obtain ⟨h1, h2, h3, h4, _⟩ := h
  unfold evChain
  simp only [h1, h2, h3, dupRec_bare _ h4]
  unfold cdn addMeta
  rw [h4.2]
  rfl

@[simp] theorem cdn_sid (n : DNode) : (cdn n).sid = n.sid := by cases n <;> rfl
@[simp] theorem cdn_val (n : DNode) : (cdn n).val = n.val := by cases n <;> rfl
@[simp] theorem cdn_isTerm (n : DNode) : (cdn n).isTerm = n.isTerm := by cases n <;> rfl
@[simp] theorem cdn_kids (n : DNode) : (cdn n).kids = n.kids := by cases n <;> rfl
@[simp] theorem cdn_metas (n : DNode) : (cdn n).metas = [("operation", Diff.bs (evOp .create).str)] := by cases n <;> rfl

theorem opOfD_cdn (n : DNode) (inh : Op) : opOfD (cdn n) inh = .create := by
  simp [opOfD, getMeta, cdn_metas, ofBytes_create']

theorem setOp_cdn (n : DNode) : setOp (cdn n) .create = cdn n := by
  cases n <;> simp [setOp, cdn, addMeta, DNode.setMetas, DNode.metas, eraseMeta, evOp]

theorem findIdxFrom_none (p : DNode → Nat → Bool) : ∀ (l : List DNode) (i : Nat), (∀ x ∈ l, ∀ j, p x j = false) → findIdxFrom p l i = none
  | [], _, _ => rfl
  | x :: xs, i, h => by
    simp only [findIdxFrom, h x (List.mem_cons_self ..) i, Bool.false_eq_true, if_false]
    exact findIdxFrom_none p xs (i + 1) (fun y hy => h y (List.mem_cons_of_mem _ hy))

/-- no diff node collected so far is taken for the new one -/
theorem findMatchM_none (S : Schema) (A : List DNode) (n : DNode)
    (h : ∀ x ∈ A, x.sid ≠ n.sid ∨ (S.kind? n.sid = some .leaflist ∧ n.isTerm = true ∧ x.val ≠ n.val)) :
    findMatchM S A (cdn n) = none := by
  unfold findMatchM
  split
  · apply findIdxFrom_none
    intro x hx j
    rcases h x hx with h1 | ⟨hk, ht, hv⟩
    · simp [h1]
    · by_cases hs : x.sid = n.sid
      · have hv' : (x.val == n.val) = false := by simpa using hv
        simp only [cdn_sid, hs, beq_self_eq_true, Bool.true_and]
        unfold instMatch
        split
        · -- duplicate-instance leaf-list: full comparison
          cases n with
          | inner => cases ht
          | term s f m v =>
            cases x with
            | inner => simp [cdn, DNode.setMetas, fullEq]
            | term s' f' m' v' =>
              simp only [DNode.val] at hv'
              simp [cdn, DNode.setMetas, fullEq, hv']
        · simp only [sameInst, cdn_sid, hs, beq_self_eq_true, Bool.true_and, hk, cdn_val, hv']
      · simp [hs]
  · rename_i hnl
    apply findIdxFrom_none
    intro x hx j
    rcases h x hx with h1 | ⟨hk, _, _⟩
    · simp [h1]
    · exfalso
      apply hnl
      simp [Schema.isKind, hk]

theorem mergeR_add (S : Schema) (k : Nat) (A : List DNode) (n : DNode) (h : findMatchM S A (cdn n) = none) :
    mergeR S (k + 1) A .none (cdn n) .none = some (insertBySchema (cdn n) A) := by
  unfold mergeR
  simp only [h, opOfD_cdn, setOp_cdn]
  have : redundant S (cdn n) .create = false := by
    simp [redundant]
  simp [this]

/-- the diff nodes of the events so far all stand for data siblings -/
def Shadow (A sibs : List DNode) : Prop := ∀ x ∈ A, ∃ y ∈ sibs, y.sid = x.sid ∧ y.val = x.val

theorem valDiff_fresh (S : Schema) : ∀ (es : List Ev) (sibs A : List DNode), (∀ e ∈ es, GoodEv S e) → Fresh S sibs es → Shadow A sibs →
    es.foldlM (fun acc e => let c := evChain S e; mergeR S (c.height + 2) acc .none c .none) A =
      some (es.foldl (fun A e => insertBySchema (cdn e.node) A) A)
  | [], _, _, _, _, _ => rfl
  | e :: es, sibs, A, hg, hf, hs => by
    simp only [List.foldlM_cons, List.foldl_cons]
    have he := hg e (List.mem_cons_self ..)
    rw [evChain_good S e he]
    have hfm : findMatchM S A (cdn e.node) = none := by
      apply findMatchM_none
      intro x hx
      obtain ⟨y, hy, h1, h2⟩ := hs x hx
      rcases hf.1 y hy with h | ⟨a, b, c⟩
      · exact Or.inl (by rw [← h1]; exact h)
      · exact Or.inr ⟨a, b, by rw [← h2]; exact c⟩
    have := mergeR_add S ((cdn e.node).height + 1) A e.node hfm
    rw [show (cdn e.node).height + 2 = ((cdn e.node).height + 1) + 1 from rfl, this]
    simp only [Option.bind_eq_bind, Option.bind_some]
    apply valDiff_fresh S es (insertNode S sibs e.node) _ (fun e' he' => hg e' (List.mem_cons_of_mem _ he')) hf.2
    intro x hx
    rcases (mem_insertBySchema' (cdn e.node) A x).1 hx with rfl | hx
    · exact ⟨e.node, (mem_insertNode S sibs e.node e.node).2 (Or.inl rfl), by simp, by simp⟩
    · obtain ⟨y, hy, h1, h2⟩ := hs x hx
      exact ⟨y, (mem_insertNode S sibs e.node y).2 (Or.inr hy), h1, h2⟩

/-! ## `lyd_diff_apply_all` on a change set of top-level creations -/

theorem setKids_self (n : DNode) : n.setKids n.kids = n := by cases n <;> rfl

theorem applyNode_cdn (S : Schema) (fx : Fixes) (k : Nat) (sibs : List DNode) (n : DNode) (hb : Bare n)
    (hu : S.isUserOrd n.sid = false) :
    applyNode S fx (k + 1) sibs false none (cdn n) = .ok (insertNode S sibs (dupSingle S (cdn n))) := by
  have hown : ownOp (cdn n) = some .create := by
    simp [ownOp, getMeta, cdn_metas, ofBytes_create']
  simp only [applyNode, applyStep, effOp, hown, cdn_sid, hu, Bool.false_and, Bool.false_eq_true, if_false]
  unfold Diff.applyCreate Diff.applyKids
  have hk : (cdn n).kids = [] := by rw [cdn_kids]; exact hb.1
  simp only [hk, noKeys, List.dropWhile_nil, List.filter_nil, ite_self, List.foldlM_nil]
  show Except.ok (insertNode S sibs ((dupSingle S (cdn n)).setKids (dupSingle S (cdn n)).kids)) = _
  rw [setKids_self]

theorem apply_creates (S : Schema) (fx : Fixes) (k : Nat) : ∀ (N : List DNode) (sibs : List DNode),
    (∀ n ∈ N, Bare n ∧ S.isUserOrd n.sid = false) →
    (N.map cdn).foldlM (fun sibs d => applyNode S fx (k + 1) sibs false none d) sibs =
      .ok ((N.map cdn).foldl (fun acc d => insertNode S acc (dupSingle S d)) sibs)
  | [], _, _ => rfl
  | n :: ns, sibs, h => by
    simp only [List.map_cons, List.foldlM_cons, List.foldl_cons]
    rw [applyNode_cdn S fx k sibs n (h n (List.mem_cons_self ..)).1 (h n (List.mem_cons_self ..)).2]
    exact apply_creates S fx k ns _ (fun m hm => h m (List.mem_cons_of_mem _ hm))

theorem obsN_dupSingle_cdn (S : Schema) (n : DNode) (hb : Bare n) : obsN S (dupSingle S (cdn n)) = obsN S n := by
  cases n with
  | term s f m v => simp [cdn, DNode.setMetas, dupSingle, obsN]
  | inner s f m ks =>
    simp only [Bare, DNode.kids] at hb
    obtain ⟨rfl, _⟩ := hb
    simp [cdn, DNode.setMetas, dupSingle, obsN, obsL, keysOf]

end LyModel.Valid

namespace LyModel.Valid
open LyModel LyModel.Tree LyModel.Diff

theorem map_insertBySchema (f : DNode → DNode) (hf : ∀ x, (f x).sid = x.sid) (n : DNode) :
    ∀ A, (insertBySchema n A).map f = insertBySchema (f n) (A.map f)
  | [] => rfl
  | x :: xs => by
    simp only [insertBySchema, List.map_cons, hf]
    split
    · rfl
    · simp [map_insertBySchema f hf n xs]

theorem map_sortFrom (f : DNode → DNode) (hf : ∀ x, (f x).sid = x.sid) : ∀ (N A : List DNode),
    (N.foldl (fun A n => insertBySchema n A) A).map f = (N.map f).foldl (fun A n => insertBySchema n A) (A.map f)
  | [], _ => rfl
  | n :: ns, A => by
    simp only [List.foldl_cons, List.map_cons]
    rw [map_sortFrom f hf ns, map_insertBySchema f hf]

theorem map_sortIns (f : DNode → DNode) (hf : ∀ x, (f x).sid = x.sid) (N : List DNode) : (sortIns N).map f = sortIns (N.map f) := by
  unfold sortIns
  rw [map_sortFrom f hf N []]
  rfl

theorem mem_sortFrom : ∀ (N A : List DNode) (x : DNode), x ∈ N.foldl (fun A n => insertBySchema n A) A ↔ x ∈ A ∨ x ∈ N
  | [], A, x => by simp
  | n :: ns, A, x => by
    simp only [List.foldl_cons, mem_sortFrom ns, mem_insertBySchema', List.mem_cons]
    constructor
    · rintro ((h | h) | h)
      · exact Or.inr (Or.inl h)
      · exact Or.inl h
      · exact Or.inr (Or.inr h)
    · rintro (h | h | h)
      · exact Or.inl (Or.inr h)
      · exact Or.inl (Or.inl h)
      · exact Or.inr h

theorem mem_sortIns (N : List DNode) (x : DNode) : x ∈ sortIns N ↔ x ∈ N := by
  unfold sortIns
  rw [mem_sortFrom]
  simp

theorem map_congr_mem {α β : Type} (f g : α → β) : ∀ (l : List α), (∀ x ∈ l, f x = g x) → l.map f = l.map g
  | [], _ => rfl
  | x :: xs, h => by
    simp only [List.map_cons, h x (List.mem_cons_self ..)]
    rw [map_congr_mem f g xs (fun y hy => h y (List.mem_cons_of_mem _ hy))]

theorem obsL_foldl_via (S : Schema) {α : Type} (f : α → DNode) : ∀ (L : List α) (sibs : List DNode),
    obsL S (L.foldl (fun acc d => insertNode S acc (f d)) sibs) = (L.map (fun d => obsN S (f d))).foldl (insertNode S) (obsL S sibs)
  | [], _ => rfl
  | x :: xs, sibs => by
    simp only [List.foldl_cons, List.map_cons]
    rw [obsL_foldl_via S f xs, obsL_insertNode]

/-- **one level of `lyd_new_implicit`, literally**: the change set `lyd_val_diff_add` collects over the call, applied with
`lyd_diff_apply_all` to the siblings the call got, gives the siblings it handed back (up to `obsL`) -/
theorem implL_valdiff (X : SchemaX) (o : VOpts) (fx : Fixes) (cx : Cx) (ks : List STree) (sibs sibs' : List DNode)
    (hanc : cx.anc = []) (hok : OkBelowL X.base ks)
    (hno : ∀ e ∈ (implL X o cx ks sibs).2.evs, X.base.isUserOrd e.node.sid = false) (hs : obsL X.base sibs' = obsL X.base sibs) :
    ∃ D r, valDiff X.base (implL X o cx ks sibs).2.evs = some D ∧ Diff.apply X.base sibs' D fx = .ok r ∧
      obsL X.base r = obsL X.base (implL X o cx ks sibs).1 ∧ D.length = (implL X o cx ks sibs).2.evs.length := by
  have tr := implL_tr X o cx ks sibs hok
  have htree := tr.tree
  have hfresh := tr.fresh
  have hat := tr.at_
  have bel : ∀ e ∈ (implL X o cx ks sibs).2.evs, ∃ k, BelowL k ks ∧ IsImplicitOf k e := implL_below X o cx ks sibs
  generalize (implL X o cx ks sibs).2.evs = evs at htree hfresh hat bel hno ⊢
  have hgood : ∀ e ∈ evs, GoodEv X.base e := by
    intro e he
    obtain ⟨k, hk, h1, _, h3, _, h5, _, _⟩ := bel e he
    obtain ⟨a1, a2, a3⟩ := hat e he
    have hu : X.base.isUserOrd e.node.sid = false := hno e he
    exact ⟨h1, by rw [a1, hanc], a3 hu, ⟨h5, a2⟩, hu⟩
  let N := evs.map (·.node)
  have hbare : ∀ n ∈ N, Bare n ∧ X.base.isUserOrd n.sid = false := by
    intro n hn
    obtain ⟨e, he, rfl⟩ := List.mem_map.1 hn
    exact ⟨(hgood e he).2.2.2.1, (hgood e he).2.2.2.2⟩
  have hD : valDiff X.base evs = some ((sortIns N).map cdn) := by
    unfold valDiff
    rw [valDiff_fresh X.base evs sibs [] hgood hfresh (by intro x hx; cases hx)]
    congr 1
    rw [map_sortIns cdn cdn_sid]
    unfold sortIns
    rw [List.map_map, List.foldl_map]
    rfl
  refine ⟨(sortIns N).map cdn, ((sortIns N).map cdn).foldl (fun acc d => insertNode X.base acc (dupSingle X.base d)) sibs', hD, ?_, ?_, ?_⟩
  · unfold Diff.apply
    exact apply_creates X.base fx _ (sortIns N) sibs' (fun n hn => hbare n ((mem_sortIns N n).1 hn))
  · rw [htree]
    unfold replay
    rw [obsL_foldl_via, obsL_foldl_via, List.map_map, hs]
    have h3 : (sortIns N).map ((fun d => obsN X.base (dupSingle X.base d)) ∘ cdn) = (sortIns N).map (obsN X.base) := by
      apply map_congr_mem
      intro n hn
      exact obsN_dupSingle_cdn X.base n (hbare n ((mem_sortIns N n).1 hn)).1
    have h4 : evs.map (fun e => obsN X.base e.node) = N.map (obsN X.base) := by
      simp only [N, List.map_map]; rfl
    rw [h3, h4, map_sortIns (obsN X.base) (sid_obsN X.base), foldl_insertNode_sortIns]
  · have : ∀ (M A : List DNode), (M.foldl (fun A n => insertBySchema n A) A).length = A.length + M.length := by
      intro M
      induction M with
      | nil => intro A; simp
      | cons m ms ih =>
        intro A
        simp only [List.foldl_cons, ih, List.length_cons]
        have : ∀ (l : List DNode), (insertBySchema m l).length = l.length + 1 := by
          intro l
          induction l with
          | nil => rfl
          | cons x xs ih2 => simp only [insertBySchema]; split <;> simp [ih2]
        rw [this]; omega
    simp only [List.length_map, sortIns, this, List.length_nil, Nat.zero_add, N]

end LyModel.Valid
