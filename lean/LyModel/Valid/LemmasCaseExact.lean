import LyModel.Valid.LemmasCaseImpl
/-! `implicit_exact` (C07) through choices: which schema nodes of a sibling level get implicit instances from the repaired
`lyd_new_implicit` (F180) — the default-bearing nodes all of whose enclosing cases are *selected*: the case that has data, else,
when no case of the choice has data, the default case (RFC 7950 §7.9.3). -/
namespace LyModel.Valid
open LyModel LyModel.Tree

/-- a non-choice node of the level with this schema id gets implicit data -/
def wantNodes (o : VOpts) (ks : List STree) (sid : Nat) : Bool := ks.any fun k => wantsImplicit o k && k.sid == sid

mutual
/-- the schema id is in use through this choice: it is wanted in the selected case (`H` = "this schema node has an instance") -/
def wantChoice (o : VOpts) (H : Nat → Bool) (sid : Nat) : STree → Bool
  | .mk _ i cases =>
    if i.kind != .choice || (o.noState && !i.config) then false
    else
      match wantFirst o H sid cases with
      | some b => b
      | none =>
        match i.dfltCase with
        | some nm => wantNamed o H sid nm cases
        | none => false
/-- wanted among the children of a case (or of a data node): through one of its choices, or directly -/
def wantCase (o : VOpts) (H : Nat → Bool) (sid : Nat) : STree → Bool
  | .mk _ _ ks => wantChoices o H sid ks || wantNodes o ks sid
def wantChoices (o : VOpts) (H : Nat → Bool) (sid : Nat) : List STree → Bool
  | [] => false
  | k :: rest => wantChoice o H sid k || wantChoices o H sid rest
/-- the first case that has data -/
def wantFirst (o : VOpts) (H : Nat → Bool) (sid : Nat) : List STree → Option Bool
  | [] => none
  | c :: rest => if c.dataSids.any H then some (wantCase o H sid c) else wantFirst o H sid rest
def wantNamed (o : VOpts) (H : Nat → Bool) (sid : Nat) (nm : String) : List STree → Bool
  | [] => false
  | c :: rest => if c.info.name == nm then wantCase o H sid c else wantNamed o H sid nm rest
end

/-- the schema ids of a level that get implicit instances -/
def wantL (o : VOpts) (H : Nat → Bool) (ks : List STree) (sid : Nat) : Bool := wantChoices o H sid ks || wantNodes o ks sid

theorem wantFirst_eq (o : VOpts) (H : Nat → Bool) (sid : Nat) : ∀ (cases : List STree),
    wantFirst o H sid cases = (cases.find? (fun c => c.dataSids.any H)).map (wantCase o H sid) := by
  intro cases
  induction cases with
  | nil => rw [wantFirst]; rfl
  | cons c rest ih =>
    rw [wantFirst, List.find?_cons]
    by_cases h : c.dataSids.any H = true
    · simp only [h, if_true, Option.map_some]
    · have h' : c.dataSids.any H = false := by simpa using h
      simp only [h', Bool.false_eq_true, if_false]
      exact ih

theorem wantNamed_eq (o : VOpts) (H : Nat → Bool) (sid : Nat) (nm : String) : ∀ (cases : List STree),
    wantNamed o H sid nm cases = match cases.find? (fun c => c.info.name == nm) with
      | some c => wantCase o H sid c
      | none => false := by
  intro cases
  induction cases with
  | nil => rw [wantNamed]; rfl
  | cons c rest ih =>
    rw [wantNamed, List.find?_cons]
    by_cases h : (c.info.name == nm) = true
    · simp only [h, if_true]
    · have h' : (c.info.name == nm) = false := by simpa using h
      simp only [h', Bool.false_eq_true, if_false]
      exact ih

/-- **in use through a choice** = wanted in the selected case: the first case that has data, else the default case -/
theorem wantChoice_sel (o : VOpts) (H : Nat → Bool) (sid : Nat) (s : Nat) (i : SNode) (cases : List STree) :
    wantChoice o H sid (.mk s i cases) =
      if (i.kind != .choice || (o.noState && !i.config)) = true then false
      else match selCase i cases H with
        | some c => wantCase o H sid c
        | none => false := by
  rw [wantChoice]
  split
  · rfl
  · rw [wantFirst_eq]
    unfold selCase
    cases hf : cases.find? (fun c => c.dataSids.any H) with
    | some c => rfl
    | none =>
      simp only [Option.map_none]
      cases hd : i.dfltCase with
      | none => rfl
      | some nm => simp only []; exact wantNamed_eq o H sid nm cases

theorem wantCase_mk (o : VOpts) (H : Nat → Bool) (sid : Nat) (s : Nat) (i : SNode) (ks : List STree) :
    wantCase o H sid (.mk s i ks) = (wantChoices o H sid ks || wantNodes o ks sid) := by rw [wantCase]

theorem wantChoices_cons (o : VOpts) (H : Nat → Bool) (sid : Nat) (k : STree) (rest : List STree) :
    wantChoices o H sid (k :: rest) = (wantChoice o H sid k || wantChoices o H sid rest) := by rw [wantChoices]

/-! ## only the instances of the data sids below matter -/

mutual
theorem want_congr_T (o : VOpts) (H H' : Nat → Bool) (sid : Nat) : ∀ (t : STree), kindsOk t = true →
    (Agree t.dataSids H H' → wantChoice o H sid t = wantChoice o H' sid t) ∧
    (Agree (dataSidsL t.kids) H H' → wantCase o H sid t = wantCase o H' sid t)
  | .mk s i ks, hk => by
    have hk' := hk
    rw [kindsOk_mk] at hk'
    simp only [Bool.and_eq_true] at hk'
    have ihL := want_congr_L o H H' sid ks hk'.2
    constructor
    · intro hag
      rw [wantChoice_sel, wantChoice_sel]
      split
      · rfl
      · rename_i hc
        have hkind := choice_kind_of_not_skip hc
        rw [dataSids_choice hkind] at hag
        rw [selCase_congr i ks hag]
        cases hsel : selCase i ks H' with
        | none => rfl
        | some c =>
          have hcm := selCase_mem hsel
          have hck := choice_cases_kind hk hkind c hcm
          apply ihL.2 c hcm
          rw [← dataSids_case hck]
          exact hag.sub (dataSids_sub_L hcm)
    · intro hag
      simp only [STree.kids] at hag
      rw [wantCase_mk, wantCase_mk, ihL.1 hag]
theorem want_congr_L (o : VOpts) (H H' : Nat → Bool) (sid : Nat) : ∀ (ks : List STree), kindsOkL ks = true →
    (Agree (dataSidsL ks) H H' → wantChoices o H sid ks = wantChoices o H' sid ks) ∧
    (∀ c ∈ ks, Agree (dataSidsL c.kids) H H' → wantCase o H sid c = wantCase o H' sid c)
  | [], _ => by
    constructor
    · intro _; rw [wantChoices, wantChoices]
    · intro c hc; cases hc
  | k :: rest, hk => by
    rw [kindsOkL_cons] at hk
    simp only [Bool.and_eq_true] at hk
    have ihT := want_congr_T o H H' sid k hk.1
    have ihL := want_congr_L o H H' sid rest hk.2
    constructor
    · intro hag
      rw [dataSidsL_cons] at hag
      rw [wantChoices_cons, wantChoices_cons, ihT.1 (hag.sub (fun x hx => List.mem_append_left _ hx)),
        ihL.1 (hag.sub (fun x hx => List.mem_append_right _ hx))]
    · intro c hc
      cases hc with
      | head => exact ihT.2
      | tail _ hc => exact ihL.2 c hc
end

/-! ## exactness -/

mutual
theorem impl_exact_T (X : SchemaX) (o : VOpts) (cx : Cx) (hq : X.q.implicitInnerCase = false) : ∀ (t : STree), kindsOk t = true →
    ∀ (sibs : List DNode),
    (t.dataSids.Nodup → ∀ sid, hasInst (implChoice X o cx t sibs).1 sid = (hasInst sibs sid || wantChoice o (hasInst sibs) sid t)) ∧
    ((dataSidsL t.kids).Nodup → ∀ sid, hasInst (implCase X o cx t sibs).1 sid = (hasInst sibs sid || wantCase o (hasInst sibs) sid t))
  | .mk s i ks, hk, sibs => by
    have hk' := hk
    rw [kindsOk_mk] at hk'
    simp only [Bool.and_eq_true] at hk'
    have ihL := impl_exact_L X o cx hq ks hk'.2
    constructor
    · intro hnd sid
      rw [implChoice_sel X o cx hq, wantChoice_sel]
      split
      · simp
      · rename_i hc
        have hkind := choice_kind_of_not_skip hc
        rw [dataSids_choice hkind] at hnd
        cases hsel : selCase i ks (hasInst sibs) with
        | none => simp
        | some c =>
          have hcm := selCase_mem hsel
          have hck := choice_cases_kind hk hkind c hcm
          have hndc : (dataSidsL c.kids).Nodup := by rw [← dataSids_case hck]; exact nodup_of_mem_cases hnd hcm
          exact (ihL sibs).2 c hcm sibs hndc sid
    · intro hnd sid
      simp only [STree.kids] at hnd
      have h1 := (ihL sibs).1 hnd sid
      rw [implCase, wantCase_mk]
      dsimp only
      rw [implNodes_hasInst, h1, Bool.or_assoc]
      rfl
theorem impl_exact_L (X : SchemaX) (o : VOpts) (cx : Cx) (hq : X.q.implicitInnerCase = false) : ∀ (ks : List STree), kindsOkL ks = true →
    ∀ (sibs : List DNode),
    ((dataSidsL ks).Nodup → ∀ sid, hasInst (implChoices X o cx ks sibs).1 sid = (hasInst sibs sid || wantChoices o (hasInst sibs) sid ks)) ∧
    (∀ c ∈ ks, ∀ (sibs : List DNode), (dataSidsL c.kids).Nodup →
      ∀ sid, hasInst (implCase X o cx c sibs).1 sid = (hasInst sibs sid || wantCase o (hasInst sibs) sid c))
  | [], _, sibs => by
    constructor
    · intro _ sid
      rw [implChoices, wantChoices]
      simp
    · intro c hc; cases hc
  | k :: rest, hk, sibs => by
    have hk' := hk
    rw [kindsOkL_cons] at hk'
    simp only [Bool.and_eq_true] at hk'
    have ihT := impl_exact_T X o cx hq k hk'.1
    have ihL := impl_exact_L X o cx hq rest hk'.2
    constructor
    · intro hnd sid
      rw [dataSidsL_cons] at hnd
      obtain ⟨hnd1, hnd2, hdis⟩ := List.nodup_append.1 hnd
      have h1 := (ihT sibs).1 hnd1 sid
      have hpost := ((impl_done_T X o cx hq k hk'.1 sibs).1 hnd1).1
      rw [implChoices, wantChoices_cons]
      generalize implChoice X o cx k sibs = r1 at h1 hpost
      dsimp only
      rw [(ihL r1.1).1 hnd2 sid, h1, Bool.or_assoc]
      congr 2
      apply (want_congr_L o _ _ sid rest hk'.2).1
      intro sid' hsid'
      rw [Bool.eq_iff_iff]
      constructor
      · intro h
        rcases hpost.2 sid' h with h | h
        · exact h
        · exact absurd rfl (hdis sid' h sid' hsid')
      · exact hpost.1 sid'
    · intro c hc
      cases hc with
      | head => exact fun sibs => (ihT sibs).2
      | tail _ hc => exact (ihL sibs).2 c hc
end

/-- **`lyd_new_implicit` on a level with choices** (repaired variant): afterwards a schema node has an instance iff it had one or is
in use -/
theorem implL_exact (X : SchemaX) (o : VOpts) (cx : Cx) (hq : X.q.implicitInnerCase = false) (ks : List STree) (hk : kindsOkL ks = true)
    (hnd : (dataSidsL ks).Nodup) (sibs : List DNode) (sid : Nat) :
    hasInst (implL X o cx ks sibs).1 sid = (hasInst sibs sid || wantL o (hasInst sibs) ks sid) := by
  have h := (impl_exact_T X o cx hq (.mk 0 { depth := 0, kind := .case, name := "" } ks) (by rw [kindsOk_mk]; simp [hk]) sibs).2 hnd sid
  rw [implCase, wantCase_mk] at h
  exact h

end LyModel.Valid

namespace LyModel.Valid
open LyModel LyModel.Tree

/-! ## nothing left to create = every schema node in use has an instance -/

theorem wantChoices_any (o : VOpts) (H : Nat → Bool) (sid : Nat) : ∀ (ks : List STree),
    wantChoices o H sid ks = true ↔ ∃ k ∈ ks, wantChoice o H sid k = true := by
  intro ks
  induction ks with
  | nil => rw [wantChoices]; simp
  | cons k rest ih =>
    rw [wantChoices_cons, Bool.or_eq_true, ih]
    simp only [List.mem_cons, exists_eq_or_imp]

theorem doneNodes_iff (o : VOpts) (H : Nat → Bool) (ks : List STree) :
    doneNodes o H ks = true ↔ ∀ sid, wantNodes o ks sid = true → H sid = true := by
  unfold doneNodes wantNodes
  rw [List.all_eq_true]
  constructor
  · intro h sid hw
    obtain ⟨k, hk, hk2⟩ := List.any_eq_true.1 hw
    simp only [Bool.and_eq_true, beq_iff_eq] at hk2
    have := h k hk
    rw [hk2.1, hk2.2] at this
    simpa using this
  · intro h k hk
    by_cases hw : wantsImplicit o k = true
    · have := h k.sid (List.any_eq_true.2 ⟨k, hk, by simp [hw]⟩)
      simp [this]
    · have : wantsImplicit o k = false := by simpa using hw
      simp [this]

mutual
theorem done_iff_want_T (o : VOpts) (H : Nat → Bool) : ∀ (t : STree),
    (doneChoice o H t = true ↔ ∀ sid, wantChoice o H sid t = true → H sid = true) ∧
    (doneCase o H t = true ↔ ∀ sid, wantCase o H sid t = true → H sid = true)
  | .mk s i ks => by
    have ihL := done_iff_want_L o H ks
    constructor
    · rw [doneChoice_sel]
      split
      · rename_i hc
        simp only [wantChoice_sel, hc, if_true, Bool.false_eq_true, false_imp_iff, implies_true]
      · rename_i hc
        cases hsel : selCase i ks H with
        | none =>
          simp only [wantChoice_sel, hc, if_false, hsel, Bool.false_eq_true, false_imp_iff, implies_true]
        | some c =>
          simp only [wantChoice_sel, hc, hsel]
          exact ihL.2 c (selCase_mem hsel)
    · rw [doneCase]
      simp only [Bool.and_eq_true, wantCase_mk, Bool.or_eq_true]
      rw [ihL.1, doneNodes_iff]
      constructor
      · rintro ⟨h1, h2⟩ sid (h | h)
        · exact h1 sid h
        · exact h2 sid h
      · intro h
        exact ⟨fun sid hw => h sid (Or.inl hw), fun sid hw => h sid (Or.inr hw)⟩
theorem done_iff_want_L (o : VOpts) (H : Nat → Bool) : ∀ (ks : List STree),
    (doneChoices o H ks = true ↔ ∀ sid, wantChoices o H sid ks = true → H sid = true) ∧
    (∀ c ∈ ks, (doneCase o H c = true ↔ ∀ sid, wantCase o H sid c = true → H sid = true))
  | [] => by
    constructor
    · rw [doneChoices]
      simp only [true_iff]
      intro sid h
      rw [wantChoices] at h
      cases h
    · intro c hc; cases hc
  | k :: rest => by
    have ihT := done_iff_want_T o H k
    have ihL := done_iff_want_L o H rest
    constructor
    · rw [doneChoices]
      simp only [Bool.and_eq_true, wantChoices_cons, Bool.or_eq_true]
      rw [ihT.1, ihL.1]
      constructor
      · rintro ⟨h1, h2⟩ sid (h | h)
        · exact h1 sid h
        · exact h2 sid h
      · intro h
        exact ⟨fun sid hw => h sid (Or.inl hw), fun sid hw => h sid (Or.inr hw)⟩
    · intro c hc
      cases hc with
      | head => exact ihT.2
      | tail _ hc => exact ihL.2 c hc
end

/-- **`lyd_new_implicit` has nothing to do on a level iff every schema node in use has an instance** -/
theorem implDoneX_iff (o : VOpts) (ks : List STree) (sibs : List DNode) :
    implDoneX o ks sibs = true ↔ ∀ sid, wantL o (hasInst sibs) ks sid = true → hasInst sibs sid = true := by
  unfold implDoneX wantL
  simp only [Bool.and_eq_true, Bool.or_eq_true]
  rw [(done_iff_want_L o (hasInst sibs) ks).1, doneNodes_iff]
  constructor
  · rintro ⟨h1, h2⟩ sid (h | h)
    · exact h1 sid h
    · exact h2 sid h
  · intro h
    exact ⟨fun sid hw => h sid (Or.inl hw), fun sid hw => h sid (Or.inr hw)⟩

end LyModel.Valid
