import LyModel.Valid.Final
/-! Helper lemmas for `unique_hash_eq_pairwise` (C02): both paths of `lyd_validate_unique` against the pairwise relation. -/
namespace LyModel.Valid
open LyModel LyModel.Tree

/-- some earlier element is related to a later one -/
def existsPair {α : Type} (p : α → α → Bool) : List α → Bool
  | [] => false
  | x :: xs => xs.any (p x) || existsPair p xs

/-- two list entries agree on every leaf of one `unique` statement, all of them set (instance or default) -/
def uniqViolPair (X : SchemaX) (lst : Nat) (uniques : List (List Nat)) (a b : DNode × Nat) : Bool :=
  uniques.any fun u => uniqEqual X lst u a.1 b.1

/-- `mapM` in `Option` over two lists of the same shape -/
theorem mapM_some_iff {α β : Type} (f : α → Option β) : ∀ (l : List α) (r : List β),
    l.mapM f = some r ↔ l.map f = r.map some := by
  intro l
  induction l with
  | nil => intro r; cases r <;> simp
  | cons x xs ih =>
    intro r
    simp only [List.mapM_cons, List.map_cons]
    cases hfx : f x with
    | none => cases r <;> simp
    | some y =>
      cases r with
      | nil =>
        simp only [Option.pure_def, Option.bind_eq_bind, Option.bind_some, List.map_nil, reduceCtorEq, iff_false]
        cases h : xs.mapM f <;> simp
      | cons z zs =>
        simp only [Option.pure_def, Option.bind_eq_bind, Option.bind_some, List.map_cons, List.cons.injEq, Option.some.injEq]
        cases h : xs.mapM f with
        | none =>
          simp only [Option.bind_none, reduceCtorEq, false_iff, not_and]
          intro _ hc
          have := (ih zs).2 hc
          rw [h] at this
          cases this
        | some w =>
          simp only [Option.bind_some, Option.some.injEq, List.cons.injEq]
          constructor
          · rintro ⟨h1, h2⟩
            exact ⟨h1, (ih zs).1 (by rw [h, h2])⟩
          · rintro ⟨h1, h2⟩
            have := (ih zs).2 h2
            rw [h] at this
            exact ⟨h1, by injection this⟩

/-- the callback's verdict in terms of the tuples: both complete and equal, and the statement names at least one leaf -/
theorem uniqEqual_iff_tuple (X : SchemaX) (lst : Nat) (u : List Nat) (a b : DNode) :
    uniqEqual X lst u a b = true ↔ u ≠ [] ∧ ∃ v, uniqTuple X lst u a = some v ∧ uniqTuple X lst u b = some v := by
  unfold uniqEqual uniqTuple
  simp only [Bool.and_eq_true, Bool.not_eq_eq_eq_not, Bool.not_true, List.isEmpty_eq_false_iff, ne_eq, List.all_eq_true]
  constructor
  · rintro ⟨hne, hall⟩
    refine ⟨hne, u.map (fun leaf => (uniqVal X lst a leaf).getD []), ?_, ?_⟩
    · rw [mapM_some_iff]
      simp only [List.map_map]
      apply List.map_congr_left
      intro leaf hl
      have := hall leaf hl
      cases ha : uniqVal X lst a leaf <;> cases hb : uniqVal X lst b leaf <;> simp_all
    · rw [mapM_some_iff]
      simp only [List.map_map]
      apply List.map_congr_left
      intro leaf hl
      have := hall leaf hl
      cases ha : uniqVal X lst a leaf <;> cases hb : uniqVal X lst b leaf <;> simp_all
  · rintro ⟨hne, v, ha, hb⟩
    refine ⟨hne, ?_⟩
    rw [mapM_some_iff] at ha hb
    intro leaf hl
    have hab : u.map (uniqVal X lst a) = u.map (uniqVal X lst b) := by rw [ha, hb]
    have h1 : uniqVal X lst a leaf = uniqVal X lst b leaf := List.map_inj_left.1 hab leaf hl
    have h2 : (uniqVal X lst a leaf).isSome := by
      have : uniqVal X lst a leaf ∈ v.map some := by rw [← ha]; exact List.mem_map_of_mem hl
      obtain ⟨w, _, hw⟩ := List.mem_map.1 this
      rw [← hw]; rfl
    rw [← h1]
    cases h : uniqVal X lst a leaf with
    | none => rw [h] at h2; cases h2
    | some w => simp

theorem uniqEqual_symm (X : SchemaX) (lst : Nat) (u : List Nat) (a b : DNode) :
    uniqEqual X lst u a b = uniqEqual X lst u b a := by
  rw [Bool.eq_iff_iff, uniqEqual_iff_tuple, uniqEqual_iff_tuple]
  constructor
  · rintro ⟨h, v, h1, h2⟩; exact ⟨h, v, h2, h1⟩
  · rintro ⟨h, v, h1, h2⟩; exact ⟨h, v, h2, h1⟩

/-- an insert into the table of `u` fails exactly when an instance seen before is equal for `u`, whatever the hash function -/
theorem utFind_isSome (X : SchemaX) (lst : Nat) (hash : List Bytes → Nat) (u : List Nat) (seen : List (DNode × Nat))
    (inst : DNode × Nat) :
    (utFind X lst hash u seen inst).isSome = seen.any (fun r => uniqEqual X lst u inst.1 r.1) := by
  unfold utFind
  cases ht : uniqTuple X lst u inst.1 with
  | none =>
    simp only [Option.isSome_none]
    symm
    rw [List.any_eq_false]
    intro r _ hr
    have := (uniqEqual_iff_tuple X lst u inst.1 r.1).1 hr
    obtain ⟨_, v, hv, _⟩ := this
    rw [ht] at hv; cases hv
  | some vals =>
    dsimp only
    rw [Bool.eq_iff_iff]
    simp only [List.find?_isSome, List.any_eq_true]
    constructor
    · rintro ⟨r, hr, hp⟩
      refine ⟨r, hr, ?_⟩
      cases hrt : uniqTuple X lst u r.1 with
      | none => rw [hrt] at hp; cases hp
      | some rv =>
        rw [hrt] at hp
        simp only [Bool.and_eq_true] at hp
        exact hp.2
    · rintro ⟨r, hr, hp⟩
      refine ⟨r, hr, ?_⟩
      obtain ⟨_, v, hv1, hv2⟩ := (uniqEqual_iff_tuple X lst u inst.1 r.1).1 hp
      rw [ht] at hv1
      injection hv1 with hv1
      subst hv1
      rw [hv2]
      simp [hp]

theorem utFind_mem (X : SchemaX) (lst : Nat) (hash : List Bytes → Nat) (u : List Nat) (seen : List (DNode × Nat))
    (inst hit : DNode × Nat) (h : utFind X lst hash u seen inst = some hit) :
    hit ∈ seen ∧ uniqEqual X lst u inst.1 hit.1 = true := by
  unfold utFind at h
  cases ht : uniqTuple X lst u inst.1 with
  | none => rw [ht] at h; cases h
  | some vals =>
    rw [ht] at h
    simp only at h
    refine ⟨List.mem_of_find?_eq_some h, ?_⟩
    have := List.find?_some h
    cases hrt : uniqTuple X lst u hit.1 with
    | none => rw [hrt] at this; cases this
    | some rv =>
      rw [hrt] at this
      simp only [Bool.and_eq_true] at this
      exact this.2

/-- the hash-table path finds something iff some instance is equal, for some `unique` statement, to one in front of it (among the
ones seen before or in the rest) -/
theorem uniqueHash_isSome (X : SchemaX) (lst : Nat) (hash : List Bytes → Nat) (uniques : List (List Nat)) :
    ∀ (rest seen : List (DNode × Nat)),
      (uniqueHash X lst hash uniques seen rest).isSome =
        (rest.any (fun b => seen.any (fun a => uniqViolPair X lst uniques a b)) || existsPair (uniqViolPair X lst uniques) rest) := by
  intro rest
  induction rest with
  | nil => intro seen; simp [uniqueHash, existsPair]
  | cons inst rest ih =>
    intro seen
    unfold uniqueHash
    have hfind : (uniques.findSome? (fun u => utFind X lst hash u seen inst)).isSome =
        seen.any (fun a => uniqViolPair X lst uniques a inst) := by
      rw [Bool.eq_iff_iff]
      simp only [List.findSome?_isSome_iff, List.any_eq_true, uniqViolPair]
      constructor
      · rintro ⟨u, hu, hs⟩
        rw [utFind_isSome] at hs
        obtain ⟨r, hr, hp⟩ := List.any_eq_true.1 hs
        exact ⟨r, hr, u, hu, by rw [uniqEqual_symm]; exact hp⟩
      · rintro ⟨r, hr, u, hu, hp⟩
        refine ⟨u, hu, ?_⟩
        rw [utFind_isSome]
        exact List.any_eq_true.2 ⟨r, hr, by rw [uniqEqual_symm]; exact hp⟩
    cases hf : uniques.findSome? (fun u => utFind X lst hash u seen inst) with
    | some hit =>
      rw [hf] at hfind
      simp only [Option.isSome_some] at hfind ⊢
      simp only [List.any_cons, ← hfind, Bool.true_or]
    | none =>
      rw [hf] at hfind
      simp only [Option.isSome_none] at hfind
      simp only []
      rw [ih (seen ++ [inst])]
      simp only [List.any_cons, ← hfind, Bool.false_or, existsPair, List.any_append, List.any_nil, Bool.or_false]
      rw [Bool.eq_iff_iff]
      simp only [Bool.or_eq_true, List.any_eq_true]
      constructor
      · rintro (⟨b, hb, h⟩ | h)
        · rcases h with ⟨a, ha, h⟩ | h
          · exact Or.inl ⟨b, hb, a, ha, h⟩
          · exact Or.inr (Or.inl ⟨b, hb, h⟩)
        · exact Or.inr (Or.inr h)
      · rintro (⟨b, hb, a, ha, h⟩ | ⟨b, hb, h⟩ | h)
        · exact Or.inl ⟨b, hb, Or.inl ⟨a, ha, h⟩⟩
        · exact Or.inl ⟨b, hb, Or.inr h⟩
        · exact Or.inr h

end LyModel.Valid
