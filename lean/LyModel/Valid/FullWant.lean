import LyModel.Valid.FullReach
import LyModel.Valid.FullSel
import LyModel.Valid.LemmasCaseStable
/-!
# C02, full schema language: what `lyd_new_implicit` creates is visited by the specification or sits in a default case

`want_reach`: a schema id in use on a level (`wantL`) belongs to a schema node that gets implicit data (`wantsImplicit`) and that the
specification visits on that level (`Reach`: directly or through cases that have data) or that is a child of the default case of a
choice at or below the level (`InDflt`).
-/
namespace LyModel.Valid
open LyModel LyModel.Tree

/-- `k` is a child of a case that is the default case of a choice at or below the level `sk` -/
def InDflt (sk : List STree) (k : STree) : Prop :=
  ∃ ch c, BelowL ch sk ∧ ch.info.kind = .choice ∧ c ∈ ch.kids ∧ ch.info.dfltCase = some c.info.name ∧ k ∈ c.kids

theorem InDflt.mono {sk sk' : List STree} {k : STree} (hs : ∀ k', BelowL k' sk → BelowL k' sk') (h : InDflt sk k) : InDflt sk' k := by
  obtain ⟨ch, c, hb, hk, hc, hd, hm⟩ := h
  exact ⟨ch, c, hs ch hb, hk, hc, hd, hm⟩

/-- the kinds of schema node that get implicit data -/
theorem reach_kind_of_wants {o : VOpts} {k : STree} (h : wantsImplicit o k = true) :
    k.info.kind = .container ∧ k.info.presence = false ∨ k.info.kind = .leaf ∧ k.info.dflts ≠ [] ∨
      k.info.kind = .leaflist ∧ k.info.dflts ≠ [] := by
  unfold wantsImplicit at h
  simp only [Bool.and_eq_true, Bool.or_eq_true, beq_iff_eq, Bool.not_eq_eq_eq_not, Bool.not_true, List.isEmpty_eq_false_iff] at h
  rcases h.2 with (h3 | h3) | h3
  · exact Or.inl h3
  · exact Or.inr (Or.inl h3)
  · exact Or.inr (Or.inr h3)

/-- no implicit data for a state node when the content is configuration only -/
theorem wants_not_state {o : VOpts} {k : STree} (h : wantsImplicit o k = true) : (o.noState && !k.info.config) = false := by
  unfold wantsImplicit at h
  simp only [Bool.and_eq_true, Bool.not_eq_eq_eq_not, Bool.not_true] at h
  exact h.1.2

theorem kindsOk_kids_w {k : STree} (h : kindsOk k = true) : kindsOkL k.kids = true := by
  cases k with
  | mk s i ks =>
    rw [kindsOk_mk] at h
    simp only [Bool.and_eq_true] at h
    exact h.2

/-- the nodes below the children of a case of a choice of the level are below the level -/
theorem belowL_of_case {sk : List STree} {ch c : STree} (hch : ch ∈ sk) (hc : c ∈ ch.kids) :
    ∀ k', BelowL k' c.kids → BelowL k' sk := fun _ hb =>
  belowL_trans (BelowL.of_mem hch) (below_trans (below_of_kids (BelowL.of_mem hc)) (below_of_kids hb))

theorem any_of_sub {H : Nat → Bool} {l l' : List Nat} (hs : ∀ x ∈ l, x ∈ l') (h : l.any H = true) : l'.any H = true := by
  obtain ⟨x, hx, hH⟩ := List.any_eq_true.1 h
  exact List.any_eq_true.2 ⟨x, hs x hx, hH⟩

/-- a case without data that the selection picked is the default case -/
theorem selCase_dflt_of_noData {i : SNode} {cases : List STree} {H : Nat → Bool} {c : STree} (h : selCase i cases H = some c)
    (hd : ¬ c.dataSids.any H = true) : i.dfltCase = some c.info.name := by
  unfold selCase at h
  split at h
  · rename_i c' hf
    injection h with h
    subst h
    exact absurd (List.find?_some hf) hd
  · split at h
    · rename_i nm hnm
      have := List.find?_some h
      rw [beq_iff_eq] at this
      rw [hnm, this]
    · cases h

/-- a level that the specification enters through a nested case with data has data -/
theorem reach_through_data {H : Nat → Bool} {c ch c2 : STree} (hck : c.info.kind = .case) (hch : ch ∈ c.kids)
    (hkind : ch.info.kind = .choice) (hc2 : c2 ∈ ch.kids) (hd : c2.dataSids.any H = true) : c.dataSids.any H = true := by
  refine any_of_sub ?_ hd
  intro x hx
  rw [dataSids_case hck]
  apply dataSids_sub_L hch
  cases ch with
  | mk s i ks =>
    simp only [STree.info] at hkind
    simp only [STree.kids] at hc2
    rw [dataSids_choice hkind]
    exact dataSids_sub_L hc2 x hx

theorem want_reach_nodes {o : VOpts} {H : Nat → Bool} {sk : List STree} {sid : Nat} (h : wantNodes o sk sid = true) :
    ∃ k, k.sid = sid ∧ wantsImplicit o k = true ∧ BelowL k sk ∧ (Reach H sk k ∨ InDflt sk k) := by
  unfold wantNodes at h
  obtain ⟨k, hk, hk2⟩ := List.any_eq_true.1 h
  simp only [Bool.and_eq_true, beq_iff_eq] at hk2
  have hkk := wants_kind hk2.1
  exact ⟨k, hk2.2, hk2.1, BelowL.of_mem hk, Or.inl (Reach.here hk hkk.1 hkk.2)⟩

/-- **what `lyd_new_implicit` creates on a level is visited by the specification or sits directly in a default case** -/
theorem want_reach (o : VOpts) (H : Nat → Bool) : ∀ (n : Nat) (sk : List STree), sheightL sk ≤ n → kindsOkL sk = true →
    ∀ sid, wantL o H sk sid = true →
    ∃ k, k.sid = sid ∧ wantsImplicit o k = true ∧ BelowL k sk ∧ (Reach H sk k ∨ InDflt sk k) := by
  intro n
  induction n with
  | zero =>
    intro sk hn hk sid hw
    unfold wantL at hw
    rw [Bool.or_eq_true] at hw
    rcases hw with hw | hw
    · obtain ⟨ch, hch, _⟩ := (wantChoices_any o H sid sk).1 hw
      have h1 := sheightL_mem hch
      have h2 := sheight_kids ch
      omega
    · exact want_reach_nodes hw
  | succ m ih =>
    intro sk hn hk sid hw
    unfold wantL at hw
    rw [Bool.or_eq_true] at hw
    rcases hw with hw | hw
    rotate_left
    · exact want_reach_nodes hw
    obtain ⟨ch, hch, hwc⟩ := (wantChoices_any o H sid sk).1 hw
    have hkch := kindsOkL_mem hk hch
    have hkindch := wantChoice_kind hwc
    have hsel : ∃ c, selCase ch.info ch.kids H = some c ∧ wantCase o H sid c = true := by
      cases ch with
      | mk s i cases =>
        rw [wantChoice_sel] at hwc
        split at hwc
        · cases hwc
        · cases hs : selCase i cases H with
          | none => rw [hs] at hwc; cases hwc
          | some c => rw [hs] at hwc; exact ⟨c, hs, hwc⟩
    obtain ⟨c, hs, hwcase⟩ := hsel
    have hcm : c ∈ ch.kids := selCase_mem hs
    have hck : c.info.kind = .case := by
      cases ch with
      | mk s i cases => exact choice_cases_kind hkch hkindch c hcm
    have hkc : kindsOkL c.kids = true := kindsOk_kids_w (kindsOkL_mem (kindsOk_kids_w hkch) hcm)
    have hht : sheightL c.kids ≤ m := by
      have h1 := sheightL_mem hch
      have h2 := sheight_kids ch
      have h3 := sheightL_mem hcm
      have h4 := sheight_kids c
      omega
    rw [wantCase_eq_wantL] at hwcase
    obtain ⟨k, hsid, hwk, hbk, hr⟩ := ih c.kids hht hkc sid hwcase
    have hlift := belowL_of_case hch hcm
    refine ⟨k, hsid, hwk, hlift k hbk, ?_⟩
    rcases hr with hr | hr
    · by_cases hdata : c.dataSids.any H = true
      · exact Or.inl (Reach.through hch hkindch hcm hck hdata hr)
      · have hdf := selCase_dflt_of_noData hs hdata
        cases hr with
        | here hk' _ _ => exact Or.inr ⟨ch, c, BelowL.of_mem hch, hkindch, hcm, hdf, hk'⟩
        | through hch2 hkind2 hc2 _ hd2 _ => exact absurd (reach_through_data hck hch2 hkind2 hc2 hd2) hdata
    · exact Or.inr (hr.mono hlift)

end LyModel.Valid
