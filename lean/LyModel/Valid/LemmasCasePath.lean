import LyModel.Valid.LemmasCaseNew
/-! `validate_idempotent` (C07) for schemas WITH `choice` / `case`, part 3: the implicit nodes `lyd_new_implicit` creates are never
leftovers of a dead case for `lyd_validate_autodel_case_dflt` (repaired variants F180, F188).  The cases around a schema node
as the flat table gives them (`caseChain`) are compared with the path through the schema tree (`pathsL`); that they agree is a
decidable hypothesis on the schema (`levelChainOk`). -/
namespace LyModel.Valid
open LyModel LyModel.Tree

/-- what `lyd_validate_autodel_case_dflt` looks at of a case: the default case of its choice, its name, its data nodes -/
abbrev CView := Option String × String × List Nat

def viewOf (ch cs : STree) : CView := (ch.info.dfltCase, cs.info.name, cs.dataSids)

def chainView (X : SchemaX) (sid : Nat) : List CView := (caseChain X sid).map fun p => viewOf p.2 p.1

/-- the case does not exist (no explicit data) and is not the default case -/
def goneV (all : List DNode) (v : CView) : Bool := v.1 != some v.2.1 && !(all.any fun x => inSids v.2.2 x && !x.flags.dflt)

theorem victim_eq (X : SchemaX) (hq : X.q.autodelDirectCase = false) (all : List DNode) (n : DNode) :
    caseDfltVictim X all n = (chainView X n.sid).any (goneV all) := by
  unfold caseDfltVictim chainView
  simp only [hq, Bool.false_eq_true, if_false, List.any_map]
  rfl

theorem goneV_congr {a b : List DNode} (h : ∀ ds, (b.any fun x => inSids ds x && !x.flags.dflt) = (a.any fun x => inSids ds x && !x.flags.dflt))
    (v : CView) : goneV b v = goneV a v := by
  unfold goneV
  rw [h]

theorem victim_congr' (X : SchemaX) (a b : List DNode) (n : DNode)
    (h : ∀ ds, (b.any fun x => inSids ds x && !x.flags.dflt) = (a.any fun x => inSids ds x && !x.flags.dflt)) :
    caseDfltVictim X b n = caseDfltVictim X a n := by
  unfold caseDfltVictim
  simp only [h]

/-! ## the cases around the data nodes of a level, along the schema tree -/

mutual
def pathsT (acc : List CView) : STree → List (Nat × List CView)
  | .mk s i ks => if i.kind == .choice then pathsCs i.dfltCase acc ks else if i.kind == .case then pathsL acc ks else [(s, acc)]
def pathsL (acc : List CView) : List STree → List (Nat × List CView)
  | [] => []
  | k :: rest => pathsT acc k ++ pathsL acc rest
def pathsCs (d : Option String) (acc : List CView) : List STree → List (Nat × List CView)
  | [] => []
  | .mk cs ci cks :: rest => pathsL ((d, ci.name, (STree.mk cs ci cks).dataSids) :: acc) cks ++ pathsCs d acc rest
end

theorem pathsL_cons (acc : List CView) (k : STree) (rest : List STree) : pathsL acc (k :: rest) = pathsT acc k ++ pathsL acc rest := by
  rw [pathsL]

theorem pathsT_mk (acc : List CView) (s : Nat) (i : SNode) (ks : List STree) :
    pathsT acc (.mk s i ks) = if i.kind == .choice then pathsCs i.dfltCase acc ks else if i.kind == .case then pathsL acc ks else [(s, acc)] := by
  rw [pathsT]

theorem pathsL_mem {acc : List CView} {k : STree} : ∀ {ks : List STree}, k ∈ ks → ∀ e ∈ pathsT acc k, e ∈ pathsL acc ks := by
  intro ks
  induction ks with
  | nil => intro h; cases h
  | cons x xs ih =>
    intro h e he
    rw [pathsL_cons]
    cases h with
    | head => exact List.mem_append_left _ he
    | tail _ h => exact List.mem_append_right _ (ih h e he)

theorem pathsCs_mem {d : Option String} {acc : List CView} {c : STree} : ∀ {cs : List STree}, c ∈ cs →
    ∀ e ∈ pathsL ((d, c.info.name, c.dataSids) :: acc) c.kids, e ∈ pathsCs d acc cs := by
  intro cs
  induction cs with
  | nil => intro h; cases h
  | cons x xs ih =>
    intro h e he
    cases x with
    | mk xs' xi xk =>
      rw [pathsCs]
      cases h with
      | head => exact List.mem_append_left _ he
      | tail _ h => exact List.mem_append_right _ (ih h e he)

theorem pathsT_data (acc : List CView) {k : STree} (h1 : k.info.kind ≠ .choice) (h2 : k.info.kind ≠ .case) : pathsT acc k = [(k.sid, acc)] := by
  cases k with
  | mk s i ks =>
    simp only [STree.info] at h1 h2
    rw [pathsT_mk]
    have e1 : (i.kind == SKind.choice) = false := by simpa using h1
    have e2 : (i.kind == SKind.case) = false := by simpa using h2
    simp only [e1, e2, Bool.false_eq_true, if_false]
    rfl

/-- every data sid of a level has its path, which ends with the cases we are already in -/
def HasPath (ks : List STree) : Prop :=
  ∀ (acc : List CView) (sid : Nat), sid ∈ dataSidsL ks → ∃ p, (sid, p) ∈ pathsL acc ks ∧ ∀ v ∈ acc, v ∈ p

mutual
theorem hasPath_T : ∀ (t : STree), kindsOk t = true →
    (∀ (acc : List CView) (sid : Nat), sid ∈ t.dataSids → ∃ p, (sid, p) ∈ pathsT acc t ∧ ∀ v ∈ acc, v ∈ p) ∧ HasPath t.kids
  | .mk s i ks, hk => by
    have hk' := hk
    rw [kindsOk_mk] at hk'
    simp only [Bool.and_eq_true] at hk'
    have ihL := hasPath_L ks hk'.2
    refine ⟨?_, ihL.1⟩
    intro acc sid hsid
    rw [pathsT_mk]
    by_cases hc : i.kind = .choice
    · rw [dataSids_choice hc] at hsid
      simp only [hc, beq_self_eq_true, if_true]
      obtain ⟨c, hcm, hsc⟩ := mem_dataSidsL hsid
      have hck := choice_cases_kind hk hc c hcm
      rw [dataSids_case hck] at hsc
      obtain ⟨p, hp, hacc⟩ := ihL.2 c hcm ((i.dfltCase, c.info.name, c.dataSids) :: acc) sid hsc
      exact ⟨p, pathsCs_mem hcm _ hp, fun v hv => hacc v (List.mem_cons_of_mem _ hv)⟩
    · have e1 : (i.kind == SKind.choice) = false := by simpa using hc
      simp only [e1, Bool.false_eq_true, if_false]
      by_cases hcs : i.kind = .case
      · rw [dataSids_mk, hcs] at hsid
        simp only [hcs, beq_self_eq_true, if_true]
        exact ihL.1 acc sid hsid
      · have e2 : (i.kind == SKind.case) = false := by simpa using hcs
        rw [dataSids_mk] at hsid
        simp only [e1, e2, Bool.or_self, Bool.false_eq_true, if_false, List.mem_singleton] at hsid ⊢
        subst hsid
        exact ⟨acc, rfl, fun v hv => hv⟩
theorem hasPath_L : ∀ (ks : List STree), kindsOkL ks = true → HasPath ks ∧ ∀ c ∈ ks, HasPath c.kids
  | [], _ => by
    constructor
    · intro acc sid h; rw [dataSidsL_nil] at h; cases h
    · intro c hc; cases hc
  | k :: rest, hk => by
    rw [kindsOkL_cons] at hk
    simp only [Bool.and_eq_true] at hk
    have ihT := hasPath_T k hk.1
    have ihL := hasPath_L rest hk.2
    constructor
    · intro acc sid hsid
      rw [dataSidsL_cons, List.mem_append] at hsid
      rw [pathsL_cons]
      rcases hsid with h | h
      · obtain ⟨p, hp, hacc⟩ := ihT.1 acc sid h
        exact ⟨p, List.mem_append_left _ hp, hacc⟩
      · obtain ⟨p, hp, hacc⟩ := ihL.1 acc sid h
        exact ⟨p, List.mem_append_right _ hp, hacc⟩
    · intro c hc
      cases hc with
      | head => exact ihT.2
      | tail _ hc => exact ihL.2 c hc
end

/-! ## sibling lists that differ by implicit nodes which are no leftovers -/

/-- `b` is `a` plus nodes flagged default only, without children, none of them the leftover of a dead case -/
def Ext (X : SchemaX) (a b : List DNode) : Prop :=
  (∀ x ∈ a, x ∈ b) ∧ (∀ x ∈ b, x ∈ a ∨ (x.flags = dfltFlags ∧ x.kids = [] ∧ caseDfltVictim X a x = false))

theorem Ext.refl (X : SchemaX) (a : List DNode) : Ext X a a := ⟨fun _ h => h, fun _ h => Or.inl h⟩

theorem Ext.any {X : SchemaX} {a b : List DNode} (h : Ext X a b) (ds : List Nat) :
    (b.any fun x => inSids ds x && !x.flags.dflt) = (a.any fun x => inSids ds x && !x.flags.dflt) := by
  rw [Bool.eq_iff_iff]
  simp only [List.any_eq_true]
  constructor
  · rintro ⟨x, hx, hp⟩
    rcases h.2 x hx with hxa | ⟨hf, _, _⟩
    · exact ⟨x, hxa, hp⟩
    · rw [hf] at hp; simp [dfltFlags] at hp
  · rintro ⟨x, hx, hp⟩
    exact ⟨x, h.1 x hx, hp⟩

theorem Ext.trans {X : SchemaX} {a b c : List DNode} (h1 : Ext X a b) (h2 : Ext X b c) : Ext X a c := by
  refine ⟨fun x hx => h2.1 x (h1.1 x hx), ?_⟩
  intro x hx
  rcases h2.2 x hx with h | ⟨hf, hk, hv⟩
  · exact h1.2 x h
  · exact Or.inr ⟨hf, hk, by rw [← victim_congr' X a b x h1.any]; exact hv⟩

theorem Ext.nv {X : SchemaX} {a b : List DNode} (h : Ext X a b) (hv : NV X a) : NV X b := by
  intro x hx hd
  rw [victim_congr' X a b x h.any]
  rcases h.2 x hx with hxa | ⟨_, _, hvx⟩
  · exact hv x hxa hd
  · exact hvx

theorem implNode_out' (S : Schema) (o : VOpts) (cx : Cx) (k : STree) (sibs : List DNode) (x : DNode)
    (hx : x ∈ (implNode S o cx k sibs).1) : x ∈ sibs ∨ (x.flags = dfltFlags ∧ x.kids = [] ∧ x.sid = k.sid ∧ wantsImplicit o k = true) := by
  by_cases hw : wantsImplicit o k = true
  · rcases implNode_out S o cx k sibs x hx with h | ⟨h1, h2, h3⟩
    · exact Or.inl h
    · exact Or.inr ⟨h1, h2, h3, hw⟩
  · have : wantsImplicit o k = false := by simpa using hw
    rw [implNode_of_done S o cx k sibs (by simp [this])] at hx
    exact Or.inl hx

theorem implNodes_out' (S : Schema) (o : VOpts) (cx : Cx) : ∀ (ks : List STree) (sibs : List DNode) (x : DNode),
    x ∈ (implNodes S o cx ks sibs).1 → x ∈ sibs ∨ (x.flags = dfltFlags ∧ x.kids = [] ∧ ∃ k ∈ ks, x.sid = k.sid ∧ wantsImplicit o k = true) := by
  intro ks
  induction ks with
  | nil => intro sibs x hx; exact Or.inl (by simpa [implNodes] using hx)
  | cons k ks ih =>
    intro sibs x hx
    unfold implNodes at hx
    dsimp only at hx
    rcases ih _ x hx with h | ⟨h1, h2, k', hk', h3⟩
    · rcases implNode_out' S o cx k sibs x h with h | ⟨h1, h2, h3, h4⟩
      · exact Or.inl h
      · exact Or.inr ⟨h1, h2, k, List.mem_cons_self .., h3, h4⟩
    · exact Or.inr ⟨h1, h2, k', List.mem_cons_of_mem _ hk', h3⟩

/-! ## `lyd_new_implicit` creates no leftovers -/

/-- the hypotheses of one call: the cases we are in (`acc`) exist or are default cases; the flat table agrees with the paths -/
structure ImplCtx (X : SchemaX) (acc : List CView) (paths : List (Nat × List CView)) (sibs : List DNode) : Prop where
  ok : ∀ v ∈ acc, goneV sibs v = false
  ch : ∀ e ∈ paths, chainView X e.1 = e.2
  nv : NV X sibs

mutual
theorem impl_ext_T (X : SchemaX) (o : VOpts) (cx : Cx) (hq1 : X.q.implicitInnerCase = false) (hq2 : X.q.autodelDirectCase = false) :
    ∀ (t : STree), kindsOk t = true → ∀ (acc : List CView) (sibs : List DNode),
    (ImplCtx X acc (pathsT acc t) sibs → Ext X sibs (implChoice X o cx t sibs).1) ∧
    (ImplCtx X acc (pathsL acc t.kids) sibs → Ext X sibs (implCase X o cx t sibs).1)
  | .mk s i ks, hk, acc, sibs => by
    have hk' := hk
    rw [kindsOk_mk] at hk'
    simp only [Bool.and_eq_true] at hk'
    have ihL := impl_ext_L X o cx hq1 hq2 ks hk'.2
    constructor
    · intro hctx
      rw [implChoice_sel X o cx hq1]
      split
      · exact Ext.refl _ _
      · rename_i hc
        have hkind := choice_kind_of_not_skip hc
        cases hsel : selCase i ks (hasInst sibs) with
        | none => exact Ext.refl _ _
        | some c =>
          have hcm := selCase_mem hsel
          have hck := choice_cases_kind hk hkind c hcm
          have hpaths : ∀ e ∈ pathsL ((i.dfltCase, c.info.name, c.dataSids) :: acc) c.kids, e ∈ pathsT acc (.mk s i ks) := by
            intro e he
            rw [pathsT_mk]
            simp only [hkind, beq_self_eq_true, if_true]
            exact pathsCs_mem hcm e he
          simp only []
          apply (ihL acc sibs).2 c hcm ((i.dfltCase, c.info.name, c.dataSids) :: acc) sibs
          refine ⟨?_, fun e he => hctx.ch e (hpaths e he), hctx.nv⟩
          intro v hv
          rcases List.mem_cons.1 hv with hv | hv
          · subst hv
            -- the selected case has explicit data, or a default node that survived, or is the default case
            unfold selCase at hsel
            cases hf : ks.find? (fun c => c.dataSids.any (hasInst sibs)) with
            | some c0 =>
              rw [hf] at hsel
              injection hsel with hsel
              subst hsel
              have hcH : c0.dataSids.any (hasInst sibs) = true := @List.find?_some _ (fun c => c.dataSids.any (hasInst sibs)) c0 ks hf
              obtain ⟨sid, hs, hH⟩ := List.any_eq_true.1 hcH
              obtain ⟨node, hnm, hns⟩ := List.any_eq_true.1 hH
              have hns' : node.sid = sid := by simpa using hns
              cases hd : node.flags.dflt with
              | false =>
                unfold goneV
                have : (sibs.any fun x => inSids c0.dataSids x && !x.flags.dflt) = true :=
                  List.any_eq_true.2 ⟨node, hnm, by simp [inSids, hns', hs, hd]⟩
                simp [this]
              | true =>
                have hv0 := hctx.nv node hnm hd
                rw [victim_eq X hq2, List.any_eq_false] at hv0
                rw [dataSids_case hck] at hs
                obtain ⟨p, hp, hacc⟩ := (hasPath_L ks hk'.2).2 c0 hcm ((i.dfltCase, c0.info.name, c0.dataSids) :: acc) sid hs
                have hcv := hctx.ch _ (hpaths _ hp)
                simp only [] at hcv
                have hmem : (i.dfltCase, c0.info.name, c0.dataSids) ∈ chainView X node.sid := by
                  rw [hns', hcv]; exact hacc _ (List.mem_cons_self ..)
                have := hv0 _ hmem
                simpa using this
            | none =>
              rw [hf] at hsel
              simp only [] at hsel
              cases hdc : i.dfltCase with
              | none => rw [hdc] at hsel; cases hsel
              | some nm =>
                rw [hdc] at hsel
                simp only [] at hsel
                have hnm : (c.info.name == nm) = true := @List.find?_some _ (fun c => c.info.name == nm) c ks hsel
                have : c.info.name = nm := by simpa using hnm
                unfold goneV
                simp [this]
          · exact hctx.ok v hv
    · intro hctx
      simp only [STree.kids] at hctx
      have h1 := (ihL acc sibs).1 hctx
      rw [implCase]
      generalize implChoices X o cx ks sibs = r1 at h1
      dsimp only
      have h2 := implNodes_out' X.base o cx ks r1.1
      have h2m := implNodes_mono X.base o cx ks r1.1
      generalize implNodes X.base o cx ks r1.1 = r2 at h2 h2m
      refine ⟨fun x hx => h2m x (h1.1 x hx), fun x hx => ?_⟩
      · rcases h2 x hx with h | ⟨hf, hkid, k, hkm, hsid, hw⟩
        · exact h1.2 x h
        · refine Or.inr ⟨hf, hkid, ?_⟩
          rw [victim_eq X hq2, hsid]
          have hp : (k.sid, acc) ∈ pathsL acc ks :=
            pathsL_mem hkm _ (by rw [pathsT_data acc (wants_kind hw).1 (wants_kind hw).2]; exact List.mem_singleton.2 rfl)
          have := hctx.ch _ hp
          simp only [] at this
          rw [this, List.any_eq_false]
          intro v hv
          rw [hctx.ok v hv]
          simp
theorem impl_ext_L (X : SchemaX) (o : VOpts) (cx : Cx) (hq1 : X.q.implicitInnerCase = false) (hq2 : X.q.autodelDirectCase = false) :
    ∀ (ks : List STree), kindsOkL ks = true → ∀ (acc : List CView) (sibs : List DNode),
    (ImplCtx X acc (pathsL acc ks) sibs → Ext X sibs (implChoices X o cx ks sibs).1) ∧
    (∀ c ∈ ks, ∀ (acc : List CView) (sibs : List DNode), ImplCtx X acc (pathsL acc c.kids) sibs → Ext X sibs (implCase X o cx c sibs).1)
  | [], _, acc, sibs => by
    constructor
    · intro _; rw [implChoices]; exact Ext.refl _ _
    · intro c hc; cases hc
  | k :: rest, hk, acc, sibs => by
    have hk' := hk
    rw [kindsOkL_cons] at hk'
    simp only [Bool.and_eq_true] at hk'
    have ihT := impl_ext_T X o cx hq1 hq2 k hk'.1
    have ihL := impl_ext_L X o cx hq1 hq2 rest hk'.2
    constructor
    · intro hctx
      have h1 := (ihT acc sibs).1 ⟨hctx.ok, fun e he => hctx.ch e (by rw [pathsL_cons]; exact List.mem_append_left _ he), hctx.nv⟩
      rw [implChoices]
      generalize implChoice X o cx k sibs = r1 at h1
      dsimp only
      have h2 := (ihL acc r1.1).1 ⟨fun v hv => by rw [goneV_congr h1.any]; exact hctx.ok v hv,
        fun e he => hctx.ch e (by rw [pathsL_cons]; exact List.mem_append_right _ he), h1.nv hctx.nv⟩
      exact h1.trans h2
    · intro c hc
      cases hc with
      | head => exact fun acc sibs => (ihT acc sibs).2
      | tail _ hc => exact (ihL acc sibs).2 c hc
end

end LyModel.Valid
