import LyModel.Valid.Hist
import LyModel.Valid.LemmasImplicit
/-! `np_cont_dflt` (C07): the edits of a history (`lyd_new_*` below a node with `lyd_np_cont_dflt_del`, `lyd_free_tree` with
`lyd_np_cont_dflt_set`) keep the invariant "a non-presence container is flagged default iff all its children are". -/
namespace LyModel.Valid
open LyModel LyModel.Tree

/-- all siblings are flagged default (true for no siblings) -/
def allD (l : List DNode) : Bool := l.all (·.flags.dflt)

mutual
/-- every non-presence container at or below the node carries `LYD_DEFAULT` iff all its children do -/
def npInvN (S : Schema) : DNode → Prop
  | .inner s f _ ks => (S.isNpCont s = true → f.dflt = allD ks) ∧ npInvL S ks
  | .term .. => True
def npInvL (S : Schema) : List DNode → Prop
  | [] => True
  | n :: ns => npInvN S n ∧ npInvL S ns
end

theorem npInvL_all (S : Schema) : ∀ (l : List DNode), npInvL S l ↔ ∀ n ∈ l, npInvN S n := by
  intro l
  induction l with
  | nil => simp [npInvL]
  | cons x xs ih => unfold npInvL; simp [ih]

theorem allD_eq_true {l : List DNode} : allD l = true ↔ ∀ n ∈ l, n.flags.dflt = true := by
  unfold allD; simp [List.all_eq_true]

/-! ## replacing / removing one sibling -/

theorem set_allD_same : ∀ (l : List DNode) (i : Nat) (n n' : DNode), l[i]? = some n → n'.flags.dflt = n.flags.dflt →
    allD (l.set i n') = allD l := by
  intro l
  induction l with
  | nil => intro i n n' h; simp at h
  | cons x xs ih =>
    intro i n n' h hf
    cases i with
    | zero =>
      simp only [List.getElem?_cons_zero, Option.some.injEq] at h
      subst h
      simp [allD, hf]
    | succ i =>
      simp only [List.getElem?_cons_succ] at h
      have := ih i n n' h hf
      unfold allD at this ⊢
      simp [List.set_cons_succ, this]

theorem set_allD_false : ∀ (l : List DNode) (i : Nat) (n n' : DNode), l[i]? = some n → n'.flags.dflt = false →
    allD (l.set i n') = false := by
  intro l
  induction l with
  | nil => intro i n n' h; simp at h
  | cons x xs ih =>
    intro i n n' h hf
    cases i with
    | zero => simp [allD, hf]
    | succ i =>
      simp only [List.getElem?_cons_succ] at h
      have := ih i n n' h hf
      unfold allD at this ⊢
      simp [List.set_cons_succ, this]

theorem set_allD_mono : ∀ (l : List DNode) (i : Nat) (n n' : DNode), l[i]? = some n →
    (n.flags.dflt = true → n'.flags.dflt = true) → allD l = true → allD (l.set i n') = true := by
  intro l i n n' h hf hall
  rw [allD_eq_true] at hall ⊢
  intro x hx
  rcases List.mem_or_eq_of_mem_set hx with hx | hx
  · exact hall x hx
  · rw [hx]; exact hf (hall n (List.mem_of_getElem? h))

theorem npInvL_set (S : Schema) (l : List DNode) (i : Nat) (n' : DNode) (h : npInvL S l) (hn : npInvN S n') :
    npInvL S (l.set i n') := by
  rw [npInvL_all] at h ⊢
  intro x hx
  rcases List.mem_or_eq_of_mem_set hx with hx | hx
  · exact h x hx
  · rw [hx]; exact hn

theorem npInvL_eraseIdx (S : Schema) (l : List DNode) (i : Nat) (h : npInvL S l) : npInvL S (l.eraseIdx i) := by
  rw [npInvL_all] at h ⊢
  intro x hx
  exact h x (List.mem_of_mem_eraseIdx hx)

theorem eraseIdx_allD_mono (l : List DNode) (i : Nat) (h : allD l = true) : allD (l.eraseIdx i) = true := by
  rw [allD_eq_true] at h ⊢
  intro x hx
  exact h x (List.mem_of_mem_eraseIdx hx)

/-! ## the walk to the address and back -/

theorem atAddr_inv (S : Schema) (fix : DNode → DNode × Bool) (f : List DNode → Option (List DNode × Bool))
    (R : List DNode → List DNode → Bool → Prop)
    (hstep : ∀ (s : Nat) (fl : Flags) (m : List Meta) (ks ks' : List DNode) (go : Bool) (sibsP : List DNode) (i : Nat),
      sibsP[i]? = some (.inner s fl m ks) → npInvL S sibsP → R ks ks' go →
      R sibsP (sibsP.set i (if go then (fix (.inner s fl m ks')).1 else .inner s fl m ks'))
        (if go then (fix (.inner s fl m ks')).2 else false))
    (hbase : ∀ sibs r, npInvL S sibs → f sibs = some r → R sibs r.1 r.2) :
    ∀ (addr : Addr) (sibs : List DNode) (r : List DNode × Bool), npInvL S sibs → atAddr S fix f addr sibs = some r →
      R sibs r.1 r.2 := by
  intro addr
  induction addr with
  | nil => intro sibs r hi h; unfold atAddr at h; exact hbase sibs r hi h
  | cons a rest ih =>
    intro sibs r hi h
    unfold atAddr at h
    split at h
    · cases h
    · rename_i i hfi
      split at h
      · rename_i s fl m ks hget
        split at h
        · rename_i ks' go hrec
          have hn : npInvN S (.inner s fl m ks) := (npInvL_all S sibs).1 hi _ (List.mem_of_getElem? hget)
          unfold npInvN at hn
          have hR := ih ks (ks', go) hn.2 hrec
          have := hstep s fl m ks ks' go sibs i hget hi hR
          cases go with
          | true =>
            simp only [if_true] at h this
            injection h with h; subst h
            exact this
          | false =>
            simp only [Bool.false_eq_true, if_false] at h this
            injection h with h; subst h
            exact this
        · cases h
      · cases h


/-! ## what the builders leave -/

mutual
theorem npInvN_fresh (S : Schema) : ∀ (n : DNode), npInvN S (freshNode S n)
  | .term .. => by simp [freshNode, npInvN]
  | .inner s f m ks => by
    unfold freshNode npInvN
    dsimp only
    refine ⟨fun h => ?_, npInvL_fresh S ks⟩
    simp [h, allD]
theorem npInvL_fresh (S : Schema) : ∀ (ns : List DNode), npInvL S (freshL S ns)
  | [] => by simp [freshL, npInvL]
  | n :: ns => by
    unfold freshL npInvL
    exact ⟨npInvN_fresh S n, npInvL_fresh S ns⟩
end

theorem mem_foldl_insertNode (S : Schema) : ∀ (fresh sibs : List DNode) (x : DNode),
    x ∈ fresh.foldl (fun acc n => insertNode S acc n) sibs ↔ x ∈ sibs ∨ x ∈ fresh := by
  intro fresh
  induction fresh with
  | nil => intro sibs x; simp
  | cons n ns ih =>
    intro sibs x
    simp only [List.foldl_cons, ih, mem_insertNode, List.mem_cons]
    constructor
    · rintro ((h | h) | h)
      · exact Or.inr (Or.inl h)
      · exact Or.inl h
      · exact Or.inr (Or.inr h)
    · rintro (h | h | h)
      · exact Or.inl (Or.inr h)
      · exact Or.inl (Or.inl h)
      · exact Or.inr h

/-! ## `lyd_new_*` below a node -/

/-- the relation between a sibling list before and after the creation below it, with the "go on" flag of
`lyd_np_cont_dflt_del` -/
def RCreate (S : Schema) (sibs sibs' : List DNode) (go : Bool) : Prop :=
  npInvL S sibs' ∧ (if go then allD sibs' = false else allD sibs' = allD sibs)

theorem np_cont_dflt_create (S : Schema) (under : Addr) (sub t t' : List DNode) (h : npInvL S t)
    (hc : applyCreate S under sub t = some t') : npInvL S t' := by
  unfold applyCreate at hc
  dsimp only at hc
  cases hr : atAddr S npDel (fun sibs => some ((freshL S sub).foldl (fun acc n => insertNode S acc n) sibs,
      (freshL S sub).any (fun x => !x.flags.dflt))) under t with
  | none => rw [hr] at hc; cases hc
  | some r =>
    rw [hr] at hc
    simp only [Option.map_some, Option.some.injEq] at hc
    subst hc
    refine (atAddr_inv S npDel _ (RCreate S) ?_ ?_ under t r h hr).1
    · -- one step up
      intro s fl m ks ks' go sibsP i hget hinv hR
      obtain ⟨hk', hall⟩ := hR
      have hn : npInvN S (.inner s fl m ks) := (npInvL_all S sibsP).1 hinv _ (List.mem_of_getElem? hget)
      unfold npInvN at hn
      cases go with
      | false =>
        simp only [Bool.false_eq_true, if_false] at hall ⊢
        refine ⟨npInvL_set S _ _ _ hinv ?_, set_allD_same _ _ _ _ hget rfl⟩
        unfold npInvN
        exact ⟨fun hnp => by rw [hall]; exact hn.1 hnp, hk'⟩
      | true =>
        simp only [if_true] at hall ⊢
        unfold npDel
        by_cases hd : fl.dflt = true
        · simp only [DNode.flags, hd, if_true]
          refine ⟨npInvL_set S _ _ _ hinv ?_, set_allD_false _ _ _ _ hget (by simp [DNode.setDflt, DNode.setFlags, DNode.flags])⟩
          simp only [DNode.setDflt, DNode.setFlags, DNode.flags]
          unfold npInvN
          exact ⟨fun _ => by rw [hall], hk'⟩
        · have hd' : fl.dflt = false := by simpa using hd
          simp only [DNode.flags, hd', Bool.false_eq_true, if_false]
          refine ⟨npInvL_set S _ _ _ hinv ?_, set_allD_same _ _ _ _ hget rfl⟩
          unfold npInvN
          exact ⟨fun _ => by rw [hall, hd'], hk'⟩
    · -- the level of the creation
      intro sibs r hinv hf
      simp only [Option.some.injEq] at hf
      subst hf
      have hmem := mem_foldl_insertNode S (freshL S sub) sibs
      have hallD : allD ((freshL S sub).foldl (fun acc n => insertNode S acc n) sibs) = (allD sibs && allD (freshL S sub)) := by
        rw [Bool.eq_iff_iff]
        simp only [Bool.and_eq_true, allD_eq_true, hmem]
        constructor
        · intro hh; exact ⟨fun n hn => hh n (Or.inl hn), fun n hn => hh n (Or.inr hn)⟩
        · rintro ⟨h1, h2⟩ n (hn | hn)
          · exact h1 n hn
          · exact h2 n hn
      have hany : (freshL S sub).any (fun x => !x.flags.dflt) = !allD (freshL S sub) := by
        unfold allD
        rw [List.not_all_eq_any_not]
      refine ⟨?_, ?_⟩
      · rw [npInvL_all]
        intro n hn
        rcases (hmem n).1 hn with hn | hn
        · exact (npInvL_all S sibs).1 hinv n hn
        · exact (npInvL_all S _).1 (npInvL_fresh S sub) n hn
      · dsimp only
        rw [hany, hallD]
        cases allD (freshL S sub) <;> simp

/-! ## `lyd_free_tree` -/

/-- the relation between a sibling list before and after the removal below it, with the "go on" flag of
`lyd_np_cont_dflt_set` -/
def RDelete (S : Schema) (sibs sibs' : List DNode) (go : Bool) : Prop :=
  npInvL S sibs' ∧ (allD sibs = true → allD sibs' = true) ∧ (go = false → allD sibs' = allD sibs)

theorem np_cont_dflt_delete (S : Schema) (addr : Addr) (t t' : List DNode) (h : npInvL S t)
    (hd : applyDelete S addr t = some t') : npInvL S t' := by
  unfold applyDelete at hd
  split at hd
  · rename_i last _
    cases hr : atAddr S (npSetUp S) (fun sibs => (findStep S sibs last).map fun i => (sibs.eraseIdx i, true)) addr.dropLast t with
    | none => rw [hr] at hd; cases hd
    | some r =>
      rw [hr] at hd
      simp only [Option.map_some, Option.some.injEq] at hd
      subst hd
      refine (atAddr_inv S (npSetUp S) _ (RDelete S) ?_ ?_ addr.dropLast t r h hr).1
      · intro s fl m ks ks' go sibsP i hget hinv hR
        obtain ⟨hk', hmono, hsame⟩ := hR
        have hn : npInvN S (.inner s fl m ks) := (npInvL_all S sibsP).1 hinv _ (List.mem_of_getElem? hget)
        unfold npInvN at hn
        cases go with
        | false =>
          simp only [Bool.false_eq_true, if_false]
          have hs := hsame rfl
          refine ⟨npInvL_set S _ _ _ hinv ?_, fun ha => set_allD_mono _ _ _ _ hget (fun x => x) ha,
            fun _ => set_allD_same _ _ _ _ hget rfl⟩
          unfold npInvN
          exact ⟨fun hnp => by rw [hs]; exact hn.1 hnp, hk'⟩
        | true =>
          simp only [if_true]
          unfold npSetUp
          have hcond : (S.isNpCont (DNode.inner s fl m ks').sid && !(DNode.inner s fl m ks').flags.dflt &&
              (DNode.inner s fl m ks').kids.all (·.flags.dflt)) = (S.isNpCont s && !fl.dflt && allD ks') := rfl
          rw [hcond]
          by_cases hc : (S.isNpCont s && !fl.dflt && allD ks') = true
          · simp only [hc, if_true]
            simp only [Bool.and_eq_true, Bool.not_eq_eq_eq_not, Bool.not_true] at hc
            refine ⟨npInvL_set S _ _ _ hinv ?_, fun ha => set_allD_mono _ _ _ _ hget
              (fun _ => by simp [DNode.setDflt, DNode.setFlags, DNode.flags]) ha, fun hf => by cases hf⟩
            simp only [DNode.setDflt, DNode.setFlags, DNode.flags]
            unfold npInvN
            exact ⟨fun _ => by rw [hc.2], hk'⟩
          · simp only [hc, Bool.false_eq_true, if_false]
            refine ⟨npInvL_set S _ _ _ hinv ?_, fun ha => set_allD_mono _ _ _ _ hget (fun x => x) ha,
              fun _ => set_allD_same _ _ _ _ hget rfl⟩
            unfold npInvN
            refine ⟨fun hnp => ?_, hk'⟩
            simp only [hnp, Bool.true_and] at hc
            have h0 := hn.1 hnp
            cases hfd : fl.dflt with
            | true =>
              rw [hfd] at h0
              exact (hmono h0.symm).symm
            | false =>
              rw [hfd] at hc
              simp only [Bool.not_false, Bool.true_and] at hc
              have : allD ks' = false := by simpa using hc
              rw [this]
      · intro sibs r hinv hf
        cases hfs : findStep S sibs last with
        | none => rw [hfs] at hf; cases hf
        | some i =>
          rw [hfs] at hf
          simp only [Option.map_some, Option.some.injEq] at hf
          subst hf
          exact ⟨npInvL_eraseIdx S _ _ hinv, eraseIdx_allD_mono _ _, fun hf => by cases hf⟩
  · cases hd

end LyModel.Valid
