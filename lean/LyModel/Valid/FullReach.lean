import LyModel.Valid.FullNew
/-! C02, full schema language: the data nodes of a level the specification visits. -/
namespace LyModel.Valid
open LyModel LyModel.Tree

/-- the data nodes of a level the specification visits: directly, or through cases that have data -/
inductive Reach (H : Nat → Bool) : List STree → STree → Prop
  | here {sk : List STree} {k : STree} : k ∈ sk → k.info.kind ≠ .choice → k.info.kind ≠ .case → Reach H sk k
  | through {sk : List STree} {ch c k : STree} : ch ∈ sk → ch.info.kind = .choice → c ∈ ch.kids → c.info.kind = .case →
      c.dataSids.any H = true → Reach H c.kids k → Reach H sk k

end LyModel.Valid
