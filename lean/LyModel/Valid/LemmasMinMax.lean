import LyModel.Valid.Final
/-! Helper lemmas for `minmax_correct` (C02): the counting loop of `lyd_validate_minmax` against plain counting. -/
namespace LyModel.Valid
open LyModel LyModel.Tree

/-- the verdict `minmaxCheck` derives from the state the loop ends in -/
def mmVerdictOf (max : Nat) (r : MM) : MMVerdict :=
  if r.min != 0 then .tooFew
  else if max != 0 && !(r.count ≤ max) then
    match r.iter with
    | some x => .tooMany x
    | none => .ok
  else .ok

theorem minmaxCheck_eq (min max : Nat) (insts : List (DNode × Nat)) :
    minmaxCheck min max insts = mmVerdictOf max (minmaxLoop max insts 0 min) := rfl

/-- plain counting, from a state in which `count` instances were already seen, `m` is what is left of `min` (0 = satisfied) -/
def mmSpecFrom (max count m : Nat) (xs : List (DNode × Nat)) : MMVerdict :=
  if m ≠ 0 ∧ count + xs.length < m then .tooFew
  else if h : max ≠ 0 ∧ max < count + xs.length ∧ count ≤ max then .tooMany (xs[max - count]'(by omega))
  else .ok

theorem mmSpecFrom_cons (max count m : Nat) (x : DNode × Nat) (xs : List (DNode × Nat)) (hc : max ≠ 0 → count + 1 ≤ max) :
    mmSpecFrom max count m (x :: xs) = mmSpecFrom max (count + 1) m xs := by
  simp only [mmSpecFrom, List.length_cons]
  by_cases hA : m ≠ 0 ∧ count + (xs.length + 1) < m
  · have hA' : m ≠ 0 ∧ count + 1 + xs.length < m := by omega
    simp [hA, hA']
  · have hA' : ¬ (m ≠ 0 ∧ count + 1 + xs.length < m) := by omega
    simp only [hA, hA', if_false]
    by_cases hh : max ≠ 0 ∧ max < count + (xs.length + 1) ∧ count ≤ max
    · have hh' : max ≠ 0 ∧ max < count + 1 + xs.length ∧ count + 1 ≤ max := ⟨hh.1, by omega, hc hh.1⟩
      simp only [hh, hh']
      have : max - count = (max - (count + 1)) + 1 := by have := hc hh.1; omega
      simp [this]
    · have hh' : ¬ (max ≠ 0 ∧ max < count + 1 + xs.length ∧ count + 1 ≤ max) := by omega
      simp [hh, hh']

/-- The loop with its early exits gives the verdict of plain counting.  `hq`: what is left of `min` is at most `max + 1` — true for
every compiled schema (`min-elements` ≤ `max-elements`); without it the loop stops at `max + 1` instances with `min` unsatisfied
and reports "too few" whatever follows (see `minmax_break_before_min`). -/
theorem minmaxLoop_spec (max : Nat) :
    ∀ (xs : List (DNode × Nat)) (count m : Nat), (m ≠ 0 → count < m) → (max ≠ 0 → count ≤ max) → (m ≠ 0 → max ≠ 0 → m ≤ max + 1) →
      mmVerdictOf max (minmaxLoop max xs count m) = mmSpecFrom max count m xs := by
  intro xs
  induction xs with
  | nil =>
    intro count m hm hx _
    simp only [minmaxLoop, mmVerdictOf, mmSpecFrom, List.length_nil, Nat.add_zero]
    by_cases h0 : m = 0
    · subst h0
      simp
    · have := hm h0
      simp [h0, this]
  | cons x xs ih =>
    intro count m hm hx hq
    unfold minmaxLoop
    simp only []
    split
    · -- min becomes satisfied with this instance
      rename_i hmin
      simp only [Bool.and_eq_true, bne_iff_ne, ne_eq, beq_iff_eq] at hmin
      obtain ⟨hm0, hcm⟩ := hmin
      split
      · -- no max: nothing more to check
        rename_i hmax
        have hmax0 : max = 0 := by simpa using hmax
        subst hmax0
        simp [mmVerdictOf, mmSpecFrom, hm0]
        omega
      · rename_i hmax
        have hmax0 : max ≠ 0 := by simpa using hmax
        have hx' := hx hmax0
        split
        · -- max exceeded by the same instance
          rename_i hgt
          have : max = count := by omega
          subst this
          simp [mmVerdictOf, mmSpecFrom, hm0, hmax0]
          omega
        · rename_i hgt
          rw [ih (count + 1) 0 (by simp) (by intro _; omega) (by simp)]
          rw [mmSpecFrom_cons max count m x xs (by intro _; omega)]
          simp only [mmSpecFrom]
          have e1 : ¬ (m ≠ 0 ∧ count + 1 + xs.length < m) := by omega
          simp [e1]
    · rename_i hmin
      have hmin' : ¬ (m ≠ 0 ∧ count + 1 = m) := by
        intro h
        apply hmin
        simp [h.1, h.2]
      split
      · -- max exceeded
        rename_i hgt
        simp only [Bool.and_eq_true, bne_iff_ne, ne_eq, decide_eq_true_eq] at hgt
        obtain ⟨hmax0, hc⟩ := hgt
        have : max = count := by have := hx hmax0; omega
        subst this
        by_cases hm0 : m = 0
        · subst hm0
          simp [mmVerdictOf, mmSpecFrom, hmax0]
        · -- min still open: impossible under `hq`
          have := hm hm0
          have := hq hm0 hmax0
          omega
      · rename_i hgt
        have hle : max ≠ 0 → count + 1 ≤ max := by
          intro h
          have : ¬ (count + 1 > max) := by
            intro hc; apply hgt; simp [h, hc]
          omega
        rw [ih (count + 1) m (by intro h; have := hm h; omega) hle hq]
        rw [mmSpecFrom_cons max count m x xs hle]

/-- `lyd_validate_minmax` = plain counting (see `Props.C02.minmax_correct`) -/
theorem minmaxCheck_spec (min max : Nat) (insts : List (DNode × Nat)) (hc : max = 0 ∨ min ≤ max) :
    minmaxCheck min max insts =
      if min ≠ 0 ∧ insts.length < min then .tooFew
      else if h : max ≠ 0 ∧ max < insts.length then .tooMany (insts[max]'h.2)
      else .ok := by
  rw [minmaxCheck_eq, minmaxLoop_spec max insts 0 min (by omega) (by omega) (by omega)]
  simp only [mmSpecFrom, Nat.zero_add, Nat.zero_le, and_true, Nat.sub_zero]

end LyModel.Valid
