import LyModel.Valid.FullUB
/-!
# C02, full schema language: completeness of one sibling level

`level_main_complete`: when the explicit data of a freshly built sibling list violate a constraint of the specification of their
schema level, the instance cannot be built through `lyd_new_*` (`buildL`), or `lyd_validate` logs an error for the level or below
(`pipeErrs`).  Induction over the fuel of the walk (= the height of the schema level); `spec_decomp` splits the violated constraint
into a cardinality constraint of the level (`cpl_card`) and the constraints of a data node the specification visits (`cpl_node`).
-/
namespace LyModel.Valid
open LyModel LyModel.Tree

/-! ## small facts -/

mutual
theorem cpl_below_sheight : ∀ {k t : STree}, Below k t → sheight k ≤ sheight t
  | _, _, .self _ => Nat.le_refl _
  | _, _, .kid _ s i ks h => by
    have := cpl_belowL_sheight h
    rw [sheight.eq_def (.mk s i ks)]
    simp only
    omega
theorem cpl_belowL_sheight : ∀ {k : STree} {l : List STree}, BelowL k l → sheight k ≤ sheightL l
  | _, _, .head _ t ts h => by
    have := cpl_below_sheight h
    rw [sheightL]
    exact Nat.le_trans this (Nat.le_max_left _ _)
  | _, _, .tail _ t ts h => by
    have := cpl_belowL_sheight h
    rw [sheightL]
    exact Nat.le_trans this (Nat.le_max_right _ _)
end

theorem cpl_normNew_inner (s : Nat) (f : Flags) (m : List Meta) (ks : List DNode) :
    ∃ fl, normNew (.inner s f m ks) = .inner s fl m ks := by
  unfold normNew clearNew
  split
  · exact ⟨_, rfl⟩
  · exact ⟨_, rfl⟩

theorem cpl_isKind {X : SchemaX} {s : Nat} {i : SNode} {kk : List STree} (hi : InfoFacts X.base (.mk s i kk)) (kd : SKind) :
    X.base.isKind s kd = true ↔ i.kind = kd := by
  have hk := hi.kind
  simp only [STree.sid, STree.info] at hk
  unfold Schema.isKind
  rw [hk]
  simp

theorem cpl_isKind_false {X : SchemaX} {s : Nat} {i : SNode} {kk : List STree} (hi : InfoFacts X.base (.mk s i kk)) (kd : SKind)
    (h : i.kind ≠ kd) : X.base.isKind s kd = false := by
  cases hb : X.base.isKind s kd with
  | false => rfl
  | true => exact absurd ((cpl_isKind hi kd).1 hb) h

/-- a good instance of a leaf / leaf-list is a term node -/
theorem cpl_term_of_good {X : SchemaX} {y : DNode} (hg : goodN X y = true)
    (h : X.base.isKind y.sid .leaf = true ∨ X.base.isKind y.sid .leaflist = true) : y.isTerm = true := by
  cases y with
  | term s f m v => rfl
  | inner s f m ks =>
    rw [goodN_inner] at hg
    simp only [DNode.sid] at h
    rcases h with h | h
    · rw [hg.2.1] at h; cases h
    · rw [hg.2.2.1] at h; cases h

/-- a good instance of a container / list is an inner node -/
theorem cpl_inner_of_good {X : SchemaX} {y : DNode} (hg : goodN X y = true)
    (h1 : X.base.isKind y.sid .leaf = false) (h2 : X.base.isKind y.sid .leaflist = false) : y.isTerm = false := by
  cases y with
  | inner s f m ks => rfl
  | term s f m v =>
    rw [goodN_term] at hg
    simp only [DNode.sid] at h1 h2
    rcases hg.2 with h | h
    · rw [h1] at h; cases h
    · rw [h2] at h; cases h

/-- the explicit instances of a schema node on a fresh, good sibling list -/
theorem cpl_inst_of {X : SchemaX} {sk : List STree} {ks : List DNode} (hg : goodL X sk ks = true) {s : Nat} {e : DNode}
    (he : e ∈ instsOf (explicitL ks) s) : ∃ y ∈ ks, y.sid = s ∧ goodN X y = true ∧ e = exN y := by
  rw [explicitL_fresh ks (goodL_fresh X sk ks hg), instsOf_map_exN] at he
  obtain ⟨y, hy, rfl⟩ := List.mem_map.1 he
  obtain ⟨hy1, hy2⟩ := mem_instsOf.1 hy
  exact ⟨y, hy1, hy2, ((goodL_all X sk ks).1 hg y hy1).2, rfl⟩

theorem cpl_inst_mem {X : SchemaX} {sk : List STree} {ks : List DNode} (hg : goodL X sk ks = true) {y : DNode} (hy : y ∈ ks) :
    exN y ∈ instsOf (explicitL ks) y.sid := by
  rw [explicitL_fresh ks (goodL_fresh X sk ks hg), instsOf_map_exN]
  exact List.mem_map_of_mem (mem_instsOf.2 ⟨hy, rfl⟩)

theorem cpl_uniques_nil {X : SchemaX} (hu : X.uniques = []) (s : Nat) : X.uniquesOf s = [] := by
  unfold SchemaX.uniquesOf
  rw [hu]
  rfl

/-! ## which part of `pipeErrs` -/

section parts
variable {X : SchemaX} {o : VOpts} {fuel : Nat} {cx1 cx2 cx3 cxF : Cx} {sk : List STree} {ks : List DNode}

theorem cpl_pipe_new (h : (validateNew X o cx1 ks).2.errs ≠ []) : pipeErrs X o fuel cx1 cx2 cx3 cxF sk ks ≠ [] := by
  unfold pipeErrs
  intro h0
  simp only [List.append_eq_nil_iff] at h0
  exact h h0.1.1.1

theorem cpl_pipe_walk {e : VErr}
    (h : e ∈ (walkList (subtreeNode X o fuel cx3) [] (implL X o cx2 sk (validateNew X o cx1 ks).1).1).2.errs) :
    pipeErrs X o fuel cx1 cx2 cx3 cxF sk ks ≠ [] := by
  unfold pipeErrs
  intro h0
  simp only [List.append_eq_nil_iff] at h0
  rw [h0.1.1.2] at h
  cases h

theorem cpl_pipe_level (h : (levelChecks X o cxF (pipeTree X o fuel cx1 cx2 cx3 sk ks)).errs ≠ []) :
    pipeErrs X o fuel cx1 cx2 cx3 cxF sk ks ≠ [] := by
  unfold pipeErrs
  intro h0
  simp only [List.append_eq_nil_iff] at h0
  exact h h0.1.2

theorem cpl_pipe_final {e : VErr} (h : e ∈ (finalKids X o cxF [] (pipeTree X o fuel cx1 cx2 cx3 sk ks)).2.errs) :
    pipeErrs X o fuel cx1 cx2 cx3 cxF sk ks ≠ [] := by
  unfold pipeErrs
  intro h0
  simp only [List.append_eq_nil_iff] at h0
  rw [h0.2] at h
  cases h

end parts

/-- (V) `lyd_validate_new` logs a forbidden pair and data of two cases -/
theorem cpl_new_logs (X : SchemaX) (o : VOpts) (cx : Cx) (hop : o.operational = false) (ks : List DNode) (hfr : isFreshL ks = true)
    (h : ¬ NoPair X.base ks ∨ dupCaseL (hasInst ks) (X.kidsOf cx.parent) = true) : (validateNew X o cx ks).2.errs ≠ [] := by
  intro h0
  have := ((validateNew_fresh_full X o cx hop ks hfr).2.1).1 h0
  rcases h with h | h
  · exact h this.1
  · rw [this.2] at h; cases h

/-! ## the statement at one fuel, and the hypotheses about one level -/

/-- `level_main_complete` at fuel `fuel` -/
def CplAt (X : SchemaX) (o : VOpts) (fuel : Nat) : Prop :=
  ∀ (sk : List STree) (ks : List DNode) (cx1 cx2 cx3 cxF : Cx),
    sheightL sk ≤ fuel → (∀ k, BelowL k sk → BelowL k X.top) → LevelSane sk → X.kidsOf cx1.parent = sk → X.kidsOf cxF.parent = sk →
    goodL X sk ks = true → ks.length ≤ uint32Max →
    ∀ K ∈ specL X o sk (explicitL ks), buildL X.base ks ≠ none ∨ pipeErrs X o fuel cx1 cx2 cx3 cxF sk ks ≠ []

structure CplLv (X : SchemaX) (o : VOpts) (fuel : Nat) (sk : List STree) (ks : List DNode) (cx1 cx2 cx3 cxF : Cx) : Prop where
  hop : o.operational = false
  hU : UniqBridge X o
  hq : X.q.implicitInnerCase = false
  hl : KidsLookupOk X
  hio : InfoOk X
  hs : FullSane X o
  hh : sheightL sk ≤ fuel
  hb : ∀ k, BelowL k sk → BelowL k X.top
  hls : LevelSane sk
  hk1 : X.kidsOf cx1.parent = sk
  hkF : X.kidsOf cxF.parent = sk
  hg : goodL X sk ks = true
  hlen : ks.length ≤ uint32Max

section level
variable {X : SchemaX} {o : VOpts} {fuel : Nat} {sk : List STree} {ks : List DNode} {cx1 cx2 cx3 cxF : Cx}
  (C : CplLv X o fuel sk ks cx1 cx2 cx3 cxF)
include C

theorem cpl_facts : LevelFacts X o fuel cx1 cx2 cx3 sk ks :=
  level_facts X o C.hop C.hq fuel cx1 cx2 cx3 sk ks C.hls C.hg C.hlen (fun k hk => C.hio k (C.hb k hk))

theorem cpl_fresh : isFreshL ks = true := goodL_fresh X sk ks C.hg

theorem cpl_V (h : ¬ NoPair X.base ks ∨ dupCaseL (hasInst ks) sk = true) : pipeErrs X o fuel cx1 cx2 cx3 cxF sk ks ≠ [] := by
  apply cpl_pipe_new
  apply cpl_new_logs X o cx1 C.hop ks (cpl_fresh C)
  rw [C.hk1]
  exact h

theorem cpl_dupCase (h : dupCaseL (hasInst (explicitL ks)) sk = true) : pipeErrs X o fuel cx1 cx2 cx3 cxF sk ks ≠ [] := by
  rw [hasInst_explicit_fresh_fun (cpl_fresh C)] at h
  exact cpl_V C (Or.inr h)

/-- (i) a violated cardinality constraint of the level -/
theorem cpl_card {K : EKind} (hK : K ∈ cardL o (explicitL ks) sk) : pipeErrs X o fuel cx1 cx2 cx3 cxF sk ks ≠ [] := by
  have F := cpl_facts C
  have hdc : EKind.dupCase ∈ cardL o (explicitL ks) sk → pipeErrs X o fuel cx1 cx2 cx3 cxF sk ks ≠ [] := fun h =>
    cpl_dupCase C ((dupCaseL_iff_card o (explicitL ks) sk C.hls.kinds C.hls.noCase).2 h)
  by_cases hne : K = .dupCase
  · subst hne; exact hdc hK
  · rcases level_complete X o cxF C.hop F.cnt fuel sk C.hh C.hls.kinds C.hls.nodup C.hls.sane F.sel K hK hne with h | h
    · apply cpl_pipe_level
      unfold levelChecks
      rw [C.hkF, Out.append_errs]
      intro h0
      exact h (List.append_eq_nil_iff.1 h0).2
    · exact hdc h

/-- a state node under `LYD_VALIDATE_NO_STATE` -/
theorem cpl_state (hns : o.noState = true) {y : DNode} (hy : y ∈ ks) (hc : X.base.config y.sid = false) :
    pipeErrs X o fuel cx1 cx2 cx3 cxF sk ks ≠ [] := by
  have F := cpl_facts C
  obtain ⟨b, hb1, _⟩ := walkList_elem (subtreeNode X o fuel cx3) _ [] _ (F.keeps y hy)
  rw [← F.tree] at hb1
  apply cpl_pipe_level
  unfold levelChecks
  rw [Out.append_errs]
  intro h0
  have h1 := (nodeChecks_nil_iff X.base o cxF _ []).1 (List.append_eq_nil_iff.1 h0).1 hns _ hb1
  rw [subtreeNode_sid, normNew_sid, hc] at h1
  cases h1

/-- the pipeline of the children of an inner node of the completed level is part of the pipeline of the level -/
theorem cpl_inner {a : DNode} (ha : a ∈ (implL X o cx2 sk (ks.map normNew)).1) {s : Nat} {fl : Flags} {m : List Meta}
    {akids : List DNode} (hshape : a = .inner s fl m akids) {f : Nat} (hf : fuel = f + 1)
    (H : ∀ c1 cF : Cx, c1.parent = some s → cF.parent = some s →
      pipeErrs X o f c1 c1.keysOld c1.keysOld cF (X.kidsOf (some s)) akids ≠ []) :
    pipeErrs X o fuel cx1 cx2 cx3 cxF sk ks ≠ [] := by
  have F := cpl_facts C
  subst hf
  subst hshape
  obtain ⟨b, hb1, hb2⟩ := walkList_elem (subtreeNode X o (f + 1) cx3) _ [] _ ha
  have hmem3 : (subtreeNode X o (f + 1) cx3 b (.inner s fl m akids)).1 ∈ pipeTree X o (f + 1) cx1 cx2 cx3 sk ks := by
    rw [F.tree]; exact hb1
  obtain ⟨bF, hbF⟩ := finalKids_elem X o cxF _ [] _ hmem3
  have hne := H (cx3.descend X.base b (.inner s fl m akids))
    (cxF.descend X.base bF (subtreeNode X o (f + 1) cx3 b (.inner s fl m akids)).1) rfl
    (by show some _ = some s; rw [subtreeNode_sid]; rfl)
  obtain ⟨e, he⟩ := List.exists_mem_of_ne_nil _ hne
  rcases (elem_pipe X o f cx3 cxF b bF s fl m akids e).2 he with h | h
  · apply cpl_pipe_walk (e := e)
    rw [F.r1tree]
    exact hb2 e h
  · exact cpl_pipe_final (hbF e h)

/-- the induction step into the children of an inner node of the completed level that instantiates the data node `k` -/
theorem cpl_rec (IH : ∀ f, fuel = f + 1 → CplAt X o f) {s : Nat} {i : SNode} {kk : List STree} (hbel : BelowL (.mk s i kk) sk)
    (h1 : i.kind ≠ .choice) (h2 : i.kind ≠ .case) {a : DNode} (ha : a ∈ (implL X o cx2 sk (ks.map normNew)).1) {fl : Flags}
    {m : List Meta} {akids : List DNode} (hshape : a = .inner s fl m akids) (hga : goodL X kk akids = true)
    (hla : akids.length ≤ uint32Max) {K : EKind} (hK : K ∈ specL X o kk (explicitL akids)) :
    buildL X.base akids ≠ none ∨ pipeErrs X o fuel cx1 cx2 cx3 cxF sk ks ≠ [] := by
  have hbt : BelowL (.mk s i kk) X.top := C.hb _ hbel
  have hkids : X.kidsOf (some s) = kk := C.hl _ hbt
  have hsh : sheightL kk + 1 ≤ fuel := by
    have h3 := cpl_belowL_sheight hbel
    rw [sheight.eq_def (.mk s i kk)] at h3
    simp only at h3
    have := C.hh
    omega
  obtain ⟨f, hf⟩ : ∃ f, fuel = f + 1 := ⟨fuel - 1, by omega⟩
  have hlsk : LevelSane kk := (C.hs.data _ hbt h1 h2).1
  have hbk : ∀ k', BelowL k' kk → BelowL k' X.top := fun k' hk' =>
    BelowL.trans' hk' (fun a' ha' => BelowL.kid_of_below hbt ha')
  by_cases hbuild : buildL X.base akids = none
  · right
    apply cpl_inner C ha hshape hf
    intro c1 cF hc1 hcF
    rw [hkids]
    rcases IH f hf kk akids c1 c1.keysOld c1.keysOld cF (by omega) hbk hlsk (by rw [hc1]; exact hkids) (by rw [hcF]; exact hkids)
      hga hla K hK with h | h
    · exact absurd hbuild h
    · exact h
  · exact Or.inl hbuild

/-- the induction step into an explicit instance of a container / list -/
theorem cpl_rec_expl (IH : ∀ f, fuel = f + 1 → CplAt X o f) {s : Nat} {i : SNode} {kk : List STree} (hbel : BelowL (.mk s i kk) sk)
    (hkind : i.kind = .container ∨ i.kind = .list) {y : DNode} (hy : y ∈ ks) (hys : y.sid = s) (hgy : goodN X y = true)
    {K : EKind} (hK : K ∈ specL X o kk (exN y).kids) :
    buildL X.base ks ≠ none ∨ pipeErrs X o fuel cx1 cx2 cx3 cxF sk ks ≠ [] := by
  have F := cpl_facts C
  have hbt : BelowL (.mk s i kk) X.top := C.hb _ hbel
  have hi : InfoFacts X.base (.mk s i kk) := infoFacts_of_get _ _ (C.hio _ hbt)
  have hkids : X.kidsOf (some s) = kk := C.hl _ hbt
  have h1 : i.kind ≠ .choice := by rcases hkind with h | h <;> simp [h]
  have h2 : i.kind ≠ .case := by rcases hkind with h | h <;> simp [h]
  have h3 : i.kind ≠ .leaf := by rcases hkind with h | h <;> simp [h]
  have h4 : i.kind ≠ .leaflist := by rcases hkind with h | h <;> simp [h]
  have hnt : y.isTerm = false :=
    cpl_inner_of_good hgy (by rw [hys]; exact cpl_isKind_false hi _ h3) (by rw [hys]; exact cpl_isKind_false hi _ h4)
  cases y with
  | term s' f0 m v => cases hnt
  | inner s' f0 m ykids =>
    have hys : s' = s := hys
    subst hys
    obtain ⟨fl, hfl⟩ := cpl_normNew_inner s' f0 m ykids
    rw [goodN_inner, hkids] at hgy
    have hK' : K ∈ specL X o kk (explicitL ykids) := hK
    rcases cpl_rec C IH hbel h1 h2 (F.keeps _ hy) hfl hgy.2.2.2.2 hgy.2.2.2.1 hK' with h | h
    · exact Or.inl (build_of_kid X hy h)
    · exact Or.inr h

/-- the `unexpState` clause of a data node -/
theorem cpl_unexp {s : Nat} {i : SNode} {kk : List STree} (hi : InfoFacts X.base (.mk s i kk))
    (hst : (o.noState && !i.config) = true) (hne : instsOf (explicitL ks) s ≠ []) :
    pipeErrs X o fuel cx1 cx2 cx3 cxF sk ks ≠ [] := by
  obtain ⟨e, he⟩ := List.exists_mem_of_ne_nil _ hne
  obtain ⟨y, hy, hys, _, _⟩ := cpl_inst_of C.hg he
  simp only [Bool.and_eq_true, Bool.not_eq_eq_eq_not, Bool.not_true] at hst
  have hc := hi.cfg
  simp only [STree.sid, STree.info] at hc
  exact cpl_state C hst.1 hy (by rw [hys, hc]; exact hst.2)

/-- the `badValue` clause of a leaf / leaf-list -/
theorem cpl_badValue {s : Nat} {i : SNode} {kk : List STree} (hi : InfoFacts X.base (.mk s i kk))
    (hkind : i.kind = .leaf ∨ i.kind = .leaflist) (h : ¬ ∀ n ∈ instsOf (explicitL ks) s, typeOk i.ty n.val = true) :
    buildL X.base ks ≠ none := by
  obtain ⟨e, hne⟩ := Classical.not_forall.1 h
  obtain ⟨he, hv⟩ := Classical.not_imp.1 hne
  obtain ⟨y, hy, hys, hgy, rfl⟩ := cpl_inst_of C.hg he
  have hty := hi.ty
  simp only [STree.sid, STree.info] at hty
  have ht : y.isTerm = true := by
    apply cpl_term_of_good hgy
    rw [hys]
    rcases hkind with hk | hk
    · exact Or.inl ((cpl_isKind hi _).2 hk)
    · exact Or.inr ((cpl_isKind hi _).2 hk)
  apply build_of_badValue X hy ht
  rw [hys, hty]
  rw [exN_val] at hv
  simpa using hv

/-- a cardinality clause of a visited data node -/
theorem cpl_card_node {k : STree} (hr : Reach (hasInst (explicitL ks)) sk k) {K : EKind} (hK : K ∈ cardNode o (explicitL ks) k) :
    pipeErrs X o fuel cx1 cx2 cx3 cxF sk ks ≠ [] :=
  cpl_card C (cardL_of_reach o (explicitL ks) hr K hK)

/-! ### by the kind of the visited node -/

theorem cpl_leaf {s : Nat} {i : SNode} {kk : List STree} (hr : Reach (hasInst (explicitL ks)) sk (.mk s i kk)) (hkind : i.kind = .leaf)
    {K : EKind} (hK : K ∈ specNode X o (.mk s i kk) (explicitL ks)) :
    buildL X.base ks ≠ none ∨ pipeErrs X o fuel cx1 cx2 cx3 cxF sk ks ≠ [] := by
  have hi : InfoFacts X.base (.mk s i kk) := infoFacts_of_get _ _ (C.hio _ (C.hb _ hr.belowL))
  rw [specNode_leaf_mem X o _ _ hkind] at hK
  rcases hK with ⟨_, hst, hne⟩ | ⟨_, hlen⟩ | hm | ⟨_, hbv⟩
  · exact Or.inr (cpl_unexp C hi hst hne)
  · exact Or.inr (cpl_V C (Or.inl (dup_complete_short X hi (cpl_fresh C) (Or.inl hkind) hlen)))
  · exact Or.inr (cpl_card_node C hr ((cardNode_leaf_mem o _ K hkind).2 hm))
  · exact Or.inl (cpl_badValue C hi (Or.inl hkind) hbv)

theorem cpl_leaflist {s : Nat} {i : SNode} {kk : List STree} (hr : Reach (hasInst (explicitL ks)) sk (.mk s i kk))
    (hkind : i.kind = .leaflist) {K : EKind} (hK : K ∈ specNode X o (.mk s i kk) (explicitL ks)) :
    buildL X.base ks ≠ none ∨ pipeErrs X o fuel cx1 cx2 cx3 cxF sk ks ≠ [] := by
  have hi : InfoFacts X.base (.mk s i kk) := infoFacts_of_get _ _ (C.hio _ (C.hb _ hr.belowL))
  rw [specNode_leaflist_mem X o _ _ hkind] at hK
  rcases hK with ⟨_, hst, hne⟩ | ⟨_, hc, hpw⟩ | hm | hm | ⟨_, hbv⟩
  · exact Or.inr (cpl_unexp C hi hst hne)
  · exact Or.inr (cpl_V C (Or.inl (dup_complete_ll X hi (cpl_fresh C) hkind hc hpw)))
  · exact Or.inr (cpl_card_node C hr ((cardNode_leaflist_mem o _ K hkind).2 (Or.inl hm)))
  · exact Or.inr (cpl_card_node C hr ((cardNode_leaflist_mem o _ K hkind).2 (Or.inr hm)))
  · exact Or.inl (cpl_badValue C hi (Or.inr hkind) hbv)

theorem cpl_list (IH : ∀ f, fuel = f + 1 → CplAt X o f) {s : Nat} {i : SNode} {kk : List STree}
    (hr : Reach (hasInst (explicitL ks)) sk (.mk s i kk)) (hkind : i.kind = .list)
    {K : EKind} (hK : K ∈ specNode X o (.mk s i kk) (explicitL ks)) :
    buildL X.base ks ≠ none ∨ pipeErrs X o fuel cx1 cx2 cx3 cxF sk ks ≠ [] := by
  have hi : InfoFacts X.base (.mk s i kk) := infoFacts_of_get _ _ (C.hio _ (C.hb _ hr.belowL))
  rw [specNode_list_mem X o _ _ hkind] at hK
  rcases hK with ⟨_, hst, hne⟩ | ⟨_, hnk⟩ | ⟨_, hc, hpw⟩ | hm | hm | ⟨_, hstu, hun⟩ | ⟨e, he, hKe⟩
  · exact Or.inr (cpl_unexp C hi hst hne)
  · left
    obtain ⟨e, hne⟩ := Classical.not_forall.1 hnk
    obtain ⟨he, hv⟩ := Classical.not_imp.1 hne
    obtain ⟨y, hy, hys, hgy, rfl⟩ := cpl_inst_of C.hg he
    have hnt : y.isTerm = false :=
      cpl_inner_of_good hgy (by rw [hys]; exact cpl_isKind_false hi _ (by simp [hkind]))
        (by rw [hys]; exact cpl_isKind_false hi _ (by simp [hkind]))
    apply build_of_noKey X hy hnt (by rw [hys]; exact (cpl_isKind hi _).2 hkind)
    rw [keysPresent_exN _ _ _ (isFreshN_kids (goodN_fresh X y hgy))] at hv
    rw [hys]
    simpa using hv
  · exact Or.inr (cpl_V C (Or.inl (dup_complete_list X hi (cpl_fresh C) hkind hc hpw)))
  · exact Or.inr (cpl_card_node C hr ((cardNode_list_mem o _ K hkind).2 (Or.inl hm)))
  · exact Or.inr (cpl_card_node C hr ((cardNode_list_mem o _ K hkind).2 (Or.inr hm)))
  · right
    have F := cpl_facts C
    have hne := (C.hU fuel sk ks cx1 cx2 cx3 cxF C.hh C.hb C.hls C.hg C.hlen s i kk hr.belowL hkind).2 hun
    have hcfg : ∀ ch k', BelowL ch sk → Below k' ch → ch.info.config = false → k'.info.config = false :=
      fun ch k' hb hb' => C.hs.cfg ch k' (C.hb ch hb) hb'
    rcases level_complete_uniq X o cxF fuel sk C.hh C.hls.kinds C.hls.nodup C.hls.sane F.sel hcfg (.mk s i kk) hr hkind hstu hne with h | h
    · apply cpl_pipe_level
      unfold levelChecks
      rw [C.hkF, Out.append_errs]
      intro h0
      exact h (List.append_eq_nil_iff.1 h0).2
    · exact cpl_dupCase C ((dupCaseL_iff_card o (explicitL ks) sk C.hls.kinds C.hls.noCase).2 h)
  · obtain ⟨y, hy, hys, hgy, rfl⟩ := cpl_inst_of C.hg he
    exact cpl_rec_expl C IH hr.belowL (Or.inr hkind) hy hys hgy hKe

/-- the virtual non-presence container: no instance, the specification looks through it -/
theorem cpl_virtual (IH : ∀ f, fuel = f + 1 → CplAt X o f) {s : Nat} {i : SNode} {kk : List STree}
    (hr : Reach (hasInst (explicitL ks)) sk (.mk s i kk)) (hkind : i.kind = .container) (hp : i.presence = false)
    (hemp : instsOf (explicitL ks) s = []) {K : EKind} (hK : K ∈ specL X o kk []) :
    pipeErrs X o fuel cx1 cx2 cx3 cxF sk ks ≠ [] := by
  have F := cpl_facts C
  have hbel := hr.belowL
  have hbt : BelowL (.mk s i kk) X.top := C.hb _ hbel
  cases hst : (o.noState && !i.config) with
  | true =>
    exfalso
    simp only [Bool.and_eq_true, Bool.not_eq_eq_eq_not, Bool.not_true] at hst
    have hall : allStateL kk = true := by
      rw [allStateL_iff_below]
      intro k' hk'
      exact C.hs.cfg _ k' hbt (Below.kid _ _ _ _ hk') hst.2
    rw [spec_state_empty X o hst.1 kk hall] at hK
    cases hK
  | false =>
    have hw : wantsImplicit o (.mk s i kk) = true := by
      unfold wantsImplicit
      simp only [STree.info, hkind, hp, hst]
      rfl
    rcases reach_want o (hasInst (explicitL ks)) C.hls.kinds (fun ch k' hch => C.hs.cfg ch k' (C.hb ch hch)) hr hw with h | h
    · obtain ⟨a, ha, has⟩ := F.wanted s h
      have has : a.sid = s := has
      rcases F.cases a ha with ⟨y, hy, rfl⟩ | ⟨_, _, k0, hk0, hk0s, hk0f, hk0k, hk0t⟩
      · exfalso
        have := cpl_inst_mem C.hg hy
        rw [normNew_sid] at has
        rw [has, hemp] at this
        cases this
      · have hinfo : k0.info = i := by
          have e1 := C.hio k0 (C.hb k0 hk0)
          have e2 := C.hio _ hbt
          simp only [STree.sid, STree.info] at e2
          rw [← hk0s, has, e2] at e1
          exact (Option.some.inj e1).symm
        have hat : a.isTerm = false := by
          rcases hk0t with h | h
          · exact h.1
          · exfalso
            rw [hinfo, hkind] at h
            rcases h.2 with h | h <;> cases h
        cases a with
        | term s' f0 m v => cases hat
        | inner s' f0 m akids =>
          have hk0k : akids = [] := hk0k
          have has : s' = s := has
          subst hk0k
          subst has
          rcases cpl_rec C IH hbel (by simp [hkind]) (by simp [hkind]) ha rfl (by unfold goodL; rfl) (by simp) hK with h | h
          · exfalso
            apply h
            rw [buildL]
          · exact h
    · exact cpl_dupCase C h

theorem cpl_container (IH : ∀ f, fuel = f + 1 → CplAt X o f) {s : Nat} {i : SNode} {kk : List STree}
    (hr : Reach (hasInst (explicitL ks)) sk (.mk s i kk)) (hkind : i.kind = .container)
    {K : EKind} (hK : K ∈ specNode X o (.mk s i kk) (explicitL ks)) :
    buildL X.base ks ≠ none ∨ pipeErrs X o fuel cx1 cx2 cx3 cxF sk ks ≠ [] := by
  have hi : InfoFacts X.base (.mk s i kk) := infoFacts_of_get _ _ (C.hio _ (C.hb _ hr.belowL))
  rw [specNode_container_mem X o _ _ hkind] at hK
  rcases hK with ⟨_, hst, hne⟩ | ⟨_, hlen⟩ | ⟨e, he, hKe⟩ | ⟨hp, hemp, hK⟩
  · exact Or.inr (cpl_unexp C hi hst hne)
  · exact Or.inr (cpl_V C (Or.inl (dup_complete_short X hi (cpl_fresh C) (Or.inr hkind) hlen)))
  · obtain ⟨y, hy, hys, hgy, rfl⟩ := cpl_inst_of C.hg he
    exact cpl_rec_expl C IH hr.belowL (Or.inl hkind) hy hys hgy hKe
  · exact Or.inr (cpl_virtual C IH hr hkind hp hemp hK)

/-- (ii) a violated constraint of a data node the specification visits -/
theorem cpl_node (IH : ∀ f, fuel = f + 1 → CplAt X o f) {k : STree} (hr : Reach (hasInst (explicitL ks)) sk k)
    {K : EKind} (hK : K ∈ specNode X o k (explicitL ks)) :
    buildL X.base ks ≠ none ∨ pipeErrs X o fuel cx1 cx2 cx3 cxF sk ks ≠ [] := by
  have hd := hr.data
  cases k with
  | mk s i kk =>
    cases hkind : i.kind with
    | choice => exact absurd hkind hd.1
    | case => exact absurd hkind hd.2
    | leaf => exact cpl_leaf C hr hkind hK
    | leaflist => exact cpl_leaflist C hr hkind hK
    | container => exact cpl_container C IH hr hkind hK
    | list => exact cpl_list C IH hr hkind hK

theorem cpl_step (IH : ∀ f, fuel = f + 1 → CplAt X o f) {K : EKind} (hK : K ∈ specL X o sk (explicitL ks)) :
    buildL X.base ks ≠ none ∨ pipeErrs X o fuel cx1 cx2 cx3 cxF sk ks ≠ [] := by
  rcases spec_decomp X o (explicitL ks) C.hls.kinds C.hls.noCase K hK with h | ⟨k, hr, hKk, _⟩
  · exact Or.inr (cpl_card C h)
  · exact cpl_node C IH hr hKk

end level

/-- **completeness of one sibling level and everything below**: a violated constraint of the specification on the explicit data
of a freshly built sibling list means the instance cannot be built, or `lyd_validate` logs an error for the level or below -/
theorem level_main_complete (X : SchemaX) (o : VOpts) (hop : o.operational = false) (hU : UniqBridge X o)
    (hq : X.q.implicitInnerCase = false) (hl : KidsLookupOk X) (hio : InfoOk X) (hs : FullSane X o) :
    ∀ (fuel : Nat) (sk : List STree) (ks : List DNode) (cx1 cx2 cx3 cxF : Cx),
      sheightL sk ≤ fuel → (∀ k, BelowL k sk → BelowL k X.top) → LevelSane sk → X.kidsOf cx1.parent = sk → X.kidsOf cxF.parent = sk →
      goodL X sk ks = true → ks.length ≤ uint32Max →
      ∀ K ∈ specL X o sk (explicitL ks), buildL X.base ks ≠ none ∨ pipeErrs X o fuel cx1 cx2 cx3 cxF sk ks ≠ [] := by
  intro fuel
  induction fuel with
  | zero =>
    intro sk ks cx1 cx2 cx3 cxF hh hb hls hk1 hkF hg hlen K hK
    exact cpl_step ⟨hop, hU, hq, hl, hio, hs, hh, hb, hls, hk1, hkF, hg, hlen⟩ (fun f hf => by omega) hK
  | succ n ih =>
    intro sk ks cx1 cx2 cx3 cxF hh hb hls hk1 hkF hg hlen K hK
    exact cpl_step ⟨hop, hU, hq, hl, hio, hs, hh, hb, hls, hk1, hkF, hg, hlen⟩
      (fun f hf => by
        have : f = n := by omega
        subst this
        exact ih) hK

end LyModel.Valid
