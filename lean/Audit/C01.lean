import LyModel.Props.C01
#print axioms LyModel.Props.C01.xml_text_roundtrip
#print axioms LyModel.Props.C01.xml_content_roundtrip
#print axioms LyModel.Props.C01.xml_attr_roundtrip
#print axioms LyModel.XmlText.esc_eq_spec
#print axioms LyModel.Props.C01.json_string_roundtrip
#print axioms LyModel.JsonText.esc_eq_spec
