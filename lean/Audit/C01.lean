import LyModel.Props.C01
import LyModel.Props.C01Lyb
import LyModel.Props.C01LybTree
#print axioms LyModel.Props.C01.xml_text_roundtrip
#print axioms LyModel.Props.C01.xml_content_roundtrip
#print axioms LyModel.Props.C01.xml_attr_roundtrip
#print axioms LyModel.XmlText.esc_eq_spec
#print axioms LyModel.Props.C01.json_string_roundtrip
#print axioms LyModel.JsonText.esc_eq_spec
#print axioms LyModel.Props.C01Lyb.params_gen_ok
#print axioms LyModel.Props.C01Lyb.lyb_chunk_roundtrip
#print axioms LyModel.Props.C01Lyb.lyb_chunk_roundtrip_gen
#print axioms LyModel.Props.C01Lyb.lyb_hash_lookup_correct
#print axioms LyModel.Props.C01Lyb.lyb_hash_lookup_correct_real
#print axioms LyModel.Props.C01Lyb.lyb_hash_siblings_total_fails
#print axioms LyModel.Props.C01Lyb.lyb_hash_siblings_total_partial
#print axioms LyModel.Props.C01Lyb.lyb_revision_pack_roundtrip
#print axioms LyModel.Props.C01Lyb.lyb_revision_pack_range_fails
#print axioms LyModel.Props.C01Lyb.absorb_byte_injective
#print axioms LyModel.Props.C01Lyb.hash_multi_state_injective
#print axioms LyModel.Props.C01Lyb.lyb_skip_lands_at_end_fails
#print axioms LyModel.Props.C01Lyb.lyb_skip_lands_at_end_nested_fails
#print axioms LyModel.Props.C01Lyb.lyb_skip_lands_at_end_partial
#print axioms LyModel.Props.C01Lyb.lyb_skip_top_frame
#print axioms LyModel.Props.C01LybTree.lyb_tree_roundtrip
#print axioms LyModel.Props.C01LybTree.lyb_tree_roundtrip_tagged_partial
#print axioms LyModel.Props.C01LybTree.lyb_tree_roundtrip_single
#print axioms LyModel.Props.C01LybTree.lyb_tree_roundtrip_tagged_fixed
#print axioms LyModel.Props.C01LybTree.lyb_tree_roundtrip_gen
#print axioms LyModel.Props.C01LybTree.rev_ok
#print axioms LyModel.Props.C01LybTree.lyb_node_head_roundtrip
#print axioms LyModel.Props.C01LybTree.lyb_term_value_roundtrip
#print axioms LyModel.Props.C01LybTree.exPrint
#print axioms LyModel.Props.C01LybTree.lyb_tree_print_total_fails
#print axioms LyModel.Props.C01LybTree.lyb_tree_roundtrip_tagged_fails
#print axioms LyModel.Props.C01LybTree.lyb_meta_skip_fixed
#print axioms LyModel.Props.C01LybTree.lyb_meta_skip_fails
