import LyModel.Props.C01
#print axioms LyModel.Props.C01.placeholder
