import LyModel.Props.C05
import LyModel.Props.C05JsonNum
#print axioms LyModel.Props.C05.json_exp_number_in_bounds
#print axioms LyModel.Props.C05.getutf8_reads_before_nul
#print axioms LyModel.Props.C05.json_string_buffer_safe
#print axioms LyModel.Props.C05.xml_value_buffer_safe
#print axioms LyModel.Props.C05.json_number_value_fails
#print axioms LyModel.Props.C05.json_number_value_fails_vacuous_for_fixed_source
#print axioms LyModel.Props.C05.f14_witness_fixed
#print axioms LyModel.Props.C05.f14_witness2_fixed
#print axioms LyModel.Props.C05.json_number_value_at_f14_witnesses_fixed
#print axioms LyModel.Props.C05.json_number_value_partial
#print axioms LyModel.Props.C05.json_number_value_fixed
#print axioms LyModel.Props.C05.json_number_value_iff_fixed
#print axioms LyModel.Props.C05.json_number_no_syntax_error
