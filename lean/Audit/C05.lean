import LyModel.Props.C05
#print axioms LyModel.Props.C05.placeholder
