import LyModel.Props.C16
#print axioms LyModel.Props.C16.lock_discipline
#print axioms LyModel.Props.C16.lock_discipline_full_fails
#print axioms LyModel.Props.C16.lock_discipline_violators
#print axioms LyModel.Props.C16.shared_sites_covered
#print axioms LyModel.Props.C16.guarded_accesses_exclusive
#print axioms LyModel.Props.C16.walk_implies_restOk
#print axioms LyModel.Props.C16.dict_linearizable
#print axioms LyModel.Props.C16.dict_linearizable_needs_discipline
#print axioms LyModel.Props.C16.err_isolated_partial
#print axioms LyModel.Props.C16.stale_threshold_value
#print axioms LyModel.Props.C16.err_safe_below_threshold
#print axioms LyModel.Props.C16.err_stale_schedule
#print axioms LyModel.Props.C16.err_stale_pointer_fails
#print axioms LyModel.Props.C16.lazy_canon_sites
#print axioms LyModel.Props.C16.lazy_canon_partial
#print axioms LyModel.Props.C16.lazy_canon_serial
#print axioms LyModel.Props.C16.lazy_canon_race_fails
