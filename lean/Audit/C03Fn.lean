import LyModel.Props.C03Fn
#print axioms LyModel.Props.C03Fn.gen_checkutf8_is_model
#print axioms LyModel.Props.C03Fn.gen_validators_agree_partial
#print axioms LyModel.Props.C03Fn.gen_validators_agree_fails
#print axioms LyModel.Bridge.Utf8.checkutf8_eq
#print axioms LyModel.Bridge.Utf8.less_eq
#print axioms LyModel.Bridge.Utf8.greater_eq
#print axioms LyModel.Bridge.Utf8.andeq_eq
#print axioms LyModel.Props.C03Fn.gen_utf8len_is_model
#print axioms LyModel.Bridge.Utf8.utf8len_eq
