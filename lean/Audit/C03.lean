import LyModel.Props.C03
#print axioms LyModel.Props.C03.placeholder
