import LyModel.Props.C07
#print axioms LyModel.Props.C07.placeholder
