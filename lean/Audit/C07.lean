import LyModel.Props.C07
import LyModel.Props.C07Valdiff
import LyModel.Props.C07Completion
import LyModel.Props.C07Fix
#print axioms LyModel.Props.C07.validate_idempotent
#print axioms LyModel.Props.C07.dflt_flag_sound
#print axioms LyModel.Props.C07.is_default_iff_rfc6243_fails
#print axioms LyModel.Props.C07.is_default_iff_rfc6243_partial
#print axioms LyModel.Props.C07.wd_modes_term
#print axioms LyModel.Props.C07.wd_modes_inner
#print axioms LyModel.Props.C07.implicit_exact
#print axioms LyModel.Props.C07.autodel_exact
#print axioms LyModel.Props.C07.np_cont_dflt
#print axioms LyModel.Props.C07.validate_idempotent_choice
#print axioms LyModel.Props.C07.validate_idempotent_choice_fails
#print axioms LyModel.Props.C07.validate_idempotent_choice_F188_fails
#print axioms LyModel.Props.C07.np_cont_dflt_validate
#print axioms LyModel.Props.C07.implicit_exact_choice
#print axioms LyModel.Props.C07.implicit_exact_choice_F180_fails
#print axioms LyModel.Props.C07.autodel_case_exact
#print axioms LyModel.Props.C07.validate_normal_form
#print axioms LyModel.Props.C07.np_cont_dflt_reachable
#print axioms LyModel.Props.C07.valdiff_exact_F177_fails
#print axioms LyModel.Props.C07.valdiff_exact_F179_fails
#print axioms LyModel.Props.C07.valdiff_exact_F194_fails
#print axioms LyModel.Props.C07.valdiff_exact_F400_fails
#print axioms LyModel.Props.C07.valdiff_exact_F400_fixed
#print axioms LyModel.Props.C07.valdiff_exact_unchanged
#print axioms LyModel.Props.C07.valdiff_exact_partial_validated
#print axioms LyModel.Props.C07.implicit_valdiff_exact
#print axioms LyModel.Props.C07.valdiff_exact_partial_fresh
#print axioms LyModel.Props.C07.implicit_exact_tree_explicit
#print axioms LyModel.Props.C07.implicit_exact_tree_nochoice
#print axioms LyModel.Props.C07.implicit_exact_tree
#print axioms LyModel.Props.C07.implicit_exact_tree_of_B
#print axioms LyModel.Props.C07.implicit_exact_tree_nonfresh_fails
#print axioms LyModel.Props.C07.valdiff_exact_partial_top
#print axioms LyModel.Props.C07.validate_idempotent_choice_fix
#print axioms LyModel.Props.C07.validate_normal_form_fix
#print axioms LyModel.Props.C07.valdiff_exact_partial_validated_fix
