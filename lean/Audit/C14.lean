import LyModel.Props.C14
#print axioms LyModel.Props.C14.merge_into_empty
#print axioms LyModel.Props.C14.merge_into_empty_with_flags
#print axioms LyModel.Props.C14.merge_destruct_eq_copy
#print axioms LyModel.Props.C14.merge_destruct_eq_copy_fails
#print axioms LyModel.Props.C14.merge_idempotent_partial
#print axioms LyModel.Props.C14.merge_contains_source
#print axioms LyModel.Props.C14.merge_contains_leaflist_value
#print axioms LyModel.Props.C14.merge_keeps_untouched_target
#print axioms LyModel.Props.C14.dup_equal_recursive
#print axioms LyModel.Props.C14.dup_equal_content
#print axioms LyModel.Props.C14.dup_equal_with_flags
#print axioms LyModel.Props.C14.dup_no_meta
#print axioms LyModel.Props.C14.dup_shallow
#print axioms LyModel.Props.C14.dup_siblings_equal
#print axioms LyModel.Props.C14.dup_siblings_full
#print axioms LyModel.Props.C14.merge_into_empty_eq_dup
