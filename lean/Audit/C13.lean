import LyModel.Props.C13
import LyModel.Props.C13Merge
#print axioms LyModel.Props.C13.reverse_apply_partial
#print axioms LyModel.Props.C13.reverse_apply_diff_partial
#print axioms LyModel.Props.C13.reverse_involutive
#print axioms LyModel.Props.C13.reverse_apply_userord_fails
#print axioms LyModel.Props.C13.reverse_apply_userord_delete_fails
#print axioms LyModel.Props.C13.merge_apply_nodefaults_fails
#print axioms LyModel.Props.C13.merge_apply_mergedefaults_fails
#print axioms LyModel.Props.C13.op_order_matches_source
#print axioms LyModel.Props.C13.merge_table_rejects
#print axioms LyModel.Props.C13.merge_table_accepts
#print axioms LyModel.Props.C13.merge_cell_create_delete
#print axioms LyModel.Props.C13.merge_cell_create_replace
#print axioms LyModel.Props.C13.merge_cell_create_none
#print axioms LyModel.Props.C13.merge_cell_delete_create
#print axioms LyModel.Props.C13.merge_cell_replace_replace
#print axioms LyModel.Props.C13.merge_cell_replace_delete
#print axioms LyModel.Props.C13.merge_cell_replace_none
#print axioms LyModel.Props.C13.merge_cell_none_replace
#print axioms LyModel.Props.C13.merge_cell_none_delete
#print axioms LyModel.Props.C13.merge_cell_none_none
#print axioms LyModel.Props.C13.merge_cancel_leaf
#print axioms LyModel.Props.C13.merge_rejected_unreachable
#print axioms LyModel.Props.C13.merge_cell_apply
