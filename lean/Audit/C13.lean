import LyModel.Props.C13
#print axioms LyModel.Props.C13.placeholder
