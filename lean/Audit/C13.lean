import LyModel.Props.C13
#print axioms LyModel.Props.C13.reverse_apply_partial
#print axioms LyModel.Props.C13.reverse_apply_diff_partial
#print axioms LyModel.Props.C13.reverse_apply_userord_fails
#print axioms LyModel.Props.C13.reverse_apply_userord_delete_fails
#print axioms LyModel.Props.C13.merge_apply_nodefaults_fails
#print axioms LyModel.Props.C13.merge_apply_mergedefaults_fails
#print axioms LyModel.Props.C13.op_order_matches_source
#print axioms LyModel.Props.C13.merge_table_rejects
#print axioms LyModel.Props.C13.merge_table_accepts
