import LyModel.Props.C05Fn
import LyModel.Props.C05FnJson
#print axioms LyModel.Props.C05Fn.gen_utf8_are_model
#print axioms LyModel.Props.C05Fn.gen_getutf8_stops_at_nul
#print axioms LyModel.Props.C05Fn.gen_pututf8_in_bounds
#print axioms LyModel.Bridge.Utf8.getutf8_eq
#print axioms LyModel.Bridge.Utf8.pututf8_eq
#print axioms LyModel.Props.C05FnJson.gen_json_u_is_model
#print axioms LyModel.Props.C05FnJson.gen_json_u_stops_at_nul
#print axioms LyModel.Bridge.JsonU.u_eq
