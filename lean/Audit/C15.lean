import LyModel.Props.C15
import LyModel.Props.C15Typed
#print axioms LyModel.Props.C15.path_buffer_in_bounds
#print axioms LyModel.Props.C15.static_buffer_terminated_fails
#print axioms LyModel.Props.C15.static_buffer_terminated_fixed
#print axioms LyModel.Props.C15.static_buffer_terminated_partial
#print axioms LyModel.Props.C15.pred_roundtrip_fails
#print axioms LyModel.Props.C15.pred_roundtrip_partial
#print axioms LyModel.Props.C15.path_parse_print
#print axioms LyModel.Props.C15.path_finds_node
#print axioms LyModel.Props.C15.new_path_exists
#print axioms LyModel.Props.C15.new_path_chain_fails
#print axioms LyModel.Props.C15.new_path_chain_partial
#print axioms LyModel.Props.C15.ChainOK.compiled
#print axioms LyModel.Props.C15.static_buffer_terminated_iff_source
#print axioms LyModel.Props.C15.au_chainOK
#print axioms LyModel.Props.C15.ex_chainOK
#print axioms LyModel.Props.C15Typed.typed_canon_idempotent
#print axioms LyModel.Props.C15Typed.union_canon_idem_fails
#print axioms LyModel.Props.C15Typed.path_identifies_typed_fails
#print axioms LyModel.Props.C15Typed.path_identifies_typed_partial
#print axioms LyModel.Props.C15Typed.new_path_typed_canonical
#print axioms LyModel.Props.C15Typed.predicate_key_names_exact
#print axioms LyModel.Props.C15Typed.key_order_free
#print axioms LyModel.Props.C15Typed.af_chainOK
#print axioms LyModel.Props.C15Typed.af_valuesOK
#print axioms LyModel.Props.C15Typed.f460_chainOK
