import LyModel.Props.C15
#print axioms LyModel.Props.C15.path_buffer_in_bounds
#print axioms LyModel.Props.C15.static_buffer_terminated_fails
#print axioms LyModel.Props.C15.static_buffer_terminated_fixed
#print axioms LyModel.Props.C15.static_buffer_terminated_partial
#print axioms LyModel.Props.C15.pred_roundtrip_fails
#print axioms LyModel.Props.C15.pred_roundtrip_partial
#print axioms LyModel.Props.C15.path_parse_print
#print axioms LyModel.Props.C15.path_finds_node
#print axioms LyModel.Props.C15.new_path_exists
#print axioms LyModel.Props.C15.new_path_chain_fails
#print axioms LyModel.Props.C15.new_path_chain_partial
#print axioms LyModel.Props.C15.ChainOK.compiled
#print axioms LyModel.Props.C15.static_buffer_terminated_iff_source
#print axioms LyModel.Props.C15.au_chainOK
#print axioms LyModel.Props.C15.ex_chainOK
