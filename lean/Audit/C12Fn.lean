import LyModel.Props.C05Fn
#print axioms LyModel.Props.C05Fn.gen_utf8_are_model
#print axioms LyModel.Props.C05Fn.gen_getutf8_stops_at_nul
#print axioms LyModel.Bridge.Utf8.getutf8_eq
#print axioms LyModel.Bridge.Utf8.pututf8_eq
