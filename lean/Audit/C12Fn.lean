import LyModel.Props.C05Fn
import LyModel.Props.C01FnPrint
#print axioms LyModel.Props.C05Fn.gen_utf8_are_model
#print axioms LyModel.Props.C05Fn.gen_getutf8_stops_at_nul
#print axioms LyModel.Bridge.Utf8.getutf8_eq
#print axioms LyModel.Bridge.Utf8.pututf8_eq
#print axioms LyModel.Props.C01FnPrint.gen_printers_are_model
#print axioms LyModel.Props.C01FnPrint.gen_xml_roundtrip
#print axioms LyModel.Props.C01FnPrint.gen_json_roundtrip
#print axioms LyModel.Bridge.Print.xml_dump_text_eq
#print axioms LyModel.Bridge.Print.json_print_string_eq
