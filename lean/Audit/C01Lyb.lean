import LyModel.Props.C01Lyb
#print axioms LyModel.Props.C01Lyb.params_gen_ok
#print axioms LyModel.Props.C01Lyb.lyb_chunk_roundtrip
#print axioms LyModel.Props.C01Lyb.lyb_chunk_roundtrip_gen
#print axioms LyModel.Props.C01Lyb.lyb_hash_lookup_correct
#print axioms LyModel.Props.C01Lyb.lyb_hash_lookup_correct_real
#print axioms LyModel.Props.C01Lyb.lyb_hash_siblings_total_fails
#print axioms LyModel.Props.C01Lyb.lyb_hash_siblings_total_partial
#print axioms LyModel.Props.C01Lyb.lyb_revision_pack_roundtrip
#print axioms LyModel.Props.C01Lyb.lyb_revision_pack_range_fails
#print axioms LyModel.Props.C01Lyb.absorb_byte_injective
#print axioms LyModel.Props.C01Lyb.hash_multi_state_injective
#print axioms LyModel.Props.C01Lyb.lyb_skip_lands_at_end_fails
#print axioms LyModel.Props.C01Lyb.lyb_skip_lands_at_end_nested_fails
#print axioms LyModel.Props.C01Lyb.lyb_skip_lands_at_end_partial
#print axioms LyModel.Props.C01Lyb.lyb_skip_top_frame
