import LyModel.Props.C01Lyb
#print axioms LyModel.Props.C01Lyb.params_gen_ok
#print axioms LyModel.Props.C01Lyb.lyb_chunk_roundtrip
#print axioms LyModel.Props.C01Lyb.lyb_chunk_roundtrip_gen
