import LyModel.Props.C01Lyb
#print axioms LyModel.Props.C01Lyb.params_gen_ok
#print axioms LyModel.Props.C01Lyb.lyb_chunk_roundtrip
#print axioms LyModel.Props.C01Lyb.lyb_chunk_roundtrip_gen
#print axioms LyModel.Props.C01Lyb.lyb_hash_lookup_correct
#print axioms LyModel.Props.C01Lyb.lyb_hash_lookup_correct_real
#print axioms LyModel.Props.C01Lyb.lyb_hash_siblings_total_fails
#print axioms LyModel.Props.C01Lyb.lyb_hash_siblings_total_partial
