import LyModel.Props.C04
import LyModel.Props.C04Rb
#print axioms LyModel.Props.C04.inv_init
#print axioms LyModel.Props.C04.inv_step_insert
#print axioms LyModel.Props.C04.inv_step_unlink
#print axioms LyModel.Props.C04.inv_step_before
#print axioms LyModel.Props.C04.inv_step_after
#print axioms LyModel.Props.C04.inv_step_fails
#print axioms LyModel.Props.C04.inv_step_changeValue_fails
#print axioms LyModel.Props.C04.changeValue_eint_witness
#print axioms LyModel.Props.C04.inv_step_partial
#print axioms LyModel.Props.C04.inv_step_changeValue_fixed
#print axioms LyModel.Props.C04.inv_reachable
#print axioms LyModel.Props.C04.inv_reachable_partial
#print axioms LyModel.Props.C04.find_iff_scan
#print axioms LyModel.Props.C04.find_schema_iff_scan
#print axioms LyModel.Props.C04.anchor_hash_eq_linear
#print axioms LyModel.Props.C04.insert_stable_sorted
#print axioms LyModel.Props.C04.insert_perm
#print axioms LyModel.Props.C04Rb.rb_inorder_insert
#print axioms LyModel.Props.C04Rb.rb_insert_isRB
#print axioms LyModel.Props.C04Rb.rb_reachable
-- audit (vacuity / weakness review): checkers used by the non-vacuity examples, the repaired corollary of `insert_perm`
#print axioms LyModel.Props.C04.newOkB_sound
#print axioms LyModel.Props.C04.opOkB_sound
#print axioms LyModel.Props.C04.histOkB_sound
#print axioms LyModel.Props.C04.uniqMatchB_sound
#print axioms LyModel.Props.C04.ties_of_mem
#print axioms LyModel.Props.C04.auOps_ok
#print axioms LyModel.Props.C04.auS1_inv
#print axioms LyModel.Props.C04.auS0_inv
#print axioms LyModel.Props.C04.insert_perm_distinct_keys_insufficient_for_userord
#print axioms LyModel.Props.C04.insert_perm_of_perm
#print axioms LyModel.Props.C04Rb.keyGt_trans
