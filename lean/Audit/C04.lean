import LyModel.Props.C04
import LyModel.Props.C04Rb
#print axioms LyModel.Props.C04.inv_init
#print axioms LyModel.Props.C04.inv_step_insert
#print axioms LyModel.Props.C04.inv_step_unlink
#print axioms LyModel.Props.C04.inv_step_before
#print axioms LyModel.Props.C04.inv_step_after
#print axioms LyModel.Props.C04.inv_step_fails
#print axioms LyModel.Props.C04.inv_step_changeValue_fails
#print axioms LyModel.Props.C04.changeValue_eint_witness
#print axioms LyModel.Props.C04.inv_step_partial
#print axioms LyModel.Props.C04.inv_step_changeValue_fixed
#print axioms LyModel.Props.C04.inv_reachable
#print axioms LyModel.Props.C04.inv_reachable_partial
#print axioms LyModel.Props.C04.find_iff_scan
#print axioms LyModel.Props.C04.find_schema_iff_scan
#print axioms LyModel.Props.C04.anchor_hash_eq_linear
#print axioms LyModel.Props.C04.insert_stable_sorted
#print axioms LyModel.Props.C04.insert_perm
#print axioms LyModel.Props.C04Rb.rb_inorder_insert
#print axioms LyModel.Props.C04Rb.rb_insert_isRB
#print axioms LyModel.Props.C04Rb.rb_reachable
