import LyModel.Props.C10
#print axioms LyModel.Props.C10.yang_encode_roundtrip
#print axioms LyModel.Props.C10.yang_encode_roundtrip_fails_cr
#print axioms LyModel.Props.C10.yang_text_roundtrip_partial
#print axioms LyModel.Props.C10.yang_text_roundtrip_fails_F50
#print axioms LyModel.Props.C10.yang_text_roundtrip_fails_F82
#print axioms LyModel.Props.C10.stmt_tree_roundtrip
#print axioms LyModel.Props.C10.stmt_tree_roundtrip_input_fuel
#print axioms LyModel.Props.C10.stmt_roundtrip
-- audit resolution: `KwOk` / exact column for every keyword of the generated trie, and `ypr_text` with its keyword
#print axioms LyModel.Props.C10.kwAt_of_yangKwTrie
#print axioms LyModel.Props.C10.kwOk_of_yangKwTrie
#print axioms LyModel.Props.C10.kwBareOk_input_output
#print axioms LyModel.Props.C10.yang_text_roundtrip_keyword
#print axioms LyModel.Props.C10.kwTree_wf
