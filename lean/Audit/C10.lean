import LyModel.Props.C10
#print axioms LyModel.Props.C10.placeholder
