import LyModel.Props.C10
#print axioms LyModel.Props.C10.yang_encode_roundtrip
#print axioms LyModel.Props.C10.yang_encode_roundtrip_fails_cr
#print axioms LyModel.Props.C10.yang_text_roundtrip_partial
#print axioms LyModel.Props.C10.yang_text_roundtrip_fails_F50
#print axioms LyModel.Props.C10.yang_text_roundtrip_fails_F82
#print axioms LyModel.Props.C10.stmt_tree_roundtrip
#print axioms LyModel.Props.C10.stmt_tree_roundtrip_input_fuel
#print axioms LyModel.Props.C10.stmt_roundtrip
