import LyModel.Props.C10
import LyModel.Props.C10Yin
#print axioms LyModel.Props.C10.yang_encode_roundtrip
#print axioms LyModel.Props.C10.yang_encode_roundtrip_fails_cr
#print axioms LyModel.Props.C10.yang_text_roundtrip_partial
#print axioms LyModel.Props.C10.yang_text_roundtrip_fails_F50
#print axioms LyModel.Props.C10.yang_text_roundtrip_fails_F82
#print axioms LyModel.Props.C10.stmt_tree_roundtrip
#print axioms LyModel.Props.C10.stmt_tree_roundtrip_input_fuel
#print axioms LyModel.Props.C10.stmt_roundtrip
-- audit resolution: `KwOk` / exact column for every keyword of the generated trie, and `ypr_text` with its keyword
#print axioms LyModel.Props.C10.kwAt_of_yangKwTrie
#print axioms LyModel.Props.C10.kwOk_of_yangKwTrie
#print axioms LyModel.Props.C10.kwBareOk_input_output
#print axioms LyModel.Props.C10.yang_text_roundtrip_keyword
#print axioms LyModel.Props.C10.kwTree_wf
-- YIN route, generic statement layer (Props/C10Yin.lean)
#print axioms LyModel.Props.C10Yin.yin_tables_agree
#print axioms LyModel.Props.C10Yin.yin_attr_roundtrip
#print axioms LyModel.Props.C10Yin.yin_text_roundtrip
#print axioms LyModel.Props.C10Yin.yin_open_roundtrip
#print axioms LyModel.Props.C10Yin.yin_close_roundtrip
#print axioms LyModel.Props.C10Yin.yin_leaf_stmt_roundtrip
#print axioms LyModel.Props.C10Yin.yin_ext_roundtrip_fails_F36
#print axioms LyModel.Props.C10Yin.yin_stmt_roundtrip_fails_F86
#print axioms LyModel.Props.C10Yin.yin_stmt_roundtrip_fails_errmsg_value
#print axioms LyModel.Props.C10Yin.yin_stmt_roundtrip
#print axioms LyModel.Props.C10Yin.yin_stmt_roundtrip_text
#print axioms LyModel.Props.C10Yin.printStmt_attr_child
#print axioms LyModel.Props.C10Yin.yin_stmt_roundtrip_fails_noarg
#print axioms LyModel.Props.C10Yin.yin_stmt_roundtrip_fails_prefixed_kw
#print axioms LyModel.Props.C10Yin.yin_ext_roundtrip
#print axioms LyModel.Props.C10Yin.yin_stmt_roundtrip_errmsg_value_fixed
#print axioms LyModel.Props.C10Yin.yin_printer_respects_cardinality
