import LyModel.Props.C17Fn
#print axioms LyModel.Props.C17Fn.gen_lyht_hash_is_ht_model
#print axioms LyModel.Props.C17Fn.gen_fixed_size_is_model
#print axioms LyModel.Props.C17Fn.gen_load_factor_tests_are_model
#print axioms LyModel.Bridge.Hash.hash_eq
#print axioms LyModel.Bridge.Ht.fixed_size_eq
#print axioms LyModel.Bridge.Ht.grow_eq
#print axioms LyModel.Bridge.Ht.shrink_eq
