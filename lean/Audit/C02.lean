import LyModel.Props.C02
#print axioms LyModel.Props.C02.placeholder
