import LyModel.Props.C02
#print axioms LyModel.Props.C02.minmax_correct
#print axioms LyModel.Props.C02.minmax_break_before_min
#print axioms LyModel.Props.C02.unique_hash_eq_pairwise
#print axioms LyModel.Props.C02.unique_hash_independent
#print axioms LyModel.Props.C02.dup_hash_eq_scan
#print axioms LyModel.Props.C02.cases_correct
#print axioms LyModel.Props.C02.cases_fresh
#print axioms LyModel.Props.C02.dup_family
#print axioms LyModel.Props.C02.dup_family_loop
#print axioms LyModel.Props.C02.minmax_family
#print axioms LyModel.Props.C02.state_family
#print axioms LyModel.Props.C02.validate_ok_iff_valid
#print axioms LyModel.Props.C02.validate_error_tag
#print axioms LyModel.Props.C02.validate_ok_iff_valid_vacuous_for_np_containers
