import LyModel.Props.C09
#print axioms LyModel.Props.C09.failed_op_restores_partial
#print axioms LyModel.Props.C09.failed_op_restores_fails
#print axioms LyModel.Props.C09.failed_implement_keeps_features
#print axioms LyModel.Props.C09.pending_batch_dropped
#print axioms LyModel.Props.C09.latest_flag_not_restored
#print axioms LyModel.Props.C09.latest_flag_restored
#print axioms LyModel.Props.C09.data_stays_usable_fails
#print axioms LyModel.Props.C09.data_stays_usable_partial
#print axioms LyModel.Props.C09.data_stays_usable_partial_load
#print axioms LyModel.Props.C09.compiled_schema_not_restored
#print axioms LyModel.Props.C09.implemented_targets_compiled
#print axioms LyModel.Props.C09.later_load_differs
#print axioms LyModel.Props.C09.later_load_same
#print axioms LyModel.Props.C09.imported_rev_restored
#print axioms LyModel.Props.C09.nested_failure_leaves_debris
#print axioms LyModel.Props.C09.nested_failure_reverted
#print axioms LyModel.Props.C09.amend_arrays_restored
