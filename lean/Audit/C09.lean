import LyModel.Props.C09
import LyModel.Props.C09Compiled
import LyModel.Props.C09DepSet
#print axioms LyModel.Props.C09.failed_op_restores_partial
#print axioms LyModel.Props.C09.failed_op_restores_fails
#print axioms LyModel.Props.C09.failed_implement_keeps_features
#print axioms LyModel.Props.C09.pending_batch_dropped
#print axioms LyModel.Props.C09.latest_flag_not_restored
#print axioms LyModel.Props.C09.latest_flag_restored
#print axioms LyModel.Props.C09.data_stays_usable_fails
#print axioms LyModel.Props.C09.data_stays_usable_partial
#print axioms LyModel.Props.C09.data_stays_usable_partial_load
#print axioms LyModel.Props.C09.compiled_schema_not_restored
#print axioms LyModel.Props.C09.implemented_targets_compiled
#print axioms LyModel.Props.C09.later_load_differs
#print axioms LyModel.Props.C09.later_load_same
#print axioms LyModel.Props.C09.imported_rev_restored
#print axioms LyModel.Props.C09.nested_failure_leaves_debris
#print axioms LyModel.Props.C09.nested_failure_reverted
#print axioms LyModel.Props.C09.amend_arrays_restored
#print axioms LyModel.Props.C09.stale_compiled_after_failed_compile
#print axioms LyModel.Props.C09.failed_op_restores_fixed
#print axioms LyModel.Props.C09.compiled_restored_after_failed_compile_fixed
#print axioms LyModel.Props.C09.failed_op_restores_cores
#print axioms LyModel.Props.C09.descOf_congr
#print axioms LyModel.Props.C09.compiled_schema_restored_of_fresh
#print axioms LyModel.Props.C09.compiled_untouched_before_compile
#print axioms LyModel.Ctx.depSetsCreate_closure
#print axioms LyModel.Props.C09.amend_targets_in_dep_set
#print axioms LyModel.Props.C09.targets_flagged_after_dep_sets
