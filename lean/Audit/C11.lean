import LyModel.Props.C11
import LyModel.Props.C11Range
import LyModel.Props.C11Compile
#print axioms LyModel.Props.C11.iff_compile_correct_fails
#print axioms LyModel.Props.C11.iff_compile_correct_partial
#print axioms LyModel.Props.C11.iff_compile_correct_fixed
#print axioms LyModel.Props.C11.iff_compile_sound
#print axioms LyModel.Props.C11.iff_compile_fails_only_by_oob
#print axioms LyModel.Props.C11.iff_rejects_ungrammatical_fails
#print axioms LyModel.Props.C11.iff_rejects_ungrammatical_partial
#print axioms LyModel.Props.C11.iff_getop_setop
#print axioms LyModel.Props.C11.iff_pack_readback
#print axioms LyModel.Props.C11.validate_range_correct
#print axioms LyModel.Props.C11.range_subset_sound_fails
#print axioms LyModel.Props.C11.range_subset_sound_partial
#print axioms LyModel.Props.C11.range_parse_safe_fails
#print axioms LyModel.Props.C11.range_parse_safe_partial
#print axioms LyModel.Props.C11.range_parse_safe_partial_anybase
#print axioms LyModel.Props.C11.range_parse_invariant_fixed
#print axioms LyModel.Props.C11.range_subset_sound_fixed
#print axioms LyModel.Props.C11.range_parse_safe_fixed
#print axioms LyModel.Props.C11.range_validate_fixed
#print axioms LyModel.Props.C11.range_parse_correct_fails
#print axioms LyModel.Props.C11.range_parse_correct_partial
#print axioms LyModel.Props.C11.typedef_chain_restriction_subset
#print axioms LyModel.Props.C11.config_inheritance_node
#print axioms LyModel.Props.C11.status_inheritance_node
#print axioms LyModel.Props.C11.rmSwapIdx_length
#print axioms LyModel.Props.C11.augment_order_independent_fails
#print axioms LyModel.Props.C11.compile_eq_expand_fails

#print axioms LyModel.Props.C11.config_inheritance
#print axioms LyModel.Props.C11.mandatory_parents_raw
#print axioms LyModel.Props.C11.mandatory_parents_fixed
#print axioms LyModel.Props.C11.mandatory_parents_fails
#print axioms LyModel.Props.C11.compile_eq_expand_witness_fixed
#print axioms LyModel.Props.C11.uses_refine_local
