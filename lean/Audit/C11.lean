import LyModel.Props.C11
#print axioms LyModel.Props.C11.iff_compile_correct_fails
#print axioms LyModel.Props.C11.iff_compile_correct_partial
#print axioms LyModel.Props.C11.iff_compile_sound
#print axioms LyModel.Props.C11.iff_rejects_ungrammatical_fails
#print axioms LyModel.Props.C11.iff_rejects_ungrammatical_partial
#print axioms LyModel.Props.C11.iff_getop_setop
#print axioms LyModel.Props.C11.iff_pack_readback
