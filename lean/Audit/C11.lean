import LyModel.Props.C11
#print axioms LyModel.Props.C11.placeholder
