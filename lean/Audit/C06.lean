import LyModel.Props.C06
import LyModel.Props.C06UO
import LyModel.Props.C06UOList
import LyModel.Props.C06UONb
import LyModel.Props.C06UONest
#print axioms LyModel.Props.C06.userord_apply_diff
#print axioms LyModel.Props.C06.diff_self_empty
#print axioms LyModel.Props.C06.apply_diff_partial
#print axioms LyModel.Props.C06.apply_diff_fails
#print axioms LyModel.Props.C06.apply_respects_obs
#print axioms LyModel.Props.C06UO.userord_core_apply_diff
#print axioms LyModel.Props.C06UO.diff_userord_flat_ll_sim
#print axioms LyModel.Props.C06UO.apply_userord_flat_ll_sim
#print axioms LyModel.Props.C06UO.apply_diff_userord_flat_ll
#print axioms LyModel.Props.C06UO.apply_diff_userord_flat_ll_dec
#print axioms LyModel.Props.C06UO.diff_userord_flat_kl_sim
#print axioms LyModel.Props.C06UO.apply_userord_flat_kl_sim
#print axioms LyModel.Props.C06UO.apply_diff_userord_flat_kl
#print axioms LyModel.Props.C06UO.apply_diff_userord_flat_kl_dec
#print axioms LyModel.Props.C06UO.insertUO_among_neighbours
#print axioms LyModel.Props.C06UO.diff_userord_ll_neighbours_sim
#print axioms LyModel.Props.C06UO.apply_diff_userord_ll_neighbours
#print axioms LyModel.Props.C06UO.apply_diff_userord_ll_neighbours_dec
#print axioms LyModel.Props.C06UO.diff_userord_ll_in_container_sim
#print axioms LyModel.Props.C06UO.apply_diff_userord_ll_in_container
#print axioms LyModel.Props.C06UO.apply_diff_userord_ll_in_container_dec
#print axioms LyModel.Props.C06UO.keyPredicate_roundtrip
#print axioms LyModel.Props.C06UO.apply_diff_userord_flat_kl_multikey
#print axioms LyModel.Props.C06UO.apply_diff_userord_flat_kl_multikey_dec
