import LyModel.Props.C06
#print axioms LyModel.Props.C06.userord_apply_diff
