import LyModel.Props.C06
#print axioms LyModel.Props.C06.userord_apply_diff
#print axioms LyModel.Props.C06.diff_self_empty
#print axioms LyModel.Props.C06.apply_diff_partial
#print axioms LyModel.Props.C06.apply_diff_fails
#print axioms LyModel.Props.C06.apply_respects_obs
