import LyModel.Props.C19
#print axioms LyModel.Props.C19.change_count_changes
#print axioms LyModel.Props.C19.change_count_value
#print axioms LyModel.Props.C19.change_count_differs
#print axioms LyModel.Props.C19.module_added_is_counted
#print axioms LyModel.Props.C19.hash_deterministic
#print axioms LyModel.Props.C19.hash_depends_on_implemented
#print axioms LyModel.Props.C19.hash_input_partial
#print axioms LyModel.Props.C19.hash_input_fixed
#print axioms LyModel.Props.C19.hash_depends_fails
#print axioms LyModel.Props.C19.counter_misses_pending_feature_change
#print axioms LyModel.Props.C19.yl_roundtrip_fails
#print axioms LyModel.Ctx.Jenkins.absorb_state_inj
#print axioms LyModel.Ctx.Jenkins.absorb_byte_inj
#print axioms LyModel.Ctx.Jenkins.finish_inj
#print axioms LyModel.Ctx.Jenkins.one_byte_change
