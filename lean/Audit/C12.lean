import LyModel.Props.C12
#print axioms LyModel.Props.C12.xml_chardata_faithful
#print axioms LyModel.Props.C12.json_string_faithful
#print axioms LyModel.XmlText.esc_eq_spec
#print axioms LyModel.JsonText.esc_eq_spec
#print axioms LyModel.Props.C12.xml_document_faithful
#print axioms LyModel.Props.C12.json_typing_rfc7951
#print axioms LyModel.Props.C12.json_tree_refines_spec
#print axioms LyModel.Props.C12.json_document_faithful
#print axioms LyModel.Props.C12.json_typing_covers_rfc7951
#print axioms LyModel.Props.C12.start_tag_binds_each_prefix_once
#print axioms LyModel.Props.C12.start_tag_binds_each_prefix_once_fails_without_consistency
#print axioms LyModel.Props.C12.start_tag_binds_each_prefix_once_fails_without_numbered_prefixes
#print axioms LyModel.Props.C12.attr_prefix_resolves
#print axioms LyModel.Props.C12.attr_prefix_resolves_fails_without_reserved_check
#print axioms LyModel.Props.C12.attr_prefix_resolves_fails_without_numbered_prefixes
