import LyModel.Props.C12
#print axioms LyModel.Props.C12.xml_chardata_faithful
#print axioms LyModel.Props.C12.json_string_faithful
#print axioms LyModel.XmlText.esc_eq_spec
#print axioms LyModel.JsonText.esc_eq_spec
#print axioms LyModel.Props.C12.xml_document_faithful
#print axioms LyModel.Props.C12.json_typing_rfc7951
#print axioms LyModel.Props.C12.json_tree_refines_spec
#print axioms LyModel.Props.C12.json_document_faithful
#print axioms LyModel.Props.C12.json_typing_covers_rfc7951
