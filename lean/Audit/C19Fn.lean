import LyModel.Props.C19Fn
#print axioms LyModel.Props.C19Fn.gen_lyht_hash_is_model
#print axioms LyModel.Props.C19Fn.gen_lyht_hash_multi_is_model
#print axioms LyModel.Props.C19Fn.gen_lyht_hash_multi_null
#print axioms LyModel.Bridge.Hash.hash_multi_eq
#print axioms LyModel.Bridge.Hash.hash_eq
