import LyModel.Props.C17
#print axioms LyModel.Props.C17.placeholder
