import LyModel.Props.C17
import LyModel.Props.C17L1
#print axioms LyModel.Props.C17.ht_new_inv
#print axioms LyModel.Props.C17.ht_inv_preserved
#print axioms LyModel.Props.C17.ht_resizable_never_full
#print axioms LyModel.Props.C17.nested_insert_never_resizes
#print axioms LyModel.Props.C17.ht_find_iff
#print axioms LyModel.Props.C17.ht_insert_exists
#print axioms LyModel.Props.C17.ht_insert_adds
#print axioms LyModel.Props.C17.ht_remove_spec
#print axioms LyModel.Props.C17.ht_resize_preserves_contents
#print axioms LyModel.Props.C17.ht_resize_preserves_contents_fails
#print axioms LyModel.Props.C17.ht_refines_spec
#print axioms LyModel.Props.C17.ht_new_rel
#print axioms LyModel.Props.C17.dict_init_spec
#print axioms LyModel.Props.C17.dict_refcount_spec_partial
#print axioms LyModel.Props.C17.dict_refcount_spec
#print axioms LyModel.Props.C17.dict_refcount_spec_fails
#print axioms LyModel.Props.C17.dict_refcount_spec_fixed
#print axioms LyModel.Props.C17.dict_insert_remove_cancel
#print axioms LyModel.Props.C17.dict_balanced_empty
#print axioms LyModel.Props.C17L1.l1_new
#print axioms LyModel.Props.C17L1.l1_step_refines
#print axioms LyModel.Props.C17L1.l1_refines_l2
#print axioms LyModel.Props.C17L1.l1_first_free_in_bounds
#print axioms LyModel.Props.C17L1.l1_fuel_sufficient
-- audit (vacuity / weakness review): scope theorem for `ht_refines_spec`, witness states used by the non-vacuity examples
#print axioms LyModel.Props.C17.ht_refines_spec_vacuous_for_dict_callbacks
#print axioms LyModel.Props.C17.auVe_equiv
#print axioms LyModel.Props.C17.auNew_rel
#print axioms LyModel.Props.C17.auH_rel
#print axioms LyModel.Props.C17.auH16_rel
#print axioms LyModel.Props.C17.auD5_inv
#print axioms LyModel.Props.C17.auD16_inv
#print axioms LyModel.Props.C17L1.auH1_inv
