import LyModel.Props.C18
#print axioms LyModel.Props.C18.placeholder
