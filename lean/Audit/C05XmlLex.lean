import LyModel.Props.C05XmlLex
#print axioms LyModel.Props.C05XmlLex.xml_value_within_input
#print axioms LyModel.Props.C05XmlLex.xml_qname_within_input
#print axioms LyModel.Props.C05XmlLex.xml_attr_within_input
#print axioms LyModel.Props.C05XmlLex.xml_skip_within_input
#print axioms LyModel.Props.C05XmlLex.xml_stack_bounded
#print axioms LyModel.Props.C05XmlLex.xml_close_pops
#print axioms LyModel.Props.C05XmlLex.xml_ctx_next_within_input
#print axioms LyModel.Props.C05XmlLex.xml_ctx_next_progress
#print axioms LyModel.Props.C05XmlLex.xml_lexer_terminates
