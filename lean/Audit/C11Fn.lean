import LyModel.Props.C11Fn
#print axioms LyModel.Props.C11Fn.gen_iff_ops_are_model
#print axioms LyModel.Props.C11Fn.gen_iff_getop_setop
#print axioms LyModel.Bridge.Iff.getop_eq
#print axioms LyModel.Bridge.Iff.setop_eq
