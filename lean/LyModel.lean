-- Root of the `LyModel` library: every model, lemma and property file.
import LyModel.Base
import LyModel.Drv
import LyModel.Props.C01
import LyModel.Props.C12
import LyModel.Props.C18
import LyModel.Props.C03
import LyModel.Props.C15
import LyModel.Props.C01Lyb
import LyModel.Props.C16
import LyModel.Props.C17
import LyModel.Props.C17L1
import LyModel.Props.C11
import LyModel.Props.C11Range
import LyModel.Props.C08
import LyModel.Props.C05
import LyModel.Props.C05JsonNum
import LyModel.Props.C10
