-- Root of the `LyModel` library: every model, lemma and property file.
import LyModel.Base
