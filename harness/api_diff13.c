/* API harness of component `diff13` (C13: diffs can be reversed and composed).  Public API only.
 *
 *   schema <dsl> <yang-hex>                       register the schema named by the DSL token    -> ok <n> <node-summary>*
 *   build <dsl> <desc>                            build explicit nodes, validate (adds defaults)  -> ok <dump> | err Invalid   [impl only]
 *   diff <dsl> <A> <B> <opts> <fx>                lyd_diff_siblings, all siblings                 -> ok <dump>
 *   reverse <dsl> <A> <B> <opts> <fx>             r = lyd_diff_reverse_all(diff(A,B)); apply r to B; compare with A
 *                                                 -> ok <dump r> <dump apply | DupInstances | E:<err>> <same|differs|-> [P:<n>] | err Reverse:<E>
 *                                                 (P:<n>, implementation only: lyd_diff_apply_all left `data` n siblings behind the first one)
 *   merge3 <dsl> <A> <B> <C> <opts> <mopts> <fx>  m = lyd_diff_merge_all(diff(A,B), diff(B,C)); apply m to A; compare with C
 *                                                 -> ok <dump m> <dump apply | DupInstances | E:<err>> <same|differs|->  | err Merge:<E>
 *        (<fx> = "fx=<ids>": repaired findings of component diff the MODEL of apply has to follow; ignored here)
 *   lawr <dsl> <A> <B> <opts>                     more laws of reverse on the implementation      -> ok <name>=<verdict>*        [impl only]
 *   lawm <dsl> <A> <B> <C> <opts> <mopts>         more laws of merge on the implementation        -> ok <name>=<verdict>*        [impl only]
 *   leakcheck                                                                                     -> ok <n>
 *
 * Trees travel as hex(canonical dump) (treeproto.h).  <opts>: 1 = LYD_DIFF_DEFAULTS, <mopts>: 1 = LYD_DIFF_MERGE_DEFAULTS.
 * "compare": lyd_compare_siblings(FULL_RECURSION | DEFAULTS) when the diffs were made with LYD_DIFF_DEFAULTS; otherwise the
 * result is re-validated (lyd_validate_module) first and compared without the DEFAULTS flag.
 * Diffs are always taken from their first sibling (lyd_diff_siblings may return another node: finding F128 of C06).
 * In the dumps of diffs and of apply results the default flag of non-presence containers is printed as 0: neither apply nor
 * lyd_compare_siblings looks at it, and the model does not track it (Diff/Reverse.lean, Diff/MergeDiff.lean).                */
#define _GNU_SOURCE
#include "treeproto.h"

static void
dbgmsg(const struct tp_schema *s, const char *what)
{
    const struct ly_err_item *e;

    if (!getenv("VERIF_VERBOSE")) return;
    e = ly_err_last(s->ctx);
    fprintf(stderr, "[%s] %s | %s\n", what, e ? e->msg : "(no error)", (e && e->data_path) ? e->data_path : "");
}

/* tp_dump with a flag mask: `keep` = flag bits printed for all nodes; the default flag of np containers is never printed */
static void
dump13_node(const struct tp_schema *s, const struct lyd_node *n, int depth, unsigned keep, struct tp_buf *b)
{
    const struct lyd_node *c;
    const struct lyd_meta *m;
    unsigned fl;

    if (b->len) tp_buf_add(b, "\n", 1);
    if (!n->schema) {
        tp_buf_printf(b, "%d ? 0 -", depth);
    } else {
        fl = n->flags & TP_FLAGMASK & keep;
        if ((n->schema->nodetype == LYS_CONTAINER) && !(n->schema->flags & LYS_PRESENCE)) fl &= ~LYD_DEFAULT;
        tp_buf_printf(b, "%d %d %u ", depth, tp_sid(s, n->schema), fl);
        if (n->schema->nodetype & LYD_NODE_TERM) {
            tp_buf_hex(b, lyd_get_value(n));
        } else {
            tp_buf_add(b, "-", 1);
        }
        for (m = n->meta; m; m = m->next) {
            if (!lyd_metadata_should_print(m)) continue;
            tp_buf_add(b, " ", 1);
            if (strcmp(m->annotation->module->name, "yang")) tp_buf_printf(b, "%s:", m->annotation->module->name);
            tp_buf_printf(b, "%s=", m->name);
            tp_buf_hex(b, lyd_get_meta_value(m));
        }
    }
    for (c = lyd_child(n); c; c = c->next) dump13_node(s, c, depth + 1, keep, b);
}

static char *
dump13(const struct tp_schema *s, const struct lyd_node *forest, unsigned keep)
{
    struct tp_buf b = {0};
    const struct lyd_node *n;

    for (n = forest ? lyd_first_sibling(forest) : NULL; n; n = n->next) dump13_node(s, n, 0, keep, &b);
    return b.s ? b.s : strdup("");
}

static void
field_dump13(const struct tp_schema *s, const struct lyd_node *forest)
{
    char *t = dump13(s, forest, ~0u);

    vp_field_hex(t, strlen(t));
    free(t);
}

/* two equal instances of a keyed list / configuration leaf-list among some siblings (see Diff/Apply.lean: hasDupInst) */
static int
has_dup_inst(const struct lyd_node *first)
{
    const struct lyd_node *a, *b;

    LY_LIST_FOR(first, a) {
        if (a->schema && (a->schema->nodetype & (LYS_LIST | LYS_LEAFLIST)) && !lysc_is_dup_inst_list(a->schema)) {
            for (b = a->next; b && (b->schema == a->schema); b = b->next) {
                if (!lyd_compare_single(a, b, 0)) return 1;
            }
        }
        if (has_dup_inst(lyd_child(a))) return 1;
    }
    return 0;
}

static unsigned
nprev(const struct lyd_node *n)
{
    unsigned k = 0;

    for ( ; n && n->prev->next; n = n->prev) ++k;
    return k;
}

static int
same(const struct lyd_node *a, const struct lyd_node *b, int dflt)
{
    return lyd_compare_siblings(a, b, LYD_COMPARE_FULL_RECURSION | (dflt ? LYD_COMPARE_DEFAULTS : 0)) == LY_SUCCESS;
}

static int
arg_tree(const char *id, const struct tp_schema *s, const char *tok, struct lyd_node **t)
{
    char *text = vp_unhex(tok, NULL);
    LY_ERR r;

    *t = NULL;
    if (!text) { vp_reply(id, "err BadHex"); return 1; }
    r = tp_load_canonical(s, text, t);
    free(text);
    if (r == LY_EOTHER) { vp_reply(id, "err NonCanonical"); return 1; }
    if (r) { vp_reply(id, "err BadTree"); return 1; }
    return 0;
}

/* an independently built copy of a tree argument (lyd_dup_siblings leaves incomplete sorting trees behind: finding F125 of C06) */
static struct lyd_node *
fresh(const struct tp_schema *s, const char *tok)
{
    char *text = vp_unhex(tok, NULL);
    struct lyd_node *t = NULL;

    if (text) tp_load(s, text, 1, &t);
    free(text);
    return t;
}

/* development aid: where do two trees with equal dumps differ for lyd_compare_single? */
static void
dbg_cmp(const struct lyd_node *a, const struct lyd_node *b, int depth)
{
    for ( ; a && b; a = a->next, b = b->next) {
        if (a->hash != b->hash) {
            fprintf(stderr, "[cmp] depth %d node %s: hash %u vs %u (flags %x %x)\n", depth, LYD_NAME(a), a->hash, b->hash, a->flags, b->flags);
        }
        if (lyd_compare_single(a, b, 0)) {
            fprintf(stderr, "[cmp] depth %d node %s: lyd_compare_single(0) differs\n", depth, LYD_NAME(a));
        }
        dbg_cmp(lyd_child(a), lyd_child(b), depth + 1);
    }
    if (a || b) fprintf(stderr, "[cmp] depth %d: different number of siblings\n", depth);
}

/* fields `<apply-result> <verdict>`: apply `d` (from its first sibling) to the tree `*data`, compare with `want` */
static void
apply_fields(const struct tp_schema *s, struct lyd_node **data, const struct lyd_node *d, const struct lyd_node *want, int dflt,
        const char *what)
{
    LY_ERR rc;

    unsigned stale;

    rc = lyd_diff_apply_all(data, d ? lyd_first_sibling(d) : NULL);
    if (rc) {
        dbgmsg(s, what);
        fprintf(stdout, " E:%s -", tp_errname(rc));
        return;
    }
    /* lyd_diff_apply_all(&data, …) must leave `data` at the first sibling; the comparison below starts from the real first
     * sibling, the distance is reported in the implementation-only field P:<n> (finding F174) */
    stale = nprev(*data);
    *data = lyd_first_sibling(*data);
    if (has_dup_inst(*data)) {
        fprintf(stdout, " DupInstances");
    } else {
        field_dump13(s, *data);
    }
    if (!dflt && lyd_validate_module(data, s->mod, 0, NULL)) {
        dbgmsg(s, "revalidation");
        fprintf(stdout, " differs P:%u", stale);
        return;
    }
    if (getenv("VERIF_VERBOSE") && !same(*data, want, dflt)) {
        char *t = dump13(s, *data, ~0u), *w = dump13(s, want, ~0u);

        fprintf(stderr, "[%s] result:\n%s\nwanted:\n%s\n", what, t, w);
        free(t); free(w);
        dbg_cmp(*data, want, 0);
    }
    fprintf(stdout, " %s P:%u", same(*data, want, dflt) ? "same" : "differs", stale);
}

static void
op_reverse(const char *id, const struct tp_schema *s, char **tok)
{
    struct lyd_node *A = NULL, *B = NULL, *B2 = NULL, *d = NULL, *r = NULL;
    int dflt = atoi(tok[6]);
    LY_ERR rc;

    if (arg_tree(id, s, tok[4], &A)) return;
    if (arg_tree(id, s, tok[5], &B)) { lyd_free_all(A); return; }
    rc = lyd_diff_siblings(A, B, dflt ? LYD_DIFF_DEFAULTS : 0, &d);
    if (rc) { vp_reply(id, "err Diff:%s", tp_errname(rc)); goto out; }
    d = lyd_first_sibling(d);
    rc = lyd_diff_reverse_all(d, &r);
    if (rc) { dbgmsg(s, "reverse"); vp_reply(id, "err Reverse:%s", tp_errname(rc)); goto out; }
    B2 = fresh(s, tok[5]);
    vp_begin(id, "ok");
    field_dump13(s, r);
    apply_fields(s, &B2, r, A, dflt, "apply reversed");
    vp_end();
out:
    lyd_free_all(A); lyd_free_all(B); lyd_free_all(B2); lyd_free_all(d); lyd_free_all(r);
}

static void
op_merge3(const char *id, const struct tp_schema *s, char **tok)
{
    struct lyd_node *A = NULL, *B = NULL, *C = NULL, *A2 = NULL, *d1 = NULL, *d2 = NULL;
    int dflt = atoi(tok[7]), mo = atoi(tok[8]);
    LY_ERR rc;

    if (arg_tree(id, s, tok[4], &A)) return;
    if (arg_tree(id, s, tok[5], &B)) { lyd_free_all(A); return; }
    if (arg_tree(id, s, tok[6], &C)) { lyd_free_all(A); lyd_free_all(B); return; }
    rc = lyd_diff_siblings(A, B, dflt ? LYD_DIFF_DEFAULTS : 0, &d1);
    if (!rc) rc = lyd_diff_siblings(B, C, dflt ? LYD_DIFF_DEFAULTS : 0, &d2);
    if (rc) { vp_reply(id, "err Diff:%s", tp_errname(rc)); goto out; }
    d1 = lyd_first_sibling(d1);
    d2 = lyd_first_sibling(d2);
    rc = lyd_diff_merge_all(&d1, d2, mo ? LYD_DIFF_MERGE_DEFAULTS : 0);
    if (rc) { dbgmsg(s, "merge"); vp_reply(id, "err Merge:%s", tp_errname(rc)); goto out; }
    d1 = lyd_first_sibling(d1);
    A2 = fresh(s, tok[4]);
    vp_begin(id, "ok");
    field_dump13(s, d1);
    apply_fields(s, &A2, d1, C, dflt, "apply merged");
    vp_end();
out:
    lyd_free_all(A); lyd_free_all(B); lyd_free_all(C); lyd_free_all(A2); lyd_free_all(d1); lyd_free_all(d2);
}

/* verdict of applying `d` to a fresh copy of the tree `tok` and comparing with `want` */
static const char *
apply_verdict(const struct tp_schema *s, const char *tok, const struct lyd_node *d, const struct lyd_node *want, int dflt)
{
    struct lyd_node *t = fresh(s, tok);
    const char *v;

    if (lyd_diff_apply_all(&t, d ? lyd_first_sibling(d) : NULL)) {
        v = "applyerr";
    } else if (!dflt && lyd_validate_module(&t, s->mod, 0, NULL)) {
        v = "revalerr";
    } else {
        v = same(t, want, dflt) ? "same" : "differs";
    }
    lyd_free_all(t);
    return v;
}

static void
op_lawr(const char *id, const struct tp_schema *s, char **tok)
{
    struct lyd_node *A = NULL, *B = NULL, *d = NULL, *r = NULL, *rr = NULL;
    char *d0 = NULL, *d1 = NULL, *dd = NULL, *rd = NULL;
    int dflt = atoi(tok[6]);
    LY_ERR rc;

    if (arg_tree(id, s, tok[4], &A)) return;
    if (arg_tree(id, s, tok[5], &B)) { lyd_free_all(A); return; }
    vp_begin(id, "ok");
    rc = lyd_diff_siblings(A, B, dflt ? LYD_DIFF_DEFAULTS : 0, &d);
    fprintf(stdout, " diff=%s", tp_errname(rc));
    if (rc) goto out;
    d = lyd_first_sibling(d);
    d0 = dump13(s, d, ~0u);
    rc = lyd_diff_reverse_all(d, &r);
    fprintf(stdout, " rev=%s", tp_errname(rc));
    /* reversing does not modify its input */
    d1 = dump13(s, d, ~0u);
    fprintf(stdout, " pureD=%d", !strcmp(d0, d1));
    if (rc) goto out;
    /* reversing twice gives the diff back (the copies carry LYD_NEW and lose LYD_WHEN_TRUE: compare LYD_DEFAULT only) */
    rc = lyd_diff_reverse_all(r, &rr);
    fprintf(stdout, " rev2=%s", tp_errname(rc));
    if (rc) goto out;
    dd = dump13(s, d, LYD_DEFAULT);
    rd = dump13(s, rr, LYD_DEFAULT);
    fprintf(stdout, " invol=%d", !strcmp(dd, rd));
    fprintf(stdout, " rr=%s", apply_verdict(s, tok[4], rr, B, dflt));
out:
    vp_end();
    lyd_free_all(A); lyd_free_all(B); lyd_free_all(d); lyd_free_all(r); lyd_free_all(rr);
    free(d0); free(d1); free(dd); free(rd);
}

static void
op_lawm(const char *id, const struct tp_schema *s, char **tok)
{
    struct lyd_node *A = NULL, *B = NULL, *C = NULL, *d1 = NULL, *d2 = NULL, *d3 = NULL;
    char *x0 = NULL, *x1 = NULL;
    int dflt = atoi(tok[7]), mo = atoi(tok[8]);
    LY_ERR rc;

    if (arg_tree(id, s, tok[4], &A)) return;
    if (arg_tree(id, s, tok[5], &B)) { lyd_free_all(A); return; }
    if (arg_tree(id, s, tok[6], &C)) { lyd_free_all(A); lyd_free_all(B); return; }
    vp_begin(id, "ok");
    rc = lyd_diff_siblings(A, B, dflt ? LYD_DIFF_DEFAULTS : 0, &d1);
    if (!rc) rc = lyd_diff_siblings(B, C, dflt ? LYD_DIFF_DEFAULTS : 0, &d2);
    if (!rc) rc = lyd_diff_siblings(A, C, dflt ? LYD_DIFF_DEFAULTS : 0, &d3);
    fprintf(stdout, " diff=%s", tp_errname(rc));
    if (rc) goto out;
    d1 = lyd_first_sibling(d1);
    d2 = lyd_first_sibling(d2);
    x0 = dump13(s, d2, ~0u);
    rc = lyd_diff_merge_all(&d1, d2, mo ? LYD_DIFF_MERGE_DEFAULTS : 0);
    fprintf(stdout, " merge=%s", tp_errname(rc));
    /* merging does not modify the source diff */
    x1 = dump13(s, d2, ~0u);
    fprintf(stdout, " pure2=%d", !strcmp(x0, x1));
    if (rc) goto out;
    /* the returned pointer is the first sibling of the merged diff; an empty merge <=> diff(A,C) is empty */
    fprintf(stdout, " ptr=%u empty=%d empty3=%d", nprev(d1), d1 ? 0 : 1, d3 ? 0 : 1);
out:
    vp_end();
    lyd_free_all(A); lyd_free_all(B); lyd_free_all(C);
    lyd_free_all(d1 ? lyd_first_sibling(d1) : NULL); lyd_free_all(d2); lyd_free_all(d3);
    free(x0); free(x1);
}

int
main(void)
{
    struct vp_req r = {0};

    ly_log_options(LY_LOSTORE_LAST);

    while (vp_next(&r)) {
        const char *id = r.tok[0], *op = r.ntok > 2 ? r.tok[2] : "";
        struct tp_schema *s = NULL;

        if (r.ntok < 3) { vp_reply(r.ntok ? id : "?", "err BadLine"); continue; }

        if (!strcmp(op, "leakcheck")) {
            vp_reply(id, "ok %d", VP_LEAKCHECK());
            continue;
        }
        if (!strcmp(op, "schema") && r.ntok == 5) {
            char *yang = vp_unhex(r.tok[4], NULL);
            struct tp_buf b = {0};

            s = yang ? tp_schema_register(r.tok[3], yang) : NULL;
            free(yang);
            if (!s) { vp_reply(id, "err BadSchema"); continue; }
            tp_schema_summary(s, &b);
            vp_reply(id, "ok %d %s", s->n, b.s ? b.s : "");
            free(b.s);
            continue;
        }
        if (r.ntok < 4 || !(s = tp_schema_get(r.tok[3]))) { vp_reply(id, "err NoSchema"); continue; }

        if (!strcmp(op, "build") && r.ntok == 5) {
            char *text = vp_unhex(r.tok[4], NULL);
            struct lyd_node *t = NULL;

            if (!text || tp_load(s, text, 0, &t)) {
                vp_reply(id, "err BadTree");
            } else if (lyd_validate_module(&t, s->mod, 0, NULL)) {
                dbgmsg(s, "build");
                vp_reply(id, "err Invalid");
            } else {
                vp_begin(id, "ok"); tp_field_dump(s, t); vp_end();
            }
            lyd_free_all(t);
            free(text);
        } else if (!strcmp(op, "diff") && r.ntok == 8) {
            struct lyd_node *A, *B, *d = NULL;
            LY_ERR rc;

            if (arg_tree(id, s, r.tok[4], &A)) continue;
            if (arg_tree(id, s, r.tok[5], &B)) { lyd_free_all(A); continue; }
            rc = lyd_diff_siblings(A, B, atoi(r.tok[6]) ? LYD_DIFF_DEFAULTS : 0, &d);
            if (rc) {
                vp_reply(id, "err Diff:%s", tp_errname(rc));
            } else {
                vp_begin(id, "ok"); field_dump13(s, d); vp_end();
            }
            lyd_free_all(d ? lyd_first_sibling(d) : NULL); lyd_free_all(A); lyd_free_all(B);
        } else if (!strcmp(op, "reverse") && r.ntok == 8) {
            op_reverse(id, s, r.tok);
        } else if (!strcmp(op, "merge3") && r.ntok == 10) {
            op_merge3(id, s, r.tok);
        } else if (!strcmp(op, "lawr") && r.ntok == 7) {
            op_lawr(id, s, r.tok);
        } else if (!strcmp(op, "lawm") && r.ntok == 9) {
            op_lawm(id, s, r.tok);
        } else {
            vp_reply(id, "err BadOp");
        }
    }
    free(r.line);
    tp_schema_free_all();
    return 0;
}
