/* Public-API harness for C19 (yang-library round trip, change counter, modules hash).
 *
 *   <id> ctx ylhistory <spec-hex>  ->  <id> ok <step-token>* X<yang-library data> Y<rc>|<snapshot> Z<bits>
 *       X: module-set/module, import-only-module (features, submodules, deviations) and content-id of the generated data
 *       the script of api_ctx.c (plus `W <dir>`: directory holding the module sources as files <name>[@<rev>].yang);
 *       after the last step: ly_ctx_get_yanglib_data() -> lyd_validate_all() ->
 *       Y: ly_ctx_new_yldata() into a fresh context served by the same import callback; snapshot as for a step
 *          (rc 0/1; change count relative to the fresh context); compared with the model token for token
 *       Z: laws on the implementation only: v<0|1> the generated data is valid, and with the data printed as XML and read
 *          by ly_ctx_new_ylmem(<dir>): r<0|1> context created, m<0|1> same implemented modules / revisions / enabled
 *          features, c<0|1> same compiled print of every implemented module, i<0|1> every module of the description
 *          (module and import-only-module) is in the new context, h<0|1> the two contexts have ... (not a law: reported)
 *   <id> ctx jenkins <hex>         ->  <id> ok <lyht_hash(key, len) as 8 hex digits>
 *   <id> ctx ylreal <dir-hex> <modules-hex> <featmode>
 *       real modules from a search directory; <modules>: comma separated names, loaded in order with
 *       featmode 0: no feature, 1: all, 2: alternating.  Reply: ok c<bits per load: counter changed> h<bits: hash changed>
 *       v<valid> r<created> m<same implemented/features> c<same compiled> i<all listed modules present>
 *       e<hash of the rebuilt context equals the original's (same ordered module set is NOT guaranteed: reported)> */
#define _GNU_SOURCE
#include "ctx_hist.h"

/* "name@rev[f1,f2]" of every implemented module, sorted; caller frees */
static char *
impl_view(const struct ly_ctx *ctx, int with_internal)
{
    uint32_t i = with_internal ? 0 : ly_ctx_internal_modules_count(ctx), fi, n = 0, k;
    const struct lys_module *m;
    struct lysp_feature *f;
    char *items[512], *res;
    size_t len = 1;

    while ((m = ly_ctx_get_module_iter(ctx, &i)) && n < 512) {
        char buf[4096];
        size_t o;
        if (!m->implemented) continue;
        o = snprintf(buf, sizeof buf, "%s@%s[", m->name, m->revision ? m->revision : "-");
        f = NULL; fi = 0;
        while ((f = lysp_feature_next(f, m->parsed, &fi)) && o < sizeof buf - 128) {
            if (lys_feature_value(m, f->name) == LY_SUCCESS) o += snprintf(buf + o, sizeof buf - o, "%s,", f->name);
        }
        snprintf(buf + o, sizeof buf - o, "]");
        items[n++] = strdup(buf);
    }
    for (i = 0; i < n; i++) for (k = i + 1; k < n; k++) if (strcmp(items[i], items[k]) > 0) { char *t = items[i]; items[i] = items[k]; items[k] = t; }
    for (i = 0; i < n; i++) len += strlen(items[i]) + 1;
    res = malloc(len); res[0] = 0;
    for (i = 0; i < n; i++) { strcat(res, items[i]); strcat(res, ";"); free(items[i]); }
    return res;
}

/* every implemented module of c1 has the same compiled print in c2 */
static int
same_compiled(const struct ly_ctx *c1, const struct ly_ctx *c2, int with_internal)
{
    uint32_t i = with_internal ? 0 : ly_ctx_internal_modules_count(c1);
    const struct lys_module *m, *m2;
    int ok = 1;

    while ((m = ly_ctx_get_module_iter(c1, &i))) {
        char *p1 = NULL, *p2 = NULL;
        if (!m->implemented || !m->compiled) continue;
        m2 = ly_ctx_get_module(c2, m->name, m->revision);
        if (!m2 || !m2->implemented || !m2->compiled || lys_print_mem(&p1, m, LYS_OUT_YANG_COMPILED, 0) ||
                lys_print_mem(&p2, m2, LYS_OUT_YANG_COMPILED, 0) || !p1 || !p2 || strcmp(p1, p2)) {
            ok = 0;
        }
        free(p1); free(p2);
    }
    return ok;
}

/* every module of c1 (implemented or not) is present in c2 at the same revision */
static int
all_present(const struct ly_ctx *c1, const struct ly_ctx *c2)
{
    uint32_t i = 0;
    const struct lys_module *m;

    while ((m = ly_ctx_get_module_iter(c1, &i))) {
        if (!ly_ctx_get_module(c2, m->name, m->revision)) return 0;
    }
    return 1;
}

static void
yl_laws(struct ly_ctx *ctx, const char *dir, int with_internal)
{
    struct lyd_node *yl = NULL;
    struct ly_ctx *c3 = NULL;
    char *xml = NULL, *v1, *v3;
    int valid, created = 0, same = 0, comp = 0, pres = 0, eqh = 0;

    if (ly_ctx_get_yanglib_data(ctx, &yl, "%u", ly_ctx_get_change_count(ctx)) || !yl) { oput(" Zg0"); return; }
    valid = lyd_validate_all(&yl, NULL, LYD_VALIDATE_PRESENT, NULL) == LY_SUCCESS;
    if (yl && !lyd_print_mem(&xml, yl, LYD_XML, LYD_PRINT_WITHSIBLINGS) && xml &&
            !ly_ctx_new_ylmem(dir, xml, LYD_XML, 0, &c3) && c3) {
        created = 1;
        v1 = impl_view(ctx, with_internal); v3 = impl_view(c3, with_internal);
        same = !strcmp(v1, v3);
        free(v1); free(v3);
        comp = same_compiled(ctx, c3, with_internal);
        pres = all_present(ctx, c3);
        eqh = ly_ctx_get_modules_hash(ctx) == ly_ctx_get_modules_hash(c3);
    }
    oput(" Zv%dr%dm%dc%di%de%d", valid, created, same, comp, pres, eqh);
    free(xml);
    lyd_free_all(yl);
    ly_ctx_destroy(c3);
}

static int
is_internal(const struct ly_ctx *ctx, const char *name)
{
    uint32_t i = 0, n = ly_ctx_internal_modules_count(ctx);
    const struct lys_module *m;

    while ((i < n) && (m = ly_ctx_get_module_iter(ctx, &i))) {
        if (!strcmp(m->name, name)) return 1;
    }
    return 0;
}

/* X: the yang-library data themselves — module-set/module (name@revision[features]{submodules}<deviations>),
 * module-set/import-only-module (name@revision{submodules}), content-id — read from the data tree, in document order,
 * internal modules left out; compared with the model's ylExport token for token */
static void
yl_dump(struct ly_ctx *ctx)
{
    struct lyd_node *yl = NULL, *e, *ch, *sc;
    struct ly_set *set = NULL;
    const char *lists[] = {"module", "import-only-module"};
    char path[160];
    uint32_t i;
    int k, first;

    if (ly_ctx_get_yanglib_data(ctx, &yl, "%u", (unsigned)(uint16_t)(ly_ctx_get_change_count(ctx) - g_cc0)) || !yl) { oput(" Xg0"); return; }
    oput(" X");
    for (k = 0; k < 2; k++) {
        snprintf(path, sizeof path, "/ietf-yang-library:yang-library/module-set[1]/%s", lists[k]);
        if (lyd_find_xpath(yl, path, &set)) { oput("?"); continue; }
        oput("%s%s=", k ? "|" : "", k ? "i" : "m");
        first = 1;
        for (i = 0; i < set->count; i++) {
            const char *name = NULL, *rev = NULL;
            int pass, nf;

            e = set->dnodes[i];
            LY_LIST_FOR(lyd_child(e), ch) {
                if (!strcmp(ch->schema->name, "name")) name = lyd_get_value(ch);
                else if (!strcmp(ch->schema->name, "revision")) rev = lyd_get_value(ch);
            }
            if (!name || is_internal(ctx, name)) continue;
            oput("%s%s@%s", first ? "" : ";", name, (rev && rev[0]) ? rev : "-");
            first = 0;
            /* features, submodules, deviations */
            for (pass = k ? 1 : 0; pass < (k ? 2 : 3); pass++) {
                const char *what = pass == 0 ? "feature" : (pass == 1 ? "submodule" : "deviation");
                oput("%s", pass == 0 ? "[" : (pass == 1 ? "{" : "<"));
                nf = 0;
                LY_LIST_FOR(lyd_child(e), ch) {
                    if (strcmp(ch->schema->name, what)) continue;
                    if (pass == 1) {
                        LY_LIST_FOR(lyd_child(ch), sc) {
                            if (!strcmp(sc->schema->name, "name")) oput("%s%s", nf++ ? "," : "", lyd_get_value(sc));
                        }
                    } else {
                        oput("%s%s", nf++ ? "," : "", lyd_get_value(ch));
                    }
                }
                oput("%s", pass == 0 ? "]" : (pass == 1 ? "}" : ">"));
            }
        }
        ly_set_free(set, NULL);
        set = NULL;
    }
    if (!lyd_find_path(yl, "/ietf-yang-library:yang-library/content-id", 0, &e) && e) oput("|id=%s", lyd_get_value(e));
    else oput("|id=?");
    lyd_free_all(yl);
}

static void
yl_tail(struct ly_ctx *ctx, const char *wdir)
{
    struct lyd_node *yl = NULL;
    struct ly_ctx *c2 = NULL;
    uint16_t cc0;
    LY_ERR rc;

    yl_dump(ctx);
    /* Y: rebuilt through the import callback (what the model does) */
    if (ly_ctx_get_yanglib_data(ctx, &yl, "%u", ly_ctx_get_change_count(ctx)) || !yl) { oput(" Y9"); return; }
    if (ly_ctx_new(NULL, LY_CTX_DISABLE_SEARCHDIRS, &c2)) { lyd_free_all(yl); oput(" Y8"); return; }
    ly_ctx_set_module_imp_clb(c2, imp_clb, NULL);
    cc0 = ly_ctx_get_change_count(c2);
    rc = ly_ctx_new_yldata(NULL, yl, 0, &c2);
    if (rc) {
        oput(" Y1");
    } else {
        size_t at = olen;
        int nd = ndat;
        ndat = 0;                       /* no data trees belong to this context */
        snapshot(c2, 0, cc0, 0);
        ndat = nd;
        obuf[at + 1] = 'Y';             /* " 0|..." -> " Y|..." */
    }
    lyd_free_all(yl);
    ly_ctx_destroy(c2);
    /* Z: the laws, through the printed document and the search directory */
    yl_laws(ctx, wdir, 0);
}

static void
ylreal(const char *id, const char *dir, char *mods, int featmode)
{
    struct ly_ctx *ctx = NULL;
    const char *all[] = {"*", NULL}, *none[] = {NULL};
    char *p, *save = NULL, cbits[64] = "", hbits[64] = "";
    int n = 0;

    olen = 0; oput("%s", "");
    if (ly_ctx_new(dir, LY_CTX_DISABLE_SEARCHDIR_CWD, &ctx)) { vp_reply(id, "err CtxNew"); return; }
    for (p = strtok_r(mods, ",", &save); p && n < 60; p = strtok_r(NULL, ",", &save), n++) {
        uint16_t cb = ly_ctx_get_change_count(ctx);
        uint32_t hb = ly_ctx_get_modules_hash(ctx);
        const char **f = featmode == 0 ? none : (featmode == 1 ? all : ((n % 2) ? all : none));
        int present = ly_ctx_get_module_implemented(ctx, p) != NULL;
        const struct lys_module *m = ly_ctx_load_module(ctx, p, NULL, f);
        if (!m) { cbits[n] = hbits[n] = 'x'; continue; }
        /* a load that changed nothing (module already implemented with these features) may keep both */
        cbits[n] = (ly_ctx_get_change_count(ctx) != cb) ? '1' : (present ? 'p' : '0');
        hbits[n] = (ly_ctx_get_modules_hash(ctx) != hb) ? '1' : (present ? 'p' : '0');
    }
    cbits[n] = hbits[n] = 0;
    oput(" c%s h%s", n ? cbits : "-", n ? hbits : "-");
    yl_laws(ctx, dir, 1);
    vp_reply(id, "ok%s", obuf);
    ly_ctx_destroy(ctx);
}

int
main(void)
{
    struct vp_req r = {0};

    ly_log_options(getenv("VP_CTX_LOG") ? (LY_LOLOG | LY_LOSTORE_LAST) : LY_LOSTORE_LAST);
    while (vp_next(&r)) {
        const char *id = r.tok[0], *op = r.ntok > 2 ? r.tok[2] : "";

        if (r.ntok < 3) { vp_reply(r.ntok ? id : "?", "err BadLine"); continue; }
        if (!strcmp(op, "ylhistory") && r.ntok == 4) {
            char *spec = vp_unhex(r.tok[3], NULL);
            if (!spec) { vp_reply(id, "err BadHex"); continue; }
            history(id, spec, yl_tail);
            free(spec);
        } else if (!strcmp(op, "ylreal") && r.ntok == 6) {
            char *dir = vp_unhex(r.tok[3], NULL), *mods = vp_unhex(r.tok[4], NULL);
            if (!dir || !mods) { vp_reply(id, "err BadHex"); free(dir); free(mods); continue; }
            ylreal(id, dir, mods, atoi(r.tok[5]));
            free(dir); free(mods);
        } else if (!strcmp(op, "jenkins") && r.ntok == 4) {
            size_t n; char *k = vp_unhex(r.tok[3], &n);
            if (!k) { vp_reply(id, "err BadHex"); continue; }
            vp_reply(id, "ok %08x", lyht_hash(k, n));
            free(k);
        } else if (!strcmp(op, "leakcheck")) {
            vp_reply(id, "ok %d", VP_LEAKCHECK());
        } else {
            vp_reply(id, "err BadOp");
        }
    }
    free(r.line);
    free(obuf);
    return 0;
}
