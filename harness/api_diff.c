/* API harness of component `diff` (C06; tree base ops shared with later components).  Public API only.
 *
 *   schema <dsl> <yang-hex>             register the schema named by the DSL token      -> ok <n> <node-summary>*
 *   canon <dsl> <dump>                  build the tree through lyd_new_* and dump it    -> ok <dump>
 *   build <dsl> <desc>                  build explicit nodes, validate (adds defaults)  -> ok <dump> | err Invalid   [impl only]
 *   diff <dsl> <A> <B> <opts> <fx>      lyd_diff_siblings                               -> ok <diff-dump> <index of the returned node>
 *   diffapply <dsl> <A> <B> <opts> <fx> lyd_diff_apply_all(copy of A, diff(A,B))        -> ok <dump> | err <E>
 *   apply3 <dsl> <A> <B> <C> <opts> <fx>  lyd_diff_apply_all(C, diff(A,B))              -> ok <dump> | err <E>
 *        (<fx> = "fx=<ids>": repaired findings the MODEL has to follow; ignored here)
 *   law <dsl> <A> <B> <opts>            C06's laws on the implementation                -> ok <name>=<verdict>*          [impl only]
 *   leakcheck                                                                         -> ok <n>
 * Trees travel as hex(canonical dump) (treeproto.h). <opts>: 1 = LYD_DIFF_DEFAULTS.                                   */
#define _GNU_SOURCE
#include "treeproto.h"

/* development aid: VERIF_VERBOSE=1 prints libyang's last error message to stderr (never part of a reply) */
static void
dbgmsg(const struct tp_schema *s, const char *what)
{
    const struct ly_err_item *e;

    if (!getenv("VERIF_VERBOSE")) return;
    e = ly_err_last(s->ctx);
    fprintf(stderr, "[%s] %s | %s\n", what, e ? e->msg : "(no error)", (e && e->data_path) ? e->data_path : "");
}

static struct lyd_node *
dupf(const struct lyd_node *t)
{
    struct lyd_node *d = NULL;

    if (t) lyd_dup_siblings(t, NULL, LYD_DUP_RECURSIVE | LYD_DUP_WITH_FLAGS, &d);
    return d;
}

static char *
dumps(const struct tp_schema *s, const struct lyd_node *t)
{
    struct tp_buf b = {0};

    tp_dump(s, t, &b);
    return b.s ? b.s : strdup("");
}

/* dump with LYD_NEW masked out (apply marks what it created/changed; validation clears it) */
static char *
dumps_nonew(const struct tp_schema *s, struct lyd_node *t)
{
    struct lyd_node *root, *e;
    char *r;
    struct lyd_node *d = dupf(t);

    LY_LIST_FOR(d, root) {
        LYD_TREE_DFS_BEGIN(root, e) {
            e->flags &= ~LYD_NEW;
            LYD_TREE_DFS_END(root, e);
        }
    }
    r = dumps(s, d);
    lyd_free_all(d);
    return r;
}

/* apply does not maintain the default flag of non-presence containers (lyd_compare_siblings ignores it): print it as 0 */
static void
strip_np(struct lyd_node *t)
{
    struct lyd_node *root, *e;

    LY_LIST_FOR(t, root) {
        LYD_TREE_DFS_BEGIN(root, e) {
            if (e->schema && (e->schema->nodetype == LYS_CONTAINER) && !(e->schema->flags & LYS_PRESENCE)) {
                e->flags &= ~LYD_DEFAULT;
            }
            LYD_TREE_DFS_END(root, e);
        }
    }
}

/* two equal instances of a keyed list / configuration leaf-list among some siblings (see Diff/Apply.lean: hasDupInst) */
static int
has_dup_inst(const struct lyd_node *first)
{
    const struct lyd_node *a, *b;

    LY_LIST_FOR(first, a) {
        if (a->schema && (a->schema->nodetype & (LYS_LIST | LYS_LEAFLIST)) && !lysc_is_dup_inst_list(a->schema)) {
            for (b = a->next; b && (b->schema == a->schema); b = b->next) {
                if (!lyd_compare_single(a, b, 0)) return 1;
            }
        }
        if (has_dup_inst(lyd_child(a))) return 1;
    }
    return 0;
}

static unsigned
nprev(const struct lyd_node *n)
{
    unsigned k = 0;

    for ( ; n && n->prev->next; n = n->prev) ++k;
    return k;
}

/* a non-presence container flagged default although it has an explicit (non-default) child */
static int
np_stale(const struct lyd_node *first)
{
    const struct lyd_node *a, *c;

    LY_LIST_FOR(first, a) {
        if (a->schema && (a->schema->nodetype == LYS_CONTAINER) && !(a->schema->flags & LYS_PRESENCE) && (a->flags & LYD_DEFAULT)) {
            LY_LIST_FOR(lyd_child(a), c) {
                if (!(c->flags & LYD_DEFAULT)) return 1;
            }
        }
        if (np_stale(lyd_child(a))) return 1;
    }
    return 0;
}

static int
same(const struct lyd_node *a, const struct lyd_node *b, int dflt)
{
    return lyd_compare_siblings(a, b, LYD_COMPARE_FULL_RECURSION | (dflt ? LYD_COMPARE_DEFAULTS : 0)) == LY_SUCCESS;
}

/* load a tree argument; replies and returns non-zero on failure */
static int
arg_tree(const char *id, const struct tp_schema *s, const char *tok, struct lyd_node **t)
{
    char *text = vp_unhex(tok, NULL);
    LY_ERR r;

    *t = NULL;
    if (!text) { vp_reply(id, "err BadHex"); return 1; }
    r = tp_load_canonical(s, text, t);
    free(text);
    if (r == LY_EOTHER) { vp_reply(id, "err NonCanonical"); return 1; }
    if (r) { vp_reply(id, "err BadTree"); return 1; }
    return 0;
}

/* apply through print -> (A, B already freed by the caller) -> parse; verdict string */
static const char *
via_format(const struct tp_schema *s, const char *adump, const char *bdump, const struct lyd_node *diff, LYD_FORMAT fmt,
        uint32_t popts, int dflt)
{
    char *mem = NULL;
    struct lyd_node *d2 = NULL, *a = NULL, *b = NULL;
    const char *v = "ok";
    struct ly_in *in = NULL;
    size_t len;
    struct ly_out *out = NULL;

    if (ly_out_new_memory(&mem, 0, &out)) return "printerr";
    if (lyd_print_all(out, diff, fmt, popts)) { ly_out_free(out, NULL, 0); free(mem); return "printerr"; }
    len = ly_out_printed(out);
    ly_out_free(out, NULL, 0);
    if (!mem) { mem = calloc(1, 1); len = 0; }

    if (ly_in_new_memory(mem, &in)) { free(mem); return "parseerr"; }
    if (fmt == LYD_LYB && !len) {
        d2 = NULL;
    } else if (lyd_parse_data(s->ctx, NULL, in, fmt, LYD_PARSE_ONLY | LYD_PARSE_STRICT, 0, &d2)) {
        v = "parseerr";
    }
    ly_in_free(in, 0);
    free(mem);
    if (strcmp(v, "ok")) goto done;

    if (tp_load(s, adump, 1, &a) || tp_load(s, bdump, 1, &b)) { v = "loaderr"; goto done; }
    if (lyd_diff_apply_all(&a, d2)) { v = "applyerr"; goto done; }
    if (!dflt) lyd_validate_module(&a, s->mod, 0, NULL);
    if (!same(a, b, dflt)) v = "differs";
done:
    lyd_free_all(d2);
    lyd_free_all(a);
    lyd_free_all(b);
    return v;
}

static void
op_law(const char *id, const struct tp_schema *s, const char *atok, const char *btok, int dflt)
{
    struct lyd_node *A = NULL, *B = NULL, *d = NULL, *e = NULL, *A2 = NULL;
    char *a0 = NULL, *b0 = NULL, *a1 = NULL, *b1 = NULL, *d0 = NULL, *d1 = NULL, *r1 = NULL, *bn = NULL;
    uint16_t o = dflt ? LYD_DIFF_DEFAULTS : 0;
    LY_ERR r;
    const char *vx, *vj, *vl;

    if (arg_tree(id, s, atok, &A)) return;
    if (arg_tree(id, s, btok, &B)) { lyd_free_all(A); return; }
    a0 = dumps(s, A); b0 = dumps(s, B);

    vp_begin(id, "ok");
    /* diff succeeds; diff(A,A) and diff(B,B) are empty */
    r = lyd_diff_siblings(A, B, o, &d);
    fprintf(stdout, " diff=%s", tp_errname(r));
    if (r) goto out;
    fprintf(stdout, " ptr=%u", nprev(d));
    r = lyd_diff_siblings(A, A, o, &e);
    fprintf(stdout, " selfA=%s", r ? tp_errname(r) : (e ? "nonempty" : "empty"));
    lyd_free_all(e); e = NULL;
    r = lyd_diff_siblings(B, B, o, &e);
    fprintf(stdout, " selfB=%s", r ? tp_errname(r) : (e ? "nonempty" : "empty"));
    lyd_free_all(e); e = NULL;
    /* computing the diff does not modify its inputs */
    a1 = dumps(s, A); b1 = dumps(s, B);
    fprintf(stdout, " pureA=%d pureB=%d", !strcmp(a0, a1), !strcmp(b0, b1));
    /* apply on a copy of A */
    d0 = dumps(s, d);
    A2 = dupf(A);
    r = lyd_diff_apply_all(&A2, d);
    fprintf(stdout, " apply=%s", tp_errname(r));
    d1 = dumps(s, d);
    fprintf(stdout, " pureD=%d", !strcmp(d0, d1));
    if (!r) {
        /* exact dump equality (all default flags, order), LYD_NEW aside: stronger than lyd_compare_siblings */
        r1 = dumps_nonew(s, A2);
        bn = dumps_nonew(s, B);
        fprintf(stdout, " exact=%d", !strcmp(r1, bn));
        if (dflt) {
            /* printing the result with LYD_PRINT_WD_TRIM must not lose explicit nodes below a stale default container */
            fprintf(stdout, " npstale=%d", np_stale(A2));
        }
        if (!dflt) fprintf(stdout, " reval=%s", lyd_validate_module(&A2, s->mod, 0, NULL) ? "err" : "ok");
        fprintf(stdout, " cmp=%d", same(A2, B, dflt));
        if (!dflt) {
            free(r1);
            r1 = dumps_nonew(s, A2);
            fprintf(stdout, " exactv=%d", !strcmp(r1, bn));
        }
    }
    /* self-contained: print, free A and B, parse, apply */
    lyd_free_all(A); A = NULL;
    lyd_free_all(B); B = NULL;
    lyd_free_all(A2); A2 = NULL;
    vx = via_format(s, a0, b0, d, LYD_XML, LYD_PRINT_SHRINK | LYD_PRINT_KEEPEMPTYCONT | LYD_PRINT_WD_IMPL_TAG, dflt);
    vj = via_format(s, a0, b0, d, LYD_JSON, LYD_PRINT_SHRINK | LYD_PRINT_KEEPEMPTYCONT | LYD_PRINT_WD_IMPL_TAG, dflt);
    vl = via_format(s, a0, b0, d, LYD_LYB, 0, dflt);
    fprintf(stdout, " xml=%s json=%s lyb=%s", vx, vj, vl);
out:
    vp_end();
    lyd_free_all(A); lyd_free_all(B); lyd_free_all(d); lyd_free_all(A2);
    free(a0); free(b0); free(a1); free(b1); free(d0); free(d1); free(r1); free(bn);
}

int
main(void)
{
    struct vp_req r = {0};

    ly_log_options(LY_LOSTORE_LAST);

    while (vp_next(&r)) {
        const char *id = r.tok[0], *op = r.ntok > 2 ? r.tok[2] : "";
        struct tp_schema *s = NULL;

        if (r.ntok < 3) { vp_reply(r.ntok ? id : "?", "err BadLine"); continue; }

        if (!strcmp(op, "leakcheck")) {
            vp_reply(id, "ok %d", VP_LEAKCHECK());
            continue;
        }
        if (!strcmp(op, "schema") && r.ntok == 5) {
            char *yang = vp_unhex(r.tok[4], NULL);
            struct tp_buf b = {0};

            s = yang ? tp_schema_register(r.tok[3], yang) : NULL;
            free(yang);
            if (!s) { vp_reply(id, "err BadSchema"); continue; }
            tp_schema_summary(s, &b);
            vp_reply(id, "ok %d %s", s->n, b.s ? b.s : "");
            free(b.s);
            continue;
        }
        if (r.ntok < 4 || !(s = tp_schema_get(r.tok[3]))) { vp_reply(id, "err NoSchema"); continue; }

        if (!strcmp(op, "canon") && r.ntok == 5) {
            char *text = vp_unhex(r.tok[4], NULL);
            struct lyd_node *t = NULL;

            if (!text || tp_load(s, text, 1, &t)) {
                vp_reply(id, "err BadTree");
            } else {
                vp_begin(id, "ok"); tp_field_dump(s, t); vp_end();
            }
            lyd_free_all(t);
            free(text);
        } else if (!strcmp(op, "build") && r.ntok == 5) {
            char *text = vp_unhex(r.tok[4], NULL);
            struct lyd_node *t = NULL;

            if (!text || tp_load(s, text, 0, &t)) {
                vp_reply(id, "err BadTree");
            } else if (lyd_validate_module(&t, s->mod, 0, NULL)) {
                dbgmsg(s, "build");
                vp_reply(id, "err Invalid");
            } else {
                vp_begin(id, "ok"); tp_field_dump(s, t); vp_end();
            }
            lyd_free_all(t);
            free(text);
        } else if (!strcmp(op, "diff") && r.ntok == 8) {
            struct lyd_node *A, *B, *d = NULL;
            LY_ERR rc;

            if (arg_tree(id, s, r.tok[4], &A)) continue;
            if (arg_tree(id, s, r.tok[5], &B)) { lyd_free_all(A); continue; }
            rc = lyd_diff_siblings(A, B, atoi(r.tok[6]) ? LYD_DIFF_DEFAULTS : 0, &d);
            if (rc) {
                vp_reply(id, "err %s", tp_errname(rc));
            } else {
                /* second field: how many siblings precede the node lyd_diff_siblings() returned (0 = it is the first one) */
                vp_begin(id, "ok"); tp_field_dump(s, d); vp_field_u(nprev(d)); vp_end();
            }
            lyd_free_all(d); lyd_free_all(A); lyd_free_all(B);
        } else if ((!strcmp(op, "diffapply") && r.ntok == 8) || (!strcmp(op, "apply3") && r.ntok == 9)) {
            int three = (op[0] == 'a');
            struct lyd_node *A, *B, *C = NULL, *d = NULL;
            LY_ERR rc;

            if (arg_tree(id, s, r.tok[4], &A)) continue;
            if (arg_tree(id, s, r.tok[5], &B)) { lyd_free_all(A); continue; }
            if (three && arg_tree(id, s, r.tok[6], &C)) { lyd_free_all(A); lyd_free_all(B); continue; }
            rc = lyd_diff_siblings(A, B, atoi(r.tok[three ? 7 : 6]) ? LYD_DIFF_DEFAULTS : 0, &d);
            if (!three) {
                /* a second, independently built A: lyd_dup_siblings() leaves an incomplete sorting tree behind when one
                 * (leaf-)list directly follows another (finding F125), which misplaces later sorted inserts */
                char *text = vp_unhex(r.tok[4], NULL);

                tp_load(s, text, 1, &C);
                free(text);
            }
            if (!rc) rc = lyd_diff_apply_all(&C, d);
            if (rc) dbgmsg(s, op);
            if (rc) {
                vp_reply(id, "err %s", tp_errname(rc));
            } else if (has_dup_inst(C)) {
                vp_reply(id, "ok DupInstances");
            } else {
                strip_np(C);
                vp_begin(id, "ok"); tp_field_dump(s, C); vp_end();
            }
            lyd_free_all(d); lyd_free_all(A); lyd_free_all(B); lyd_free_all(C);
        } else if (!strcmp(op, "law") && r.ntok == 7) {
            op_law(id, s, r.tok[4], r.tok[5], atoi(r.tok[6]));
        } else {
            vp_reply(id, "err BadOp");
        }
    }
    free(r.line);
    tp_schema_free_all();
    return 0;
}
