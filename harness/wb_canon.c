/* White-box harness of component `conc` (C16 (d), finding F9): deterministic replay of the check-then-set race of the
 * lazy `value->_canonical` fill in a print callback, on the real plugins_types/bits.c.
 *
 *   lazy <k> <prefilled>  ->  ok <refs after the k readers> <refs after lyd_free_all> <all readers got the same string>
 *
 * bits.c is compiled with `lydict_insert_zc` routed through vp_insert_zc(): when reader 1 is between its check
 * `if (!value->_canonical)` and the store of the pointer, readers 2..k run completely (they pass the check as well —
 * nothing is stored yet), then reader 1 continues.  That is the model's schedule check* insert* set* ret*.
 * refs = reference count of the canonical string in the context dictionary (read white-box through dict.c).
 * With <prefilled> = 1 the canonical string is cached by one reader before the k readers start. */
#define _GNU_SOURCE
#include <ctype.h>
#include <pthread.h>
#include <stdint.h>
#include <stdlib.h>
#include <string.h>
#include "libyang.h"
#include "compat.h"
#include "ly_common.h"
#include "plugins_internal.h"
#include "plugins_types.h"
#include "dict.c"

static LY_ERR vp_insert_zc(const struct ly_ctx *ctx, char *value, const char **str_p);
#define lydict_insert_zc vp_insert_zc
#include "bits.c"
#undef lydict_insert_zc
#include "proto.h"

static int vp_nested;
static const struct lyd_value *vp_value;
static const char *vp_seen[64];
static int vp_nseen;

static LY_ERR
vp_insert_zc(const struct ly_ctx *ctx, char *value, const char **str_p)
{
    while (vp_value && (str_p == (const char **)&vp_value->_canonical) && (vp_nested > 0)) {
        const char *v;

        vp_nested--;
        v = lyplg_type_print_bits(ctx, vp_value, LY_VALUE_JSON, NULL, NULL, NULL);
        if (vp_nseen < 64) vp_seen[vp_nseen++] = v;
    }
    return lydict_insert_zc(ctx, value, str_p);
}

static uint32_t
vp_refcount(const struct ly_ctx *c, const char *s)
{
    struct ly_dict_rec rec, *match = NULL;
    size_t len = strlen(s);
    uint32_t rc = 0;

    rec.value = (char *)s;
    rec.refcount = 0;
    pthread_mutex_lock((pthread_mutex_t *)&c->dict.lock);
    lyht_set_cb_data(c->dict.hash_tab, (void *)&len);
    if (!lyht_find(c->dict.hash_tab, &rec, lyht_hash(s, len), (void **)&match) && match) {
        rc = match->refcount;
    }
    pthread_mutex_unlock((pthread_mutex_t *)&c->dict.lock);
    return rc;
}

static const char *SCH = "module vqc {namespace urn:vqc; prefix v; yang-version 1.1;"
        "leaf bi {type bits {bit alpha; bit beta; bit gamma;}}}";
static const char *CANON = "alpha gamma";

int
main(void)
{
    struct vp_req r = {0};
    struct ly_ctx *ctx;

    ly_log_options(LY_LOSTORE_LAST);
    while (vp_next(&r)) {
        const char *id = r.tok[0], *op = r.ntok > 2 ? r.tok[2] : "";

        if (r.ntok < 3) { vp_reply(r.ntok ? id : "?", "err BadLine"); continue; }
        if (!strcmp(op, "lazy") && (r.ntok == 5)) {
            int k = atoi(r.tok[3]), pre = atoi(r.tok[4]), i, same = 1;
            struct lyd_node *tree = NULL;
            const char *v;
            uint32_t after, freed;

            if ((k < 1) || (k > 32)) { vp_reply(id, "err BadArgs"); continue; }
            if (ly_ctx_new(NULL, 0, &ctx) || lys_parse_mem(ctx, SCH, LYS_IN_YANG, NULL) ||
                    lyd_parse_data_mem(ctx, "<bi xmlns=\"urn:vqc\">gamma   alpha</bi>", LYD_XML, LYD_PARSE_STRICT,
                    LYD_VALIDATE_PRESENT, &tree) || !tree) {
                vp_reply(id, "err Setup");
                continue;
            }
            if (pre) {
                lyd_get_value(tree);
            }
            vp_value = &((struct lyd_node_term *)tree)->value;
            vp_nested = k - 1;
            vp_nseen = 0;
            /* reader 1 (through the public accessor when the cache is empty, else directly like a printer does) */
            v = lyplg_type_print_bits(ctx, vp_value, LY_VALUE_JSON, NULL, NULL, NULL);
            for (i = 0; i < vp_nested; ) {         /* prefilled: the window never opens, the other readers run now */
                vp_nested--;
                vp_seen[vp_nseen++] = lyplg_type_print_bits(ctx, vp_value, LY_VALUE_JSON, NULL, NULL, NULL);
            }
            for (i = 0; i < vp_nseen; i++) if (!vp_seen[i] || !v || strcmp(vp_seen[i], v)) same = 0;
            if (!v || strcmp(v, CANON)) same = 0;
            after = vp_refcount(ctx, CANON);
            vp_value = NULL;
            lyd_free_all(tree);
            freed = vp_refcount(ctx, CANON);
            vp_reply(id, "ok %u %u %d", after, freed, same);
            while (vp_refcount(ctx, CANON)) lydict_remove(ctx, CANON);     /* drop the surplus so that destroy is clean */
            ly_ctx_destroy(ctx);
        } else if (!strcmp(op, "leakcheck")) {
            vp_reply(id, "ok %d", VP_LEAKCHECK() ? 1 : 0);
        } else {
            vp_reply(id, "err BadOp");
        }
    }
    free(r.line);
    return 0;
}
