/* White-box harness of component `fn`: runs the REAL C leaf functions that tools/c2lean.py translates, so that the
 * generated Lean definitions (executed by `lydrv`, component `fn`) can be compared with them — the validation of the
 * translator itself (integer promotions, wrap-around, signed char, shifts).
 *   getutf8 <hex> <char0> <br: N | u64>     ly_getutf8     -> ok <ret> <advance> <utf8_char> <bytes_read | N>
 *   pututf8 <dst-hex> <value> <bw0>         ly_pututf8     -> ok <ret> <dst-hex> <bytes_written>
 *   checkutf8 <hex> <in_len> <len0>         ly_checkutf8   -> ok <ret> <utf8_len>
 *   utf8len <hex> <bytes>                   ly_utf8len     -> ok <n>
 *   hashmulti <hash> <hex | N> <len>        lyht_hash_multi-> ok <hash>
 *   hash <hex> <len>                        lyht_hash      -> ok <hash>
 *   getop <hex> <pos>                       lysc_iff_getop -> ok <op>
 *   setop <hex> <op> <pos>                  iff_setop      -> ok <hex>
 *   xmldump <attr> <hex | N> / jsonprint <hex | N>       lyxml_dump_text / json_print_string into a memory stream -> ok <ret> <hex>
 *   uhex <hex> <value0>                     slice of lyjson_string: the 4 hex digits of \\uXXXX at in[0..] -> ok <ret> <value>
 *   fixedsize <n>                           lyht_get_fixed_size -> ok <n>
 *   grow <used> <size> <resize> / shrink <used> <size>   slices of the insert / remove load-factor tests (fn_slices_FnHt.h)
 *   lybmask <hash> <cid> / extlen <cid> <len>            slices of lyb_generate_hash (fn_slices_FnLyb.h)
 * Buffers are exact-size heap blocks (the hex bytes + one NUL for the `char *` inputs), so a read or store outside what
 * the model calls the buffer is an AddressSanitizer abort, i.e. a recorded failure.
 * Statics are reached by including the source files; this TU is linked before libyang.a. */
#define _GNU_SOURCE
#include "ly_common.c"
#include "hash_table.c"
#include "schema_features.c"
#include "xml.c"
#include "printer_json.c"
#include "lyb.h"
#include "proto.h"
#include "fn_slices_FnHt.h"
#include "fn_slices_FnLyb.h"
#include "fn_slices_FnJson.h"

static char *
exact(const char *hex, size_t *n, int nul)
{
    char *t = vp_unhex(hex, n), *b;

    if (!t) return NULL;
    b = malloc(*n + (nul ? 1 : 0) + (!nul && !*n ? 1 : 0));
    memcpy(b, t, *n);
    if (nul) b[*n] = 0;
    free(t);
    return b;
}

int
main(void)
{
    struct vp_req r = {0};

    while (vp_next(&r)) {
        const char *id = r.tok[0], *op = r.ntok > 2 ? r.tok[2] : "";
        size_t n;

        if (r.ntok < 3) { vp_reply(r.ntok ? id : "?", "err BadLine"); continue; }

        if (!strcmp(op, "getutf8") && r.ntok == 6) {
            char *s = exact(r.tok[3], &n, 1);
            const char *p = s;
            uint32_t c = strtoul(r.tok[4], NULL, 10);
            size_t br = 0;
            int nul = !strcmp(r.tok[5], "N");
            LY_ERR ret;
            if (!nul) br = strtoull(r.tok[5], NULL, 10);
            ret = ly_getutf8(&p, &c, nul ? NULL : &br);
            vp_begin(id, "ok"); vp_field_u(ret); vp_field_u(p - s); vp_field_u(c);
            if (nul) vp_field_s("N"); else vp_field_u(br);
            vp_end(); free(s);
        } else if (!strcmp(op, "pututf8") && r.ntok == 6) {
            char *d = exact(r.tok[3], &n, 0);
            size_t bw = strtoull(r.tok[5], NULL, 10);
            LY_ERR ret = ly_pututf8(d, strtoul(r.tok[4], NULL, 10), &bw);
            vp_begin(id, "ok"); vp_field_u(ret); vp_field_hex(d, n); vp_field_u(bw); vp_end(); free(d);
        } else if (!strcmp(op, "checkutf8") && r.ntok == 6) {
            char *s = exact(r.tok[3], &n, 1);
            size_t l = strtoull(r.tok[5], NULL, 10);
            LY_ERR ret = ly_checkutf8(s, strtoull(r.tok[4], NULL, 10), &l);
            vp_begin(id, "ok"); vp_field_u(ret); vp_field_u(l); vp_end(); free(s);
        } else if (!strcmp(op, "utf8len") && r.ntok == 5) {
            char *s = exact(r.tok[3], &n, 1);
            vp_begin(id, "ok"); vp_field_u(ly_utf8len(s, strtoull(r.tok[4], NULL, 10))); vp_end(); free(s);
        } else if (!strcmp(op, "hashmulti") && r.ntok == 6) {
            int nul = !strcmp(r.tok[4], "N");
            char *s = nul ? NULL : exact(r.tok[4], &n, 0);
            vp_begin(id, "ok"); vp_field_u(lyht_hash_multi(strtoul(r.tok[3], NULL, 10), s, strtoull(r.tok[5], NULL, 10))); vp_end();
            free(s);
        } else if (!strcmp(op, "hash") && r.ntok == 5) {
            char *s = exact(r.tok[3], &n, 0);
            vp_begin(id, "ok"); vp_field_u(lyht_hash(s, strtoull(r.tok[4], NULL, 10))); vp_end(); free(s);
        } else if (!strcmp(op, "getop") && r.ntok == 5) {
            char *s = exact(r.tok[3], &n, 0);
            vp_begin(id, "ok"); vp_field_u(lysc_iff_getop((uint8_t *)s, strtoull(r.tok[4], NULL, 10))); vp_end(); free(s);
        } else if (!strcmp(op, "setop") && r.ntok == 6) {
            char *s = exact(r.tok[3], &n, 0);
            iff_setop((uint8_t *)s, strtoul(r.tok[4], NULL, 10), strtoull(r.tok[5], NULL, 10));
            vp_begin(id, "ok"); vp_field_hex(s, n); vp_end(); free(s);
        } else if ((!strcmp(op, "xmldump") && r.ntok == 5) || (!strcmp(op, "jsonprint") && r.ntok == 4)) {
            int x = op[0] == 'x';
            const char *h = r.tok[x ? 4 : 3];
            char *t = strcmp(h, "N") ? exact(h, &n, 1) : NULL, *mem = NULL;
            struct ly_out *out;
            LY_ERR ret;
            ly_out_new_memory(&mem, 0, &out);
            ret = x ? lyxml_dump_text(out, t, atoi(r.tok[3])) : json_print_string(out, t);
            vp_begin(id, "ok"); vp_field_u(ret); vp_field_hex(mem ? mem : "", mem ? strlen(mem) : 0); vp_end();
            ly_out_free(out, NULL, 0); free(mem); free(t);
        } else if (!strcmp(op, "uhex") && r.ntok == 5) {
            char *t = exact(r.tok[3], &n, 1);
            uint32_t v = strtoul(r.tok[4], NULL, 10);
            int rc = lyjson_string__u(t, 0, &v);
            vp_begin(id, "ok"); vp_field_u(rc); vp_field_u(v); vp_end(); free(t);
        } else if (!strcmp(op, "fixedsize") && r.ntok == 4) {
            vp_begin(id, "ok"); vp_field_u(lyht_get_fixed_size(strtoul(r.tok[3], NULL, 10))); vp_end();
        } else if (!strcmp(op, "grow") && r.ntok == 6) {
            uint16_t rs = strtoul(r.tok[5], NULL, 10);
            int g = lyht_insert__grow(strtoul(r.tok[3], NULL, 10), strtoul(r.tok[4], NULL, 10), &rs);
            vp_begin(id, "ok"); vp_field_u(g); vp_field_u(rs); vp_end();
        } else if (!strcmp(op, "shrink") && r.ntok == 5) {
            vp_begin(id, "ok"); vp_field_u(lyht_remove__shrink(strtoul(r.tok[3], NULL, 10), strtoul(r.tok[4], NULL, 10))); vp_end();
        } else if (!strcmp(op, "lybmask") && r.ntok == 5) {
            vp_begin(id, "ok"); vp_field_u(lyb_generate_hash__mask(strtoul(r.tok[3], NULL, 10), strtoul(r.tok[4], NULL, 10))); vp_end();
        } else if (!strcmp(op, "extlen") && r.ntok == 5) {
            vp_begin(id, "ok"); vp_field_u(lyb_generate_hash__extlen(strtoul(r.tok[3], NULL, 10), strtoull(r.tok[4], NULL, 10))); vp_end();
        } else {
            vp_reply(id, "err BadOp");
        }
    }
    free(r.line);
    return 0;
}
