/* Public-API harness of component `ctx` (C09, and the counter/hash part of C19).
 *
 *   <id> ctx history <spec-hex>    ->  <id> ok <step-token>*   |   <id> err <Kind>
 *
 * <spec-hex> decodes to a script, one item per line, tokens separated by one blank:
 *   F <flags>                          options for ly_ctx_new (LY_CTX_DISABLE_SEARCHDIRS is always added)
 *   T <0|1>                            1: print a data tree even when its schema nodes were replaced (F24 confirmation)
 *   M <name> <rev|-> <text-hex> ...    module source put into the repository served by the import callback (rest of line: model only);
 *                                      may appear between steps; a source of the same name and revision is replaced
 *   S <name> <rev|-> <text-hex>        submodule source
 *   P <name> <rev|-> <feats>           lys_parse() of the repository's source name@rev with the features
 *   L <name> <rev|-> <feats> ...       ly_ctx_load_module()
 *   I <name> <rev|-> <feats> ...       lys_set_implemented() on the context's module name@rev
 *   C ...                              ly_ctx_compile()
 *   O <+|-> <bits> ...                 ly_ctx_set_options() / ly_ctx_unset_options()
 *   D <module>                         lyd_new_path(/module:c/l = "v"), kept alive to the end of the history
 *   <feats>: ~ = NULL, - = {NULL}, * = {"*",NULL}, else comma separated names.
 *
 * One reply token per P/L/I/C/O step:   <rc>|<mod>;<mod>...|h=<modules-hash>|cc=<change-count - count after ly_ctx_new>|d=<data>
 *   <mod> = name@rev:I<implemented>:L<latest_revision byte>:<feat>+|-,...:c<class>.<fnv32 of compiled print>   (c- = no compiled module)
 *   <class> numbers the distinct YANG_COMPILED prints of that module in order of first appearance within the history
 *   <data> one char per D tree: u usable (same schema nodes, prints and validates), s schema nodes replaced or gone (tree dropped),
 *          b same nodes but print/validation failed, - dropped earlier
 * and one token D<rc> per D step.  Only modules after the internal ones are listed (whether the hash covers the internal
 * ones as well is read from context.c by the translator, Generated/CtxFacts.lean: hashSkipsInternal). */
#define _GNU_SOURCE
#include "ctx_hist.h"

int
main(void)
{
    struct vp_req r = {0};

    ly_log_options(getenv("VP_CTX_LOG") ? (LY_LOLOG | LY_LOSTORE_LAST) : LY_LOSTORE_LAST);
    while (vp_next(&r)) {
        const char *id = r.tok[0], *op = r.ntok > 2 ? r.tok[2] : "";

        if (r.ntok < 3) { vp_reply(r.ntok ? id : "?", "err BadLine"); continue; }
        if (!strcmp(op, "history") && r.ntok == 4) {
            char *spec = vp_unhex(r.tok[3], NULL);
            if (!spec) { vp_reply(id, "err BadHex"); continue; }
            history(id, spec, NULL);
            free(spec);
        } else if (!strcmp(op, "leakcheck")) {
            vp_reply(id, "ok %d", VP_LEAKCHECK());
        } else {
            vp_reply(id, "err BadOp");
        }
    }
    free(r.line);
    free(obuf);
    return 0;
}
