/* API harness for component `xpath` (property C08): XPath 1.0 evaluation on data through the public API only.
 *   schema <yang-hex>+                     new context, parse the modules (implemented)          -> ok
 *   load <x|j> <data-hex>                  parse (LYD_PARSE_ONLY) + implicit nodes, return XML view -> ok <dump-hex>   [implementation only]
 *   tree <x|j> <data-hex> <dump-hex>       same parse; the dump must equal <dump-hex>            -> ok <number of nodes>
 *   eval <ctx-idx> <expr-hex> <ast-hex> [<dump-hex>]   lyd_eval_xpath4 with context node #idx (0 = root)     -> ok ns <idx>* | ok str <hex> | ok num <tok> | ok bool 0|1 | err <Kind>
 *   find <ctx-idx> <expr-hex> <ast-hex>    lyd_find_xpath3                                       -> ok ns <idx>* | err <Kind>
 *   validate                               lyd_validate_all on a copy of the tree (must/when law) -> ok valid | ok invalid <apptag-or-kind>
 *   evalb <ctx-idx> <expr-hex> <ast-hex>   lyd_eval_xpath3 boolean                                -> ok bool 0|1
 * Node numbering: preorder (document order) index over all data trees, starting at 1; text nodes are not numbered
 * (the API returns element nodes only).  The dump is the XML view: one line per node `<depth> <module> <name> <kind> <value-hex> <basetype>`.
 * <ast-hex> is ignored here (it is the same expression pre-parsed for the model). */
#define _GNU_SOURCE
#include <math.h>
#include "libyang.h"
#include "proto.h"

static struct ly_ctx *ctx;
static struct lyd_node *tree;
static struct lyd_node **nodes;     /* preorder */
static uint32_t nnodes, nalloc;
static const struct lys_module *mods[8];
static uint32_t nmods;

static void
add_node(struct lyd_node *n)
{
    if (nnodes == nalloc) {
        nalloc = nalloc ? nalloc * 2 : 64;
        nodes = realloc(nodes, nalloc * sizeof *nodes);
    }
    nodes[nnodes++] = n;
}

static void
collect(struct lyd_node *first)
{
    struct lyd_node *n;

    for (n = first; n; n = n->next) {
        add_node(n);
        collect(lyd_child(n));
    }
}

static uint32_t
node_index(const struct lyd_node *n)
{
    uint32_t i;

    for (i = 0; i < nnodes; i++) {
        if (nodes[i] == n) return i + 1;
    }
    return 0;
}

static uint32_t
depth_of(const struct lyd_node *n)
{
    uint32_t d = 0;

    for (n = lyd_parent(n); n; n = lyd_parent(n)) d++;
    return d;
}

static const char *
btname(const struct lyd_node *n)
{
    if (!n->schema || !(n->schema->nodetype & LYD_NODE_TERM)) return "-";
    switch (((struct lyd_node_term *)n)->value.realtype->basetype) {
    case LY_TYPE_STRING: return "string";
    case LY_TYPE_BOOL: return "boolean";
    case LY_TYPE_ENUM: return "enumeration";
    case LY_TYPE_BITS: return "bits";
    case LY_TYPE_IDENT: return "identityref";
    case LY_TYPE_LEAFREF: return "leafref";
    case LY_TYPE_EMPTY: return "empty";
    case LY_TYPE_DEC64: return "decimal64";
    case LY_TYPE_INT8: case LY_TYPE_INT16: case LY_TYPE_INT32: case LY_TYPE_INT64: return "int";
    case LY_TYPE_UINT8: case LY_TYPE_UINT16: case LY_TYPE_UINT32: case LY_TYPE_UINT64: return "uint";
    default: return "other";
    }
}

/* XML view of the tree, one line per node */
static char *
dump_tree(size_t *len)
{
    char *buf = NULL;
    size_t sz = 0;
    FILE *f = open_memstream(&buf, &sz);
    uint32_t i;

    for (i = 0; i < nnodes; i++) {
        const struct lyd_node *n = nodes[i];
        int term = n->schema && (n->schema->nodetype & LYD_NODE_TERM);
        const char *v = term ? lyd_get_value(n) : "";
        size_t k, vl = strlen(v);

        fprintf(f, "%u %s %s %c ", depth_of(n), n->schema ? n->schema->module->name : "?", LYD_NAME(n), term ? 't' : 'i');
        if (!vl) fputc('-', f);
        for (k = 0; k < vl; k++) fprintf(f, "%02x", (unsigned char)v[k]);
        fprintf(f, " %s\n", btname(n));
    }
    fclose(f);
    *len = sz;
    return buf;
}

static void
drop_tree(void)
{
    lyd_free_all(tree);
    tree = NULL;
    nnodes = 0;
}

static int
load_tree(const char *fmt, const char *data)
{
    uint32_t i;

    drop_tree();
    if (!ctx) return -1;
    if (data[0] && lyd_parse_data_mem(ctx, data, fmt[0] == 'j' ? LYD_JSON : LYD_XML, LYD_PARSE_ONLY | LYD_PARSE_STRICT, 0, &tree)) {
        drop_tree();
        return -1;
    }
    for (i = 0; i < nmods; i++) {
        if (lyd_new_implicit_module(&tree, mods[i], 0, NULL)) {
            drop_tree();
            return -1;
        }
    }
    tree = lyd_first_sibling(tree);
    collect(tree);
    return 0;
}

static void
put_num(long double x)
{
    if (isnan(x)) { fputs(" NaN", stdout); return; }
    if (isinf(x)) { fputs(x < 0 ? " -Inf" : " Inf", stdout); return; }
    if (fabsl(x) >= 1e12L) { fputs(" big", stdout); return; }
    fprintf(stdout, " m%lld", llroundl(x * 1000.0L));
}

static const char *
errkind(LY_ERR r)
{
    const struct ly_err_item *e = ly_err_last(ctx);
    const char *m = e ? e->msg : "";

    if (r == LY_EVALID && (strstr(m, "Unexpected XPath token") || strstr(m, "Unexpected XPath expression end") || strstr(m, "Invalid character") ||
            strstr(m, "Unparsed characters") || strstr(m, "Unknown XPath function") || strstr(m, "Invalid number of arguments") ||
            strstr(m, "Unterminated") || strstr(m, "Invalid XPath"))) return "Syntax";
    if (r == LY_EVALID && strstr(m, "Wrong type of argument")) return "ArgType";
    if (r == LY_EVALID && strstr(m, "Cannot apply XPath operation")) return "InvalidOp";
    if (r == LY_EVALID && strstr(m, "Unknown/non-implemented module")) return "NoModule";
    if (r == LY_EVALID) return "Valid";
    if (r == LY_EINVAL) return "Inval";
    if (r == LY_ENOTFOUND) return "NotFound";
    if (r == LY_EMEM) return "Mem";
    return "Other";
}

int
main(void)
{
    struct vp_req r = {0};

    ly_log_options(LY_LOSTORE_LAST);

    while (vp_next(&r)) {
        const char *id = r.tok[0], *op = r.ntok > 2 ? r.tok[2] : "";

        if (r.ntok < 3) { vp_reply(r.ntok ? id : "?", "err BadLine"); continue; }
        if (ctx) ly_err_clean(ctx, NULL);

        if (!strcmp(op, "schema") && r.ntok >= 4) {
            int i, bad = 0;

            drop_tree();
            ly_ctx_destroy(ctx);
            ctx = NULL;
            nmods = 0;
            if (ly_ctx_new(NULL, LY_CTX_NO_YANGLIBRARY, &ctx)) { vp_reply(id, "err Ctx"); continue; }
            for (i = 3; i < r.ntok && !bad && nmods < 8; i++) {
                char *y = vp_unhex(r.tok[i], NULL);
                struct lys_module *m = NULL;
                if (!y || lys_parse_mem(ctx, y, LYS_IN_YANG, &m)) bad = 1;
                else mods[nmods++] = m;
                free(y);
            }
            if (bad) { vp_reply(id, "err Schema"); ly_ctx_destroy(ctx); ctx = NULL; nmods = 0; continue; }
            vp_reply(id, "ok");
        } else if (!strcmp(op, "load") && r.ntok == 5) {
            char *d = vp_unhex(r.tok[4], NULL), *dump; size_t dl;
            if (!d || load_tree(r.tok[3], d)) { vp_reply(id, "err Data"); free(d); continue; }
            dump = dump_tree(&dl);
            vp_begin(id, "ok"); vp_field_hex(dump, dl); vp_end();
            free(dump); free(d);
        } else if (!strcmp(op, "tree") && r.ntok == 6) {
            char *d = vp_unhex(r.tok[4], NULL), *want = vp_unhex(r.tok[5], NULL), *dump; size_t dl;
            if (!d || !want || load_tree(r.tok[3], d)) { vp_reply(id, "err Data"); free(d); free(want); continue; }
            dump = dump_tree(&dl);
            if (strcmp(dump, want)) vp_reply(id, "err DumpDiffers");
            else vp_reply(id, "ok %u", nnodes);
            free(dump); free(d); free(want);
        } else if ((!strcmp(op, "eval") || !strcmp(op, "find") || !strcmp(op, "evalb")) && r.ntok >= 6) {
            unsigned long ci = strtoul(r.tok[3], NULL, 10);
            char *x = vp_unhex(r.tok[4], NULL);
            struct lyd_node *cn;
            LY_ERR rc;

            if (!tree || !x || ci > nnodes) { vp_reply(id, "err NoTree"); free(x); continue; }
            cn = ci ? nodes[ci - 1] : NULL;
            if (!strcmp(op, "eval")) {
                LY_XPATH_TYPE ty = 0; struct ly_set *set = NULL; char *str = NULL; long double num = 0; ly_bool b = 0;
                uint32_t i;

                rc = lyd_eval_xpath4(cn, tree, NULL, x, LY_VALUE_JSON, NULL, NULL, &ty, &set, &str, &num, &b);
                if (rc) {
                    vp_reply(id, "err %s", errkind(rc));
                } else if (ty == LY_XPATH_NODE_SET) {
                    vp_begin(id, "ok"); vp_field_s("ns");
                    for (i = 0; i < set->count; i++) vp_field_u(node_index(set->dnodes[i]));
                    vp_end();
                } else if (ty == LY_XPATH_STRING) {
                    vp_begin(id, "ok"); vp_field_s("str"); vp_field_hex(str, strlen(str)); vp_end();
                } else if (ty == LY_XPATH_NUMBER) {
                    vp_begin(id, "ok"); vp_field_s("num"); put_num(num); vp_end();
                } else {
                    vp_reply(id, "ok bool %d", b ? 1 : 0);
                }
                free(str); ly_set_free(set, NULL);
            } else if (!strcmp(op, "find")) {
                struct ly_set *set = NULL; uint32_t i;

                rc = lyd_find_xpath3(cn, tree, x, LY_VALUE_JSON, NULL, NULL, &set);
                if (rc) {
                    vp_reply(id, "err %s", errkind(rc));
                } else {
                    vp_begin(id, "ok"); vp_field_s("ns");
                    for (i = 0; i < set->count; i++) vp_field_u(node_index(set->dnodes[i]));
                    vp_end();
                }
                ly_set_free(set, NULL);
            } else {
                ly_bool b = 0;

                if (!cn) { vp_reply(id, "err NoCtx"); free(x); continue; }
                rc = lyd_eval_xpath3(cn, NULL, x, LY_VALUE_JSON, NULL, NULL, &b);
                if (rc) vp_reply(id, "err %s", errkind(rc));
                else vp_reply(id, "ok bool %d", b ? 1 : 0);
            }
            free(x);
        } else if (!strcmp(op, "validate") && r.ntok == 3) {
            struct lyd_node *dup = NULL;
            LY_ERR rc;

            if (!ctx) { vp_reply(id, "err NoTree"); continue; }
            if (tree && lyd_dup_siblings(tree, NULL, LYD_DUP_RECURSIVE | LYD_DUP_WITH_FLAGS, &dup)) { vp_reply(id, "err Dup"); continue; }
            rc = lyd_validate_all(&dup, ctx, LYD_VALIDATE_PRESENT, NULL);
            if (!rc) {
                vp_reply(id, "ok valid");
            } else {
                const struct ly_err_item *e = ly_err_last(ctx);
                const char *m = e ? e->msg : "";
                vp_reply(id, "ok invalid %s", strstr(m, "Must condition") ? "must" : strstr(m, "When condition") ? "when" : "other");
            }
            lyd_free_all(dup);
        } else {
            vp_reply(id, "err BadOp");
        }
    }
    free(r.line);
    drop_tree();
    free(nodes);
    ly_ctx_destroy(ctx);
    return 0;
}
