/* White-box harness of component `path`: the path parser on its own (internal entry point `ly_path_parse`, options as
 * lyd_find_path / lyd_new_path pass them).
 *
 *   parse <path-hex>   -> ok <abs> <step>* | err Invalid | err Rc<n>
 *       step := namehex ':' ( 'n' | 'p' rawhex | 'd' val | 'k' (';' keyhex '=' val)+ ),  val := ('l'|'n'|'v') hex
 *   The steps are read off the token array ly_path_parse returns (kinds, positions, lengths), i.e. what
 *   ly_path_compile will see; a Literal's value is the token text without its first and last byte.
 */
#define _GNU_SOURCE
#include "libyang.h"
#include "ly_common.h"
#include "path.h"
#include "xpath.h"
#include "proto.h"

static struct ly_ctx *ctx;

static void
put_hex(const char *p, size_t n)
{
    size_t i;
    if (!n) { fputc('-', stdout); return; }
    for (i = 0; i < n; i++) fprintf(stdout, "%02x", (unsigned char)p[i]);
}

static void
put_val(const struct lyxp_expr *e, uint32_t i)
{
    const char *t = e->expr + e->tok_pos[i]; size_t n = e->tok_len[i];
    if (e->tokens[i] == LYXP_TOKEN_LITERAL) { fputc('l', stdout); put_hex(t + 1, n - 2); }
    else if (e->tokens[i] == LYXP_TOKEN_NUMBER) { fputc('n', stdout); put_hex(t, n); }
    else if (e->tokens[i] == LYXP_TOKEN_VARREF) { fputc('v', stdout); put_hex(t, n); }
    else fputc('?', stdout);
}

int
main(void)
{
    struct vp_req r = {0};

    ly_log_options(LY_LOSTORE_LAST);
    if (ly_ctx_new(NULL, 0, &ctx)) return 2;

    while (vp_next(&r)) {
        const char *id = r.tok[0], *op = r.ntok > 2 ? r.tok[2] : "";

        if (r.ntok < 3) { vp_reply(r.ntok ? id : "?", "err BadLine"); continue; }
        ly_err_clean(ctx, NULL);

        if (!strcmp(op, "parse") && r.ntok == 4) {
            size_t n; char *s = vp_unhex(r.tok[3], &n); struct lyxp_expr *e = NULL; LY_ERR rc; uint32_t i = 0;
            if (!s) { vp_reply(id, "err BadHex"); continue; }
            rc = ly_path_parse(ctx, NULL, s, strlen(s), 0, LY_PATH_BEGIN_EITHER, LY_PATH_PREFIX_FIRST, LY_PATH_PRED_SIMPLE, &e);
            if (rc == LY_EVALID) { vp_reply(id, "err Invalid"); free(s); continue; }
            if (rc) { vp_reply(id, "err Rc%d", (int)rc); free(s); continue; }
            vp_begin(id, "ok");
            if (e->tokens[0] == LYXP_TOKEN_OPER_PATH) { fputs(" 1", stdout); i = 1; } else fputs(" 0", stdout);
            while (i < e->used) {
                /* NameTest */
                fputc(' ', stdout); put_hex(e->expr + e->tok_pos[i], e->tok_len[i]); fputc(':', stdout); i++;
                if (i < e->used && e->tokens[i] == LYXP_TOKEN_BRACK1) {
                    if (e->tokens[i + 1] == LYXP_TOKEN_NAMETEST) {
                        fputc('k', stdout);
                        while (i < e->used && e->tokens[i] == LYXP_TOKEN_BRACK1) {
                            fputc(';', stdout); put_hex(e->expr + e->tok_pos[i + 1], e->tok_len[i + 1]); fputc('=', stdout);
                            put_val(e, i + 3); i += 5;
                        }
                    } else if (e->tokens[i + 1] == LYXP_TOKEN_DOT) {
                        fputc('d', stdout); put_val(e, i + 3); i += 5;
                    } else {
                        fputc('p', stdout); put_hex(e->expr + e->tok_pos[i + 1], e->tok_len[i + 1]); i += 3;
                    }
                } else fputc('n', stdout);
                if (i < e->used) i++;   /* '/' */
            }
            vp_end();
            lyxp_expr_free(ctx, e);
            free(s);
        } else {
            vp_reply(id, "err BadOp");
        }
    }
    free(r.line);
    ly_ctx_destroy(ctx);
    return 0;
}
