/* White-box harness for the text leaf functions (component `text`):
 *   xmldump <attr> <hex>        lyxml_dump_text                   -> ok <hex>
 *   xmlparse <endc-hex> <hex>   lyxml_parse_value                 -> ok <value-hex> <ws_only> <remaining-bytes> | err <Kind>
 *   jsonprint <hex>             json_print_string                 -> ok <hex>
 *   jsonparse <hex>             lyjson_string (after the quote)   -> ok <value-hex> <remaining-bytes> | err <Kind>
 *   getutf8 <hex> / pututf8 <n> / checkutf8 <hex> <in_len>
 * The lexers are `static`; this TU includes the source files and is linked before libyang.a. */
#define _GNU_SOURCE
#include "xml.c"
#include "json.c"
#include "printer_json.c"
#include "proto.h"

static struct ly_ctx *ctx;

/* map the last error message to the model's small enum (messages themselves are never compared) */
static const char *
errkind(void)
{
    const struct ly_err_item *e = ly_err_last(ctx);
    const char *m = e ? e->msg : "";

    size_t n = strlen(m);
#define PFX(p) (!strncmp(m, p, strlen(p)))
    if (PFX("Entity reference")) return "BadEntity";
    if (PFX("Invalid character reference")) return (n > 1 && m[n - 2] == ')') ? "BadRefValue" : "BadCharRef";
    if (PFX("Invalid character sequence")) return "ExpSemicolon";
    if (!strcmp(m, "CDATA not terminated.")) return "CdataNterm";
    if (PFX("Invalid basic multilingual")) return "BadUnicode";
    if (PFX("Invalid character escape")) return "BadEscape";
    if (PFX("Invalid character in JSON string")) return "NotStrChar";
    if (PFX("Invalid character 0x")) return "InChar";
    if (PFX("Missing quotation-mark") || !strcmp(m, "Unexpected end-of-input.")) return "Eof";
#undef PFX
    return "Other";
}

int
main(void)
{
    struct vp_req r = {0};

    ly_log_options(LY_LOSTORE_LAST);
    if (ly_ctx_new(NULL, 0, &ctx)) return 2;

    while (vp_next(&r)) {
        const char *id = r.tok[0], *op = r.ntok > 2 ? r.tok[2] : "";

        if (r.ntok < 3) { vp_reply(r.ntok ? id : "?", "err BadLine"); continue; }
        ly_err_clean(ctx, NULL);

        if (!strcmp(op, "xmldump") && r.ntok == 5) {
            size_t n; char *s = vp_unhex(r.tok[4], &n), *mem = NULL; struct ly_out *out;
            ly_out_new_memory(&mem, 0, &out);
            lyxml_dump_text(out, s, atoi(r.tok[3]));
            vp_begin(id, "ok"); vp_field_hex(mem ? mem : "", mem ? strlen(mem) : 0); vp_end();
            ly_out_free(out, NULL, 0); free(mem); free(s);
        } else if (!strcmp(op, "xmlparse") && r.ntok == 5) {
            size_t n, en; char *e = vp_unhex(r.tok[3], &en), *s = vp_unhex(r.tok[4], &n);
            struct ly_in *in; struct lyxml_ctx x; char *val = NULL; size_t len = 0; ly_bool ws = 0, dyn = 0;
            memset(&x, 0, sizeof x);
            ly_in_new_memory(s, &in);
            x.ctx = ctx; x.in = in;
            if (lyxml_parse_value(&x, e[0], &val, &len, &ws, &dyn) == LY_SUCCESS) {
                vp_begin(id, "ok"); vp_field_hex(val, len); vp_field_u(ws); vp_field_u(strlen(in->current)); vp_end();
                if (dyn) free(val);
            } else {
                vp_reply(id, "err %s", errkind());
            }
            ly_in_free(in, 0); free(s); free(e);
        } else if (!strcmp(op, "jsonprint") && r.ntok == 4) {
            size_t n; char *s = vp_unhex(r.tok[3], &n), *mem = NULL; struct ly_out *out;
            ly_out_new_memory(&mem, 0, &out);
            json_print_string(out, s);
            vp_begin(id, "ok"); vp_field_hex(mem ? mem : "", mem ? strlen(mem) : 0); vp_end();
            ly_out_free(out, NULL, 0); free(mem); free(s);
        } else if (!strcmp(op, "jsonparse") && r.ntok == 4) {
            size_t n; char *s = vp_unhex(r.tok[3], &n);
            struct ly_in *in; struct lyjson_ctx j;
            memset(&j, 0, sizeof j);
            ly_in_new_memory(s, &in);
            j.ctx = ctx; j.in = in;
            if (lyjson_string(&j) == LY_SUCCESS) {
                vp_begin(id, "ok"); vp_field_hex(j.value, j.value_len); vp_field_u(strlen(in->current)); vp_end();
                if (j.dynamic) free((char *)j.value);
            } else {
                vp_reply(id, "err %s", errkind());
            }
            ly_in_free(in, 0); free(s);
        } else if (!strcmp(op, "getutf8") && r.ntok == 4) {
            size_t n, rd = 0; char *s = vp_unhex(r.tok[3], &n); const char *p = s; uint32_t c = 0;
            if (ly_getutf8(&p, &c, &rd) == LY_SUCCESS) vp_reply(id, "ok %u %zu", c, rd);
            else vp_reply(id, "err Inval");
            free(s);
        } else if (!strcmp(op, "pututf8") && r.ntok == 4) {
            char dst[8] = {0}; size_t w = 0;
            if (ly_pututf8(dst, (uint32_t)strtoul(r.tok[3], NULL, 10), &w) == LY_SUCCESS) {
                vp_begin(id, "ok"); vp_field_hex(dst, w); vp_end();
            } else vp_reply(id, "err Inval");
        } else if (!strcmp(op, "checkutf8") && r.ntok == 5) {
            size_t n, l = 0; char *s = vp_unhex(r.tok[3], &n);
            if (ly_checkutf8(s, strtoul(r.tok[4], NULL, 10), &l) == LY_SUCCESS) vp_reply(id, "ok %zu", l);
            else vp_reply(id, "err Inval");
            free(s);
        } else {
            vp_reply(id, "err BadOp");
        }
    }
    free(r.line);
    ly_ctx_destroy(ctx);
    return 0;
}
