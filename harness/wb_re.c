/* Harness of component `xsdre` (C18): the four user-visible routes a YANG pattern is evaluated through, plus a view of
 * the text that lys_compile_type_pattern_check() hands to PCRE2.
 *
 *   rewrite <flags> <pat-hex>                      -> ok <pcre-text-hex> | err StrayBracket|Unterminated|UnknownBlock|Other
 *   opts                                           -> ok <sorted compile option names, comma separated>
 *   info                                           -> ok <compile-options-hex> <newline-convention> <pcre2-version>
 *   grid <pat-hex> <inv> <alphabet-hex> <maxlen> <s3> <s4> <salt> <xpfail>
 *                                                  -> ok <r1> <r2> <r3> <r4>
 *   matchn <pat-hex> <inv> <str-hex>...            -> ok <r1> <r2> <r3> <r4>      (r4 on every 8th string)
 *   rawgrid <pcre-hex> <nl> <alphabet-hex> <maxlen>-> ok <bits> | err Compile
 *   rawn <pcre-hex> <nl> <str-hex>...              -> ok <bits> | err Compile
 *   leak                                           -> ok <0|1>
 *
 * Routes: r1 ly_pattern_compile + ly_pattern_match; r2 lyd_value_validate on a string leaf of a module generated with
 * that pattern (and `modifier invert-match` when <inv> = 1); r3 XPath re-match() through lyd_eval_xpath; r4 the yangre
 * tool (tools/re/main.c compiled into this harness, its main() called with argv).  Each r is `E` (pattern rejected), `-`
 * (route has no invert-match, <inv> = 1) or one character per string: 1 match / 0 no match / e error / . not sampled.
 * grid enumerates all strings over the alphabet (UTF-8 characters) of length 0..maxlen, by length then lexicographically
 * in alphabet order; r3 / r4 are evaluated at the indices i with (i + salt) % s == 0 (s = 0: never).
 *
 * White-box part: this TU includes schema_compile_node.c with `pcre2_compile` redirected to a recording wrapper and is
 * linked before libyang.a, so every route (tree_data_common.c, xpath.c, the schema compiler) runs this copy and the text
 * and options reaching PCRE2 can be observed without touching the source. */
#define _GNU_SOURCE
#define PCRE2_CODE_UNIT_WIDTH 8
#include <pcre2.h>
#include <stdint.h>
#include <stdlib.h>
#include <string.h>

static char *vh_text;
static uint32_t vh_opts, vh_newline;
static unsigned long vh_calls;

static pcre2_code *
vh_pcre2_compile(PCRE2_SPTR pat, PCRE2_SIZE len, uint32_t opts, int *ec, PCRE2_SIZE *eo, pcre2_compile_context *cc)
{
    pcre2_code *code;

    free(vh_text);
    vh_text = strdup((const char *)pat);
    vh_opts = opts;
    ++vh_calls;
    code = pcre2_compile_8(pat, len, opts, ec, eo, cc);
    if (code) {
        pcre2_pattern_info_8(code, PCRE2_INFO_NEWLINE, &vh_newline);
    }
    return code;
}

#undef pcre2_compile
#define pcre2_compile vh_pcre2_compile
#include "schema_compile_node.c"
#undef pcre2_compile
#define pcre2_compile pcre2_compile_8

#define main yangre_main
#include "../tools/re/main.c"
#undef main

#include <getopt.h>
#include "proto.h"

static struct ly_ctx *ctx;          /* r1, r3 and the per-pattern modules of r2 */
static struct lyd_node *xp_node;
static unsigned modcount, modtotal;

static void
ctx_reset(void)
{
    const struct lys_module *m;

    if (xp_node) lyd_free_all(xp_node);
    xp_node = NULL;
    if (ctx) ly_ctx_destroy(ctx);
    ctx = NULL;
    if (ly_ctx_new(NULL, 0, &ctx)) exit(2);
    if (lys_parse_mem(ctx, "module rexp {namespace urn:rexp; prefix x; leaf l {type string;}}", LYS_IN_YANG, (struct lys_module **)&m)) exit(2);
    if (lyd_new_path(NULL, ctx, "/rexp:l", "v", 0, &xp_node)) exit(2);
    modcount = 0;
}

static const char *
errkind(void)
{
    const struct ly_err_item *e = ly_err_last(ctx);
    const char *m = e ? e->msg : "";

    if (strstr(m, "character group doesn't begin with '['")) return "StrayBracket";
    if (strstr(m, "unterminated character property")) return "Unterminated";
    if (strstr(m, "unknown block name")) return "UnknownBlock";
    return "Other";
}

/* YANG double-quoted string */
static char *
yang_quote(const char *s)
{
    char *q = malloc(2 * strlen(s) + 3), *p = q;

    *p++ = '"';
    for (; *s; ++s) {
        switch (*s) {
        case '\\': *p++ = '\\'; *p++ = '\\'; break;
        case '"': *p++ = '\\'; *p++ = '"'; break;
        case '\n': *p++ = '\\'; *p++ = 'n'; break;
        case '\t': *p++ = '\\'; *p++ = 't'; break;
        default: *p++ = *s;
        }
    }
    *p++ = '"';
    *p = 0;
    return q;
}

/* XPath literal, NULL when the text has both quote characters */
static char *
xp_quote(const char *s)
{
    char q, *r;

    if (!strchr(s, '\'')) q = '\'';
    else if (!strchr(s, '"')) q = '"';
    else return NULL;
    r = malloc(strlen(s) + 3);
    sprintf(r, "%c%s%c", q, s, q);
    return r;
}

struct routes {
    pcre2_code *code;               /* r1 */
    int ok1;
    const struct lysc_node *leaf;   /* r2 */
    int ok2;
    char *xp_pat;                   /* r3 */
    char *yq;                       /* r4: quoted pattern */
    int inv;
};

static void
routes_open(struct routes *R, const char *pat, int inv)
{
    char *mod = NULL;
    struct lys_module *m = NULL;

    memset(R, 0, sizeof *R);
    R->inv = inv;
    R->ok1 = (ly_pattern_compile(ctx, pat, &R->code) == LY_SUCCESS);
    R->yq = yang_quote(pat);
    if (modcount >= 200) {
        /* (the compiled code of r1 does not depend on the context) */
        ctx_reset();
    }
    ++modcount; ++modtotal;
    asprintf(&mod, "module rem%u {yang-version 1.1; namespace urn:rem%u; prefix r; leaf l {type string {pattern %s%s}}}",
            modtotal, modtotal, R->yq, inv ? " {modifier invert-match;}" : ";");
    R->ok2 = (lys_parse_mem(ctx, mod, LYS_IN_YANG, &m) == LY_SUCCESS) && m && m->compiled && m->compiled->data;
    if (R->ok2) R->leaf = m->compiled->data;
    free(mod);
    R->xp_pat = xp_quote(pat);
}

static void
routes_close(struct routes *R)
{
    pcre2_code_free(R->code);
    free(R->xp_pat);
    free(R->yq);
}

static char
route1(struct routes *R, const char *s, size_t n)
{
    LY_ERR r;

    if (!n) {
        /* str_len 0 means "use strlen" in ly_pattern_match, same thing for a NUL-free text */
    }
    r = ly_pattern_match(ctx, NULL, s, n, &R->code);
    return r == LY_SUCCESS ? '1' : r == LY_ENOT ? '0' : 'e';
}

static char
route2(struct routes *R, const char *s, size_t n)
{
    LY_ERR r = lyd_value_validate(ctx, R->leaf, s, n, NULL, NULL, NULL);

    return r == LY_SUCCESS ? '1' : r == LY_EVALID ? '0' : 'e';
}

/* 1 / 0 / E (expression rejected) / . (not expressible) */
static char
route3(struct routes *R, const char *s)
{
    char *ls = xp_quote(s), *expr = NULL, c;
    ly_bool res = 0;
    LY_ERR r;

    if (!ls || !R->xp_pat) { free(ls); return '.'; }
    asprintf(&expr, "re-match(%s, %s)", ls, R->xp_pat);
    r = lyd_eval_xpath(xp_node, expr, &res);
    c = r ? 'E' : res ? '1' : '0';
    free(expr); free(ls);
    return c;
}

static char
route4(struct routes *R, const char *s)
{
    char *argv[8];
    int argc = 0, rc;

    argv[argc++] = "yangre";
    argv[argc++] = "-p";
    argv[argc++] = R->yq;
    if (R->inv) argv[argc++] = "-i";
    argv[argc++] = "--";
    argv[argc++] = (char *)s;
    argv[argc] = NULL;
    optind = 0;
    rc = yangre_main(argc, argv);
    ly_set_log_clb(NULL);
    ly_log_options(LY_LOSTORE_LAST);
    return rc == 0 ? '1' : rc == 2 ? '0' : 'E';
}

/* all characters equal to E -> "E" */
static void
put_route(char *buf, size_t n)
{
    size_t i;

    fputc(' ', stdout);
    for (i = 0; i < n && buf[i] == 'E'; ++i) {}
    if (n && i == n) { fputc('E', stdout); return; }
    if (!n) { fputc('-', stdout); return; }
    fwrite(buf, 1, n, stdout);
}

/* split UTF-8 text into characters */
static size_t
split_chars(const char *a, size_t alen, const char **ch, size_t *chl, size_t max)
{
    size_t i = 0, k = 0;

    while (i < alen && k < max) {
        unsigned char c = (unsigned char)a[i];
        size_t l = c < 0x80 ? 1 : c < 0xE0 ? 2 : c < 0xF0 ? 3 : 4;

        if (i + l > alen) l = alen - i;
        ch[k] = a + i; chl[k] = l; ++k; i += l;
    }
    return k;
}

struct strset {
    char **s;
    size_t *len;
    size_t n;
};

static void
strset_free(struct strset *S)
{
    for (size_t i = 0; i < S->n; ++i) free(S->s[i]);
    free(S->s); free(S->len);
}

static void
strset_push(struct strset *S, const char *b, size_t n)
{
    S->s = realloc(S->s, (S->n + 1) * sizeof *S->s);
    S->len = realloc(S->len, (S->n + 1) * sizeof *S->len);
    S->s[S->n] = malloc(n + 1);
    memcpy(S->s[S->n], b, n);
    S->s[S->n][n] = 0;
    S->len[S->n] = n;
    ++S->n;
}

static void
strset_grid(struct strset *S, const char *a, size_t alen, unsigned maxlen)
{
    const char *ch[64]; size_t chl[64], k, idx[16];
    char buf[16 * 4 + 1];

    memset(S, 0, sizeof *S);
    k = split_chars(a, alen, ch, chl, 64);
    if (maxlen > 15) maxlen = 15;
    for (unsigned L = 0; L <= maxlen; ++L) {
        if (L && !k) break;
        memset(idx, 0, sizeof idx);
        for (;;) {
            size_t n = 0; int p;

            for (unsigned j = 0; j < L; ++j) { memcpy(buf + n, ch[idx[j]], chl[idx[j]]); n += chl[idx[j]]; }
            strset_push(S, buf, n);
            for (p = (int)L - 1; p >= 0; --p) {
                if (++idx[p] < k) break;
                idx[p] = 0;
            }
            if (p < 0) break;
        }
    }
}

static void
run_routes(const char *id, const char *pat, int inv, struct strset *S, unsigned s3, unsigned s4, unsigned salt, int xpfail)
{
    struct routes R;
    char *b1, *b2, *b3, *b4;
    size_t i, n = S->n;
    int xp_rejected = 0;

    routes_open(&R, pat, inv);
    b1 = malloc(n + 1); b2 = malloc(n + 1); b3 = malloc(n + 1); b4 = malloc(n + 1);
    for (i = 0; i < n; ++i) {
        b1[i] = !R.ok1 ? 'E' : route1(&R, S->s[i], S->len[i]);
        b2[i] = !R.ok2 ? 'E' : route2(&R, S->s[i], S->len[i]);
        if (s3 && ((i + salt) % s3 == 0)) {
            if (!R.ok1 && !xpfail) b3[i] = '.';
            else if (!R.ok1 && xp_rejected) b3[i] = 'E';     /* one evaluation is enough to see the rejection */
            else {
                b3[i] = route3(&R, S->s[i]);
                if (b3[i] == 'E') xp_rejected = 1;
            }
        } else b3[i] = '.';
        if (s4 && ((i + salt) % s4 == 0)) b4[i] = route4(&R, S->s[i]); else b4[i] = '.';
    }
    vp_begin(id, "ok");
    if (inv) fputs(" -", stdout); else put_route(b1, n);
    put_route(b2, n);
    if (inv) fputs(" -", stdout); else put_route(b3, n);
    put_route(b4, n);
    vp_end();
    free(b1); free(b2); free(b3); free(b4);
    routes_close(&R);
}

static pcre2_code *
raw_compile(const char *text, int nl)
{
    pcre2_compile_context *cc = NULL;
    pcre2_code *code;
    int ec; PCRE2_SIZE eo;

    if (nl) {
        cc = pcre2_compile_context_create(NULL);
        pcre2_set_newline(cc, PCRE2_NEWLINE_ANYCRLF);
    }
    code = pcre2_compile_8((PCRE2_SPTR)text, PCRE2_ZERO_TERMINATED, vh_opts, &ec, &eo, cc);
    pcre2_compile_context_free(cc);
    return code;
}

static void
run_raw(const char *id, const char *text, int nl, struct strset *S)
{
    pcre2_code *code = raw_compile(text, nl);
    char *b;

    if (!code) { vp_reply(id, "err Compile"); return; }
    b = malloc(S->n + 1);
    for (size_t i = 0; i < S->n; ++i) {
        LY_ERR r = ly_pattern_match(ctx, NULL, S->s[i], S->len[i], &code);
        b[i] = r == LY_SUCCESS ? '1' : r == LY_ENOT ? '0' : 'e';
    }
    vp_begin(id, "ok");
    fputc(' ', stdout);
    if (S->n) fwrite(b, 1, S->n, stdout); else fputc('-', stdout);
    vp_end();
    free(b);
    pcre2_code_free(code);
}

static int
cmpstr(const void *a, const void *b)
{
    return strcmp(*(const char **)a, *(const char **)b);
}

int
main(void)
{
    struct vp_req r = {0};
    pcre2_code *c0 = NULL;

    ly_log_options(LY_LOSTORE_LAST);
    ctx_reset();
    /* learn the compile options */
    ly_pattern_compile(ctx, "a", &c0);
    pcre2_code_free(c0);

    while (vp_next(&r)) {
        const char *id = r.tok[0], *op = r.ntok > 2 ? r.tok[2] : "";

        if (r.ntok < 3) { vp_reply(r.ntok ? id : "?", "err BadLine"); continue; }
        ly_err_clean(ctx, NULL);

        if (!strcmp(op, "rewrite") && r.ntok == 5) {
            char *p = vp_unhex(r.tok[4], NULL);
            pcre2_code *code = NULL;
            unsigned long before = vh_calls;

            if (!p) { vp_reply(id, "err BadHex"); continue; }
            ly_pattern_compile(ctx, p, &code);
            if (vh_calls != before) {
                vp_begin(id, "ok"); vp_field_hex(vh_text, strlen(vh_text)); vp_end();
            } else {
                vp_reply(id, "err %s", errkind());
            }
            pcre2_code_free(code);
            free(p);
        } else if (!strcmp(op, "opts")) {
            static const struct { uint32_t v; const char *n; } F[] = {
                {PCRE2_UTF, "PCRE2_UTF"}, {PCRE2_UCP, "PCRE2_UCP"}, {PCRE2_ANCHORED, "PCRE2_ANCHORED"},
                {PCRE2_ENDANCHORED, "PCRE2_ENDANCHORED"}, {PCRE2_DOLLAR_ENDONLY, "PCRE2_DOLLAR_ENDONLY"},
                {PCRE2_NO_AUTO_CAPTURE, "PCRE2_NO_AUTO_CAPTURE"}, {PCRE2_DOTALL, "PCRE2_DOTALL"}, {PCRE2_MULTILINE, "PCRE2_MULTILINE"},
                {PCRE2_CASELESS, "PCRE2_CASELESS"}, {PCRE2_EXTENDED, "PCRE2_EXTENDED"}, {PCRE2_UNGREEDY, "PCRE2_UNGREEDY"},
                {PCRE2_ALT_BSUX, "PCRE2_ALT_BSUX"}, {PCRE2_NEVER_UCP, "PCRE2_NEVER_UCP"}, {PCRE2_NEVER_UTF, "PCRE2_NEVER_UTF"},
                {PCRE2_NO_UTF_CHECK, "PCRE2_NO_UTF_CHECK"}, {PCRE2_LITERAL, "PCRE2_LITERAL"}, {PCRE2_ALLOW_EMPTY_CLASS, "PCRE2_ALLOW_EMPTY_CLASS"},
                {PCRE2_MATCH_UNSET_BACKREF, "PCRE2_MATCH_UNSET_BACKREF"}, {PCRE2_FIRSTLINE, "PCRE2_FIRSTLINE"}, {PCRE2_DUPNAMES, "PCRE2_DUPNAMES"},
            };
            const char *names[32]; size_t k = 0; uint32_t rest = vh_opts;

            for (size_t i = 0; i < sizeof F / sizeof *F; ++i) if (vh_opts & F[i].v) { names[k++] = F[i].n; rest &= ~F[i].v; }
            qsort(names, k, sizeof *names, cmpstr);
            fprintf(stdout, "%s ok ", id);
            for (size_t i = 0; i < k; ++i) fprintf(stdout, "%s%s", i ? "," : "", names[i]);
            if (rest) fprintf(stdout, "%sOTHER_%x", k ? "," : "", rest);
            vp_end();
        } else if (!strcmp(op, "info")) {
            char ver[64];

            pcre2_config_8(PCRE2_CONFIG_VERSION, ver);
            for (char *q = ver; *q; ++q) if (*q == ' ') *q = '_';
            vp_reply(id, "ok %x %u %s", vh_opts, vh_newline, ver);
        } else if (!strcmp(op, "grid") && r.ntok >= 7) {
            size_t alen; char *p = vp_unhex(r.tok[3], NULL), *a = vp_unhex(r.tok[5], &alen);
            struct strset S;

            if (!p || !a) { vp_reply(id, "err BadHex"); free(p); free(a); continue; }
            strset_grid(&S, a, alen, (unsigned)atoi(r.tok[6]));
            run_routes(id, p, atoi(r.tok[4]), &S, r.ntok > 7 ? atoi(r.tok[7]) : 1, r.ntok > 8 ? atoi(r.tok[8]) : 0,
                    r.ntok > 9 ? atoi(r.tok[9]) : 0, r.ntok > 10 ? atoi(r.tok[10]) : 0);
            strset_free(&S); free(p); free(a);
        } else if (!strcmp(op, "matchn") && r.ntok >= 5) {
            char *p = vp_unhex(r.tok[3], NULL);
            struct strset S = {0};
            int bad = !p;

            for (int i = 5; i < r.ntok && !bad; ++i) {
                size_t n; char *s = vp_unhex(r.tok[i], &n);
                if (!s) { bad = 1; break; }
                strset_push(&S, s, n); free(s);
            }
            if (bad) vp_reply(id, "err BadHex");
            else run_routes(id, p, atoi(r.tok[4]), &S, 1, 8, 0, 0);      /* yangre on every 8th string */
            strset_free(&S); free(p);
        } else if (!strcmp(op, "rawgrid") && r.ntok == 7) {
            size_t alen; char *p = vp_unhex(r.tok[3], NULL), *a = vp_unhex(r.tok[5], &alen);
            struct strset S;

            if (!p || !a) { vp_reply(id, "err BadHex"); free(p); free(a); continue; }
            strset_grid(&S, a, alen, (unsigned)atoi(r.tok[6]));
            run_raw(id, p, atoi(r.tok[4]), &S);
            strset_free(&S); free(p); free(a);
        } else if (!strcmp(op, "rawn") && r.ntok >= 5) {
            char *p = vp_unhex(r.tok[3], NULL);
            struct strset S = {0};
            int bad = !p;

            for (int i = 5; i < r.ntok && !bad; ++i) {
                size_t n; char *s = vp_unhex(r.tok[i], &n);
                if (!s) { bad = 1; break; }
                strset_push(&S, s, n); free(s);
            }
            if (bad) vp_reply(id, "err BadHex");
            else run_raw(id, p, atoi(r.tok[4]), &S);
            strset_free(&S); free(p);
        } else if (!strcmp(op, "leak")) {
            vp_reply(id, "ok %d", VP_LEAKCHECK() ? 1 : 0);
        } else {
            vp_reply(id, "err BadOp");
        }
    }
    if (xp_node) lyd_free_all(xp_node);
    ly_ctx_destroy(ctx);
    free(vh_text);
    free(r.line);
    return 0;
}
