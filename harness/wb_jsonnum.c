/* White-box harness for the JSON number lexer (component `lex`, property C05 / C01 json_number_value):
 *   jsonnum <hex>    lyjson_number (+ lyjson_exp_number)  -> ok <value-hex> <remaining-bytes> <dynamic> | err <Kind>
 * The input is placed in an exact-size heap block (ASan red zone right behind the NUL), the result buffer is the
 * library's own malloc(buf_len + 1): every out-of-bounds read or write of the composition is a sanitizer abort.
 * `lyjson_number` is static; this TU includes json.c and is linked before libyang.a. */
#define _GNU_SOURCE
#include "json.c"
#include "proto.h"

static struct ly_ctx *ctx;

static const char *
errkind(void)
{
    const struct ly_err_item *e = ly_err_last(ctx);
    const char *m = e ? e->msg : "";

#define PFX(p) (!strncmp(m, p, strlen(p)))
    if (!e) return "NoErrRecord";
    if (PFX("Invalid character in JSON Number value")) return "InvChar";
    if (!strcmp(m, "Unexpected end-of-input.")) return "Eof";
    if (PFX("JSON number is too long")) return "TooLong";
    if (PFX("Exponent out-of-bounds")) return "ExpRange";
    if (PFX("Number encoded as a string exceeded the LY_NUMBER_MAXLEN")) return "MaxLen";
#undef PFX
    return "Other";
}

int
main(void)
{
    struct vp_req r = {0};

    ly_log_options(LY_LOSTORE_LAST);
    if (ly_ctx_new(NULL, 0, &ctx)) return 2;

    while (vp_next(&r)) {
        const char *id = r.tok[0], *op = r.ntok > 2 ? r.tok[2] : "";

        if (r.ntok < 3) { vp_reply(r.ntok ? id : "?", "err BadLine"); continue; }
        ly_err_clean(ctx, NULL);

        if (!strcmp(op, "jsonnum") && r.ntok == 4) {
            size_t n; char *s = vp_unhex(r.tok[3], &n);
            struct ly_in *in; struct lyjson_ctx j;
            LY_ERR rc;

            if (!s) { vp_reply(id, "err BadHex"); continue; }
            memset(&j, 0, sizeof j);
            ly_in_new_memory(s, &in);
            j.ctx = ctx; j.in = in;
            rc = lyjson_number(&j);
            if (rc == LY_SUCCESS) {
                vp_begin(id, "ok"); vp_field_hex(j.value, j.value_len); vp_field_u(n - (size_t)(in->current - s));
                vp_field_u(j.dynamic ? 1 : 0); vp_end();
                if (j.dynamic) free((char *)j.value);
            } else {
                /* value or error, never both */
                if (j.dynamic || j.value) vp_reply(id, "err ValueAndError");
                else vp_reply(id, "err %s", errkind());
            }
            ly_in_free(in, 0); free(s);
        } else if (!strcmp(op, "leakcheck")) {
            vp_reply(id, VP_LEAKCHECK() ? "err Leak" : "ok");
        } else {
            vp_reply(id, "err BadOp");
        }
    }
    free(r.line);
    ly_ctx_destroy(ctx);
    return 0;
}
