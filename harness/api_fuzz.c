/* API harness of property C05 (component `fuzz`): every public entry point that takes bytes, driven on a persistent
 * pair of contexts under ASan+UBSan.  Public API only (libyang.h).
 *
 *   schema  <yang|yin> <hex>                       lys_parse_mem into the schema context S
 *   data    <xml|json> <popts-hex> <vopts-hex> <hex>   lyd_parse_data_mem in the data context C
 *   op      <xml|json> <type> <parent> <hex>       lyd_parse_op  (type = enum lyd_type number, parent: 0 none, 1 rpc r, 2 action act)
 *   xpath   <find|find1|eval|eval1|sfind|satoms> <hex>  lyd_find_xpath / lyd_eval_xpath4 / lys_find_xpath / lys_find_xpath_atoms
 *   path    <find|new|newo|sfind|satoms> <hex> [<value-hex>]  lyd_find_path / lyd_new_path / lys_find_path / lys_find_path_atoms
 *   value   <leaf> <opts-hex> <hex>                lyd_value_validate + lyd_new_term on leaf /fz:t/<leaf>
 *   pattern <hex> [<string-hex>]                   ly_pattern_compile + ly_pattern_match
 *   opaq    <xml|json> <hex>                       value of an opaque node (lexer outcome): doc = prefix + bytes + suffix
 *   health                                        context-health battery in both contexts
 *   leakcheck                                     VP_LEAKCHECK()
 *   ctxreset                                      destroy both contexts, count "not freed" warnings, re-create
 *
 * Replies:  ok [<detail>]  |  err <LY_ERR name> <has-error-record>  |  err Health <what> | err OutParam <what>
 * After every failing call the out-parameters are checked to be NULL, and (sampled, and on every error message
 * shape seen for the first time) the health battery is run: a fixed set of valid loads / parses / prints /
 * searches whose digest must equal the one taken at start-up in the pristine context.
 * A request that uses more than VERIF_FUZZ_CPU (default 10) seconds of CPU time kills the process with the
 * marker `VERIF-TIMEOUT` on stderr (the orchestrator records the unanswered request). */
#define _GNU_SOURCE
#include <signal.h>
#include <sys/time.h>
#include <unistd.h>
#include <ctype.h>
#include "libyang.h"
#include "proto.h"

static struct ly_ctx *C, *S;
static const struct lys_module *fzmod;
static struct lyd_node *tree;
static uint64_t healthC0, healthC0l, healthS0, healthS0l;
static unsigned long nreq, s_loaded, s_generation;
static unsigned cpu_limit = 10, health_every_c = 16, health_every_s = 256;
static unsigned long nfail_c, nfail_s;
static uint8_t seen_shapes[8192];
static const char *cur_id = "?";
static int nwarn_notfreed;

static const char *SCH_DEFS =
    "module defs {namespace urn:tests:defs;prefix d;yang-version 1.1;"
    "identity crypto-alg; identity interface-type; identity ethernet {base interface-type;}"
    "identity fast-ethernet {base ethernet;}}";
static const char *SCH_TYPES =
    "module types {namespace urn:tests:types;prefix t;yang-version 1.1; import defs {prefix defs;}"
    "feature f; identity gigabit-ethernet { base defs:ethernet;}"
    "container cont {leaf leaftarget {type empty;}"
    "list listtarget {key id; max-elements 5;leaf id {type uint8;} leaf value {type string;}}"
    "leaf-list leaflisttarget {type uint8; max-elements 5;}}"
    "list list {key id; leaf id {type string;} leaf value {type string;} leaf-list targets {type string;}}"
    "list list2 {key \"id value\"; leaf id {type string;} leaf value {type string;}}"
    "list list_inst {key id; leaf id {type instance-identifier {require-instance true;}} leaf value {type string;}}"
    "list list_ident {key id; leaf id {type identityref {base defs:interface-type;}} leaf value {type string;}}"
    "leaf-list leaflisttarget {type string;}"
    "leaf binary {type binary {length 5 {error-message \"This base64 value must be of length 5.\";}}}"
    "leaf binary-norestr {type binary;}"
    "leaf int8 {type int8 {range 10..20;}}"
    "leaf uint8 {type uint8 {range 150..200;}}"
    "leaf int16 {type int16 {range -20..-10;}}"
    "leaf uint16 {type uint16 {range 150..200;}}"
    "leaf int32 {type int32;}"
    "leaf uint32 {type uint32;}"
    "leaf int64 {type int64;}"
    "leaf uint64 {type uint64;}"
    "leaf bits {type bits {bit zero; bit one {if-feature f;} bit two;}}"
    "leaf enums {type enumeration {enum white; enum yellow {if-feature f;}}}"
    "leaf dec64 {type decimal64 {fraction-digits 1; range 1.5..10;}}"
    "leaf dec64-norestr {type decimal64 {fraction-digits 18;}}"
    "leaf str {type string {length 8..10; pattern '[a-z ]*';}}"
    "leaf str-norestr {type string;}"
    "leaf str-utf8 {type string{length 2..5; pattern '\xe2\x82\xac*';}}"
    "leaf bool {type boolean;}"
    "leaf empty {type empty;}"
    "leaf ident {type identityref {base defs:interface-type;}}"
    "leaf inst {type instance-identifier {require-instance true;}}"
    "leaf inst-noreq {type instance-identifier {require-instance false;}}"
    "leaf lref {type leafref {path /leaflisttarget; require-instance true;}}"
    "leaf lref2 {type leafref {path \"../list[id = current()/../str-norestr]/targets\"; require-instance true;}}"
    "leaf un1 {type union {"
    "type leafref {path /int8; require-instance true;}"
    "type union { type identityref {base defs:interface-type;} type instance-identifier {require-instance true;} }"
    "type string {length 1..20;}}}}";

/* the harness' own schema: data shapes of every kind + one leaf of (nearly) every type under /fz:t */
static const char *SCH_FZ =
    "module fz {yang-version 1.1; namespace \"urn:fz\"; prefix fz;"
    " import ietf-inet-types {prefix inet;} import ietf-yang-types {prefix yang;} import ietf-yang-metadata {prefix md;}"
    " md:annotation hint {type string;} md:annotation num {type int8;}"
    " feature f1; feature f2 {if-feature \"f1\";}"
    " identity base-id; identity id1 {base base-id;} identity id2 {base id1;} identity other;"
    " typedef pct {type uint8 {range \"0..100\";}}"
    " container c {"
    "  leaf y {type string;} leaf-list ll {type string;} leaf-list ul {type uint8; ordered-by user;}"
    "  list l {key \"k k2\"; leaf k {type string;} leaf k2 {type uint8;} leaf v {type string;}"
    "   action act {input {leaf p {type string;}} output {leaf q {type string;}}}"
    "   notification ln {leaf z {type string;}}}"
    "  list ol {key k; ordered-by user; leaf k {type string;} leaf v {type string;}}"
    "  list kl {config false; leaf z {type string;}}"
    "  leaf ii {type instance-identifier {require-instance false;}}"
    "  leaf u {type union {type uint8; type enumeration {enum e;} type string {length 1..2;}}}"
    "  leaf lr {type leafref {path \"../l/k\";}}"
    "  leaf wn {when \"../y = 'a'\"; type string;}"
    "  leaf mu {must \". != ../y\"; type string;}"
    "  choice ch {case a {leaf ca {type string;}} case b {leaf cb {type string;} leaf cb2 {type string; default \"d\";}}}"
    "  container pc {presence \"p\"; leaf m {type string; mandatory true;}}"
    "  leaf dfl {type pct; default \"7\";}"
    "  anydata any; anyxml axml;"
    " }"
    " container t {"
    "  leaf i8 {type int8;} leaf i16 {type int16;} leaf i32 {type int32 {range \"-1000..-1 | 5 | 100..max\";}} leaf i64 {type int64;}"
    "  leaf u8 {type uint8;} leaf u16 {type uint16;} leaf u32 {type uint32;} leaf u64 {type uint64;}"
    "  leaf d1 {type decimal64 {fraction-digits 1;}} leaf d2 {type decimal64 {fraction-digits 2; range \"-5.5..10 | 20.25\";}}"
    "  leaf d18 {type decimal64 {fraction-digits 18;}}"
    "  leaf s {type string;} leaf sl {type string {length \"2..5 | 10\";}}"
    "  leaf sp {type string {pattern '[a-z]+'; pattern 'x.*' {modifier invert-match;}}}"
    "  leaf b {type boolean;} leaf e {type enumeration {enum one; enum two {value 20;} enum \"with space\";}}"
    "  leaf bi {type bits {bit a; bit b {position 5;} bit cc;}} leaf bn {type binary {length \"0..6\";}} leaf em {type empty;}"
    "  leaf ir {type identityref {base base-id;}} leaf iid {type instance-identifier;} leaf iidn {type instance-identifier {require-instance false;}}"
    "  leaf lref {type leafref {path \"/c/l/k\";}} leaf lrefn {type leafref {path \"/c/ll\"; require-instance false;}}"
    "  leaf un {type union {type int8; type decimal64 {fraction-digits 3;} type bits {bit x; bit y;} type identityref {base base-id;}"
    "   type leafref {path \"/c/y\";} type boolean; type inet:ipv4-address; type string {length 30;}}}"
    "  leaf ip4 {type inet:ipv4-address;} leaf ip4nz {type inet:ipv4-address-no-zone;} leaf ip6 {type inet:ipv6-address;}"
    "  leaf ip6nz {type inet:ipv6-address-no-zone;} leaf ipp4 {type inet:ipv4-prefix;} leaf ipp6 {type inet:ipv6-prefix;}"
    "  leaf ip {type inet:ip-address;} leaf ipp {type inet:ip-prefix;} leaf host {type inet:host;} leaf uri {type inet:uri;}"
    "  leaf dom {type inet:domain-name;} leaf port {type inet:port-number;}"
    "  leaf dt {type yang:date-and-time;} leaf hs {type yang:hex-string;} leaf mac {type yang:mac-address;} leaf uuid {type yang:uuid;}"
    "  leaf xp {type yang:xpath1.0;} leaf oid {type yang:object-identifier;} leaf dpn {type yang:dotted-quad;} leaf tt {type yang:timeticks;}"
    "  leaf pc {type pct;}"
    " }"
    " rpc r {input {leaf i {type string;} leaf n {type int32;} container ic {leaf d {type string; default \"dd\";}}}"
    "  output {leaf o {type string;} list ol {key k; leaf k {type string;}}}}"
    " notification n1 {leaf sev {type enumeration {enum low; enum high;}} container info {leaf msg {type string;}}}"
    "}";

static const char *DOC_XML =
    "<c xmlns=\"urn:fz\"><y>a</y><ll>a</ll><ll>b</ll><ul>3</ul><ul>1</ul>"
    "<l><k>a</k><k2>1</k2><v>x</v></l><l><k>b</k><k2>2</k2></l><ol><k>z</k></ol><ol><k>a</k><v>&lt;&amp;</v></ol>"
    "<kl><z>1</z></kl><kl><z>2</z></kl><u>e</u><lr>a</lr><wn>w</wn><mu>m</mu><cb>q</cb></c>"
    "<t xmlns=\"urn:fz\"><i8>-5</i8><u64>18446744073709551615</u64><d2>20.25</d2><s>text</s><b>true</b><e>two</e><bi>a cc</bi>"
    "<bn>YWJj</bn><em/><ir>id2</ir><lref>b</lref><un>1.5</un><ip4>10.0.0.1</ip4><ip6>2001:db8::1</ip6><dt>2020-01-01T00:00:00Z</dt></t>";
static const char *DOC_JSON =
    "{\"fz:c\":{\"y\":\"b\",\"ll\":[\"q\",\"r\"],\"l\":[{\"k\":\"k1\",\"k2\":7,\"v\":\"v\",\"@v\":{\"fz:hint\":\"h\"}}],"
    "\"u\":3,\"pc\":{\"m\":\"mm\"},\"ca\":\"ca\",\"any\":{\"x\":[1,2.5e1,null]}},"
    "\"fz:t\":{\"i64\":\"-9223372036854775808\",\"d1\":\"0.5\",\"d18\":\"-9.223372036854775808\",\"e\":\"with space\",\"em\":[null],\"un\":\"x y\",\"hs\":\"0a:ff\"}}";

/* module of the schema-context battery */
static const char *SCH_HB =
    "module hbat {yang-version 1.1; namespace \"urn:hbat\"; prefix hb;"
    " feature fa; feature fb {if-feature \"fa\";}"
    " typedef t1 {type int32 {range \"1..10 | 20..30\";}} typedef t2 {type t1 {range \"2..5 | 25\";}}"
    " identity i0; identity i1 {base i0;}"
    " grouping g {leaf gl {type t2; default \"3\";} leaf-list gll {type string {pattern '[0-9a-f]+'; length \"1..8\";}}}"
    " container a {uses g {refine gl {default \"4\";}} list li {key \"k\"; unique \"u1 n/u2\"; leaf k {type string;} leaf u1 {type string;}"
    "  container n {leaf u2 {type string;}} leaf r {type leafref {path \"../../li/k\";}} leaf w {when \"../u1 = 'x' or count(../../li) > 1\"; if-feature \"fa or not fb\"; type identityref {base i0;}}"
    "  leaf m {must \"string-length(.) < 5 and not(starts-with(., 'z'))\" {error-message \"mm\";} type string;}}}"
    " augment \"/hb:a\" {leaf aug {type bits {bit b0; bit b1;} default \"b1\";}}"
    " deviation \"/hb:a/hb:li/hb:u1\" {deviate add {default \"dv\";}}"
    "}";
static const char *DOC_HB = "<a xmlns=\"urn:hbat\"><gl>5</gl><gll>ab</gll><li><k>1</k><u1>x</u1><r>1</r><m>abc</m></li><li><k>2</k><n><u2>y</u2></n></li></a>";

/* ------------------------------------------------------------------------------------------------------------ */

static uint64_t fnv(uint64_t h, const void *p, size_t n) { const unsigned char *s = p; while (n--) { h ^= *s++; h *= 1099511628211ULL; } return h; }
static uint64_t fnvs(uint64_t h, const char *s) { return s ? fnv(h, s, strlen(s) + 1) : fnv(h, "\xff", 1); }
static uint64_t fnvu(uint64_t h, uint64_t v) { return fnv(h, &v, sizeof v); }

static const char *
errname(LY_ERR e)
{
    switch (e) {
    case LY_SUCCESS: return "SUCCESS"; case LY_EMEM: return "EMEM"; case LY_ESYS: return "ESYS"; case LY_EINVAL: return "EINVAL";
    case LY_EEXIST: return "EEXIST"; case LY_ENOTFOUND: return "ENOTFOUND"; case LY_EINT: return "EINT"; case LY_EVALID: return "EVALID";
    case LY_EDENIED: return "EDENIED"; case LY_EINCOMPLETE: return "EINCOMPLETE"; case LY_ERECOMPILE: return "ERECOMPILE";
    case LY_ENOT: return "ENOT"; case LY_EOTHER: return "EOTHER"; case LY_EPLUGIN: return "EPLUGIN";
    default: return "EUNKNOWN";
    }
}

/* is there an error-level record, and is its message shape (letters only) new? */
static unsigned last_shape;

static int
errrecord(const struct ly_ctx *ctx, int *newshape)
{
    const struct ly_err_item *e;
    int has = 0;

    last_shape = 0;
    if (newshape) *newshape = 0;
    for (e = ly_err_first(ctx); e; e = e->next) {
        if (e->level == LY_LLERR) {
            uint64_t h = 1469598103934665603ULL; const char *p; int inq = 0;
            has = 1;
            for (p = e->msg ? e->msg : ""; *p; p++) {
                if (*p == '"') { inq = !inq; continue; }
                if (!inq && isalpha((unsigned char)*p)) h = fnv(h, p, 1);
            }
            h = fnvu(h, e->err); h = fnvu(h, e->vecode);
            h %= sizeof seen_shapes * 8;
            last_shape = (unsigned)h;
            if (!(seen_shapes[h / 8] & (1 << (h % 8)))) { seen_shapes[h / 8] |= 1 << (h % 8); if (newshape) *newshape = 1; }
        }
    }
    return has;
}

#ifdef __has_feature
# if __has_feature(address_sanitizer)
void __asan_set_error_report_callback(void (*cb)(const char *));
/* the orchestrator keeps only the tail of stderr: repeat the error line and the top frames at the very end */
static void
asan_report(const char *rep)
{
    static char out[1600];
    size_t o = 0; int frames = 0; const char *p = strstr(rep, "ERROR: AddressSanitizer:"), *q;

    o += snprintf(out + o, sizeof out - o, "\nVERIF-ASAN ");
    if (p) { q = strchr(p, '\n'); o += snprintf(out + o, sizeof out - o, "%.*s |", (int)((q ? q : p + strlen(p)) - p > 160 ? 160 : (q ? q : p + strlen(p)) - p), p); }
    for (p = rep; (p = strstr(p, " in ")) && frames < 12 && o + 80 < sizeof out; ) {
        p += 4;
        for (q = p; *q && *q != ' ' && *q != '\n'; q++) {}
        if (q > p && (isalpha((unsigned char)*p) || *p == '_')) { o += snprintf(out + o, sizeof out - o, " %.*s", (int)(q - p > 60 ? 60 : q - p), p); frames++; }
        p = q;
        if (strstr(out, " main")) break;
    }
    o += snprintf(out + o, sizeof out - o, "\n");
    (void)!write(2, out, o);
}
#  define VP_ASAN_HOOK() __asan_set_error_report_callback(asan_report)
# endif
#endif
#ifndef VP_ASAN_HOOK
# define VP_ASAN_HOOK() ((void)0)
# define VP_HEAP_BYTES() ((size_t)0)
#else
size_t __sanitizer_get_current_allocated_bytes(void);
# define VP_HEAP_BYTES() __sanitizer_get_current_allocated_bytes()
#endif

static void
on_timeout(int sig)
{
    static const char m[] = "\nVERIF-TIMEOUT request exceeded the CPU limit\n";
    (void)sig;
    (void)!write(2, m, sizeof m - 1);
    _exit(77);
}

/* CPU-time limit, plus a wall-clock limit (6x) for a request that blocks without using the CPU */
static void
arm(unsigned sec)
{
    struct itimerval it = {{0, 0}, {sec, 0}}, wall = {{0, 0}, {6 * sec, 0}};
    setitimer(ITIMER_VIRTUAL, &it, NULL);
    setitimer(ITIMER_REAL, &wall, NULL);
}

static void
logcb(LY_LOG_LEVEL level, const char *msg, const char *data_path, const char *schema_path, uint64_t line)
{
    (void)level; (void)data_path; (void)schema_path; (void)line;
    if (msg && strstr(msg, "not freed")) nwarn_notfreed++;
}

static void
new_S(void)
{
    if (S) ly_ctx_destroy(S);
    S = NULL;
    if (ly_ctx_new(getenv("VERIF_FUZZ_SEARCHDIR"), LY_CTX_NO_YANGLIBRARY | LY_CTX_DISABLE_SEARCHDIR_CWD, &S)) { fprintf(stderr, "cannot create S\n"); exit(2); }
    s_loaded = 0;
    s_generation++;
}

static int
setup_C(void)
{
    struct lys_module *m = NULL;
    const char *feats[] = {"f1", NULL};

    if (ly_ctx_new(NULL, LY_CTX_DISABLE_SEARCHDIR_CWD, &C)) return 1;
    if (lys_parse_mem(C, SCH_DEFS, LYS_IN_YANG, NULL)) return 1;
    if (lys_parse_mem(C, SCH_TYPES, LYS_IN_YANG, NULL)) return 1;
    if (lys_parse_mem(C, SCH_FZ, LYS_IN_YANG, &m)) return 1;
    if (lys_set_implemented(m, feats)) return 1;
    fzmod = m;
    if (lyd_parse_data_mem(C, DOC_XML, LYD_XML, LYD_PARSE_STRICT, LYD_VALIDATE_PRESENT, &tree)) return 1;
    return 0;
}

/* ---- health batteries ---- */

static uint64_t
print_digest(uint64_t h, const struct lyd_node *t, LYD_FORMAT f, uint32_t opts)
{
    char *s = NULL;
    LY_ERR r = lyd_print_mem(&s, t, f, LYD_PRINT_WITHSIBLINGS | LYD_PRINT_SHRINK | opts);
    h = fnvu(h, r); h = fnvs(h, s);
    free(s);
    return h;
}

/* full = 0: the cheap part (run often); full = 1: everything */
static uint64_t
health_C(int full)
{
    uint64_t h = 1469598103934665603ULL;
    struct lyd_node *t = NULL, *n = NULL;
    struct ly_set *set = NULL;
    const char *canon = NULL;
    char *s = NULL;
    LY_ERR r;

    if (full) {
        r = lyd_parse_data_mem(C, DOC_XML, LYD_XML, LYD_PARSE_STRICT, LYD_VALIDATE_PRESENT, &t);
        h = fnvu(h, r); h = print_digest(h, t, LYD_JSON, LYD_PRINT_WD_ALL); lyd_free_all(t); t = NULL;
        r = lyd_parse_data_mem(C, DOC_JSON, LYD_JSON, LYD_PARSE_STRICT, LYD_VALIDATE_PRESENT, &t);
        h = fnvu(h, r); h = print_digest(h, t, LYD_XML, LYD_PRINT_WD_ALL_TAG); lyd_free_all(t); t = NULL;
    } else {
        r = lyd_parse_data_mem(C, "{\"fz:c\":{\"y\":\"a\",\"l\":[{\"k\":\"b\",\"k2\":2,\"v\":\"&\"}],\"wn\":\"w\"},\"fz:t\":{\"d2\":\"2.5\",\"ir\":\"fz:id2\"}}",
                LYD_JSON, LYD_PARSE_STRICT | LYD_PARSE_ONLY, 0, &t);
        h = fnvu(h, r); h = print_digest(h, t, LYD_XML, 0); lyd_free_all(t); t = NULL;
    }
    /* an invalid document must still be rejected */
    r = lyd_parse_data_mem(C, "<t xmlns=\"urn:fz\"><i8>128</i8></t>", LYD_XML, LYD_PARSE_STRICT, LYD_VALIDATE_PRESENT, &t);
    h = fnvu(h, r); h = fnvu(h, t != NULL); lyd_free_all(t); t = NULL;
    r = lyd_find_xpath(tree, "/fz:c/l[k='a']/v | //ll | /fz:t/*[. = 'true']", &set);
    h = fnvu(h, r); h = fnvu(h, set ? set->count : 99); ly_set_free(set, NULL); set = NULL;
    r = lys_find_xpath(C, NULL, "/fz:c//*", 0, &set);
    h = fnvu(h, r); h = fnvu(h, set ? set->count : 99); ly_set_free(set, NULL); set = NULL;
    r = lyd_new_path(NULL, C, "/fz:c/l[k='n'][k2='9']/v", "nv", 0, &n);
    h = fnvu(h, r); h = print_digest(h, n, LYD_XML, 0); lyd_free_all(n); n = NULL;
    r = lyd_value_validate(C, lys_find_path(C, NULL, "/fz:t/d2", 0), "+010.10", 7, NULL, NULL, &canon);
    h = fnvu(h, r); h = fnvs(h, canon); if (canon) lydict_remove(C, canon);
    if (full) {
        h = print_digest(h, tree, LYD_JSON, 0);
        r = lys_print_mem(&s, fzmod, LYS_OUT_YANG, 0);
        h = fnvu(h, r); h = fnvs(h, s); free(s);
    }
    h = fnvu(h, ly_ctx_get_change_count(C));
    ly_err_clean(C, NULL);
    return h;
}

/* cheap: the module set of S is what it was after the last successful load (nothing of a failed load stays behind) */
static uint64_t
health_S_light(void)
{
    uint64_t h = 1469598103934665603ULL;
    const struct lys_module *it;
    uint32_t idx = 0;
    unsigned long nzz = 0;

    while ((it = ly_ctx_get_module_iter(S, &idx))) {
        if (!strncmp(it->name, "zz", 2)) { nzz++; continue; }
        h = fnvs(h, it->name); h = fnvs(h, it->revision); h = fnvu(h, it->implemented);
    }
    h = fnvu(h, nzz - s_loaded);
    return h;
}

/* destroys S: loading the battery module changes the context */
static uint64_t
health_S(void)
{
    uint64_t h = 1469598103934665603ULL;
    struct lys_module *m = NULL;
    const struct lys_module *it;
    struct lyd_node *t = NULL;
    uint32_t idx = 0;
    char *s = NULL;
    LY_ERR r;
    const char *feats[] = {"fa", NULL};

    (void)it; (void)idx;
    h = fnvu(h, health_S_light());
    r = lys_parse_mem(S, SCH_HB, LYS_IN_YANG, &m);
    h = fnvu(h, r);
    if (m) {
        h = fnvu(h, lys_set_implemented(m, feats));
        r = lys_print_mem(&s, m, LYS_OUT_YANG_COMPILED, 0); h = fnvu(h, r); h = fnvs(h, s); free(s); s = NULL;
        r = lys_print_mem(&s, m, LYS_OUT_YIN, 0); h = fnvu(h, r); h = fnvs(h, s); free(s); s = NULL;
        r = lyd_parse_data_mem(S, DOC_HB, LYD_XML, LYD_PARSE_STRICT | LYD_PARSE_ONLY, 0, &t);
        h = fnvu(h, r);
        if (!r) { r = lyd_validate_module(&t, m, 0, NULL); h = fnvu(h, r); }
        h = print_digest(h, t, LYD_JSON, LYD_PRINT_WD_ALL);
        lyd_free_all(t);
    }
    new_S();
    return h;
}

/* after a failing call: returns NULL when healthy, else what differs */
static const char *
after_failure(int in_S, int newshape)
{
    if (in_S) {
        nfail_s++;
        if (health_S_light() != healthS0l) return "schema-context-modules";
        if (newshape || (health_every_s && !(nfail_s % health_every_s))) {
            if (health_S() != healthS0) return "schema-context";
        }
    } else {
        nfail_c++;
        if (newshape) {
            if (health_C(1) != healthC0) return "data-context";
        } else if (health_every_c && !(nfail_c % health_every_c)) {
            if (health_C(0) != healthC0l) return "data-context";
        }
    }
    return NULL;
}

static void
reply_rc(const char *id, struct ly_ctx *ctx, LY_ERR rc, const char *outparam_bad, const char *detail)
{
    int newshape = 0, has;
    const char *hb;

    if (rc == LY_SUCCESS) {
        if (detail) vp_reply(id, "ok %s", detail); else vp_reply(id, "ok");
        return;
    }
    has = errrecord(ctx, &newshape);
    if (outparam_bad) { vp_reply(id, "err OutParam %s %s", errname(rc), outparam_bad); return; }
    hb = after_failure(ctx == S, newshape);
    if (hb) { vp_reply(id, "err Health %s %s", hb, errname(rc)); return; }
    vp_reply(id, "err %s %d %x", errname(rc), has, last_shape);
}

static LYD_FORMAT fmt_of(const char *s) { return !strcmp(s, "json") ? LYD_JSON : LYD_XML; }

static void
hexfield(char *dst, size_t cap, const char *s, size_t n)
{
    size_t i;
    if (!n || !s) { snprintf(dst, cap, "-"); return; }
    for (i = 0; i < n && 2 * i + 3 < cap; i++) sprintf(dst + 2 * i, "%02x", (unsigned char)s[i]);
}

int
main(void)
{
    struct vp_req r = {0};
    const char *e;
    size_t heap0 = 0;
    unsigned long s_gen0 = 0;

    if ((e = getenv("VERIF_FUZZ_CPU"))) cpu_limit = atoi(e);
    if ((e = getenv("VERIF_FUZZ_HEALTH_C"))) health_every_c = atoi(e);
    if ((e = getenv("VERIF_FUZZ_HEALTH_S"))) health_every_s = atoi(e);
    signal(SIGVTALRM, on_timeout);
    signal(SIGALRM, on_timeout);
    VP_ASAN_HOOK();
    ly_log_options(LY_LOSTORE);
    if (setup_C()) { fprintf(stderr, "setup failed: %s\n", ly_err_last(C) ? ly_err_last(C)->msg : "?"); return 2; }
    new_S();
    healthC0 = health_C(1); healthC0l = health_C(0);
    if (health_C(1) != healthC0 || health_C(0) != healthC0l) { fprintf(stderr, "health_C not deterministic\n"); return 2; }
    healthS0l = health_S_light();
    healthS0 = health_S();
    if (health_S() != healthS0) { fprintf(stderr, "health_S not deterministic\n"); return 2; }

    while (vp_next(&r)) {
        const char *id = r.tok[0], *op = r.ntok > 2 ? r.tok[2] : "";

        if (r.ntok < 3) { vp_reply(r.ntok ? id : "?", "err BadLine"); continue; }
        cur_id = id;
        nreq++;
        ly_err_clean(C, NULL);
        ly_err_clean(S, NULL);
        heap0 = VP_HEAP_BYTES();
        s_gen0 = s_generation;
        arm(cpu_limit);

        if (!strcmp(op, "schema") && r.ntok == 5) {
            size_t n; char *s = vp_unhex(r.tok[4], &n); struct lys_module *m = NULL; LY_ERR rc;
            if (!s) { vp_reply(id, "err BadHex"); goto next; }
            rc = lys_parse_mem(S, s, !strcmp(r.tok[3], "yin") ? LYS_IN_YIN : LYS_IN_YANG, &m);
            if (rc == LY_SUCCESS) {
                int keep = m && !strncmp(m->name, "zz", 2) && s_loaded < 200;
                if (keep) s_loaded++;
                vp_reply(id, m ? "ok" : "err OutParam SUCCESS module-null");
                if (!keep) new_S();
            } else {
                reply_rc(id, S, rc, m ? "module" : NULL, NULL);
            }
            free(s);
        } else if (!strcmp(op, "data") && r.ntok == 7) {
            size_t n; char *s = vp_unhex(r.tok[6], &n); struct lyd_node *t = NULL; LY_ERR rc;
            uint32_t po = strtoul(r.tok[4], NULL, 16), vo = strtoul(r.tok[5], NULL, 16);
            if (!s) { vp_reply(id, "err BadHex"); goto next; }
            rc = lyd_parse_data_mem(C, s, fmt_of(r.tok[3]), po, vo, &t);
            if (rc == LY_SUCCESS) {
                /* the result must be a usable tree: print it in both text formats */
                char *o = NULL; LY_ERR r1, r2;
                r1 = lyd_print_mem(&o, t, LYD_XML, LYD_PRINT_WITHSIBLINGS | LYD_PRINT_SHRINK); free(o); o = NULL;
                r2 = lyd_print_mem(&o, t, LYD_JSON, LYD_PRINT_WITHSIBLINGS | LYD_PRINT_SHRINK); free(o);
                vp_reply(id, "ok %s%s", t ? "tree" : "empty", (r1 || r2) ? " print-failed" : "");
            } else {
                reply_rc(id, C, rc, t ? "tree" : NULL, NULL);
            }
            lyd_free_all(t); free(s);
        } else if (!strcmp(op, "op") && r.ntok == 7) {
            size_t n; char *s = vp_unhex(r.tok[6], &n); struct lyd_node *t = NULL, *o = NULL, *parent = NULL, *ptop = NULL; LY_ERR rc;
            int type = atoi(r.tok[4]), pk = atoi(r.tok[5]), envelope, need_parent; struct ly_in *in = NULL;
            if (!s) { vp_reply(id, "err BadHex"); goto next; }
            envelope = type >= LYD_TYPE_RPC_NETCONF;
            need_parent = (type == LYD_TYPE_REPLY_NETCONF) || (type == LYD_TYPE_RPC_RESTCONF) || (type == LYD_TYPE_REPLY_RESTCONF);
            if (need_parent || pk) {
                if (pk == 2) { lyd_new_path2(NULL, C, "/fz:c/l[k='a'][k2='1']/act", NULL, 0, 0, 0, &ptop, &parent); }
                else { lyd_new_path2(NULL, C, "/fz:r", NULL, 0, 0, 0, &ptop, &parent); }
            }
            ly_in_new_memory(s, &in);
            if (need_parent) rc = lyd_parse_op(C, parent, in, fmt_of(r.tok[3]), type, &t, NULL);
            else if (parent) rc = lyd_parse_op(C, parent, in, fmt_of(r.tok[3]), type, NULL, &o);
            else rc = lyd_parse_op(C, NULL, in, fmt_of(r.tok[3]), type, &t, &o);
            ly_in_free(in, 0);
            if (rc == LY_SUCCESS) {
                char *p = NULL; LY_ERR r1, r2;
                r1 = lyd_print_mem(&p, ptop ? ptop : t, LYD_JSON, LYD_PRINT_WITHSIBLINGS | LYD_PRINT_SHRINK); free(p); p = NULL;
                r2 = lyd_print_mem(&p, ptop ? ptop : t, LYD_XML, LYD_PRINT_WITHSIBLINGS | LYD_PRINT_SHRINK); free(p);
                vp_reply(id, "ok%s", (r1 || r2) ? " print-failed" : "");
            } else {
                const char *bad = NULL;
                if (o) bad = "op";
                else if (t && !envelope) bad = "tree";
                reply_rc(id, C, rc, bad, NULL);
            }
            if (envelope && o && !ptop) lyd_free_all(o);
            if (t && (!ptop || envelope)) lyd_free_all(t);
            lyd_free_all(ptop); free(s);
        } else if (!strcmp(op, "xpath") && r.ntok == 5) {
            size_t n; char *s = vp_unhex(r.tok[4], &n); struct ly_set *set = NULL; LY_ERR rc; const char *w = r.tok[3];
            const struct lyd_node *cn = tree; char detail[64] = "";
            if (!s) { vp_reply(id, "err BadHex"); goto next; }
            if (w[strlen(w) - 1] == '1') { struct lyd_node *m = NULL; lyd_find_path(tree, "/fz:c/l[k='a'][k2='1']/v", 0, &m); if (m) cn = m; }
            if (!strncmp(w, "find", 4)) {
                rc = lyd_find_xpath(cn, s, &set);
                if (!rc) snprintf(detail, sizeof detail, "set %u", set ? set->count : 0);
            } else if (!strncmp(w, "eval", 4)) {
                struct lyxp_var *vars = NULL; LY_XPATH_TYPE ty = 0; char *str = NULL; long double num = 0; ly_bool b = 0;
                lyxp_vars_set(&vars, "v", "'a'"); lyxp_vars_set(&vars, "n", "3");
                rc = lyd_eval_xpath4(cn, tree, NULL, s, LY_VALUE_JSON, NULL, vars, &ty, &set, &str, &num, &b);
                if (!rc) snprintf(detail, sizeof detail, "type %d", (int)ty);
                else if (str) { reply_rc(id, C, rc, "string", NULL); free(str); lyxp_vars_free(vars); ly_set_free(set, NULL); free(s); goto next; }
                free(str); lyxp_vars_free(vars);
            } else if (!strcmp(w, "sfind")) {
                rc = lys_find_xpath(C, NULL, s, 0, &set);
                if (!rc) snprintf(detail, sizeof detail, "set %u", set ? set->count : 0);
            } else if (!strcmp(w, "satoms")) {
                rc = lys_find_xpath_atoms(C, lys_find_path(C, NULL, "/fz:c/l", 0), s, 0, &set);
                if (!rc) snprintf(detail, sizeof detail, "set %u", set ? set->count : 0);
            } else { vp_reply(id, "err BadOp"); free(s); goto next; }
            reply_rc(id, C, rc, (rc && set) ? "set" : NULL, detail);
            ly_set_free(set, NULL); free(s);
        } else if (!strcmp(op, "path") && (r.ntok == 5 || r.ntok == 6)) {
            size_t n, vn = 0; char *s = vp_unhex(r.tok[4], &n), *v = r.ntok == 6 ? vp_unhex(r.tok[5], &vn) : NULL; LY_ERR rc; const char *w = r.tok[3];
            const char *bad = NULL, *detail = NULL;
            if (!s || (r.ntok == 6 && !v)) { vp_reply(id, "err BadHex"); free(s); free(v); goto next; }
            if (!strcmp(w, "find")) {
                struct lyd_node *m = NULL;
                rc = lyd_find_path(tree, s, 0, &m);
                if (rc && rc != LY_EINCOMPLETE && m) bad = "match";
            } else if (!strcmp(w, "new") || !strcmp(w, "newo")) {
                struct lyd_node *t = NULL;
                rc = lyd_new_path(NULL, C, s, v ? v : "1", !strcmp(w, "newo") ? (LYD_NEW_PATH_OPAQ | LYD_NEW_VAL_OUTPUT) : 0, &t);
                if (rc && t) bad = "node";
                if (!rc) {
                    char *p = NULL; LY_ERR r1, r2;
                    r1 = lyd_print_mem(&p, t, LYD_JSON, LYD_PRINT_WITHSIBLINGS | LYD_PRINT_SHRINK); free(p); p = NULL;
                    r2 = lyd_print_mem(&p, t, LYD_XML, LYD_PRINT_WITHSIBLINGS | LYD_PRINT_SHRINK); free(p);
                    if (r1 || r2) detail = "print-failed";
                }
                lyd_free_all(t);
            } else if (!strcmp(w, "sfind")) {
                const struct lysc_node *sn = lys_find_path(C, NULL, s, 0);
                rc = sn ? LY_SUCCESS : LY_ENOTFOUND;
            } else if (!strcmp(w, "satoms")) {
                struct ly_set *set = NULL;
                rc = lys_find_path_atoms(C, NULL, s, 0, &set);
                if (rc && set) bad = "set";
                ly_set_free(set, NULL);
            } else { vp_reply(id, "err BadOp"); free(s); free(v); goto next; }
            reply_rc(id, C, rc, bad, detail);
            free(s); free(v);
        } else if (!strcmp(op, "value") && r.ntok == 6) {
            size_t n; char *s = vp_unhex(r.tok[5], &n), path[128], hx[512] = "-"; const struct lysc_node *sn; LY_ERR rc, rc2; int pf = 0;
            uint32_t opts = strtoul(r.tok[4], NULL, 16); const char *canon = NULL; const struct lysc_type *rt = NULL; struct lyd_node *par = NULL, *node = NULL;
            if (!s) { vp_reply(id, "err BadHex"); goto next; }
            snprintf(path, sizeof path, "/fz:t/%s", r.tok[3]);
            sn = lys_find_path(C, NULL, path, 0);
            if (!sn) { vp_reply(id, "err BadLeaf"); free(s); goto next; }
            rc = lyd_value_validate(C, sn, s, n, tree, &rt, &canon);
            if (rc != LY_SUCCESS && rc != LY_EINCOMPLETE && (canon || rt)) { reply_rc(id, C, rc, "canonical/realtype", NULL); free(s); goto next; }
            if (canon) { hexfield(hx, sizeof hx, canon, strlen(canon)); lydict_remove(C, canon); }
            ly_err_clean(C, NULL);
            lyd_new_inner(NULL, fzmod, "t", 0, &par);
            rc2 = lyd_new_term(par, NULL, r.tok[3], s, opts, &node);
            if (rc2 && node) { reply_rc(id, C, rc2, "node", NULL); lyd_free_all(par); free(s); goto next; }
            if (!rc2) { char *p = NULL; pf = lyd_print_mem(&p, par, LYD_JSON, LYD_PRINT_SHRINK); free(p); p = NULL; pf |= lyd_print_mem(&p, par, LYD_XML, LYD_PRINT_SHRINK); free(p); }
            lyd_free_all(par);
            if (rc2) reply_rc(id, C, rc2, NULL, NULL);
            else vp_reply(id, "ok %s %s%s", errname(rc), hx, pf ? " print-failed" : "");
            free(s);
        } else if (!strcmp(op, "pattern") && (r.ntok == 4 || r.ntok == 5)) {
            size_t n, sn = 0; char *s = vp_unhex(r.tok[3], &n), *str = r.ntok == 5 ? vp_unhex(r.tok[4], &sn) : NULL; pcre2_code *code = NULL; LY_ERR rc;
            if (!s) { vp_reply(id, "err BadHex"); free(str); goto next; }
            rc = ly_pattern_compile(C, s, &code);
            if (rc) {
                reply_rc(id, C, rc, code ? "code" : NULL, NULL);
            } else {
                LY_ERR m1 = ly_pattern_match(C, NULL, str ? str : "abc", str ? sn : 3, &code);
                LY_ERR m2 = ly_pattern_match(C, s, "", 0, NULL);
                vp_reply(id, "ok %s %s", errname(m1), errname(m2));
            }
            if (code) pcre2_code_free(code);
            free(s); free(str);
        } else if (!strcmp(op, "opaq") && r.ntok == 5) {
            /* lexer outcome through the API: the bytes become the value of an opaque node */
            size_t n; char *s = vp_unhex(r.tok[4], &n), *doc; struct lyd_node *t = NULL; LY_ERR rc; int json = !strcmp(r.tok[3], "json") || !strcmp(r.tok[3], "jsonstr");
            if (!s) { vp_reply(id, "err BadHex"); goto next; }
            doc = malloc(n + 64);
            if (!strcmp(r.tok[3], "json")) sprintf(doc, "{\"fz:nx\":%s}", s);
            else if (!strcmp(r.tok[3], "jsonstr")) sprintf(doc, "{\"fz:nx\":\"%s\"}", s);
            else sprintf(doc, "<nx xmlns=\"urn:fz\">%s</nx>", s);
            rc = lyd_parse_data_mem(C, doc, json ? LYD_JSON : LYD_XML, LYD_PARSE_ONLY | LYD_PARSE_OPAQ, 0, &t);
            if (rc == LY_SUCCESS && t && !t->schema) {
                const char *v = ((struct lyd_node_opaq *)t)->value;
                vp_begin(id, "ok"); vp_field_hex(v, v ? strlen(v) : 0); vp_field_u(lyd_child(t) ? 1 : 0); vp_end();
            } else if (rc == LY_SUCCESS) {
                vp_reply(id, "ok - 2");
            } else {
                reply_rc(id, C, rc, t ? "tree" : NULL, NULL);
            }
            lyd_free_all(t); free(doc); free(s);
        } else if (!strcmp(op, "convert") && r.ntok == 5) {
            /* generator helper (not a fuzzed entry point): a valid YANG module printed as YIN, or the reverse */
            size_t n; char *s = vp_unhex(r.tok[4], &n), *o = NULL; struct lys_module *m = NULL; int toyin = !strcmp(r.tok[3], "yin");
            if (s && !lys_parse_mem(S, s, toyin ? LYS_IN_YANG : LYS_IN_YIN, &m) && !lys_print_mem(&o, m, toyin ? LYS_OUT_YIN : LYS_OUT_YANG, 0) && o) {
                vp_begin(id, "ok"); vp_field_hex(o, strlen(o)); vp_end();
            } else vp_reply(id, "err NoConvert");
            free(o); free(s); new_S();
        } else if (!strcmp(op, "health")) {
            uint64_t a = health_C(1), b = health_S();
            if (a != healthC0) vp_reply(id, "err Health data-context");
            else if (b != healthS0) vp_reply(id, "err Health schema-context");
            else vp_reply(id, "ok %lu %lu", nfail_c, nfail_s);
        } else if (!strcmp(op, "leakcheck")) {
            arm(0);
            vp_reply(id, VP_LEAKCHECK() ? "err Leak" : "ok");
        } else if (!strcmp(op, "ctxreset")) {
            /* dictionary / context leaks show as "not freed" warnings of ly_ctx_destroy */
            nwarn_notfreed = 0;
            ly_log_options(LY_LOLOG | LY_LOSTORE);
            ly_set_log_clb(logcb);
            lyd_free_all(tree); tree = NULL;
            ly_ctx_destroy(C); C = NULL;
            ly_ctx_destroy(S); S = NULL;
            ly_log_options(LY_LOSTORE);
            if (setup_C()) { vp_reply(id, "err Health setup"); return 2; }
            new_S();
            if (nwarn_notfreed) vp_reply(id, "err NotFreed %d", nwarn_notfreed);
            else if (health_C(1) != healthC0) vp_reply(id, "err Health data-context-after-reset");
            else vp_reply(id, "ok");
        } else {
            vp_reply(id, "err BadOp");
        }
next:
        arm(0);
        /* live heap bytes grew over a request that left nothing behind on purpose: a leak candidate (the orchestrator
         * confirms candidates with LeakSanitizer); requests that re-created S are not comparable */
        if (s_gen0 == s_generation && strcmp(op, "ctxreset") && strcmp(op, "leakcheck")) {
            size_t heap1;
            ly_err_clean(C, NULL);
            ly_err_clean(S, NULL);
            heap1 = VP_HEAP_BYTES();
            if (heap1 > heap0) { fprintf(stdout, "%sm ok %zu\n", id, heap1 - heap0); fflush(stdout); }
        }
    }
    free(r.line);
    lyd_free_all(tree);
    ly_ctx_destroy(C);
    ly_ctx_destroy(S);
    return 0;
}
