/* White-box harness of component `conc` (C16): deterministic replay of schedules on the real log.c / dict.c.
 *
 *   errsched <N> <prog_0> … <prog_N-1> <schedule>
 *       prog_i   calls of thread i joined by '.':  L<e> (log error e: ly_log -> log_store), F (ly_err_first and walk
 *                the list), C (ly_err_clean(ctx, NULL));  '-' = no call
 *       schedule thread indices joined by '.', one per *model step*: L = getRec, newRecIfNull, store; F = getRec, read;
 *                C = getRec, clean.  Must be a complete interleaving, otherwise `err BadSched`.
 *       -> ok <generation> <records> <obs>*      obs = <thread>/<owner|->/<e1.e2…|->   in order of completion
 *     The N threads are real pthreads (so `pthread_self()` and the thread-local logger state are the real ones) that
 *     run strictly one at a time: log.c is compiled with `pthread_mutex_unlock` routed through vp_unlock(), which hands
 *     the baton back to the scheduler after the real unlock — i.e. exactly at the end of the locked sections of
 *     ly_err_get_rec()/ly_err_new_rec(), the points at which the model switches threads.  A schedule in which a thread
 *     dereferences its record pointer after another thread's insert replaced the record array (F8) makes the *library's
 *     own* code read freed memory: ASan aborts the harness, which is the expected reply for such a schedule.
 *
 *   dictsched <op>*      op = i<t>:<hex> | r<t>:<hex> | d<t>:<hex>   (insert / remove / dup by the dictionary's pointer)
 *       -> ok <rets> <refs>    rets: P (pointer of the string) | S | N (ENOTFOUND) joined by '.';
 *                              refs: final reference counts of the distinct strings in order of first appearance
 *     Dictionary operations are single locked sections (Props.C16.lock_discipline), so replaying them in schedule order
 *     on one thread is the interleaving.
 *   leakcheck -> ok <0|1>
 */
#define _GNU_SOURCE
#include <pthread.h>
#include <semaphore.h>
#include <time.h>
#include <unistd.h>

static int vp_unlock(pthread_mutex_t *m);
static int (*vp_real_unlock)(pthread_mutex_t *) = pthread_mutex_unlock;
#define pthread_mutex_unlock(m) vp_unlock(m)
#include "log.c"
#undef pthread_mutex_unlock
#include "dict.c"
#include "proto.h"

#define MAXT 64
#define MAXCALLS 64

static struct ly_ctx *ctx;
static sem_t go[MAXT], back;
static __thread int vp_me = -1;
static __thread int vp_yield_on;
static volatile int vp_abort;           /* scheduler and workers lost step: let the workers run free and finish */
static volatile int vp_done[MAXT];

struct call { char kind; int e; };
struct thr {
    pthread_t tid;
    int idx, ncalls;
    struct call calls[MAXCALLS];
};
static struct thr thr[MAXT];

/* observations, appended while holding the baton */
static char obsbuf[1 << 16];
static size_t obslen;

static void
vp_yield(void)
{
    if (vp_abort) {
        return;
    }
    sem_post(&back);
    sem_wait(&go[vp_me]);
}

/* wait for the running worker to hand the baton back; 0 = it did not within 5 s */
static int
vp_wait_back(void)
{
    struct timespec ts;

    clock_gettime(CLOCK_REALTIME, &ts);
    ts.tv_sec += 5;
    return sem_timedwait(&back, &ts) == 0;
}

static int
vp_unlock(pthread_mutex_t *m)
{
    int r = vp_real_unlock(m);

    if ((vp_me >= 0) && vp_yield_on) {
        vp_yield();
    }
    return r;
}

static void
observe(int me, const struct ly_err_item *first)
{
    const struct ly_err_item *e;
    int owner = -1, mixed = 0, n = 0;
    char errs[4096];
    size_t el = 0;

    errs[0] = 0;
    for (e = first; e; e = e->next) {
        int t = -1, v = -1;

        if (e->msg) sscanf(e->msg, "E %d %d", &t, &v);
        if (owner == -1) owner = t; else if (owner != t) mixed = 1;
        el += snprintf(errs + el, sizeof errs - el, "%s%d", n ? "." : "", v);
        n++;
    }
    if (!n) {
        obslen += snprintf(obsbuf + obslen, sizeof obsbuf - obslen, " %d/-/-", me);
    } else if (mixed) {
        obslen += snprintf(obsbuf + obslen, sizeof obsbuf - obslen, " %d/mixed/%s", me, errs);
    } else {
        obslen += snprintf(obsbuf + obslen, sizeof obsbuf - obslen, " %d/%d/%s", me, owner, errs);
    }
}

static void *
worker(void *arg)
{
    struct thr *t = arg;
    int i;

    vp_me = t->idx;
    sem_wait(&go[vp_me]);
    for (i = 0; i < t->ncalls; i++) {
        struct call *c = &t->calls[i];

        vp_yield_on = 1;
        if (c->kind == 'L') {
            ly_log(ctx, LY_LLERR, LY_EOTHER, "E %d %d", t->idx, c->e);
            vp_yield_on = 0;
        } else if (c->kind == 'F') {
            const struct ly_err_item *first = ly_err_first(ctx);

            vp_yield_on = 0;
            observe(t->idx, first);
        } else {
            ly_err_clean(ctx, NULL);
            vp_yield_on = 0;
        }
        if (i + 1 < t->ncalls) {
            vp_yield();
        }
    }
    vp_done[t->idx] = 1;
    sem_post(&back);
    return NULL;
}

static int
parse_prog(const char *s, struct thr *t)
{
    t->ncalls = 0;
    if (!strcmp(s, "-")) return 0;
    while (*s) {
        struct call *c;

        if (t->ncalls == MAXCALLS) return -1;
        c = &t->calls[t->ncalls++];
        c->kind = *s++;
        c->e = 0;
        if (c->kind == 'L') {
            if (*s < '0' || *s > '9') return -1;
            c->e = (int)strtol(s, (char **)&s, 10);
        } else if ((c->kind != 'F') && (c->kind != 'C')) {
            return -1;
        }
        if (*s == '.') s++; else if (*s) return -1;
    }
    return 0;
}

static int
steps_of(char kind)
{
    return kind == 'L' ? 3 : 2;
}

static void
op_errsched(struct vp_req *r)
{
    const char *id = r->tok[0];
    int n, i, sched[4096], ns = 0, total = 0;
    int pos_call[MAXT] = {0}, pos_step[MAXT] = {0}, has_rec[MAXT] = {0}, started[MAXT] = {0};
    const char *p;
    uint32_t gen = 0, sz;

    if (r->ntok < 5) { vp_reply(id, "err BadArgs"); return; }
    n = atoi(r->tok[3]);
    if ((n < 1) || (n > MAXT) || (r->ntok != 5 + n)) { vp_reply(id, "err BadArgs"); return; }
    for (i = 0; i < n; i++) {
        thr[i].idx = i;
        if (parse_prog(r->tok[4 + i], &thr[i])) { vp_reply(id, "err BadArgs"); return; }
        for (int k = 0; k < thr[i].ncalls; k++) total += steps_of(thr[i].calls[k].kind);
    }
    p = r->tok[4 + n];
    if (strcmp(p, "-")) {
        while (*p) {
            if (ns == 4096) { vp_reply(id, "err BadArgs"); return; }
            sched[ns++] = (int)strtol(p, (char **)&p, 10);
            if (*p == '.') p++; else if (*p) { vp_reply(id, "err BadArgs"); return; }
        }
    }
    /* validate before starting anything: complete interleaving */
    {
        int cnt[MAXT] = {0}, need;

        for (i = 0; i < ns; i++) {
            if ((sched[i] < 0) || (sched[i] >= n)) { vp_reply(id, "err BadSched"); return; }
            cnt[sched[i]]++;
        }
        for (i = 0; i < n; i++) {
            need = 0;
            for (int k = 0; k < thr[i].ncalls; k++) need += steps_of(thr[i].calls[k].kind);
            if (cnt[i] != need) { vp_reply(id, "err BadSched"); return; }
        }
    }

    if (ly_ctx_new(NULL, 0, &ctx)) { vp_reply(id, "err Ctx"); return; }
    obslen = 0; obsbuf[0] = 0;
    vp_abort = 0;
    sem_init(&back, 0, 0);
    for (i = 0; i < n; i++) {
        vp_done[i] = 0;
        sem_init(&go[i], 0, 0);
        pthread_create(&thr[i].tid, NULL, worker, &thr[i]);
    }
    for (i = 0; (i < ns) && !vp_abort; i++) {
        int t = sched[i];
        char kind = thr[t].calls[pos_call[t]].kind;
        int step = pos_step[t];

        /* model step `newRecIfNull` of a thread that has a record is a no-op: no locked section is entered */
        if (!((kind == 'L') && (step == 1) && has_rec[t])) {
            if (vp_done[t]) { vp_abort = 1; break; }        /* the code entered fewer locked sections than the model has steps */
            sem_post(&go[t]);
            if (!vp_wait_back()) { vp_abort = 1; break; }   /* the worker is blocked (lost unlock?) */
            started[t] = 1;
            if ((kind == 'L') && (step == 1)) has_rec[t] = 1;
        }
        if (++pos_step[t] == steps_of(kind)) {
            pos_step[t] = 0;
            pos_call[t]++;
        }
    }
    for (i = 0; (i < n) && !vp_abort; i++) {
        if (!started[i]) {      /* thread without calls: let it finish */
            sem_post(&go[i]);
            if (!vp_wait_back()) vp_abort = 1;
        }
        if (!vp_done[i]) vp_abort = 1;                       /* … or more locked sections than steps */
    }
    if (vp_abort) {
        /* the schedule cannot be replayed step by step on this code: release everybody, report, start afresh */
        struct timespec ts;

        for (i = 0; i < n; i++) { sem_post(&go[i]); sem_post(&go[i]); sem_post(&go[i]); sem_post(&go[i]); }
        clock_gettime(CLOCK_REALTIME, &ts);
        ts.tv_sec += 5;
        for (i = 0; i < n; i++) {
            if (pthread_timedjoin_np(thr[i].tid, NULL, &ts)) { vp_reply(id, "err Desync"); _exit(0); }
        }
        vp_reply(id, "err Desync");
        for (i = 0; i < n; i++) sem_destroy(&go[i]);
        sem_destroy(&back);
        ly_ctx_destroy(ctx);
        ctx = NULL;
        return;
    }
    for (i = 0; i < n; i++) {
        pthread_join(thr[i].tid, NULL);
        sem_destroy(&go[i]);
    }
    sem_destroy(&back);
    for (sz = ctx->err_ht->size; sz > LYHT_MIN_SIZE; sz >>= 1) gen++;
    fprintf(stdout, "%s ok %u %u%s\n", id, gen, ctx->err_ht->used, obsbuf);
    fflush(stdout);
    ly_ctx_destroy(ctx);
    ctx = NULL;
}

/* reference count of a string in the dictionary (0 = absent) */
static uint32_t
vp_refcount(const struct ly_ctx *c, const char *s)
{
    struct ly_dict_rec rec, *match = NULL;
    size_t len = strlen(s);
    uint32_t rc = 0;

    rec.value = (char *)s;
    rec.refcount = 0;
    pthread_mutex_lock((pthread_mutex_t *)&c->dict.lock);
    lyht_set_cb_data(c->dict.hash_tab, (void *)&len);
    if (!lyht_find(c->dict.hash_tab, &rec, lyht_hash(s, len), (void **)&match) && match) {
        rc = match->refcount;
    }
    pthread_mutex_unlock((pthread_mutex_t *)&c->dict.lock);
    return rc;
}

static void
op_dictsched(struct vp_req *r)
{
    const char *id = r->tok[0];
    char *strs[VP_MAXTOK] = {0};
    const char *ptrs[VP_MAXTOK] = {0};
    int held[VP_MAXTOK] = {0};
    int nstr = 0, i, k;
    char rets[VP_MAXTOK * 8];
    size_t rl = 0;

    if (ly_ctx_new(NULL, 0, &ctx)) { vp_reply(id, "err Ctx"); return; }
    rets[0] = 0;
    for (i = 3; i < r->ntok; i++) {
        char kind = r->tok[i][0];
        const char *colon = strchr(r->tok[i], ':');
        char *s;
        const char *out = NULL;
        LY_ERR rc;

        if (!colon || !(s = vp_unhex(colon + 1, NULL))) { rl += snprintf(rets + rl, sizeof rets - rl, "%sBad", rl ? "." : ""); continue; }
        for (k = 0; k < nstr; k++) if (!strcmp(strs[k], s)) break;
        if (k == nstr) { strs[nstr++] = s; } else { free(s); s = strs[k]; }
        if (kind == 'i') {
            rc = lydict_insert(ctx, s, 0, &out);
            if (!rc && held[k] && (out != ptrs[k])) rl += snprintf(rets + rl, sizeof rets - rl, "%sPdiff", rl ? "." : "");
            else rl += snprintf(rets + rl, sizeof rets - rl, "%s%s", rl ? "." : "", rc ? "E" : "P");
            if (!rc) { ptrs[k] = out; held[k]++; }
        } else if (kind == 'r') {
            uint32_t lo = ly_log_options(0);

            /* by content, as lydict_remove() does */
            rc = lydict_remove(ctx, s);
            ly_log_options(lo);
            rl += snprintf(rets + rl, sizeof rets - rl, "%s%s", rl ? "." : "", !rc ? "S" : (rc == LY_ENOTFOUND ? "N" : "E"));
            if (!rc && held[k]) held[k]--;
        } else if (kind == 'd') {
            /* by the dictionary's pointer when we have one, else by a foreign pointer (never found) */
            rc = lydict_dup(ctx, held[k] ? ptrs[k] : s, &out);
            if (!rc && (out != ptrs[k])) rl += snprintf(rets + rl, sizeof rets - rl, "%sPdiff", rl ? "." : "");
            else rl += snprintf(rets + rl, sizeof rets - rl, "%s%s", rl ? "." : "", !rc ? "P" : (rc == LY_ENOTFOUND ? "N" : "E"));
            if (!rc) held[k]++;
        } else {
            rl += snprintf(rets + rl, sizeof rets - rl, "%sBad", rl ? "." : "");
        }
    }
    fprintf(stdout, "%s ok %s ", id, rl ? rets : "-");
    if (!nstr) fputc('-', stdout);
    for (k = 0; k < nstr; k++) {
        fprintf(stdout, "%s%u", k ? "." : "", vp_refcount(ctx, strs[k]));
    }
    fputc('\n', stdout);
    fflush(stdout);
    /* release what is still held so that the context is destroyed clean */
    for (k = 0; k < nstr; k++) {
        while (held[k]-- > 0) lydict_remove(ctx, strs[k]);
        free(strs[k]);
    }
    ly_ctx_destroy(ctx);
    ctx = NULL;
}

int
main(void)
{
    struct vp_req r = {0};

    ly_log_options(LY_LOSTORE);
    while (vp_next(&r)) {
        const char *id = r.tok[0], *op = r.ntok > 2 ? r.tok[2] : "";

        if (r.ntok < 3) { vp_reply(r.ntok ? id : "?", "err BadLine"); continue; }
        if (!strcmp(op, "errsched")) {
            op_errsched(&r);
        } else if (!strcmp(op, "dictsched")) {
            op_dictsched(&r);
        } else if (!strcmp(op, "leakcheck")) {
            vp_reply(id, "ok %d", VP_LEAKCHECK() ? 1 : 0);
        } else {
            vp_reply(id, "err BadOp");
        }
    }
    free(r.line);
    return 0;
}
