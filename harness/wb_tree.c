/* C04 / component `sib`: the same edit scripts as api_tree.c, plus white-box walks after every op:
 * the records of every `children_ht` against the from-scratch expectation (every child under its hash, first-instance
 * records, no stale record), `node->hash` against a fresh `lyd_hash`, and the `lyds_tree` metadata / red-black tree of
 * every system-ordered (leaf-)list (in-order = sibling order, metadata only on the leader, one rb node per instance,
 * parent pointers, colours, black height).  `tree_data_sorted.c` is included to reach `struct rb_node`; this TU is
 * linked before libyang.a so the archive member is not pulled. */
#define _GNU_SOURCE
#include "tree_data_sorted.c"
#include "hash_table_internal.h"
#include "tree_data_internal.h"
#define SIB_WB 1
#include "sib_common.h"

int
main(void)
{
    return sib_main();
}
