/* API harness of component `path` (property C15) — public API only (libyang.h).
 *
 * State: one context with the modules of the last `schema` op, one data tree of the last `tree` op.
 *
 *   schema <yang-hex>+               load the modules into a fresh context
 *                                      -> ok <schema-ser input view> <schema-ser output view> <typed schema-ser input view>
 *                                            <typed schema-ser output view> <type descriptors> | err Schema
 *                                    typed: a leaf / leaf-list carries `#<n>`, the index of its type in the `~`-separated descriptor
 *                                    list, computed from the compiled lysc_type (`?` = outside the modelled types)
 *   tree <kind> <xml-hex>            kind = data | rpc | reply | notif; parse (no validation)
 *                                      -> ok <n-nodes> <tree-ser> <n-nodes with the default flag> <tree-ser with value keys> | err Parse
 *                                    value key: lyd_get_value, and for a union value that lyd_value_compare(node, lyd_get_value(node))
 *                                    does NOT find equal to itself: a NUL byte and the index of the member type that stored it
 *   empty                            drop the tree, keep the direction (input / output) of the last `tree`  -> ok
 *   paths <type>                     lyd_path(node, type, NULL, 0) of every node, pre-order   -> ok <path-hex>*
 *   pathx <addr> <type> <buflen>     lyd_path into a caller buffer of exactly buflen bytes (heap block: ASan sees any
 *                                    write past it); buflen 0 = dynamic  -> ok <path-hex> | ok ~ (no NUL in the buffer) | err Null
 *   roundtrip                        the laws of C15 on every node -> ok <n-nodes> <n-checks> (<law>:<addr>:<rc>)*   (failures only)
 *        find     lyd_find_path(root, path) == LY_SUCCESS and returns that very node
 *        xpath    lyd_find_xpath(root, path) returns exactly {node}
 *        chain    lyd_new_path2(NULL, ctx, path, value) succeeds and the created chain equals node + ancestors
 *                 (lyd_compare_single per level, same depth)
 *        exists   lyd_new_path(root, ctx, path, value) == LY_EEXIST (nodes without the default flag), tree unchanged
 *        nolast   LYD_PATH_STD_NO_LAST_PRED is the STD path without the predicate of the last node
 *   find <path-hex>                  lyd_find_path -> ok <addr> | err Incomplete <addr> | err NotFound | err Invalid | err Rc<n>
 *   newpath <path-hex> <value-hex|~> lyd_new_path2 on the current tree (undone afterwards)
 *                                      -> ok <parent-addr> <ser of the created chain> | err Exists | err Einval | err Invalid | err Rc<n>
 *   tnewpath <path-hex> <value-hex|~> the same, the created chain serialised with value keys
 *
 *   After `find` and `newpath` the harness checks that the call left no log location behind (an error provoked without
 *   any node involved must carry neither a schema nor a data path); if it did, ` LOC` is appended to the reply and the
 *   stack is emptied (ly_log_location_revert — the only non-public symbol used, for cleaning up only).
 *
 * Serialisations: see lean/LyModel/Path/Drv.lean. They are computed from the lysc_node / lyd_node structures.
 */
#define _GNU_SOURCE
#include "libyang.h"
#include "proto.h"

void ly_log_location_revert(uint32_t scnode_steps, uint32_t dnode_steps, uint32_t path_steps, uint32_t in_steps);

static struct ly_ctx *ctx;
static struct lyd_node *tree;
static int is_output;
static const struct lys_module *mods[8];
static int nmods;

/* ---- growing string ---- */
struct sb { char *p; size_t n, cap; };
static void sb_add(struct sb *s, const char *t, size_t len)
{
    if (s->n + len + 1 > s->cap) { s->cap = (s->n + len + 1) * 2; s->p = realloc(s->p, s->cap); }
    memcpy(s->p + s->n, t, len); s->n += len; s->p[s->n] = 0;
}
static void sb_str(struct sb *s, const char *t) { sb_add(s, t, strlen(t)); }
static void sb_hex(struct sb *s, const char *t)
{
    size_t i, n = strlen(t); char b[3];
    if (!n) { sb_str(s, "-"); return; }
    for (i = 0; i < n; i++) { sprintf(b, "%02x", (unsigned char)t[i]); sb_add(s, b, 2); }
}

static char
kind_of(const struct lysc_node *sn)
{
    switch (sn->nodetype) {
    case LYS_LIST: return (sn->flags & LYS_KEYLESS) ? 'k' : ((sn->flags & LYS_CONFIG_W) ? 'L' : 'l');
    case LYS_LEAFLIST: return (sn->flags & LYS_CONFIG_W) ? 'F' : 'f';
    case LYS_LEAF: return (sn->flags & LYS_KEY) ? 'K' : 'e';
    case LYS_ANYDATA: case LYS_ANYXML: return 'e';
    default: return 'i';
    }
}

static void
ser_schema(struct sb *s, const struct lysc_node *parent, const struct lysc_module *mod, uint32_t opts)
{
    const struct lysc_node *it = NULL;

    while ((it = lys_getnext(it, parent, mod, opts))) {
        char k[2] = {kind_of(it), 0};
        sb_str(s, "("); sb_hex(s, it->module->name); sb_str(s, ","); sb_hex(s, it->name); sb_str(s, ","); sb_str(s, k); sb_str(s, ",");
        if (!(it->nodetype & (LYS_LEAF | LYS_LEAFLIST | LYS_ANYDATA | LYS_ANYXML))) {
            ser_schema(s, it, NULL, opts);
        }
        sb_str(s, ")");
    }
}


/* ---- type descriptors (syntax of component `val`, see harness/api_types.c) computed from the compiled type ---- */
static struct sb tdescs[256];
static unsigned ntdescs;

static void
sb_num(struct sb *s, long long v, int uns)
{
    char b[32];
    if (uns) sprintf(b, "%llu", (unsigned long long)v); else sprintf(b, "%lld", v);
    sb_str(s, b);
}

static void
desc_range(struct sb *s, const struct lysc_range *r, int uns)
{
    LY_ARRAY_COUNT_TYPE u;
    if (!r) return;
    sb_str(s, ":");
    LY_ARRAY_FOR(r->parts, u) {
        if (u) sb_str(s, ",");
        sb_num(s, uns ? (long long)r->parts[u].min_u64 : r->parts[u].min_64, uns); sb_str(s, "..");
        sb_num(s, uns ? (long long)r->parts[u].max_u64 : r->parts[u].max_64, uns);
    }
}

static void
desc_ident(struct sb *s, const struct lysc_ident *id)
{
    sb_str(s, id->module->name); sb_str(s, "."); sb_str(s, id->name);
}

/* returns 0 when the type is outside the modelled ones */
static int
type_desc(struct sb *s, const struct lysc_type *t, const struct lysc_node *leaf, int in_union)
{
    LY_ARRAY_COUNT_TYPE u, v, w; int i, j, first;

    switch (t->basetype) {
    case LY_TYPE_INT8: sb_str(s, "i8"); desc_range(s, ((struct lysc_type_num *)t)->range, 0); return 1;
    case LY_TYPE_INT16: sb_str(s, "i16"); desc_range(s, ((struct lysc_type_num *)t)->range, 0); return 1;
    case LY_TYPE_INT32: sb_str(s, "i32"); desc_range(s, ((struct lysc_type_num *)t)->range, 0); return 1;
    case LY_TYPE_INT64: sb_str(s, "i64"); desc_range(s, ((struct lysc_type_num *)t)->range, 0); return 1;
    case LY_TYPE_UINT8: sb_str(s, "u8"); desc_range(s, ((struct lysc_type_num *)t)->range, 1); return 1;
    case LY_TYPE_UINT16: sb_str(s, "u16"); desc_range(s, ((struct lysc_type_num *)t)->range, 1); return 1;
    case LY_TYPE_UINT32: sb_str(s, "u32"); desc_range(s, ((struct lysc_type_num *)t)->range, 1); return 1;
    case LY_TYPE_UINT64: sb_str(s, "u64"); desc_range(s, ((struct lysc_type_num *)t)->range, 1); return 1;
    case LY_TYPE_BOOL: sb_str(s, "bool"); return 1;
    case LY_TYPE_DEC64: {
        const struct lysc_type_dec *d = (const struct lysc_type_dec *)t; char b[8];
        sprintf(b, "d%u", (unsigned)d->fraction_digits); sb_str(s, b); desc_range(s, d->range, 0); return 1;
    }
    case LY_TYPE_STRING: {
        const struct lysc_type_str *st = (const struct lysc_type_str *)t;
        if (st->patterns) {
            static const char *hexfam[] = {"hex-string", "mac-address", "phys-address", "uuid", "date-and-time", NULL};
            if (t->name) {
                for (i = 0; hexfam[i]; i++) {
                    if (!strcmp(t->name, hexfam[i])) {
                        if (in_union) return 0;
                        sb_str(s, "t:ietf-yang-types:"); sb_str(s, t->name); return 1;
                    }
                }
                /* other derived types of ietf-*-types have plug-ins of their own */
                if (strstr(t->name, "address") || strstr(t->name, "prefix") || strstr(t->name, "time") || strstr(t->name, "date") || strstr(t->name, "xpath")) return 0;
            }
            sb_str(s, "pstr"); desc_range(s, st->length, 1);
            if (!st->length) sb_str(s, ":");
            sb_str(s, ":");
            LY_ARRAY_FOR(st->patterns, u) {
                if (u) sb_str(s, ";");
                if (st->patterns[u]->inverted) sb_str(s, "!");
                sb_hex(s, st->patterns[u]->expr);
            }
            return 1;
        }
        sb_str(s, "str"); desc_range(s, st->length, 1); return 1;
    }
    case LY_TYPE_BINARY:
        if (in_union) return 0;
        sb_str(s, "bin"); desc_range(s, ((struct lysc_type_bin *)t)->length, 1); return 1;
    case LY_TYPE_EMPTY:
        if (in_union) return 0;
        sb_str(s, "empty"); return 1;
    case LY_TYPE_ENUM: case LY_TYPE_BITS: {
        const struct lysc_type_enum *e = (const struct lysc_type_enum *)t; char b[32];
        sb_str(s, t->basetype == LY_TYPE_ENUM ? "enum:" : "bits:");
        LY_ARRAY_FOR(e->enums, u) {
            if (u) sb_str(s, ",");
            sb_hex(s, e->enums[u].name);
            if (t->basetype == LY_TYPE_ENUM) sprintf(b, "=%d", (int)e->enums[u].value); else sprintf(b, "=%u", (unsigned)e->enums[u].position);
            sb_str(s, b);
        }
        return 1;
    }
    case LY_TYPE_IDENT: {
        const struct lysc_type_identityref *ir = (const struct lysc_type_identityref *)t;
        sb_str(s, "idref:"); sb_str(s, leaf->module->name); sb_str(s, ":");
        LY_ARRAY_FOR(ir->bases, u) { if (u) sb_str(s, "+"); desc_ident(s, ir->bases[u]); }
        sb_str(s, "@");
        /* the identities of the loaded modules, each with its bases (X is a base of D iff D is in X->derived) */
        first = 1;
        for (i = 0; i < nmods; i++) {
            LY_ARRAY_FOR(mods[i]->identities, u) {
                const struct lysc_ident *id = &mods[i]->identities[u]; int nb = 0;
                if (!first) sb_str(s, ",");
                first = 0;
                desc_ident(s, id);
                for (j = 0; j < nmods; j++) {
                    LY_ARRAY_FOR(mods[j]->identities, v) {
                        const struct lysc_ident *x = &mods[j]->identities[v];
                        LY_ARRAY_FOR(x->derived, w) {
                            if (x->derived[w] == id) { sb_str(s, nb++ ? "+" : "<"); desc_ident(s, x); break; }
                        }
                    }
                }
            }
        }
        return !first;
    }
    case LY_TYPE_UNION: {
        const struct lysc_type_union *un = (const struct lysc_type_union *)t;
        if (in_union) return 0;
        sb_str(s, "U(");
        LY_ARRAY_FOR(un->types, u) {
            if (u) sb_str(s, "|");
            if (!type_desc(s, un->types[u], leaf, 1)) return 0;
        }
        sb_str(s, ")");
        return 1;
    }
    default:
        return 0;
    }
}

static unsigned
type_index(const struct lysc_node *leaf)
{
    const struct lysc_type *t = (leaf->nodetype == LYS_LEAF) ? ((const struct lysc_node_leaf *)leaf)->type :
            (leaf->nodetype == LYS_LEAFLIST) ? ((const struct lysc_node_leaflist *)leaf)->type : NULL;
    struct sb d = {0}; unsigned i;

    if (!t) sb_str(&d, "str");                      /* anydata / anyxml: as the untyped model treats them */
    else if (!type_desc(&d, t, leaf, 0)) { d.n = 0; sb_str(&d, "?"); }
    for (i = 0; i < ntdescs; i++) {
        if (!strcmp(tdescs[i].p, d.p)) { free(d.p); return i; }
    }
    if (ntdescs == 256) { free(d.p); return 0; }
    tdescs[ntdescs] = d;
    return ntdescs++;
}

static void
ser_tschema(struct sb *s, const struct lysc_node *parent, const struct lysc_module *mod, uint32_t opts)
{
    const struct lysc_node *it = NULL;

    while ((it = lys_getnext(it, parent, mod, opts))) {
        char k[2] = {kind_of(it), 0}, b[16];
        sb_str(s, "("); sb_hex(s, it->module->name); sb_str(s, ","); sb_hex(s, it->name); sb_str(s, ","); sb_str(s, k); sb_str(s, ",");
        if (!(it->nodetype & (LYS_LEAF | LYS_LEAFLIST | LYS_ANYDATA | LYS_ANYXML))) {
            ser_tschema(s, it, NULL, opts);
        } else {
            sprintf(b, "#%u", type_index(it)); sb_str(s, b);
        }
        sb_str(s, ")");
    }
}

/* value key of a term node (see the header) */
static int value_keys;

static void
sb_value(struct sb *s, const struct lyd_node *n)
{
    const char *c = lyd_get_value(n);

    sb_hex(s, c);
    if (value_keys && (n->schema->nodetype & (LYS_LEAF | LYS_LEAFLIST))) {
        const struct lysc_type *t = (n->schema->nodetype == LYS_LEAF) ? ((const struct lysc_node_leaf *)n->schema)->type :
                ((const struct lysc_node_leaflist *)n->schema)->type;
        if ((t->basetype == LY_TYPE_UNION) && (lyd_value_compare((const struct lyd_node_term *)n, c, strlen(c)) == LY_ENOT)) {
            const struct lysc_type_union *un = (const struct lysc_type_union *)t;
            const struct lysc_type *rt = ((const struct lyd_node_term *)n)->value.subvalue->value.realtype;
            LY_ARRAY_COUNT_TYPE u; char b[16], h[40]; size_t i;
            LY_ARRAY_FOR(un->types, u) { if (un->types[u] == rt) break; }
            sprintf(b, "%u", (unsigned)u);
            if (!*c) s->n -= 1;                     /* "-" of the empty string */
            sb_str(s, "00");
            for (i = 0; b[i]; i++) { sprintf(h, "%02x", (unsigned char)b[i]); sb_str(s, h); }
        }
    }
}

static void
ser_data(struct sb *s, const struct lyd_node *first, int with_siblings)
{
    const struct lyd_node *n;

    for (n = first; n; n = with_siblings ? n->next : NULL) {
        if (!n->schema) { sb_str(s, "(-,-,i,-,)"); continue; }
        char k[2] = {kind_of(n->schema), 0};
        sb_str(s, "("); sb_hex(s, n->schema->module->name); sb_str(s, ","); sb_hex(s, n->schema->name); sb_str(s, ","); sb_str(s, k); sb_str(s, ",");
        if (n->schema->nodetype & LYD_NODE_TERM) sb_value(s, n); else sb_str(s, "-");
        sb_str(s, ",");
        ser_data(s, lyd_child(n), 1);
        sb_str(s, ")");
    }
}

static void
addr_of(struct sb *s, const struct lyd_node *n)
{
    const struct lyd_node *chain[64], *it;
    int d = 0, i;

    if (!n) { sb_str(s, "-"); return; }
    for (it = n; it && d < 64; it = lyd_parent(it)) chain[d++] = it;
    for (i = d - 1; i >= 0; i--) {
        unsigned idx = 0; char b[16];
        for (it = chain[i]; it->prev->next; it = it->prev) idx++;
        sprintf(b, "%s%u", i == d - 1 ? "" : ".", idx); sb_str(s, b);
    }
}

static struct lyd_node *
node_at(const char *addr)
{
    struct lyd_node *sib = tree, *n = NULL;
    const char *p = addr;

    if (!strcmp(addr, "-")) return NULL;
    while (*p) {
        unsigned long i = strtoul(p, (char **)&p, 10);
        for (n = sib; n && i; n = n->next) i--;
        if (!n) return NULL;
        sib = lyd_child(n);
        if (*p == '.') p++;
    }
    return n;
}

static unsigned
count_dflt(const struct lyd_node *first)
{
    const struct lyd_node *n; unsigned c = 0;
    for (n = first; n; n = n->next) c += ((n->flags & LYD_DEFAULT) ? 1 : 0) + count_dflt(lyd_child(n));
    return c;
}

static unsigned
count_nodes(const struct lyd_node *first)
{
    const struct lyd_node *n; unsigned c = 0;
    for (n = first; n; n = n->next) c += 1 + count_nodes(lyd_child(n));
    return c;
}

/* all nodes, pre-order */
static void
collect(struct lyd_node *first, struct lyd_node ***arr, unsigned *n, unsigned *cap)
{
    struct lyd_node *it;
    for (it = first; it; it = it->next) {
        if (*n == *cap) { *cap = *cap ? *cap * 2 : 64; *arr = realloc(*arr, *cap * sizeof **arr); }
        (*arr)[(*n)++] = it;
        collect(lyd_child(it), arr, n, cap);
    }
}

static const char *
rcname(LY_ERR r, char *buf)
{
    switch (r) {
    case LY_EVALID: return "Invalid";
    case LY_ENOTFOUND: return "NotFound";
    case LY_EEXIST: return "Exists";
    case LY_EINVAL: return "Einval";
    case LY_EINCOMPLETE: return "Incomplete";
    default: sprintf(buf, "Rc%d", (int)r); return buf;
    }
}

static const char *
term_value(const struct lyd_node *n)
{
    return (n->schema && (n->schema->nodetype & LYD_NODE_TERM)) ? lyd_get_value(n) : NULL;
}

/* does the chain ending in `last` equal `orig` and its ancestors, level by level? */
static int
chain_equal(const struct lyd_node *last, const struct lyd_node *orig)
{
    while (last && orig) {
        if (lyd_compare_single(last, orig, 0)) return 0;
        last = lyd_parent(last); orig = lyd_parent(orig);
    }
    return !last && !orig;
}

/* does the thread's log location still hold something? (provoke an error that involves no node at all) */
static const char *
loc_probe(void)
{
    struct lyd_node *x = NULL; const struct ly_err_item *e; int bad;

    ly_err_clean(ctx, NULL);
    if (!lyd_new_path(NULL, ctx, "/zzz-no-such-module:q", NULL, 0, &x)) { lyd_free_all(x); return ""; }
    e = ly_err_last(ctx);
    bad = e && (e->schema_path || e->data_path);
    ly_err_clean(ctx, NULL);
    if (bad) ly_log_location_revert(UINT32_MAX, UINT32_MAX, UINT32_MAX, 0);
    return bad ? " LOC" : "";
}

static void
law_fail(struct sb *out, const char *law, const struct lyd_node *n, int rc)
{
    char b[32];
    sb_str(out, " "); sb_str(out, law); sb_str(out, ":"); addr_of(out, n); sprintf(b, ":%d", rc); sb_str(out, b);
}

int
main(void)
{
    struct vp_req r = {0};

    ly_log_options(LY_LOSTORE_LAST);

    while (vp_next(&r)) {
        const char *id = r.tok[0], *op = r.ntok > 2 ? r.tok[2] : "";
        char eb[32];

        if (r.ntok < 3) { vp_reply(r.ntok ? id : "?", "err BadLine"); continue; }
        if (ctx) ly_err_clean(ctx, NULL);

        if (!strcmp(op, "schema") && r.ntok >= 4) {
            int i, bad = 0;
            lyd_free_all(tree); tree = NULL;
            if (ctx) ly_ctx_destroy(ctx);
            ctx = NULL; nmods = 0;
            if (ly_ctx_new(NULL, 0, &ctx)) { vp_reply(id, "err Ctx"); continue; }
            for (i = 3; i < r.ntok && nmods < 8; i++) {
                char *y = vp_unhex(r.tok[i], NULL); struct lys_module *m = NULL;
                if (!y || lys_parse_mem(ctx, y, LYS_IN_YANG, &m)) bad = 1; else mods[nmods++] = m;
                free(y);
                if (bad) break;
            }
            if (bad) { const struct ly_err_item *e = ly_err_last(ctx); fprintf(stderr, "schema: %s\n", e ? e->msg : "?"); vp_reply(id, "err Schema"); continue; }
            struct sb a = {0}, b = {0}, ta = {0}, tb = {0}, td = {0}; unsigned k;
            for (k = 0; k < ntdescs; k++) free(tdescs[k].p);
            ntdescs = 0;
            for (i = 0; i < nmods; i++) {
                ser_schema(&a, NULL, mods[i]->compiled, 0); ser_schema(&b, NULL, mods[i]->compiled, LYS_GETNEXT_OUTPUT);
                ser_tschema(&ta, NULL, mods[i]->compiled, 0); ser_tschema(&tb, NULL, mods[i]->compiled, LYS_GETNEXT_OUTPUT);
            }
            for (k = 0; k < ntdescs; k++) { if (k) sb_str(&td, "~"); sb_str(&td, tdescs[k].p); }
            vp_reply(id, "ok %s %s %s %s %s", a.n ? a.p : "-", b.n ? b.p : "-", ta.n ? ta.p : "-", tb.n ? tb.p : "-", td.n ? td.p : "-");
            free(a.p); free(b.p); free(ta.p); free(tb.p); free(td.p);
        } else if (!ctx) {
            vp_reply(id, "err NoSchema");
        } else if (!strcmp(op, "tree") && r.ntok == 5) {
            char *x = vp_unhex(r.tok[4], NULL); LY_ERR rc; struct ly_in *in = NULL;
            lyd_free_all(tree); tree = NULL; is_output = 0;
            if (!strcmp(r.tok[3], "data")) {
                rc = lyd_parse_data_mem(ctx, x, LYD_XML, LYD_PARSE_ONLY | LYD_PARSE_STRICT, 0, &tree);
            } else {
                enum lyd_type t = !strcmp(r.tok[3], "rpc") ? LYD_TYPE_RPC_YANG : !strcmp(r.tok[3], "reply") ? LYD_TYPE_REPLY_YANG : LYD_TYPE_NOTIF_YANG;
                is_output = t == LYD_TYPE_REPLY_YANG;
                ly_in_new_memory(x, &in);
                rc = lyd_parse_op(ctx, NULL, in, LYD_XML, t, &tree, NULL);
                ly_in_free(in, 0);
            }
            if (rc) { const struct ly_err_item *e = ly_err_last(ctx); fprintf(stderr, "tree: %s\n", e ? e->msg : "?"); lyd_free_all(tree); tree = NULL; vp_reply(id, "err Parse"); }
            else {
                struct sb s = {0}, t = {0};
                ser_data(&s, tree, 1);
                value_keys = 1; ser_data(&t, tree, 1); value_keys = 0;
                vp_reply(id, "ok %u %s %u %s", count_nodes(tree), s.n ? s.p : "-", count_dflt(tree), t.n ? t.p : "-");
                free(s.p); free(t.p);
            }
            free(x);
        } else if (!strcmp(op, "empty") && r.ntok == 3) {
            lyd_free_all(tree); tree = NULL;
            vp_reply(id, "ok");
        } else if (!strcmp(op, "paths") && r.ntok == 4) {
            struct lyd_node **arr = NULL, *e; unsigned na = 0, cap = 0, i; struct sb s = {0};
            LYD_PATH_TYPE pt = atoi(r.tok[3]) ? LYD_PATH_STD_NO_LAST_PRED : LYD_PATH_STD;
            collect(tree, &arr, &na, &cap);
            for (i = 0; i < na; i++) {
                char *p = lyd_path((e = arr[i]), pt, NULL, 0);
                sb_str(&s, " "); if (p) sb_hex(&s, p); else sb_str(&s, "?");
                free(p);
            }
            vp_reply(id, "ok%s", s.n ? s.p : "");
            free(s.p); free(arr);
        } else if (!strcmp(op, "pathx") && r.ntok == 6) {
            struct lyd_node *n = node_at(r.tok[3]); size_t bl = strtoul(r.tok[5], NULL, 10);
            LYD_PATH_TYPE pt = atoi(r.tok[4]) ? LYD_PATH_STD_NO_LAST_PRED : LYD_PATH_STD;
            if (!n) { vp_reply(id, "err NoNode"); continue; }
            if (!bl) {
                char *p = lyd_path(n, pt, NULL, 0);
                if (!p) vp_reply(id, "err Null"); else { vp_begin(id, "ok"); vp_field_hex(p, strlen(p)); vp_end(); }
                free(p);
            } else {
                char *buf = malloc(bl), *p;
                memset(buf, 0xAA, bl);
                p = lyd_path(n, pt, buf, bl);
                if (!p) vp_reply(id, "err Null");
                else if (!memchr(buf, 0, bl)) vp_reply(id, "ok ~");
                else { vp_begin(id, "ok"); vp_field_hex(buf, strlen(buf)); vp_end(); }
                free(buf);
            }
        } else if (!strcmp(op, "roundtrip") && r.ntok == 3) {
            struct lyd_node **arr = NULL, *e; struct sb out = {0}; unsigned n = 0, checks = 0, before = count_nodes(tree), na = 0, cap = 0, ai;
            uint32_t nopt = is_output ? LYD_NEW_VAL_OUTPUT : 0;
            collect(tree, &arr, &na, &cap);
            for (ai = 0; ai < na; ai++) {
                e = arr[ai];
                char *p = lyd_path(e, LYD_PATH_STD, NULL, 0), *q;
                struct lyd_node *m = NULL, *np = NULL, *nn = NULL; struct ly_set *set = NULL; LY_ERR rc;
                const char *val = term_value(e);
                n++;
                if (!p) { law_fail(&out, "path", e, -1); continue; }
                /* find */
                rc = lyd_find_path(tree, p, is_output, &m); checks++;
                if (rc || (m != e)) law_fail(&out, "find", e, rc ? (int)rc : -2);
                /* xpath */
                rc = lyd_find_xpath(tree, p, &set); checks++;
                if (rc || (set->count != 1) || (set->dnodes[0] != e)) law_fail(&out, "xpath", e, rc ? (int)rc : -(int)(set->count + 10));
                ly_set_free(set, NULL);
                /* chain in an empty tree */
                rc = lyd_new_path2(NULL, ctx, p, val, 0, 0, nopt, &np, &nn); checks++;
                if (rc) law_fail(&out, "chain", e, (int)rc);
                else {
                    if (!nn || !np || np->parent || !chain_equal(nn, e)) law_fail(&out, "chain", e, -2);
                    lyd_free_all(np);
                }
                /* existing node */
                if (!(e->flags & LYD_DEFAULT)) {
                    np = NULL;
                    rc = lyd_new_path(tree, ctx, p, val, nopt, &np); checks++;
                    if (rc != LY_EEXIST) { law_fail(&out, "exists", e, (int)rc); if (!rc && np) { lyd_free_tree(np); } }
                    else if (count_nodes(tree) != before) law_fail(&out, "exists", e, -2);
                }
                /* no-last-predicate form */
                q = lyd_path(e, LYD_PATH_STD_NO_LAST_PRED, NULL, 0); checks++;
                if (!q) law_fail(&out, "nolast", e, -1);
                else {
                    size_t lq = strlen(q), lp = strlen(p);
                    int ok = lq <= lp && !strncmp(p, q, lq) && (lq == lp || p[lq] == '[') && (p[lp - 1] == ']' || lq == lp);
                    if (!ok) law_fail(&out, "nolast", e, -2);
                }
                free(q); free(p);
            }
            if (*loc_probe()) { sb_str(&out, " logloc:-:0"); }
            vp_reply(id, "ok %u %u%s", n, checks, out.n ? out.p : "");
            free(out.p); free(arr);
        } else if (!strcmp(op, "find") && r.ntok == 4) {
            char *p = vp_unhex(r.tok[3], NULL); struct lyd_node *m = NULL; LY_ERR rc;
            if (!tree || !p) { vp_reply(id, "err NoTree"); free(p); continue; }
            rc = lyd_find_path(tree, p, is_output, &m);
            if (!rc || rc == LY_EINCOMPLETE) { struct sb s = {0}; addr_of(&s, m); vp_reply(id, rc ? "err Incomplete %s%s" : "ok %s%s", s.p, loc_probe()); free(s.p); }
            else vp_reply(id, "err %s%s", rcname(rc, eb), loc_probe());
            free(p);
        } else if ((!strcmp(op, "newpath") || !strcmp(op, "tnewpath")) && r.ntok == 5) {
            char *p = vp_unhex(r.tok[3], NULL), *v = strcmp(r.tok[4], "~") ? vp_unhex(r.tok[4], NULL) : NULL;
            struct lyd_node *np = NULL, *nn = NULL; LY_ERR rc;
            rc = lyd_new_path2(tree, ctx, p, v, 0, 0, is_output ? LYD_NEW_VAL_OUTPUT : 0, &np, &nn);
            if (rc) vp_reply(id, "err %s%s", rcname(rc, eb), loc_probe());
            else if (!np) vp_reply(id, "err NothingCreated%s", loc_probe());
            else {
                struct sb a = {0}, s = {0};
                value_keys = (op[0] == 't');
                addr_of(&a, lyd_parent(np)); ser_data(&s, np, 0);
                value_keys = 0;
                if (tree == np) tree = np->next;     /* cannot happen for a non-empty tree unless np became the first sibling */
                lyd_free_tree(np);
                if (tree) tree = lyd_first_sibling(tree);
                vp_reply(id, "ok %s %s%s", a.p, s.p, loc_probe());
                free(a.p); free(s.p);
            }
            free(p); free(v);
        } else {
            vp_reply(id, "err BadOp");
        }
    }
    free(r.line);
    lyd_free_all(tree);
    if (ctx) ly_ctx_destroy(ctx);
    return 0;
}
