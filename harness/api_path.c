/* API harness of component `path` (property C15) — public API only (libyang.h).
 *
 * State: one context with the modules of the last `schema` op, one data tree of the last `tree` op.
 *
 *   schema <yang-hex>+               load the modules into a fresh context
 *                                      -> ok <schema-ser input view> <schema-ser output view> | err Schema
 *   tree <kind> <xml-hex>            kind = data | rpc | reply | notif; parse (no validation)
 *                                      -> ok <n-nodes> <tree-ser> <n-nodes with the default flag> | err Parse
 *   empty                            drop the tree, keep the direction (input / output) of the last `tree`  -> ok
 *   paths <type>                     lyd_path(node, type, NULL, 0) of every node, pre-order   -> ok <path-hex>*
 *   pathx <addr> <type> <buflen>     lyd_path into a caller buffer of exactly buflen bytes (heap block: ASan sees any
 *                                    write past it); buflen 0 = dynamic  -> ok <path-hex> | ok ~ (no NUL in the buffer) | err Null
 *   roundtrip                        the laws of C15 on every node -> ok <n-nodes> <n-checks> (<law>:<addr>:<rc>)*   (failures only)
 *        find     lyd_find_path(root, path) == LY_SUCCESS and returns that very node
 *        xpath    lyd_find_xpath(root, path) returns exactly {node}
 *        chain    lyd_new_path2(NULL, ctx, path, value) succeeds and the created chain equals node + ancestors
 *                 (lyd_compare_single per level, same depth)
 *        exists   lyd_new_path(root, ctx, path, value) == LY_EEXIST (nodes without the default flag), tree unchanged
 *        nolast   LYD_PATH_STD_NO_LAST_PRED is the STD path without the predicate of the last node
 *   find <path-hex>                  lyd_find_path -> ok <addr> | err Incomplete <addr> | err NotFound | err Invalid | err Rc<n>
 *   newpath <path-hex> <value-hex|~> lyd_new_path2 on the current tree (undone afterwards)
 *                                      -> ok <parent-addr> <ser of the created chain> | err Exists | err Einval | err Invalid | err Rc<n>
 *
 *   After `find` and `newpath` the harness checks that the call left no log location behind (an error provoked without
 *   any node involved must carry neither a schema nor a data path); if it did, ` LOC` is appended to the reply and the
 *   stack is emptied (ly_log_location_revert — the only non-public symbol used, for cleaning up only).
 *
 * Serialisations: see lean/LyModel/Path/Drv.lean. They are computed from the lysc_node / lyd_node structures.
 */
#define _GNU_SOURCE
#include "libyang.h"
#include "proto.h"

void ly_log_location_revert(uint32_t scnode_steps, uint32_t dnode_steps, uint32_t path_steps, uint32_t in_steps);

static struct ly_ctx *ctx;
static struct lyd_node *tree;
static int is_output;
static const struct lys_module *mods[8];
static int nmods;

/* ---- growing string ---- */
struct sb { char *p; size_t n, cap; };
static void sb_add(struct sb *s, const char *t, size_t len)
{
    if (s->n + len + 1 > s->cap) { s->cap = (s->n + len + 1) * 2; s->p = realloc(s->p, s->cap); }
    memcpy(s->p + s->n, t, len); s->n += len; s->p[s->n] = 0;
}
static void sb_str(struct sb *s, const char *t) { sb_add(s, t, strlen(t)); }
static void sb_hex(struct sb *s, const char *t)
{
    size_t i, n = strlen(t); char b[3];
    if (!n) { sb_str(s, "-"); return; }
    for (i = 0; i < n; i++) { sprintf(b, "%02x", (unsigned char)t[i]); sb_add(s, b, 2); }
}

static char
kind_of(const struct lysc_node *sn)
{
    switch (sn->nodetype) {
    case LYS_LIST: return (sn->flags & LYS_KEYLESS) ? 'k' : ((sn->flags & LYS_CONFIG_W) ? 'L' : 'l');
    case LYS_LEAFLIST: return (sn->flags & LYS_CONFIG_W) ? 'F' : 'f';
    case LYS_LEAF: return (sn->flags & LYS_KEY) ? 'K' : 'e';
    case LYS_ANYDATA: case LYS_ANYXML: return 'e';
    default: return 'i';
    }
}

static void
ser_schema(struct sb *s, const struct lysc_node *parent, const struct lysc_module *mod, uint32_t opts)
{
    const struct lysc_node *it = NULL;

    while ((it = lys_getnext(it, parent, mod, opts))) {
        char k[2] = {kind_of(it), 0};
        sb_str(s, "("); sb_hex(s, it->module->name); sb_str(s, ","); sb_hex(s, it->name); sb_str(s, ","); sb_str(s, k); sb_str(s, ",");
        if (!(it->nodetype & (LYS_LEAF | LYS_LEAFLIST | LYS_ANYDATA | LYS_ANYXML))) {
            ser_schema(s, it, NULL, opts);
        }
        sb_str(s, ")");
    }
}

static void
ser_data(struct sb *s, const struct lyd_node *first, int with_siblings)
{
    const struct lyd_node *n;

    for (n = first; n; n = with_siblings ? n->next : NULL) {
        if (!n->schema) { sb_str(s, "(-,-,i,-,)"); continue; }
        char k[2] = {kind_of(n->schema), 0};
        sb_str(s, "("); sb_hex(s, n->schema->module->name); sb_str(s, ","); sb_hex(s, n->schema->name); sb_str(s, ","); sb_str(s, k); sb_str(s, ",");
        sb_hex(s, (n->schema->nodetype & LYD_NODE_TERM) ? lyd_get_value(n) : ""); sb_str(s, ",");
        ser_data(s, lyd_child(n), 1);
        sb_str(s, ")");
    }
}

static void
addr_of(struct sb *s, const struct lyd_node *n)
{
    const struct lyd_node *chain[64], *it;
    int d = 0, i;

    if (!n) { sb_str(s, "-"); return; }
    for (it = n; it && d < 64; it = lyd_parent(it)) chain[d++] = it;
    for (i = d - 1; i >= 0; i--) {
        unsigned idx = 0; char b[16];
        for (it = chain[i]; it->prev->next; it = it->prev) idx++;
        sprintf(b, "%s%u", i == d - 1 ? "" : ".", idx); sb_str(s, b);
    }
}

static struct lyd_node *
node_at(const char *addr)
{
    struct lyd_node *sib = tree, *n = NULL;
    const char *p = addr;

    if (!strcmp(addr, "-")) return NULL;
    while (*p) {
        unsigned long i = strtoul(p, (char **)&p, 10);
        for (n = sib; n && i; n = n->next) i--;
        if (!n) return NULL;
        sib = lyd_child(n);
        if (*p == '.') p++;
    }
    return n;
}

static unsigned
count_dflt(const struct lyd_node *first)
{
    const struct lyd_node *n; unsigned c = 0;
    for (n = first; n; n = n->next) c += ((n->flags & LYD_DEFAULT) ? 1 : 0) + count_dflt(lyd_child(n));
    return c;
}

static unsigned
count_nodes(const struct lyd_node *first)
{
    const struct lyd_node *n; unsigned c = 0;
    for (n = first; n; n = n->next) c += 1 + count_nodes(lyd_child(n));
    return c;
}

/* all nodes, pre-order */
static void
collect(struct lyd_node *first, struct lyd_node ***arr, unsigned *n, unsigned *cap)
{
    struct lyd_node *it;
    for (it = first; it; it = it->next) {
        if (*n == *cap) { *cap = *cap ? *cap * 2 : 64; *arr = realloc(*arr, *cap * sizeof **arr); }
        (*arr)[(*n)++] = it;
        collect(lyd_child(it), arr, n, cap);
    }
}

static const char *
rcname(LY_ERR r, char *buf)
{
    switch (r) {
    case LY_EVALID: return "Invalid";
    case LY_ENOTFOUND: return "NotFound";
    case LY_EEXIST: return "Exists";
    case LY_EINVAL: return "Einval";
    case LY_EINCOMPLETE: return "Incomplete";
    default: sprintf(buf, "Rc%d", (int)r); return buf;
    }
}

static const char *
term_value(const struct lyd_node *n)
{
    return (n->schema && (n->schema->nodetype & LYD_NODE_TERM)) ? lyd_get_value(n) : NULL;
}

/* does the chain ending in `last` equal `orig` and its ancestors, level by level? */
static int
chain_equal(const struct lyd_node *last, const struct lyd_node *orig)
{
    while (last && orig) {
        if (lyd_compare_single(last, orig, 0)) return 0;
        last = lyd_parent(last); orig = lyd_parent(orig);
    }
    return !last && !orig;
}

/* does the thread's log location still hold something? (provoke an error that involves no node at all) */
static const char *
loc_probe(void)
{
    struct lyd_node *x = NULL; const struct ly_err_item *e; int bad;

    ly_err_clean(ctx, NULL);
    if (!lyd_new_path(NULL, ctx, "/zzz-no-such-module:q", NULL, 0, &x)) { lyd_free_all(x); return ""; }
    e = ly_err_last(ctx);
    bad = e && (e->schema_path || e->data_path);
    ly_err_clean(ctx, NULL);
    if (bad) ly_log_location_revert(UINT32_MAX, UINT32_MAX, UINT32_MAX, 0);
    return bad ? " LOC" : "";
}

static void
law_fail(struct sb *out, const char *law, const struct lyd_node *n, int rc)
{
    char b[32];
    sb_str(out, " "); sb_str(out, law); sb_str(out, ":"); addr_of(out, n); sprintf(b, ":%d", rc); sb_str(out, b);
}

int
main(void)
{
    struct vp_req r = {0};

    ly_log_options(LY_LOSTORE_LAST);

    while (vp_next(&r)) {
        const char *id = r.tok[0], *op = r.ntok > 2 ? r.tok[2] : "";
        char eb[32];

        if (r.ntok < 3) { vp_reply(r.ntok ? id : "?", "err BadLine"); continue; }
        if (ctx) ly_err_clean(ctx, NULL);

        if (!strcmp(op, "schema") && r.ntok >= 4) {
            int i, bad = 0;
            lyd_free_all(tree); tree = NULL;
            if (ctx) ly_ctx_destroy(ctx);
            ctx = NULL; nmods = 0;
            if (ly_ctx_new(NULL, 0, &ctx)) { vp_reply(id, "err Ctx"); continue; }
            for (i = 3; i < r.ntok && nmods < 8; i++) {
                char *y = vp_unhex(r.tok[i], NULL); struct lys_module *m = NULL;
                if (!y || lys_parse_mem(ctx, y, LYS_IN_YANG, &m)) bad = 1; else mods[nmods++] = m;
                free(y);
                if (bad) break;
            }
            if (bad) { const struct ly_err_item *e = ly_err_last(ctx); fprintf(stderr, "schema: %s\n", e ? e->msg : "?"); vp_reply(id, "err Schema"); continue; }
            struct sb a = {0}, b = {0};
            for (i = 0; i < nmods; i++) { ser_schema(&a, NULL, mods[i]->compiled, 0); ser_schema(&b, NULL, mods[i]->compiled, LYS_GETNEXT_OUTPUT); }
            vp_reply(id, "ok %s %s", a.n ? a.p : "-", b.n ? b.p : "-");
            free(a.p); free(b.p);
        } else if (!ctx) {
            vp_reply(id, "err NoSchema");
        } else if (!strcmp(op, "tree") && r.ntok == 5) {
            char *x = vp_unhex(r.tok[4], NULL); LY_ERR rc; struct ly_in *in = NULL;
            lyd_free_all(tree); tree = NULL; is_output = 0;
            if (!strcmp(r.tok[3], "data")) {
                rc = lyd_parse_data_mem(ctx, x, LYD_XML, LYD_PARSE_ONLY | LYD_PARSE_STRICT, 0, &tree);
            } else {
                enum lyd_type t = !strcmp(r.tok[3], "rpc") ? LYD_TYPE_RPC_YANG : !strcmp(r.tok[3], "reply") ? LYD_TYPE_REPLY_YANG : LYD_TYPE_NOTIF_YANG;
                is_output = t == LYD_TYPE_REPLY_YANG;
                ly_in_new_memory(x, &in);
                rc = lyd_parse_op(ctx, NULL, in, LYD_XML, t, &tree, NULL);
                ly_in_free(in, 0);
            }
            if (rc) { const struct ly_err_item *e = ly_err_last(ctx); fprintf(stderr, "tree: %s\n", e ? e->msg : "?"); lyd_free_all(tree); tree = NULL; vp_reply(id, "err Parse"); }
            else { struct sb s = {0}; ser_data(&s, tree, 1); vp_reply(id, "ok %u %s %u", count_nodes(tree), s.n ? s.p : "-", count_dflt(tree)); free(s.p); }
            free(x);
        } else if (!strcmp(op, "empty") && r.ntok == 3) {
            lyd_free_all(tree); tree = NULL;
            vp_reply(id, "ok");
        } else if (!strcmp(op, "paths") && r.ntok == 4) {
            struct lyd_node **arr = NULL, *e; unsigned na = 0, cap = 0, i; struct sb s = {0};
            LYD_PATH_TYPE pt = atoi(r.tok[3]) ? LYD_PATH_STD_NO_LAST_PRED : LYD_PATH_STD;
            collect(tree, &arr, &na, &cap);
            for (i = 0; i < na; i++) {
                char *p = lyd_path((e = arr[i]), pt, NULL, 0);
                sb_str(&s, " "); if (p) sb_hex(&s, p); else sb_str(&s, "?");
                free(p);
            }
            vp_reply(id, "ok%s", s.n ? s.p : "");
            free(s.p); free(arr);
        } else if (!strcmp(op, "pathx") && r.ntok == 6) {
            struct lyd_node *n = node_at(r.tok[3]); size_t bl = strtoul(r.tok[5], NULL, 10);
            LYD_PATH_TYPE pt = atoi(r.tok[4]) ? LYD_PATH_STD_NO_LAST_PRED : LYD_PATH_STD;
            if (!n) { vp_reply(id, "err NoNode"); continue; }
            if (!bl) {
                char *p = lyd_path(n, pt, NULL, 0);
                if (!p) vp_reply(id, "err Null"); else { vp_begin(id, "ok"); vp_field_hex(p, strlen(p)); vp_end(); }
                free(p);
            } else {
                char *buf = malloc(bl), *p;
                memset(buf, 0xAA, bl);
                p = lyd_path(n, pt, buf, bl);
                if (!p) vp_reply(id, "err Null");
                else if (!memchr(buf, 0, bl)) vp_reply(id, "ok ~");
                else { vp_begin(id, "ok"); vp_field_hex(buf, strlen(buf)); vp_end(); }
                free(buf);
            }
        } else if (!strcmp(op, "roundtrip") && r.ntok == 3) {
            struct lyd_node **arr = NULL, *e; struct sb out = {0}; unsigned n = 0, checks = 0, before = count_nodes(tree), na = 0, cap = 0, ai;
            uint32_t nopt = is_output ? LYD_NEW_VAL_OUTPUT : 0;
            collect(tree, &arr, &na, &cap);
            for (ai = 0; ai < na; ai++) {
                e = arr[ai];
                char *p = lyd_path(e, LYD_PATH_STD, NULL, 0), *q;
                struct lyd_node *m = NULL, *np = NULL, *nn = NULL; struct ly_set *set = NULL; LY_ERR rc;
                const char *val = term_value(e);
                n++;
                if (!p) { law_fail(&out, "path", e, -1); continue; }
                /* find */
                rc = lyd_find_path(tree, p, is_output, &m); checks++;
                if (rc || (m != e)) law_fail(&out, "find", e, rc ? (int)rc : -2);
                /* xpath */
                rc = lyd_find_xpath(tree, p, &set); checks++;
                if (rc || (set->count != 1) || (set->dnodes[0] != e)) law_fail(&out, "xpath", e, rc ? (int)rc : -(int)(set->count + 10));
                ly_set_free(set, NULL);
                /* chain in an empty tree */
                rc = lyd_new_path2(NULL, ctx, p, val, 0, 0, nopt, &np, &nn); checks++;
                if (rc) law_fail(&out, "chain", e, (int)rc);
                else {
                    if (!nn || !np || np->parent || !chain_equal(nn, e)) law_fail(&out, "chain", e, -2);
                    lyd_free_all(np);
                }
                /* existing node */
                if (!(e->flags & LYD_DEFAULT)) {
                    np = NULL;
                    rc = lyd_new_path(tree, ctx, p, val, nopt, &np); checks++;
                    if (rc != LY_EEXIST) { law_fail(&out, "exists", e, (int)rc); if (!rc && np) { lyd_free_tree(np); } }
                    else if (count_nodes(tree) != before) law_fail(&out, "exists", e, -2);
                }
                /* no-last-predicate form */
                q = lyd_path(e, LYD_PATH_STD_NO_LAST_PRED, NULL, 0); checks++;
                if (!q) law_fail(&out, "nolast", e, -1);
                else {
                    size_t lq = strlen(q), lp = strlen(p);
                    int ok = lq <= lp && !strncmp(p, q, lq) && (lq == lp || p[lq] == '[') && (p[lp - 1] == ']' || lq == lp);
                    if (!ok) law_fail(&out, "nolast", e, -2);
                }
                free(q); free(p);
            }
            if (*loc_probe()) { sb_str(&out, " logloc:-:0"); }
            vp_reply(id, "ok %u %u%s", n, checks, out.n ? out.p : "");
            free(out.p); free(arr);
        } else if (!strcmp(op, "find") && r.ntok == 4) {
            char *p = vp_unhex(r.tok[3], NULL); struct lyd_node *m = NULL; LY_ERR rc;
            if (!tree || !p) { vp_reply(id, "err NoTree"); free(p); continue; }
            rc = lyd_find_path(tree, p, is_output, &m);
            if (!rc || rc == LY_EINCOMPLETE) { struct sb s = {0}; addr_of(&s, m); vp_reply(id, rc ? "err Incomplete %s%s" : "ok %s%s", s.p, loc_probe()); free(s.p); }
            else vp_reply(id, "err %s%s", rcname(rc, eb), loc_probe());
            free(p);
        } else if (!strcmp(op, "newpath") && r.ntok == 5) {
            char *p = vp_unhex(r.tok[3], NULL), *v = strcmp(r.tok[4], "~") ? vp_unhex(r.tok[4], NULL) : NULL;
            struct lyd_node *np = NULL, *nn = NULL; LY_ERR rc;
            rc = lyd_new_path2(tree, ctx, p, v, 0, 0, is_output ? LYD_NEW_VAL_OUTPUT : 0, &np, &nn);
            if (rc) vp_reply(id, "err %s%s", rcname(rc, eb), loc_probe());
            else if (!np) vp_reply(id, "err NothingCreated%s", loc_probe());
            else {
                struct sb a = {0}, s = {0};
                addr_of(&a, lyd_parent(np)); ser_data(&s, np, 0);
                if (tree == np) tree = np->next;     /* cannot happen for a non-empty tree unless np became the first sibling */
                lyd_free_tree(np);
                if (tree) tree = lyd_first_sibling(tree);
                vp_reply(id, "ok %s %s%s", a.p, s.p, loc_probe());
                free(a.p); free(s.p);
            }
            free(p); free(v);
        } else {
            vp_reply(id, "err BadOp");
        }
    }
    free(r.line);
    lyd_free_all(tree);
    if (ctx) ly_ctx_destroy(ctx);
    return 0;
}
