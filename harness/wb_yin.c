/* White-box harness for the generic statement layer of the YIN schema printer and parser (component `yin`, property C10):
 *   prstmt <fmt> <level> <stmts>                 yprp_stmt() on every statement of the list             -> ok <hex>
 *   prext <fmt> <level> <parentopen> <ext>       yprp_extension_instance(); parentopen: flag points to 0 -> ok <hex>
 *   prsub <fmt> <level> <kw> <text|N> <exts|->   ypr_substmt() with the instances as its extension list  -> ok <hex>
 *   parse <hex xml>                              lyxml_ctx_new() + yin_parse_extension_instance() on the first element
 *                                                                               -> ok <name> <children|-> | err <Kind>
 *   resolve <hex xml> <argname|N> <yinelem>      the same, then lysp_ext_instance_resolve_argument() with that definition
 *                                                                -> ok <name> <argument|N> <children|-> | err <Kind>
 * Tree syntax (no blanks): statement S<name>:<N|E|K<keyword>>:<arg|N>:<flags>{<statements>},
 * extension instance X<name>:<argname|N>:<0|1>:<argument|N>[<instances>]{<statements>}; hex strings, `-` = empty.
 * The functions are `static`/internal: this TU includes the two source files and is linked before libyang.a. */
#define _GNU_SOURCE
#include "printer_yin.c"
#include "parser_yin.c"
#include "proto.h"

static struct ly_ctx *ctx;

/* ---- reading trees ---- */
static char *
field(const char **p, const char *stop)
{
    const char *s = *p;
    size_t n = strcspn(s, stop);
    char *r = strndup(s, n);

    *p = s + n;
    return r;
}

static const char *
dict_hex(const char *h)
{
    size_t n;
    char *s;
    const char *d = NULL;

    if (!strcmp(h, "N")) return NULL;
    s = vp_unhex(h, &n);
    lydict_insert(ctx, s, strlen(s), &d);
    free(s);
    return d;
}

static void
stmt_free(struct lysp_stmt *s)
{
    struct lysp_stmt *n;

    for ( ; s; s = n) {
        n = s->next;
        lydict_remove(ctx, s->stmt);
        lydict_remove(ctx, s->arg);
        ly_free_prefix_data(s->format, s->prefix_data);
        stmt_free(s->child);
        free(s);
    }
}

static struct lysp_stmt *rd_stmts(const char **p, int *bad);

static struct lysp_stmt *
rd_stmt(const char **p, int *bad)
{
    struct lysp_stmt *s = calloc(1, sizeof *s);
    char *f;

    ++(*p);                                  /* 'S' */
    f = field(p, ":"); s->stmt = dict_hex(f); free(f);
    if (**p == ':') ++(*p);
    f = field(p, ":");
    if (!strcmp(f, "N")) {
        s->kw = LY_STMT_NONE;
    } else if (!strcmp(f, "E")) {
        s->kw = LY_STMT_EXTENSION_INSTANCE;
    } else if (f[0] == 'K') {
        size_t n;
        char *k = vp_unhex(f + 1, &n);
        struct ly_in *in;

        ly_in_new_memory(k, &in);
        s->kw = lysp_match_kw(in, NULL);
        if ((s->kw == LY_STMT_NONE) || in->current[0]) *bad = 1;
        ly_in_free(in, 0);
        free(k);
    } else {
        *bad = 1;
    }
    free(f);
    if (**p == ':') ++(*p);
    f = field(p, ":"); s->arg = dict_hex(f); free(f);
    if (**p == ':') ++(*p);
    f = field(p, "{"); s->flags = (uint16_t)strtoul(f, NULL, 10); free(f);
    if (**p == '{') ++(*p); else *bad = 1;
    s->child = rd_stmts(p, bad);
    if (**p == '}') ++(*p); else *bad = 1;
    return s;
}

static struct lysp_stmt *
rd_stmts(const char **p, int *bad)
{
    struct lysp_stmt *first = NULL, **tail = &first;

    while ((**p == 'S') && !*bad) {
        *tail = rd_stmt(p, bad);
        tail = &(*tail)->next;
    }
    return first;
}

static void
ext_free(struct lysp_ext_instance *e)
{
    LY_ARRAY_COUNT_TYPE u;

    lydict_remove(ctx, e->name);
    lydict_remove(ctx, e->argument);
    if (e->def) {
        lydict_remove(ctx, e->def->argname);
        free(e->def);
    }
    LY_ARRAY_FOR(e->exts, u) ext_free(&e->exts[u]);
    LY_ARRAY_FREE(e->exts);
    stmt_free(e->child);
}

static LY_ERR rd_exts(const char **p, struct lysp_ext_instance **arr, enum ly_stmt parent, int *bad);

static void
rd_ext(const char **p, struct lysp_ext_instance *e, enum ly_stmt parent, int *bad)
{
    char *f;

    ++(*p);                                  /* 'X' */
    e->def = calloc(1, sizeof *e->def);
    e->parent_stmt = parent;
    e->parent_stmt_index = 0;
    f = field(p, ":"); e->name = dict_hex(f); free(f);
    if (**p == ':') ++(*p);
    f = field(p, ":"); e->def->argname = dict_hex(f); free(f);
    if (**p == ':') ++(*p);
    f = field(p, ":"); if (!strcmp(f, "1")) e->def->flags |= LYS_YINELEM_TRUE; free(f);
    if (**p == ':') ++(*p);
    f = field(p, "["); e->argument = dict_hex(f); free(f);
    if (**p == '[') ++(*p); else *bad = 1;
    rd_exts(p, &e->exts, LY_STMT_EXTENSION_INSTANCE, bad);
    if (**p == ']') ++(*p); else *bad = 1;
    if (**p == '{') ++(*p); else *bad = 1;
    e->child = rd_stmts(p, bad);
    if (**p == '}') ++(*p); else *bad = 1;
}

static LY_ERR
rd_exts(const char **p, struct lysp_ext_instance **arr, enum ly_stmt parent, int *bad)
{
    struct lysp_ext_instance *e;

    while ((**p == 'X') && !*bad) {
        LY_ARRAY_NEW_RET(ctx, *arr, e, LY_EMEM);
        rd_ext(p, e, parent, bad);
    }
    return LY_SUCCESS;
}

/* ---- writing trees ---- */
static void
stmt_ser(const struct lysp_stmt *s)
{
    for ( ; s; s = s->next) {
        fputc('S', stdout); vp_puthex(s->stmt ? s->stmt : "", s->stmt ? strlen(s->stmt) : 0); fputc(':', stdout);
        if (s->kw == LY_STMT_NONE) {
            fputc('N', stdout);
        } else if (s->kw == LY_STMT_EXTENSION_INSTANCE) {
            fputc('E', stdout);
        } else {
            const char *k = lys_stmt_str(s->kw);

            fputc('K', stdout); vp_puthex(k ? k : "", k ? strlen(k) : 0);
        }
        fputc(':', stdout);
        if (s->arg) vp_puthex(s->arg, strlen(s->arg)); else fputc('N', stdout);
        fprintf(stdout, ":%u{", (unsigned)s->flags);
        stmt_ser(s->child);
        fputc('}', stdout);
    }
}

static const char *
errname(LY_ERR r)
{
    return r == LY_EVALID ? "Valid" : r == LY_EINVAL ? "Inval" : r == LY_EINT ? "Int" : "Other";
}

static void
pctx_init(struct lys_ypr_ctx *p, struct ly_out *out, const char *fmt, const char *level)
{
    memset(p, 0, sizeof *p);
    p->out = out;
    p->level = (uint16_t)strtoul(level, NULL, 10);
    p->options = atoi(fmt) ? 0 : LYS_PRINT_SHRINK;
}

static void
reply_mem(const char *id, struct ly_out *out, char *mem)
{
    ly_print_flush(out);
    vp_begin(id, "ok"); vp_field_hex(mem ? mem : "", mem ? strlen(mem) : 0); vp_end();
    ly_out_free(out, NULL, 0);
    free(mem);
}

int
main(void)
{
    struct vp_req r = {0};
    struct lysp_yin_ctx *yctx;
    struct lysp_module *pmod;

    ly_log_options(LY_LOSTORE_LAST);
    if (ly_ctx_new(NULL, 0, &ctx)) return 2;
    if (lys_parse_mem(ctx, "module ga {namespace \"urn:ga\"; prefix ga;}", LYS_IN_YANG, NULL)) return 2;
    if (lys_parse_mem(ctx, "module gb {namespace \"urn:gb\"; prefix gb;}", LYS_IN_YANG, NULL)) return 2;
    yctx = calloc(1, sizeof *yctx);
    yctx->main_ctx = (struct lysp_ctx *)yctx;
    yctx->format = LYS_IN_YIN;
    ly_set_new(&yctx->parsed_mods);
    pmod = calloc(1, sizeof *pmod);
    ly_set_add(yctx->parsed_mods, pmod, 1, NULL);
    pmod->mod = calloc(1, sizeof *pmod->mod);
    pmod->mod->ctx = ctx;
    pmod->mod->parsed = pmod;

    while (vp_next(&r)) {
        const char *id = r.tok[0], *op = r.ntok > 2 ? r.tok[2] : "";

        if (r.ntok < 3) { vp_reply(r.ntok ? id : "?", "err BadLine"); continue; }

        if (!strcmp(op, "prstmt") && r.ntok == 6) {
            const char *p = strcmp(r.tok[5], "-") ? r.tok[5] : "";
            int bad = 0;
            struct lysp_stmt *list = rd_stmts(&p, &bad), *s;
            char *mem = NULL; struct ly_out *out; struct lys_ypr_ctx pc;

            if (bad || *p) { vp_reply(id, "err BadArg"); stmt_free(list); continue; }
            ly_out_new_memory(&mem, 0, &out);
            pctx_init(&pc, out, r.tok[3], r.tok[4]);
            for (s = list; s; s = s->next) yprp_stmt(&pc, s);
            reply_mem(id, out, mem);
            stmt_free(list);
        } else if (!strcmp(op, "prext") && r.ntok == 7) {
            const char *p = r.tok[6];
            int bad = 0;
            struct lysp_ext_instance *arr = NULL;
            char *mem = NULL; struct ly_out *out; struct lys_ypr_ctx pc;
            int8_t flag = atoi(r.tok[5]) ? 0 : 1;
            LY_ARRAY_COUNT_TYPE u;

            rd_exts(&p, &arr, LY_STMT_LEAF, &bad);
            if (bad || *p || (LY_ARRAY_COUNT(arr) != 1)) {
                vp_reply(id, "err BadArg");
            } else {
                ly_out_new_memory(&mem, 0, &out);
                pctx_init(&pc, out, r.tok[3], r.tok[4]);
                yprp_extension_instance(&pc, LY_STMT_LEAF, 0, &arr[0], &flag);
                reply_mem(id, out, mem);
            }
            LY_ARRAY_FOR(arr, u) ext_free(&arr[u]);
            LY_ARRAY_FREE(arr);
        } else if (!strcmp(op, "prsub") && r.ntok == 8) {
            const char *p = strcmp(r.tok[7], "-") ? r.tok[7] : "";
            int bad = 0;
            size_t n;
            struct lysp_ext_instance *arr = NULL;
            char *mem = NULL, *k = vp_unhex(r.tok[5], &n), *text = strcmp(r.tok[6], "N") ? vp_unhex(r.tok[6], &n) : NULL;
            struct ly_out *out; struct lys_ypr_ctx pc; struct ly_in *in;
            enum ly_stmt kw;
            LY_ARRAY_COUNT_TYPE u;

            ly_in_new_memory(k, &in);
            kw = lysp_match_kw(in, NULL);
            if ((kw == LY_STMT_NONE) || in->current[0]) bad = 1;
            ly_in_free(in, 0);
            rd_exts(&p, &arr, kw, &bad);
            if (bad || *p) {
                vp_reply(id, "err BadArg");
            } else {
                ly_out_new_memory(&mem, 0, &out);
                pctx_init(&pc, out, r.tok[3], r.tok[4]);
                ypr_substmt(&pc, kw, 0, text, arr);
                reply_mem(id, out, mem);
            }
            LY_ARRAY_FOR(arr, u) ext_free(&arr[u]);
            LY_ARRAY_FREE(arr);
            free(k); free(text);
        } else if ((!strcmp(op, "parse") && r.ntok == 4) || (!strcmp(op, "resolve") && r.ntok == 6)) {
            size_t n;
            char *s = vp_unhex(r.tok[3], &n);
            struct ly_in *in = NULL;
            struct lysp_ext_instance *exts = NULL;
            LY_ERR rc;
            LY_ARRAY_COUNT_TYPE u;
            struct lysp_ext def;

            ly_err_clean(ctx, NULL);
            ly_in_new_memory(s, &in);
            yctx->xmlctx = NULL;
            rc = lyxml_ctx_new(ctx, in, &yctx->xmlctx);
            if (!rc && (yctx->xmlctx->status != LYXML_ELEMENT)) rc = LY_EVALID;
            if (!rc) rc = yin_parse_extension_instance(yctx, NULL, LY_STMT_LEAF, 0, &exts);
            if (rc) {
                vp_reply(id, "err %s", errname(rc));
            } else if (!strcmp(op, "parse")) {
                vp_begin(id, "ok"); vp_field_hex(exts[0].name, strlen(exts[0].name)); fputc(' ', stdout);
                if (exts[0].child) stmt_ser(exts[0].child); else fputc('-', stdout);
                vp_end();
            } else {
                memset(&def, 0, sizeof def);
                def.argname = dict_hex(r.tok[4]);
                if (atoi(r.tok[5])) def.flags |= LYS_YINELEM_TRUE;
                exts[0].def = &def;
                rc = lysp_ext_instance_resolve_argument(ctx, &exts[0]);
                if (rc) {
                    vp_reply(id, "err Resolve");
                } else {
                    vp_begin(id, "ok"); vp_field_hex(exts[0].name, strlen(exts[0].name));
                    if (exts[0].argument) vp_field_hex(exts[0].argument, strlen(exts[0].argument)); else vp_field_s("N");
                    fputc(' ', stdout);
                    if (exts[0].child) stmt_ser(exts[0].child); else fputc('-', stdout);
                    vp_end();
                }
                exts[0].def = NULL;
                lydict_remove(ctx, def.argname);
            }
            LY_ARRAY_FOR(exts, u) {
                lydict_remove(ctx, exts[u].name);
                lydict_remove(ctx, exts[u].argument);
                ly_free_prefix_data(exts[u].format, exts[u].prefix_data);
                stmt_free(exts[u].child);
            }
            LY_ARRAY_FREE(exts);
            ly_set_erase(&yctx->ext_inst, NULL);
            if (yctx->xmlctx) lyxml_ctx_free(yctx->xmlctx);
            yctx->xmlctx = NULL;
            ly_in_free(in, 0);
            free(s);
        } else {
            vp_reply(id, "err BadOp");
        }
    }
    free(r.line);
    ly_set_free(yctx->parsed_mods, NULL);
    free(pmod->mod); free(pmod); free(yctx);
    ly_ctx_destroy(ctx);
    return 0;
}
