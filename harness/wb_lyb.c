/* White-box harness for the LYB framing / hashing functions (component `lyb`):
 *   chunk <ops>            replay <ops> through lyb_write_start_siblings / lyb_write / lyb_write_stop_siblings into a
 *                          memory ly_out, read the image back through lyb_read_start_siblings / lyb_read /
 *                          lyb_read_stop_siblings driven by the same shape
 *                              -> ok <image-len> <image-digest> rt=1 | ok <len> <digest> rt=0 <why> | err EINT
 *   skip <k> <ops>         same image, but the frame opened by the k-th start is passed with lyb_skip_siblings
 *                              -> ok rt=1 | ok rt=0 <why>
 *   hash <mod-hex> <name-hex> <colid>   lyb_generate_hash          -> ok <hash>
 *   jenkins <hex>                       lyht_hash                  -> ok <u32>
 *   rev <date-hex|->                    lyb_print_model + lyb_read_model on a module with that revision
 *                              -> ok <packed u16> <date-hex read back>
 *   sibs <mod-hex> <name-hex,...>       container with these leaves: lyb_print_schema_hash of every sibling, then
 *                                       lyb_parse_schema_hash of the emitted bytes
 *                              -> ok <seq-hex>:<index found> ... | err EINT
 * ops: comma separated  s | e | w:<len>:<seed> | x:<n> (n times s,e);  payload byte i = seed + i*167 + i/251.
 * digest: hex when the image has at most 48 bytes, else h:<FNV-1a 64>.
 * The functions are `static`; this TU includes the source files and is linked before libyang.a. */
#define _GNU_SOURCE
#include "printer_lyb.c"
#include "parser_lyb.c"
#include "lyb.c"
#include "proto.h"

static struct ly_ctx *ctx;

enum { OP_S, OP_E, OP_W };
struct op { int kind; size_t len; unsigned seed; };

static void
gen_payload(uint8_t *buf, size_t len, unsigned seed)
{
    for (size_t i = 0; i < len; i++) {
        buf[i] = (uint8_t)(seed + i * 167 + i / 251);
    }
}

static struct op *
parse_ops(const char *s, size_t *n)
{
    size_t cap = 64, cnt = 0;
    struct op *ops = malloc(cap * sizeof *ops);
    char *dup = strdup(s), *save = NULL, *t;

    if (!strcmp(s, "-")) { free(dup); *n = 0; return ops; }
    for (t = strtok_r(dup, ",", &save); t; t = strtok_r(NULL, ",", &save)) {
        size_t rep = 1, i;
        struct op o[2] = {{0}, {0}};
        int no = 1;

        if (!strcmp(t, "s")) { o[0].kind = OP_S; }
        else if (!strcmp(t, "e")) { o[0].kind = OP_E; }
        else if (t[0] == 'w' && t[1] == ':') {
            char *c = strchr(t + 2, ':');
            if (!c) { free(dup); free(ops); return NULL; }
            o[0].kind = OP_W; o[0].len = strtoull(t + 2, NULL, 10); o[0].seed = (unsigned)strtoul(c + 1, NULL, 10);
        } else if (t[0] == 'x' && t[1] == ':') {
            rep = strtoull(t + 2, NULL, 10); o[0].kind = OP_S; o[1].kind = OP_E; no = 2;
        } else { free(dup); free(ops); return NULL; }
        for (i = 0; i < rep; i++) {
            if (cnt + 2 > cap) { cap *= 2; ops = realloc(ops, cap * sizeof *ops); }
            ops[cnt++] = o[0];
            if (no == 2) ops[cnt++] = o[1];
        }
    }
    free(dup);
    *n = cnt;
    return ops;
}

static int
well_nested(const struct op *ops, size_t n)
{
    long d = 0;
    for (size_t i = 0; i < n; i++) {
        if (ops[i].kind == OP_S) d++;
        else if (ops[i].kind == OP_E) { if (!d) return 0; d--; }
    }
    return d == 0;
}

static uint64_t
fnv(const uint8_t *p, size_t n)
{
    uint64_t h = 14695981039346656037ULL;
    for (size_t i = 0; i < n; i++) { h ^= p[i]; h *= 1099511628211ULL; }
    return h;
}

/* replay through the printer functions; returns LY_ERR, image in *mem / *len */
static LY_ERR
write_ops(const struct op *ops, size_t n, struct ly_out *out)
{
    struct lylyb_ctx *lybctx = calloc(1, sizeof *lybctx);
    LY_ERR rc = LY_SUCCESS;
    uint8_t *buf = NULL;

    lybctx->ctx = ctx;
    for (size_t i = 0; i < n && !rc; i++) {
        switch (ops[i].kind) {
        case OP_S: rc = lyb_write_start_siblings(out, lybctx); break;
        case OP_E: rc = lyb_write_stop_siblings(out, lybctx); break;
        case OP_W:
            buf = malloc(ops[i].len + 1);
            gen_payload(buf, ops[i].len, ops[i].seed);
            rc = lyb_write(out, buf, ops[i].len, lybctx);
            free(buf);
            break;
        }
    }
    lylyb_ctx_free(lybctx);
    return rc;
}

#define PAD (1u << 20)

/* read the image back; skip_k < 0: plain; otherwise the frame of the skip_k-th start is skipped.  NULL = fine. */
static const char *
read_ops(const struct op *ops, size_t n, const uint8_t *img, size_t len, long skip_k)
{
    static char why[128];
    uint8_t *copy = calloc(1, len + PAD), *buf, *exp;
    struct ly_in *in = NULL;
    struct lylyb_ctx *lybctx = calloc(1, sizeof *lybctx);
    const char *res = NULL;
    long starts = 0;

    memcpy(copy, img, len);
    ly_in_new_memory((const char *)copy, &in);
    lybctx->ctx = ctx;
    lybctx->in = in;

    for (size_t i = 0; i < n && !res; i++) {
        switch (ops[i].kind) {
        case OP_S:
            if (lyb_read_start_siblings(lybctx)) { res = "start"; break; }
            if (starts++ == skip_k) {
                long d = 0;
                lyb_skip_siblings(lybctx);
                if (lyb_read_stop_siblings(lybctx)) { snprintf(why, sizeof why, "stop-after-skip@%zu", i); res = why; break; }
                /* pass over the ops of the skipped frame */
                for (i++; i < n; i++) {
                    if (ops[i].kind == OP_S) d++;
                    else if (ops[i].kind == OP_E) { if (!d) break; d--; }
                }
            }
            break;
        case OP_E:
            if (lyb_read_stop_siblings(lybctx)) { snprintf(why, sizeof why, "stop@%zu", i); res = why; }
            break;
        case OP_W:
            buf = malloc(ops[i].len + 1);
            exp = malloc(ops[i].len + 1);
            gen_payload(exp, ops[i].len, ops[i].seed);
            lyb_read(buf, ops[i].len, lybctx);
            if ((size_t)(in->current - in->start) > len + PAD / 2) { snprintf(why, sizeof why, "overrun@%zu", i); res = why; }
            else if (memcmp(buf, exp, ops[i].len)) { snprintf(why, sizeof why, "payload@%zu", i); res = why; }
            free(buf); free(exp);
            break;
        }
    }
    if (!res && (size_t)(in->current - in->start) != len) {
        snprintf(why, sizeof why, "consumed=%zu", (size_t)(in->current - in->start)); res = why;
    }
    if (!res && LY_ARRAY_COUNT(lybctx->siblings)) res = "open-frames";
    lybctx->in = NULL;
    lylyb_ctx_free(lybctx);
    ly_in_free(in, 0);
    free(copy);
    return res;
}

static void
op_chunk(const char *id, const char *arg, long skip_k, int is_skip)
{
    size_t n, len, flen = 0;
    struct op *ops = parse_ops(arg, &n);
    char *mem = NULL, *fmem = NULL;
    struct ly_out *out = NULL, *fout = NULL;
    FILE *f;
    const char *why = NULL;
    LY_ERR rc, frc;

    if (!ops) { vp_reply(id, "err BadArg"); return; }
    if (!well_nested(ops, n)) { vp_reply(id, "err BadOps"); free(ops); return; }

    ly_out_new_memory(&mem, 0, &out);
    rc = write_ops(ops, n, out);
    len = out->method.mem.len;
    if (rc) {
        vp_reply(id, "err %s", rc == LY_EINT ? "EINT" : "Other");
        goto cleanup;
    }

    if (!is_skip) {
        /* second law: the same operations through a FILE output (holes are buffered there) give the same image */
        f = open_memstream(&fmem, &flen);
        ly_out_new_file(f, &fout);
        frc = write_ops(ops, n, fout);
        ly_out_free(fout, NULL, 0);
        fclose(f);
        if (frc || (flen != len) || memcmp(fmem, mem ? mem : "", len)) why = "file-out-differs";
        free(fmem);
    }
    if (!why) why = read_ops(ops, n, (uint8_t *)(mem ? mem : ""), len, skip_k);

    vp_begin(id, "ok");
    if (!is_skip) {
        vp_field_u(len);
        if (len <= 48) { vp_field_hex(mem, len); }
        else { char d[40]; snprintf(d, sizeof d, "h:%llu", (unsigned long long)fnv((uint8_t *)mem, len)); vp_field_s(d); }
    }
    vp_field_s(why ? "rt=0" : "rt=1");
    if (why) vp_field_s(why);
    vp_end();

cleanup:
    ly_out_free(out, NULL, 0);
    free(mem);
    free(ops);
}

static void
op_hash(const char *id, const char *modhex, const char *namehex, const char *col)
{
    struct lys_module m = {0};
    struct lysc_node nd = {0};
    char *mod = vp_unhex(modhex, NULL), *name = vp_unhex(namehex, NULL);

    if (!mod || !name) { vp_reply(id, "err BadArg"); free(mod); free(name); return; }
    m.name = mod; nd.module = &m; nd.name = name;
    vp_reply(id, "ok %u", (unsigned)lyb_generate_hash(&nd, (uint8_t)atoi(col)));
    free(mod); free(name);
}

static void
op_rev(const char *id, const char *datehex)
{
    static unsigned cnt;
    char *date = vp_unhex(datehex, NULL), sch[256], *mem = NULL, *name = NULL, rev[LY_REV_SIZE] = "";
    struct lys_module *mod = NULL;
    struct ly_out *out = NULL;
    struct ly_in *in = NULL;
    struct lylyb_ctx *w, *r;
    unsigned packed = 0;
    size_t len;

    if (!date) { vp_reply(id, "err BadArg"); return; }
    if (date[0]) snprintf(sch, sizeof sch, "module vr%u {namespace \"urn:vr%u\"; prefix p; revision %s;}", cnt, cnt, date);
    else snprintf(sch, sizeof sch, "module vr%u {namespace \"urn:vr%u\"; prefix p;}", cnt, cnt);
    cnt++;
    if (lys_parse_mem(ctx, sch, LYS_IN_YANG, &mod)) { vp_reply(id, "err BadDate"); free(date); return; }

    w = calloc(1, sizeof *w); w->ctx = ctx;
    ly_out_new_memory(&mem, 0, &out);
    if (lyb_print_model(out, mod, 0, w)) { vp_reply(id, "err Print"); goto cleanup; }
    len = out->method.mem.len;
    packed = (uint8_t)mem[len - 2] | ((unsigned)(uint8_t)mem[len - 1] << 8);

    r = calloc(1, sizeof *r); r->ctx = ctx;
    ly_in_new_memory(mem, &in); r->in = in;
    lyb_read_model(r, &name, rev, NULL);
    r->in = NULL; lylyb_ctx_free(r); ly_in_free(in, 0);

    vp_begin(id, "ok"); vp_field_u(packed); vp_field_hex(rev, strlen(rev)); vp_end();
    free(name);
cleanup:
    lylyb_ctx_free(w);
    ly_out_free(out, NULL, 0);
    free(mem); free(date);
}

static void
op_sibs(const char *id, const char *modhex, const char *names)
{
    char *mod = vp_unhex(modhex, NULL), *dup = strdup(names), *save = NULL, *t, *sch, *mem = NULL;
    struct ly_ctx *c2 = NULL;
    struct lys_module *m = NULL;
    const struct lysc_node *cont, *sib, *found;
    struct ly_out *out = NULL;
    struct lylyb_ctx *w = NULL;
    struct ly_ht *sibling_ht = NULL;
    size_t o, cap = strlen(names) * 16 + 1024, nn = 0;
    char **res = NULL;
    int eint = 0;

    ly_ctx_new(NULL, 0, &c2);
    sch = malloc(cap);
    o = snprintf(sch, cap, "module %s {namespace \"urn:vs\"; prefix p; container c {", mod);
    for (t = strtok_r(dup, ",", &save); t; t = strtok_r(NULL, ",", &save)) {
        char *n = vp_unhex(t, NULL);
        o += snprintf(sch + o, cap - o, " leaf %s {type string;}", n);
        free(n); nn++;
    }
    snprintf(sch + o, cap - o, " } }");
    if (lys_parse_mem(c2, sch, LYS_IN_YANG, &m)) { vp_reply(id, "err BadSchema"); goto cleanup; }
    lyb_cache_module_hash(m);
    cont = m->compiled->data;
    res = calloc(nn + 1, sizeof *res);

    w = calloc(1, sizeof *w); w->ctx = c2;
    nn = 0;
    for (sib = lysc_node_child(cont); sib; sib = sib->next, nn++) {
        struct lyd_lyb_ctx p = {0};
        struct ly_in *in = NULL;
        size_t len, idx = 0;
        const struct lysc_node *s2;
        char *img;

        ly_out_new_memory(&mem, 0, &out);
        if (lyb_print_schema_hash(out, (struct lysc_node *)sib, &sibling_ht, w)) { eint = 1; ly_out_free(out, NULL, 0); free(mem); mem = NULL; break; }
        len = out->method.mem.len;
        img = calloc(1, len + 16);
        memcpy(img, mem, len); img[len] = (char)0xff;
        ly_out_free(out, NULL, 0);

        p.lybctx = calloc(1, sizeof *p.lybctx);
        p.lybctx->ctx = c2;
        ly_in_new_memory(img, &in); p.lybctx->in = in;
        {
            const struct lys_module **mp;
            LY_ARRAY_NEW_GOTO(c2, p.lybctx->models, mp, eint, skipmodels);
            *mp = m;
        }
skipmodels:
        found = NULL;
        if (lyb_parse_schema_hash(&p, cont, NULL, &found)) found = NULL;
        res[nn] = malloc(2 * len + 32);
        for (size_t k = 0; k < len; k++) sprintf(res[nn] + 2 * k, "%02x", (uint8_t)mem[k]);
        if ((size_t)(in->current - in->start) != len) sprintf(res[nn] + 2 * len, ":bad");
        else if (!found) sprintf(res[nn] + 2 * len, ":none");
        else {
            for (s2 = lysc_node_child(cont); s2 && s2 != found; s2 = s2->next) idx++;
            sprintf(res[nn] + 2 * len, ":%zu", idx);
        }
        p.lybctx->in = NULL; lylyb_ctx_free(p.lybctx); ly_in_free(in, 0);
        free(img); free(mem); mem = NULL;
    }
    if (eint) { vp_reply(id, "err EINT"); }
    else {
        vp_begin(id, "ok");
        for (size_t k = 0; k < nn; k++) vp_field_s(res[k]);
        vp_end();
    }
cleanup:
    if (res) { for (size_t k = 0; res[k]; k++) free(res[k]); free(res); }
    if (w) lylyb_ctx_free(w);
    ly_ctx_destroy(c2);
    free(sch); free(dup); free(mod);
}

int
main(void)
{
    struct vp_req r = {0};

    ly_log_options(LY_LOSTORE_LAST);
    if (ly_ctx_new(NULL, 0, &ctx)) return 2;

    while (vp_next(&r)) {
        const char *id = r.tok[0], *op = r.ntok > 2 ? r.tok[2] : "";

        if (r.ntok < 3) { vp_reply(r.ntok ? id : "?", "err BadLine"); continue; }
        ly_err_clean(ctx, NULL);

        if (!strcmp(op, "chunk") && r.ntok == 4) {
            op_chunk(id, r.tok[3], -1, 0);
        } else if (!strcmp(op, "skip") && r.ntok == 5) {
            op_chunk(id, r.tok[4], atol(r.tok[3]), 1);
        } else if (!strcmp(op, "hash") && r.ntok == 6) {
            op_hash(id, r.tok[3], r.tok[4], r.tok[5]);
        } else if (!strcmp(op, "jenkins") && r.ntok == 4) {
            size_t n; char *k = vp_unhex(r.tok[3], &n);
            if (!k) { vp_reply(id, "err BadHex"); continue; }
            vp_reply(id, "ok %u", (unsigned)lyht_hash(k, n));
            free(k);
        } else if (!strcmp(op, "rev") && r.ntok == 4) {
            op_rev(id, r.tok[3]);
        } else if (!strcmp(op, "sibs") && r.ntok == 5) {
            op_sibs(id, r.tok[3], r.tok[4]);
        } else if (!strcmp(op, "leakcheck")) {
            vp_reply(id, VP_LEAKCHECK() ? "err Leak" : "ok");
        } else {
            vp_reply(id, "err BadOp");
        }
    }
    free(r.line);
    ly_ctx_destroy(ctx);
    return 0;
}
