/* API harness of the LYB tree level (component `lybtree`, C01).  Public API only; sanitised build.
 *
 *   print <dsl> <yang-hex> <wd> <dump>      schema registered under the key <dsl> (context with ietf-netconf-with-defaults when
 *                                           VERIF_YANG_DIR is set), tree built from the dump (tp_load, flags of the dump applied),
 *                                           lyd_print_mem(LYD_LYB, LYD_PRINT_WITHSIBLINGS | wd)
 *                                             -> ok <dump of the built tree, hex> <LYB bytes, hex> <lyd_lyb_data_length>
 *                                             |  err Schema | Build | Print<LY_ERR>
 *   printm <dsl> <yang-hex> <wd> <dump>     the same for a CANONICAL dump (as `print` returns it) whose metadata tokens `module:name=hex` are attached
 *                                           with lyd_new_meta first  -> ok <dump> <LYB> <length> | err Build | Meta<LY_ERR> | NotCanonical | Print<LY_ERR>
 *   parse <dsl> <yang-hex> <lyb-hex>        lyd_parse_data_mem(LYD_LYB, LYD_PARSE_ONLY | LYD_PARSE_STRICT | LYD_PARSE_ORDERED)
 *                                             -> ok <dump, hex> | err Parse<LY_ERR>
 *   metaskip <value-hex>                    finding F331: context A has modules `ann` (md:annotation hint, string) and `dat`, context B only `dat`;
 *                                           /dat:x="val" with metadata ann:hint=<value>, /dat:y=7 printed as LYB in A and parsed in B with
 *                                           LYD_PARSE_ONLY (not strict: the annotation of the unknown module is to be skipped)
 *                                             -> ok <JSON of the parsed tree, hex> | err Parse<LY_ERR>
 *   leakcheck
 *   wd: explicit | trim | all | all-tag | impl-tag, or single:<wd> = lyd_print_tree() of the first top-level node (no LYD_PRINT_WITHSIBLINGS)                                                                                */
#define _GNU_SOURCE
#include "treeproto.h"

/* `single:<wd>`: print with lyd_print_tree (no LYD_PRINT_WITHSIBLINGS) */
static int
is_single(const char *wd)
{
    return !strncmp(wd, "single:", 7);
}

static LY_ERR
print_lyb(struct ly_out *out, const struct lyd_node *forest, const char *wd);

static uint32_t
wd_flag(const char *wd)
{
    if (is_single(wd)) wd += 7;
    if (!strcmp(wd, "trim")) return LYD_PRINT_WD_TRIM;
    if (!strcmp(wd, "all")) return LYD_PRINT_WD_ALL;
    if (!strcmp(wd, "all-tag")) return LYD_PRINT_WD_ALL_TAG;
    if (!strcmp(wd, "impl-tag")) return LYD_PRINT_WD_IMPL_TAG;
    return LYD_PRINT_WD_EXPLICIT;
}

static LY_ERR
print_lyb(struct ly_out *out, const struct lyd_node *forest, const char *wd)
{
    if (is_single(wd)) return lyd_print_tree(out, forest, LYD_LYB, wd_flag(wd));
    return lyd_print_all(out, forest, LYD_LYB, wd_flag(wd));
}

static const struct tp_schema *
get_schema(const char *key, const char *yanghex)
{
    struct tp_schema *s = tp_schema_get(key);
    char *yang;

    if (s) return s;
    yang = vp_unhex(yanghex, NULL);
    if (!yang) return NULL;
    s = tp_schema_register(key, yang);
    free(yang);
    return s;
}

static void
op_print(const char *id, const char *key, const char *yanghex, const char *wd, const char *dumphex)
{
    const struct tp_schema *s = get_schema(key, yanghex);
    char *text = NULL, *mem = NULL;
    struct lyd_node *forest = NULL;
    struct tp_buf b = {0};
    struct ly_out *out = NULL;
    LY_ERR r;

    if (!s) { vp_reply(id, "err Schema"); return; }
    text = vp_unhex(dumphex, NULL);
    if (!text || tp_load(s, text, 1, &forest)) { vp_reply(id, "err Build"); goto cleanup; }
    tp_dump(s, forest, &b);
    if (ly_out_new_memory(&mem, 0, &out)) { vp_reply(id, "err Out"); goto cleanup; }
    r = print_lyb(out, forest, wd);
    if (r) { vp_reply(id, "err Print%s", tp_errname(r)); goto cleanup; }
    vp_begin(id, "ok");
    if (b.len) vp_field_hex(b.s, b.len); else vp_field_s("-");
    vp_field_hex(mem, ly_out_printed(out));
    fprintf(stdout, " %d", lyd_lyb_data_length(mem));
    vp_end();
cleanup:
    ly_out_free(out, NULL, 0);
    free(mem);
    free(b.s);
    free(text);
    lyd_free_all(forest);
}

static int
collect(struct lyd_node *first, struct lyd_node **arr, int k, int max)
{
    struct lyd_node *n, *c;

    for (n = first; n; n = n->next) {
        if (k < max) arr[k] = n;
        k++;
        c = lyd_child(n);
        if (c) k = collect(c, arr, k, max);
    }
    return k;
}

/* print of a tree WITH the metadata of the dump (tokens `module:name=hex`); the dump must be canonical (as returned by `print`) */
static void
op_printm(const char *id, const char *key, const char *yanghex, const char *wd, const char *dumphex)
{
    const struct tp_schema *s = get_schema(key, yanghex);
    char *text = NULL, *mem = NULL;
    struct lyd_node *forest = NULL, *arr[TP_MAXNODES * 8];
    struct tp_tok *t = NULL;
    struct tp_buf b = {0};
    struct ly_out *out = NULL;
    int n = 0, k, i, j;
    LY_ERR r = LY_SUCCESS;

    if (!s) { vp_reply(id, "err Schema"); return; }
    text = vp_unhex(dumphex, NULL);
    if (!text || tp_load(s, text, 1, &forest)) { vp_reply(id, "err Build"); goto cleanup; }
    n = tp_parse(s, text, &t);
    k = collect(forest, arr, 0, TP_MAXNODES * 8);
    if (n < 0 || n != k || k > TP_MAXNODES * 8) { vp_reply(id, "err Build"); goto cleanup; }
    for (i = 0; i < n && !r; i++) {
        for (j = 0; j < t[i].nmeta && !r; j++) {
            char *eq = strchr(t[i].meta[j], '='), *val;

            if (!eq) { r = LY_EINVAL; break; }
            *eq = 0;
            val = vp_unhex(eq + 1, NULL);
            r = val ? lyd_new_meta(s->ctx, arr[i], NULL, t[i].meta[j], val, 0, NULL) : LY_EINVAL;
            *eq = '=';
            free(val);
        }
    }
    if (r) { vp_reply(id, "err Meta%s", tp_errname(r)); goto cleanup; }
    tp_dump(s, forest, &b);
    if (strcmp(b.s ? b.s : "", text)) { vp_reply(id, "err NotCanonical"); goto cleanup; }
    if (ly_out_new_memory(&mem, 0, &out)) { vp_reply(id, "err Out"); goto cleanup; }
    r = print_lyb(out, forest, wd);
    if (r) { vp_reply(id, "err Print%s", tp_errname(r)); goto cleanup; }
    vp_begin(id, "ok");
    vp_field_hex(b.s, b.len);
    vp_field_hex(mem, ly_out_printed(out));
    fprintf(stdout, " %d", lyd_lyb_data_length(mem));
    vp_end();
cleanup:
    if (t) tp_toks_free(t, n);
    ly_out_free(out, NULL, 0);
    free(mem);
    free(b.s);
    free(text);
    lyd_free_all(forest);
}

static void
op_parse(const char *id, const char *key, const char *yanghex, const char *lybhex)
{
    const struct tp_schema *s = get_schema(key, yanghex);
    size_t len = 0;
    char *img = NULL, *padded = NULL;
    struct lyd_node *forest = NULL;
    struct ly_in *in = NULL;
    struct tp_buf b = {0};
    LY_ERR r;

    if (!s) { vp_reply(id, "err Schema"); return; }
    img = vp_unhex(lybhex, &len);
    if (!img) { vp_reply(id, "err BadArg"); return; }
    /* the LYB reader does not know the length of its input: give it zero padding behind the image */
    padded = calloc(1, len + 64);
    memcpy(padded, img, len);
    ly_in_new_memory(padded, &in);
    r = lyd_parse_data(s->ctx, NULL, in, LYD_LYB, LYD_PARSE_ONLY | LYD_PARSE_STRICT | LYD_PARSE_ORDERED, 0, &forest);
    if (r) { vp_reply(id, "err Parse%s", tp_errname(r)); goto cleanup; }
    tp_dump(s, forest, &b);
    vp_begin(id, "ok");
    if (b.len) vp_field_hex(b.s, b.len); else vp_field_s("-");
    vp_end();
cleanup:
    ly_in_free(in, 0);
    free(b.s);
    free(img);
    free(padded);
    lyd_free_all(forest);
}

static void
op_metaskip(const char *id, const char *valhex)
{
    static const char *ann = "module ann {yang-version 1.1; namespace \"urn:ann\"; prefix a; import ietf-yang-metadata {prefix md;} "
            "md:annotation hint {type string;}}";
    static const char *dat = "module dat {yang-version 1.1; namespace \"urn:dat\"; prefix d; leaf x {type string;} leaf y {type uint8;}}";
    const char *dir = getenv("VERIF_YANG_DIR");
    struct ly_ctx *c1 = NULL, *c2 = NULL;
    struct lyd_node *t = NULL, *t2 = NULL, *n;
    char *val = vp_unhex(valhex, NULL), *buf = NULL, *json = NULL, *padded = NULL;
    int len;
    LY_ERR r;

    if (!val || ly_ctx_new(dir, 0, &c1) || ly_ctx_new(dir, 0, &c2) || lys_parse_mem(c1, ann, LYS_IN_YANG, NULL) ||
            lys_parse_mem(c1, dat, LYS_IN_YANG, NULL) || lys_parse_mem(c2, dat, LYS_IN_YANG, NULL)) { vp_reply(id, "err Schema"); goto cleanup; }
    if (lyd_new_path(NULL, c1, "/dat:x", "val", 0, &t) || lyd_new_meta(c1, t, NULL, "ann:hint", val, 0, NULL) ||
            lyd_new_path(t, c1, "/dat:y", "7", 0, &n)) { vp_reply(id, "err Build"); goto cleanup; }
    if (lyd_print_mem(&buf, t, LYD_LYB, LYD_PRINT_WITHSIBLINGS)) { vp_reply(id, "err Print"); goto cleanup; }
    len = lyd_lyb_data_length(buf);
    padded = calloc(1, (len > 0 ? len : 0) + 64);
    memcpy(padded, buf, len > 0 ? len : 0);
    r = lyd_parse_data_mem(c2, padded, LYD_LYB, LYD_PARSE_ONLY, 0, &t2);
    if (r) { vp_reply(id, "err Parse%s", tp_errname(r)); goto cleanup; }
    lyd_print_mem(&json, t2, LYD_JSON, LYD_PRINT_WITHSIBLINGS | LYD_PRINT_SHRINK);
    vp_begin(id, "ok");
    if (json && json[0]) vp_field_hex(json, strlen(json)); else vp_field_s("-");
    vp_end();
cleanup:
    lyd_free_all(t); lyd_free_all(t2);
    free(buf); free(json); free(padded); free(val);
    ly_ctx_destroy(c1); ly_ctx_destroy(c2);
}

int
main(void)
{
    struct vp_req r = {0};

    ly_log_options(getenv("VP_VERBOSE") ? LY_LOLOG : 0);
    while (vp_next(&r)) {
        const char *id = r.tok[0], *op = r.ntok > 2 ? r.tok[2] : "";

        if (r.ntok < 3) { vp_reply(r.ntok ? id : "?", "err BadLine"); continue; }
        if (!strcmp(op, "print") && r.ntok == 7) {
            op_print(id, r.tok[3], r.tok[4], r.tok[5], r.tok[6]);
        } else if (!strcmp(op, "printm") && r.ntok == 7) {
            op_printm(id, r.tok[3], r.tok[4], r.tok[5], r.tok[6]);
        } else if (!strcmp(op, "parse") && r.ntok == 6) {
            op_parse(id, r.tok[3], r.tok[4], r.tok[5]);
        } else if (!strcmp(op, "metaskip") && r.ntok == 4) {
            op_metaskip(id, r.tok[3]);
        } else if (!strcmp(op, "leakcheck")) {
            tp_schema_free_all();
            vp_reply(id, VP_LEAKCHECK() ? "err Leak" : "ok");
        } else {
            vp_reply(id, "err BadOp");
        }
    }
    tp_schema_free_all();
    free(r.line);
    return 0;
}
