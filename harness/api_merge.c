/* API harness of component `merge` (C14: lyd_merge_*, lyd_dup_*).  Public API only; sanitised build.
 *
 *   schema <dsl> <yang-hex>                    register the schema (two contexts with the same module)   -> ok <n> <node-summary>*
 *   build <dsl> <dump>                         build explicit nodes, validate (adds defaults)            -> ok <dump> | err Invalid   [impl only]
 *   merge <dsl> <T> <S> <opts> <api>           lyd_merge_siblings / _tree / _module (api 0/1/2)         -> ok <dump> <ptr>
 *   dup <dsl> <tree> <idx> <opts> <mode>       lyd_dup_single / _siblings / *_to_ctx (mode 0/1/2/3)     -> ok <dump> <idx-of-returned-node>
 *   mlaw <dsl> <T> <S> <opts> <with-destruct>  C14's merge laws evaluated on the implementation          -> ok <name>=<verdict>*     [impl only]
 *   dlaw <dsl> <tree> <idx> <opts> <mode> <seed>   dup laws + independence script                       -> ok <name>=<verdict>*     [impl only]
 *   indep <dsl> <T> <S> <opts> <seed>          independence after a merge (edits / frees of either side) -> ok <name>=<verdict>*     [impl only]
 *   leakcheck                                                                                          -> ok <n>
 * Trees travel as hex(canonical dump) (treeproto.h); unlike tp_load this harness also attaches the metadata of the dump.
 * <opts> are libyang's own bit values (LYD_MERGE_*, LYD_DUP_*).  <ptr>: how many siblings precede *target after the merge.
 * The independence ops are a sanitised law check (aliasing cannot be exhibited by the pure model): any ASan/UBSan report
 * aborts the harness and is recorded as a failure by the orchestrator.                                                       */
#define _GNU_SOURCE
#include "treeproto.h"

/* ---- a compact last line for sanitizer reports (the orchestrator keeps only the tail of stderr) ------------------------------ */
static char marks[160];                  /* what the edit scripts of the current request did that a finding predicate looks at */

static void
mark(const char *m)
{
    if (!strstr(marks, m) && (strlen(marks) + strlen(m) + 2 < sizeof marks)) {
        strcat(marks, m);
        strcat(marks, ",");
    }
}

#if defined(__has_feature)
# if __has_feature(address_sanitizer)
void __asan_set_error_report_callback(void (*cb)(const char *));

static void
asan_report_cb(const char *report)
{
    const char *p = report, *q, *e;
    int frames = 0;
    char kind[64] = "?";

    if ((q = strstr(report, "AddressSanitizer: "))) {
        q += 18;
        e = q + strcspn(q, " \n");
        snprintf(kind, sizeof kind, "%.*s", (int)(e - q), q);
    }
    fprintf(stderr, "\n[verif-asan] kind=%s marks=%s top=", kind, marks);
    while (frames < 8 && (p = strstr(p, "\n    #"))) {
        p += 1;
        e = strchr(p, '\n');
        q = strstr(p, " in ");
        if (!q || (e && q > e)) break;
        q += 4;
        fprintf(stderr, "%s%.*s", frames ? "<" : "", (int)strcspn(q, " \n"), q);
        ++frames;
        if (e && (e[1] == '\n')) break;       /* end of the first stack */
    }
    fprintf(stderr, "\n");
}
#  define VERIF_ASAN_CB() __asan_set_error_report_callback(asan_report_cb)
# endif
#endif
#ifndef VERIF_ASAN_CB
# define VERIF_ASAN_CB() ((void)0)
#endif

/* ---- registry: yang text per schema (fresh contexts for the cross-context ops) ------------------------------------------ */
struct reg { char *key; char *yang; struct tp_schema *s, *s2; struct reg *next; };
static struct reg *regs;

static struct reg *
reg_get(const char *key)
{
    struct reg *r;

    for (r = regs; r; r = r->next) if (!strcmp(r->key, key)) return r;
    return NULL;
}

/* a schema object that is not in treeproto's registry (own context, destroyed by tmp_schema_free) */
static struct tp_schema *
tmp_schema(const char *yang)
{
    struct tp_schema *s = calloc(1, sizeof *s);
    const struct lysc_node *n;
    const char *dir = getenv("VERIF_YANG_DIR");

    if (ly_ctx_new(dir, 0, &s->ctx)) { free(s); return NULL; }
    if (dir && !ly_ctx_load_module(s->ctx, "ietf-netconf-with-defaults", NULL, NULL)) { ly_ctx_destroy(s->ctx); free(s); return NULL; }
    if (lys_parse_mem(s->ctx, yang, LYS_IN_YANG, &s->mod)) { ly_ctx_destroy(s->ctx); free(s); return NULL; }
    for (n = s->mod->compiled->data; n; n = n->next) tp_schema_walk(s, n);
    return s;
}

static void
tmp_schema_free(struct tp_schema *s)
{
    if (!s) return;
    ly_ctx_destroy(s->ctx);
    free(s);
}

static void
dbgmsg(const struct tp_schema *s, const char *what)
{
    const struct ly_err_item *e;

    if (!getenv("VERIF_VERBOSE")) return;
    e = ly_err_last(s->ctx);
    fprintf(stderr, "[%s] %s | %s\n", what, e ? e->msg : "(no error)", (e && e->data_path) ? e->data_path : "");
}

/* ---- trees ------------------------------------------------------------------------------------------------------------ */
static char *
dumps(const struct tp_schema *s, const struct lyd_node *t)
{
    struct tp_buf b = {0};

    tp_dump(s, t, &b);
    return b.s ? b.s : strdup("");
}

static int
collect(struct lyd_node *forest, struct lyd_node **arr, int cap)
{
    struct lyd_node *root, *e;
    int n = 0;

    LY_LIST_FOR(forest ? lyd_first_sibling(forest) : NULL, root) {
        LYD_TREE_DFS_BEGIN(root, e) {
            if (n < cap) arr[n++] = e;
            LYD_TREE_DFS_END(root, e);
        }
    }
    return n;
}

/* tp_load + the metadata of the dump (tokens `name=hex`, module `yang` implied); requires a canonical dump */
static LY_ERR
load_tree(const struct tp_schema *s, const char *text, struct lyd_node **out)
{
    struct tp_tok *t = NULL;
    struct lyd_node *arr[TP_MAXNODES * 4];
    int n, k, i, j;
    LY_ERR r;
    char *d;

    *out = NULL;
    if ((r = tp_load(s, text, 1, out))) return r;
    n = tp_parse(s, text, &t);
    if (n < 0) { lyd_free_all(*out); *out = NULL; return LY_EINVAL; }
    k = collect(*out, arr, TP_MAXNODES * 4);
    for (i = 0; i < n && i < k && !r; i++) {
        for (j = 0; j < t[i].nmeta && !r; j++) {
            char *eq = strchr(t[i].meta[j], '='), name[160], *val;

            if (!eq) { r = LY_EINVAL; break; }
            *eq = 0;
            val = vp_unhex(eq + 1, NULL);
            snprintf(name, sizeof name, "%s%s", strchr(t[i].meta[j], ':') ? "" : "yang:", t[i].meta[j]);
            *eq = '=';
            if (!val) { r = LY_EINVAL; break; }
            r = lyd_new_meta(s->ctx, arr[i], NULL, name, val, 0, NULL);
            free(val);
        }
    }
    tp_toks_free(t, n);
    if (!r) {
        d = dumps(s, *out);
        if (strcmp(d, text)) r = LY_EOTHER;
        free(d);
    }
    if (r) { lyd_free_all(*out); *out = NULL; }
    return r;
}

static int
arg_tree(const char *id, const struct tp_schema *s, const char *tok, struct lyd_node **t)
{
    char *text = vp_unhex(tok, NULL);
    LY_ERR r;

    *t = NULL;
    if (!text) { vp_reply(id, "err BadHex"); return 1; }
    r = load_tree(s, text, t);
    free(text);
    if (r == LY_EOTHER) { vp_reply(id, "err NonCanonical"); return 1; }
    if (r) { dbgmsg(s, "load"); vp_reply(id, "err BadTree"); return 1; }
    return 0;
}

static unsigned
nprev(const struct lyd_node *n)
{
    unsigned k = 0;

    for ( ; n && n->prev->next; n = n->prev) ++k;
    return k;
}

/* the dump rebuilt node by node through the inserting API is the same tree (sibling order is libyang's order) */
static int
is_canonical(const struct tp_schema *s, const struct lyd_node *t)
{
    char *d;
    struct lyd_node *x = NULL;
    LY_ERR r;

    if (t && t->schema && lysc_data_parent(t->schema)) return 1;    /* nested nodes without their parents: cannot be rebuilt */
    d = dumps(s, t);
    r = load_tree(s, d, &x);
    lyd_free_all(x);
    free(d);
    return r == LY_SUCCESS;
}

static int
under_dupinst(const struct lyd_node *n)
{
    for ( ; n; n = lyd_parent(n)) if (n->schema && lysc_is_dup_inst_list(n->schema)) return 1;
    return 0;
}

static void
set_new_all(struct lyd_node *t)
{
    struct lyd_node *root, *e;

    LY_LIST_FOR(t, root) {
        LYD_TREE_DFS_BEGIN(root, e) {
            e->flags |= LYD_NEW;
            LYD_TREE_DFS_END(root, e);
        }
    }
}

/* ---- merge ------------------------------------------------------------------------------------------------------------ */
struct cbstat { int calls, bad; };

static LY_ERR
merge_cb(struct lyd_node *trg, const struct lyd_node *src, void *data)
{
    struct cbstat *c = data;

    c->calls++;
    if (!trg || (src && (src->schema != trg->schema))) c->bad++;
    return LY_SUCCESS;
}

static LY_ERR
do_merge(const struct tp_schema *s, struct lyd_node **T, struct lyd_node *S, unsigned o, int api, struct cbstat *cs)
{
    struct cbstat local = {0};

    if (api == 1) return lyd_merge_tree(T, S, (uint16_t)o);
    if (api == 2) return lyd_merge_module(T, S, s->mod, merge_cb, cs ? cs : &local, (uint16_t)o);
    return lyd_merge_siblings(T, S, (uint16_t)o);
}

static void
op_merge(const char *id, const struct tp_schema *s, const char *ttok, const char *stok, unsigned o, int api)
{
    struct lyd_node *T, *S;
    struct cbstat cs = {0};
    LY_ERR r;

    if (arg_tree(id, s, ttok, &T)) return;
    if (arg_tree(id, s, stok, &S)) { lyd_free_all(T); return; }
    /* api bit 4 / 8: the target / the source is replaced by its duplicate first - same content and flags, but its system-ordered
     * (leaf-)lists carry no sorting tree (as after lyd_dup_* or a parse with LYD_PARSE_ORDERED) */
    if ((api & 4) && T) {
        struct lyd_node *d = NULL;
        if (!lyd_dup_siblings(T, NULL, LYD_DUP_RECURSIVE | LYD_DUP_WITH_FLAGS, &d)) { lyd_free_all(T); T = d; }
    }
    if ((api & 8) && S) {
        struct lyd_node *d = NULL;
        if (!lyd_dup_siblings(S, NULL, LYD_DUP_RECURSIVE | LYD_DUP_WITH_FLAGS, &d)) { lyd_free_all(S); S = d; }
    }
    api &= 3;
    r = do_merge(s, &T, S, o, api, &cs);
    if (r) {
        dbgmsg(s, "merge");
        vp_reply(id, "err %s", tp_errname(r));
    } else if (cs.bad) {
        vp_reply(id, "err Callback");
    } else {
        vp_begin(id, "ok"); tp_field_dump(s, T); vp_field_u(nprev(T)); vp_end();
    }
    lyd_free_all(T);
    if (!(o & LYD_MERGE_DESTRUCT) || r) {
        /* a failed consuming merge has freed what it did not merge (documented: the source cannot be used afterwards) */
        if (!(o & LYD_MERGE_DESTRUCT)) lyd_free_all(S);
    }
}

/* every node of `from` (outside duplicate-instance lists) looked up by path in `in`; counts the violations of
 *   mode 0  contains:  an explicit node of the source (any node with LYD_MERGE_DEFAULTS) is in the result with the source's value
 *   mode 1  containsx: … and is not flagged default there unless the source node is
 *   mode 2  keeps:     a target node whose path the source does not contain is in the result with the same value and flags   */
static int
path_law(const struct tp_schema *s, struct lyd_node *from, struct lyd_node *other, struct lyd_node *res, unsigned o, int mode,
        int *checked)
{
    struct lyd_node *arr[TP_MAXNODES * 4], *m, *m2;
    int n = collect(from, arr, TP_MAXNODES * 4), i, bad = 0;
    char *path;

    for (i = 0; i < n; i++) {
        struct lyd_node *e = arr[i];

        if (under_dupinst(e)) continue;
        if ((mode < 2) && (e->flags & LYD_DEFAULT) && !(o & LYD_MERGE_DEFAULTS)) continue;
        path = lyd_path(e, LYD_PATH_STD, NULL, 0);
        if (!path) { bad++; continue; }
        m = NULL;
        if (mode == 2) {
            m2 = NULL;
            if (other && !lyd_find_path(other, path, 0, &m2) && m2) { free(path); continue; }   /* the source has it */
        }
        (*checked)++;
        if (!res || lyd_find_path(res, path, 0, &m) || !m) {
            bad++;
        } else if ((e->schema->nodetype & LYD_NODE_TERM) && strcmp(lyd_get_value(e), lyd_get_value(m))) {
            bad++;
        } else if ((mode == 1) && (m->flags & LYD_DEFAULT) && !(e->flags & LYD_DEFAULT)) {
            bad++;
        } else if ((mode == 2) && ((m->flags & TP_FLAGMASK) != (e->flags & TP_FLAGMASK))) {
            bad++;
        }
        free(path);
    }
    return bad;
}

static void
op_mlaw(const char *id, const struct tp_schema *s, const char *ttok, const char *stok, unsigned o, int with_destruct)
{
    struct lyd_node *T = NULL, *S = NULL, *T1 = NULL, *T2 = NULL, *S2 = NULL, *E = NULL, *D = NULL, *Rc = NULL;
    char *ttext = vp_unhex(ttok, NULL), *stext = vp_unhex(stok, NULL);
    char *s0 = NULL, *s1 = NULL, *r1 = NULL, *r2 = NULL, *r3 = NULL, *e1 = NULL, *d1 = NULL;
    unsigned oc = o & ~LYD_MERGE_DESTRUCT;
    LY_ERR r;
    int checked = 0, bad;

    if (!ttext || !stext || load_tree(s, ttext, &T) || load_tree(s, stext, &S) || load_tree(s, ttext, &T1) ||
            load_tree(s, ttext, &T2) || load_tree(s, stext, &S2)) {
        vp_reply(id, "err BadTree");
        goto done;
    }
    vp_begin(id, "ok");
    s0 = dumps(s, S);
    /* copying merge */
    r = lyd_merge_siblings(&T1, S, (uint16_t)oc);
    fprintf(stdout, " merge=%s", tp_errname(r));
    if (r) goto out;
    r1 = dumps(s, T1);
    s1 = dumps(s, S);
    fprintf(stdout, " srcpure=%d ptr=%u canon=%d", !strcmp(s0, s1), nprev(T1), is_canonical(s, T1));
    /* content */
    bad = path_law(s, S, NULL, T1, o, 0, &checked);
    fprintf(stdout, " contains=%d", bad);
    bad = path_law(s, S, NULL, T1, o, 1, &checked);
    fprintf(stdout, " containsx=%d", bad);
    bad = path_law(s, T, S, T1, o, 2, &checked);
    fprintf(stdout, " keeps=%d checked=%d", bad, checked);
    /* consuming merge gives the same tree */
    if (with_destruct) {
        r = lyd_merge_siblings(&T2, S2, (uint16_t)(oc | LYD_MERGE_DESTRUCT));
        S2 = NULL;
        fprintf(stdout, " dmerge=%s", tp_errname(r));
    } else {
        r = LY_ENOT;
    }
    if (!r) {
        r2 = dumps(s, T2);
        fprintf(stdout, " destruct=%d dptr=%u dcanon=%d", !strcmp(r1, r2), nprev(T2), is_canonical(s, T2));
    }
    /* idempotent */
    lyd_dup_siblings(T1, NULL, LYD_DUP_RECURSIVE | LYD_DUP_WITH_FLAGS, &Rc);
    r = lyd_merge_siblings(&T1, S, (uint16_t)oc);
    fprintf(stdout, " merge2=%s", tp_errname(r));
    if (!r) {
        r3 = dumps(s, T1);
        fprintf(stdout, " idem=%d idemcmp=%d", !strcmp(r1, r3),
                lyd_compare_siblings(T1, Rc, LYD_COMPARE_FULL_RECURSION | LYD_COMPARE_DEFAULTS) == LY_SUCCESS);
    }
    /* into the empty target = copy of the source */
    r = lyd_merge_siblings(&E, S, (uint16_t)oc);
    fprintf(stdout, " emerge=%s", tp_errname(r));
    if (!r) {
        if (S) lyd_dup_siblings(S, NULL, LYD_DUP_RECURSIVE | LYD_DUP_WITH_FLAGS, &D);
        if (!(o & LYD_MERGE_WITH_FLAGS)) set_new_all(D);
        e1 = dumps(s, E);
        d1 = dumps(s, D);
        fprintf(stdout, " empty=%d emptycmp=%d", !strcmp(e1, d1),
                lyd_compare_siblings(E, S, LYD_COMPARE_FULL_RECURSION | LYD_COMPARE_DEFAULTS) == LY_SUCCESS);
    }
out:
    vp_end();
done:
    lyd_free_all(T); lyd_free_all(S); lyd_free_all(T1); lyd_free_all(T2); lyd_free_all(S2); lyd_free_all(E); lyd_free_all(D);
    lyd_free_all(Rc);
    free(ttext); free(stext); free(s0); free(s1); free(r1); free(r2); free(r3); free(e1); free(d1);
}

/* ---- random edit scripts ---------------------------------------------------------------------------------------------- */
static uint64_t rng_state;

static unsigned
rnd(unsigned n)
{
    rng_state = rng_state * 6364136223846793005ULL + 1442695040888963407ULL;
    return n ? (unsigned)((rng_state >> 33) % n) : 0;
}

static const char *
rand_value(const struct lysc_node *sn)
{
    static const char *str[] = {"a", "b", "zz", "x y", "q", "ab", "B", "0"};
    static const char *i8[] = {"-128", "-3", "0", "7", "100", "127"};
    static const char *u8[] = {"0", "3", "77", "200", "255"};
    static const char *i32[] = {"-70000", "-1", "5", "123456", "2147483647"};
    const struct lysc_type *t = ((const struct lysc_node_leaf *)sn)->type;

    switch (t->basetype) {
    case LY_TYPE_STRING: return str[rnd(8)];
    case LY_TYPE_INT8: return i8[rnd(6)];
    case LY_TYPE_UINT8: return u8[rnd(5)];
    case LY_TYPE_INT32: return i32[rnd(5)];
    case LY_TYPE_BOOL: return rnd(2) ? "true" : "false";
    case LY_TYPE_ENUM: {
        const struct lysc_type_enum *e = (const struct lysc_type_enum *)t;

        return e->enums[rnd((unsigned)LY_ARRAY_COUNT(e->enums))].name;
    }
    default: return "";
    }
}

/* create a random child below `parent` (NULL = top level) */
static void
edit_insert(const struct tp_schema *s, struct lyd_node **tree, struct lyd_node *parent)
{
    const struct lysc_node *kids[64], *c = NULL, *k;
    int nk = 0;
    struct lyd_node *n = NULL, *m = NULL;
    const char *kv[8];
    char keybuf[8][32];
    int i;

    while ((c = lys_getnext(c, parent ? parent->schema : NULL, s->mod->compiled, 0)) && nk < 64) {
        if ((c->nodetype & (LYS_CONTAINER | LYS_LIST | LYS_LEAF | LYS_LEAFLIST)) && !(c->flags & LYS_KEY)) kids[nk++] = c;
    }
    if (!nk) return;
    c = kids[rnd((unsigned)nk)];
    if (c->nodetype & (LYS_LEAF | LYS_CONTAINER)) {
        /* at most one instance */
        if (!lyd_find_sibling_val(parent ? lyd_child(parent) : *tree, c, NULL, 0, &m)) return;
    }
    switch (c->nodetype) {
    case LYS_LEAF:
    case LYS_LEAFLIST:
        lyd_new_term(parent, s->mod, c->name, rand_value(c), 0, &n);
        break;
    case LYS_CONTAINER:
        lyd_new_inner(parent, s->mod, c->name, 0, &n);
        break;
    case LYS_LIST:
        i = 0;
        for (k = lysc_node_child(c); k && (k->flags & LYS_KEY) && i < 8; k = k->next, i++) {
            snprintf(keybuf[i], sizeof keybuf[i], "%s", rand_value(k));
            kv[i] = keybuf[i];
        }
        lyd_new_list3(parent, s->mod, c->name, kv, NULL, 0, &n);
        break;
    default:
        break;
    }
    if (n && !parent) {
        if (lyd_insert_sibling(*tree, n, tree)) lyd_free_tree(n);
    }
}

/* a forest of nested nodes duplicated without their parents: only edits below its nodes make sense */
static int
detached(const struct lyd_node *t)
{
    return t && t->schema && lysc_data_parent(t->schema);
}

static void
edit_script(const struct tp_schema *s, struct lyd_node **tree, int steps)
{
    struct lyd_node *arr[TP_MAXNODES * 4], *e, *p;
    int n, i, det = detached(*tree);

    for (i = 0; i < steps; i++) {
        unsigned op;

        n = collect(*tree, arr, TP_MAXNODES * 4);
        op = rnd(5);
        if (getenv("VERIF_TRACE")) {
            char *d = dumps(s, *tree);

            fprintf(stderr, "[edit] step %d op %u on:\n%s\n", i, op, d);
            free(d);
        }
        switch (op) {
        case 0:     /* change a value */
            if (!n) break;
            e = arr[rnd((unsigned)n)];
            if ((e->schema->nodetype & LYD_NODE_TERM) && !(e->schema->flags & LYS_KEY)) {
                const char *v = rand_value(e->schema);

                if (getenv("VERIF_TRACE")) fprintf(stderr, "[edit] change %s '%s' -> '%s'\n", e->schema->name, lyd_get_value(e), v);
                if ((e->schema->nodetype == LYS_LEAFLIST) && (e->schema->flags & LYS_ORDBY_SYSTEM) && lyd_parent(e) &&
                        ((e->next && (e->next->schema == e->schema)) || (e->prev->next && (e->prev->schema == e->schema)))) {
                    /* value change of one of several instances of a system-ordered leaf-list below a parent (finding F19) */
                    mark("chg-sorted-ll");
                }
                lyd_change_term(e, v);
                *tree = lyd_first_sibling(*tree);
            }
            break;
        case 1:     /* insert below a random inner node / at top level */
        case 2:
            e = (n && (det || rnd(4))) ? arr[rnd((unsigned)n)] : NULL;
            if (e && !(e->schema->nodetype & LYD_NODE_INNER)) e = lyd_parent(e);
            if (det && !e) break;
            edit_insert(s, tree, e);
            if (*tree) *tree = lyd_first_sibling(*tree);
            break;
        case 3:     /* unlink and free a subtree */
            if (!n) break;
            e = arr[rnd((unsigned)n)];
            if (e->schema->flags & LYS_KEY) break;
            if (det && !lyd_parent(e)) break;
            if (e == *tree) *tree = e->next;
            if (getenv("VERIF_TRACE")) fprintf(stderr, "[edit] free %s '%s'\n", e->schema->name, (e->schema->nodetype & LYD_NODE_TERM) ? lyd_get_value(e) : "");
            lyd_free_tree(e);
            break;
        case 4:     /* unlink a subtree and link it again */
            if (!n) break;
            e = arr[rnd((unsigned)n)];
            if (e->schema->flags & LYS_KEY) break;
            if (det && !lyd_parent(e)) break;
            p = lyd_parent(e);
            if (e == *tree) *tree = e->next;
            if (getenv("VERIF_TRACE")) fprintf(stderr, "[edit] relink %s '%s'\n", e->schema->name, (e->schema->nodetype & LYD_NODE_TERM) ? lyd_get_value(e) : "");
            lyd_unlink_tree(e);
            if (p) {
                if (lyd_insert_child(p, e)) lyd_free_tree(e);
            } else if (lyd_insert_sibling(*tree, e, tree)) {
                lyd_free_tree(e);
            }
            break;
        }
    }
    if (*tree) *tree = lyd_first_sibling(*tree);
}

/* "use" a tree: walk it, look every node up through its parent's hash table, print it in two formats */
static int
use_tree(const struct tp_schema *s, struct lyd_node *t)
{
    struct lyd_node *arr[TP_MAXNODES * 4], *m;
    int n = collect(t, arr, TP_MAXNODES * 4), i, bad = 0;
    char *mem = NULL;

    for (i = 0; i < n; i++) {
        if (arr[i]->schema->nodetype & (LYS_LIST | LYS_LEAFLIST)) {
            if (lyd_find_sibling_first(lyd_first_sibling(arr[i]), arr[i], &m) || !m) bad++;
        } else if (lyd_find_sibling_val(lyd_first_sibling(arr[i]), arr[i]->schema, NULL, 0, &m) || !m) {
            bad++;
        }
    }
    if (t) {
        if (lyd_print_mem(&mem, t, LYD_XML, LYD_PRINT_WITHSIBLINGS | LYD_PRINT_WD_ALL)) bad++;
        free(mem); mem = NULL;
        if (!detached(t)) {
            if (lyd_print_mem(&mem, t, LYD_LYB, LYD_PRINT_WITHSIBLINGS)) bad++;
            free(mem);
        }
    }
    return bad;
}

static void
op_indep(const char *id, const struct tp_schema *s, const char *ttok, const char *stok, unsigned o, unsigned seed)
{
    struct lyd_node *T, *S;
    char *r0 = NULL, *sA = NULL, *x = NULL;
    LY_ERR r;
    int a = 1, b = 1, c = 1, use = 0, order = 1;

    if (arg_tree(id, s, ttok, &T)) return;
    if (arg_tree(id, s, stok, &S)) { lyd_free_all(T); return; }
    rng_state = seed * 2654435761u + 12345;
    r = lyd_merge_siblings(&T, S, (uint16_t)o);
    if (r) {
        vp_reply(id, "ok merge=%s", tp_errname(r));
        lyd_free_all(T);
        if (!(o & LYD_MERGE_DESTRUCT)) lyd_free_all(S);
        return;
    }
    if (o & LYD_MERGE_DESTRUCT) S = NULL;
    r0 = dumps(s, T);
    if (S) {
        /* A: edit the source, the result must not change */
        edit_script(s, &S, 3 + (int)rnd(6));
        x = dumps(s, T); a = !strcmp(x, r0); free(x);
        sA = dumps(s, S);
    }
    /* B: edit the result, the source must not change */
    edit_script(s, &T, 3 + (int)rnd(6));
    order = is_canonical(s, T);
    if (S) {
        x = dumps(s, S); b = !strcmp(x, sA); free(x);
    }
    free(r0);
    r0 = dumps(s, T);
    /* C: free one operand, use the other */
    if (S && rnd(2)) {
        lyd_free_all(T); T = NULL;
        use = use_tree(s, S);
        x = dumps(s, S); c = !strcmp(x, sA); free(x);
        edit_script(s, &S, 3);
    } else {
        lyd_free_all(S); S = NULL;
        use = use_tree(s, T);
        x = dumps(s, T); c = !strcmp(x, r0); free(x);
        edit_script(s, &T, 3);
    }
    vp_reply(id, "ok merge=Success a=%d b=%d c=%d use=%d order=%d", a, b, c, use, order);
    lyd_free_all(T); lyd_free_all(S);
    free(r0); free(sA);
}

/* ---- dup --------------------------------------------------------------------------------------------------------------- */
static LY_ERR
do_dup(const struct lyd_node *node, const struct ly_ctx *ctx2, unsigned o, int mode, struct lyd_node **d)
{
    switch (mode) {
    case 0: return lyd_dup_single(node, NULL, o, d);
    case 1: return lyd_dup_siblings(node, NULL, o, d);
    case 2: return lyd_dup_single_to_ctx(node, ctx2, NULL, o, d);
    default: return lyd_dup_siblings_to_ctx(node, ctx2, NULL, o, d);
    }
}

static struct lyd_node *
root_of(struct lyd_node *d)
{
    if (!d) return NULL;
    while (lyd_parent(d)) d = lyd_parent(d);
    return lyd_first_sibling(d);
}

static void
op_dup(const char *id, const struct reg *rg, const char *ttok, int idx, unsigned o, int mode)
{
    struct lyd_node *T, *arr[TP_MAXNODES * 4], *d = NULL, *root;
    const struct tp_schema *s = rg->s, *sd = (mode >= 2) ? rg->s2 : rg->s;
    int n, i, ri = -1;
    LY_ERR r;

    if (arg_tree(id, s, ttok, &T)) return;
    n = collect(T, arr, TP_MAXNODES * 4);
    if (idx < 0 || idx >= n) { vp_reply(id, "err BadIndex"); lyd_free_all(T); return; }
    r = do_dup(arr[idx], sd->ctx, o, mode, &d);
    if (r) {
        dbgmsg(sd, "dup");
        vp_reply(id, "err %s", tp_errname(r));
    } else {
        root = root_of(d);
        n = collect(root, arr, TP_MAXNODES * 4);
        for (i = 0; i < n; i++) if (arr[i] == d) ri = i;
        vp_begin(id, "ok"); tp_field_dump(sd, root); fprintf(stdout, " %d", ri); vp_end();
        lyd_free_all(root);
    }
    lyd_free_all(T);
}

/* dupinto: the node (mode 0/2) or the node and its following siblings (1/3) — children of a top-level node — are duplicated INTO
 * the `pidx`-th top-level node of a second tree, a parent that already has children of its own (lyd_dup_r ->
 * lyd_insert_node into a populated parent; the first_llist fast path of lyd_dup); the whole target tree is dumped */
static LY_ERR
do_dup_into(const struct lyd_node *node, const struct ly_ctx *ctx2, struct lyd_node *parent, unsigned o, int mode, struct lyd_node **d)
{
    switch (mode) {
    case 0: return lyd_dup_single(node, (struct lyd_node_inner *)parent, o, d);
    case 1: return lyd_dup_siblings(node, (struct lyd_node_inner *)parent, o, d);
    case 2: return lyd_dup_single_to_ctx(node, ctx2, (struct lyd_node_inner *)parent, o, d);
    default: return lyd_dup_siblings_to_ctx(node, ctx2, (struct lyd_node_inner *)parent, o, d);
    }
}

static void
op_dupinto(const char *id, const struct reg *rg, const char *ttok, int idx, unsigned o, int mode, const char *ptok, int pidx)
{
    struct lyd_node *T, *P = NULL, *arr[TP_MAXNODES * 4], *d = NULL, *par = NULL, *it;
    const struct tp_schema *s = rg->s, *sd = (mode >= 2) ? rg->s2 : rg->s;
    int n, i;
    LY_ERR r;

    if (arg_tree(id, s, ttok, &T)) return;
    if (arg_tree(id, sd, ptok, &P)) { lyd_free_all(T); return; }
    n = collect(T, arr, TP_MAXNODES * 4);
    i = 0;
    LY_LIST_FOR(P ? lyd_first_sibling(P) : NULL, it) { if (i++ == pidx) par = it; }
    if (idx < 0 || idx >= n || !par) { vp_reply(id, "err BadIndex"); goto done; }
    {
        /* the node must sit below a top-level node of the parent's schema: directly (any options), or deeper — then only with
         * LYD_DUP_WITH_PARENTS, which copies the parents in between and connects the chain to the given parent */
        const struct lyd_node *top = arr[idx];
        int depth = 0;
        while (top->parent) { top = lyd_parent(top); depth++; }
        if (!depth || !par->schema || !(par->schema->nodetype & LYD_NODE_INNER) || strcmp(top->schema->name, par->schema->name) ||
                (depth > 1 && !(o & LYD_DUP_WITH_PARENTS))) {
            vp_reply(id, "err BadParent");
            goto done;
        }
    }
    r = do_dup_into(arr[idx], sd->ctx, par, o, mode, &d);
    if (r) {
        dbgmsg(sd, "dupinto");
        vp_reply(id, "err %s", tp_errname(r));
    } else {
        P = lyd_first_sibling(par);
        vp_begin(id, "ok"); tp_field_dump(sd, P); vp_end();
    }
done:
    lyd_free_all(T);
    lyd_free_all(P);
}

static int
no_meta(struct lyd_node *t)
{
    struct lyd_node *arr[TP_MAXNODES * 4];
    const struct lyd_meta *m;
    int n = collect(t, arr, TP_MAXNODES * 4), i;

    for (i = 0; i < n; i++) {
        for (m = arr[i]->meta; m; m = m->next) if (lyd_metadata_should_print(m)) return 0;
    }
    return 1;
}

static void
op_dlaw(const char *id, const struct reg *rg, const char *ttok, int idx, unsigned o, int mode, unsigned seed)
{
    struct tp_schema *sa = NULL;            /* the original's context: a fresh one for the cross-context modes */
    const struct tp_schema *s, *sd;
    struct lyd_node *T = NULL, *arr[TP_MAXNODES * 4], *d = NULL, *root = NULL, *node, *p, *q;
    char *text = vp_unhex(ttok, NULL), *t0 = NULL, *d0 = NULL, *x = NULL, *tA = NULL;
    int n, eq = 1, pure = 1, meta = 1, parents = 1, a = 1, b = 1, c = 1, use = 0, order = 1, flags = 1;
    LY_ERR r;
    uint32_t co;

    if (mode >= 2) {
        sa = tmp_schema(rg->yang);
        s = sa;
        sd = rg->s2;
    } else {
        s = sd = rg->s;
    }
    if (!text || !s || load_tree(s, text, &T)) { vp_reply(id, "err BadTree"); goto done; }
    n = collect(T, arr, TP_MAXNODES * 4);
    if (idx < 0 || idx >= n) { vp_reply(id, "err BadIndex"); goto done; }
    node = arr[idx];
    rng_state = seed * 2654435761u + 977;
    t0 = dumps(s, T);
    r = do_dup(node, sd->ctx, o, mode, &d);
    if (r) { vp_reply(id, "ok dup=%s", tp_errname(r)); goto done; }
    root = root_of(d);
    d0 = dumps(sd, root);
    x = dumps(s, T); pure = !strcmp(x, t0); free(x); x = NULL;
    /* equal to the original */
    co = LYD_COMPARE_DEFAULTS | ((o & LYD_DUP_RECURSIVE) ? LYD_COMPARE_FULL_RECURSION : 0);
    if (mode % 2) {
        if (o & LYD_DUP_RECURSIVE) {
            eq = lyd_compare_siblings(node, d, co) == LY_SUCCESS;
        } else {
            for (p = node, q = d; p && q; p = p->next, q = q->next) if (lyd_compare_single(p, q, co)) eq = 0;
            if (p || q) eq = 0;
        }
    } else {
        eq = lyd_compare_single(node, d, co) == LY_SUCCESS;
    }
    /* options */
    if (o & LYD_DUP_NO_META) meta = no_meta(root);
    if (o & LYD_DUP_WITH_FLAGS) {
        flags = (d->flags & TP_FLAGMASK) == (node->flags & TP_FLAGMASK);
    } else {
        flags = (d->flags & TP_FLAGMASK) == ((node->flags & LYD_DEFAULT) | LYD_NEW);
    }
    if (o & LYD_DUP_WITH_PARENTS) {
        for (p = lyd_parent(node), q = lyd_parent(d); p && q; p = lyd_parent(p), q = lyd_parent(q)) {
            if (strcmp(p->schema->name, q->schema->name)) parents = 0;
        }
        if (p || q) parents = 0;
    } else if (lyd_parent(d)) {
        parents = 0;
    }
    /* A: edit the original, the duplicate must not change */
    edit_script(s, &T, 3 + (int)rnd(6));
    x = dumps(sd, root); a = !strcmp(x, d0); free(x); x = NULL;
    tA = dumps(s, T);
    /* B: edit the duplicate, the original must not change; the edited duplicate is still in libyang's order */
    edit_script(sd, &root, 3 + (int)rnd(6));
    order = is_canonical(sd, root);
    x = dumps(s, T); b = !strcmp(x, tA); free(x); x = NULL;
    free(d0);
    d0 = dumps(sd, root);
    /* C: free one (and, across contexts, the original's whole context), use the other */
    if ((mode >= 2) || rnd(2)) {
        lyd_free_all(T); T = NULL;
        if (sa) { tmp_schema_free(sa); sa = NULL; }
        use = use_tree(sd, root);
        x = dumps(sd, root); c = !strcmp(x, d0); free(x); x = NULL;
        edit_script(sd, &root, 3);
        if (root && lyd_validate_module(&root, sd->mod, 0, NULL)) { /* an edited tree may be invalid: only memory safety matters */ }
    } else {
        lyd_free_all(root); root = NULL;
        use = use_tree(s, T);
        x = dumps(s, T); c = !strcmp(x, tA); free(x); x = NULL;
        edit_script(s, &T, 3);
    }
    vp_reply(id, "ok dup=Success eq=%d pure=%d meta=%d flags=%d parents=%d a=%d b=%d c=%d use=%d order=%d", eq, pure, meta, flags,
            parents, a, b, c, use, order);
done:
    lyd_free_all(T);
    lyd_free_all(root);
    tmp_schema_free(sa);
    free(text); free(t0); free(d0); free(tA);
}

/* ---- main -------------------------------------------------------------------------------------------------------------- */
int
main(void)
{
    struct vp_req r = {0};
    struct reg *rg, *nx;

    ly_log_options(LY_LOSTORE_LAST);
    VERIF_ASAN_CB();

    while (vp_next(&r)) {
        const char *id = r.tok[0], *op = r.ntok > 2 ? r.tok[2] : "";
        const struct tp_schema *s;

        marks[0] = 0;

        if (r.ntok < 3) { vp_reply(r.ntok ? id : "?", "err BadLine"); continue; }
        if (!strcmp(op, "leakcheck")) { vp_reply(id, "ok %d", VP_LEAKCHECK()); continue; }
        if (!strcmp(op, "schema") && r.ntok == 5) {
            char *yang = vp_unhex(r.tok[4], NULL), key2[64];
            struct tp_buf b = {0};

            rg = reg_get(r.tok[3]);
            if (!rg && yang) {
                rg = calloc(1, sizeof *rg);
                rg->s = tp_schema_register(r.tok[3], yang);
                snprintf(key2, sizeof key2, "#2:%p", (void *)rg);
                rg->s2 = rg->s ? tp_schema_register(key2, yang) : NULL;
                if (!rg->s || !rg->s2) { free(rg); rg = NULL; }
                else { rg->key = strdup(r.tok[3]); rg->yang = strdup(yang); rg->next = regs; regs = rg; }
            }
            free(yang);
            if (!rg) { vp_reply(id, "err BadSchema"); continue; }
            tp_schema_summary(rg->s, &b);
            vp_reply(id, "ok %d %s", rg->s->n, b.s ? b.s : "");
            free(b.s);
            continue;
        }
        if (r.ntok < 4 || !(rg = reg_get(r.tok[3]))) { vp_reply(id, "err NoSchema"); continue; }
        s = rg->s;

        if (!strcmp(op, "build") && r.ntok == 5) {
            char *text = vp_unhex(r.tok[4], NULL);
            struct lyd_node *t = NULL;

            if (!text || tp_load(s, text, 0, &t)) {
                vp_reply(id, "err BadTree");
            } else if (lyd_validate_module(&t, s->mod, 0, NULL)) {
                dbgmsg(s, "build");
                vp_reply(id, "err Invalid");
            } else {
                vp_begin(id, "ok"); tp_field_dump(s, t); vp_end();
            }
            lyd_free_all(t);
            free(text);
        } else if (!strcmp(op, "merge") && r.ntok == 8) {
            op_merge(id, s, r.tok[4], r.tok[5], (unsigned)atoi(r.tok[6]), atoi(r.tok[7]));
        } else if (!strcmp(op, "mlaw") && r.ntok == 8) {
            op_mlaw(id, s, r.tok[4], r.tok[5], (unsigned)atoi(r.tok[6]), atoi(r.tok[7]));
        } else if (!strcmp(op, "indep") && r.ntok == 8) {
            op_indep(id, s, r.tok[4], r.tok[5], (unsigned)atoi(r.tok[6]), (unsigned)atoi(r.tok[7]));
        } else if (!strcmp(op, "dup") && r.ntok == 8) {
            op_dup(id, rg, r.tok[4], atoi(r.tok[5]), (unsigned)atoi(r.tok[6]), atoi(r.tok[7]));
        } else if (!strcmp(op, "dupinto") && r.ntok == 10) {
            op_dupinto(id, rg, r.tok[4], atoi(r.tok[5]), (unsigned)atoi(r.tok[6]), atoi(r.tok[7]), r.tok[8], atoi(r.tok[9]));
        } else if (!strcmp(op, "dlaw") && r.ntok == 9) {
            op_dlaw(id, rg, r.tok[4], atoi(r.tok[5]), (unsigned)atoi(r.tok[6]), atoi(r.tok[7]), (unsigned)atoi(r.tok[8]));
        } else {
            vp_reply(id, "err BadOp");
        }
    }
    free(r.line);
    for (rg = regs; rg; rg = nx) { nx = rg->next; free(rg->key); free(rg->yang); free(rg); }
    tp_schema_free_all();
    return 0;
}
