/* Line-protocol helpers shared by all harnesses (DESIGN.md Appendix B).
 *   request:  <id> <component> <op> <arg>*      (payloads hex-encoded, "-" = empty)
 *   reply:    <id> ok <field>* | <id> err <Enum> [...]
 * stdout is flushed after every reply, so a sanitizer abort loses nothing already answered. */
#ifndef VERIF_PROTO_H
#define VERIF_PROTO_H

#include <stdint.h>
#include <stdio.h>
#include <stdlib.h>
#include <string.h>
#include <stdarg.h>

#define VP_MAXTOK 64

struct vp_req {
    char *line;             /* owned */
    size_t cap;
    char *tok[VP_MAXTOK];
    int ntok;
};

static int
vp_next(struct vp_req *r)
{
    ssize_t n = getline(&r->line, &r->cap, stdin);
    char *p, *save = NULL;

    if (n <= 0) {
        return 0;
    }
    r->ntok = 0;
    for (p = strtok_r(r->line, " \t\r\n", &save); p && r->ntok < VP_MAXTOK; p = strtok_r(NULL, " \t\r\n", &save)) {
        r->tok[r->ntok++] = p;
    }
    return 1;
}

static int
vp_hexval(int c)
{
    if (c >= '0' && c <= '9') return c - '0';
    if (c >= 'a' && c <= 'f') return c - 'a' + 10;
    if (c >= 'A' && c <= 'F') return c - 'A' + 10;
    return -1;
}

/* decode into a fresh NUL-terminated buffer; *len gets the byte count. NULL on malformed hex. */
static char *
vp_unhex(const char *h, size_t *len)
{
    size_t n, i;
    char *b;

    if (!strcmp(h, "-")) {
        b = calloc(1, 1);
        if (len) *len = 0;
        return b;
    }
    n = strlen(h);
    if (n % 2) return NULL;
    b = malloc(n / 2 + 1);
    for (i = 0; i < n / 2; i++) {
        int x = vp_hexval(h[2 * i]), y = vp_hexval(h[2 * i + 1]);
        if (x < 0 || y < 0) { free(b); return NULL; }
        b[i] = (char)(x * 16 + y);
    }
    b[n / 2] = 0;
    if (len) *len = n / 2;
    return b;
}

static void
vp_puthex(const void *data, size_t len)
{
    const unsigned char *p = data;
    size_t i;

    if (!len) { fputc('-', stdout); return; }
    for (i = 0; i < len; i++) {
        fprintf(stdout, "%02x", p[i]);
    }
}

static void
vp_reply(const char *id, const char *fmt, ...)
{
    va_list ap;

    fprintf(stdout, "%s ", id);
    va_start(ap, fmt);
    vfprintf(stdout, fmt, ap);
    va_end(ap);
    fputc('\n', stdout);
    fflush(stdout);
}

/* begin / end a reply assembled piecewise */
static void vp_begin(const char *id, const char *status) { fprintf(stdout, "%s %s", id, status); }
static void vp_field_hex(const void *d, size_t n) { fputc(' ', stdout); vp_puthex(d, n); }
static void vp_field_u(unsigned long long v) { fprintf(stdout, " %llu", v); }
static void vp_field_s(const char *s) { fprintf(stdout, " %s", s); }
static void vp_end(void) { fputc('\n', stdout); fflush(stdout); }

#ifdef __has_feature
# if __has_feature(address_sanitizer)
int __lsan_do_recoverable_leak_check(void);
#  define VP_LEAKCHECK() __lsan_do_recoverable_leak_check()
# endif
#endif
#ifndef VP_LEAKCHECK
# define VP_LEAKCHECK() 0
#endif

#endif
