/* API-level round-trip harness (C01, C12), public API only.
 *
 *   ctx <searchdir-hex|-> <yang-hex>...         fresh context; loads ietf-netconf-with-defaults when found; all features on
 *                                               -> ok <nmodules> | err Schema
 *   rt <xml|json> <data-hex>                    parse+validate, then the print->parse matrix
 *                                               -> ok <matrix> <xml-hex> <json-hex> <view-hex> | err Parse <kind>
 *   opaqview <xml|json> <data-hex>              parse with LYD_PARSE_OPAQ | LYD_PARSE_ONLY; the shrunk XML output and the forest as the
 *                                               XML printer reads it (ovw_r below)  -> ok <xml-shrink-hex> <view-hex> | err Parse
 *   xview <xml|json> <data-hex> <opaq 0|1>      for each with-defaults mode: shrunk XML and the XML printer's view of the data tree
 *                                               (xvw_r below: printed nodes, metadata, value prefix modules, opaque children)
 *                                               -> ok (<xml-hex> <view-hex>){5} | err Parse
 *   cross <xml-hex> <json-hex>                  the same instance encoded independently in XML and JSON
 *                                               -> ok <eq:0|1> | err ParseXml|ParseJson
 *
 * <matrix>: for fmt in xml,json,lyb; for wd in explicit,trim,all,all-tag,impl-tag; for shrink in 0,1 (lyb: 0 only):
 *   '='  printed, re-parsed and equal at the exactness the mode promises (DESIGN.md §8)
 *   '!'  re-parsed tree differs      'P' print failed      'R' libyang rejects its own output      '-' mode skipped
 * <view>: one line per printed node of the explicit+implicit tree (WD all): depth, module, namespace-hex, name, kind,
 *   basetype, dflt flag, canonical value hex — what an independent encoder/decoder needs to know about the tree.   */
#define _GNU_SOURCE
#include "libyang.h"
#include "plugins_types.h"  /* struct lyplg_type: the print callback of the type plug-ins (op xview) */
#include "xml.h"        /* struct lyxml_ns: the entries of the value prefix data of opaque nodes (op opaqview) */
#include "proto.h"

static struct ly_ctx *ctx;
static int have_wd;

static void
newctx(const char *searchdir)
{
    if (ctx) {
        ly_ctx_destroy(ctx);
    }
    ctx = NULL;
    ly_ctx_new(searchdir && searchdir[0] ? searchdir : NULL, LY_CTX_NO_YANGLIBRARY | LY_CTX_DISABLE_SEARCHDIR_CWD, &ctx);
    have_wd = 0;
    if (ctx && searchdir && searchdir[0]) {
        if (ly_ctx_load_module(ctx, "ietf-netconf-with-defaults", NULL, NULL)) {
            have_wd = 1;
        }
    }
}

static const uint32_t WD[5] = {LYD_PRINT_WD_EXPLICIT, LYD_PRINT_WD_TRIM, LYD_PRINT_WD_ALL, LYD_PRINT_WD_ALL_TAG, LYD_PRINT_WD_IMPL_TAG};

/* validate module by module so that an all-default tree printed as an empty document still gets its defaults back */
static LY_ERR
revalidate(struct lyd_node **tree)
{
    return lyd_validate_all(tree, ctx, LYD_VALIDATE_PRESENT, NULL) ? LY_EVALID :
           lyd_validate_all(tree, ctx, 0, NULL);
}

static int
has_any(const struct lyd_node *n)
{
    for (; n; n = n->next) {
        if (n->schema && (n->schema->nodetype & LYD_NODE_ANY)) return 1;
        if (n->schema && (n->schema->nodetype & LYD_NODE_INNER) && has_any(lyd_child(n))) return 1;
    }
    return 0;
}

/* anydata / anyxml values have no canonical in-memory form (XML- and JSON-origin opaque content differ in format and
 * hints), so trees holding them are compared by their printed XML form (DESIGN.md sec. 8) */
static int
same_printed(const struct lyd_node *a, const struct lyd_node *b, int exact)
{
    char *x = NULL, *y = NULL;
    uint32_t o = LYD_PRINT_WITHSIBLINGS | LYD_PRINT_SHRINK | (exact ? LYD_PRINT_WD_IMPL_TAG : LYD_PRINT_WD_ALL);
    int r;

    if (lyd_print_mem(&x, a, LYD_XML, o) || lyd_print_mem(&y, b, LYD_XML, o)) { free(x); free(y); return 0; }
    r = !strcmp(x ? x : "", y ? y : "");
    free(x); free(y);
    return r;
}

static char
cell(const struct lyd_node *orig, LYD_FORMAT fmt, uint32_t wd, int shrink)
{
    char *mem = NULL;
    struct lyd_node *back = NULL;
    struct ly_out *out = NULL;
    struct ly_in *in = NULL;
    size_t len;
    char res = '=';
    uint32_t popts = wd | (shrink ? LYD_PRINT_SHRINK : 0);
    int exact = (wd == LYD_PRINT_WD_EXPLICIT) || (wd == LYD_PRINT_WD_IMPL_TAG);

    if (((wd == LYD_PRINT_WD_ALL_TAG) || (wd == LYD_PRINT_WD_IMPL_TAG)) && !have_wd) {
        return '-';
    }
    if (ly_out_new_memory(&mem, 0, &out)) return 'P';
    if (lyd_print_all(out, orig, fmt, popts)) {
        ly_out_free(out, NULL, 0); free(mem);
        return 'P';
    }
    len = ly_out_printed(out);
    ly_out_free(out, NULL, 0);

    if (fmt == LYD_LYB) {
        if (ly_in_new_memory(mem ? mem : "", &in)) { free(mem); return 'R'; }
        (void)len;
    } else {
        if (ly_in_new_memory(mem ? mem : "", &in)) { free(mem); return 'R'; }
    }
    if (lyd_parse_data(ctx, NULL, in, fmt, LYD_PARSE_STRICT | LYD_PARSE_ONLY, 0, &back)) {
        res = 'R';
    } else if (lyd_validate_all(&back, ctx, 0, NULL)) {
        res = 'R';
    } else if (lyd_compare_siblings(orig, back, LYD_COMPARE_FULL_RECURSION | (exact ? LYD_COMPARE_DEFAULTS : 0))) {
        if (!has_any(orig) || !same_printed(orig, back, exact && have_wd)) {
            res = '!';
        }
    }
    ly_in_free(in, 0);
    lyd_free_all(back);
    free(mem);
    if ((res == '=') && exact) {
        /* single-tree law: every top-level tree printed on its own (no LYD_PRINT_WITHSIBLINGS: lyd_print_tree) and parsed back holds the
         * explicit content of that tree alone - nested documents (anydata content) must not inherit the outer "first tree only" */
        const struct lyd_node *n;
        int k = 0;

        for (n = orig; n && (k < 6) && (res == '='); n = n->next, ++k) {
            struct lyd_node *one = NULL, *b1 = NULL;
            char *m1 = NULL, *x = NULL, *y = NULL;
            uint32_t o = LYD_PRINT_SHRINK | LYD_PRINT_WD_EXPLICIT;

            if (!n->schema || (n->flags & LYD_DEFAULT)) continue;
            if (lyd_dup_single(n, NULL, LYD_DUP_RECURSIVE | LYD_DUP_WITH_FLAGS, &one)) { res = 'S'; break; }
            if (lyd_print_mem(&m1, n, fmt, popts)) {
                res = 'S';
            } else if (lyd_parse_data_mem(ctx, m1 ? m1 : "", fmt, LYD_PARSE_STRICT | LYD_PARSE_ONLY, 0, &b1)) {
                res = 'S';
            } else if (lyd_print_mem(&x, one, LYD_XML, o) || lyd_print_mem(&y, b1, LYD_XML, o | LYD_PRINT_WITHSIBLINGS) || strcmp(x ? x : "", y ? y : "")) {
                res = 'S';
            }
            free(m1); free(x); free(y);
            lyd_free_all(one); lyd_free_all(b1);
        }
    }
    return res;
}

static const char *
kindname(const struct lysc_node *s)
{
    switch (s->nodetype) {
    case LYS_CONTAINER: return (s->flags & LYS_PRESENCE) ? "pcont" : "cont";
    case LYS_LIST: return "list";
    case LYS_LEAF: return "leaf";
    case LYS_LEAFLIST: return "leaflist";
    case LYS_ANYDATA: return "anydata";
    case LYS_ANYXML: return "anyxml";
    case LYS_RPC: return "rpc";
    case LYS_ACTION: return "action";
    case LYS_NOTIF: return "notif";
    default: return "other";
    }
}

struct sbuf { char *s; size_t len, cap; };

static void
sb_printf(struct sbuf *b, const char *fmt, ...)
{
    va_list ap;
    int n;

    for (;;) {
        va_start(ap, fmt);
        n = vsnprintf(b->s ? b->s + b->len : NULL, b->s ? b->cap - b->len : 0, fmt, ap);
        va_end(ap);
        if (b->s && (size_t)n < b->cap - b->len) { b->len += n; return; }
        b->cap = (b->cap + n + 64) * 2;
        b->s = realloc(b->s, b->cap);
    }
}

static void
sb_hex(struct sbuf *b, const char *s)
{
    if (!s || !s[0]) { sb_printf(b, "-"); return; }
    for (; *s; ++s) sb_printf(b, "%02x", (unsigned char)*s);
}

static void
view_metas(struct sbuf *b, const struct lyd_node *n)
{
    const struct lyd_meta *m;

    for (m = n->meta; m; m = m->next) {
        if (!strcmp(m->annotation->module->name, "yang") && !strcmp(m->name, "lyds_tree")) {
            continue;       /* internal, never printed */
        }
        sb_printf(b, " ");
        sb_hex(b, m->annotation->module->ns);
        sb_printf(b, ",%s,%s,", m->annotation->module->prefix, m->name);
        sb_hex(b, lyd_get_meta_value(m));
    }
}

/* returns 1 when something was written for the sibling list; an np-container without printed content is not printed
 * under with-defaults report-all (no LYD_PRINT_KEEPEMPTYCONT) */
static int
view_r(struct sbuf *b, const struct lyd_node *n, int depth)
{
    int any = 0;

    for (; n; n = n->next) {
        if (!n->schema) {
            sb_printf(b, "%d - - %s opaq - 0 -\n", depth, LYD_NAME(n));
            any = 1;
            continue;
        }
        if ((n->schema->nodetype == LYS_CONTAINER) && !(n->schema->flags & LYS_PRESENCE)) {
            struct sbuf sub = {0};
            int inner = view_r(&sub, lyd_child(n), depth + 1);
            if (!inner) { free(sub.s); continue; }
            sb_printf(b, "%d %s ", depth, n->schema->module->name);
            sb_hex(b, n->schema->module->ns);
            sb_printf(b, " %s cont 0 %d -", n->schema->name, (n->flags & LYD_DEFAULT) ? 1 : 0);
            view_metas(b, n);
            sb_printf(b, "\n%s", sub.s ? sub.s : "");
            free(sub.s);
            any = 1;
            continue;
        }
        any = 1;
        sb_printf(b, "%d %s ", depth, n->schema->module->name);
        sb_hex(b, n->schema->module->ns);
        sb_printf(b, " %s %s ", n->schema->name, kindname(n->schema));
        if (n->schema->nodetype & LYD_NODE_TERM) {
            const struct lyd_node_term *t = (const struct lyd_node_term *)n;
            sb_printf(b, "%d %d ", (int)t->value.realtype->basetype, (n->flags & LYD_DEFAULT) ? 1 : 0);
            sb_hex(b, lyd_get_value(n));
        } else {
            sb_printf(b, "0 %d -", (n->flags & LYD_DEFAULT) ? 1 : 0);
        }
        view_metas(b, n);
        sb_printf(b, "\n");
        if (n->schema->nodetype & LYD_NODE_INNER) {
            view_r(b, lyd_child(n), depth + 1);
        }
    }
    return any;
}

/* ---- JSON printer view: ALL nodes as the printer walks them, with lyd_node_should_print() under the given options --------- */
static const void *jv_sids[4096];
static int jv_nsid;

static int
jv_sid(const void *p)
{
    int i;
    for (i = 0; i < jv_nsid; i++) if (jv_sids[i] == p) return i;
    if (jv_nsid < 4096) jv_sids[jv_nsid++] = p;
    return jv_nsid - 1;
}

static int
jv_basetype(const struct lyd_value *v)
{
    while (v->realtype->basetype == LY_TYPE_UNION) v = &v->subvalue->value;
    return v->realtype->basetype;
}

static int
jview_r(struct sbuf *b, const struct lyd_node *n, int depth, uint32_t opts)
{
    const struct lyd_meta *m;

    for (; n; n = n->next) {
        const char *kind;
        if (!n->schema) return 0;
        switch (n->schema->nodetype) {
        case LYS_CONTAINER: kind = "cont"; break;
        case LYS_LIST: kind = "list"; break;
        case LYS_LEAF: kind = "leaf"; break;
        case LYS_LEAFLIST: kind = "leaflist"; break;
        default: return 0;          /* anydata, operations: outside the model's fragment */
        }
        sb_printf(b, "%d %s %d %s %s %d ", depth, kind, jv_sid(n->schema), n->schema->module->name, n->schema->name,
                lyd_node_should_print(n, opts) ? 1 : 0);
        if (n->schema->nodetype & LYD_NODE_TERM) {
            const struct lyd_node_term *t = (const struct lyd_node_term *)n;
            sb_printf(b, "%d ", jv_basetype(&t->value));
            sb_hex(b, lyd_get_value(n));
        } else {
            sb_printf(b, "0 -");
        }
        for (m = n->meta; m; m = m->next) {
            if (!lyd_metadata_should_print(m)) continue;
            sb_printf(b, " %s,%s,%d,", m->annotation->module->name, m->name, jv_basetype(&m->value));
            sb_hex(b, lyd_get_meta_value(m));
        }
        sb_printf(b, "\n");
        if ((n->schema->nodetype & LYD_NODE_INNER) && !jview_r(b, lyd_child(n), depth + 1, opts)) return 0;
    }
    return 1;
}

/* ---- XML printer view of opaque nodes: exactly the fields xml_print_opaq / xml_print_attr / xml_prefix_is_reserved read ------
 *   N <depth> <fmt x|j|d> <name> <prefix|~> <module_ns|~> <value> <k> (<prefix|~> <uri>){k}        one line per node, pre-order
 *   A <fmt x|j> <prefix|~> <module_ns|~> <name> <value> <k> (<prefix|~> <uri>){k}                   its attributes, in order
 * strings in hex ('-' empty, '~' NULL); fmt d = a data node (has a schema), j = LY_VALUE_JSON names (module name, no prefix data) */
static void
sb_hexn(struct sbuf *b, const char *s)
{
    if (!s) { sb_printf(b, "~"); return; }
    sb_hex(b, s);
}

static void
ovw_pfxdata(struct sbuf *b, LY_VALUE_FORMAT fmt, const void *pd)
{
    const struct ly_set *set = (fmt == LY_VALUE_XML) ? pd : NULL;
    uint32_t i;

    sb_printf(b, " %u", set ? set->count : 0);
    for (i = 0; set && i < set->count; i++) {
        const struct lyxml_ns *ns = set->objs[i];
        sb_printf(b, " "); sb_hexn(b, ns->prefix); sb_printf(b, " "); sb_hex(b, ns->uri);
    }
}

static void
ovw_r(struct sbuf *b, const struct lyd_node *n, int depth)
{
    for (; n; n = n->next) {
        const struct lyd_node_opaq *o = (const struct lyd_node_opaq *)n;
        const struct lyd_attr *a;

        if (n->schema) {
            sb_printf(b, "N %d d ", depth); sb_hex(b, n->schema->name); sb_printf(b, " ~ ~ - 0\n");
            ovw_r(b, lyd_child(n), depth + 1);
            continue;
        }
        sb_printf(b, "N %d %c ", depth, o->format == LY_VALUE_XML ? 'x' : 'j');
        sb_hex(b, o->name.name); sb_printf(b, " "); sb_hexn(b, o->name.prefix); sb_printf(b, " ");
        sb_hexn(b, o->name.module_ns); sb_printf(b, " "); sb_hex(b, o->value);
        ovw_pfxdata(b, o->format, o->val_prefix_data);
        sb_printf(b, "\n");
        for (a = o->attr; a; a = a->next) {
            sb_printf(b, "A %c ", a->format == LY_VALUE_XML ? 'x' : 'j');
            sb_hexn(b, a->name.prefix); sb_printf(b, " "); sb_hexn(b, a->name.module_ns); sb_printf(b, " ");
            sb_hex(b, a->name.name); sb_printf(b, " "); sb_hex(b, a->value);
            ovw_pfxdata(b, a->format, a->val_prefix_data);
            sb_printf(b, "\n");
        }
        ovw_r(b, o->child, depth + 1);
    }
}

/* ---- XML printer view of a DATA tree under print options `opts` (op xview): the nodes lyd_node_should_print() lets through, with
 * exactly what xml_print_node_open / xml_print_meta / xml_print_term read; opaque nodes as in ovw_r ---------------------------------
 *   T <depth> <ns> <name> <wd: ~ | ns> <wd prefix | ~> <value> <k> (<prefix> <ns>){k}      leaf / leaf-list; (prefix, ns) = ns_list[1..]
 *   I <depth> <ns> <name>                                                                  container, list, rpc, action, notification
 *   M <ns> <prefix> <name> <value> <k> (<prefix> <ns>){k}                                  printable metadata of the preceding T / I
 *   N / A                                                                                  opaque node / its attribute (ovw_r)
 *   X <depth>                                                                              anydata / anyxml: outside the model */
static void
xvw_mods(struct sbuf *b, const struct ly_set *ns_list)
{
    uint32_t i;

    sb_printf(b, " %u", ns_list->count ? ns_list->count - 1 : 0);
    for (i = 1; i < ns_list->count; i++) {
        const struct lys_module *mod = ns_list->objs[i];
        sb_printf(b, " "); sb_hex(b, mod->prefix); sb_printf(b, " "); sb_hex(b, mod->ns);
    }
}

static void
xvw_meta(struct sbuf *b, const struct lyd_node *n)
{
    const struct lyd_meta *m;

    for (m = n->meta; m; m = m->next) {
        struct ly_set ns_list = {0};
        ly_bool dynamic = 0;
        const char *value;

        if (!lyd_metadata_should_print(m)) continue;
        ly_set_add(&ns_list, NULL, 0, NULL);
        value = m->value.realtype->plugin->print(LYD_CTX(n), &m->value, LY_VALUE_XML, &ns_list, &dynamic, NULL);
        sb_printf(b, "M "); sb_hex(b, m->annotation->module->ns); sb_printf(b, " "); sb_hex(b, m->annotation->module->prefix);
        sb_printf(b, " "); sb_hex(b, m->name); sb_printf(b, " "); sb_hex(b, value);
        xvw_mods(b, &ns_list);
        sb_printf(b, "\n");
        ly_set_erase(&ns_list, NULL);
        if (dynamic) free((void *)value);
    }
}

static void
xvw_r(struct sbuf *b, const struct lyd_node *n, int depth, uint32_t opts)
{
    for (; n; n = n->next) {
        if (!lyd_node_should_print(n, opts)) continue;
        if (!n->schema) {
            /* one opaque node with its subtree: ovw_r walks siblings, so cut the list for the call */
            struct lyd_node *next = n->next;
            ((struct lyd_node *)n)->next = NULL;
            ovw_r(b, n, depth);
            ((struct lyd_node *)n)->next = next;
            continue;
        }
        if (n->schema->nodetype & LYD_NODE_TERM) {
            struct ly_set ns_list = {0};
            ly_bool dynamic = 0;
            const char *value;
            const struct lys_module *wdm = NULL;

            if (((n->flags & LYD_DEFAULT) && (opts & (LYD_PRINT_WD_ALL_TAG | LYD_PRINT_WD_IMPL_TAG))) ||
                    ((opts & LYD_PRINT_WD_ALL_TAG) && lyd_is_default(n))) {
                wdm = ly_ctx_get_module_latest(LYD_CTX(n), "ietf-netconf-with-defaults");
            }
            ly_set_add(&ns_list, n->schema->module, 0, NULL);
            value = ((struct lysc_node_leaf *)n->schema)->type->plugin->print(LYD_CTX(n), &((struct lyd_node_term *)n)->value,
                    LY_VALUE_XML, &ns_list, &dynamic, NULL);
            sb_printf(b, "T %d ", depth); sb_hex(b, n->schema->module->ns); sb_printf(b, " "); sb_hex(b, n->schema->name);
            sb_printf(b, " ");
            if (wdm) { sb_hex(b, wdm->ns); sb_printf(b, " "); sb_hex(b, wdm->prefix); } else { sb_printf(b, "~ ~"); }
            sb_printf(b, " "); sb_hex(b, value);
            xvw_mods(b, &ns_list);
            sb_printf(b, "\n");
            ly_set_erase(&ns_list, NULL);
            if (dynamic) free((void *)value);
            xvw_meta(b, n);
        } else if (n->schema->nodetype & (LYS_CONTAINER | LYS_LIST | LYS_NOTIF | LYS_RPC | LYS_ACTION)) {
            sb_printf(b, "I %d ", depth); sb_hex(b, n->schema->module->ns); sb_printf(b, " "); sb_hex(b, n->schema->name);
            sb_printf(b, "\n");
            xvw_meta(b, n);
            xvw_r(b, lyd_child(n), depth + 1, opts);
        } else {
            sb_printf(b, "X %d\n", depth);
        }
    }
}

static char *
print_mem(const struct lyd_node *t, LYD_FORMAT f, uint32_t opts)
{
    char *mem = NULL;

    if (lyd_print_mem(&mem, t, f, opts)) { free(mem); return NULL; }
    return mem ? mem : strdup("");
}

int
main(void)
{
    struct vp_req r = {0};

    ly_log_options(LY_LOSTORE_LAST);
    while (vp_next(&r)) {
        const char *id = r.tok[0], *op = r.ntok > 2 ? r.tok[2] : "";

        if (r.ntok < 3) { vp_reply(r.ntok ? id : "?", "err BadLine"); continue; }

        if (!strcmp(op, "ctx") && r.ntok >= 4) {
            char *sd = vp_unhex(r.tok[3], NULL);
            int i, n = 0, bad = 0;
            newctx(sd);
            free(sd);
            for (i = 4; ctx && i < r.ntok; i++) {
                char *y = vp_unhex(r.tok[i], NULL);
                struct lys_module *m = NULL;
                const char *feats[] = {"*", NULL};
                if (lys_parse_mem(ctx, y, LYS_IN_YANG, &m) || lys_set_implemented(m, feats)) bad = 1; else n++;
                free(y);
            }
            if (!ctx || bad) vp_reply(id, "err Schema"); else vp_reply(id, "ok %d", n);
        } else if (!strcmp(op, "rt") && r.ntok == 5 && ctx) {
            LYD_FORMAT fin = !strcmp(r.tok[3], "xml") ? LYD_XML : LYD_JSON;
            char *d = vp_unhex(r.tok[4], NULL), m[32], *x, *j;
            struct lyd_node *t = NULL;
            struct sbuf vb = {0};
            int k = 0, f, w, s;

            ly_err_clean(ctx, NULL);
            if (lyd_parse_data_mem(ctx, d, fin, LYD_PARSE_STRICT, LYD_VALIDATE_PRESENT, &t) ||
                    (lyd_validate_all(&t, ctx, 0, NULL))) {
                const struct ly_err_item *e = ly_err_last(ctx);
                vp_reply(id, "err Parse %s", e && e->apptag ? e->apptag : (e && e->vecode == LYVE_DATA ? "data" : "syntax"));
                lyd_free_all(t); free(d);
                continue;
            }
            for (f = 0; f < 3; f++) {
                LYD_FORMAT fmt = f == 0 ? LYD_XML : f == 1 ? LYD_JSON : LYD_LYB;
                for (w = 0; w < 5; w++) {
                    for (s = 0; s < (f == 2 ? 1 : 2); s++) {
                        m[k++] = cell(t, fmt, WD[w], s);
                    }
                }
            }
            m[k] = 0;
            x = print_mem(t, LYD_XML, LYD_PRINT_WITHSIBLINGS | LYD_PRINT_WD_ALL | LYD_PRINT_SHRINK);
            j = print_mem(t, LYD_JSON, LYD_PRINT_WITHSIBLINGS | LYD_PRINT_WD_ALL | LYD_PRINT_SHRINK);
            view_r(&vb, t, 0);
            vp_begin(id, "ok"); vp_field_s(m);
            vp_field_hex(x ? x : "", x ? strlen(x) : 0);
            vp_field_hex(j ? j : "", j ? strlen(j) : 0);
            vp_field_hex(vb.s ? vb.s : "", vb.len);
            vp_end();
            free(x); free(j); free(vb.s); lyd_free_all(t); free(d);
        } else if (!strcmp(op, "show") && r.ntok == 7 && ctx) {
            /* debugging aid: show <infmt> <data-hex> <fmt 0..2> <wd 0..4>  -> original and re-parsed tree (XML, all-tagged view) */
            LYD_FORMAT fin = !strcmp(r.tok[3], "xml") ? LYD_XML : LYD_JSON;
            LYD_FORMAT fmt = atoi(r.tok[5]) == 0 ? LYD_XML : atoi(r.tok[5]) == 1 ? LYD_JSON : LYD_LYB;
            char *d = vp_unhex(r.tok[4], NULL), *mem = NULL, *a, *b;
            struct lyd_node *t = NULL, *back = NULL;
            lyd_parse_data_mem(ctx, d, fin, LYD_PARSE_STRICT, LYD_VALIDATE_PRESENT, &t);
            lyd_validate_all(&t, ctx, 0, NULL);
            lyd_print_mem(&mem, t, fmt, LYD_PRINT_WITHSIBLINGS | WD[atoi(r.tok[6])] | LYD_PRINT_SHRINK);
            const char *emsg = "";
            ly_err_clean(ctx, NULL);
            if (lyd_parse_data_mem(ctx, mem ? mem : "", fmt, LYD_PARSE_STRICT | LYD_PARSE_ONLY, 0, &back) ||
                    lyd_validate_all(&back, ctx, 0, NULL)) {
                emsg = ly_err_last(ctx) ? ly_err_last(ctx)->msg : "?";
            }
            a = print_mem(t, LYD_XML, LYD_PRINT_WITHSIBLINGS | LYD_PRINT_WD_IMPL_TAG | LYD_PRINT_SHRINK);
            b = print_mem(back, LYD_XML, LYD_PRINT_WITHSIBLINGS | LYD_PRINT_WD_IMPL_TAG | LYD_PRINT_SHRINK);
            vp_begin(id, "ok"); vp_field_hex(fmt == LYD_LYB ? "" : (mem ? mem : ""), fmt == LYD_LYB ? 0 : (mem ? strlen(mem) : 0));
            vp_field_hex(a ? a : "", a ? strlen(a) : 0); vp_field_hex(b ? b : "", b ? strlen(b) : 0); vp_field_hex(emsg, strlen(emsg)); vp_end();
            free(a); free(b); free(mem); free(d); lyd_free_all(t); lyd_free_all(back);
        } else if (!strcmp(op, "rtop") && r.ntok == 6 && ctx) {
            /* rtop <rpc|notif> <xml|json> <hex>: operation round trip in the three formats -> ok <3 cells> <xml-hex> <json-hex> */
            enum lyd_type ty = !strcmp(r.tok[3], "rpc") ? LYD_TYPE_RPC_YANG : LYD_TYPE_NOTIF_YANG;
            LYD_FORMAT fin = !strcmp(r.tok[4], "xml") ? LYD_XML : LYD_JSON;
            char *d = vp_unhex(r.tok[5], NULL), m[4] = "===", *x = NULL, *j = NULL;
            struct lyd_node *t = NULL, *opn = NULL;
            struct ly_in *in = NULL;
            int f;

            ly_in_new_memory(d, &in);
            if (lyd_parse_op(ctx, NULL, in, fin, ty, &t, &opn)) {
                vp_reply(id, "err Parse");
            } else {
                for (f = 0; f < 3; f++) {
                    LYD_FORMAT fmt = f == 0 ? LYD_XML : f == 1 ? LYD_JSON : LYD_LYB;
                    char *mem = NULL;
                    struct lyd_node *bt = NULL, *bo = NULL;
                    struct ly_in *in2 = NULL;
                    if (lyd_print_mem(&mem, t, fmt, LYD_PRINT_SHRINK)) { m[f] = 'P'; free(mem); continue; }
                    ly_in_new_memory(mem ? mem : "", &in2);
                    if (lyd_parse_op(ctx, NULL, in2, fmt, ty, &bt, &bo)) m[f] = 'R';
                    else if (lyd_compare_siblings(t, bt, LYD_COMPARE_FULL_RECURSION | LYD_COMPARE_DEFAULTS)) m[f] = '!';
                    else if (!bo || !opn || strcmp(LYD_NAME(bo), LYD_NAME(opn))) m[f] = '!';
                    ly_in_free(in2, 0); lyd_free_all(bt); free(mem);
                }
                x = print_mem(t, LYD_XML, LYD_PRINT_SHRINK);
                j = print_mem(t, LYD_JSON, LYD_PRINT_SHRINK);
                vp_begin(id, "ok"); vp_field_s(m);
                vp_field_hex(x ? x : "", x ? strlen(x) : 0); vp_field_hex(j ? j : "", j ? strlen(j) : 0); vp_end();
            }
            ly_in_free(in, 0); lyd_free_all(t); free(x); free(j); free(d);
        } else if (!strcmp(op, "jview") && r.ntok == 6 && ctx) {
            /* jview <xml|json> <data-hex> <wd 0..2>: JSON output under explicit/trim/all (shrink) + the printer's view of the tree */
            LYD_FORMAT fin = !strcmp(r.tok[3], "xml") ? LYD_XML : LYD_JSON;
            uint32_t wd = WD[atoi(r.tok[5]) % 3];
            char *d = vp_unhex(r.tok[4], NULL), *j = NULL;
            struct lyd_node *t = NULL;
            struct sbuf vb = {0};

            if (lyd_parse_data_mem(ctx, d, fin, LYD_PARSE_STRICT, LYD_VALIDATE_PRESENT, &t) || lyd_validate_all(&t, ctx, 0, NULL)) {
                vp_reply(id, "err Parse");
            } else {
                jv_nsid = 0;
                j = print_mem(t, LYD_JSON, LYD_PRINT_WITHSIBLINGS | wd | LYD_PRINT_SHRINK);
                if (!jview_r(&vb, t, 0, wd)) {
                    vp_reply(id, "err Unsupported");
                } else {
                    vp_begin(id, "ok"); vp_field_hex(j ? j : "", j ? strlen(j) : 0); vp_field_hex(vb.s ? vb.s : "", vb.len); vp_end();
                }
            }
            free(j); free(vb.s); lyd_free_all(t); free(d);
        } else if (!strcmp(op, "opaq") && r.ntok == 4 && ctx) {
            /* opaq <xml-hex>: parse with LYD_PARSE_OPAQ | LYD_PARSE_ONLY (elements of unknown namespaces become opaque nodes with
             * their attributes), print as XML formatted and shrunk, print the re-parsed output again -> ok <xml> <xml-shrink> <xml-2nd> */
            char *d = vp_unhex(r.tok[3], NULL), *x = NULL, *xs = NULL, *x2 = NULL;
            struct lyd_node *t = NULL, *t2 = NULL;

            ly_err_clean(ctx, NULL);
            if (lyd_parse_data_mem(ctx, d, LYD_XML, LYD_PARSE_OPAQ | LYD_PARSE_ONLY, 0, &t)) {
                vp_reply(id, "err Parse");
            } else {
                x = print_mem(t, LYD_XML, LYD_PRINT_WITHSIBLINGS);
                xs = print_mem(t, LYD_XML, LYD_PRINT_WITHSIBLINGS | LYD_PRINT_SHRINK);
                if (xs && !lyd_parse_data_mem(ctx, xs, LYD_XML, LYD_PARSE_OPAQ | LYD_PARSE_ONLY, 0, &t2)) {
                    x2 = print_mem(t2, LYD_XML, LYD_PRINT_WITHSIBLINGS | LYD_PRINT_SHRINK);
                }
                vp_begin(id, "ok");
                vp_field_hex(x ? x : "", x ? strlen(x) : 0); vp_field_hex(xs ? xs : "", xs ? strlen(xs) : 0);
                vp_field_hex(x2 ? x2 : "", x2 ? strlen(x2) : 0);
                vp_end();
            }
            free(x); free(xs); free(x2); lyd_free_all(t); lyd_free_all(t2); free(d);
        } else if (!strcmp(op, "opaqview") && r.ntok == 5 && ctx) {
            LYD_FORMAT fin = !strcmp(r.tok[3], "xml") ? LYD_XML : LYD_JSON;
            char *d = vp_unhex(r.tok[4], NULL), *xs = NULL;
            struct lyd_node *t = NULL;
            struct sbuf vb = {0};

            ly_err_clean(ctx, NULL);
            if (lyd_parse_data_mem(ctx, d, fin, LYD_PARSE_OPAQ | LYD_PARSE_ONLY, 0, &t)) {
                vp_reply(id, "err Parse");
            } else {
                xs = print_mem(t, LYD_XML, LYD_PRINT_WITHSIBLINGS | LYD_PRINT_SHRINK);
                ovw_r(&vb, t, 0);
                vp_begin(id, "ok");
                vp_field_hex(xs ? xs : "", xs ? strlen(xs) : 0);
                vp_field_hex(vb.s ? vb.s : "", vb.len);
                vp_end();
            }
            free(xs); free(vb.s); lyd_free_all(t); free(d);
        } else if (!strcmp(op, "xview") && r.ntok == 6 && ctx) {
            /* xview <xml|json> <data-hex> <0|1|2>: parse (0, 2: strict + validate; 1: LYD_PARSE_OPAQ | LYD_PARSE_ONLY; 2: then metadata on every default node); for each of the five
             * with-defaults modes the shrunk XML output and the printer's view under these options -> ok (<xml-hex> <view-hex>){5} */
            LYD_FORMAT fin = !strcmp(r.tok[3], "xml") ? LYD_XML : LYD_JSON;
            char *d = vp_unhex(r.tok[4], NULL);
            int opq = atoi(r.tok[5]), w, bad;
            struct lyd_node *t = NULL;

            ly_err_clean(ctx, NULL);
            if (opq == 1) {
                bad = lyd_parse_data_mem(ctx, d, fin, LYD_PARSE_OPAQ | LYD_PARSE_ONLY, 0, &t) ? 1 : 0;
            } else {
                bad = (lyd_parse_data_mem(ctx, d, fin, LYD_PARSE_STRICT, LYD_VALIDATE_PRESENT, &t) || lyd_validate_all(&t, ctx, 0, NULL)) ? 1 : 0;
            }
            if (!bad && (opq == 2)) {
                /* metadata on every implicit default terminal node (only the API can put it there): annotation rtx1:hint */
                const struct lys_module *m1 = ly_ctx_get_module_implemented(ctx, "rtx1");
                struct lyd_node *root, *e;

                LY_LIST_FOR(t, root) {
                    LYD_TREE_DFS_BEGIN(root, e) {
                        if (m1 && e->schema && (e->schema->nodetype & LYD_NODE_TERM) && (e->flags & LYD_DEFAULT)) {
                            lyd_new_meta(ctx, e, m1, "hint", "dm", 0, NULL);
                        }
                        LYD_TREE_DFS_END(root, e);
                    }
                }
            }
            if (bad) {
                vp_reply(id, "err Parse");
            } else {
                vp_begin(id, "ok");
                for (w = 0; w < 5; w++) {
                    struct sbuf vb = {0};
                    char *xs = print_mem(t, LYD_XML, LYD_PRINT_WITHSIBLINGS | WD[w] | LYD_PRINT_SHRINK);
                    xvw_r(&vb, t, 0, LYD_PRINT_WITHSIBLINGS | WD[w] | LYD_PRINT_SHRINK);
                    vp_field_hex(xs ? xs : "", xs ? strlen(xs) : 0);
                    vp_field_hex(vb.s ? vb.s : "", vb.len);
                    free(xs); free(vb.s);
                }
                vp_end();
            }
            lyd_free_all(t); free(d);
        } else if (!strcmp(op, "leakcheck")) {
            vp_reply(id, "ok %d", VP_LEAKCHECK() ? 1 : 0);
        } else if (!strcmp(op, "cross") && r.ntok == 5 && ctx) {
            char *x = vp_unhex(r.tok[3], NULL), *j = vp_unhex(r.tok[4], NULL);
            struct lyd_node *tx = NULL, *tj = NULL;

            if (lyd_parse_data_mem(ctx, x, LYD_XML, LYD_PARSE_STRICT, LYD_VALIDATE_PRESENT, &tx)) {
                vp_reply(id, "err ParseXml");
            } else if (lyd_parse_data_mem(ctx, j, LYD_JSON, LYD_PARSE_STRICT, LYD_VALIDATE_PRESENT, &tj)) {
                vp_reply(id, "err ParseJson");
            } else {
                vp_reply(id, "ok %d", (lyd_compare_siblings(tx, tj, LYD_COMPARE_FULL_RECURSION | LYD_COMPARE_DEFAULTS) == LY_SUCCESS) ||
                        (has_any(tx) && same_printed(tx, tj, have_wd)));
            }
            lyd_free_all(tx); lyd_free_all(tj); free(x); free(j);
        } else {
            vp_reply(id, "err BadOp");
        }
    }
    free(r.line);
    if (ctx) ly_ctx_destroy(ctx);
    return 0;
}
