/* Harness of component `val` (typed values, property C03).  Public API only (libyang.h incl. the public type-plugin
 * interface plugins_types.h: the `store` / `compare` / `sort` / `print` / `duplicate` callbacks of a compiled type).
 *
 * A request names its type by a one-token descriptor; the harness renders it to a YANG module of its own (one per
 * distinct descriptor, cached) so that the model needs no schema and a restarted harness needs no replayed set-up:
 *
 *   i8|i16|i32|i64|u8|u16|u32|u64[:lo..hi,lo..hi,...]      integer type, optional range parts (decimal integers)
 *   d<fd>[:lo..hi,...]                                     decimal64, fraction-digits fd, parts as scaled int64
 *   bool
 *   enum:<hexname>=<value>,...                             enumeration
 *   bits:<hexname>=<position>,...                          bits (ascending positions)
 *   str[:lo..hi,...]                                       string with length parts
 *   t:<module>:<typedef>                                   derived type of an IETF module (laws only, no model)
 *   U(<ty>|<ty>|...)                                       union of the member types (a member may itself be U(...))
 *   lref(<ty>) / lrefr(<ty>)                               leafref to a sibling leaf (require-instance false) / leaf-list (require-instance true) of type
 *                                                          <ty>; alone or as a union member; op uvalid validates a value against given target instances
 *   pstr:[lo..hi,...]:<lvl>[/<lvl>...]                     string with patterns; a level is `;`-separated [!]<hex-pattern> (`!` =
 *                                                          invert-match); several levels = a typedef chain, one level per typedef,
 *                                                          the length parts sit on the last level
 *   idref:<leafmod>:<base>[+<base>...]@<ident>,<ident>,... identityref; <base> = <mod>.<name>; <ident> = <mod>.<name>[<<base>[+<base>...]]
 *                                                          is one identity of the module set with the identities it is derived from;
 *                                                          the leaf lives in module <leafmod> (which may own identities of the set)
 *   instid:<schema-ser>:<yang-hex>[,...]                   instance-identifier (require-instance false) over the modules given; see instid_load
 *
 * ops
 *   store <ty> <hints> <hex>          plugin->store(JSON format, hints)      -> ok <canon-hex> <lyb-hex> | err <Kind>
 *   validate <ty> <hex>               lyd_value_validate                     -> ok <canon-hex> | err <Kind>
 *   validate_n <ty> <hex> <n> <exact> lyd_value_validate(value, value_len = n < strlen); exact = 1: the buffer is a
 *                                     malloc of exactly n bytes (no terminator)  -> ok <canon-hex> | err <Kind>
 *   cmp <ty> <hex1> <hex2>            lyd_new_term x2                        -> ok <eq> <sort> <canon-eq> <ord12> <ord21> | err Reject1|Reject2
 *   lybrt <ty> <hex>                  value -> LYB -> value, dup, tree LYB   -> ok <lyb-hex> <canon-hex> <eq> <dup> <tree> | err <Kind>
 *   unlyb <ty> <hex>                  plugin->store(LYB format)              -> ok <canon-hex> | err <Kind>
 *   idfmt <ty> <json|xml|schema|lyb> <hex>  identityref value in a given prefix format: JSON = module names (store callback),
 *                                     XML = prefixes x<mod> declared on the root element (parsed document), schema = import prefixes
 *                                     p<mod> (default statement of a fresh module), lyb = store callback with LYB format
 *                                                                            -> ok <canon-hex> <json-hex> <xml-hex> | err <Kind>
 *   routes <ty> <mask> <hex>          same lexical value through 7 routes    -> ok <xml> <json-string> <json-literal> <new_term> <value_validate> <default> <predicate>
 *                                     each field: canonical hex | R (rejected) | N (route not run)
 */
#define _GNU_SOURCE
#include <ctype.h>
#include <inttypes.h>
#include <time.h>
#include "libyang.h"
#include "plugins_types.h"
#include "proto.h"

static const char *repo;

struct tyent {
    char *desc;
    const struct lys_module *mod;
    const struct lysc_node *c, *l, *s;
    const struct lysc_type *type;
    char *yangtype;                      /* rendered `type ...;` statement (for the default-statement route) */
    char *preamble;                      /* imports + typedefs the type statement needs */
    int needs_imports;
    char *idmods;                        /* identityref: space-separated module names of the identity set (incl. the leaf module) */
    int ntg;                             /* leafref: number of target leaves / leaf-lists tg<k> in container c */
};
static struct tyent *tys;
static size_t ntys;

/* ------------------------------------------------------------------------------------------------ error enum */
static const char *
kind_of_msg(const char *m)
{
    if (!m) return "Other";
#define HAS(p) (strstr(m, p) != NULL)
#define PFX(p) (!strncmp(m, p, strlen(p)))
    if (PFX("Invalid union value") || PFX("Invalid LYB union value - no matching")) return "NoMember";
    if (PFX("Invalid LYB union")) return "LybSize";
    if (PFX("Unsatisfied pattern")) return "Pattern";
    if (PFX("Invalid Base64 character")) return "B64Char";
    if (PFX("Base64 encoded value length must be divisible by 4")) return "B64Len";
    if (PFX("Newlines are expected every 64 Base64 characters")) return "B64Newline";
    if (PFX("Failed to convert IPv4 address") || PFX("Failed to convert IPv6 address")) return "InetPton";
    if ((PFX("Invalid IPv4 prefix") || PFX("Invalid IPv6 prefix")) && HAS("without a prefix length")) return "NoPrefixLen";
    if (PFX("Invalid LYB ipv") && HAS(" zone character ")) return "LybZone";
    if (PFX("Invalid LYB ipv") && HAS("-prefix prefix length ")) return "LybPrefixLen";
    if (PFX("Invalid date-and-time month")) return "DtMonth";
    if (PFX("Invalid date-and-time day of month")) return "DtDay";
    if (PFX("Invalid date-and-time hours")) return "DtHour";
    if (PFX("Invalid date-and-time minutes")) return "DtMinute";
    if (PFX("Invalid date-and-time seconds")) return "DtSecond";
    if (PFX("Missing date-and-time fractions")) return "DtFraction";
    if (PFX("Invalid date-and-time timezone hour")) return "DtZoneHour";
    if (PFX("Invalid date-and-time timezone minutes")) return "DtZoneMinute";
    if (PFX("Invalid argument strlen(value) > 18")) return "DtShort";
    if (PFX("Invalid LYB date-and-time character")) return "DtLybChar";
    if (PFX("UTF-8 error")) return "PcreUtf8";
    if (PFX("Invalid empty identityref")) return "Empty";
    if (PFX("Invalid identityref")) {
        if (HAS("unable to map prefix")) return "NoPrefix";
        if (HAS("identity not found in module")) return "NotFound";
        if (HAS("identity not derived from")) return "NotDerived";
        if (HAS("identity is disabled by if-feature")) return "Disabled";
        return "Other";
    }
    if (PFX("Invalid leafref value")) return "NoTarget";
    if (PFX("Invalid instance-identifier")) return HAS("\" value - syntax error") ? "Syntax" : (HAS("\" value - semantic error") ? "Semantic" : "Other");
    if (PFX("Internal error")) return "Internal";
    if (PFX("Invalid non-")) return "Hint";
    if (HAS("empty value.") || PFX("Invalid empty decimal64")) return "Empty";
    if (HAS("min/max bounds")) return "Bounds";
    if (HAS("exceeds defined number")) return "FracDigits";
    if (HAS("character of decimal64 value")) return "BadChar";
    if (PFX("Unsatisfied range")) return "Range";
    if (PFX("Unsatisfied length")) return "Length";
    if (PFX("Invalid bit ")) return "BadBit";
    if (PFX("Duplicate bit ")) return "DupBit";
    if (PFX("Invalid character 0x")) return "BadUtf8";
    if (PFX("Invalid LYB ")) return "LybSize";
    if (PFX("Invalid type ") || PFX("Invalid boolean value") || PFX("Invalid enumeration value")) return "Invalid";
#undef HAS
#undef PFX
    return "Other";
}

/* ------------------------------------------------------------------------------------------- type descriptors */
static void
sb_add(char **buf, size_t *len, const char *fmt, ...)
{
    va_list ap; int n;

    va_start(ap, fmt); n = vsnprintf(NULL, 0, fmt, ap); va_end(ap);
    *buf = realloc(*buf, *len + n + 1);
    va_start(ap, fmt); vsnprintf(*buf + *len, n + 1, fmt, ap); va_end(ap);
    *len += n;
}

/* scaled int64 -> decimal text with fd fraction digits (independent of libyang's printer) */
static void
dec_text(int64_t v, int fd, char *out)
{
    uint64_t mag = v < 0 ? (uint64_t)0 - (uint64_t)v : (uint64_t)v, p = 1;
    int i;

    for (i = 0; i < fd; i++) p *= 10;
    sprintf(out, "%s%" PRIu64 ".%0*" PRIu64, v < 0 ? "-" : "", mag / p, fd, mag % p);
}

static int
render_parts(const char *spec, int fd, char **buf, size_t *len, const char *kw)
{
    /* spec: lo..hi,lo..hi */
    const char *p = spec;
    int first = 1;

    sb_add(buf, len, " %s \"", kw);
    while (*p) {
        char lo[64], hi[64], t1[64], t2[64];
        const char *dd = strstr(p, ".."), *e;
        if (!dd || dd - p >= 60) return -1;
        memcpy(lo, p, dd - p); lo[dd - p] = 0;
        e = strchr(dd, ',');
        if (!e) e = dd + strlen(dd);
        if (e - (dd + 2) >= 60) return -1;
        memcpy(hi, dd + 2, e - (dd + 2)); hi[e - (dd + 2)] = 0;
        if (fd) {
            dec_text(strtoll(lo, NULL, 10), fd, t1); dec_text(strtoll(hi, NULL, 10), fd, t2);
        } else {
            strcpy(t1, lo); strcpy(t2, hi);
        }
        sb_add(buf, len, "%s%s..%s", first ? "" : " | ", t1, t2);
        first = 0;
        p = *e ? e + 1 : e;
    }
    sb_add(buf, len, "\";");
    return 0;
}

/* YANG double-quoted string body; returns 0 when the text cannot be written that way */
static int
yang_dq(const char *s, size_t n, char **buf, size_t *len)
{
    size_t i;

    for (i = 0; i < n; i++) {
        unsigned char c = s[i];
        if (c == '"' || c == '\\') sb_add(buf, len, "\\%c", c);
        else if (c == '\n') sb_add(buf, len, "\\n");
        else if (c == '\t') sb_add(buf, len, "\\t");
        else if (c < 0x20 || c == 0x7f) return 0;
        else sb_add(buf, len, "%c", c);
    }
    return 1;
}

/* rendering context: module-level statements the type needs */
struct rctx {
    char *imports; size_t il;            /* import statements */
    char *body; size_t bl;               /* typedefs / identities */
    int ntd;                             /* typedef counter */
    char *cbody; size_t cl; int ntg;     /* leafref: target leaves inside container c */
    int ietf;                            /* needs the ietf imports */
    char *idmods; size_t ml;             /* identityref: module names */
    char leafmod[64];                    /* identityref: name the leaf module must have */
};

static char *render_type(const char *d, struct rctx *rc);

/* split `s[0..n)` at top-level (parenthesis depth 0) occurrences of `sep`; calls render_type on every piece */
static int
render_members(const char *s, size_t n, struct rctx *rc, char **buf, size_t *len)
{
    size_t i, start = 0; int depth = 0, cnt = 0;

    for (i = 0; i <= n; i++) {
        if (i < n && s[i] == '(') depth++;
        else if (i < n && s[i] == ')') depth--;
        if (i == n || (s[i] == '|' && !depth)) {
            char *piece = strndup(s + start, i - start), *r;
            r = render_type(piece, rc);
            free(piece);
            if (!r) return -1;
            sb_add(buf, len, " %s", r);
            free(r);
            start = i + 1; cnt++;
        }
    }
    return depth ? -1 : cnt;
}

/* `;`-separated [!]hex patterns -> pattern statements */
static int
render_patterns(const char *s, size_t n, char **buf, size_t *len)
{
    size_t i, start = 0;

    for (i = 0; i <= n; i++) {
        if (i == n || s[i] == ';') {
            if (i > start) {
                int inv = s[start] == '!'; size_t pl; char *hex = strndup(s + start + inv, i - start - inv), *pat;
                pat = vp_unhex(hex, &pl);
                free(hex);
                if (!pat) return -1;
                sb_add(buf, len, " pattern \"");
                if (!yang_dq(pat, pl, buf, len)) { free(pat); return -1; }
                sb_add(buf, len, inv ? "\" { modifier invert-match; }" : "\";");
                free(pat);
            }
            start = i + 1;
        }
    }
    return 0;
}

static int
word_in(const char *list, const char *w)
{
    size_t wl = strlen(w); const char *p = list;
    while (p && (p = strstr(p, w))) {
        if ((p == list || p[-1] == ' ') && (p[wl] == ' ' || !p[wl])) return 1;
        p += wl;
    }
    return 0;
}

/* `<mod>.<name>` -> qualified name as seen from module `from` (import prefix p<mod>) */
static void
idname(const char *ref, size_t n, const char *from, char **buf, size_t *len)
{
    const char *dot = memchr(ref, '.', n);
    size_t ml = dot ? (size_t)(dot - ref) : 0;

    if (dot && strlen(from) == ml && !strncmp(from, ref, ml)) sb_add(buf, len, "%.*s", (int)(n - ml - 1), dot + 1);
    else sb_add(buf, len, "p%.*s:%.*s", (int)ml, ref, (int)(n - ml - 1), dot ? dot + 1 : "");
}

static struct ly_ctx *ctx;

/* the identity set `graph` (<mod>.<name>[<<base>+<base>],...): create every module other than `leafmod` that is not in the context yet (in
 * dependency order); identities of `leafmod` and its imports are appended to rc.  Returns 0 on success. */
static int
render_identities(const char *graph, const char *leafmod, struct rctx *rc)
{
    char mods[64][64]; int nm = 0, i, progress = 1, done[64] = {0};
    const char *p;

    /* module names, in order of first appearance */
    for (p = graph; *p; ) {
        const char *e = strchr(p, ','); size_t n = e ? (size_t)(e - p) : strlen(p); const char *q = p;
        while (q < p + n) {
            const char *dot = memchr(q, '.', p + n - q); char nm_[64]; size_t l;
            if (!dot || dot - q >= 60) return -1;
            l = dot - q; memcpy(nm_, q, l); nm_[l] = 0;
            for (i = 0; i < nm && strcmp(mods[i], nm_); i++) {}
            if (i == nm) { if (nm == 64) return -1; strcpy(mods[nm++], nm_); }
            q = dot + 1;
            while (q < p + n && *q != '<' && *q != '+') q++;
            if (q < p + n) q++;
        }
        p = e ? e + 1 : p + n;
    }
    for (i = 0; i < nm && strcmp(mods[i], leafmod); i++) {}
    if (i == nm) { if (nm == 64) return -1; strcpy(mods[nm++], leafmod); }
    for (i = 0; i < nm; i++) sb_add(&rc->idmods, &rc->ml, "%s%s", i ? " " : "", mods[i]);

    while (progress) {
        progress = 0;
        for (i = 0; i < nm; i++) {
            char *imp = NULL, *body = NULL, deps[2048] = ""; size_t il = 0, bl = 0; int ready = 1, isleaf = !strcmp(mods[i], leafmod), j;
            if (done[i]) continue;
            if (!isleaf && ly_ctx_get_module_implemented(ctx, mods[i])) { done[i] = 1; progress = 1; continue; }
            for (p = graph; *p; ) {
                const char *e = strchr(p, ','); size_t n = e ? (size_t)(e - p) : strlen(p);
                const char *dot = memchr(p, '.', n), *lt = memchr(p, '<', n);
                if ((size_t)(dot - p) == strlen(mods[i]) && !strncmp(p, mods[i], dot - p)) {
                    const char *ne = lt ? lt : p + n;
                    if (ne[-1] == '!') {
                        /* disabled by if-feature (the feature `off` of the module is never enabled) */
                        if (!body || !strstr(body, " feature off;")) sb_add(&body, &bl, " feature off;");
                        sb_add(&body, &bl, " identity %.*s { if-feature off;", (int)(ne - dot - 2), dot + 1);
                    } else {
                        sb_add(&body, &bl, " identity %.*s {", (int)(ne - dot - 1), dot + 1);
                    }
                    if (lt) {
                        const char *q = lt + 1;
                        while (q < p + n) {
                            const char *pe = memchr(q, '+', p + n - q); size_t rl = pe ? (size_t)(pe - q) : (size_t)(p + n - q);
                            const char *d2 = memchr(q, '.', rl); char dm[64];
                            if (!d2) { free(imp); free(body); return -1; }
                            memcpy(dm, q, d2 - q); dm[d2 - q] = 0;
                            if (strcmp(dm, mods[i]) && !word_in(deps, dm)) { strcat(deps, " "); strcat(deps, dm); }
                            sb_add(&body, &bl, " base "); idname(q, rl, mods[i], &body, &bl); sb_add(&body, &bl, ";");
                            q = pe ? pe + 1 : p + n;
                        }
                    }
                    sb_add(&body, &bl, " }");
                }
                p = e ? e + 1 : p + n;
            }
            if (isleaf) {
                /* the leaf module imports every module of the set (its type names the bases) */
                for (j = 0; j < nm; j++) if (j != i && !word_in(deps, mods[j])) { strcat(deps, " "); strcat(deps, mods[j]); }
            }
            for (j = 0; j < nm; j++) {
                if (j != i && word_in(deps, mods[j])) {
                    if (!done[j]) ready = 0;
                    sb_add(&imp, &il, " import %s { prefix p%s; }", mods[j], mods[j]);
                }
            }
            if (ready) {
                if (isleaf) {
                    sb_add(&rc->imports, &rc->il, "%s", imp ? imp : "");
                    sb_add(&rc->body, &rc->bl, "%s", body ? body : "");
                } else {
                    char *sch = NULL; size_t sl = 0; struct lys_module *m = NULL;
                    sb_add(&sch, &sl, "module %s { yang-version 1.1; namespace \"urn:%s\"; prefix %s;%s%s }", mods[i], mods[i], mods[i],
                            imp ? imp : "", body ? body : "");
                    if (lys_parse_mem(ctx, sch, LYS_IN_YANG, &m)) { free(sch); free(imp); free(body); return -1; }
                    free(sch);
                }
                done[i] = 1; progress = 1;
            }
            free(imp); free(body);
        }
    }
    for (i = 0; i < nm; i++) if (!done[i]) return -1;
    return 0;
}

static char *
render_type(const char *d, struct rctx *rc)
{
    char *buf = NULL; size_t len = 0;
    static const char *ints[][2] = {{"i8", "int8"}, {"i16", "int16"}, {"i32", "int32"}, {"i64", "int64"}, {"u8", "uint8"},
        {"u16", "uint16"}, {"u32", "uint32"}, {"u64", "uint64"}, {NULL, NULL}};
    const char *colon = strchr(d, ':');
    size_t hl = colon ? (size_t)(colon - d) : strlen(d);
    int i;

    if ((!strncmp(d, "lref(", 5) || !strncmp(d, "lrefr(", 6)) && d[strlen(d) - 1] == ')') {
        /* leafref to a sibling leaf (lref: require-instance false) / leaf-list (lrefr: require-instance true) of the type inside the parentheses */
        int req = d[4] == 'r';
        char *inner = strndup(d + 5 + req, strlen(d) - 6 - req), *ty = render_type(inner, rc);
        free(inner);
        if (!ty) return NULL;
        sb_add(&rc->cbody, &rc->cl, " %s tg%d { %s }", req ? "leaf-list" : "leaf", rc->ntg, ty);
        free(ty);
        sb_add(&buf, &len, "type leafref { path \"../tg%d\"; require-instance %s; }", rc->ntg++, req ? "true" : "false");
        return buf;
    }
    if (d[0] == 'U' && d[1] == '(' && d[strlen(d) - 1] == ')') {
        sb_add(&buf, &len, "type union {");
        if (render_members(d + 2, strlen(d) - 3, rc, &buf, &len) < 1) { free(buf); return NULL; }
        sb_add(&buf, &len, " }");
        return buf;
    }
    if (hl == 4 && !strncmp(d, "pstr", 4) && colon) {
        const char *c2 = strchr(colon + 1, ':'), *lv; char prev[64] = "string";
        if (!c2) return NULL;
        for (lv = c2 + 1; ; ) {
            const char *e = strchr(lv, '/'); size_t n = e ? (size_t)(e - lv) : strlen(lv);
            if (e) {
                sb_add(&rc->body, &rc->bl, " typedef pt%d { type %s {", rc->ntd, prev);
                if (render_patterns(lv, n, &rc->body, &rc->bl)) return NULL;
                sb_add(&rc->body, &rc->bl, " } }");
                snprintf(prev, sizeof prev, "pt%d", rc->ntd++);
                lv = e + 1;
            } else {
                sb_add(&buf, &len, "type %s {", prev);
                if (c2 > colon + 1) {
                    char *parts = strndup(colon + 1, c2 - colon - 1);
                    int r = render_parts(parts, 0, &buf, &len, "length");
                    free(parts);
                    if (r) { free(buf); return NULL; }
                }
                if (render_patterns(lv, n, &buf, &len)) { free(buf); return NULL; }
                sb_add(&buf, &len, " }");
                break;
            }
        }
        return buf;
    }
    if (hl == 5 && !strncmp(d, "idref", 5) && colon) {
        const char *c2 = strchr(colon + 1, ':'), *at = c2 ? strchr(c2, '@') : NULL, *q;
        if (!c2 || !at || c2 - colon - 1 >= 60 || rc->leafmod[0]) return NULL;
        memcpy(rc->leafmod, colon + 1, c2 - colon - 1); rc->leafmod[c2 - colon - 1] = 0;
        if (render_identities(at + 1, rc->leafmod, rc)) return NULL;
        sb_add(&buf, &len, "type identityref {");
        for (q = c2 + 1; q < at; ) {
            const char *pe = memchr(q, '+', at - q); size_t rl = pe ? (size_t)(pe - q) : (size_t)(at - q);
            sb_add(&buf, &len, " base "); idname(q, rl, rc->leafmod, &buf, &len); sb_add(&buf, &len, ";");
            q = pe ? pe + 1 : at;
        }
        sb_add(&buf, &len, " }");
        return buf;
    }
    for (i = 0; ints[i][0]; i++) {
        if (strlen(ints[i][0]) == hl && !strncmp(d, ints[i][0], hl)) {
            sb_add(&buf, &len, "type %s", ints[i][1]);
            if (colon) {
                sb_add(&buf, &len, " {");
                if (render_parts(colon + 1, 0, &buf, &len, "range")) { free(buf); return NULL; }
                sb_add(&buf, &len, " }");
            } else sb_add(&buf, &len, ";");
            return buf;
        }
    }
    if (d[0] == 'd' && isdigit((unsigned char)d[1])) {
        int fd = atoi(d + 1);
        sb_add(&buf, &len, "type decimal64 { fraction-digits %d;", fd);
        if (colon && render_parts(colon + 1, fd, &buf, &len, "range")) { free(buf); return NULL; }
        sb_add(&buf, &len, " }");
        return buf;
    }
    if (hl == 4 && !strncmp(d, "bool", 4)) {
        sb_add(&buf, &len, "type boolean;");
        return buf;
    }
    if (hl == 3 && !strncmp(d, "bin", 3)) {
        sb_add(&buf, &len, "type binary");
        if (colon) {
            sb_add(&buf, &len, " {");
            if (render_parts(colon + 1, 0, &buf, &len, "length")) { free(buf); return NULL; }
            sb_add(&buf, &len, " }");
        } else sb_add(&buf, &len, ";");
        return buf;
    }
    if (hl == 3 && !strncmp(d, "str", 3)) {
        sb_add(&buf, &len, "type string");
        if (colon) {
            sb_add(&buf, &len, " {");
            if (render_parts(colon + 1, 0, &buf, &len, "length")) { free(buf); return NULL; }
            sb_add(&buf, &len, " }");
        } else sb_add(&buf, &len, ";");
        return buf;
    }
    if ((hl == 4 && (!strncmp(d, "enum", 4) || !strncmp(d, "bits", 4))) && colon) {
        int is_enum = d[0] == 'e';
        const char *p = colon + 1;
        sb_add(&buf, &len, "type %s {", is_enum ? "enumeration" : "bits");
        while (*p) {
            const char *eq = strchr(p, '='), *e;
            char hex[512]; char *name; size_t nl;
            if (!eq || eq - p >= 500) { free(buf); return NULL; }
            memcpy(hex, p, eq - p); hex[eq - p] = 0;
            name = vp_unhex(hex, &nl);
            if (!name) { free(buf); return NULL; }
            e = strchr(eq, ',');
            if (!e) e = eq + strlen(eq);
            sb_add(&buf, &len, " %s \"", is_enum ? "enum" : "bit");
            if (!yang_dq(name, nl, &buf, &len)) { free(name); free(buf); return NULL; }
            sb_add(&buf, &len, "\" { %s %.*s; }", is_enum ? "value" : "position", (int)(e - eq - 1), eq + 1);
            free(name);
            p = *e ? e + 1 : e;
        }
        sb_add(&buf, &len, " }");
        return buf;
    }
    if (hl == 1 && d[0] == 't' && colon) {
        const char *c2 = strchr(colon + 1, ':');
        if (!c2) return NULL;
        rc->ietf = 1;
        if (!strncmp(colon + 1, "ietf-inet-types", c2 - colon - 1)) sb_add(&buf, &len, "type inet:%s;", c2 + 1);
        else if (!strncmp(colon + 1, "ietf-yang-types", c2 - colon - 1)) sb_add(&buf, &len, "type yang:%s;", c2 + 1);
        else return NULL;
        return buf;
    }
    return NULL;
}

static const char *IMPORTS = " import ietf-inet-types { prefix inet; } import ietf-yang-types { prefix yang; }";

/* a later lys_parse_mem may recompile modules that are already in the context (dependency sets): compiled nodes are then freed and
 * created anew, so the cached pointers are looked up again after every module that is added */
static void
refresh_types(void)
{
    size_t i;

    for (i = 0; i < ntys; i++) {
        struct tyent *t = &tys[i];
        if (!t->mod) continue;
        t->c = lys_find_child(NULL, t->mod, "c", 0, 0, 0);
        t->l = lys_find_child(t->c, t->mod, "l", 0, 0, 0);
        t->s = lys_find_child(t->c, t->mod, "s", 0, 0, 0);
        t->type = ((struct lysc_node_leaflist *)t->l)->type;
    }
}

/* ---- instance-identifier: descriptor `instid:<schema-ser>:<yang-hex>[,<yang-hex>...]`.  The modules are loaded as given (the first one has
 * `container c { leaf-list l; leaf s }` of type instance-identifier besides the data nodes the values point to); <schema-ser> is the serialisation
 * of lean/LyModel/Path/Drv.lean (the one harness/api_path.c computes) with a type field after the kind (lean/LyModel/Val/DrvInst.lean) and must equal what is computed here from the lysc_node trees of the loaded
 * modules, in the order given - the model works on <schema-ser> alone. */
static char
ii_kind(const struct lysc_node *sn)
{
    switch (sn->nodetype) {
    case LYS_LIST: return (sn->flags & LYS_KEYLESS) ? 'k' : ((sn->flags & LYS_CONFIG_W) ? 'L' : 'l');
    case LYS_LEAFLIST: return (sn->flags & LYS_CONFIG_W) ? 'F' : 'f';
    case LYS_LEAF: return (sn->flags & LYS_KEY) ? 'K' : 'e';
    case LYS_ANYDATA: case LYS_ANYXML: return 'e';
    default: return 'i';
    }
}

static void
ii_hex(char **buf, size_t *len, const char *t)
{
    if (!*t) sb_add(buf, len, "-");
    for (; *t; t++) sb_add(buf, len, "%02x", (unsigned char)*t);
}

/* type field of a leaf / leaf-list: hex of the descriptor of its compiled type (i8.. u64 with the range parts, bool, str without restrictions,
 * enum:<hexname>=<value>,..., inst; `?` anything else), `-` for the other nodes */
static void
ii_type(char **buf, size_t *len, const struct lysc_node *sn)
{
    static const char *ints[] = {[LY_TYPE_INT8] = "i8", [LY_TYPE_INT16] = "i16", [LY_TYPE_INT32] = "i32", [LY_TYPE_INT64] = "i64",
        [LY_TYPE_UINT8] = "u8", [LY_TYPE_UINT16] = "u16", [LY_TYPE_UINT32] = "u32", [LY_TYPE_UINT64] = "u64"};
    const struct lysc_type *t; char *d = NULL; size_t dl = 0; LY_ARRAY_COUNT_TYPE u;

    if (sn->nodetype == LYS_LEAF) t = ((const struct lysc_node_leaf *)sn)->type;
    else if (sn->nodetype == LYS_LEAFLIST) t = ((const struct lysc_node_leaflist *)sn)->type;
    else { sb_add(buf, len, "-"); return; }
    switch (t->basetype) {
    case LY_TYPE_INT8: case LY_TYPE_INT16: case LY_TYPE_INT32: case LY_TYPE_INT64:
    case LY_TYPE_UINT8: case LY_TYPE_UINT16: case LY_TYPE_UINT32: case LY_TYPE_UINT64: {
        const struct lysc_range *r = ((const struct lysc_type_num *)t)->range;
        int uns = t->basetype == LY_TYPE_UINT8 || t->basetype == LY_TYPE_UINT16 || t->basetype == LY_TYPE_UINT32 || t->basetype == LY_TYPE_UINT64;
        sb_add(&d, &dl, "%s", ints[t->basetype]);
        if (r) LY_ARRAY_FOR(r->parts, u) {
            if (uns) sb_add(&d, &dl, "%s%" PRIu64 "..%" PRIu64, u ? "," : ":", r->parts[u].min_u64, r->parts[u].max_u64);
            else sb_add(&d, &dl, "%s%" PRId64 "..%" PRId64, u ? "," : ":", r->parts[u].min_64, r->parts[u].max_64);
        }
        break;
    }
    case LY_TYPE_BOOL: sb_add(&d, &dl, "bool"); break;
    case LY_TYPE_STRING:
        sb_add(&d, &dl, (((const struct lysc_type_str *)t)->length || ((const struct lysc_type_str *)t)->patterns) ? "?" : "str");
        break;
    case LY_TYPE_ENUM: {
        const struct lysc_type_enum *e = (const struct lysc_type_enum *)t;
        sb_add(&d, &dl, "enum");
        LY_ARRAY_FOR(e->enums, u) { sb_add(&d, &dl, u ? "," : ":"); ii_hex(&d, &dl, e->enums[u].name); sb_add(&d, &dl, "=%" PRId32, e->enums[u].value); }
        break;
    }
    case LY_TYPE_INST: sb_add(&d, &dl, "inst"); break;
    default: sb_add(&d, &dl, "?"); break;
    }
    ii_hex(buf, len, d);
    free(d);
}

static void
ii_ser(char **buf, size_t *len, const struct lysc_node *parent, const struct lysc_module *mod)
{
    const struct lysc_node *it = NULL;

    while ((it = lys_getnext(it, parent, mod, 0))) {
        sb_add(buf, len, "("); ii_hex(buf, len, it->module->name); sb_add(buf, len, ","); ii_hex(buf, len, it->name);
        sb_add(buf, len, ",%c,", ii_kind(it)); ii_type(buf, len, it); sb_add(buf, len, ",");
        if (!(it->nodetype & (LYS_LEAF | LYS_LEAFLIST | LYS_ANYDATA | LYS_ANYXML))) ii_ser(buf, len, it, NULL);
        sb_add(buf, len, ")");
    }
}

static struct lys_module *
instid_load(const char *desc)
{
    const char *ser = desc + 7, *c2 = strchr(ser, ':'), *p;
    struct lys_module *first = NULL, *loaded[8]; int n = 0, i;
    char *buf = NULL; size_t len = 0; const struct lysc_node *c;

    if (!c2) return NULL;
    for (p = c2 + 1; *p && n < 8; ) {
        const char *e = strchr(p, ','); size_t hl = e ? (size_t)(e - p) : strlen(p);
        char *hex = strndup(p, hl), *y = vp_unhex(hex, NULL); struct lys_module *m = NULL;
        free(hex);
        if (!y || lys_parse_mem(ctx, y, LYS_IN_YANG, &m)) { free(y); return NULL; }
        free(y);
        loaded[n++] = m;
        p = e ? e + 1 : p + hl;
    }
    if (!n) return NULL;
    first = loaded[0];
    for (i = 0; i < n; i++) ii_ser(&buf, &len, NULL, loaded[i]->compiled);
    if (!buf || strlen(buf) != (size_t)(c2 - ser) || strncmp(buf, ser, c2 - ser)) {
        fprintf(stderr, "instid: schema serialisation differs: %s\n", buf ? buf : "-");
        free(buf);
        return NULL;
    }
    free(buf);
    c = lys_find_child(NULL, first, "c", 0, 0, 0);
    if (!c || !lys_find_child(c, first, "l", 0, LYS_LEAFLIST, 0) || !lys_find_child(c, first, "s", 0, LYS_LEAF, 0)) return NULL;
    return first;
}

static struct tyent *
get_type(const char *desc)
{
    size_t i; char *yt, *sch = NULL; size_t sl = 0; struct lys_module *mod = NULL; struct tyent *t; struct rctx rc;

    for (i = 0; i < ntys; i++) {
        if (!strcmp(tys[i].desc, desc)) return tys[i].mod ? &tys[i] : NULL;
    }
    tys = realloc(tys, (ntys + 1) * sizeof *tys);
    t = &tys[ntys];
    memset(t, 0, sizeof *t);
    memset(&rc, 0, sizeof rc);
    t->desc = strdup(desc);
    if (!strncmp(desc, "instid:", 7)) {       /* instance-identifier over a schema of its own: modules given in the descriptor */
        if ((t->mod = instid_load(desc))) { t->yangtype = strdup("type instance-identifier { require-instance false; }"); t->preamble = strdup(""); }
        yt = NULL;
    } else
    yt = render_type(desc, &rc);
    if (yt) {
        char name[80], *pre = NULL; size_t pl = 0;
        if (rc.leafmod[0]) snprintf(name, sizeof name, "%s", rc.leafmod);
        else snprintf(name, sizeof name, "vtm%zu", ntys);
        sb_add(&pre, &pl, "%s%s%s", rc.ietf ? IMPORTS : "", rc.imports ? rc.imports : "", rc.body ? rc.body : "");
        sb_add(&sch, &sl, "module %s { yang-version 1.1; namespace \"urn:%s\"; prefix v;%s"
                " container c {%s leaf-list l { %s } leaf s { %s } } }", name, name, pre, rc.cbody ? rc.cbody : "", yt, yt);
        if (lys_parse_mem(ctx, sch, LYS_IN_YANG, &mod) == LY_SUCCESS) {
            t->mod = mod;
            t->c = lys_find_child(NULL, mod, "c", 0, 0, 0);
            t->l = lys_find_child(t->c, mod, "l", 0, 0, 0);
            t->s = lys_find_child(t->c, mod, "s", 0, 0, 0);
            t->type = ((struct lysc_node_leaflist *)t->l)->type;
            t->yangtype = yt;
            t->preamble = pre;
            t->needs_imports = rc.ietf;
            t->idmods = rc.idmods; rc.idmods = NULL;
            t->ntg = rc.ntg;
            yt = NULL; pre = NULL;
        }
        free(sch); free(pre);
    }
    free(yt); free(rc.imports); free(rc.body); free(rc.idmods); free(rc.cbody);
    ntys++;
    refresh_types();
    ly_err_clean(ctx, NULL);
    t = &tys[ntys - 1];
    return t->mod ? t : NULL;
}

/* ------------------------------------------------------------------------------------------------- helpers */
static const char *
canon_of(const struct lyd_value *v)
{
    const char *c = v->realtype->plugin->print(ctx, v, LY_VALUE_CANON, NULL, NULL, NULL);
    return c ? c : "";
}

static LY_ERR
store_text(struct tyent *t, const char *s, size_t n, uint32_t hints, struct lyd_value *val, const char **kind)
{
    struct ly_err_item *err = NULL;
    LY_ERR rc;

    memset(val, 0, sizeof *val);
    rc = t->type->plugin->store(ctx, t->type, n ? s : "", n, 0, LY_VALUE_JSON, NULL, hints, t->l, val, NULL, &err);
    if (rc == LY_EINCOMPLETE) rc = LY_SUCCESS;
    if (rc) {
        *kind = (!err && rc == LY_EINT) ? "Internal" : kind_of_msg(err ? err->msg : NULL);
        ly_err_free(err);
    }
    return rc;
}

static int
sign_of(int x)
{
    return x < 0 ? -1 : (x > 0 ? 1 : 0);
}

static void
field_route(LY_ERR rc, const char *canon)
{
    if (rc) vp_field_s("R");
    else vp_field_hex(canon ? canon : "", canon ? strlen(canon) : 0);
}

static void
xml_esc(const char *s, size_t n, char **buf, size_t *len)
{
    size_t i;
    for (i = 0; i < n; i++) {
        if (s[i] == '<') sb_add(buf, len, "&lt;");
        else if (s[i] == '&') sb_add(buf, len, "&amp;");
        else if (s[i] == '>') sb_add(buf, len, "&gt;");
        else if (s[i] == '\r') sb_add(buf, len, "&#13;");
        else sb_add(buf, len, "%c", s[i]);
    }
}

static void
json_esc(const char *s, size_t n, char **buf, size_t *len)
{
    size_t i;
    for (i = 0; i < n; i++) {
        unsigned char c = s[i];
        if (c == '"' || c == '\\') sb_add(buf, len, "\\%c", c);
        else if (c < 0x20) sb_add(buf, len, "\\u%04x", c);
        else sb_add(buf, len, "%c", c);
    }
}

static void
route_parse(struct tyent *t, const char *doc, LYD_FORMAT fmt)
{
    struct lyd_node *tree = NULL, *x = NULL;
    char path[128];
    LY_ERR rc = lyd_parse_data_mem(ctx, doc, fmt, LYD_PARSE_ONLY | LYD_PARSE_STRICT, 0, &tree);

    snprintf(path, sizeof path, "/%s:c/s", t->mod->name);
    if (!rc) rc = lyd_find_path(tree, path, 0, &x);
    field_route(rc, rc ? NULL : lyd_get_value(x));
    lyd_free_all(tree);
}

/* ----------------------------------------------------------------------------------------------------- main */
int
main(void)
{
    struct vp_req r = {0};
    char sd[512];

    repo = getenv("VERIF_REPO");
    if (!repo) repo = "/repo";
    snprintf(sd, sizeof sd, "%s/models", repo);
    setenv("TZ", "UTC", 1); tzset();     /* the canonical form of date-and-time is local time (ly_time_time2str) */
    ly_log_options(LY_LOSTORE_LAST);
    if (ly_ctx_new(sd, 0, &ctx)) return 2;

    while (vp_next(&r)) {
        const char *id = r.tok[0], *op = r.ntok > 2 ? r.tok[2] : "";
        struct tyent *t;

        if (r.ntok < 4) { vp_reply(r.ntok ? id : "?", "err BadLine"); continue; }
        ly_err_clean(ctx, NULL);
        t = get_type(r.tok[3]);
        if (!t) { vp_reply(id, "err Schema"); continue; }

        if (!strcmp(op, "store") && r.ntok == 6) {
            size_t n; char *s = vp_unhex(r.tok[5], &n); struct lyd_value val; const char *kind = "Other";
            uint32_t hints = (uint32_t)strtoul(r.tok[4], NULL, 10);
            if (!s) { vp_reply(id, "err BadHex"); continue; }
            if (store_text(t, s, n, hints, &val, &kind)) {
                vp_reply(id, "err %s", kind);
            } else {
                ly_bool dyn = 0; size_t ll = 0; const char *c = canon_of(&val);
                const void *lyb;
                vp_begin(id, "ok"); vp_field_hex(c, strlen(c));
                lyb = val.realtype->plugin->print(ctx, &val, LY_VALUE_LYB, NULL, &dyn, &ll);
                vp_field_hex(lyb, ll); vp_end();
                if (dyn) free((void *)lyb);
                val.realtype->plugin->free(ctx, &val);
            }
            free(s);
        } else if (!strcmp(op, "validate") && r.ntok == 5) {
            size_t n; char *s = vp_unhex(r.tok[4], &n); const char *canon = NULL; LY_ERR rc;
            if (!s) { vp_reply(id, "err BadHex"); continue; }
            rc = lyd_value_validate(ctx, t->l, s, n, NULL, NULL, &canon);
            if (rc && rc != LY_EINCOMPLETE) {
                const struct ly_err_item *e = ly_err_last(ctx);
                vp_reply(id, "err %s", kind_of_msg(e ? e->msg : NULL));
            } else {
                vp_begin(id, "ok"); vp_field_hex(canon ? canon : "", canon ? strlen(canon) : 0); vp_end();
                lydict_remove(ctx, canon);
            }
            free(s);
        } else if (!strcmp(op, "validate_n") && r.ntok == 7) {
            size_t n, cut = strtoul(r.tok[5], NULL, 10); char *s = vp_unhex(r.tok[4], &n), *buf; const char *canon = NULL; LY_ERR rc;
            if (!s) { vp_reply(id, "err BadHex"); continue; }
            if (cut > n) cut = n;
            if (atoi(r.tok[6])) {
                buf = malloc(cut ? cut : 1);
                memcpy(buf, s, cut);
            } else {
                buf = s;
            }
            rc = lyd_value_validate(ctx, t->l, buf, cut, NULL, NULL, &canon);
            if (rc && rc != LY_EINCOMPLETE) {
                const struct ly_err_item *e = ly_err_last(ctx);
                vp_reply(id, "err %s", kind_of_msg(e ? e->msg : NULL));
            } else {
                vp_begin(id, "ok"); vp_field_hex(canon ? canon : "", canon ? strlen(canon) : 0); vp_end();
                lydict_remove(ctx, canon);
            }
            if (buf != s) free(buf);
            free(s);
        } else if (!strcmp(op, "cmp") && r.ntok == 6) {
            size_t n1, n2; char *s1 = vp_unhex(r.tok[4], &n1), *s2 = vp_unhex(r.tok[5], &n2);
            struct lyd_node *c1 = NULL, *c2 = NULL, *a = NULL, *b = NULL, *a2 = NULL, *b2 = NULL;
            if (!s1 || !s2) { vp_reply(id, "err BadHex"); free(s1); free(s2); continue; }
            lyd_new_inner(NULL, t->mod, "c", 0, &c1);
            lyd_new_inner(NULL, t->mod, "c", 0, &c2);
            if (lyd_new_term(c1, NULL, "l", s1, 0, &a)) {
                vp_reply(id, "err Reject1");
            } else if (lyd_new_term(c1, NULL, "l", s2, 0, &b)) {
                vp_reply(id, "err Reject2");
            } else {
                const struct lyd_value *v1 = &((struct lyd_node_term *)a)->value, *v2 = &((struct lyd_node_term *)b)->value;
                const char *k1 = lyd_get_value(a), *k2 = lyd_get_value(b);
                int eq = lyd_compare_single(a, b, 0) == LY_SUCCESS;
                int eq2 = lyd_value_compare((struct lyd_node_term *)a, s2, n2) == LY_SUCCESS;
                int eq3 = v1->realtype->plugin->compare(ctx, v1, v2) == LY_SUCCESS;
                int srt = sign_of(v1->realtype->plugin->sort(ctx, v1, v2));
                /* second container: reverse insertion order */
                lyd_new_term(c2, NULL, "l", s2, 0, &b2);
                lyd_new_term(c2, NULL, "l", s1, 0, &a2);
                vp_begin(id, "ok");
                vp_field_u((eq == eq2 && eq == eq3) ? eq : 2);      /* 2: the three equality entry points disagree */
                fprintf(stdout, " %d", srt);
                vp_field_u(!strcmp(k1 ? k1 : "", k2 ? k2 : ""));
                vp_field_s(lyd_child(c1) == a ? "a" : "b");
                vp_field_s(lyd_child(c2) == a2 ? "a" : "b");
                vp_end();
            }
            lyd_free_all(c1); lyd_free_all(c2); free(s1); free(s2);
        } else if (!strcmp(op, "lybrt") && r.ntok == 5) {
            size_t n; char *s = vp_unhex(r.tok[4], &n); struct lyd_value val, back, dup; const char *kind = "Other";
            if (!s) { vp_reply(id, "err BadHex"); continue; }
            if (store_text(t, s, n, LYD_HINT_DATA, &val, &kind)) {
                vp_reply(id, "err %s", kind);
            } else {
                ly_bool dyn = 0; size_t ll = 0; struct ly_err_item *err = NULL; LY_ERR rc;
                const void *lyb = val.realtype->plugin->print(ctx, &val, LY_VALUE_LYB, NULL, &dyn, &ll);
                void *copy = malloc(ll ? ll : 1);
                memcpy(copy, lyb, ll);
                memset(&back, 0, sizeof back);
                rc = t->type->plugin->store(ctx, t->type, copy, ll, 0, LY_VALUE_LYB, NULL, LYD_HINT_DATA, t->l, &back, NULL, &err);
                if (rc == LY_EINCOMPLETE) rc = LY_SUCCESS;
                if (rc) {
                    vp_reply(id, "err Unlyb%s", kind_of_msg(err ? err->msg : NULL));
                    ly_err_free(err);
                } else {
                    const char *cb = canon_of(&back);
                    int eq = val.realtype->plugin->compare(ctx, &val, &back) == LY_SUCCESS, dupok = 0, tree = 0;
                    struct lyd_node *c1 = NULL, *node = NULL, *parsed = NULL; char *mem = NULL;
                    memset(&dup, 0, sizeof dup);
                    if (val.realtype->plugin->duplicate(ctx, &val, &dup) == LY_SUCCESS) {
                        dupok = val.realtype->plugin->compare(ctx, &val, &dup) == LY_SUCCESS && !strcmp(canon_of(&dup), canon_of(&val));
                        dup.realtype->plugin->free(ctx, &dup);
                    }
                    /* whole-tree LYB round trip */
                    lyd_new_inner(NULL, t->mod, "c", 0, &c1);
                    if (!lyd_new_term(c1, NULL, "s", s, 0, &node) &&
                            !lyd_print_mem(&mem, c1, LYD_LYB, LYD_PRINT_SHRINK) &&
                            !lyd_parse_data_mem(ctx, mem, LYD_LYB, LYD_PARSE_ONLY | LYD_PARSE_STRICT, 0, &parsed) && parsed &&
                            lyd_compare_single(c1, parsed, LYD_COMPARE_FULL_RECURSION) == LY_SUCCESS &&
                            !strcmp(lyd_get_value(lyd_child(parsed)), lyd_get_value(node))) {
                        tree = 1;
                    }
                    vp_begin(id, "ok"); vp_field_hex(copy, ll); vp_field_hex(cb, strlen(cb)); vp_field_u(eq); vp_field_u(dupok); vp_field_u(tree); vp_end();
                    free(mem); lyd_free_all(c1); lyd_free_all(parsed);
                    back.realtype->plugin->free(ctx, &back);
                }
                if (dyn) free((void *)lyb);
                free(copy);
                val.realtype->plugin->free(ctx, &val);
            }
            free(s);
        } else if (!strcmp(op, "unlyb") && r.ntok == 5) {
            size_t n; char *s = vp_unhex(r.tok[4], &n); struct lyd_value back; struct ly_err_item *err = NULL; LY_ERR rc;
            if (!s) { vp_reply(id, "err BadHex"); continue; }
            memset(&back, 0, sizeof back);
            rc = t->type->plugin->store(ctx, t->type, s, n, 0, LY_VALUE_LYB, NULL, LYD_HINT_DATA, t->l, &back, NULL, &err);
            if (rc == LY_EINCOMPLETE) rc = LY_SUCCESS;
            if (rc) {
                vp_reply(id, "err %s", (!err && rc == LY_EINT) ? "Internal" : kind_of_msg(err ? err->msg : NULL));
                ly_err_free(err);
            } else {
                const char *cb = canon_of(&back);
                vp_begin(id, "ok"); vp_field_hex(cb, strlen(cb)); vp_end();
                back.realtype->plugin->free(ctx, &back);
            }
            free(s);
        } else if (!strcmp(op, "uvalid") && r.ntok >= 5) {
            /* uvalid <ty> <hex value> <hex target>*: the value in leaf-list l, every target value in every leaf-list tg<k> that takes it;
             * lyd_validate_module (leafref require-instance, union validate callback) -> ok <canon-hex> <member index> | err <Kind> */
            size_t n; char *s = vp_unhex(r.tok[4], &n); struct lyd_node *c1 = NULL, *node = NULL; int i, k; LY_ERR rc;
            if (!s) { vp_reply(id, "err BadHex"); continue; }
            lyd_new_inner(NULL, t->mod, "c", 0, &c1);
            for (k = 0; k < t->ntg; k++) {
                char nm[32]; snprintf(nm, sizeof nm, "tg%d", k);
                for (i = 5; i < r.ntok; i++) {
                    size_t tn; char *tv = vp_unhex(r.tok[i], &tn);
                    struct lyd_node *tnode = NULL, *it;
                    if (tv && !lyd_new_term(c1, NULL, nm, tv, 0, &tnode)) {
                        /* target instances are distinct values */
                        LY_LIST_FOR(lyd_child(c1), it) {
                            if ((it != tnode) && (it->schema == tnode->schema) && !lyd_compare_single(it, tnode, 0)) { lyd_free_tree(tnode); break; }
                        }
                    }
                    free(tv);
                }
            }
            ly_err_clean(ctx, NULL);
            if (lyd_new_term(c1, NULL, "l", s, 0, &node)) {
                vp_reply(id, "err Reject");
            } else if ((rc = lyd_validate_module(&c1, t->mod, 0, NULL))) {
                const struct ly_err_item *e = ly_err_last(ctx);
                vp_reply(id, "err %s", kind_of_msg(e ? e->msg : NULL));
            } else {
                const struct lyd_value *v = &((struct lyd_node_term *)node)->value;
                const char *cn = lyd_get_value(node); unsigned member = 99;
                if (v->realtype->basetype == LY_TYPE_UNION) {
                    /* the member whose plug-in holds the value now (a leafref member holds it with the type of its target) */
                    struct lysc_type **types = ((struct lysc_type_union *)v->realtype)->types; LY_ARRAY_COUNT_TYPE u;
                    LY_ARRAY_FOR(types, u) {
                        const struct lysc_type *ty = types[u];
                        if (ty->basetype == LY_TYPE_LEAFREF) ty = ((struct lysc_type_leafref *)ty)->realtype;
                        if (ty == v->subvalue->value.realtype) { member = (unsigned)u; break; }
                    }
                } else member = 0;
                vp_begin(id, "ok"); vp_field_hex(cn, strlen(cn)); vp_field_u(member); vp_end();
            }
            lyd_free_all(c1); free(s);
        } else if (!strcmp(op, "idfmt") && r.ntok == 6) {
            size_t n; char *s = vp_unhex(r.tok[5], &n); const char *fmt = r.tok[4];
            if (!s) { vp_reply(id, "err BadHex"); continue; }
            if (!strcmp(fmt, "json") || !strcmp(fmt, "lyb")) {
                struct lyd_value val; struct ly_err_item *err = NULL; LY_ERR rc;
                memset(&val, 0, sizeof val);
                rc = t->type->plugin->store(ctx, t->type, n ? s : "", n, 0, fmt[0] == 'j' ? LY_VALUE_JSON : LY_VALUE_LYB, NULL, LYD_HINT_DATA,
                        t->l, &val, NULL, &err);
                if (rc == LY_EINCOMPLETE) rc = LY_SUCCESS;
                if (rc) {
                    vp_reply(id, "err %s", kind_of_msg(err ? err->msg : NULL));
                    ly_err_free(err);
                } else {
                    const char *c = canon_of(&val);
                    vp_begin(id, "ok"); vp_field_hex(c, strlen(c)); vp_end();
                    val.realtype->plugin->free(ctx, &val);
                }
            } else if (!strcmp(fmt, "xml") && t->idmods) {
                char *doc = NULL; size_t dl = 0; struct lyd_node *tree = NULL, *x = NULL; char path[160]; LY_ERR rc;
                char *ms = strdup(t->idmods), *sv = NULL, *m;
                sb_add(&doc, &dl, "<c xmlns=\"urn:%s\"", t->mod->name);
                for (m = strtok_r(ms, " ", &sv); m; m = strtok_r(NULL, " ", &sv)) sb_add(&doc, &dl, " xmlns:x%s=\"urn:%s\"", m, m);
                sb_add(&doc, &dl, "><s>"); xml_esc(s, n, &doc, &dl); sb_add(&doc, &dl, "</s></c>");
                free(ms);
                rc = lyd_parse_data_mem(ctx, doc, LYD_XML, LYD_PARSE_ONLY | LYD_PARSE_STRICT, 0, &tree);
                snprintf(path, sizeof path, "/%s:c/s", t->mod->name);
                if (!rc) rc = lyd_find_path(tree, path, 0, &x);
                if (rc) {
                    const struct ly_err_item *e = ly_err_last(ctx);
                    vp_reply(id, "err %s", kind_of_msg(e ? e->msg : NULL));
                } else {
                    char *out = NULL; const char *c = lyd_get_value(x);
                    vp_begin(id, "ok"); vp_field_hex(c, strlen(c)); vp_end();
                    free(out);
                }
                lyd_free_all(tree); free(doc);
            } else if (!strcmp(fmt, "schema") && t->idmods) {
                static unsigned dcount; char *sch = NULL; size_t sl = 0; struct lys_module *m2 = NULL;
                char *ms = strdup(t->idmods), *sv = NULL, *m; const char *ty = t->yangtype;     /* identityref, or a union with an identityref member */
                sb_add(&sch, &sl, "module vtd%u { yang-version 1.1; namespace \"urn:vtd%u\"; prefix v;", dcount, dcount);
                dcount++;
                for (m = strtok_r(ms, " ", &sv); m; m = strtok_r(NULL, " ", &sv)) sb_add(&sch, &sl, " import %s { prefix p%s; }", m, m);
                free(ms);
                /* the bases as seen from the new module: an unprefixed base of the leaf module gets that module's import prefix */
                sb_add(&sch, &sl, " leaf x { ");
                {
                    const char *q = ty;
                    while (*q) {
                        if (!strncmp(q, " base ", 6) && !memchr(q + 6, ':', strcspn(q + 6, ";"))) {
                            sb_add(&sch, &sl, " base p%s:", t->mod->name); q += 6;
                        } else { sb_add(&sch, &sl, "%c", *q); q++; }
                    }
                }
                sb_add(&sch, &sl, " default \"");
                if (!yang_dq(s, n, &sch, &sl)) {
                    vp_reply(id, "err NotYangText");
                } else {
                    sb_add(&sch, &sl, "\"; } }");
                    LY_ERR prc = lys_parse_mem(ctx, sch, LYS_IN_YANG, &m2);
                    refresh_types();
                    t = get_type(r.tok[3]);
                    if (prc) {
                        const struct ly_err_item *e = ly_err_last(ctx); const char *msg = e ? e->msg : NULL, *in;
                        /* the value error is embedded in the "Invalid default" message */
                        if (msg && ((in = strstr(msg, "Invalid union value")) || (in = strstr(msg, "Invalid identityref")) ||
                                (in = strstr(msg, "Invalid empty identityref")) ||
                                (in = strstr(msg, "Invalid non-")))) msg = in;
                        vp_reply(id, "err %s", kind_of_msg(msg));
                    } else {
                        struct lyd_node *d = NULL;
                        lyd_new_implicit_module(&d, m2, 0, NULL);
                        if (d) { const char *c = lyd_get_value(d); vp_begin(id, "ok"); vp_field_hex(c, strlen(c)); vp_end(); }
                        else vp_reply(id, "err NoDefault");
                        lyd_free_all(d);
                    }
                }
                free(sch);
            } else {
                vp_reply(id, "err BadArg");
            }
            free(s);
        } else if (!strcmp(op, "routes") && r.ntok == 6) {
            size_t n; char *s = vp_unhex(r.tok[5], &n); unsigned mask = (unsigned)strtoul(r.tok[4], NULL, 10);
            const char *mn = t->mod->name;
            if (!s) { vp_reply(id, "err BadHex"); continue; }
            vp_begin(id, "ok");
            if (mask & 1) {                 /* XML element content */
                char *doc = NULL; size_t dl = 0;
                sb_add(&doc, &dl, "<c xmlns=\"urn:%s\"><s>", mn); xml_esc(s, n, &doc, &dl); sb_add(&doc, &dl, "</s></c>");
                route_parse(t, doc, LYD_XML); free(doc);
            } else vp_field_s("N");
            if (mask & 2) {                 /* JSON string */
                char *doc = NULL; size_t dl = 0;
                sb_add(&doc, &dl, "{\"%s:c\":{\"s\":\"", mn); json_esc(s, n, &doc, &dl); sb_add(&doc, &dl, "\"}}");
                route_parse(t, doc, LYD_JSON); free(doc);
            } else vp_field_s("N");
            if (mask & 4) {                 /* JSON literal (number / true / false), text used verbatim */
                char *doc = NULL; size_t dl = 0;
                sb_add(&doc, &dl, "{\"%s:c\":{\"s\":%s}}", mn, s);
                route_parse(t, doc, LYD_JSON); free(doc);
            } else vp_field_s("N");
            if (mask & 8) {                 /* lyd_new_term */
                struct lyd_node *c1 = NULL, *node = NULL; LY_ERR rc;
                lyd_new_inner(NULL, t->mod, "c", 0, &c1);
                rc = lyd_new_term(c1, NULL, "s", s, 0, &node);
                field_route(rc, rc ? NULL : lyd_get_value(node));
                lyd_free_all(c1);
            } else vp_field_s("N");
            if (mask & 16) {                /* lyd_value_validate */
                const char *canon = NULL; LY_ERR rc = lyd_value_validate(ctx, t->s, s, n, NULL, NULL, &canon);
                if (rc == LY_EINCOMPLETE) rc = LY_SUCCESS;
                field_route(rc, canon);
                if (!rc) lydict_remove(ctx, canon);
            } else vp_field_s("N");
            if (mask & 32) {                /* default statement of a fresh module in a fresh context */
                struct ly_ctx *c2 = NULL; struct lys_module *m2 = NULL; char *sch = NULL; size_t sl = 0; char sd[512];
                snprintf(sd, sizeof sd, "%s/models", repo);
                sb_add(&sch, &sl, "module vtdflt { yang-version 1.1; namespace \"urn:vtdflt\"; prefix v;%s leaf x { %s default \"",
                        t->preamble, t->yangtype);
                if (!yang_dq(s, n, &sch, &sl)) {
                    vp_field_s("N");
                } else {
                    sb_add(&sch, &sl, "\"; } }");
                    ly_ctx_new(sd, 0, &c2);
                    if (lys_parse_mem(c2, sch, LYS_IN_YANG, &m2)) {
                        vp_field_s("R");
                    } else {
                        struct lyd_node *d = NULL;
                        lyd_new_implicit_module(&d, m2, 0, NULL);
                        field_route(d ? LY_SUCCESS : LY_EINT, d ? lyd_get_value(d) : NULL);
                        lyd_free_all(d);
                    }
                    ly_ctx_destroy(c2);
                }
                free(sch);
            } else vp_field_s("N");
            if (mask & 64) {                /* leaf-list path predicate */
                char *path = NULL; size_t pl = 0; struct lyd_node *c1 = NULL; LY_ERR rc;
                char q = memchr(s, '\'', n) ? '"' : '\'';
                sb_add(&path, &pl, "/%s:c/l[.=%c", mn, q);
                path = realloc(path, pl + n + 4); memcpy(path + pl, s, n); pl += n;
                path[pl++] = q; path[pl++] = ']'; path[pl] = 0;
                rc = lyd_new_path(NULL, ctx, path, NULL, 0, &c1);
                field_route(rc, (rc || !c1 || !lyd_child(c1)) ? NULL : lyd_get_value(lyd_child(c1)));
                lyd_free_all(c1); free(path);
            } else vp_field_s("N");
            vp_end();
            free(s);
        } else {
            vp_reply(id, "err BadOp");
        }
    }
    free(r.line);
    {
        size_t i;
        for (i = 0; i < ntys; i++) { free(tys[i].desc); free(tys[i].yangtype); free(tys[i].preamble); free(tys[i].idmods); }
        free(tys);
    }
    ly_ctx_destroy(ctx);
    return 0;
}
