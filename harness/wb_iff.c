/* White-box harness of component `iff` (if-feature compiler / evaluator, range and length restrictions):
 *   iffcompile <10|11> <env-hex> <expr-hex>          lys_compile_iffeature (static)    -> ok <nbytes> <4*nbytes records> <feature-ids|-> | err <Kind>
 *   iffeval <10|11> <env-hex> <bits> <expr-hex>+     lys_parse + lys_find_path          -> ok <exists-bits> | err Compile
 *   range <type> <frdigits> <r0-hex> [<r1-hex> ...]  lys_compile_type_range chain       -> ok <min:max,...> | err <level> <LY_ERR>
 *   rangeval <type> <frdigits> <v,v,...> <r0-hex>... lys_parse + lyd_value_validate     -> ok <accept-bits> | err Compile
 * env = "m=a,b,c;i=a,x": local module prefix m with features a b c, one import per further item (prefix i, features a x);
 * feature ids number the features of all modules consecutively in that order.
 * `schema_features.c` is included to reach the static compiler; this TU is linked before libyang.a. */
#define _GNU_SOURCE
#include "schema_features.c"
#include "schema_compile_node.h"
#include "proto.h"
#include <malloc.h>

static struct ly_ctx *ctx;
static char cur_key[600];
static struct lys_module *mods[16];
static int nmods;
static const struct lysp_feature *feat_tab[128];
static int nfeat;

struct envmod { char prefix[64]; char feats[32][64]; int nf; };
static struct envmod em[16];
static int nem;

static void
parse_env(const char *env)
{
    char *dup = strdup(env), *sm = NULL, *m;

    nem = 0;
    for (m = strtok_r(dup, ";", &sm); m && nem < 16; m = strtok_r(NULL, ";", &sm)) {
        char *eq = strchr(m, '='), *sf = NULL, *f;

        if (!eq) continue;
        *eq = 0;
        snprintf(em[nem].prefix, sizeof em[nem].prefix, "%s", m);
        em[nem].nf = 0;
        for (f = strtok_r(eq + 1, ",", &sf); f && em[nem].nf < 32; f = strtok_r(NULL, ",", &sf)) {
            snprintf(em[nem].feats[em[nem].nf++], 64, "%s", f);
        }
        nem++;
    }
    free(dup);
}

/* text of module k of the environment; the main module (k == 0) gets `body` appended */
static char *
env_module_text(int k, const char *ver, const char *body)
{
    char *buf = NULL;
    size_t cap = 0;
    FILE *f = open_memstream(&buf, &cap);
    int i;

    if (k == 0) {
        fprintf(f, "module iffmain {yang-version %s; namespace \"urn:iffmain\"; prefix %s;\n", !strcmp(ver, "11") ? "1.1" : "1", em[0].prefix);
        for (i = 1; i < nem; i++) fprintf(f, " import iffimp%d {prefix %s;}\n", i, em[i].prefix);
    } else {
        fprintf(f, "module iffimp%d {yang-version 1.1; namespace \"urn:iffimp%d\"; prefix %s;\n", k, k, em[k].prefix);
    }
    for (i = 0; i < em[k].nf; i++) fprintf(f, " feature %s;\n", em[k].feats[i]);
    if (k == 0 && body) fputs(body, f);
    fputs("}\n", f);
    fclose(f);
    return buf;
}

/* (re)build the context for ver/env; bits (may be NULL) = enabled features by global id; body = extra statements of the main module */
static int
setup_env(const char *ver, const char *env, const char *bits, const char *body)
{
    int k, i, id = 0, rc = 0;

    if (ctx) ly_ctx_destroy(ctx);
    ctx = NULL; nmods = 0; nfeat = 0;
    if (ly_ctx_new(NULL, LY_CTX_NO_YANGLIBRARY, &ctx)) return -1;
    parse_env(env);
    if (!nem) return -1;
    /* global ids: module 0 first */
    int base[16];
    for (k = 0; k < nem; k++) { base[k] = id; id += em[k].nf; }
    for (k = nem - 1; k >= 0; k--) {     /* imports first */
        const char *en[40];
        int n = 0;
        char *txt = env_module_text(k, ver, body);
        struct ly_in *in = NULL;

        for (i = 0; i < em[k].nf; i++) {
            if (bits && (size_t)(base[k] + i) < strlen(bits) && bits[base[k] + i] == '1') en[n++] = em[k].feats[i];
        }
        en[n] = NULL;
        ly_in_new_memory(txt, &in);
        if (lys_parse(ctx, in, LYS_IN_YANG, en, &mods[k])) rc = -2;
        ly_in_free(in, 0);
        free(txt);
        if (rc) return rc;
    }
    nmods = nem;
    for (k = 0; k < nem; k++) {
        for (i = 0; i < em[k].nf; i++) {
            feat_tab[nfeat++] = &mods[k]->parsed->features[i];
        }
    }
    return 0;
}

static const char *
iff_errkind(LY_ERR r)
{
    const struct ly_err_item *e = ly_err_last(ctx);
    const char *m = e ? e->msg : "";

    if (strstr(m, "unexpected end of expression")) return "UnexpEnd";
    if (strstr(m, "missing feature/expression before")) return "MissingBefore";
    if (strstr(m, "non-matching opening and closing parentheses")) return "Parens";
    if (strstr(m, "number of features in expression does not match")) return "Count";
    if (strstr(m, "YANG 1.1 expression in YANG 1.0 module")) return "Version";
    if (strstr(m, "unable to find feature")) return "NoFeature";
    if (strstr(m, "processing error")) return "Internal";
    (void)r;
    return "Other";
}

static const char *
lyerr_name(LY_ERR r)
{
    switch (r) {
    case LY_EVALID: return "EVALID";
    case LY_EDENIED: return "EDENIED";
    case LY_EEXIST: return "EEXIST";
    case LY_EINVAL: return "EINVAL";
    case LY_EINT: return "EINT";
    case LY_EMEM: return "EMEM";
    default: return "EOTHER";
    }
}

static int
basetype_of(const char *n, LY_DATA_TYPE *bt, const char **yang)
{
    static const struct { const char *n; LY_DATA_TYPE t; const char *y; } T[] = {
        {"int8", LY_TYPE_INT8, "int8"}, {"int16", LY_TYPE_INT16, "int16"}, {"int32", LY_TYPE_INT32, "int32"}, {"int64", LY_TYPE_INT64, "int64"},
        {"uint8", LY_TYPE_UINT8, "uint8"}, {"uint16", LY_TYPE_UINT16, "uint16"}, {"uint32", LY_TYPE_UINT32, "uint32"}, {"uint64", LY_TYPE_UINT64, "uint64"},
        {"string", LY_TYPE_STRING, "string"}, {"binary", LY_TYPE_BINARY, "binary"}, {"dec64", LY_TYPE_DEC64, "decimal64"}};
    for (size_t i = 0; i < sizeof T / sizeof *T; i++) {
        if (!strcmp(n, T[i].n)) { *bt = T[i].t; *yang = T[i].y; return 0; }
    }
    return -1;
}

int
main(void)
{
    struct vp_req r = {0};

    ly_log_options(LY_LOSTORE_LAST);

    while (vp_next(&r)) {
        const char *id = r.tok[0], *op = r.ntok > 2 ? r.tok[2] : "";

        if (r.ntok < 3) { vp_reply(r.ntok ? id : "?", "err BadLine"); continue; }

        if (!strcmp(op, "iffcompile") && r.ntok == 6) {
            char *env = vp_unhex(r.tok[4], NULL), *expr = vp_unhex(r.tok[5], NULL);
            char key[600];

            if (!env || !expr) { vp_reply(id, "err BadHex"); free(env); free(expr); continue; }
            snprintf(key, sizeof key, "C %s %s", r.tok[3], env);
            if (strcmp(key, cur_key)) {
                cur_key[0] = 0;
                if (setup_env(r.tok[3], env, NULL, NULL)) { vp_reply(id, "err Env"); free(env); free(expr); continue; }
                snprintf(cur_key, sizeof cur_key, "%s", key);
            }
            ly_err_clean(ctx, NULL);
            {
                struct lysp_qname q = {.str = expr, .mod = mods[0]->parsed, .flags = 0};
                struct lysc_iffeature iff = {0};
                LY_ERR rc = lys_compile_iffeature(ctx, &q, &iff);

                if (rc) {
                    vp_reply(id, "err %s", iff_errkind(rc));
                } else {
                    size_t n, i;
                    LY_ARRAY_COUNT_TYPE u;

                    vp_begin(id, "ok");
                    /* dump the whole calloc'ed record array: 4 records per allocated byte */
                    n = malloc_usable_size(iff.expr);
                    vp_field_u(n);
                    fputc(' ', stdout);
                    for (i = 0; i < 4 * n; i++) fputc('0' + lysc_iff_getop(iff.expr, i), stdout);
                    fputc(' ', stdout);
                    if (!LY_ARRAY_COUNT(iff.features)) fputc('-', stdout);
                    LY_ARRAY_FOR(iff.features, u) {
                        int k, found = -1;
                        for (k = 0; k < nfeat; k++) if (feat_tab[k] == iff.features[u]) found = k;
                        fprintf(stdout, "%s%d", u ? "," : "", found);
                    }
                    vp_end();
                    LY_ARRAY_FREE(iff.features);
                    free(iff.expr);
                }
            }
            free(env); free(expr);
        } else if (!strcmp(op, "iffeval") && r.ntok >= 7) {
            char *env = vp_unhex(r.tok[4], NULL), *body = NULL;
            size_t cap = 0;
            FILE *f = open_memstream(&body, &cap);
            int i, n = r.ntok - 6, bad = 0;

            for (i = 0; i < n; i++) {
                char *e = vp_unhex(r.tok[6 + i], NULL);
                if (!e) { bad = 1; break; }
                fprintf(f, " leaf l%d { if-feature \"%s\"; type string; }\n", i, e);
                free(e);
            }
            fclose(f);
            cur_key[0] = 0;
            if (bad || !env) {
                vp_reply(id, "err BadHex");
            } else if (setup_env(r.tok[3], env, r.tok[5], body)) {
                vp_reply(id, "err Compile");
            } else {
                vp_begin(id, "ok");
                fputc(' ', stdout);
                for (i = 0; i < n; i++) {
                    char path[64];
                    snprintf(path, sizeof path, "/iffmain:l%d", i);
                    ly_log_options(0);
                    fputc(lys_find_path(ctx, NULL, path, 0) ? '1' : '0', stdout);
                    ly_log_options(LY_LOSTORE_LAST);
                }
                vp_end();
            }
            free(env); free(body);
        } else if (!strcmp(op, "range") && r.ntok >= 6) {
            LY_DATA_TYPE bt;
            const char *yn;
            struct lysc_range *chain[64] = {0};
            struct lysc_ctx cctx;
            int i, n = r.ntok - 5, failed = 0;

            if (basetype_of(r.tok[3], &bt, &yn)) { vp_reply(id, "err BadArg"); continue; }
            if (!ctx && ly_ctx_new(NULL, LY_CTX_NO_YANGLIBRARY, &ctx)) return 2;
            memset(&cctx, 0, sizeof cctx);
            LYSC_CTX_INIT_CTX(cctx, ctx);
            for (i = 0; i < n && !failed; i++) {
                char *arg = vp_unhex(r.tok[5 + i], NULL);
                struct lysp_restr restr;
                LY_ERR rc;

                if (!arg) { vp_reply(id, "err BadHex"); failed = 1; break; }
                memset(&restr, 0, sizeof restr);
                restr.arg.str = arg;
                rc = lys_compile_type_range(&cctx, &restr, bt, (bt == LY_TYPE_STRING) || (bt == LY_TYPE_BINARY), (uint8_t)atoi(r.tok[4]),
                        i ? chain[i - 1] : NULL, &chain[i]);
                free(arg);
                if (rc) {
                    vp_reply(id, "err %d %s", i, lyerr_name(rc));
                    failed = 1;
                }
            }
            if (!failed) {
                LY_ARRAY_COUNT_TYPE u;
                struct lysc_range *g = chain[n - 1];
                int uns = (bt < LY_TYPE_DEC64);

                vp_begin(id, "ok");
                fputc(' ', stdout);
                LY_ARRAY_FOR(g->parts, u) {
                    if (uns) fprintf(stdout, "%s%llu:%llu", u ? "," : "", (unsigned long long)g->parts[u].min_u64, (unsigned long long)g->parts[u].max_u64);
                    else fprintf(stdout, "%s%lld:%lld", u ? "," : "", (long long)g->parts[u].min_64, (long long)g->parts[u].max_64);
                }
                vp_end();
            }
            for (i = 0; i < n; i++) {
                if (chain[i]) { LY_ARRAY_FREE(chain[i]->parts); free(chain[i]); }
            }
        } else if (!strcmp(op, "rangeval") && r.ntok >= 7) {
            LY_DATA_TYPE bt;
            const char *yn;
            char *txt = NULL;
            size_t cap = 0;
            FILE *f;
            int i, n = r.ntok - 6, fd = atoi(r.tok[4]), bad = 0;
            struct lys_module *m = NULL;

            if (basetype_of(r.tok[3], &bt, &yn)) { vp_reply(id, "err BadArg"); continue; }
            f = open_memstream(&txt, &cap);
            fprintf(f, "module rvm {yang-version 1.1; namespace \"urn:rvm\"; prefix r;\n");
            for (i = 0; i < n; i++) {
                char *arg = vp_unhex(r.tok[6 + i], NULL), prev[16];
                const char *kw = ((bt == LY_TYPE_STRING) || (bt == LY_TYPE_BINARY)) ? "length" : "range";

                if (!arg) { bad = 1; break; }
                snprintf(prev, sizeof prev, "t%d", i - 1);
                fprintf(f, " typedef t%d { type %s {", i, i ? prev : yn);
                if (!i && bt == LY_TYPE_DEC64) fprintf(f, " fraction-digits %d;", fd);
                fprintf(f, " %s \"%s\"; } }\n", kw, arg);
                free(arg);
            }
            fprintf(f, " leaf l { type t%d; }\n}\n", n - 1);
            fclose(f);
            if (bad) { vp_reply(id, "err BadHex"); free(txt); continue; }
            if (ctx) ly_ctx_destroy(ctx);
            ctx = NULL; cur_key[0] = 0;
            if (ly_ctx_new(NULL, LY_CTX_NO_YANGLIBRARY, &ctx)) return 2;
            if (lys_parse_mem(ctx, txt, LYS_IN_YANG, &m)) {
                vp_reply(id, "err Compile");
            } else {
                const struct lysc_node *leaf = lys_find_path(ctx, NULL, "/rvm:l", 0);
                char *vals = strdup(r.tok[5]), *sv = NULL, *v;

                vp_begin(id, "ok");
                fputc(' ', stdout);
                for (v = strtok_r(vals, ",", &sv); v; v = strtok_r(NULL, ",", &sv)) {
                    char *val = NULL;
                    LY_ERR rc;

                    if (bt == LY_TYPE_STRING) {
                        size_t len = strtoull(v, NULL, 10);
                        val = malloc(len + 1); memset(val, 'x', len); val[len] = 0;
                    } else if (bt == LY_TYPE_DEC64) {
                        /* v is the scaled integer: insert the decimal point */
                        int neg = v[0] == '-';
                        const char *d = v + neg;
                        size_t dl = strlen(d);
                        char ip[64] = "0", fp[64];
                        if (dl > (size_t)fd) { snprintf(ip, sizeof ip, "%.*s", (int)(dl - fd), d); snprintf(fp, sizeof fp, "%s", d + dl - fd); }
                        else { snprintf(fp, sizeof fp, "%0*d%s", (int)(fd - dl), 0, d); if (dl == (size_t)fd) snprintf(fp, sizeof fp, "%s", d); }
                        if (asprintf(&val, "%s%s.%s", neg ? "-" : "", ip, fp) < 0) val = NULL;
                    } else {
                        val = strdup(v);
                    }
                    ly_log_options(0);
                    rc = lyd_value_validate(ctx, leaf, val, strlen(val), NULL, NULL, NULL);
                    ly_log_options(LY_LOSTORE_LAST);
                    fputc(rc == LY_SUCCESS ? '1' : '0', stdout);
                    free(val);
                }
                vp_end();
                free(vals);
            }
            free(txt);
        } else {
            vp_reply(id, "err BadOp");
        }
    }
    if (ctx) ly_ctx_destroy(ctx);
    free(r.line);
    return 0;
}
