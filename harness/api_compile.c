/* API harness of C11 (metamorphic part): load a set of modules in a given order and compile mode, print the effective
 * (compiled) schema of the requested modules.
 *   load <explicit 0|1> <order> <print> <features-hex> <unit>+
 *        order    = comma list of indices into the units (main modules only), the load order
 *        print    = comma list of module names whose LYS_OUT_YANG_COMPILED text is returned (in that order)
 *        features = "mod=f1,f2;mod2=*" (hex; "-" = none): features enabled when the module is loaded / implemented
 *        unit     = <m|s>:<name>:<yang-hex>   m = module, s = submodule (only served through the import callback)
 *   -> ok <text-hex>+ | err Load <index> | err Compile | err NoModule <name>
 * Imports/includes are resolved from the same units by an import callback, so every load order is possible; a module
 * that is already in the context (pulled in as an import) is made implemented with its features instead of re-parsed.
 *   cdump <explicit 0|1> <order> <print> <features-hex> <unit>+   (same arguments as load)
 *   -> ok (M:<module> <node>*)+ | err Fail      one token per compiled node in DFS order (walk of lysc_node):
 *        path|kind|W/R|status 1-3|M/-|P/-|defaults|min|max|base:range|units|#when      — the canonical dump that
 *        lean/LyModel/Compile/Drv.lean prints for the same schema value (tools/checks/c11exp.py renders it to YANG)
 *   validate <unit>+ <features-hex> <data-xml-hex>+   (same context, immediate compile, units loaded in the given order)
 *   -> ok <verdict bits> : '1' = lyd_parse_data_mem(LYD_XML, LYD_PARSE_STRICT | LYD_PARSE_ONLY) + lyd_validate_all() succeeded */
#define _GNU_SOURCE
#include <stdio.h>
#include <stdlib.h>
#include <string.h>
#include "libyang.h"
#include "proto.h"

struct unit { char kind; char name[64]; char *text; };
static struct unit units[VP_MAXTOK];
static int nunits;
static char feat_spec[4096];

static LY_ERR
imp_clb(const char *mod_name, const char *mod_rev, const char *submod_name, const char *sub_rev, void *user_data,
        LYS_INFORMAT *format, const char **module_data, void (**free_module_data)(void *, void *))
{
    const char *want = submod_name ? submod_name : mod_name;
    int i;

    (void)mod_rev; (void)sub_rev; (void)user_data;
    for (i = 0; i < nunits; i++) {
        if (!strcmp(units[i].name, want) && (units[i].kind == (submod_name ? 's' : 'm'))) {
            *format = LYS_IN_YANG;
            *module_data = units[i].text;
            *free_module_data = NULL;
            return LY_SUCCESS;
        }
    }
    return LY_ENOTFOUND;
}

/* NULL-terminated feature array of module `name` from feat_spec; returns NULL when the module has no entry */
static const char **
features_of(const char *name, char **store)
{
    static const char *arr[64];
    char *spec = strdup(feat_spec), *sm = NULL, *m;
    const char **res = NULL;

    *store = spec;
    for (m = strtok_r(spec, ";", &sm); m; m = strtok_r(NULL, ";", &sm)) {
        char *eq = strchr(m, '='), *sf = NULL, *f;
        int n = 0;

        if (!eq) continue;
        *eq = 0;
        if (strcmp(m, name)) continue;
        for (f = strtok_r(eq + 1, ",", &sf); f && n < 62; f = strtok_r(NULL, ",", &sf)) arr[n++] = f;
        arr[n] = NULL;
        res = arr;
        break;
    }
    if (!res) { arr[0] = NULL; res = arr; }
    return res;
}

static int
parse_units(struct vp_req *r, int from, int to)
{
    int i;

    nunits = 0;
    for (i = from; i < to; i++) {
        char *t = r->tok[i], *c1, *c2;

        if (!(c1 = strchr(t, ':')) || !(c2 = strchr(c1 + 1, ':'))) return -1;
        units[nunits].kind = t[0];
        snprintf(units[nunits].name, sizeof units[nunits].name, "%.*s", (int)(c2 - c1 - 1), c1 + 1);
        units[nunits].text = vp_unhex(c2 + 1, NULL);
        if (!units[nunits].text) return -1;
        nunits++;
    }
    return 0;
}

static void
free_units(void)
{
    int i;

    for (i = 0; i < nunits; i++) free(units[i].text);
    nunits = 0;
}

/* load unit k (a main module): parse it, or implement it if an import already brought it in */
static LY_ERR
load_unit(struct ly_ctx *ctx, int k)
{
    char *store = NULL;
    const char **f = features_of(units[k].name, &store);
    struct lys_module *have = ly_ctx_get_module_latest(ctx, units[k].name);
    LY_ERR rc;

    if (have) {
        rc = lys_set_implemented(have, f);
    } else {
        struct ly_in *in = NULL;
        struct lys_module *m = NULL;

        ly_in_new_memory(units[k].text, &in);
        rc = lys_parse(ctx, in, LYS_IN_YANG, f, &m);
        ly_in_free(in, 0);
    }
    free(store);
    return rc;
}

/* ---- canonical dump of the compiled tree (op cdump) ---- */
static void
dump_range(const struct lysc_range *r, int is_unsigned)
{
    LY_ARRAY_COUNT_TYPE u;

    if (!r) { fputs("-", stdout); return; }
    LY_ARRAY_FOR(r->parts, u) {
        if (u) fputc(',', stdout);
        if (is_unsigned) printf("%llu..%llu", (unsigned long long)r->parts[u].min_u64, (unsigned long long)r->parts[u].max_u64);
        else printf("%lld..%lld", (long long)r->parts[u].min_64, (long long)r->parts[u].max_64);
    }
}

static void
dump_type(const struct lysc_type *t)
{
    switch (t->basetype) {
    case LY_TYPE_INT8: fputs("int8:", stdout); dump_range(((struct lysc_type_num *)t)->range, 0); break;
    case LY_TYPE_INT16: fputs("int16:", stdout); dump_range(((struct lysc_type_num *)t)->range, 0); break;
    case LY_TYPE_INT32: fputs("int32:", stdout); dump_range(((struct lysc_type_num *)t)->range, 0); break;
    case LY_TYPE_UINT8: fputs("uint8:", stdout); dump_range(((struct lysc_type_num *)t)->range, 1); break;
    case LY_TYPE_UINT16: fputs("uint16:", stdout); dump_range(((struct lysc_type_num *)t)->range, 1); break;
    case LY_TYPE_UINT32: fputs("uint32:", stdout); dump_range(((struct lysc_type_num *)t)->range, 1); break;
    case LY_TYPE_STRING: fputs("string:", stdout); dump_range(((struct lysc_type_str *)t)->length, 1); break;
    case LY_TYPE_BOOL: fputs("boolean:-", stdout); break;
    default: printf("other%d:-", (int)t->basetype); break;
    }
}

static void
dump_node(const struct lysc_node *n, const char *prefix)
{
    char path[2048];
    const struct lysc_node *c;
    const char *kind = (n->nodetype == LYS_INPUT) ? "input" : (n->nodetype == LYS_OUTPUT) ? "output" : lys_nodetype2str(n->nodetype), *units = NULL;
    struct lysc_when **whens = lysc_node_when(n);
    unsigned long min = 0, max = 0;
    LY_ARRAY_COUNT_TYPE u;

    snprintf(path, sizeof path, "%s/%s:%s", prefix, n->module->name, n->name);
    printf(" %s|%s|%c|%d|%c|%c|", path, kind, (n->flags & LYS_CONFIG_W) ? 'W' : (n->flags & LYS_CONFIG_R) ? 'R' : '-',
            (n->flags & LYS_STATUS_CURR) ? 1 : (n->flags & LYS_STATUS_DEPRC) ? 2 : (n->flags & LYS_STATUS_OBSLT) ? 3 : 0,
            (n->flags & LYS_MAND_TRUE) ? 'M' : '-', ((n->nodetype == LYS_CONTAINER) && (n->flags & LYS_PRESENCE)) ? 'P' : '-');
    if (n->nodetype == LYS_LEAF) {
        const struct lysc_node_leaf *l = (const struct lysc_node_leaf *)n;

        fputs(l->dflt ? lyd_value_get_canonical(n->module->ctx, l->dflt) : "-", stdout);
        units = l->units;
    } else if (n->nodetype == LYS_LEAFLIST) {
        const struct lysc_node_leaflist *l = (const struct lysc_node_leaflist *)n;

        if (!l->dflts) fputs("-", stdout);
        LY_ARRAY_FOR(l->dflts, u) {
            if (u) fputc(',', stdout);
            fputs(lyd_value_get_canonical(n->module->ctx, l->dflts[u]), stdout);
        }
        units = l->units; min = l->min; max = l->max;
    } else {
        fputs("-", stdout);
        if (n->nodetype == LYS_LIST) { min = ((const struct lysc_node_list *)n)->min; max = ((const struct lysc_node_list *)n)->max; }
    }
    if (max == UINT32_MAX) max = 0;
    printf("|%lu|%lu|", min, max);
    if (n->nodetype & (LYS_LEAF | LYS_LEAFLIST)) dump_type(((const struct lysc_node_leaf *)n)->type); else fputs("-", stdout);
    if (units) printf("|=%s", units); else fputs("|~", stdout);
    printf("|%u", (unsigned)LY_ARRAY_COUNT(whens));
    if (n->nodetype & (LYS_RPC | LYS_ACTION)) {
        /* the two fixed children of an operation */
        dump_node(&((const struct lysc_node_action *)n)->input.node, path);
        dump_node(&((const struct lysc_node_action *)n)->output.node, path);
        return;
    }
    LY_LIST_FOR(lysc_node_child(n), c) dump_node(c, path);
    LY_LIST_FOR((const struct lysc_node *)lysc_node_actions(n), c) dump_node(c, path);
    LY_LIST_FOR((const struct lysc_node *)lysc_node_notifs(n), c) dump_node(c, path);
}

int
main(void)
{
    struct vp_req r = {0};

    ly_log_options(LY_LOSTORE_LAST);
    while (vp_next(&r)) {
        const char *id = r.tok[0], *op = r.ntok > 2 ? r.tok[2] : "";

        if (r.ntok < 3) { vp_reply(r.ntok ? id : "?", "err BadLine"); continue; }
        if ((!strcmp(op, "load") || !strcmp(op, "cdump")) && r.ntok >= 8) {
            int explicit = atoi(r.tok[3]), failed = 0, dump = !strcmp(op, "cdump");
            char *order = strdup(r.tok[4]), *print = strdup(r.tok[5]), *fs = vp_unhex(r.tok[6], NULL), *so = NULL, *o;
            struct ly_ctx *ctx = NULL;

            snprintf(feat_spec, sizeof feat_spec, "%s", fs ? fs : "");
            free(fs);
            if (parse_units(&r, 7, r.ntok)) { vp_reply(id, "err BadArg"); free_units(); free(order); free(print); continue; }
            if (ly_ctx_new(NULL, LY_CTX_NO_YANGLIBRARY | (explicit ? LY_CTX_EXPLICIT_COMPILE : 0), &ctx)) return 2;
            ly_ctx_set_module_imp_clb(ctx, imp_clb, NULL);
            for (o = strtok_r(order, ",", &so); o && !failed; o = strtok_r(NULL, ",", &so)) {
                int k = atoi(o);

                if (k < 0 || k >= nunits || units[k].kind != 'm') { vp_reply(id, "err BadArg"); failed = 1; break; }
                if (load_unit(ctx, k)) { if (dump) vp_reply(id, "err Fail"); else vp_reply(id, "err Load %d", k); failed = 1; }
            }
            if (!failed && explicit && ly_ctx_compile(ctx)) { vp_reply(id, dump ? "err Fail" : "err Compile"); failed = 1; }
            if (!failed && dump) {
                char *sp = NULL, *p;
                const struct lys_module *ms[VP_MAXTOK];
                int n = 0, i;

                for (p = strtok_r(print, ",", &sp); p; p = strtok_r(NULL, ",", &sp)) {
                    ms[n] = ly_ctx_get_module_implemented(ctx, p);
                    if (!ms[n]) { vp_reply(id, "err NoModule %s", p); failed = 1; break; }
                    n++;
                }
                if (!failed) {
                    vp_begin(id, "ok");
                    for (i = 0; i < n; i++) {
                        const struct lysc_node *c;

                        printf(" M:%s", ms[i]->name);
                        LY_LIST_FOR(ms[i]->compiled ? ms[i]->compiled->data : NULL, c) dump_node(c, "");
                        LY_LIST_FOR(ms[i]->compiled ? (const struct lysc_node *)ms[i]->compiled->rpcs : NULL, c) dump_node(c, "");
                        LY_LIST_FOR(ms[i]->compiled ? (const struct lysc_node *)ms[i]->compiled->notifs : NULL, c) dump_node(c, "");
                    }
                    vp_end();
                }
            } else if (!failed) {
                char *sp = NULL, *p;
                char *texts[VP_MAXTOK];
                int n = 0, i;

                for (p = strtok_r(print, ",", &sp); p && !failed; p = strtok_r(NULL, ",", &sp)) {
                    const struct lys_module *m = ly_ctx_get_module_implemented(ctx, p);
                    char *txt = NULL;

                    if (!m || lys_print_mem(&txt, m, LYS_OUT_YANG_COMPILED, 0) || !txt) {
                        vp_reply(id, "err NoModule %s", p);
                        failed = 1;
                        free(txt);
                        break;
                    }
                    texts[n++] = txt;
                }
                if (!failed) {
                    vp_begin(id, "ok");
                    for (i = 0; i < n; i++) vp_field_hex(texts[i], strlen(texts[i]));
                    vp_end();
                }
                for (i = 0; i < n; i++) free(texts[i]);
            }
            ly_ctx_destroy(ctx);
            free_units(); free(order); free(print);
        } else if (!strcmp(op, "validate") && r.ntok >= 6) {
            /* units first (tokens with a ':' after the first character), then features, then documents */
            int i = 3, nu, failed = 0;
            struct ly_ctx *ctx = NULL;
            char *fs;

            while (i < r.ntok && (r.tok[i][0] == 'm' || r.tok[i][0] == 's') && r.tok[i][1] == ':') i++;
            nu = i;
            if (nu == 3 || nu >= r.ntok || parse_units(&r, 3, nu)) { vp_reply(id, "err BadArg"); free_units(); continue; }
            fs = vp_unhex(r.tok[nu], NULL);
            snprintf(feat_spec, sizeof feat_spec, "%s", fs ? fs : "");
            free(fs);
            if (ly_ctx_new(NULL, LY_CTX_NO_YANGLIBRARY, &ctx)) return 2;
            ly_ctx_set_module_imp_clb(ctx, imp_clb, NULL);
            for (i = 0; i < nunits && !failed; i++) {
                if (units[i].kind == 'm' && load_unit(ctx, i)) { vp_reply(id, "err Load %d", i); failed = 1; }
            }
            if (!failed) {
                vp_begin(id, "ok");
                fputc(' ', stdout);
                for (i = nu + 1; i < r.ntok; i++) {
                    char *doc = vp_unhex(r.tok[i], NULL);
                    struct lyd_node *tree = NULL;
                    LY_ERR rc;

                    ly_log_options(0);
                    /* parse only, then validate ALL implemented modules (an empty document is validated too) */
                    rc = lyd_parse_data_mem(ctx, doc ? doc : "", LYD_XML, LYD_PARSE_STRICT | LYD_PARSE_ONLY, 0, &tree);
                    if (!rc) rc = lyd_validate_all(&tree, ctx, 0, NULL);
                    ly_log_options(LY_LOSTORE_LAST);
                    fputc(rc == LY_SUCCESS ? '1' : '0', stdout);
                    lyd_free_all(tree);
                    free(doc);
                }
                vp_end();
            }
            ly_ctx_destroy(ctx);
            free_units();
        } else {
            vp_reply(id, "err BadOp");
        }
    }
    free(r.line);
    return 0;
}
