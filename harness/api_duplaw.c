/* Law harness of property C14 for values the tree model does not carry (component `duplaw`, public API only):
 * typed values (union with int / enum / bits / identityref / string members, bits, binary, decimal64, identityref,
 * instance-identifier, 64-bit integers, leafref, empty, boolean — as leaves, leaf-list instances and list keys) that
 * reached the tree through XML, JSON or LYB (the stored `original` / value format differs per route), then duplicated
 * and merged.
 *
 *   law <yang-hex> <xml-hex> <via: xml|json|lyb> <dupopts> <mergeopts>
 *        -> ok <failed-law-bitmask> <first failing stage | ->        | err <Stage>
 *
 *   laws (bit): 1 dup equals the original (lyd_compare_siblings FULL_RECURSION|DEFAULTS, both directions)
 *               2 the duplicate prints like the original in XML and JSON, and in LYB when LYD_DUP_WITH_FLAGS (byte for byte)
 *               4 the LYB print of the duplicate parses back to a tree equal to the original
 *               8 every list instance / leaf-list instance of the original is found in the duplicate by its path and by
 *                 lyd_find_sibling_first with the ORIGINAL node as target (hash lookup)
 *              16 merge into nothing equals the source; 32 merging the same source again changes nothing
 *              64 merge that consumes a duplicate (LYD_MERGE_DESTRUCT) equals the copying merge
 *             128 the duplicate validates and is unchanged by validation
 *             256 after the original is freed the duplicate still prints the same (independence)
 *             512 lyd_dup_siblings INTO A POPULATED PARENT: the plain leaves at odd positions are copied into an empty copy of the
 *                 container first, then all the remaining children (incl. every list / leaf-list run) are duplicated into it with ONE
 *                 call: the parent must equal the original (content and sibling order)
 *   leakcheck */
#define _GNU_SOURCE
#include <libyang.h>
#include "proto.h"

static char *
print_mem(const struct lyd_node *t, LYD_FORMAT f, size_t *len)
{
    struct ly_out *out = NULL;
    char *buf = NULL;

    if (ly_out_new_memory(&buf, 0, &out)) return NULL;
    if (lyd_print_all(out, t, f, f == LYD_LYB ? 0 : LYD_PRINT_SHRINK)) { ly_out_free(out, NULL, 0); free(buf); return NULL; }
    if (len) *len = ly_out_printed(out);
    ly_out_free(out, NULL, 0);
    if (!buf) buf = calloc(1, 1);
    return buf;
}

static int
same_print(const struct lyd_node *a, const struct lyd_node *b, int with_lyb)
{
    LYD_FORMAT fs[] = {LYD_XML, LYD_JSON, LYD_LYB};
    int i, ok = 1;

    /* the LYB format carries the node flags (LYD_NEW of fresh copies): compared only when the flags were asked to be kept */
    for (i = 0; i < (with_lyb ? 3 : 2); i++) {
        size_t la = 0, lb = 0;
        char *pa = print_mem(a, fs[i], &la), *pb = print_mem(b, fs[i], &lb);

        if (!pa || !pb || la != lb || memcmp(pa, pb, la)) {
            ok = 0;
            if (getenv("VP_DEBUG") && (i < 2)) fprintf(stderr, "[duplaw] format %d differs:\n  %s\n  %s\n", i, pa ? pa : "(null)", pb ? pb : "(null)");
            else if (getenv("VP_DEBUG")) {
                size_t k;
                fprintf(stderr, "[duplaw] LYB differs (%zu vs %zu bytes)\n  ", la, lb);
                for (k = 0; k < la; k++) fprintf(stderr, "%02x", (unsigned char)pa[k]);
                fprintf(stderr, "\n  ");
                for (k = 0; k < lb; k++) fprintf(stderr, "%02x", (unsigned char)pb[k]);
                fprintf(stderr, "\n");
            }
        }
        free(pa); free(pb);
    }
    return ok;
}

static int
equal_trees(const struct lyd_node *a, const struct lyd_node *b)
{
    return lyd_compare_siblings(a, b, LYD_COMPARE_FULL_RECURSION | LYD_COMPARE_DEFAULTS) == LY_SUCCESS &&
            lyd_compare_siblings(b, a, LYD_COMPARE_FULL_RECURSION | LYD_COMPARE_DEFAULTS) == LY_SUCCESS;
}

static int
found_everywhere(const struct lyd_node *orig, const struct lyd_node *dup)
{
    const struct lyd_node *root, *n;
    int ok = 1;

    LY_LIST_FOR(orig, root) {
        LYD_TREE_DFS_BEGIN(root, n) {
            if (n->schema && (n->schema->nodetype & (LYS_LIST | LYS_LEAFLIST)) && !lysc_is_dup_inst_list(n->schema)) {
                char *path = lyd_path(n, LYD_PATH_STD, NULL, 0);
                struct lyd_node *m = NULL, *m2 = NULL;

                if (!path || lyd_find_path(dup, path, 0, &m) || !m) ok = 0;
                /* hash lookup among the siblings of the found instance, with the original node as the target */
                if (m && (lyd_find_sibling_first(lyd_first_sibling(m), n, &m2) || (m2 != m))) ok = 0;
                free(path);
            }
            LYD_TREE_DFS_END(root, n);
        }
    }
    return ok;
}

static void
op_law(const char *id, const char *yanghex, const char *xmlhex, const char *via, const char *dupo, const char *mergeo)
{
    char *yang = vp_unhex(yanghex, NULL), *xml = vp_unhex(xmlhex, NULL);
    struct ly_ctx *ctx = NULL;
    struct lyd_node *t0 = NULL, *t = NULL, *d = NULL, *m = NULL, *m2 = NULL, *d2 = NULL, *back = NULL;
    const char *stage = NULL, *first = "-";
    uint32_t dopts = (uint32_t)strtoul(dupo, NULL, 10), mopts = (uint32_t)strtoul(mergeo, NULL, 10);
    unsigned bad = 0;
    char *p1 = NULL, *p2 = NULL, *lyb = NULL;
    size_t l1 = 0, l2 = 0, ll = 0;

#define LAW(bit, name, cond) do { if (!(cond)) { if (!bad) first = name; bad |= bit; } } while (0)

    if (ly_ctx_new(NULL, 0, &ctx)) { stage = "Ctx"; goto done; }
    if (lys_parse_mem(ctx, yang, LYS_IN_YANG, NULL)) { stage = "Schema"; goto done; }
    if (lyd_parse_data_mem(ctx, xml, LYD_XML, LYD_PARSE_STRICT, LYD_VALIDATE_PRESENT, &t0)) { stage = "Parse"; goto done; }

    /* the route decides in which format the values were stored */
    if (!strcmp(via, "xml")) {
        t = t0; t0 = NULL;
    } else {
        LYD_FORMAT f = !strcmp(via, "json") ? LYD_JSON : LYD_LYB;
        char *buf = print_mem(t0, f, &ll);
        struct ly_in *in = NULL;

        if (!buf) { stage = "RoutePrint"; goto done; }
        if (ly_in_new_memory(buf, &in) || lyd_parse_data(ctx, NULL, in, f, LYD_PARSE_STRICT, LYD_VALIDATE_PRESENT, &t)) {
            ly_in_free(in, 0); free(buf); stage = "RouteParse"; goto done;
        }
        ly_in_free(in, 0); free(buf);
        if (!equal_trees(t0, t)) { stage = "RouteCompare"; goto done; }
    }

    /* ---- dup */
    if (lyd_dup_siblings(t, NULL, dopts | LYD_DUP_RECURSIVE, &d)) { stage = "Dup"; goto done; }
    if (dopts & LYD_DUP_NO_META) {
        /* metadata are dropped on purpose: compare without them is not offered by the API, skip the content laws on print */
        LAW(1, "dup-equal", lyd_compare_siblings(t, d, LYD_COMPARE_FULL_RECURSION | LYD_COMPARE_DEFAULTS) == LY_SUCCESS);
    } else {
        LAW(1, "dup-equal", equal_trees(t, d));
        LAW(2, "dup-prints-equal", same_print(t, d, dopts & LYD_DUP_WITH_FLAGS));
    }
    lyb = print_mem(d, LYD_LYB, &ll);
    if (lyb) {
        struct ly_in *in = NULL;

        if (ly_in_new_memory(lyb, &in) || lyd_parse_data(ctx, NULL, in, LYD_LYB, LYD_PARSE_STRICT | LYD_PARSE_ONLY, 0, &back)) {
            LAW(4, "dup-lyb-parses", 0);
        } else if (!(dopts & LYD_DUP_NO_META)) {
            LAW(4, "dup-lyb-equal", equal_trees(t, back));
        }
        ly_in_free(in, 0);
    } else {
        LAW(4, "dup-lyb-prints", 0);
    }
    LAW(8, "dup-searchable", found_everywhere(t, d));

    /* ---- dup of a sibling list into a parent that already has children */
    {
        struct lyd_node *orig = NULL, *par = NULL, *src = NULL, *ch, *next, *firstdup = NULL;
        int k = 0, okp = 1;

        if (t->schema && (t->schema->nodetype == LYS_CONTAINER) && lyd_child(t) &&
                !lyd_dup_single(t, NULL, LYD_DUP_RECURSIVE | LYD_DUP_WITH_FLAGS, &orig) &&
                !lyd_dup_single(t, NULL, LYD_DUP_RECURSIVE | LYD_DUP_WITH_FLAGS, &src) &&
                !lyd_dup_single(t, NULL, LYD_DUP_WITH_FLAGS, &par)) {
            LY_LIST_FOR_SAFE(lyd_child(src), next, ch) {
                if (ch->schema && (ch->schema->nodetype == LYS_LEAF) && (k++ % 2)) {
                    if (lyd_dup_single(ch, par, LYD_DUP_RECURSIVE | LYD_DUP_WITH_FLAGS, NULL)) okp = 0;
                    lyd_free_tree(ch);
                }
            }
            if (okp && lyd_child(src)) {
                if (lyd_dup_siblings(lyd_child(src), par, dopts | LYD_DUP_RECURSIVE | LYD_DUP_WITH_FLAGS, &firstdup)) okp = 0;
            }
            if (!(dopts & LYD_DUP_NO_META)) {
                LAW(512, "dup-into-populated-parent", okp && equal_trees(orig, par) && same_print(orig, par, 0));
            } else {
                LAW(512, "dup-into-populated-parent", okp && lyd_compare_siblings(orig, par, LYD_COMPARE_FULL_RECURSION | LYD_COMPARE_DEFAULTS) == LY_SUCCESS);
            }
        }
        lyd_free_all(orig); lyd_free_all(par); lyd_free_all(src);
    }

    /* ---- merge */
    if (lyd_merge_siblings(&m, t, mopts & ~LYD_MERGE_DESTRUCT)) { stage = "Merge"; goto done; }
    LAW(16, "merge-into-empty", equal_trees(t, m));
    p1 = print_mem(m, LYD_LYB, &l1);
    if (lyd_merge_siblings(&m, t, mopts & ~LYD_MERGE_DESTRUCT)) { stage = "Merge2"; goto done; }
    p2 = print_mem(m, LYD_LYB, &l2);
    LAW(32, "merge-idempotent", p1 && p2 && l1 == l2 && !memcmp(p1, p2, l1) && equal_trees(t, m));
    if (lyd_dup_siblings(t, NULL, LYD_DUP_RECURSIVE | LYD_DUP_WITH_FLAGS, &d2)) { stage = "Dup2"; goto done; }
    if (lyd_merge_siblings(&m2, d2, mopts | LYD_MERGE_DESTRUCT)) { d2 = NULL; stage = "MergeDestruct"; goto done; }
    d2 = NULL;      /* spent */
    LAW(64, "merge-destruct-equals-copy", equal_trees(m, m2) && same_print(m, m2, 0));

    /* ---- the duplicate is a valid tree of its own */
    free(p1); p1 = print_mem(d, LYD_XML, &l1);
    LAW(128, "dup-validates", lyd_validate_all(&d, NULL, LYD_VALIDATE_PRESENT, NULL) == LY_SUCCESS);
    free(p2); p2 = print_mem(d, LYD_XML, &l2);
    LAW(128, "dup-unchanged-by-validation", p1 && p2 && l1 == l2 && !memcmp(p1, p2, l1));
    lyd_free_all(t); t = NULL;
    lyd_free_all(t0); t0 = NULL;
    free(p2); p2 = print_mem(d, LYD_XML, &l2);
    LAW(256, "dup-independent", p1 && p2 && l1 == l2 && !memcmp(p1, p2, l1));

done:
    if (stage) vp_reply(id, "err %s", stage);
    else vp_reply(id, "ok %u %s", bad, first);
    free(p1); free(p2); free(lyb);
    lyd_free_all(t0); lyd_free_all(t); lyd_free_all(d); lyd_free_all(m); lyd_free_all(m2); lyd_free_all(d2); lyd_free_all(back);
    ly_ctx_destroy(ctx);
    free(yang); free(xml);
}

int
main(void)
{
    struct vp_req r = {0};

    ly_log_options(getenv("VP_VERBOSE") ? LY_LOLOG : 0);
    while (vp_next(&r)) {
        const char *id = r.tok[0], *op = r.ntok > 2 ? r.tok[2] : "";

        if (r.ntok < 3) { vp_reply(r.ntok ? id : "?", "err BadLine"); continue; }
        if (!strcmp(op, "law") && r.ntok == 8) {
            op_law(id, r.tok[3], r.tok[4], r.tok[5], r.tok[6], r.tok[7]);
        } else if (!strcmp(op, "leakcheck")) {
            vp_reply(id, VP_LEAKCHECK() ? "err Leak" : "ok");
        } else {
            vp_reply(id, "err BadOp");
        }
    }
    free(r.line);
    return 0;
}
