/* White-box harness for the string side of the YANG schema printer and lexer (component `yangstr`, property C10):
 *   encode <hex>                               ypr_encode(out, text, -1)                  -> ok <hex>
 *   yprtext <fmt> <level> <flags> <name> <text>  ypr_text() with DO_FORMAT = fmt          -> ok <hex>
 *   qstring <indent> <hex>                     read_qstring() at the opening quote, ctx->indent = indent
 *                                                                   -> ok <word> <consumed> <ctx->indent> | err <Kind>
 *   getarg <maybe> <indent> <hex>              get_argument(Y_STR_ARG | Y_MAYBE_STR_ARG)
 *                                                                   -> ok <word|N> <flags> <consumed> <indent> | err <Kind>
 *   getkw <indent> <depth> <hex>               get_keyword()        -> ok <tok> <word> <consumed> <indent> <depth> | err <Kind>
 *   stmts <hex>                                get_keyword + parse_ext_substmt until get_keyword fails
 *                                                                   -> ok <trees|-> <Kind that ended the loop>
 *   prstmts <fmt> <level> <hex>                the same statements printed by yprp_stmt   -> ok <hex> <Kind>
 * The functions are `static`/internal: this TU includes the two source files and is linked before libyang.a. */
#define _GNU_SOURCE
#include "printer_yang.c"
#include "parser_yang.c"
#include "proto.h"

static struct ly_ctx *ctx;
static struct lysp_yang_ctx *yctx;
static struct ly_in *in;

static const char *
errkind(void)
{
    const struct ly_err_item *e = ly_err_last(ctx);
    const char *m = e ? e->msg : "";

#define PFX(p) (!strncmp(m, p, strlen(p)))
    if (PFX("Invalid character 0x")) return "InChar";
    if (PFX("Invalid character sequence")) return "InStrExp";
    if (PFX("Unexpected end-of-input, non-terminated comment")) return "CommentEof";
    if (PFX("Unexpected end-of-input.")) return "Eof";
    if (PFX("Double-quoted string unknown special character")) return "BadEscape";
    if (PFX("Both string parts divided by")) return "NotQuoted";
    if (PFX("Invalid comment sequence")) return "CommentInWord";
    if (PFX("Invalid identifier first character")) return "IdFirst";
    if (PFX("Invalid identifier character")) return "IdChar";
    if (PFX("The maximum number of block nestings")) return "MaxDepth";
    if (PFX("Invalid keyword")) return "ExpSemiBrace";
#undef PFX
    return "Other";
}

static void
set_input(char *s, uint64_t indent, uint32_t depth)
{
    if (in) ly_in_free(in, 0);
    ly_in_new_memory(s, &in);
    yctx->in = in;
    yctx->indent = indent;
    yctx->depth = depth;
    ly_err_clean(ctx, NULL);
}

static void
stmt_free(struct lysp_stmt *s)
{
    struct lysp_stmt *n;

    for ( ; s; s = n) {
        n = s->next;
        lydict_remove(ctx, s->stmt);
        lydict_remove(ctx, s->arg);
        stmt_free(s->child);
        free(s);
    }
}

static void
stmt_ser(const struct lysp_stmt *s)
{
    for ( ; s; s = s->next) {
        fputc('S', stdout); vp_puthex(s->stmt, strlen(s->stmt)); fputc(':', stdout);
        if (s->arg) vp_puthex(s->arg, strlen(s->arg)); else fputc('N', stdout);
        fprintf(stdout, ":%u{", (unsigned)s->flags);
        stmt_ser(s->child);
        fputc('}', stdout);
    }
}

/* statements until get_keyword fails; returns the error kind that ended the loop */
static const char *
read_stmts(struct lysp_stmt **list)
{
    enum ly_stmt kw;
    char *word;
    size_t word_len;

    *list = NULL;
    while (1) {
        if (get_keyword(yctx, &kw, &word, &word_len)) return errkind();
        if (parse_ext_substmt(yctx, kw, word, word_len, list)) {
            /* the statement being read is already linked in: only complete top-level statements are reported */
            struct lysp_stmt **p = list;
            const char *k = errkind();

            while ((*p)->next) p = &(*p)->next;
            stmt_free(*p);
            *p = NULL;
            return k;
        }
    }
}

int
main(void)
{
    struct vp_req r = {0};
    struct lysp_module *pmod;

    ly_log_options(LY_LOSTORE_LAST);
    if (ly_ctx_new(NULL, 0, &ctx)) return 2;
    yctx = calloc(1, sizeof *yctx);
    yctx->main_ctx = (struct lysp_ctx *)yctx;
    yctx->format = LYS_IN_YANG;
    ly_set_new(&yctx->parsed_mods);
    pmod = calloc(1, sizeof *pmod);
    ly_set_add(yctx->parsed_mods, pmod, 1, NULL);
    pmod->mod = calloc(1, sizeof *pmod->mod);
    pmod->mod->ctx = ctx;
    pmod->mod->parsed = pmod;

    while (vp_next(&r)) {
        const char *id = r.tok[0], *op = r.ntok > 2 ? r.tok[2] : "";

        if (r.ntok < 3) { vp_reply(r.ntok ? id : "?", "err BadLine"); continue; }

        if (!strcmp(op, "encode") && r.ntok == 4) {
            size_t n; char *s = vp_unhex(r.tok[3], &n), *mem = NULL; struct ly_out *out;
            ly_out_new_memory(&mem, 0, &out);
            ypr_encode(out, s, -1);
            vp_begin(id, "ok"); vp_field_hex(mem ? mem : "", mem ? strlen(mem) : 0); vp_end();
            ly_out_free(out, NULL, 0); free(mem); free(s);
        } else if (!strcmp(op, "yprtext") && r.ntok == 8) {
            size_t n; char *name = vp_unhex(r.tok[6], &n), *text = vp_unhex(r.tok[7], &n), *mem = NULL; struct ly_out *out;
            struct lys_ypr_ctx p;
            memset(&p, 0, sizeof p);
            ly_out_new_memory(&mem, 0, &out);
            p.out = out; p.level = (uint16_t)strtoul(r.tok[4], NULL, 10); p.options = atoi(r.tok[3]) ? 0 : LYS_PRINT_SHRINK;
            ypr_text(&p, name, text, (enum lys_ypr_text_flags)strtoul(r.tok[5], NULL, 10));
            vp_begin(id, "ok"); vp_field_hex(mem ? mem : "", mem ? strlen(mem) : 0); vp_end();
            ly_out_free(out, NULL, 0); free(mem); free(name); free(text);
        } else if (!strcmp(op, "qstring") && r.ntok == 5) {
            size_t n, wl = 0, bl = 0; char *s = vp_unhex(r.tok[4], &n), *wp = NULL, *wb = NULL;
            if (s[0] != '"' && s[0] != '\'') { vp_reply(id, "err %s", s[0] ? "BadArg" : "Eof"); free(s); continue; }
            set_input(s, strtoull(r.tok[3], NULL, 10), 0);
            if (read_qstring(yctx, Y_STR_ARG, &wp, &wb, &wl, &bl) == LY_SUCCESS) {
                vp_begin(id, "ok"); vp_field_hex(wp ? wp : "", wl); vp_field_u(in->current - s); vp_field_u(yctx->indent); vp_end();
            } else {
                vp_reply(id, "err %s", errkind());
            }
            free(wb); free(s);
        } else if (!strcmp(op, "getarg") && r.ntok == 6) {
            size_t n, wl = 0; char *s = vp_unhex(r.tok[5], &n), *wp = NULL, *wb = NULL; uint16_t fl = 0;
            set_input(s, strtoull(r.tok[4], NULL, 10), 0);
            if (get_argument(yctx, atoi(r.tok[3]) ? Y_MAYBE_STR_ARG : Y_STR_ARG, &fl, &wp, &wb, &wl) == LY_SUCCESS) {
                vp_begin(id, "ok");
                if (wp) vp_field_hex(wp, wl); else vp_field_s("N");
                vp_field_u(fl); vp_field_u(in->current - s); vp_field_u(yctx->indent); vp_end();
            } else {
                vp_reply(id, "err %s", errkind());
            }
            free(wb); free(s);
        } else if (!strcmp(op, "getkw") && r.ntok == 6) {
            size_t n, wl = 0; char *s = vp_unhex(r.tok[5], &n), *wp = NULL; enum ly_stmt kw;
            set_input(s, strtoull(r.tok[3], NULL, 10), (uint32_t)strtoul(r.tok[4], NULL, 10));
            if (get_keyword(yctx, &kw, &wp, &wl) == LY_SUCCESS) {
                vp_begin(id, "ok");
                vp_field_s(kw == LY_STMT_SYNTAX_SEMICOLON ? "semi" : kw == LY_STMT_SYNTAX_LEFT_BRACE ? "lbrace" :
                        kw == LY_STMT_SYNTAX_RIGHT_BRACE ? "rbrace" : kw == LY_STMT_EXTENSION_INSTANCE ? "ext" : "kw");
                vp_field_hex(wp, wl); vp_field_u(in->current - s); vp_field_u(yctx->indent); vp_field_u(yctx->depth); vp_end();
            } else {
                vp_reply(id, "err %s", errkind());
            }
            free(s);
        } else if (!strcmp(op, "stmts") && r.ntok == 4) {
            size_t n; char *s = vp_unhex(r.tok[3], &n); struct lysp_stmt *list; const char *k;
            set_input(s, 0, 0);
            k = read_stmts(&list);
            vp_begin(id, "ok"); fputc(' ', stdout);
            if (list) stmt_ser(list); else fputc('-', stdout);
            vp_field_s(k); vp_end();
            stmt_free(list); free(s);
        } else if (!strcmp(op, "prstmts") && r.ntok == 6) {
            size_t n; char *s = vp_unhex(r.tok[5], &n), *mem = NULL; struct lysp_stmt *list, *st; const char *k;
            struct ly_out *out; struct lys_ypr_ctx p;
            set_input(s, 0, 0);
            k = read_stmts(&list);
            memset(&p, 0, sizeof p);
            ly_out_new_memory(&mem, 0, &out);
            p.out = out; p.level = (uint16_t)strtoul(r.tok[4], NULL, 10); p.options = atoi(r.tok[3]) ? 0 : LYS_PRINT_SHRINK;
            for (st = list; st; st = st->next) yprp_stmt(&p, st);
            vp_begin(id, "ok"); vp_field_hex(mem ? mem : "", mem ? strlen(mem) : 0); vp_field_s(k); vp_end();
            ly_out_free(out, NULL, 0); free(mem); stmt_free(list); free(s);
        } else {
            vp_reply(id, "err BadOp");
        }
    }
    if (in) ly_in_free(in, 0);
    free(r.line);
    ly_set_free(yctx->parsed_mods, NULL);
    ly_set_erase(&yctx->ext_inst, NULL);
    free(pmod->mod); free(pmod); free(yctx);
    ly_ctx_destroy(ctx);
    return 0;
}
