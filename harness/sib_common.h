/* Shared body of harness/api_tree.c (public API only) and harness/wb_tree.c (white box: SIB_WB defined,
 * tree_data_sorted.c included so that struct rb_node / lyds_get_rb_tree and the ly_ht record arrays are visible).
 *
 *   <id> sib run <variant> <desc-hex> <yang-hex,...> <script>
 *
 * variant: first char `c`/`f` is for the model only (which lyd_change_node_value it mirrors); a following `m` switches
 * the harness to law-only mode: nothing is refused as OutOfFragment and the ops dup / merge / validate / implicit
 * exist (their result is judged by the consistency battery, not by the model); a following `q` limits the search
 * battery (find_sibling_first/val, find_path, find_xpath vs manual scan) to the final state of the script.
 *
 * reply: ok D=<desc-hex> | <op result> | <op result> ...        (see lean/LyModel/Sib/Drv.lean)
 * After EVERY state-changing op the whole forest is dumped (`G` starts a top-level sibling group, then one token
 * `<depth>.<id>.<mod:name>.<value-hex>` per node, DFS) and the verdict `V<bits>` of the consistency battery:
 *      1 prev/next/parent/child links   2 schema order / opaque nodes last   4 system-ordered instances sorted
 *      8 search functions vs manual scan      (white box:) 16 children_ht content vs from-scratch expectation
 *     32 node->hash stale   64 red-black tree / lyds metadata   128 ids of the table not all reachable
 */
#include <assert.h>
#include <ctype.h>
#include <unistd.h>
#include <signal.h>
#include "proto.h"

#define MAXID 4096
#define KEYOFF 1000
#define MAXCTX 8
#define MAXS 256

static struct lyd_node *tab[MAXID];

struct sctx {
    char *key;              /* the yang token */
    struct ly_ctx *ctx;
    const struct lysc_node *snode[MAXS];
    int sparent[MAXS];
    int nsn;
    char *desc;
};
static struct sctx ctxs[MAXCTX];
static int nctx;
static struct sctx *cur;
static int law_mode, quick_search;

/* ---------------------------------------------------------------- schema descriptor */

static const char *
ktype_of(const struct lysc_node *s)
{
    const struct lysc_type *t = NULL;

    if (s->nodetype & (LYS_LEAF | LYS_LEAFLIST)) {
        t = ((const struct lysc_node_leaf *)s)->type;
    } else if (s->nodetype == LYS_LIST) {
        const struct lysc_node *k = lysc_node_child(s);

        if (k && (k->flags & LYS_KEY)) {
            t = ((const struct lysc_node_leaf *)k)->type;
        }
    }
    if (!t) return "-";
    switch (t->basetype) {
    case LY_TYPE_INT32: return "i32";
    case LY_TYPE_UINT8: return "u8";
    case LY_TYPE_STRING: return "str";
    default: return "oth";
    }
}

static const char *
kind_of(const struct lysc_node *s)
{
    switch (s->nodetype) {
    case LYS_CONTAINER: return "c";
    case LYS_LEAF: return (s->flags & LYS_KEY) ? "key" : "lf";
    case LYS_LIST:
        if (s->flags & LYS_KEYLESS) return "ld";
        return (s->flags & LYS_ORDBY_USER) ? "lu" : "ls";
    case LYS_LEAFLIST:
        if (s->flags & LYS_CONFIG_R) return "lld";
        return (s->flags & LYS_ORDBY_USER) ? "llu" : "lls";
    default: return "x";
    }
}

static void
desc_walk(struct sctx *c, const struct lysc_node *parent, const struct lysc_module *mod, int psid, char **buf, size_t *len)
{
    const struct lysc_node *s = NULL;

    while ((s = lys_getnext(s, parent, mod, 0))) {
        int sid = c->nsn;
        char line[256];

        if (c->nsn >= MAXS) return;
        c->snode[sid] = s;
        c->sparent[sid] = psid;
        c->nsn++;
        if (psid < 0) {
            snprintf(line, sizeof line, "%s%d,-,%s,%s,%s,%s", *len ? ";" : "", sid, s->module->name, s->name, kind_of(s), ktype_of(s));
        } else {
            snprintf(line, sizeof line, "%s%d,%d,%s,%s,%s,%s", *len ? ";" : "", sid, psid, s->module->name, s->name, kind_of(s), ktype_of(s));
        }
        *buf = realloc(*buf, *len + strlen(line) + 1);
        strcpy(*buf + *len, line);
        *len += strlen(line);
        if (s->nodetype & (LYS_CONTAINER | LYS_LIST)) {
            desc_walk(c, s, NULL, sid, buf, len);
        }
    }
}

static int
sid_of(const struct lysc_node *s)
{
    for (int i = 0; i < cur->nsn; i++) {
        if (cur->snode[i] == s) return i;
    }
    return -1;
}

static struct sctx *
get_ctx(const char *yangtok)
{
    for (int i = 0; i < nctx; i++) {
        if (!strcmp(ctxs[i].key, yangtok)) return &ctxs[i];
    }
    if (nctx == MAXCTX) return NULL;
    struct sctx *c = &ctxs[nctx];
    memset(c, 0, sizeof *c);
    if (ly_ctx_new(NULL, 0, &c->ctx)) return NULL;
    char *copy = strdup(yangtok), *save = NULL;
    struct lys_module *mods[16];
    int nm = 0;
    for (char *p = strtok_r(copy, ",", &save); p; p = strtok_r(NULL, ",", &save)) {
        size_t n;
        char *y = vp_unhex(p, &n);
        struct lys_module *m = NULL;
        if (!y || lys_parse_mem(c->ctx, y, LYS_IN_YANG, &m) || nm == 16) {
            free(y); free(copy); ly_ctx_destroy(c->ctx);
            return NULL;
        }
        mods[nm++] = m;
        free(y);
    }
    free(copy);
    char *buf = calloc(1, 1);
    size_t len = 0;
    for (int i = 0; i < nm; i++) {
        desc_walk(c, NULL, mods[i]->compiled, -1, &buf, &len);
    }
    c->desc = buf;
    c->key = strdup(yangtok);
    nctx++;
    return c;
}

/* ---------------------------------------------------------------- id table */

static int
id_of(const struct lyd_node *n)
{
    for (int i = 0; i < MAXID; i++) {
        if (tab[i] == n) return i;
    }
    return -1;
}

static void
clear_subtree(struct lyd_node *n)
{
    struct lyd_node *c;
    int i = id_of(n);

    if (i >= 0) tab[i] = NULL;
    LY_LIST_FOR(lyd_child(n), c) clear_subtree(c);
}

static void
drop_defaults(struct lyd_node *first)
{
    struct lyd_node *n;

    LY_LIST_FOR(first, n) {
        if (n->flags & LYD_DEFAULT) {
            clear_subtree(n);
        } else if (lyd_child(n)) {
            drop_defaults(lyd_child(n));
        }
    }
}

static int next_auto = 2000;
static void
register_new(struct lyd_node *root)
{
    struct lyd_node *c;

    if (id_of(root) < 0 && next_auto < MAXID) tab[next_auto++] = root;
    LY_LIST_FOR(lyd_child(root), c) register_new(c);
}

static void
free_all(void)
{
    /* free every group exactly once: take table entries that are roots */
    for (int i = 0; i < MAXID; i++) {
        struct lyd_node *n = tab[i];
        if (!n) continue;
        while (n->parent) n = lyd_parent(n);
        n = lyd_first_sibling(n);
        struct lyd_node *it;
        LY_LIST_FOR(n, it) clear_subtree(it);
        lyd_free_siblings(n);
    }
    next_auto = 2000;
}

/* ---------------------------------------------------------------- dump */

static void
dump_node(const struct lyd_node *n, int depth)
{
    const char *val = NULL;
    char name[128];

    if (n->schema) {
        snprintf(name, sizeof name, "%s:%s", n->schema->module->name, n->schema->name);
        if (n->schema->nodetype & LYD_NODE_TERM) {
            val = lyd_get_value(n);
        } else if (n->schema->nodetype == LYS_LIST) {
            const struct lyd_node *k = lyd_child(n);
            if (k && k->schema && (k->schema->flags & LYS_KEY)) val = lyd_get_value(k);
        }
    } else {
        snprintf(name, sizeof name, "?:%s", LYD_NAME(n));
        val = ((const struct lyd_node_opaq *)n)->value;
    }
    fprintf(stdout, " %d.%d.%s.", depth, id_of(n), name);
    vp_puthex(val ? val : "", val ? strlen(val) : 0);
    const struct lyd_node *c;
    LY_LIST_FOR(lyd_child(n), c) dump_node(c, depth + 1);
}

static void
dump_forest(void)
{
    for (int i = 0; i < MAXID; i++) {
        const struct lyd_node *n = tab[i], *it;
        if (!n || n->parent || n->prev->next) continue;
        fputs(" G", stdout);
        LY_LIST_FOR(n, it) dump_node(it, 0);
    }
}

/* ---------------------------------------------------------------- consistency battery */

static int
schema_rank(const struct lyd_node *n, const struct lysc_node *sparent)
{
    const struct lysc_node *s = NULL;
    int idx = 0;

    while ((s = lys_getnext(s, sparent, sparent ? NULL : n->schema->module->compiled, 0))) {
        if (s == n->schema) return idx;
        idx++;
    }
    return -1;
}

/* independent ordering oracle: by the type tag of the descriptor; list instances by all their keys in SCHEMA order, each
 * key looked up by its schema node (not by its position among the children) */
static int
val_cmp(const struct lysc_node *s, const char *va, const char *vb)
{
    const char *kt = ktype_of(s);

    if (!va || !vb) return va ? 1 : vb ? -1 : 0;
    if (!strcmp(kt, "i32") || !strcmp(kt, "u8")) {
        long long x = strtoll(va, NULL, 10), y = strtoll(vb, NULL, 10);
        return x < y ? -1 : x > y;
    }
    return strcmp(va, vb);
}

static const char *
key_val(const struct lyd_node *inst, const struct lysc_node *ks)
{
    const struct lyd_node *c;

    LY_LIST_FOR(lyd_child(inst), c) if (c->schema == ks) return lyd_get_value(c);
    return NULL;
}

static int
key_cmp(const struct lyd_node *a, const struct lyd_node *b)
{
    if (a->schema->nodetype == LYS_LIST) {
        const struct lysc_node *ks;
        int r;

        for (ks = lysc_node_child(a->schema); ks && (ks->flags & LYS_KEY); ks = ks->next) {
            if ((r = val_cmp(ks, key_val(a, ks), key_val(b, ks)))) return r;
        }
        return 0;
    }
    return val_cmp(a->schema, lyd_get_value(a), lyd_get_value(b));
}

static int
is_sorted_kind(const struct lysc_node *s)
{
    return (s->flags & LYS_ORDBY_SYSTEM) && ((s->nodetype == LYS_LEAFLIST) || ((s->nodetype == LYS_LIST) && !(s->flags & LYS_KEYLESS)));
}

/* what the search functions may not tell apart: instances of the same (leaf-)list with equal keys / value; any two
 * instances of a leaf or container (duplicates exist only in not-yet-validated trees; by hash they are found by
 * schema only, by scan by value too) */
static int
same_inst(const struct lyd_node *s, const struct lyd_node *n)
{
    if (s->schema != n->schema) return 0;
    if (!(n->schema->nodetype & (LYS_LIST | LYS_LEAFLIST))) return 1;
    return !lyd_compare_single(s, n, lysc_is_dup_inst_list(n->schema) ? LYD_COMPARE_FULL_RECURSION : 0);
}

/* path / XPath searches start at the root: meaningful only when the root is a top-level schema node and every
 * proper ancestor is the only instance equal to itself at its level */
static int
path_checkable(const struct lyd_node *n)
{
    const struct lyd_node *a, *s, *top = n;

    while (top->parent) top = lyd_parent(top);
    if (!top->schema || lysc_data_parent(top->schema)) return 0;
    for (a = lyd_parent(n); a; a = lyd_parent(a)) {
        int cnt = 0;
        if (!a->schema) return 0;
        LY_LIST_FOR(lyd_first_sibling(a), s) if (s->schema && same_inst(s, a)) cnt++;
        if (cnt != 1) return 0;
    }
    return 1;
}

static const char *POOL_I[] = {"-3", "0", "1", "2", "3", "4", "5", "7", "9", "10", "200"};
static const char *POOL_S[] = {"", "a", "B", "aa", "b", "10", "9", "\xc3\xa9"};

static int dbg;
#define V8(k) do { v |= 8; if (dbg) fprintf(stderr, "V8 check#%d\n", k); } while (0)
static unsigned
check_search(const struct lyd_node *parent, const struct lyd_node *first)
{
    unsigned v = 0;
    const struct lyd_node *n, *s;

    LY_LIST_FOR(first, n) {
        struct lyd_node *m = NULL;
        const struct lyd_node *want = NULL;
        int nequal = 0;

        if (!n->schema) continue;
        LY_LIST_FOR(first, s) {
            if (s->schema && same_inst(s, n)) { if (!want) want = s; nequal++; }
        }
        LY_ERR r = lyd_find_sibling_first(first, n, &m);
        /* an equal node must be found; the first one whenever the instance is unique or the list allows duplicates */
        if (r || !m || m->parent != n->parent || !same_inst(m, n) || ((nequal == 1 || lysc_is_dup_inst_list(n->schema)) && m != want)) V8(1);
        /* first instance by schema */
        m = NULL;
        r = lyd_find_sibling_val(first, n->schema, NULL, 0, &m);
        {
            const struct lyd_node *w = NULL; int cnt = 0;
            LY_LIST_FOR(first, s) if (s->schema == n->schema) { if (!w) w = s; cnt++; }
            if (r || !m || m->schema != n->schema || ((n->schema->nodetype & (LYS_LIST | LYS_LEAFLIST) || cnt == 1) && m != w)) V8(2);
        }
        if ((n->schema->nodetype == LYS_LEAFLIST) || ((n->schema->nodetype == LYS_LIST) && !(n->schema->flags & LYS_KEYLESS))) {
            char pred[600], rpred[600];
            const char *val, *rval = NULL;
            int quote = 0;
            if (n->schema->nodetype == LYS_LEAFLIST) {
                val = lyd_get_value(n);
                quote = strchr(val, '\'') != NULL;
            } else {
                /* all keys, in schema order and in the reverse order (predicates may come in any order) */
                const struct lysc_node *ks;
                size_t l = 0;
                pred[0] = rpred[0] = 0;
                for (ks = lysc_node_child(n->schema); ks && (ks->flags & LYS_KEY); ks = ks->next) {
                    const char *kv = key_val(n, ks);
                    char one[280], tmp[600];
                    if (!kv) { quote = 1; break; }        /* a key is missing (not-yet-valid instance): nothing to search by */
                    if (strchr(kv, '\'')) quote = 1;
                    snprintf(one, sizeof one, "[%s='%s']", ks->name, kv);
                    l += snprintf(pred + l, sizeof pred - l, "%s", one);
                    snprintf(tmp, sizeof tmp, "%s%s", one, rpred);
                    snprintf(rpred, sizeof rpred, "%s", tmp);
                }
                val = pred;
                if (strcmp(pred, rpred)) rval = rpred;
            }
            if (!quote) {
                m = NULL;
                r = lyd_find_sibling_val(first, n->schema, val, 0, &m);
                if (r || !m || m->parent != n->parent || !same_inst(m, n) || ((nequal == 1 || lysc_is_dup_inst_list(n->schema)) && m != want)) V8(3);
                if (rval) {
                    m = NULL;
                    r = lyd_find_sibling_val(first, n->schema, rval, 0, &m);
                    if (r || !m || m->parent != n->parent || !same_inst(m, n) || (nequal == 1 && m != want)) V8(14);
                }
            }
        }
        if (path_checkable(n)) {
            char *p = lyd_path(n, LYD_PATH_STD, NULL, 0);
            if (p) {
                /* by path */
                m = NULL;
                r = lyd_find_path(first, p, 0, &m);
                if (lysc_is_dup_inst_list(n->schema)) {
                    if (r || m != n) V8(4);            /* positional predicate */
                } else if (r || !m || m->parent != n->parent || !same_inst(m, n) || (nequal == 1 && m != want)) {
                    V8(5);
                }
                /* by XPath: exactly the equal instances, in sibling order */
                struct ly_set *set = NULL;
                r = lyd_find_xpath(first, p, &set);
                if (r || !set) {
                    V8(6);
                } else if (lysc_is_dup_inst_list(n->schema)) {
                    if (set->count != 1 || set->dnodes[0] != n) V8(7);
                } else if (nequal > 1) {
                    /* duplicate instances (not yet validated data): the key-predicate fast path of the evaluator may
                     * return only one of them; found-iff-exists is what the property demands */
                    if (!set->count) V8(12);
                    for (uint32_t k = 0; k < set->count; k++) {
                        if (set->dnodes[k]->parent != n->parent || !same_inst(set->dnodes[k], n)) V8(13);
                    }
                } else {
                    if (set->count != 1 || set->dnodes[0] != n) V8(8);
                }
                ly_set_free(set, NULL);
                free(p);
            }
        }
    }
    /* absent / present values of every (leaf-)list schema of this level */
    const struct lysc_node *sparent = parent ? parent->schema : NULL, *sc = NULL;
    if (first && first->schema) {
        while ((sc = lys_getnext(sc, sparent, sparent ? NULL : first->schema->module->compiled, 0))) {
            const char *kt = ktype_of(sc);
            int isint = !strcmp(kt, "i32") || !strcmp(kt, "u8");
            if (!(sc->nodetype & (LYS_LIST | LYS_LEAFLIST)) || (sc->flags & LYS_KEYLESS)) continue;
            if ((sc->nodetype == LYS_LIST) && lysc_node_child(sc)->next && (lysc_node_child(sc)->next->flags & LYS_KEY)) continue;  /* several keys */
            for (int i = 0; i < (isint ? 11 : 8); i++) {
                const char *val = isint ? POOL_I[i] : POOL_S[i];
                char pred[64];
                struct lyd_node *m = NULL;
                const struct lyd_node *want = NULL;
                int cnt = 0;
                if (!strcmp(kt, "u8") && val[0] == '-') continue;
                LY_LIST_FOR(first, s) {
                    if (s->schema != sc) continue;
                    const char *sv = lyd_get_value(sc->nodetype == LYS_LIST ? lyd_child(s) : s);
                    if (!strcmp(sv, val)) { if (!want) want = s; cnt++; }
                }
                if (sc->nodetype == LYS_LIST) {
                    snprintf(pred, sizeof pred, "[%s='%s']", lysc_node_child(sc)->name, val);
                    val = pred;
                }
                LY_ERR r = lyd_find_sibling_val(first, sc, val, 0, &m);
                if (!want) {
                    if (r != LY_ENOTFOUND || m) V8(10);
                } else if (r || !m || m->schema != sc || m->parent != want->parent || ((cnt == 1 || lysc_is_dup_inst_list(sc)) && m != want)) {
                    V8(11);
                }
            }
        }
    }
    return v;
}

#ifdef SIB_WB
struct htrec { uint32_t hash; const struct lyd_node *n; };
static int
htrec_cmp(const void *a, const void *b)
{
    const struct htrec *x = a, *y = b;
    if (x->hash != y->hash) return x->hash < y->hash ? -1 : 1;
    if (x->n != y->n) return (uintptr_t)x->n < (uintptr_t)y->n ? -1 : 1;
    return 0;
}

static uint32_t
schema_hash(const struct lysc_node *s)
{
    uint32_t h = lyht_hash_multi(0, s->module->name, strlen(s->module->name));
    h = lyht_hash_multi(h, s->name, strlen(s->name));
    return lyht_hash_multi(h, NULL, 0);
}

static unsigned
check_ht(const struct lyd_node *parent, const struct lyd_node *first)
{
    unsigned v = 0;
    const struct lyd_node *n;
    struct htrec exp[512], got[512];
    int ne = 0, ng = 0;
    struct ly_ht *ht = parent && parent->schema ? ((const struct lyd_node_inner *)parent)->children_ht : NULL;

    LY_LIST_FOR(first, n) {
        if (!n->schema) continue;
        /* node->hash must be lyd_hash of the current content */
        uint32_t saved = n->hash;
        lyd_hash((struct lyd_node *)n);
        if (n->hash != saved) { v |= 32; ((struct lyd_node *)n)->hash = saved; }
        if (ne < 510) {
            exp[ne].hash = saved; exp[ne++].n = n;
            if ((n->schema->nodetype & (LYS_LIST | LYS_LEAFLIST)) && (n == first || n->prev->schema != n->schema)) {
                exp[ne].hash = schema_hash(n->schema); exp[ne++].n = n;
            }
        }
    }
    if (!ht) return v;
    uint32_t hlist_idx, rec_idx;
    struct ly_ht_rec *rec;
    LYHT_ITER_ALL_RECS(ht, hlist_idx, rec_idx, rec) {
        if (ng < 512) { got[ng].hash = rec->hash; got[ng++].n = *(struct lyd_node **)rec->val; }
    }
    if (ng != (int)ht->used) v |= 16;
    qsort(exp, ne, sizeof *exp, htrec_cmp);
    qsort(got, ng, sizeof *got, htrec_cmp);
    if (ne != ng) {
        v |= 16;
    } else {
        for (int i = 0; i < ne; i++) {
            if (exp[i].hash != got[i].hash || exp[i].n != got[i].n) { v |= 16; break; }
        }
    }
    return v;
}

static int
rb_walk(const struct rb_node *r, const struct rb_node *par, const struct lyd_node **out, int *cnt, int max, int *bad)
{
    /* returns black height */
    if (!r) return 1;
    if (r->parent != par) *bad = 1;
    if (r->color == RB_RED && ((r->left && r->left->color == RB_RED) || (r->right && r->right->color == RB_RED))) *bad = 1;
    int hl = rb_walk(r->left, r, out, cnt, max, bad);
    if (*cnt < max) out[(*cnt)++] = r->dnode; else *bad = 1;
    int hr = rb_walk(r->right, r, out, cnt, max, bad);
    if (hl != hr) *bad = 1;
    return hl + (r->color == RB_BLACK);
}

static unsigned
check_rb(const struct lyd_node *first)
{
    unsigned v = 0;
    const struct lyd_node *n = first;

    while (n) {
        const struct lyd_node *blk[512], *ino[512], *e;
        int nb = 0, ni = 0, bad = 0;
        if (!n->schema || !lyds_is_supported(n)) {
            /* nothing but (system-ordered) leaders carries lyds metadata */
            struct lyd_meta *mt = NULL;
            if (n->schema) { lyds_get_rb_tree(n, &mt); if (mt) v |= 64; }
            n = n->next;
            continue;
        }
        for (e = n; e && e->schema == n->schema; e = e->next) if (nb < 512) blk[nb++] = e;
        struct lyd_meta *mt = NULL;
        struct rb_node *rbt = lyds_get_rb_tree(n, &mt);
        if (rbt) {
            if (rbt->color != RB_BLACK) bad = 1;
            rb_walk(rbt, NULL, ino, &ni, 512, &bad);
            if (ni != nb) bad = 1;
            else for (int i = 0; i < nb; i++) if (ino[i] != blk[i]) { bad = 1; break; }
        }
        for (int i = 1; i < nb; i++) {
            struct lyd_meta *m2 = NULL;
            lyds_get_rb_tree(blk[i], &m2);
            if (m2) bad = 1;           /* metadata only on the leader */
        }
        if (bad) v |= 64;
        n = e;
    }
    return v;
}
#endif

static unsigned
check_level(const struct lyd_node *parent, const struct lyd_node *first, int search)
{
    unsigned v = 0;
    const struct lyd_node *n, *prev = NULL;
    int seen_opaq = 0;

    if (!first) return 0;
    if (first->prev->next) v |= 1;
    if (parent && lyd_child(parent) != first) v |= 1;
    LY_LIST_FOR(first, n) {
        if (lyd_parent(n) != parent) v |= 1;
        if (prev && n->prev != prev) v |= 1;
        if (!n->next && first->prev != n) v |= 1;
        if (!n->schema) {
            seen_opaq = 1;
        } else {
            if (seen_opaq) v |= 2;
            if (prev && prev->schema) {
                const struct lysc_node *sp = lysc_data_parent(n->schema);
                int c = sp ? 0 : strcmp(prev->schema->module->name, n->schema->module->name);
                if (lysc_data_parent(prev->schema) != sp) v |= 2;
                else if (c > 0) v |= 2;
                else if (c == 0 && schema_rank(prev, sp) > schema_rank(n, sp)) v |= 2;
                if (prev->schema == n->schema && is_sorted_kind(n->schema) && key_cmp(prev, n) > 0) v |= 4;
            }
        }
        prev = n;
    }
    if (search) v |= check_search(parent, first);
#ifdef SIB_WB
    v |= check_ht(parent, first);
    v |= check_rb(first);
#endif
    LY_LIST_FOR(first, n) {
        if (lyd_child(n)) v |= check_level(n, lyd_child(n), search);
#ifdef SIB_WB
        else if (n->schema && (n->schema->nodetype & LYD_NODE_INNER)) v |= check_ht(n, NULL);
#endif
    }
    return v;
}

static int
reachable(const struct lyd_node *root, const struct lyd_node *x, int depth)
{
    const struct lyd_node *r;
    int guard = 0;

    if (depth > 50) return 0;
    LY_LIST_FOR(root, r) {
        if (r == x) return 1;
        if (++guard > 10000) return 0;
        if (lyd_child(r) && reachable(lyd_child(r), x, depth + 1)) return 1;
    }
    return 0;
}

static unsigned
battery(int search)
{
    unsigned v = 0;

    for (int i = 0; i < MAXID; i++) {
        const struct lyd_node *n = tab[i];
        if (!n) continue;
        if (!n->parent && !n->prev->next) {
            v |= check_level(NULL, n, search);
        }
    }
    /* every id must sit in exactly the tree its links claim: walk up and down again */
    for (int i = 0; i < MAXID; i++) {
        const struct lyd_node *n = tab[i], *top;
        if (!n) continue;
        int guard = 0;
        for (top = n; top->parent && guard < 100; top = lyd_parent(top)) guard++;
        guard = 0;
        while (top->prev->next && guard < 10000) { top = top->prev; guard++; }
        if (guard >= 10000 || !reachable(top, n, 0)) v |= 128;
    }
    return v;
}

/* ---------------------------------------------------------------- ops */

static const char *
rcname(LY_ERR r)
{
    static char buf[16];
    switch (r) {
    case LY_SUCCESS: return "SUCCESS";
    case LY_EINVAL: return "EINVAL";
    case LY_EVALID: return "EVALID";
    case LY_ENOTFOUND: return "ENOTFOUND";
    case LY_ENOT: return "ENOT";
    case LY_EINT: return "EINT";
    case LY_EEXIST: return "EEXIST";
    default: snprintf(buf, sizeof buf, "E%d", (int)r); return buf;
    }
}

static int
split(char *s, char sep, char **out, int max)
{
    int n = 0;
    out[n++] = s;
    for (; *s; s++) {
        if (*s == sep && n < max) { *s = 0; out[n++] = s + 1; }
    }
    return n;
}

static struct lyd_node *
node_arg(const char *a)
{
    char *e;
    long i = strtol(a, &e, 10);
    if (*e || i < 0 || i >= MAXID) return NULL;
    return tab[i];
}

static const struct lysc_node *
find_schema_child(const struct lysc_node *sparent, const char *modname_colon_name)
{
    char buf[128];
    snprintf(buf, sizeof buf, "%s", modname_colon_name);
    char *c = strchr(buf, ':');
    if (!c) return NULL;
    *c = 0;
    const struct lys_module *m = ly_ctx_get_module_implemented(cur->ctx, buf);
    if (!m) return NULL;
    return lys_find_child(sparent, m, c + 1, 0, 0, 0);
}

#define REFUSE(why) do { fputs(" R:" why, stdout); return; } while (0)
#define MARK(f) do { if (law_mode) { fputs(" X:" f, stdout); fflush(stdout); } } while (0)

/* a sibling ring that does not end (F112): nothing below may be walked any more */
static int
forest_cyclic(void)
{
    for (int i = 0; i < MAXID; i++) {
        const struct lyd_node *n = tab[i];
        int guard = 0;
        if (!n) continue;
        for (; n && guard < 20000; n = n->next) guard++;
        if (guard >= 20000) return 1;
        for (n = tab[i], guard = 0; n->prev->next && guard < 20000; n = n->prev) guard++;
        if (guard >= 20000) return 1;
        for (n = tab[i], guard = 0; n && guard < 1000; n = lyd_parent(n)) guard++;
        if (guard >= 1000) return 1;
    }
    return 0;
}


static void
done(LY_ERR r, int search)
{
    if (forest_cyclic()) {
        /* report and give up this process: the structure cannot be walked or freed */
        fprintf(stdout, " %s V256\n", rcname(r));
        fflush(stdout);
        _exit(0);
    }
    fprintf(stdout, " %s V%u", rcname(r), battery(search));
    dump_forest();
}

static int
in_subtree(const struct lyd_node *root, const struct lyd_node *x)
{
    int guard = 0;
    for (; x && guard < 1000; x = lyd_parent(x), guard++) {
        if (x == root) return 1;
    }
    return 0;
}

static int
modules_in(const struct lyd_node *first)
{
    const struct lyd_node *n;
    const struct lys_module *m = NULL;
    int cnt = 0;

    LY_LIST_FOR(first, n) {
        if (n->schema && lyd_owner_module(n) != m) { m = lyd_owner_module(n); cnt++; }
    }
    return cnt;
}

static int
has_opaque(const struct lyd_node *n)
{
    const struct lyd_node *c;

    if (!n->schema) return 1;
    LY_LIST_FOR(lyd_child(n), c) {
        if (has_opaque(c)) return 1;
    }
    return 0;
}

static int
has_opaque_siblings(const struct lyd_node *first)
{
    const struct lyd_node *n;

    LY_LIST_FOR(first, n) {
        if (has_opaque(n)) return 1;
    }
    return 0;
}

static int
all_toplevel_schema(const struct lyd_node *first)
{
    const struct lyd_node *n;

    LY_LIST_FOR(first, n) {
        if (!n->schema || lysc_data_parent(n->schema)) return 0;
    }
    return 1;
}

static int
is_multi_move(const struct lyd_node *n)
{
    return !n->parent && !n->prev->next && n->next;
}

#ifdef SIB_WB
/* triggers of F164 / F165, evaluated on the real structures before a bulk move (lyd_move_nodes_by_schema): a moved
 * (leaf-)list with a sorting tree meets destination instances without one (lyds_merge_nodes2);
 * F164: the last destination instance has a following sibling, F165: the destination leader has empty lyds metadata */
static void
mark_merge2(const struct lyd_node *n, const struct lyd_node *first_dst)
{
    const struct lyd_node *s, *d, *e;
    int f164 = 0, f165 = 0;

    LY_LIST_FOR(n, s) {
        struct lyd_meta *mt = NULL;
        if (!s->schema || !lyds_is_supported(s) || (s != n && s->prev->schema == s->schema)) continue;
        if (!lyds_get_rb_tree(s, NULL)) continue;
        LY_LIST_FOR(first_dst, d) if (d->schema == s->schema) break;
        if (!d || lyds_get_rb_tree(d, &mt)) continue;
        if (mt) f165 = 1;
        for (e = d; e->next && e->next->schema == d->schema; e = e->next) {}
        if (e->next) f164 = 1;
    }
    if (f164) MARK("F164");
    if (f165) MARK("F165");
}

/* trigger of F166: lyd_dup_siblings() into a parent that already holds an instance of a system-ordered (leaf-)list of
 * which the source has at least two instances in a row */
static void
mark_dup_into(const struct lyd_node *n, const struct lyd_node *p)
{
    const struct lyd_node *s, *d;

    LY_LIST_FOR(n, s) {
        if (!s->schema || !lyds_is_supported(s) || !s->next || s->next->schema != s->schema) continue;
        LY_LIST_FOR(lyd_child(p), d) if (d->schema == s->schema) { MARK("F166"); return; }
    }
}
#else
# define mark_merge2(n, first_dst)
# define mark_dup_into(n, p)
#endif

static void
run_op(char *op, int last)
{
    char *a[8];
    int na = split(op, ',', a, 8);
    int search = !quick_search || last;

    fputs(" |", stdout);

    if (!strcmp(a[0], "new") && na == 5) {
        int id = atoi(a[1]);
        struct lyd_node *parent = NULL, *node = NULL;
        size_t vl;
        if (id < 0 || id >= KEYOFF || tab[id] || tab[id + KEYOFF]) REFUSE("IdInUse");
        if (strcmp(a[2], "-") && !(parent = node_arg(a[2]))) REFUSE("NoNode");
        if (parent && !parent->schema) REFUSE("OpaqParent");
        if (parent && !(parent->schema->nodetype & LYD_NODE_INNER)) REFUSE("ParentNotInner");
        const struct lysc_node *s = find_schema_child(parent ? parent->schema : NULL, a[3]);
        char *val = vp_unhex(a[4], &vl);
        if (!val) REFUSE("BadArg");
        char mod[128];
        snprintf(mod, sizeof mod, "%s", a[3]);
        char *nm = strchr(mod, ':');
        if (!nm) { free(val); REFUSE("BadArg"); }
        *nm++ = 0;
        const struct lys_module *m = ly_ctx_get_module_implemented(cur->ctx, mod);
        LY_ERR r;
        if (!s || !m) {
            r = m ? lyd_new_term(parent, m, nm, val, 0, &node) : LY_ENOTFOUND;
            if (r == LY_SUCCESS) r = LY_EOTHER;
        } else if ((s->flags & LYS_KEY) && !law_mode) {
            free(val);
            REFUSE("KeyLeaf");
        } else if (s->nodetype == LYS_CONTAINER) {
            r = lyd_new_inner(parent, m, nm, 0, &node);
        } else if (s->nodetype == LYS_LIST) {
            if (s->flags & LYS_KEYLESS) r = lyd_new_list(parent, m, nm, 0, &node);
            else r = lyd_new_list(parent, m, nm, 0, &node, val);
        } else {
            if ((s->flags & LYS_KEY) && parent) MARK("F142");
            r = lyd_new_term(parent, m, nm, val, 0, &node);
        }
        free(val);
        if (!r && node) {
            tab[id] = node;
            if (node->schema->nodetype == LYS_LIST && lyd_child(node)) tab[id + KEYOFF] = lyd_child(node);
        }
        done(r, search);
    } else if (!strcmp(a[0], "newopaq") && na == 5) {
        int id = atoi(a[1]);
        struct lyd_node *parent = NULL, *node = NULL;
        size_t vl;
        if (id < 0 || id >= KEYOFF || tab[id] || tab[id + KEYOFF]) REFUSE("IdInUse");
        if (strcmp(a[2], "-") && !(parent = node_arg(a[2]))) REFUSE("NoNode");
        if (parent && !parent->schema) REFUSE("OpaqParent");
        if (parent && !(parent->schema->nodetype & LYD_NODE_INNER)) REFUSE("ParentNotInner");
        char *val = vp_unhex(a[4], &vl);
        if (!val) REFUSE("BadArg");
        LY_ERR r = lyd_new_opaq(parent, cur->ctx, a[3], val, NULL, "opq", &node);
        free(val);
        if (!r && node) tab[id] = node;
        done(r, search);
    } else if (!strcmp(a[0], "ins_child") && na == 3) {
        struct lyd_node *n = node_arg(a[1]), *t = node_arg(a[2]);
        if (!n || !t) REFUSE("NoNode");
        if (!t->schema) REFUSE("OpaqParent");
        if (n != t && in_subtree(n, t)) REFUSE("Cycle");
        if (!law_mode) {
            /* mirror the order of libyang's checks so that the refusal happens exactly where the model refuses */
            if ((t->schema->nodetype & LYD_NODE_INNER) &&
                    (!n->schema || lysc_data_parent(n->schema) == t->schema) && is_multi_move(n)) REFUSE("OutOfFragment");
        }
        if (is_multi_move(n)) MARK("F144");
        if (is_multi_move(n) && (t->schema->nodetype & LYD_NODE_INNER)) mark_merge2(n, lyd_child(t));
        done(lyd_insert_child(t, n), search);
    } else if (!strcmp(a[0], "ins_sibling") && na == 3) {
        struct lyd_node *n = node_arg(a[1]), *t = node_arg(a[2]);
        if (!n || !t) REFUSE("NoNode");
        if (n != t && in_subtree(n, t)) REFUSE("Cycle");
        if (!law_mode && n != t) {
            int ok = !n->schema || !t->schema || lysc_data_parent(n->schema) == lysc_data_parent(t->schema);
            if (ok) {
                if (n->schema && !t->schema) REFUSE("OutOfFragment");
                if (t->parent && !t->parent->schema) REFUSE("OpaqParent");
                if (is_multi_move(n)) REFUSE("OutOfFragment");
                if (lyd_first_sibling(t) == n) REFUSE("OutOfFragment");
            }
        }
        if (n != t && n->schema && !t->schema) MARK("F141");   /* no schema check at all next to an opaque sibling */
        if (n != t && lyd_first_sibling(t) == n) MARK("F112");
        if (n != t && is_multi_move(n)) MARK("F144");
        if (n != t && is_multi_move(n) && lyd_first_sibling(t) != n) mark_merge2(n, lyd_first_sibling(t));
        done(lyd_insert_sibling(t, n, NULL), search);
    } else if ((!strcmp(a[0], "ins_before") || !strcmp(a[0], "ins_after")) && na == 3) {
        struct lyd_node *n = node_arg(a[1]), *t = node_arg(a[2]);
        if (!n || !t) REFUSE("NoNode");
        if (n != t && in_subtree(n, t)) REFUSE("Cycle");
        if (!law_mode && n != t) {
            int ok = !n->schema || !t->schema || lysc_data_parent(n->schema) == lysc_data_parent(t->schema);
            if (ok) {
                if (!n->schema) REFUSE("OutOfFragment");
                if (lysc_is_userordered(n->schema) && !t->schema) REFUSE("OutOfFragment");
            }
        }
        if (n != t && (!n->schema || !t->schema)) MARK("F141");
        done(a[0][4] == 'b' ? lyd_insert_before(t, n) : lyd_insert_after(t, n), search);
    } else if (!strcmp(a[0], "unlink") && na == 2) {
        struct lyd_node *n = node_arg(a[1]);
        if (!n) REFUSE("NoNode");
        done(lyd_unlink_tree(n), search);
    } else if (law_mode && !strcmp(a[0], "unlinksibs") && na == 2) {
        /* the node and all its following siblings become a parent-less sibling list (moved as a whole by a later insert) */
        struct lyd_node *n = node_arg(a[1]);
        if (!n) REFUSE("NoNode");
        done(lyd_unlink_siblings(n), search);
    } else if (!strcmp(a[0], "free") && na == 2) {
        struct lyd_node *n = node_arg(a[1]);
        if (!n) REFUSE("NoNode");
        if (lysc_is_key(n->schema) && n->parent) {
            lyd_free_tree(n);       /* logs an error and returns */
            done(LY_EINVAL, search);
        } else {
            clear_subtree(n);
            lyd_free_tree(n);
            done(LY_SUCCESS, search);
        }
    } else if (!strcmp(a[0], "change") && na == 3) {
        struct lyd_node *n = node_arg(a[1]);
        size_t vl;
        if (!n) REFUSE("NoNode");
        char *val = vp_unhex(a[2], &vl);
        if (!val) REFUSE("BadArg");
#ifdef SIB_WB
        if (law_mode && n->schema && (n->schema->nodetype & LYD_NODE_TERM)) {
            /* the F19 trigger, evaluated on the real structures: the re-sorted target has sibling instances and its
             * parent has a children hash table */
            struct lyd_node *t = (n->schema->nodetype == LYS_LEAFLIST) ? n : ((lysc_is_key(n->schema) && n->parent) ? lyd_parent(n) : NULL);
            if (t && !LYD_NODE_IS_ALONE(t) && lyds_is_supported(t) && t->parent && t->parent->schema && t->parent->children_ht) MARK("F19");
        }
#endif
        LY_ERR r = lyd_change_term(n, val);
        free(val);
        done(r, search);
    } else if (!strcmp(a[0], "find") && na == 4) {
        struct lyd_node *n = node_arg(a[1]), *m = NULL;
        size_t vl;
        if (!n) REFUSE("NoNode");
        if (!n->schema) REFUSE("OutOfFragment");
        const struct lysc_node *s = find_schema_child(lysc_data_parent(n->schema), a[2]);
        if (!s) REFUSE("NoSchema");
        char *val = vp_unhex(a[3], &vl);
        if (!val) REFUSE("BadArg");
        LY_ERR r;
        if ((s->nodetype & (LYS_LIST | LYS_LEAFLIST)) && !(s->flags & LYS_KEYLESS)) {
            char pred[600];
            const char *v = val;
            if (s->nodetype == LYS_LIST) {
                snprintf(pred, sizeof pred, "[%s='%s']", lysc_node_child(s)->name, val);
                v = pred;
            }
            r = lyd_find_sibling_val(n, s, v, 0, &m);
        } else {
            r = lyd_find_sibling_val(n, s, NULL, 0, &m);
        }
        free(val);
        int fid = m ? id_of(m) : -1;
        if (fid >= 0) fprintf(stdout, " %s F%d", rcname(r), fid);
        else fprintf(stdout, " %s F-", rcname(r));
    } else if (!strcmp(a[0], "findkeys") && na == 4) {
        /* findkeys,<anchor>,<mod:name>,<predicates-hex>: lyd_find_sibling_val of a list instance by ALL its keys, the
         * predicates in any order */
        struct lyd_node *n = node_arg(a[1]), *m = NULL;
        if (!n) REFUSE("NoNode");
        if (!n->schema) REFUSE("OutOfFragment");
        const struct lysc_node *s = find_schema_child(lysc_data_parent(n->schema), a[2]);
        if (!s || s->nodetype != LYS_LIST || (s->flags & LYS_KEYLESS)) REFUSE("NoSchema");
        char *pred = vp_unhex(a[3], NULL);
        if (!pred) REFUSE("BadArg");
        LY_ERR r = lyd_find_sibling_val(n, s, pred, 0, &m);
        free(pred);
        int fid = m ? id_of(m) : -1;
        if (fid >= 0) fprintf(stdout, " %s F%d", rcname(r), fid);
        else fprintf(stdout, " %s F-", rcname(r));
    } else if (!strcmp(a[0], "newlist2") && na == 5) {
        /* newlist2,<id>,<parent|->,<mod:name>,<predicates-hex>: lyd_new_list2 (keys as predicates, in any order) */
        int id = atoi(a[1]);
        struct lyd_node *parent = NULL, *node = NULL;
        char mod[128], *nm, *pred;
        const struct lys_module *m;
        if (id < 0 || id >= KEYOFF || tab[id] || tab[id + KEYOFF]) REFUSE("IdInUse");
        if (strcmp(a[2], "-") && !(parent = node_arg(a[2]))) REFUSE("NoNode");
        if (parent && (!parent->schema || !(parent->schema->nodetype & LYD_NODE_INNER))) REFUSE("ParentNotInner");
        snprintf(mod, sizeof mod, "%s", a[3]);
        if (!(nm = strchr(mod, ':'))) REFUSE("BadArg");
        *nm++ = 0;
        if (!(m = ly_ctx_get_module_implemented(cur->ctx, mod))) REFUSE("BadArg");
        if (!(pred = vp_unhex(a[4], NULL))) REFUSE("BadArg");
        LY_ERR r = lyd_new_list2(parent, m, nm, pred, 0, &node);
        free(pred);
        if (!r && node) {
            tab[id] = node;
            register_new(node);
        }
        done(r, search);
    } else if (!strcmp(a[0], "newpath") && na == 5) {
        /* newpath,<id>,<parent|->,<path-hex>,<value-hex>: lyd_new_path; every node it creates gets an id */
        int id = atoi(a[1]);
        struct lyd_node *parent = NULL, *node = NULL, *top;
        char *path, *val;
        if (id < 0 || id >= KEYOFF || tab[id] || tab[id + KEYOFF]) REFUSE("IdInUse");
        if (strcmp(a[2], "-") && !(parent = node_arg(a[2]))) REFUSE("NoNode");
        if (parent && !parent->schema) REFUSE("OpaqParent");
        path = vp_unhex(a[3], NULL); val = vp_unhex(a[4], NULL);
        if (!path || !val) { free(path); free(val); REFUSE("BadArg"); }
        LY_ERR r = lyd_new_path(parent, cur->ctx, path, val, 0, &node);
        free(path); free(val);
        if (!r && node) {
            if (id_of(node) < 0) tab[id] = node;
            for (top = node; top->parent; top = lyd_parent(top));
            register_new(top);
        }
        done(r, search);
    } else if (law_mode && !strcmp(a[0], "dup") && na == 4) {
        /* dup,<id>,<parent|->,<opts>: recursive copy, new nodes get ids from 2000 */
        struct lyd_node *n = node_arg(a[1]), *p = NULL, *d = NULL;
        if (!n) REFUSE("NoNode");
        if (strcmp(a[2], "-") && !(p = node_arg(a[2]))) REFUSE("NoNode");
        if (p && (!p->schema || !(p->schema->nodetype & LYD_NODE_INNER))) REFUSE("ParentNotInner");
        /* only where the copy belongs by schema (the API does not check it) */
        if (p && (!n->schema || lysc_data_parent(n->schema) != p->schema)) REFUSE("BadParent");
        if (!p && n->schema && lysc_data_parent(n->schema) && (atoi(a[3]) & LYD_DUP_WITH_PARENTS) && 0) REFUSE("BadParent");
        LY_ERR r = lyd_dup_single(n, (struct lyd_node_inner *)p, (uint32_t)atoi(a[3]), &d);
        if (!r && d) {
            struct lyd_node *top = d;
            while (top->parent) top = lyd_parent(top);
            register_new(top);
        }
        done(r, search);
    } else if (law_mode && !strcmp(a[0], "dupsib") && na == 4) {
        struct lyd_node *n = node_arg(a[1]), *p = NULL, *d = NULL;
        if (!n) REFUSE("NoNode");
        if (strcmp(a[2], "-") && !(p = node_arg(a[2]))) REFUSE("NoNode");
        if (p && (!p->schema || !(p->schema->nodetype & LYD_NODE_INNER))) REFUSE("ParentNotInner");
        if (p && (!n->schema || lysc_data_parent(n->schema) != p->schema)) REFUSE("BadParent");
        if (p && lyd_parent(n) == p) REFUSE("SameParent");   /* copying a list into itself does not terminate */
        if (p) mark_dup_into(n, p);
        LY_ERR r = lyd_dup_siblings(n, (struct lyd_node_inner *)p, (uint32_t)atoi(a[3]), &d);
        if (!r && d) {
            struct lyd_node *top = d, *it;
            while (top->parent) top = lyd_parent(top);
            LY_LIST_FOR(lyd_first_sibling(top), it) register_new(it);
        }
        done(r, search);
    } else if (law_mode && (!strcmp(a[0], "merge") || !strcmp(a[0], "merge_opaq")) && na == 4) {
        /* merge,<src>,<dst>,<opts>: both must be top-level nodes; with LYD_MERGE_DESTRUCT the source ids are dropped */
        struct lyd_node *src = node_arg(a[1]), *dst = node_arg(a[2]);
        if (!src || !dst) REFUSE("NoNode");
        if (src->parent || dst->parent) REFUSE("NotTop");
        if (!strcmp(a[0], "merge") && (has_opaque(src) || has_opaque_siblings(lyd_first_sibling(dst)))) REFUSE("OpaqInMerge");
        if (!strcmp(a[0], "merge_opaq")) MARK("F145");
        dst = lyd_first_sibling(dst);
        if (!all_toplevel_schema(dst) || !src->schema || lysc_data_parent(src->schema)) REFUSE("NotTop");
        if (lyd_first_sibling(src) == dst) REFUSE("SameTree");
        uint16_t opts = (uint16_t)atoi(a[3]);
        /* with LYD_MERGE_DESTRUCT the whole sibling list of the source is spent */
        if ((opts & LYD_MERGE_DESTRUCT) && (src->next || src->prev != src)) REFUSE("SrcNotAlone");
        if (opts & LYD_MERGE_DESTRUCT) clear_subtree(src);
        int did = id_of(dst);
        LY_ERR r = lyd_merge_tree(&dst, src, opts);
        (void)did;
        struct lyd_node *it;
        LY_LIST_FOR(lyd_first_sibling(dst), it) register_new(it);
        if (opts & LYD_MERGE_DESTRUCT) {
            /* whatever is left of the source tree was freed by libyang */
        }
        done(r, search);
    } else if (law_mode && !strcmp(a[0], "validate") && na == 2) {
        struct lyd_node *n = node_arg(a[1]);
        if (!n) REFUSE("NoNode");
        if (n->parent) REFUSE("NotTop");
        n = lyd_first_sibling(n);
        if (!all_toplevel_schema(n)) REFUSE("NotTop");
        if (modules_in(n) > 1) MARK("F45");
        drop_defaults(n);       /* default nodes may be deleted by the validation: forget their ids first */
        LY_ERR r = lyd_validate_all(&n, NULL, LYD_VALIDATE_PRESENT, NULL);
        if (n) { struct lyd_node *it; LY_LIST_FOR(lyd_first_sibling(n), it) register_new(it); }
        done(r == LY_EVALID ? LY_EVALID : r, search);
    } else if (law_mode && !strcmp(a[0], "implicit") && na == 2) {
        struct lyd_node *n = node_arg(a[1]);
        if (!n) REFUSE("NoNode");
        if (!n->schema || !(n->schema->nodetype & LYD_NODE_INNER)) REFUSE("ParentNotInner");
        LY_ERR r = lyd_new_implicit_tree(n, 0, NULL);
        struct lyd_node *top = n;
        while (top->parent) top = lyd_parent(top);
        register_new(top);
        done(r, search);
    } else {
        REFUSE("BadOp");
    }
}

#ifdef SIB_WB
static void
rb_shape(const struct rb_node *r)
{
    if (!r) { fputs(" .", stdout); return; }
    fprintf(stdout, " %c%s", r->color == RB_RED ? 'R' : 'B', lyd_get_value(r->dnode));
    rb_shape(r->left);
    rb_shape(r->right);
}

static void
rb_op(const char *id, char *keys)
{
    const struct lysc_node *cont = NULL, *ll = NULL, *s = NULL;
    struct lyd_node *c = NULL, *n;
    char *k[1024];
    int nk, i;

    for (i = 0; i < cur->nsn && !cont; i++) {
        if (cur->sparent[i] < 0 && cur->snode[i]->nodetype == LYS_CONTAINER) cont = cur->snode[i];
    }
    while (cont && (s = lys_getnext(s, cont, NULL, 0))) {
        if (s->nodetype == LYS_LEAFLIST && (s->flags & LYS_ORDBY_SYSTEM) && !strcmp(ktype_of(s), "i32")) { ll = s; break; }
    }
    if (!ll || lyd_new_inner(NULL, cont->module, cont->name, 0, &c)) { vp_reply(id, "err NoList"); return; }
    nk = split(keys, ',', k, 1024);
    for (i = 0; i < nk; i++) {
        if (lyd_new_term(c, ll->module, ll->name, k[i], 0, NULL)) { lyd_free_all(c); vp_reply(id, "err BadKey"); return; }
    }
    fprintf(stdout, "%s ok", id);
    LY_LIST_FOR(lyd_child(c), n) {
        if (n->schema == ll) break;
    }
    rb_shape(n ? lyds_get_rb_tree(n, NULL) : NULL);
    /* and the instances in sibling order */
    fputs(" |", stdout);
    LY_LIST_FOR(lyd_child(c), n) if (n->schema == ll) fprintf(stdout, " %s", lyd_get_value(n));
    fputc('\n', stdout);
    fflush(stdout);
    lyd_free_all(c);
}

/* `rbs`: a script of `i<key>` (lyd_new_term), `u<idx>` (lyd_free_tree of the idx-th instance in sibling order: lyd_unlink ->
 * lyds_unlink -> rb_remove_node) and `m<idx>` (lyd_unlink_tree + lyd_insert_child of the same node) on the first
 * system-ordered int leaf-list of the first top-level container.  After EVERY op: the red-black tree (pre-order, colour,
 * value:creation serial), which instances carry `lyds_tree` metadata (M0 = the leader only, M- = none), the white-box
 * verdict of check_rb() and the instances in sibling order. */
static struct lyd_node *rbs_tab[4096];
static int rbs_n;

static int
rbs_serial(const struct lyd_node *n)
{
    for (int i = 0; i < rbs_n; i++) if (rbs_tab[i] == n) return i;
    return -1;
}

static void
rbs_shape(const struct rb_node *r)
{
    if (!r) { fputs(" .", stdout); return; }
    fprintf(stdout, " %c%s:%d", r->color == RB_RED ? 'R' : 'B', lyd_get_value(r->dnode), rbs_serial(r->dnode));
    rbs_shape(r->left);
    rbs_shape(r->right);
}

static void
rbs_show(struct lyd_node *c, const struct lysc_node *ll)
{
    struct lyd_node *n, *leader = NULL;
    struct lyd_meta *mt;
    int i = 0, first = 1;

    LY_LIST_FOR(lyd_child(c), n) if (n->schema == ll) { leader = n; break; }
    fputs(" |", stdout);
    rbs_shape(leader ? lyds_get_rb_tree(leader, NULL) : NULL);
    fputs(" M", stdout);
    LY_LIST_FOR(lyd_child(c), n) {
        if (n->schema != ll) continue;
        mt = NULL;
        lyds_get_rb_tree(n, &mt);
        if (mt) { fprintf(stdout, "%s%d", first ? "" : "+", i); first = 0; }
        i++;
    }
    if (first) fputc('-', stdout);
    fprintf(stdout, " V%u =", check_rb(lyd_child(c)));
    LY_LIST_FOR(lyd_child(c), n) if (n->schema == ll) fprintf(stdout, " %s:%d", lyd_get_value(n), rbs_serial(n));
}

/* run an rbs script inside container `c` (created by the caller); prints the state after every op when `show` */
static void
rbs_run(struct lyd_node *c, const struct lysc_node *ll, char *script, int show)
{
    struct lyd_node *n, *nw;
    char *k[4096];
    int nk, i, j, idx;

    nk = split(script, ',', k, 4096);
    for (i = 0; i < nk; i++) {
        if (!k[i][0]) continue;
        if (k[i][0] == 'i') {
            nw = NULL;
            if (rbs_n >= 4096 || lyd_new_term(c, ll->module, ll->name, k[i] + 1, 0, &nw) || !nw) { if (show) fputs(" | R:BadKey", stdout); continue; }
            rbs_tab[rbs_n++] = nw;
        } else if (k[i][0] == 'u' || k[i][0] == 'm') {
            idx = atoi(k[i] + 1);
            j = 0;
            nw = NULL;
            LY_LIST_FOR(lyd_child(c), n) {
                if (n->schema != ll) continue;
                if (j++ == idx) { nw = n; break; }
            }
            if (!nw || !isdigit((unsigned char)k[i][1])) { if (show) fputs(" | R:NoInst", stdout); continue; }
            if (k[i][0] == 'u') {
                j = rbs_serial(nw);
                lyd_free_tree(nw);
                if (j >= 0) rbs_tab[j] = NULL;
            } else {
                lyd_unlink_tree(nw);
                if (lyd_insert_child(c, nw)) { if (show) fputs(" | R:InsertFailed", stdout); lyd_free_tree(nw); continue; }
            }
        } else if (k[i][0] == 's') {
            /* s<idx>: lyd_unlink_siblings() of the idx-th instance: it and all following ones leave (lyds_split takes each out of
             * the tree by rb_remove_node; from the leader on, the whole list leaves with its tree); the detached list is freed */
            idx = atoi(k[i] + 1);
            j = 0;
            nw = NULL;
            LY_LIST_FOR(lyd_child(c), n) {
                if (n->schema != ll) continue;
                if (j++ == idx) { nw = n; break; }
            }
            if (!nw || !isdigit((unsigned char)k[i][1])) { if (show) fputs(" | R:NoInst", stdout); continue; }
            if (lyd_unlink_siblings(nw)) { if (show) fputs(" | R:UnlinkFailed", stdout); continue; }
            if (idx > 0) {
                /* the detached instances carry no lyds metadata */
                struct lyd_meta *mt = NULL;
                LY_LIST_FOR(nw, n) { lyds_get_rb_tree(n, &mt); if (mt && show) fputs(" | X:DetachedMeta", stdout); }
            }
            LY_LIST_FOR(nw, n) { j = rbs_serial(n); if (j >= 0) rbs_tab[j] = NULL; }
            lyd_free_siblings(nw);
        } else {
            if (show) fputs(" | R:BadOp", stdout);
            continue;
        }
        if (show) rbs_show(c, ll);
    }
}

static const struct lysc_node *
rbs_schema(const struct lysc_node **cont_p)
{
    const struct lysc_node *cont = NULL, *ll = NULL, *s = NULL;

    for (int i = 0; i < cur->nsn && !cont; i++) {
        if (cur->sparent[i] < 0 && cur->snode[i]->nodetype == LYS_CONTAINER) cont = cur->snode[i];
    }
    while (cont && (s = lys_getnext(s, cont, NULL, 0))) {
        if (s->nodetype == LYS_LEAFLIST && (s->flags & LYS_ORDBY_SYSTEM) && !strcmp(ktype_of(s), "i32")) { ll = s; break; }
    }
    *cont_p = cont;
    return ll;
}

static void
rbs_op(const char *id, char *script)
{
    const struct lysc_node *cont, *ll = rbs_schema(&cont);
    struct lyd_node *c = NULL;

    if (!ll || lyd_new_inner(NULL, cont->module, cont->name, 0, &c)) { vp_reply(id, "err NoList"); return; }
    rbs_n = 0;
    fprintf(stdout, "%s ok", id);
    rbs_run(c, ll, script, 1);
    fputc('\n', stdout);
    fflush(stdout);
    lyd_free_all(c);
}

/* `rbm <dst script> <src script>`: two containers are filled by rbs scripts; then ALL instances of the second (a leading `D`
 * in the source script: a lyd_dup_siblings() copy of them, which has no sorting tree) are moved into the first in one call
 * (lyd_unlink_siblings + lyd_insert_child of a node with siblings -> lyd_move_nodes -> lyds_merge; a single source
 * instance goes through lyd_insert_node). */
/* `rbd <dst script> <src script>`: two containers filled by rbs scripts, then lyd_merge_siblings(&dst, src, LYD_MERGE_DESTRUCT):
 * the source leaf-list's red-black nodes and metadata go to the lyds pool (lyds_pool_add), every source instance whose
 * value the target lacks is moved by lyds_insert2 reusing pooled nodes (lyds_additionally_reuse_rb_tree when the target
 * leader has no tree yet), the rest of the pool and of the source is released (lyds_pool_clean). */
static void
rbd_op(const char *id, char *dscript, char *sscript)
{
    const struct lysc_node *cont, *ll = rbs_schema(&cont);
    struct lyd_node *a = NULL, *b = NULL;
    LY_ERR r;

    if (!ll || lyd_new_inner(NULL, cont->module, cont->name, 0, &a) || lyd_new_inner(NULL, cont->module, cont->name, 0, &b)) {
        lyd_free_all(a);
        vp_reply(id, "err NoList");
        return;
    }
    rbs_n = 0;
    int ddup = dscript[0] == 'D';
    rbs_run(a, ll, dscript + ddup, 0);
    if (ddup) {
        /* the target is replaced by its duplicate: same instances in the same order, but no sorting tree (as after a parse
         * with LYD_PARSE_ORDERED): lyds_insert2 must build it (lyds_additionally_reuse_rb_tree from the pooled nodes of the
         * source, lyds_additionally_create_rb_nodes for the instances the pool has no node left for) */
        struct lyd_node *dup = NULL, *o, *d;
        if (lyd_dup_single(a, NULL, LYD_DUP_RECURSIVE, &dup) || !dup) { lyd_free_all(a); lyd_free_all(b); vp_reply(id, "err Dup"); return; }
        for (o = lyd_child(a), d = lyd_child(dup); o && d; o = o->next, d = d->next) {
            int j = rbs_serial(o);
            if (j >= 0) rbs_tab[j] = d;
        }
        lyd_free_all(a);
        a = dup;
    }
    rbs_run(b, ll, sscript, 0);
    fprintf(stdout, "%s ok", id);
    r = lyd_merge_siblings(&a, b, LYD_MERGE_DESTRUCT);
    if (r) {
        fprintf(stdout, " | R:MergeFailed");
    } else {
        rbs_show(a, ll);
    }
    fputc('\n', stdout);
    fflush(stdout);
    lyd_free_all(a);
}

/* `rbp <dst script> <src script>`: two containers filled by rbs scripts, then lyd_dup_siblings(first instance of the second, first
 * container, 0, &d): the copies go INTO a parent that may hold instances already (lyd_dup_r -> lyd_insert_node; the first_llist
 * fast path of lyd_dup appends following copies without lyds_insert).  The copies get new serials in source order. */
static void
rbp_op(const char *id, char *dscript, char *sscript)
{
    const struct lysc_node *cont, *ll = rbs_schema(&cont);
    struct lyd_node *a = NULL, *b = NULL, *d = NULL, *n, *it;
    LY_ERR r;

    if (!ll || lyd_new_inner(NULL, cont->module, cont->name, 0, &a) || lyd_new_inner(NULL, cont->module, cont->name, 0, &b)) {
        lyd_free_all(a);
        vp_reply(id, "err NoList");
        return;
    }
    rbs_n = 0;
    rbs_run(a, ll, dscript, 0);
    rbs_run(b, ll, sscript, 0);
    fprintf(stdout, "%s ok", id);
    if (!lyd_child(b)) {
        rbs_show(a, ll);
    } else {
        /* remember which nodes of `a` are old */
        r = lyd_dup_siblings(lyd_child(b), (struct lyd_node_inner *)a, 0, &d);
        if (r) {
            fputs(" | R:DupFailed", stdout);
        } else {
            /* new serials: the copies in the order of their originals (equal values: copy k of value v <-> original k of value v) */
            LY_LIST_FOR(lyd_child(b), it) {
                int seen = 0, want = 0;
                struct lyd_node *o2;
                LY_LIST_FOR(lyd_child(b), o2) { if (o2 == it) break; if (!strcmp(lyd_get_value(o2), lyd_get_value(it))) want++; }
                LY_LIST_FOR(lyd_child(a), n) {
                    if (n->schema != ll || rbs_serial(n) >= 0 || strcmp(lyd_get_value(n), lyd_get_value(it))) continue;
                    if (seen++ == 0) { if (rbs_n < 4096) rbs_tab[rbs_n++] = n; break; }
                }
                (void)want;
            }
            rbs_show(a, ll);
        }
    }
    fputc('\n', stdout);
    fflush(stdout);
    lyd_free_all(a);
    lyd_free_all(b);
}

static void
rbm_op(const char *id, char *dscript, char *sscript)
{
    const struct lysc_node *cont, *ll = rbs_schema(&cont);
    struct lyd_node *a = NULL, *b = NULL, *first, *dup = NULL, *o, *d;
    int dupmode = sscript[0] == 'D';

    if (!ll || lyd_new_inner(NULL, cont->module, cont->name, 0, &a) || lyd_new_inner(NULL, cont->module, cont->name, 0, &b)) {
        lyd_free_all(a);
        vp_reply(id, "err NoList");
        return;
    }
    rbs_n = 0;
    rbs_run(a, ll, dscript, 0);
    rbs_run(b, ll, sscript + dupmode, 0);
    first = lyd_child(b);
    if (!first || !lyd_child(a)) { lyd_free_all(a); lyd_free_all(b); vp_reply(id, "err Empty"); return; }
    if (dupmode) {
        if (lyd_dup_siblings(first, NULL, 0, &dup) || !dup) { lyd_free_all(a); lyd_free_all(b); vp_reply(id, "err Dup"); return; }
        for (o = first, d = dup; o && d; o = o->next, d = d->next) {
            int j = rbs_serial(o);
            if (j >= 0) rbs_tab[j] = d;
        }
        first = dup;
    } else if (lyd_unlink_siblings(first)) {
        lyd_free_all(a); lyd_free_all(b); vp_reply(id, "err Unlink"); return;
    }
    fprintf(stdout, "%s ok", id);
    if (lyd_insert_child(a, first)) {
        fputs(" | R:InsertFailed", stdout);
        lyd_free_siblings(first);
    } else {
        rbs_show(a, ll);
    }
    fputc('\n', stdout);
    fflush(stdout);
    lyd_free_all(a);
    lyd_free_all(b);
}
#endif

/* a request that does not finish (a cyclic structure inside libyang): say so and give up this process */
static void
on_alarm(int sig)
{
    static const char msg[] = " HANG\n";
    (void)sig;
    if (write(1, msg, sizeof msg - 1) < 0) {}
    _exit(0);
}

static int
sib_main(void)
{
    struct vp_req r = {0};

    signal(SIGALRM, on_alarm);

    ly_log_options(0);
    dbg = getenv("SIBDBG") != NULL;
    while (vp_next(&r)) {
        const char *id = r.tok[0];

        if (r.ntok == 7 && !strcmp(r.tok[1], "sib") && !strcmp(r.tok[2], "rb")) {
            /* rb <variant> <desc> <yang> <k1,k2,...>: insert the values one by one into the first system-ordered
             * int leaf-list of the first top-level container and print the shape of its red-black tree (pre-order) */
#ifdef SIB_WB
            cur = get_ctx(r.tok[5]);
            if (!cur) { vp_reply(id, "err BadSchema"); continue; }
            rb_op(id, r.tok[6]);
#else
            vp_reply(id, "err NoWb");
#endif
            continue;
        }
        if (r.ntok == 7 && !strcmp(r.tok[1], "sib") && !strcmp(r.tok[2], "rbs")) {
            /* rbs <variant> <desc> <yang> <script>: insert / unlink script, red-black shape after every op */
#ifdef SIB_WB
            cur = get_ctx(r.tok[5]);
            if (!cur) { vp_reply(id, "err BadSchema"); continue; }
            rbs_op(id, r.tok[6]);
#else
            vp_reply(id, "err NoWb");
#endif
            continue;
        }
        if (r.ntok == 8 && !strcmp(r.tok[1], "sib") && !strcmp(r.tok[2], "rbp")) {
#ifdef SIB_WB
            cur = get_ctx(r.tok[5]);
            if (!cur) { vp_reply(id, "err BadSchema"); continue; }
            rbp_op(id, r.tok[6], r.tok[7]);
#else
            vp_reply(id, "err NoWb");
#endif
            continue;
        }
        if (r.ntok == 8 && !strcmp(r.tok[1], "sib") && !strcmp(r.tok[2], "rbd")) {
#ifdef SIB_WB
            cur = get_ctx(r.tok[5]);
            if (!cur) { vp_reply(id, "err BadSchema"); continue; }
            rbd_op(id, r.tok[6], r.tok[7]);
#else
            vp_reply(id, "err NoWb");
#endif
            continue;
        }
        if (r.ntok == 8 && !strcmp(r.tok[1], "sib") && !strcmp(r.tok[2], "rbm")) {
            /* rbm <variant> <desc> <yang> <dst script> <src script>: bulk move of a (leaf-)list onto another (lyds_merge) */
#ifdef SIB_WB
            cur = get_ctx(r.tok[5]);
            if (!cur) { vp_reply(id, "err BadSchema"); continue; }
            rbm_op(id, r.tok[6], r.tok[7]);
#else
            vp_reply(id, "err NoWb");
#endif
            continue;
        }
        if (r.ntok == 3 && !strcmp(r.tok[1], "sib") && !strcmp(r.tok[2], "rbleak")) {
            /* everything the rb scripts allocated (red-black nodes, lyds_tree metadata) is released again */
            vp_reply(id, "ok %d", VP_LEAKCHECK());
            continue;
        }
        if (r.ntok != 7 || strcmp(r.tok[1], "sib") || strcmp(r.tok[2], "run")) {
            vp_reply(r.ntok ? id : "?", "err BadOp");
            continue;
        }
        law_mode = strchr(r.tok[3] + 1, 'm') != NULL;
        quick_search = strchr(r.tok[3] + 1, 'q') != NULL;
        cur = get_ctx(r.tok[5]);
        if (!cur) { vp_reply(id, "err BadSchema"); continue; }
        alarm(8);
        fprintf(stdout, "%s ok D=", id);
        vp_puthex(cur->desc, strlen(cur->desc));
        /* ops */
        char *script = r.tok[6], *ops[1024];
        int nops = split(script, ';', ops, 1024);
        for (int i = 0; i < nops; i++) {
            if (!ops[i][0]) continue;
            run_op(ops[i], i == nops - 1);
            fflush(stdout);
        }
        fputc('\n', stdout);
        fflush(stdout);
        free_all();
        alarm(0);
    }
    free(r.line);
    for (int i = 0; i < nctx; i++) { ly_ctx_destroy(ctxs[i].ctx); free(ctxs[i].key); free(ctxs[i].desc); }
    return 0;
}
