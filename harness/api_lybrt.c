/* API-level law harness for the LYB round trip (component `lybapi`, public API only):
 *   rt <searchdir-hex> <yang-hex> <wd> <spec>
 *        fresh context (+ ietf-netconf-with-defaults from <searchdir>), module from <yang>, tree built with lyd_new_path
 *        from <spec>, validated per module (adds the implicit defaults), then
 *          lyd_print_all(LYB, WITHSIBLINGS | wd) -> lyd_parse_data(LYB, PARSE_ONLY | STRICT)
 *          -> lyd_compare_siblings(FULL_RECURSION | DEFAULTS), lyd_lyb_data_length() == printed bytes,
 *          printing the parsed tree again gives the same bytes
 *        -> ok eq <len> | err <Stage>      Stage: Schema Build Validate Print Parse Compare Length Reprint
 *   wd:   explicit | trim | all | all-tag | impl-tag
 *   spec: comma separated <path-hex>=<val>;  <val>: - (none) | l<hex> (literal) | g<len>:<seed> (generated [a-z0-9]* string)
 *         or O<name-hex>=<val> : a top-level opaque node <name> (JSON format, module name of the tested module) with that
 *         value and one opaque child "k" = "v"; the tree is then parsed back with LYD_PARSE_OPAQ
 *   leakcheck */
#define _GNU_SOURCE
#include <libyang.h>
#include "proto.h"

static uint32_t
wd_flag(const char *wd)
{
    if (!strcmp(wd, "trim")) return LYD_PRINT_WD_TRIM;
    if (!strcmp(wd, "all")) return LYD_PRINT_WD_ALL;
    if (!strcmp(wd, "all-tag")) return LYD_PRINT_WD_ALL_TAG;
    if (!strcmp(wd, "impl-tag")) return LYD_PRINT_WD_IMPL_TAG;
    return LYD_PRINT_WD_EXPLICIT;
}

static char *
gen_value(const char *v)
{
    static const char alpha[] = "abcdefghijklmnopqrstuvwxyz0123456789";
    char *r;

    if (v[0] == '-') return NULL;
    if (v[0] == 'l') return vp_unhex(v + 1, NULL);
    if (v[0] == 'g') {
        size_t len = strtoull(v + 1, NULL, 10), i;
        const char *c = strchr(v, ':');
        unsigned seed = c ? (unsigned)strtoul(c + 1, NULL, 10) : 0;

        r = malloc(len + 1);
        for (i = 0; i < len; i++) r[i] = alpha[(seed + i * 7 + i / 36) % 36];
        r[len] = 0;
        return r;
    }
    return NULL;
}

static void
op_rt(const char *id, const char *dirhex, const char *yanghex, const char *wd, const char *spec)
{
    char *dir = vp_unhex(dirhex, NULL), *yang = vp_unhex(yanghex, NULL), *dup = strdup(spec), *save = NULL, *t;
    char *buf = NULL, *buf2 = NULL;
    struct ly_ctx *ctx = NULL;
    struct lys_module *mod = NULL;
    struct lyd_node *tree = NULL, *tree2 = NULL, *node;
    struct ly_out *out = NULL, *out2 = NULL;
    struct ly_in *in = NULL;
    const char *stage = NULL;
    size_t len = 0, len2;
    int has_opaq = 0;
    uint32_t opts = wd_flag(wd);      /* lyd_print_all implies WITHSIBLINGS */

    if (ly_ctx_new(dir, 0, &ctx)) { stage = "Ctx"; goto done; }
    if (!ly_ctx_load_module(ctx, "ietf-netconf-with-defaults", NULL, NULL)) { stage = "Ctx"; goto done; }
    if (lys_parse_mem(ctx, yang, LYS_IN_YANG, &mod)) { stage = "Schema"; goto done; }

    if (strcmp(spec, "-")) {
        for (t = strtok_r(dup, ",", &save); t; t = strtok_r(NULL, ",", &save)) {
            char *eq = strchr(t, '='), *path, *val;

            if (!eq) { stage = "Build"; goto done; }
            *eq = 0;
            if (t[0] == 'O') {
                struct lyd_node *opq = NULL, *kid = NULL;

                path = vp_unhex(t + 1, NULL);
                val = gen_value(eq + 1);
                if (lyd_new_opaq(NULL, ctx, path, val, NULL, mod->name, &opq) ||
                        lyd_new_opaq(opq, ctx, "k", "v", NULL, mod->name, &kid) ||
                        lyd_insert_sibling(tree, opq, &tree)) {
                    lyd_free_tree(opq); free(path); free(val); stage = "Build"; goto done;
                }
                has_opaq = 1;
                free(path); free(val);
                continue;
            }
            path = vp_unhex(t, NULL);
            val = gen_value(eq + 1);
            if (lyd_new_path(tree, ctx, path, val, LYD_NEW_PATH_UPDATE, &node)) { free(path); free(val); stage = "Build"; goto done; }
            if (!tree) tree = node;
            tree = lyd_first_sibling(tree);
            free(path); free(val);
        }
    }
    if (!has_opaq && lyd_validate_module(&tree, mod, 0, NULL)) { stage = "Validate"; goto done; }

    ly_out_new_memory(&buf, 0, &out);
    if (lyd_print_all(out, tree, LYD_LYB, opts)) { stage = "Print"; goto done; }
    len = ly_out_printed(out);

    ly_in_new_memory(buf, &in);
    if (lyd_parse_data(ctx, NULL, in, LYD_LYB, LYD_PARSE_ONLY | (has_opaq ? LYD_PARSE_OPAQ : LYD_PARSE_STRICT), 0, &tree2)) { stage = "Parse"; goto done; }
    if (lyd_compare_siblings(tree, tree2, LYD_COMPARE_FULL_RECURSION | LYD_COMPARE_DEFAULTS)) { stage = "Compare"; goto done; }
    if ((size_t)lyd_lyb_data_length(buf) != len) {
        vp_reply(id, "err Length %zu %d", len, lyd_lyb_data_length(buf));
        goto cleanup;
    }

    /* in the tagged modes the parsed tree keeps the wd:default annotation as ordinary metadata (the LYB parser does not
     * consume it the way the XML/JSON parsers do), so printing it again adds a second annotation: not compared */
    if (opts & (LYD_PRINT_WD_ALL_TAG | LYD_PRINT_WD_IMPL_TAG)) goto done;

    ly_out_new_memory(&buf2, 0, &out2);
    if (lyd_print_all(out2, tree2, LYD_LYB, opts)) { stage = "Reprint"; goto done; }
    len2 = ly_out_printed(out2);
    if ((len2 != len) || memcmp(buf, buf2, len)) { stage = "Reprint"; goto done; }

done:
    if (stage) vp_reply(id, "err %s", stage);
    else vp_reply(id, "ok eq %zu", len);
cleanup:
    ly_in_free(in, 0);
    ly_out_free(out, NULL, 0);
    ly_out_free(out2, NULL, 0);
    lyd_free_all(tree);
    lyd_free_all(tree2);
    ly_ctx_destroy(ctx);
    free(buf); free(buf2); free(dir); free(yang); free(dup);
}

int
main(void)
{
    struct vp_req r = {0};

    ly_log_options(getenv("VP_VERBOSE") ? LY_LOLOG : 0);
    while (vp_next(&r)) {
        const char *id = r.tok[0], *op = r.ntok > 2 ? r.tok[2] : "";

        if (r.ntok < 3) { vp_reply(r.ntok ? id : "?", "err BadLine"); continue; }
        if (!strcmp(op, "rt") && r.ntok == 7) {
            op_rt(id, r.tok[3], r.tok[4], r.tok[5], r.tok[6]);
        } else if (!strcmp(op, "leakcheck")) {
            vp_reply(id, VP_LEAKCHECK() ? "err Leak" : "ok");
        } else {
            vp_reply(id, "err BadOp");
        }
    }
    free(r.line);
    return 0;
}
