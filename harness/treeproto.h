/* Shared tree base of the API harnesses (schema family S1, DESIGN.md §2.4 / Appendix B `tree dump`).
 *
 *   tp_schema_get(dsl_hex)                 registered schema (see tp_schema_register) or NULL
 *   tp_schema_register(dsl_hex, yang)      new context (+ ietf-netconf-with-defaults) + module; schema nodes numbered in DFS pre-order (choice/case included)
 *   tp_load(s, dump, with_flags, &t)       build a lyd_node forest from the canonical dump through lyd_new_* (libyang orders it)
 *   tp_dump(s, forest, &buf)               canonical dump: one line per node  "<depth> <sid> <flags> <value-hex> [<meta>=<hex>]*"
 *
 * The dump is the serialisation shared with tools/vlib/treegen.py and lean/LyModel/Tree/DTree.lean, so implementation and
 * model trees compare token for token.  Uses the public API only (plus the public struct fields `flags`, `meta`).     */
#ifndef VERIF_TREEPROTO_H
#define VERIF_TREEPROTO_H

#include "libyang.h"
#include "proto.h"

#define TP_MAXNODES 512
#define TP_FLAGMASK (LYD_DEFAULT | LYD_WHEN_TRUE | LYD_NEW)

struct tp_schema {
    char *key;                               /* the DSL token (hex) that names this schema on the protocol */
    struct ly_ctx *ctx;
    struct lys_module *mod;
    const struct lysc_node *nodes[TP_MAXNODES];
    int n;
    struct tp_schema *next;
};

static struct tp_schema *tp_schemas;

/* growing string buffer ------------------------------------------------------------------------- */
struct tp_buf { char *s; size_t len, cap; };

static void
tp_buf_add(struct tp_buf *b, const char *s, size_t n)
{
    if (b->len + n + 1 > b->cap) {
        b->cap = (b->len + n + 1) * 2 + 64;
        b->s = realloc(b->s, b->cap);
    }
    memcpy(b->s + b->len, s, n);
    b->len += n;
    b->s[b->len] = 0;
}

static void
tp_buf_printf(struct tp_buf *b, const char *fmt, ...)
{
    char tmp[128];
    va_list ap;
    int n;

    va_start(ap, fmt);
    n = vsnprintf(tmp, sizeof tmp, fmt, ap);
    va_end(ap);
    tp_buf_add(b, tmp, n);
}

static void
tp_buf_hex(struct tp_buf *b, const char *s)
{
    size_t i, n = s ? strlen(s) : 0;
    char h[3];

    if (!n) { tp_buf_add(b, "-", 1); return; }
    for (i = 0; i < n; i++) {
        snprintf(h, sizeof h, "%02x", (unsigned char)s[i]);
        tp_buf_add(b, h, 2);
    }
}

/* schema -------------------------------------------------------------------------------------------- */
static void
tp_schema_walk(struct tp_schema *s, const struct lysc_node *n)
{
    const struct lysc_node *c;

    if (s->n < TP_MAXNODES) {
        s->nodes[s->n++] = n;
    }
    for (c = lysc_node_child(n); c; c = c->next) {
        tp_schema_walk(s, c);
    }
}

static struct tp_schema *
tp_schema_get(const char *key)
{
    struct tp_schema *s;

    for (s = tp_schemas; s; s = s->next) {
        if (!strcmp(s->key, key)) return s;
    }
    return NULL;
}

static struct tp_schema *
tp_schema_register(const char *key, const char *yang)
{
    struct tp_schema *s = tp_schema_get(key);
    const struct lysc_node *n;
    const char *dir = getenv("VERIF_YANG_DIR");      /* <repo>/tests/modules/yang, set by the check modules */

    if (s) return s;
    s = calloc(1, sizeof *s);
    if (ly_ctx_new(dir, 0, &s->ctx)) { free(s); return NULL; }
    /* the tagged with-defaults print modes need ietf-netconf-with-defaults in the context (DESIGN §8) */
    if (dir && !ly_ctx_load_module(s->ctx, "ietf-netconf-with-defaults", NULL, NULL)) { ly_ctx_destroy(s->ctx); free(s); return NULL; }
    if (lys_parse_mem(s->ctx, yang, LYS_IN_YANG, &s->mod)) { ly_ctx_destroy(s->ctx); free(s); return NULL; }
    for (n = s->mod->compiled->data; n; n = n->next) {
        tp_schema_walk(s, n);
    }
    s->key = strdup(key);
    s->next = tp_schemas;
    tp_schemas = s;
    return s;
}

static void
tp_schema_free_all(void)
{
    struct tp_schema *s, *nx;

    for (s = tp_schemas; s; s = nx) {
        nx = s->next;
        ly_ctx_destroy(s->ctx);
        free(s->key);
        free(s);
    }
    tp_schemas = NULL;
}

static int
tp_sid(const struct tp_schema *s, const struct lysc_node *n)
{
    int i;

    for (i = 0; i < s->n; i++) {
        if (s->nodes[i] == n) return i;
    }
    return -1;
}

static const char *
tp_kind(const struct lysc_node *n)
{
    switch (n->nodetype) {
    case LYS_CONTAINER: return "container";
    case LYS_LIST: return "list";
    case LYS_LEAFLIST: return "leaflist";
    case LYS_LEAF: return "leaf";
    case LYS_CHOICE: return "choice";
    case LYS_CASE: return "case";
    default: return "other";
    }
}

/* one token per schema node: name/kind/data-parent-sid/u<userord>d<dupinst>k<key>c<config> */
static void
tp_schema_summary(const struct tp_schema *s, struct tp_buf *b)
{
    int i, dp;
    const struct lysc_node *n, *p;

    for (i = 0; i < s->n; i++) {
        n = s->nodes[i];
        p = lysc_data_node(n->parent);
        dp = p ? tp_sid(s, p) : -1;
        if (i) tp_buf_add(b, " ", 1);
        tp_buf_printf(b, "%s/%s/", n->name, tp_kind(n));
        if (dp < 0) tp_buf_add(b, "-", 1); else tp_buf_printf(b, "%d", dp);
        tp_buf_printf(b, "/u%dd%dk%dc%d", lysc_is_userordered(n) ? 1 : 0, lysc_is_dup_inst_list(n) ? 1 : 0,
                lysc_is_key(n) ? 1 : 0, (n->flags & LYS_CONFIG_W) ? 1 : 0);
    }
}

/* dump ---------------------------------------------------------------------------------------------- */
static void
tp_dump_node(const struct tp_schema *s, const struct lyd_node *n, int depth, struct tp_buf *b)
{
    const struct lyd_node *c;
    const struct lyd_meta *m;

    if (b->len) tp_buf_add(b, "\n", 1);
    if (!n->schema) {
        tp_buf_printf(b, "%d ? 0 -", depth);                    /* opaque node: not part of S1 */
    } else {
        tp_buf_printf(b, "%d %d %u ", depth, tp_sid(s, n->schema), (unsigned)(n->flags & TP_FLAGMASK));
        if (n->schema->nodetype & LYD_NODE_TERM) {
            tp_buf_hex(b, lyd_get_value(n));
        } else {
            tp_buf_add(b, "-", 1);
        }
        for (m = n->meta; m; m = m->next) {
            if (!lyd_metadata_should_print(m)) continue;        /* internal (yang:lyds_tree) */
            tp_buf_add(b, " ", 1);
            if (strcmp(m->annotation->module->name, "yang")) {
                tp_buf_printf(b, "%s:", m->annotation->module->name);
            }
            tp_buf_printf(b, "%s=", m->name);
            tp_buf_hex(b, lyd_get_meta_value(m));
        }
    }
    for (c = lyd_child(n); c; c = c->next) {
        tp_dump_node(s, c, depth + 1, b);
    }
}

static void
tp_dump(const struct tp_schema *s, const struct lyd_node *forest, struct tp_buf *b)
{
    const struct lyd_node *n;

    b->len = 0;
    if (b->s) b->s[0] = 0;
    for (n = forest ? lyd_first_sibling(forest) : NULL; n; n = n->next) {
        tp_dump_node(s, n, 0, b);
    }
}

/* reply field: hex of the dump text */
static void
tp_field_dump(const struct tp_schema *s, const struct lyd_node *forest)
{
    struct tp_buf b = {0};

    tp_dump(s, forest, &b);
    vp_field_hex(b.s ? b.s : "", b.len);
    free(b.s);
}

/* load ---------------------------------------------------------------------------------------------- */
struct tp_tok { int depth, sid; unsigned flags; char *val; char *meta[12]; int nmeta; struct lyd_node *node; int is_key; };

static void
tp_toks_free(struct tp_tok *t, int n)
{
    int i, j;

    for (i = 0; i < n; i++) {
        free(t[i].val);
        for (j = 0; j < t[i].nmeta; j++) free(t[i].meta[j]);
    }
    free(t);
}

/* parse the dump text (modifies a private copy); returns number of tokens or -1 */
static int
tp_parse(const struct tp_schema *s, const char *text, struct tp_tok **out)
{
    char *copy = strdup(text), *line, *sv1 = NULL, *f, *sv2;
    struct tp_tok *t = NULL;
    int n = 0, cap = 0, k;

    for (line = strtok_r(copy, "\n", &sv1); line; line = strtok_r(NULL, "\n", &sv1)) {
        struct tp_tok x = {0};

        sv2 = NULL;
        for (k = 0, f = strtok_r(line, " ", &sv2); f; f = strtok_r(NULL, " ", &sv2), k++) {
            if (k == 0) x.depth = atoi(f);
            else if (k == 1) x.sid = (f[0] == '?') ? -1 : atoi(f);
            else if (k == 2) x.flags = (unsigned)atoi(f);
            else if (k == 3) x.val = vp_unhex(f, NULL);
            else if (x.nmeta < 12) x.meta[x.nmeta++] = strdup(f);
        }
        if (k < 4 || !x.val || x.sid < 0 || x.sid >= s->n) {
            free(x.val);
            tp_toks_free(t, n);
            free(copy);
            return -1;
        }
        if (n == cap) { cap = cap ? cap * 2 : 64; t = realloc(t, cap * sizeof *t); }
        t[n++] = x;
    }
    free(copy);
    *out = t;
    return n;
}

/* Build the forest.  Nodes are created in dump order through lyd_new_* (so libyang decides their place); list keys are
 * taken from the key tokens that follow the list token.  with_flags: copy the dump's flags onto the nodes afterwards
 * (otherwise the nodes keep what lyd_new_* gave them: LYD_NEW).  Metadata in the dump is ignored: data trees have none, and
 * diff trees are always produced by libyang itself (their sibling order is not the data order, so they cannot be rebuilt
 * through the inserting API).  Returns LY_SUCCESS or the first error. */
static LY_ERR
tp_load(const struct tp_schema *s, const char *text, int with_flags, struct lyd_node **forest)
{
    struct tp_tok *t = NULL;
    int n, i, j, d;
    struct lyd_node *stack[64] = {0}, *node, *first = NULL, *c;
    LY_ERR r = LY_SUCCESS;

    *forest = NULL;
    n = tp_parse(s, text, &t);
    if (n < 0) return LY_EINVAL;

    for (i = 0; i < n && !r; i++) {
        const struct lysc_node *sn = s->nodes[t[i].sid];
        struct lyd_node *parent;

        d = t[i].depth;
        if (d < 0 || d >= 62 || (d && !stack[d - 1])) { r = LY_EINVAL; break; }
        parent = d ? stack[d - 1] : NULL;
        if (t[i].is_key) continue;
        node = NULL;
        if (sn->nodetype == LYS_CONTAINER) {
            r = lyd_new_inner(parent, s->mod, sn->name, 0, &node);
        } else if (sn->nodetype == LYS_LIST) {
            const char *kv[8]; int nk = 0;
            const struct lysc_node *k;

            for (k = lysc_node_child(sn); k && (k->flags & LYS_KEY) && nk < 8; k = k->next) {
                j = i + 1 + nk;
                if (j >= n || t[j].depth != d + 1 || s->nodes[t[j].sid] != k) { r = LY_EINVAL; break; }
                kv[nk++] = t[j].val;
                t[j].is_key = 1;
            }
            if (r) break;
            r = lyd_new_list3(parent, s->mod, sn->name, kv, NULL, 0, &node);
            if (!r) {
                for (c = lyd_child(node), j = 0; c && j < nk; c = c->next, j++) t[i + 1 + j].node = c;
            }
        } else if (sn->nodetype & LYD_NODE_TERM) {
            r = lyd_new_term(parent, s->mod, sn->name, t[i].val, 0, &node);
        } else {
            r = LY_EINVAL;
        }
        if (r) break;
        t[i].node = node;
        stack[d] = node;
        stack[d + 1] = NULL;
        if (!parent) {
            r = lyd_insert_sibling(first, node, &first);
            if (r) { lyd_free_tree(node); break; }
        }
    }
    if (!r && with_flags) {
        for (i = 0; i < n; i++) {
            if (t[i].node) t[i].node->flags = (t[i].node->flags & ~TP_FLAGMASK) | (t[i].flags & TP_FLAGMASK);
        }
    }
    tp_toks_free(t, n);
    if (r) {
        lyd_free_all(first);
        return r;
    }
    *forest = first;
    return LY_SUCCESS;
}

/* load and require that the dump was canonical (re-dump equals the input) */
static LY_ERR
tp_load_canonical(const struct tp_schema *s, const char *text, struct lyd_node **forest)
{
    struct tp_buf b = {0};
    LY_ERR r = tp_load(s, text, 1, forest);

    if (r) return r;
    tp_dump(s, *forest, &b);
    if (strcmp(b.s ? b.s : "", text)) {
        lyd_free_all(*forest);
        *forest = NULL;
        r = LY_EOTHER;
    }
    free(b.s);
    return r;
}

static const char *
tp_errname(LY_ERR r)
{
    switch (r) {
    case LY_SUCCESS: return "Success";
    case LY_EMEM: return "Emem";
    case LY_ESYS: return "Esys";
    case LY_EINVAL: return "Einval";
    case LY_EEXIST: return "Eexist";
    case LY_ENOTFOUND: return "Enotfound";
    case LY_EINT: return "Eint";
    case LY_EVALID: return "Evalid";
    case LY_EDENIED: return "Edenied";
    case LY_EINCOMPLETE: return "Eincomplete";
    case LY_ERECOMPILE: return "Erecompile";
    case LY_ENOT: return "Enot";
    case LY_EOTHER: return "Eother";
    default: return "Eplugin";
    }
}

#endif
